(** Proofs about Model/RouteCmd.v: the text routecmd.build writes (and, since /repo d16ce3d, validates), read by the command parser of
    Model/RouteText.v and turned into a table by Model/TableCmd.v. *)
From Coq Require Import String List NArith ZArith Bool Lia.
From Fabio Require Import Lib.Outcome Lib.Bytes Model.WtF64 Model.TableCmd Model.RouteText Model.RouteCmd Proofs.TableCmd.
Import ListNotations.
Local Open Scope N_scope.

(* ================= the parser is line-local ================= *)
Definition line_ok (pw : str -> outcome wt) (l : str) : bool := is_ok (parse_line pw (drop_cr l)).

(* acceptance of a list of lines is the conjunction over the lines *)
Theorem parse_lines_independent pw ls : is_ok (parse_lines pw ls) = forallb (line_ok pw) ls.
Proof.
  induction ls as [|l ls IH]; cbn [parse_lines forallb]; [reflexivity|].
  unfold line_ok at 1. destruct (parse_line pw (drop_cr l)) as [o| |]; cbn [bind is_ok andb]; auto.
  rewrite <- IH. destruct (parse_lines pw ls); reflexivity.
Qed.

(* ... and the definitions are the definitions of the lines, in order *)
Definition olist {A} (o : option A) : list A := match o with Some a => [a] | None => [] end.

Lemma parse_lines_app pw a b da db :
  parse_lines pw a = Ok da -> parse_lines pw b = Ok db -> parse_lines pw (a ++ b) = Ok (da ++ db).
Proof.
  revert da. induction a as [|l a IH]; cbn [parse_lines app]; intros da Ha Hb.
  - inversion Ha. exact Hb.
  - destruct (parse_line pw (drop_cr l)) as [o| |]; cbn [bind] in *; try discriminate.
    destruct (parse_lines pw a) as [d1| |]; cbn [bind] in *; try discriminate.
    rewrite (IH d1 eq_refl Hb). cbn [bind]. inversion Ha. destruct o; reflexivity.
Qed.

Lemma parse_lines_each pw ls (f : str -> option def) :
  (forall l, In l ls -> parse_line pw (drop_cr l) = Ok (f l)) ->
  parse_lines pw ls = Ok (flat_map (fun l => olist (f l)) ls).
Proof.
  induction ls as [|l ls IH]; intros H; cbn [parse_lines flat_map]; [reflexivity|].
  rewrite (H l (or_introl eq_refl)). cbn [bind]. rewrite IH by (intros; apply H; now right). cbn [bind].
  destruct (f l); reflexivity.
Qed.

(* one bad line rejects the text, whatever the other lines are *)
Theorem one_bad_line_rejects_all pw a l b :
  line_ok pw l = false -> is_ok (parse_lines pw (a ++ l :: b)) = false.
Proof.
  intros H. rewrite parse_lines_independent, forallb_app. cbn [forallb]. rewrite H.
  now rewrite andb_false_r.
Qed.

(* split / join *)
Definition lacks (c : N) (s : str) : bool := negb (existsb (N.eqb c) s).

Lemma lacks_cons c x s : lacks c (x :: s) = negb (c =? x) && lacks c s.
Proof. unfold lacks. cbn [existsb]. now rewrite negb_orb. Qed.

Lemma split_lacks c x : lacks c x = true -> split_byte x c = [x].
Proof.
  induction x as [|y x IH]; intros H; cbn [split_byte]; [reflexivity|].
  rewrite lacks_cons in H. apply andb_true_iff in H as [H1 H2]. apply negb_true_iff in H1.
  rewrite N.eqb_sym, H1, (IH H2). reflexivity.
Qed.

Lemma split_app_sep c x r : lacks c x = true -> split_byte (x ++ c :: r) c = x :: split_byte r c.
Proof.
  induction x as [|y x IH]; intros H; cbn [split_byte app].
  - now rewrite N.eqb_refl.
  - rewrite lacks_cons in H. apply andb_true_iff in H as [H1 H2]. apply negb_true_iff in H1.
    rewrite N.eqb_sym, H1, (IH H2). reflexivity.
Qed.

Lemma split_join c ts : ts <> [] -> forallb (lacks c) ts = true -> split_byte (join ts [c]) c = ts.
Proof.
  induction ts as [|t ts IH]; intros Hne H; [congruence|].
  cbn [forallb] in H. apply andb_true_iff in H as [Ht Hts].
  destruct ts as [|t2 ts].
  - cbn [join]. now apply split_lacks.
  - change (join (t :: t2 :: ts) [c]) with (t ++ [c] ++ join (t2 :: ts) [c]). cbn [app].
    rewrite split_app_sep by assumption. f_equal. apply IH; [discriminate | assumption].
Qed.

(* ================= scanner lemmas ================= *)
Lemma span_all (p : N -> bool) t r :
  forallb p t = true -> (match r with [] => true | c :: _ => negb (p c) end) = true ->
  span p (t ++ r) = (t, r).
Proof.
  induction t as [|c t IH]; intros Ht Hr; cbn [app].
  - destruct r as [|c r]; cbn [span]; [reflexivity|]. apply negb_true_iff in Hr. now rewrite Hr.
  - cbn [forallb] in Ht. apply andb_true_iff in Ht as [Hc Ht]. cbn [span]. rewrite Hc, (IH Ht Hr). reflexivity.
Qed.

Definition ns (c : N) : bool := negb (re_space c).
Definition stops (r : str) : bool := match r with [] => true | c :: _ => re_space c end.
Definition starts_ns (r : str) : bool := match r with [] => false | c :: _ => ns c end.

Lemma go_space_re c : go_space c = false -> re_space c = false.
Proof. unfold go_space. intros H. now apply orb_false_iff in H as [H _]. Qed.

Lemma word_ns t : space_free t = true -> forallb ns t = true.
Proof.
  unfold space_free. intros H. apply negb_true_iff in H. apply forallb_forall. intros c Hc.
  unfold ns. apply negb_true_iff. apply go_space_re.
  destruct (go_space c) eqn:E; auto. exfalso. enough (existsb go_space t = true) by congruence.
  apply existsb_exists. now exists c.
Qed.

Lemma word_starts t r : word_ok t = true -> starts_ns (t ++ r) = true.
Proof.
  unfold word_ok. intros H. apply andb_true_iff in H as [Hn Hs]. destruct t as [|c t]; [discriminate|].
  apply word_ns in Hs. cbn [forallb] in Hs. apply andb_true_iff in Hs as [Hc _]. exact Hc.
Qed.

Lemma ws1_sp r : starts_ns r = true -> ws1 (32 :: r) = Some r.
Proof.
  destruct r as [|c r]; [discriminate|]. cbn [starts_ns]. unfold ns. intros H. apply negb_true_iff in H.
  unfold ws1. cbn [span]. change (re_space 32) with true. cbn iota. rewrite H. reflexivity.
Qed.

Lemma tok_word t r : word_ok t = true -> stops r = true -> tok (t ++ r) = Some (t, r).
Proof.
  intros Hw Hr. unfold tok. apply andb_true_iff in Hw as [Hn Hs].
  rewrite (span_all (fun c => negb (re_space c)) t r).
  - destruct t; [discriminate | reflexivity].
  - exact (word_ns t Hs).
  - destruct r as [|c r]; [reflexivity|]. cbn [stops] in Hr. now rewrite Hr.
Qed.

Lemma quoted_ok q r : no_quote q = true -> quoted (34 :: q ++ 34 :: r) = Some (q, r).
Proof.
  intros H. unfold quoted. rewrite (span_all (fun c => negb (c =? 34)) q (34 :: r)); [reflexivity| |reflexivity].
  unfold no_quote in H. apply negb_true_iff in H. apply forallb_forall. intros c Hc. apply negb_true_iff.
  destruct (c =? 34) eqn:E; auto. exfalso. enough (existsb (N.eqb 34) q = true) by congruence.
  apply existsb_exists. exists c. split; auto. now rewrite N.eqb_sym.
Qed.

(* strings.TrimSpace leaves a string alone that neither starts nor ends with a space *)
Definition ends_ns (s : str) : bool := match rev s with c :: _ => negb (go_space c) | [] => false end.

Lemma trim_space_id s :
  (match s with c :: _ => negb (go_space c) | [] => false end) = true -> ends_ns s = true -> trim_space s = s.
Proof.
  unfold trim_space, ends_ns. intros H1 H2. destruct s as [|c s]; [discriminate|].
  apply negb_true_iff in H1. cbn [drop_while]. rewrite H1.
  destruct (rev (c :: s)) as [|z zs] eqn:E; [discriminate|]. apply negb_true_iff in H2.
  cbn [drop_while]. rewrite H2, <- E. apply rev_involutive.
Qed.

Lemma ends_ns_app a b : ends_ns b = true -> ends_ns (a ++ b) = true.
Proof.
  unfold ends_ns. rewrite rev_app_distr. destruct (rev b) as [|c r]; [discriminate|]. now cbn [app].
Qed.

Lemma ends_ns_word t : word_ok t = true -> ends_ns t = true.
Proof.
  intros H. apply andb_true_iff in H as [Hn Hs]. unfold ends_ns.
  destruct (rev t) as [|c r] eqn:E.
  - apply (f_equal (@rev N)) in E. rewrite rev_involutive in E. subst t. discriminate.
  - apply negb_true_iff. destruct (go_space c) eqn:G; auto. exfalso.
    unfold space_free in Hs. apply negb_true_iff in Hs. enough (existsb go_space t = true) by congruence.
    apply existsb_exists. exists c. split; auto. apply in_rev. rewrite E. now left.
Qed.

Lemma ends_ns_quote x : ends_ns (x ++ [34]) = true.
Proof. unfold ends_ns. rewrite rev_app_distr. reflexivity. Qed.

Lemma drop_cr_id s : ends_ns s = true -> drop_cr s = s.
Proof.
  unfold ends_ns, drop_cr. destruct (rev s) as [|c r]; [discriminate|]. intros H.
  destruct (N.eq_dec c 13) as [->|N]; [discriminate|].
  destruct c as [|p]; auto. do 4 (destruct p; auto). congruence.
Qed.

(* strings.Fields of words joined by single spaces *)
Lemma fields_aux_word t r cur :
  space_free t = true -> fields_aux (t ++ r) cur = fields_aux r (rev t ++ cur).
Proof.
  revert cur. induction t as [|c t IH]; intros cur H; [reflexivity|].
  unfold space_free in H. cbn [existsb] in H. rewrite negb_orb in H. apply andb_true_iff in H as [Hc Ht].
  apply negb_true_iff in Hc. cbn [app fields_aux]. rewrite Hc. rewrite IH by exact Ht.
  cbn [rev]. now rewrite <- app_assoc.
Qed.

Lemma fields_join os : forallb word_ok os = true -> fields (join os sp) = os.
Proof.
  unfold fields. induction os as [|o os IH]; intros H; [reflexivity|].
  cbn [forallb] in H. apply andb_true_iff in H as [Ho Hos].
  pose proof Ho as Ho'. apply andb_true_iff in Ho' as [Hn Hs].
  destruct os as [|o2 os].
  - cbn [join]. rewrite <- (app_nil_r o) at 1. rewrite fields_aux_word by exact Hs. cbn [fields_aux].
    rewrite app_nil_r. destruct (rev o) eqn:E.
    + apply (f_equal (@rev N)) in E. rewrite rev_involutive in E. subst o. discriminate.
    + rewrite <- E. now rewrite rev_involutive.
  - change (join (o :: o2 :: os) sp) with (o ++ sp ++ join (o2 :: os) sp).
    rewrite fields_aux_word by exact Hs. rewrite app_nil_r. unfold sp at 1. cbn [app fields_aux].
    change (go_space 32) with true. cbn iota.
    destruct (rev o) eqn:E.
    + apply (f_equal (@rev N)) in E. rewrite rev_involutive in E. subst o. discriminate.
    + rewrite <- E, rev_involutive. f_equal. apply IH. exact Hos.
Qed.

(* ================= one generated line, read by the parser ================= *)
Definition s_weight_l : str := [32;119;101;105;103;104;116;32].
Definition s_tags_l : str := [32;116;97;103;115;32].
Definition s_opts_l : str := [32;111;112;116;115;32].
Definition s_route_add_l : str := [114;111;117;116;101;32;97;100;100;32].

Definition Wq (w : option str) : str := match w with None => [] | Some w => s_weight_l ++ w end.
Definition Tq (q : option str) : str := match q with None => [] | Some q => s_tags_l ++ 34 :: q ++ [34] end.
Definition Oq (q : option str) : str := match q with None => [] | Some q => s_opts_l ++ 34 :: q ++ [34] end.

Definition owf (p : str -> bool) (o : option str) : Prop := forall x, o = Some x -> p x = true.

Lemma stops_TO q o : stops (Tq q ++ Oq o) = true.
Proof. destruct q, o; reflexivity. Qed.
Lemma stops_WTO w q o : stops (Wq w ++ Tq q ++ Oq o) = true.
Proof. destruct w, q, o; reflexivity. Qed.
Lemma stops_O o : stops (Oq o) = true.
Proof. destruct o; reflexivity. Qed.

Lemma grp_weight w q o : owf word_ok w ->
  opt_group (kw_tok k_weight) (Wq w ++ Tq q ++ Oq o) = (w, Tq q ++ Oq o).
Proof.
  intros Hw. destruct w as [x|].
  - specialize (Hw x eq_refl). unfold opt_group, kw_tok, Wq, s_weight_l. rewrite <- app_assoc. cbn [app].
    rewrite ws1_sp by reflexivity. cbn [obind].
    change (lit k_weight (119 :: 101 :: 105 :: 103 :: 104 :: 116 :: 32 :: x ++ Tq q ++ Oq o))
      with (Some (32 :: x ++ Tq q ++ Oq o)). cbn [obind].
    rewrite ws1_sp by (now apply word_starts). cbn [obind].
    rewrite tok_word by (auto using stops_TO). reflexivity.
  - cbn [Wq app]. destruct q, o; reflexivity.
Qed.

Lemma grp_tags q o : owf no_quote q ->
  opt_group (kw_quoted k_tags) (Tq q ++ Oq o) = (q, Oq o).
Proof.
  intros Hq. destruct q as [x|].
  - specialize (Hq x eq_refl). unfold opt_group, kw_quoted, Tq, s_tags_l. cbn [app]. rewrite <- app_assoc. cbn [app].
    rewrite ws1_sp by reflexivity. cbn [obind].
    change (lit k_tags (116 :: 97 :: 103 :: 115 :: 32 :: 34 :: x ++ 34 :: Oq o))
      with (Some (32 :: 34 :: x ++ 34 :: Oq o)). cbn [obind].
    rewrite ws1_sp by reflexivity. cbn [obind].
    rewrite quoted_ok by assumption. reflexivity.
  - cbn [Tq app]. destruct o; reflexivity.
Qed.

Lemma grp_opts o : owf no_quote o ->
  opt_group (kw_quoted k_opts) (Oq o) = (o, []).
Proof.
  intros Ho. destruct o as [x|].
  - specialize (Ho x eq_refl). unfold opt_group, kw_quoted, Oq, s_opts_l. cbn [app].
    rewrite ws1_sp by reflexivity. cbn [obind].
    change (lit k_opts (111 :: 112 :: 116 :: 115 :: 32 :: 34 :: x ++ [34]))
      with (Some (32 :: 34 :: x ++ [34])). cbn [obind].
    rewrite ws1_sp by reflexivity. cbn [obind].
    rewrite quoted_ok by assumption. reflexivity.
  - reflexivity.
Qed.

Lemma match_add_line svc route dst w q o :
  word_ok svc = true -> word_ok route = true -> word_ok dst = true ->
  owf word_ok w -> owf no_quote q -> owf no_quote o ->
  match_add (32 :: svc ++ 32 :: route ++ 32 :: dst ++ Wq w ++ Tq q ++ Oq o) = Some (svc, route, dst, w, q, o).
Proof.
  intros Hs Hr Hd Hw Hq Ho. unfold match_add.
  rewrite ws1_sp by (now apply word_starts). cbn [obind].
  rewrite tok_word by auto. cbn [obind].
  rewrite ws1_sp by (now apply word_starts). cbn [obind].
  rewrite tok_word by auto. cbn [obind].
  rewrite ws1_sp by (now apply word_starts). cbn [obind].
  rewrite tok_word by (auto using stops_WTO). cbn [obind].
  rewrite grp_weight by assumption. rewrite grp_tags by assumption. rewrite grp_opts by assumption.
  reflexivity.
Qed.

Definition line_of svc route dst w q o : str :=
  s_route_add_l ++ svc ++ 32 :: route ++ 32 :: dst ++ Wq w ++ Tq q ++ Oq o.

Lemma ends_ns_line svc route dst w q o : word_ok dst = true -> owf word_ok w ->
  ends_ns (line_of svc route dst w q o) = true.
Proof.
  intros Hd Hw. unfold line_of. apply ends_ns_app. apply ends_ns_app.
  change (32 :: route ++ 32 :: dst ++ Wq w ++ Tq q ++ Oq o) with ((32 :: route) ++ 32 :: dst ++ Wq w ++ Tq q ++ Oq o).
  apply ends_ns_app. change (32 :: dst ++ Wq w ++ Tq q ++ Oq o) with ([32] ++ dst ++ Wq w ++ Tq q ++ Oq o).
  apply ends_ns_app.
  destruct o as [x|].
  - rewrite !app_assoc. unfold Oq. change (34 :: x ++ [34]) with ((34 :: x) ++ [34]). rewrite !app_assoc. apply ends_ns_quote.
  - cbn [Oq]. rewrite app_nil_r. destruct q as [x|].
    + rewrite !app_assoc. unfold Tq. change (34 :: x ++ [34]) with ((34 :: x) ++ [34]). rewrite !app_assoc. apply ends_ns_quote.
    + cbn [Tq]. rewrite app_nil_r. destruct w as [x|].
      * apply ends_ns_app. unfold Wq. apply ends_ns_app. apply ends_ns_word. now apply Hw.
      * cbn [Wq]. rewrite app_nil_r. now apply ends_ns_word.
Qed.

Section Line.
  Variable pw : str -> outcome wt.

  Lemma parse_line_of svc route dst w q o :
    word_ok svc = true -> word_ok route = true -> word_ok dst = true ->
    owf word_ok w -> owf no_quote q -> owf no_quote o ->
    parse_line pw (line_of svc route dst w q o) =
      match parse_weight pw w with
      | Ok f => Ok (Some (mk CmdAdd svc route dst f (parse_tags (ostr q)) (parse_opts (ostr o))))
      | _ => Err e_weight_value
      end.
  Proof.
    intros Hs Hr Hd Hw Hq Ho. unfold parse_line.
    rewrite trim_space_id; [| reflexivity | now apply ends_ns_line].
    unfold line_of, s_route_add_l. cbn [app].
    change (is_comment (114 :: 111 :: 117 :: 116 :: 101 :: 32 :: 97 :: 100 :: 100 :: 32 :: svc ++ 32 :: route ++ 32 :: dst ++ Wq w ++ Tq q ++ Oq o)) with false.
    cbn [orb at_end].
    change (route_kw k_add (114 :: 111 :: 117 :: 116 :: 101 :: 32 :: 97 :: 100 :: 100 :: 32 :: svc ++ 32 :: route ++ 32 :: dst ++ Wq w ++ Tq q ++ Oq o))
      with (Some (32 :: svc ++ 32 :: route ++ 32 :: dst ++ Wq w ++ Tq q ++ Oq o)).
    unfold parse_route_add. rewrite match_add_line by assumption.
    destruct (parse_weight pw w); reflexivity.
  Qed.
End Line.

(* ================= the generated text denotes what it was made from ================= *)
Lemma lacks_app c a b : lacks c (a ++ b) = lacks c a && lacks c b.
Proof. unfold lacks. now rewrite existsb_app, negb_orb. Qed.

Lemma lacks_join c sep ts : forallb (lacks c) ts = true -> lacks c sep = true -> lacks c (join ts sep) = true.
Proof.
  intros H Hs. induction ts as [|t ts IH]; [reflexivity|].
  cbn [forallb] in H. apply andb_true_iff in H as [Ht Hts]. destruct ts as [|t2 ts]; [exact Ht|].
  change (join (t :: t2 :: ts) sep) with (t ++ sep ++ join (t2 :: ts) sep).
  now rewrite !lacks_app, Ht, Hs, IH.
Qed.

Lemma space_free_lacks c t : go_space c = true -> space_free t = true -> lacks c t = true.
Proof.
  intros Hc H. unfold space_free in H. apply negb_true_iff in H. unfold lacks. apply negb_true_iff.
  destruct (existsb (N.eqb c) t) eqn:E; auto. apply existsb_exists in E as (x & Hx & Ex). apply N.eqb_eq in Ex. subst x.
  enough (existsb go_space t = true) by congruence. apply existsb_exists. now exists c.
Qed.

Lemma forallb_impl {A} (p q : A -> bool) l : (forall x, p x = true -> q x = true) -> forallb p l = true -> forallb q l = true.
Proof. intros H Hp. apply forallb_forall. intros x Hx. apply H. rewrite forallb_forall in Hp. now apply Hp. Qed.

Definition wopt (w : str) : option str := match w with [] => None | _ => Some w end.
Definition topt (ts : list str) : option str := match ts with [] => None | _ => Some (join ts [44]) end.
Definition oopt (os : list str) : option str := match os with [] => None | _ => Some (join os sp) end.

Lemma parse_weight_wopt pw w : parse_weight pw (wopt w) = parse_weight pw (Some w).
Proof. destruct w; reflexivity. Qed.

Definition tag_cond (t : str) : bool := no_quote t && no_comma t && no_nl t && no_cr t && beq (trim_space t) t.

Lemma tag_cond_inv t : tag_cond t = true ->
  no_quote t = true /\ no_comma t = true /\ no_nl t = true /\ no_cr t = true /\ trim_space t = t.
Proof.
  unfold tag_cond. intros H. repeat (apply andb_true_iff in H as [H ?]). apply beq_eq in H0. auto.
Qed.

Section Denote.
  Variable pw : str -> outcome wt.
  Variable canon : str -> option str.
  Variable gl : str -> bool.

  Lemma tags_ok_inv ts : tags_ok ts = true -> ts <> [] -> ts <> [[]] /\ forallb tag_cond ts = true.
  Proof.
    intros H Hne. destruct ts as [|t ts]; [congruence|].
    destruct t as [|c t]; [destruct ts as [|t2 ts]|]; cbn [tags_ok] in H; try discriminate; (split; [discriminate | exact H]).
  Qed.

  Lemma join_nonempty (ts : list str) c : ts <> [] -> ts <> [[]] -> join ts [c] <> [].
  Proof.
    destruct ts as [|t [|t2 r]]; intros H1 H2; [congruence| |].
    - change (join [t] [c]) with t. intros E. apply H2. now rewrite E.
    - change (join (t :: t2 :: r) [c]) with (t ++ [c] ++ join (t2 :: r) [c]). destruct t; discriminate.
  Qed.

  Lemma parse_tags_topt ts : tags_ok ts = true -> parse_tags (ostr (topt ts)) = ts.
  Proof.
    intros H. destruct ts as [|t ts]; [reflexivity|].
    destruct (tags_ok_inv _ H) as (H1 & H2); [discriminate|].
    cbn [topt ostr]. unfold parse_tags.
    pose proof (join_nonempty (t :: ts) 44 ltac:(discriminate) H1) as Hn.
    destruct (join (t :: ts) [44]) eqn:E; [congruence|]. rewrite <- E.
    rewrite split_join; [| discriminate |].
    - apply map_id_in. intros x Hx. rewrite forallb_forall in H2. specialize (H2 x Hx). now apply tag_cond_inv in H2.
    - eapply forallb_impl; [|exact H2]. intros x Hx. now apply tag_cond_inv in Hx.
  Qed.

  Lemma parse_opts_oopt os : opts_ok os = true -> parse_opts (ostr (oopt os)) = opts_map os.
  Proof.
    intros H. destruct os as [|o os]; [reflexivity|]. cbn [oopt ostr]. unfold parse_opts, opts_map.
    rewrite fields_join; [reflexivity|]. unfold opts_ok in H.
    eapply forallb_impl; [|exact H]. intros x Hx. now apply andb_true_iff in Hx as [Hx _].
  Qed.

  Lemma owf_topt ts : tags_ok ts = true -> owf no_quote (topt ts).
  Proof.
    intros H x Hx. destruct ts as [|t ts]; [discriminate|]. unfold topt in Hx. injection Hx as <-.
    destruct (tags_ok_inv _ H) as (_ & H2); [discriminate|].
    change (lacks 34 (join (t :: ts) [44]) = true).
    apply (lacks_join 34 [44]); [|reflexivity]. eapply forallb_impl; [|exact H2].
    intros x Hx. now apply tag_cond_inv in Hx.
  Qed.

  Lemma owf_oopt os : opts_ok os = true -> owf no_quote (oopt os).
  Proof.
    intros H x Hx. destruct os as [|o os]; [discriminate|]. unfold oopt in Hx. injection Hx as <-.
    unfold opts_ok in H.
    change (lacks 34 (join (o :: os) sp) = true).
    apply (lacks_join 34 sp); [|reflexivity]. eapply forallb_impl; [|exact H].
    intros x Hx. now apply andb_true_iff in Hx as [_ Hx].
  Qed.

  Lemma owf_wopt w : weight_ok pw w = true -> owf word_ok (wopt w).
  Proof.
    intros H x Hx. destruct w as [|c w]; [discriminate|]. inversion Hx; subst x.
    cbn [weight_ok] in H. apply andb_true_iff in H as [H _]. unfold word_ok. now rewrite H.
  Qed.

  (* since d16ce3d the text of a command is the plain concatenation of its parts, always *)
  Lemma render_is_line i :
    render_intent i =
      line_of (i_svc i) (i_route i) (i_dst i) (wopt (i_weight i)) (topt (i_tags i)) (oopt (i_opts i)).
  Proof.
    unfold render_intent, line_of.
    change s_route_add with s_route_add_l. f_equal. f_equal. unfold sp at 1 2. cbn [app]. f_equal. f_equal. f_equal. f_equal.
    f_equal; [destruct (i_weight i); reflexivity|]. f_equal.
    - destruct (i_tags i); reflexivity.
    - destruct (i_opts i); reflexivity.
  Qed.

  Definition expr := intent_expressible pw canon gl.

  Lemma expr_inv i : expr i = true ->
    word_ok (i_svc i) = true /\ word_ok (i_route i) = true /\ gl (snd (hostpath (i_route i))) = true
    /\ gl (lower (fst (hostpath (i_route i)))) = true
    /\ word_ok (i_dst i) = true /\ (exists u, canon (i_dst i) = Some u) /\ weight_ok pw (i_weight i) = true
    /\ tags_ok (i_tags i) = true /\ opts_ok (i_opts i) = true.
  Proof.
    unfold expr, intent_expressible. intros Hb.
    repeat (apply andb_true_iff in Hb as [Hb ?]).
    assert (Hc : exists u, canon (i_dst i) = Some u) by (destruct (canon (i_dst i)); [eauto | discriminate]).
    split; [unfold word_ok; apply andb_true_iff; split; assumption|].
    repeat (split; [assumption|]). assumption.
  Qed.

  (* (1), character level: the line parses to the definition the intent stands for *)
  Theorem render_parse_line i : expr i = true ->
    exists d, intent_def pw i = Ok d /\ parse_line pw (render_intent i) = Ok (Some d)
              /\ ends_ns (render_intent i) = true.
  Proof.
    intros H. destruct (expr_inv i H) as (Hs & Hr & Hg & Hh & Hd & Hc & Hw & Ht & Ho).
    rewrite render_is_line.
    rewrite parse_line_of by (auto using owf_wopt, owf_topt, owf_oopt).
    rewrite parse_weight_wopt, parse_tags_topt, parse_opts_oopt by assumption.
    unfold intent_def.
    assert (Hok : is_ok (parse_weight pw (Some (i_weight i))) = true).
    { destruct (i_weight i) as [|c w] eqn:E; [reflexivity|]. cbn [weight_ok] in Hw.
      apply andb_true_iff in Hw as [_ Hw]. exact Hw. }
    destruct (parse_weight pw (Some (i_weight i))) as [f| |]; try discriminate.
    eexists. split; [reflexivity|]. split; [reflexivity|].
    apply ends_ns_line; auto using owf_wopt.
  Qed.

  (* no line break in the line of an expressible registration: c = LF or CR *)
  Lemma render_lacks c i : c = 10 \/ c = 13 -> expr i = true -> lacks c (render_intent i) = true.
  Proof.
    intros Hc0 H. destruct (expr_inv i H) as (Hs & Hr & Hg & Hh & Hd & Hc & Hw & Ht & Ho).
    assert (Hsp : go_space c = true) by (destruct Hc0 as [-> | ->]; reflexivity).
    assert (K : forall k, In k [s_route_add_l; [32]; [34]; [44]; sp; s_weight_l; s_tags_l; s_opts_l] -> lacks c k = true).
    { intros k Hk. cbn [In] in Hk. destruct Hc0 as [-> | ->];
        repeat (destruct Hk as [<-|Hk]; [reflexivity|]); destruct Hk. }
    rewrite render_is_line. unfold line_of.
    assert (W : forall t, word_ok t = true -> lacks c t = true).
    { intros t Hwd. apply andb_true_iff in Hwd as [_ Hwd]. now apply space_free_lacks. }
    change (32 :: i_route i ++ 32 :: i_dst i ++ ?x) with ([32] ++ i_route i ++ [32] ++ i_dst i ++ x).
    rewrite !lacks_app, (W _ Hs), (W _ Hr), (W _ Hd).
    rewrite (K s_route_add_l), (K [32]) by (cbn [In]; auto 10). cbn [andb].
    apply andb_true_iff. split; [|apply andb_true_iff; split].
    - pose proof (owf_wopt _ Hw) as Hx. destruct (wopt (i_weight i)) as [x|]; [|reflexivity].
      unfold Wq. rewrite lacks_app. rewrite (W x (Hx x eq_refl)), (K s_weight_l) by (cbn [In]; auto 10). reflexivity.
    - destruct (i_tags i) as [|t ts] eqn:E; [reflexivity|]. rewrite <- E in *.
      destruct (tags_ok_inv _ Ht) as (_ & H2); [rewrite E; discriminate|].
      rewrite E at 1. cbn [topt Tq]. rewrite <- E.
      change (34 :: join (i_tags i) [44] ++ [34]) with ([34] ++ join (i_tags i) [44] ++ [34]).
      rewrite !lacks_app. rewrite (K s_tags_l), (K [34]) by (cbn [In]; auto 10).
      rewrite (lacks_join c [44]); [reflexivity| |apply K; cbn [In]; auto 10].
      eapply forallb_impl; [|exact H2]. intros x Hx. apply tag_cond_inv in Hx as (_ & _ & Hn & Hr' & _).
      destruct Hc0 as [-> | ->]; assumption.
    - destruct (i_opts i) as [|o os] eqn:E; [reflexivity|]. rewrite <- E in *.
      unfold opts_ok in Ho.
      rewrite E at 1. cbn [oopt Oq]. rewrite <- E.
      change (34 :: join (i_opts i) sp ++ [34]) with ([34] ++ join (i_opts i) sp ++ [34]).
      rewrite !lacks_app. rewrite (K s_opts_l), (K [34]) by (cbn [In]; auto 10).
      rewrite (lacks_join c sp); [reflexivity| |apply K; cbn [In]; auto 10].
      eapply forallb_impl; [|exact Ho]. intros x Hx. apply andb_true_iff in Hx as [Hx _]. now apply W.
  Qed.

  Lemma render_lacks_nl i : expr i = true -> lacks 10 (render_intent i) = true.
  Proof. apply render_lacks. now left. Qed.
  Lemma render_lacks_cr i : expr i = true -> lacks 13 (render_intent i) = true.
  Proof. apply render_lacks. now right. Qed.
End Denote.

(* ================= the intents build makes are well-formed ================= *)
Lemma existsb_rev {A} (p : A -> bool) l : existsb p (rev l) = existsb p l.
Proof.
  induction l as [|x l IH]; [reflexivity|]. cbn [rev existsb]. rewrite existsb_app, IH. cbn [existsb].
  rewrite orb_false_r. apply orb_comm.
Qed.

Lemma space_free_rev l : space_free (rev l) = space_free l.
Proof. unfold space_free. now rewrite existsb_rev. Qed.

Lemma space_free_app a b : space_free (a ++ b) = space_free a && space_free b.
Proof. unfold space_free. now rewrite existsb_app, negb_orb. Qed.

Lemma space_free_skipn n l : space_free l = true -> space_free (skipn n l) = true.
Proof.
  intros H. rewrite <- (firstn_skipn n l) in H. rewrite space_free_app in H. now apply andb_true_iff in H as [_ H].
Qed.

Lemma fields_aux_words s : forall cur, space_free cur = true -> forallb word_ok (fields_aux s cur) = true.
Proof.
  assert (Hrev : forall c l, space_free (c :: l) = true -> word_ok (rev (c :: l)) = true).
  { intros c l H. unfold word_ok. rewrite space_free_rev, H. cbn [rev]. destruct (rev l); reflexivity. }
  induction s as [|c s IH]; intros cur Hc; cbn [fields_aux].
  - destruct cur as [|x cur]; [reflexivity|]. cbn [forallb]. now rewrite Hrev.
  - destruct (go_space c) eqn:E.
    + destruct cur as [|x cur]; [now apply IH|]. cbn [forallb]. rewrite Hrev by exact Hc. now apply IH.
    + apply IH. unfold space_free in *. cbn [existsb]. rewrite E. exact Hc.
Qed.

Lemma fields_words s : forallb word_ok (fields s) = true.
Proof. now apply fields_aux_words. Qed.

Lemma split_byte_space_free s c : space_free s = true -> forallb space_free (split_byte s c) = true.
Proof.
  induction s as [|x s IH]; intros H; [reflexivity|]. cbn [split_byte].
  assert (Hx : go_space x = false /\ space_free s = true).
  { unfold space_free in *. cbn [existsb] in H. rewrite negb_orb in H. apply andb_true_iff in H as [H1 H2].
    now apply negb_true_iff in H1. }
  destruct Hx as [Hx Hs]. specialize (IH Hs).
  destruct (x =? c); [cbn [forallb]; now rewrite IH|].
  destruct (split_byte s c) as [|w ws]; [cbn [forallb]; rewrite andb_true_r; unfold space_free; cbn [existsb]; now rewrite Hx|].
  cbn [forallb] in *. apply andb_true_iff in IH as [H1 H2].
  rewrite H2, andb_true_r. unfold space_free in *. cbn [existsb]. now rewrite Hx.
Qed.

Lemma drop_while_head (p : N -> bool) l : match drop_while p l with [] => True | c :: _ => p c = false end.
Proof. induction l as [|x l IH]; cbn [drop_while]; auto. destruct (p x) eqn:E; auto. Qed.

Lemma drop_while_suffix (p : N -> bool) l : exists x, l = x ++ drop_while p l.
Proof.
  induction l as [|c l (x & IH)]; cbn [drop_while]; [now exists []|].
  destruct (p c); [exists (c :: x); cbn [app]; now rewrite <- IH | now exists []].
Qed.

Lemma trim_space_idem s : trim_space (trim_space s) = trim_space s.
Proof.
  set (a := drop_while go_space s). set (b := drop_while go_space (rev a)).
  assert (Et : trim_space s = rev b) by reflexivity. rewrite Et.
  pose proof (drop_while_head go_space s) as Ha. fold a in Ha.
  pose proof (drop_while_head go_space (rev a)) as Hb. fold b in Hb.
  destruct (drop_while_suffix go_space (rev a)) as (x & Hx). fold b in Hx.
  destruct b as [|c b']; [reflexivity|].
  apply (f_equal (@rev N)) in Hx. rewrite rev_involutive, rev_app_distr in Hx.
  apply trim_space_id.
  - destruct (rev (c :: b')) as [|h t'] eqn:E.
    + apply (f_equal (@rev N)) in E. rewrite rev_involutive in E. discriminate.
    + rewrite Hx in Ha. cbn [app] in Ha. now rewrite Ha.
  - unfold ends_ns. rewrite rev_involutive. now rewrite Hb.
Qed.

Lemma intents_wf env prefix g i : In i (intents env prefix g) -> intent_wf i = true.
Proof.
  unfold intents. intros Hi. apply in_flat_map in Hi as (tag & _ & Hi). unfold intent_of_tag in Hi.
  destruct (parse_url_prefix_tag env prefix tag) as [[r o]|]; [|destruct Hi].
  set (addr := reg_addr g) in *.
  assert (Inv : forall os st, forallb word_ok os = true ->
            space_free (snd (fst st)) = true /\ forallb word_ok (snd st) = true ->
            let st' := fold_left (opt_step addr) os st in
            space_free (snd (fst st')) = true /\ forallb word_ok (snd st') = true).
  { induction os as [|o1 os IH]; intros st Hos Hst; [exact Hst|]. cbn [fold_left].
    cbn [forallb] in Hos. apply andb_true_iff in Hos as [Ho1 Hos]. apply IH; [exact Hos|].
    destruct st as [[dst w] ro]. cbn [fst snd] in Hst. destruct Hst as [Hw Hro].
    pose proof Ho1 as Ho1'. apply andb_true_iff in Ho1' as [_ Hsf].
    unfold opt_step.
    repeat (match goal with |- context [if ?b then _ else _] => destruct b end; cbn [fst snd]; auto).
    - split; [now apply space_free_skipn | exact Hro].
    - pose proof (split_byte_space_free _ 44 (space_free_skipn (length s_redirect_eq) _ Hsf)) as Hsp.
      destruct (split_byte _ 44) as [|code [|url [|? ?]]]; cbn [fst snd]; auto.
      split; [exact Hw|]. rewrite forallb_app, Hro. cbn [forallb]. rewrite andb_true_r.
      cbn [forallb] in Hsp. apply andb_true_iff in Hsp as [Hcode _].
      unfold word_ok. rewrite space_free_app, Hcode. reflexivity.
    - split; [exact Hw|]. rewrite forallb_app, Hro. cbn [forallb]. now rewrite Ho1. }
  specialize (Inv (fields o) (s_http ++ addr ++ [47], [], []) (fields_words o) (conj eq_refl eq_refl)).
  cbn zeta in Inv. destruct (fold_left (opt_step addr) (fields o) _) as [[dst w] ro]. cbn [fst snd] in Inv.
  destruct Hi as [<-|[]]. unfold intent_wf. cbn [i_weight i_opts i_tags]. destruct Inv as [-> ->]. cbn [andb].
  apply forallb_forall. intros t Ht. unfold svc_tags in Ht. apply filter_In in Ht as [Ht _].
  apply in_map_iff in Ht as (raw & <- & _). apply beq_eq. apply trim_space_idem.
Qed.

(* ================= what the options of a routing tag mean ================= *)
(* An independent reading of build's option loop: the destination is set by the LAST option among
   proto=tcp|https|grpc|grpcs and well-formed redirect=<code>,<url> (default http://addr/); the
   weight is the literal of the LAST weight= option; the options passed on are, in order, all the
   others, a well-formed redirect as redirect=<code>, a malformed redirect not at all. *)
Definition redirect_parts (o : str) : option (str * str) :=
  if has_prefix o s_redirect_eq then
    match split_byte (skipn (length s_redirect_eq) o) 44 with [code; url] => Some (code, url) | _ => None end
  else None.
Definition known_proto (o : str) : option str :=
  if beq o (bs "proto=tcp") then Some (bs "tcp://")
  else if beq o (bs "proto=https") then Some (bs "https://")
  else if beq o (bs "proto=grpcs") then Some (bs "grpcs://")
  else if beq o (bs "proto=grpc") then Some (bs "grpc://") else None.
Definition is_weight_opt (o : str) : bool :=
  match known_proto o with Some _ => false | None => has_prefix o s_weight_eq end.
Definition dst_of_opt (addr o : str) : option str :=
  match known_proto o with
  | Some scheme => Some (scheme ++ addr)
  | None => if has_prefix o s_weight_eq then None
            else match redirect_parts o with Some (_, url) => Some url | None => None end
  end.
Definition kept_opt (o : str) : list str :=
  match known_proto o with
  | Some _ => []
  | None => if has_prefix o s_weight_eq then []
            else if has_prefix o s_redirect_eq
                 then match redirect_parts o with Some (code, _) => [s_redirect_eq ++ code] | None => [] end
                 else [o]
  end.
Fixpoint last_some {A} (f : str -> option A) (os : list str) : option A :=
  match os with
  | [] => None
  | o :: os' => match last_some f os' with Some x => Some x | None => f o end
  end.

Definition dst_spec (addr : str) (os : list str) : str :=
  match last_some (dst_of_opt addr) os with Some d => d | None => s_http ++ addr ++ [47] end.
Definition weight_spec (os : list str) : str :=
  match last_some (fun o => if is_weight_opt o then Some (skipn (length s_weight_eq) o) else None) os with
  | Some w => w | None => [] end.
Definition opts_spec (os : list str) : list str := flat_map kept_opt os.

Lemma opt_loop_general addr os : forall d w ro,
  fold_left (opt_step addr) os (d, w, ro)
  = (match last_some (dst_of_opt addr) os with Some x => x | None => d end,
     match last_some (fun o => if is_weight_opt o then Some (skipn (length s_weight_eq) o) else None) os with
     | Some x => x | None => w end,
     ro ++ flat_map kept_opt os).
Proof.
  induction os as [|o os IH]; intros d w ro; cbn [fold_left last_some flat_map].
  - now rewrite app_nil_r.
  - unfold opt_step at 2. unfold dst_of_opt at 2, is_weight_opt at 2, kept_opt at 1, known_proto, redirect_parts.
    destruct (beq o (bs "proto=tcp")); [rewrite IH; destruct (last_some _ os), (last_some _ os); reflexivity|].
    destruct (beq o (bs "proto=https")); [rewrite IH; destruct (last_some _ os), (last_some _ os); reflexivity|].
    destruct (beq o (bs "proto=grpcs")); [rewrite IH; destruct (last_some _ os), (last_some _ os); reflexivity|].
    destruct (beq o (bs "proto=grpc")); [rewrite IH; destruct (last_some _ os), (last_some _ os); reflexivity|].
    destruct (has_prefix o s_weight_eq); [rewrite IH; destruct (last_some _ os), (last_some _ os); reflexivity|].
    destruct (has_prefix o s_redirect_eq).
    + destruct (split_byte _ 44) as [|code [|url [|? ?]]]; rewrite IH; cbn [app];
        rewrite <- ?app_assoc; destruct (last_some _ os), (last_some _ os); reflexivity.
    + rewrite IH. rewrite <- app_assoc. destruct (last_some _ os), (last_some _ os); reflexivity.
Qed.

(* the destination, weight and options of every intent build makes are the declarative reading of
   the option string of its routing tag *)
Theorem intent_of_tag_meaning env prefix g tag i : In i (intent_of_tag env prefix g tag) ->
  exists route opts, parse_url_prefix_tag env prefix tag = Some (route, opts)
    /\ i_svc i = g_name g /\ i_route i = route /\ i_tags i = svc_tags prefix g
    /\ i_dst i = dst_spec (reg_addr g) (fields opts)
    /\ i_weight i = weight_spec (fields opts)
    /\ i_opts i = opts_spec (fields opts).
Proof.
  unfold intent_of_tag. destruct (parse_url_prefix_tag env prefix tag) as [[route opts]|]; [|intros []].
  rewrite opt_loop_general. intros [<-|[]]. exists route, opts. cbn [i_svc i_route i_tags i_dst i_weight i_opts app].
  repeat split; reflexivity.
Qed.

(* examples of the reading: the last proto= wins, a later redirect overrides it, the last weight=
   wins, unknown proto= values and other options pass through in order, a malformed redirect vanishes *)
Example opts_meaning_examples :
  let addr := bs "10.0.0.1:80" in
  dst_spec addr [bs "proto=tcp"; bs "strip=/x"; bs "proto=https"] = bs "https://10.0.0.1:80"
  /\ dst_spec addr [bs "proto=https"; bs "redirect=301,http://x.com/"; bs "weight=1"] = bs "http://x.com/"
  /\ dst_spec addr [bs "redirect=301"; bs "proto=http"] = bs "http://10.0.0.1:80/"
  /\ weight_spec [bs "weight=0.2"; bs "proto=tcp"; bs "weight=0.3"] = bs "0.3"
  /\ opts_spec [bs "proto=http"; bs "weight=1"; bs "redirect=301,http://x.com/"; bs "redirect=302"; bs "strip=/x"; bs "proto=tcp"]
     = [bs "proto=http"; bs "redirect=301"; bs "strip=/x"].
Proof. cbn zeta. repeat split; vm_compute; reflexivity. Qed.

(* ================= the table built from expressible registrations ================= *)
Lemma in_insert_desc x r rs : In x (insert_desc r rs) <-> x = r \/ In x rs.
Proof.
  induction rs as [|y rs IH]; cbn [insert_desc In].
  - intuition auto.
  - destruct (str_ltb _ _); cbn [In]; rewrite ?IH; intuition auto.
Qed.

Lemma in_sort_routes x rs : In x (sort_routes rs) <-> In x rs.
Proof.
  unfold sort_routes. induction rs as [|r rs IH]; cbn [fold_right In]; [reflexivity|].
  rewrite in_insert_desc, IH. intuition auto.
Qed.

Lemma in_flat_sort t x : In x (flat (sort_table t)) <-> In x (flat t).
Proof.
  rewrite !in_flat. unfold sort_table. split.
  - intros (h & rs' & r & tg & Hh & Hr & Htg & ->). apply in_map_iff in Hh as ([h0 rs] & E & Hin).
    cbn [fst snd] in E. injection E as <- <-. apply (proj1 (in_sort_routes _ _)) in Hr. exists h0, rs, r, tg. repeat split; auto.
  - intros (h & rs & r & tg & Hh & Hr & Htg & ->). exists h, (sort_routes rs), r, tg. repeat split; auto.
    + apply in_map_iff. now exists (h, rs).
    + now apply (proj2 (in_sort_routes _ _)).
Qed.

Lemma intent_def_fields pw i d : intent_def pw i = Ok d ->
  d_cmd d = CmdAdd /\ d_svc d = i_svc i /\ d_src d = i_route i /\ d_dst d = i_dst i
  /\ d_tags d = i_tags i /\ d_opts d = opts_map (i_opts i).
Proof.
  unfold intent_def. destruct (parse_weight pw (Some (i_weight i))); try discriminate.
  intros H; inversion H; subst d. cbn. repeat split; reflexivity.
Qed.

Definition trip (d : def) (url : str) : str * str * target :=
  (lower (fst (hostpath (d_src d))), snd (hostpath (d_src d)),
   new_target (d_svc d) url (d_w d) (d_tags d) (d_opts d)).

Section TableDomain.
  Variable pw : str -> outcome wt.
  Variable canon : str -> option str.
  Variable gl : str -> bool.

  Definition addable (d : def) : Prop :=
    d_cmd d = CmdAdd /\ d_src d <> [] /\ d_dst d <> [] /\ (exists u, canon (d_dst d) = Some u)
    /\ gl (snd (hostpath (d_src d))) = true /\ gl (lower (fst (hostpath (d_src d)))) = true.

  Lemma add_route_ok t d : addable d -> exists t', add_route canon gl t d = Ok t'.
  Proof.
    intros (Hc & Hs & Hd & [u Hu] & Hg & Hh). unfold add_route.
    destruct (hostpath (d_src d)) as [h p]. cbn [fst snd] in Hg, Hh. rewrite Hu, Hg, Hh.
    destruct (d_src d); [congruence|]. destruct (d_dst d); [congruence|].
    destruct (lookup (lower h) t) as [rs0|]; [destruct (find p rs0)|]; eauto.
  Qed.

  (* what addRoute checks on the empty table it checks on no other table less *)
  Lemma add_route_nil_addable d t1 : d_cmd d = CmdAdd -> add_route canon gl [] d = Ok t1 -> addable d.
  Proof.
    intros Hc. unfold add_route, addable. destruct (hostpath (d_src d)) as [h p]. cbn [fst snd lookup].
    destruct (d_src d); [discriminate|]. destruct (d_dst d); [discriminate|].
    destruct (canon _) as [u|]; [|discriminate].
    destruct (gl (lower h)); [|discriminate]. destruct (gl p); [|discriminate]. intros _.
    repeat split; auto; try discriminate. eauto.
  Qed.

  Lemma run_from_adds ds : forall t, Forall addable ds ->
    exists t', run_from canon gl t ds = Ok t'
      /\ (forall x, In x (flat t) -> In x (flat t'))
      /\ (forall d, In d ds -> exists url tg, canon (d_dst d) = Some url
             /\ In (lower (fst (hostpath (d_src d))), snd (hostpath (d_src d)), tg) (flat t')
             /\ same_target (d_svc d) url (w_clamp (d_w d)) (d_tags d) tg = true)
      /\ (forall x, In x (flat t') -> In x (flat t) \/ exists d url, In d ds /\ canon (d_dst d) = Some url /\ x = trip d url).
  Proof.
    induction ds as [|d ds IH]; intros t Hall.
    - exists t. cbn [run_from]. repeat split; auto. intros d [].
    - inversion Hall as [|? ? Hd Hds]; subst.
      destruct (add_route_ok t d Hd) as [t1 H1].
      destruct (IH t1 Hds) as (t' & Hrun & Hmono & Hin & Horig).
      exists t'. cbn [run_from]. unfold apply_def. destruct Hd as (Hc & _). rewrite Hc, H1. cbn [bind].
      split; [exact Hrun|].
      destruct (add_accumulates canon gl t d t1 H1) as (url & Hu & Hcase). cbn zeta in Hcase.
      assert (Hm1 : forall x, In x (flat t) -> In x (flat t1)).
      { destruct Hcase as [(X & Y & E1 & E2)|[-> _]]; auto. intros x Hx. rewrite E1 in Hx. rewrite E2.
        apply in_app_or in Hx as [Hx|Hx]; apply in_or_app; [now left | right; now right]. }
      split; [auto|]. split.
      + intros d' [<-|Hd'].
        * exists url. destruct Hcase as [(X & Y & E1 & E2)|[-> (tg & Htg & Hs)]].
          -- eexists. split; [exact Hu|]. split; [apply Hmono; rewrite E2; apply in_elt | apply same_target_new].
          -- exists tg. auto.
        * now apply Hin.
      + intros x Hx. destruct (Horig x Hx) as [Hx1|(d' & u' & Hd' & Hu' & ->)].
        * destruct Hcase as [(X & Y & E1 & E2)|[-> _]]; auto. rewrite E2 in Hx1. rewrite E1.
          apply in_app_or in Hx1 as [Hx1|[Hx1|Hx1]].
          -- left. apply in_or_app. now left.
          -- right. exists d, url. split; [now left|]. split; auto.
          -- left. apply in_or_app. now right.
        * right. exists d', u'. split; [now right | auto].
  Qed.

  (* ---- a text made of good lines: each line alone is one addable 'route add' ---- *)
  Definition good_line (l : str) : Prop :=
    lacks 10 l = true /\ lacks 13 l = true /\ exists d, parse_line pw l = Ok (Some d) /\ addable d.

  Definition ldef (l : str) : option def := match parse_line pw l with Ok (Some d) => Some d | _ => None end.

  Lemma drop_cr_lacks l : lacks 13 l = true -> drop_cr l = l.
  Proof.
    intros H. unfold drop_cr. destruct (rev l) as [|c r] eqn:E; [reflexivity|].
    destruct (N.eq_dec c 13) as [->|N].
    - exfalso. unfold lacks in H. apply negb_true_iff in H.
      enough (existsb (N.eqb 13) l = true) by congruence. apply existsb_exists. exists 13. split; [|reflexivity].
      apply in_rev. rewrite E. now left.
    - destruct c as [|p]; auto. do 4 (destruct p; auto). congruence.
  Qed.

  (* the table of ANY list of good lines: accepted, holds the target of every line, nothing else *)
  Theorem lines_table (ls : list str) : Forall good_line ls ->
    exists t, new_table pw canon gl (config_text ls) = Ok t
      /\ (forall l d, In l ls -> parse_line pw l = Ok (Some d) -> exists url tg, canon (d_dst d) = Some url
             /\ In (lower (fst (hostpath (d_src d))), snd (hostpath (d_src d)), tg) (flat t)
             /\ same_target (d_svc d) url (w_clamp (d_w d)) (d_tags d) tg = true)
      /\ (forall x, In x (flat t) -> exists l d url, In l ls /\ parse_line pw l = Ok (Some d)
             /\ canon (d_dst d) = Some url /\ x = trip d url).
  Proof.
    intros Hall. rewrite Forall_forall in Hall.
    assert (Hparse : parse pw (config_text ls) = Ok (flat_map (fun l => olist (ldef l)) ls)).
    { destruct ls as [|l0 ls0] eqn:Els; [reflexivity|]. rewrite <- Els in *.
      unfold parse, config_text. rewrite split_join.
      - apply parse_lines_each. intros l Hl. destruct (Hall l Hl) as (_ & Hcr & d & Hd & _).
        rewrite drop_cr_lacks by assumption. unfold ldef. now rewrite Hd.
      - rewrite Els. discriminate.
      - apply forallb_forall. intros l Hl. now destruct (Hall l Hl). }
    assert (Hadd : Forall addable (flat_map (fun l => olist (ldef l)) ls)).
    { apply Forall_forall. intros d Hd. apply in_flat_map in Hd as (l & Hl & Hd).
      destruct (Hall l Hl) as (_ & _ & d' & Hd' & Ha). unfold ldef in Hd. rewrite Hd' in Hd.
      destruct Hd as [<-|[]]. exact Ha. }
    destruct (run_from_adds _ [] Hadd) as (t0 & Hrun & _ & Hin & Horig).
    exists (sort_table t0). unfold new_table. rewrite Hparse. cbn [bind]. unfold run. rewrite Hrun. cbn [bind].
    split; [reflexivity|]. split.
    - intros l d Hl Hd.
      assert (Hdin : In d (flat_map (fun l => olist (ldef l)) ls)).
      { apply in_flat_map. exists l. split; auto. unfold ldef. rewrite Hd. now left. }
      destruct (Hin d Hdin) as (url & tg & Hu & Htg & Hs). exists url, tg.
      split; [exact Hu|]. split; [now apply (proj2 (in_flat_sort _ _)) | exact Hs].
    - intros x Hx. apply (proj1 (in_flat_sort _ _)) in Hx. destruct (Horig x Hx) as [[]|(d & url & Hd & Hu & ->)].
      apply in_flat_map in Hd as (l & Hl & Hd). unfold ldef in Hd.
      destruct (parse_line pw l) as [[d'|]| |] eqn:E; cbn [olist In] in Hd; try contradiction.
      destruct Hd as [<-|[]]. exists l, d', url. auto.
  Qed.

  (* ---- a rendered line that passes validate is a good line ---- *)
  Lemma drop_while_keeps (p : N -> bool) a c b : p c = false ->
    exists y, drop_while p (a ++ 32 :: c :: b) = y ++ c :: b.
  Proof.
    intros Hc. induction a as [|x a (y & IH)]; cbn [app drop_while].
    - destruct (p 32); [rewrite Hc; now exists [] | now exists [32]].
    - destruct (p x); [now exists y|]. exists (x :: a ++ [32]). cbn [app]. now rewrite <- app_assoc.
  Qed.

  Definition s_route_add_nosp : str := [114;111;117;116;101;32;97;100;100].

  Lemma trim_route_add rest : exists z, trim_space (s_route_add_l ++ rest) = s_route_add_nosp ++ z.
  Proof.
    unfold trim_space, s_route_add_l. cbn [app drop_while]. change (go_space 114) with false. cbn iota.
    change (114 :: 111 :: 117 :: 116 :: 101 :: 32 :: 97 :: 100 :: 100 :: 32 :: rest)
      with (s_route_add_nosp ++ 32 :: rest).
    rewrite rev_app_distr. cbn [rev app]. rewrite <- !app_assoc. cbn [app].
    change (rev s_route_add_nosp) with (100 :: [100;97;32;101;116;117;111;114]).
    destruct (drop_while_keeps go_space (rev rest) 100 [100;97;32;101;116;117;111;114] eq_refl) as (y & ->).
    exists (rev y). rewrite rev_app_distr. reflexivity.
  Qed.

  Lemma parse_line_route_add rest :
    exists z, parse_line pw (s_route_add_l ++ rest) = bind (parse_route_add pw z) (fun d => Ok (Some d)).
  Proof.
    destruct (trim_route_add rest) as (z & E). exists z. unfold parse_line. rewrite E.
    unfold s_route_add_nosp. cbn [app]. reflexivity.
  Qed.

  Lemma parse_route_add_cmd z d : parse_route_add pw z = Ok d -> d_cmd d = CmdAdd.
  Proof.
    unfold parse_route_add. destruct (match_add z) as [[[[[[? ?] ?] ?] ?] ?]|]; [|discriminate].
    destruct (parse_weight pw _); try discriminate. intros H; inversion H. reflexivity.
  Qed.

  Lemma validate_lacks c l : c = 10 \/ c = 13 -> validate pw canon gl l = true -> lacks c l = true.
  Proof.
    intros Hc H. unfold validate in H. apply andb_true_iff in H as [H _]. apply negb_true_iff in H.
    unfold lacks. apply negb_true_iff. destruct (existsb (N.eqb c) l) eqn:E; auto.
    apply existsb_exists in E as (x & Hx & Ex). apply N.eqb_eq in Ex. subst x.
    enough (existsb (fun c => (c =? 13) || (c =? 10)) l = true) by congruence.
    apply existsb_exists. exists c. split; auto. destruct Hc as [-> | ->]; reflexivity.
  Qed.

  Lemma render_starts i : exists rest, render_intent i = s_route_add_l ++ rest.
  Proof. unfold render_intent. change s_route_add with s_route_add_l. eauto. Qed.

  Theorem validate_good_line i : validate pw canon gl (render_intent i) = true -> good_line (render_intent i).
  Proof.
    intros H. pose proof (validate_lacks 10 _ (or_introl eq_refl) H) as Hnl.
    pose proof (validate_lacks 13 _ (or_intror eq_refl) H) as Hcr.
    split; [exact Hnl|]. split; [exact Hcr|].
    unfold validate in H. apply andb_true_iff in H as [_ H].
    unfold new_table, parse in H. rewrite split_lacks in H by exact Hnl. cbn [parse_lines] in H.
    rewrite drop_cr_lacks in H by exact Hcr.
    destruct (render_starts i) as (rest & E). destruct (parse_line_route_add rest) as (z & Hz).
    rewrite <- E in Hz. rewrite Hz in *.
    destruct (parse_route_add pw z) as [d| |] eqn:Ed; cbn [bind] in H; try discriminate.
    exists d. split; [reflexivity|].
    pose proof (parse_route_add_cmd z d Ed) as Hc.
    unfold run in H. cbn [run_from] in H. unfold apply_def in H. rewrite Hc in H.
    destruct (add_route canon gl [] d) as [t1| |] eqn:Ea; cbn [bind] in H; try discriminate.
    eapply add_route_nil_addable; eauto.
  Qed.

  (* ================= theorems for ALL catalog entries (since d16ce3d) ================= *)
  Notation build' := (build pw canon gl).

  Lemma validate_intent_inv i : validate_intent pw canon gl i = true ->
    validate pw canon gl (render_intent i) = true
    /\ lacks 34 (join (i_tags i) [44]) = true /\ lacks 34 (join (i_opts i) sp) = true
    /\ exists d, parse pw (render_intent i) = Ok [d]
                 /\ d_svc d = i_svc i /\ d_src d = i_route i /\ d_dst d = i_dst i.
  Proof.
    unfold validate_intent, validate_cmd, validate, reads_back. intros H.
    repeat (apply andb_true_iff in H as [H ?]).
    split; [now rewrite H, H0|]. split; [exact H3|]. split; [exact H2|].
    destruct (parse pw (render_intent i)) as [[|d [|? ?]]| |]; try discriminate.
    exists d. split; [reflexivity|]. repeat (apply andb_true_iff in H1 as [H1 ?]).
    apply beq_eq in H1, H4, H5. auto.
  Qed.

  (* (1) every emitted command is accepted by NewTable on its own, is one line, and (since
     9891ca3) reads back as the service, route and destination it was made from *)
  Theorem emitted_accepted_alone env prefix g c : In c (build' env prefix g) ->
    is_ok (new_table pw canon gl c) = true /\ lacks 10 c = true /\ lacks 13 c = true
    /\ exists i, In i (intents env prefix g) /\ c = render_intent i.
  Proof.
    unfold build. intros H. apply in_map_iff in H as (i & <- & Hi). apply filter_In in Hi as [Hi Hv].
    apply validate_intent_inv in Hv as (Hv & _).
    split; [unfold validate in Hv; now apply andb_true_iff in Hv as [_ Hv]|].
    split; [now apply (validate_lacks 10); auto|]. split; [now apply (validate_lacks 13); auto|]. eauto.
  Qed.

  Theorem emitted_reads_back env prefix g c : In c (build' env prefix g) ->
    exists i d, In i (intents env prefix g) /\ c = render_intent i /\ parse pw c = Ok [d]
                /\ d_svc d = g_name g /\ d_src d = i_route i /\ d_dst d = i_dst i.
  Proof.
    unfold build. intros H. apply in_map_iff in H as (i & <- & Hi). apply filter_In in Hi as [Hi Hv].
    apply validate_intent_inv in Hv as (_ & _ & _ & d & Hp & H1 & H2 & H3).
    exists i, d. repeat split; auto.
    unfold intents in Hi. apply in_flat_map in Hi as (tag & _ & Hi). unfold intent_of_tag in Hi.
    destruct (parse_url_prefix_tag env prefix tag) as [[r o]|]; [|destruct Hi].
    destruct (fold_left _ _ _) as [[dst w] ro]. destruct Hi as [<-|[]]. exact H1.
  Qed.

  Lemma emitted_good env prefix g c : In c (build' env prefix g) -> good_line c.
  Proof.
    unfold build. intros H. apply in_map_iff in H as (i & <- & Hi). apply filter_In in Hi as [Hi Hv].
    apply validate_intent_inv in Hv as (Hv & _). now apply validate_good_line.
  Qed.

  Lemma in_insert_line x y l : In x (insert_line_desc y l) <-> x = y \/ In x l.
  Proof.
    induction l as [|z l IH]; cbn [insert_line_desc In]; [intuition auto|].
    destruct (str_ltb z y); cbn [In]; rewrite ?IH; intuition auto.
  Qed.
  Lemma in_sort_lines x l : In x (sort_lines_desc l) <-> In x l.
  Proof.
    unfold sort_lines_desc. induction l as [|y l IH]; cbn [fold_right In]; [reflexivity|].
    rewrite in_insert_line, IH. intuition auto.
  Qed.

  (* (2) whatever the catalog entries are -- expressible or not -- the text makeConfig assembles
     from the emitted commands of any set of services is accepted by NewTable; the table holds the
     target of every emitted command and nothing else *)
  Theorem emitted_table_accepted env prefix (regs : list reg) :
    let lines := sort_lines_desc (flat_map (build' env prefix) regs) in
    exists t, new_table pw canon gl (config_text lines) = Ok t
      /\ (forall g c d, In g regs -> In c (build' env prefix g) -> parse_line pw c = Ok (Some d) ->
            exists url tg, canon (d_dst d) = Some url
             /\ In (lower (fst (hostpath (d_src d))), snd (hostpath (d_src d)), tg) (flat t)
             /\ same_target (d_svc d) url (w_clamp (d_w d)) (d_tags d) tg = true)
      /\ (forall x, In x (flat t) -> exists g c d url, In g regs /\ In c (build' env prefix g)
             /\ parse_line pw c = Ok (Some d) /\ canon (d_dst d) = Some url /\ x = trip d url).
  Proof.
    cbn zeta.
    assert (Hgood : Forall good_line (sort_lines_desc (flat_map (build' env prefix) regs))).
    { apply Forall_forall. intros c Hc. apply (proj1 (in_sort_lines _ _)) in Hc. apply in_flat_map in Hc as (g & Hg & Hc).
      eapply emitted_good; eauto. }
    destruct (lines_table _ Hgood) as (t & Ht & Hin & Horig). exists t. split; [exact Ht|]. split.
    - intros g c d Hg Hc Hd. apply (Hin c d); auto. apply (proj2 (in_sort_lines _ _)). apply in_flat_map. eauto.
    - intros x Hx. destruct (Horig x Hx) as (c & d & url & Hc & Hd & Hu & ->).
      apply (proj1 (in_sort_lines _ _)) in Hc. apply in_flat_map in Hc as (g & Hg & Hc). exists g, c, d, url. auto.
  Qed.

  (* (3) a dropped registration never removes another service's commands: what an entry emits
     depends on that entry alone, and every emitted command is a line of the pushed text,
     whatever the other entries are *)
  Theorem dropped_never_removes_others env prefix (regs : list reg) g c :
    In g regs -> In c (build' env prefix g) ->
    In c (sort_lines_desc (flat_map (build' env prefix) regs)).
  Proof. intros Hg Hc. apply (proj2 (in_sort_lines _ _)). apply in_flat_map. eauto. Qed.

  (* (3), history form.  The catalog is read again on every health change: a history is a list of
     rounds, each a list of catalog entries.  The text pushed in a round is a function of that
     round's entries alone -- whatever was registered, accepted or dropped in earlier rounds
     (the model of build has no state; the correspondence run replays histories in one process
     of the real code) -- and the text of every round of every history is accepted by NewTable. *)
  Definition round_text env prefix (regs : list reg) : str :=
    config_text (sort_lines_desc (flat_map (build' env prefix) regs)).
  Definition history_texts env prefix (rounds : list (list reg)) : list str :=
    map (round_text env prefix) rounds.

  Theorem history_independent env prefix (before1 before2 after1 after2 : list (list reg)) regs :
    nth_error (history_texts env prefix (before1 ++ regs :: after1)) (length before1)
    = nth_error (history_texts env prefix (before2 ++ regs :: after2)) (length before2).
  Proof.
    unfold history_texts. rewrite !map_app. cbn [map].
    rewrite !nth_error_app2 by (rewrite map_length; auto).
    rewrite !map_length, !Nat.sub_diag. reflexivity.
  Qed.

  Theorem history_rounds_accepted env prefix (rounds : list (list reg)) :
    Forall (fun text => exists t, new_table pw canon gl text = Ok t) (history_texts env prefix rounds).
  Proof.
    unfold history_texts. apply Forall_forall. intros text Hin. apply in_map_iff in Hin as (regs & <- & _).
    destruct (emitted_table_accepted env prefix regs) as (t & Ht & _). now exists t.
  Qed.

  (* ================= the expressible domain ================= *)
  Let ex := expr pw canon gl.

  Lemma expr_good_line i : ex i = true -> good_line (render_intent i) /\ exists d, intent_def pw i = Ok d /\ parse_line pw (render_intent i) = Ok (Some d).
  Proof.
    intros H. destruct (render_parse_line pw canon gl i H) as (d & Hd & Hp & _).
    destruct (expr_inv pw canon gl i H) as (Hs & Hr & Hg & Hh & Hdst & Hc & Hw & Ht & Ho).
    split; [|eauto]. split; [now apply render_lacks_nl with (pw := pw) (canon := canon) (gl := gl)|].
    split; [now apply render_lacks_cr with (pw := pw) (canon := canon) (gl := gl)|].
    exists d. split; [exact Hp|].
    destruct (intent_def_fields pw i d Hd) as (F0 & F1 & F2 & F3 & F4 & F5).
    unfold addable. rewrite F0, F2, F3. repeat split; auto.
    - intros E1. rewrite E1 in Hr. discriminate.
    - intros E1. rewrite E1 in Hdst. discriminate.
  Qed.

  (* an expressible registration is never dropped *)
  Theorem expressible_validates i : ex i = true -> validate pw canon gl (render_intent i) = true.
  Proof.
    intros H. destruct (expr_good_line i H) as [Hg _].
    assert (Hall : Forall good_line [render_intent i]) by (constructor; [exact Hg | constructor]).
    destruct (lines_table _ Hall) as (t & Ht & _). change (config_text [render_intent i]) with (render_intent i) in Ht.
    destruct Hg as (Hnl & Hcr & _). unfold validate. rewrite Ht. cbn [is_ok]. rewrite andb_true_r.
    apply negb_true_iff. destruct (existsb _ (render_intent i)) eqn:E; auto.
    apply existsb_exists in E as (x & Hx & Ex). exfalso.
    unfold lacks in Hnl, Hcr. apply negb_true_iff in Hnl, Hcr.
    apply orb_true_iff in Ex as [Ex|Ex]; apply N.eqb_eq in Ex; subst x.
    - enough (existsb (N.eqb 13) (render_intent i) = true) by congruence. apply existsb_exists. now exists 13.
    - enough (existsb (N.eqb 10) (render_intent i) = true) by congruence. apply existsb_exists. now exists 10.
  Qed.

  Lemma expr_parse i : ex i = true ->
    exists d, intent_def pw i = Ok d /\ parse pw (render_intent i) = Ok [d].
  Proof.
    intros H. destruct (render_parse_line pw canon gl i H) as (d & Hd & Hp & He). exists d. split; [exact Hd|].
    unfold parse. rewrite split_lacks by (now apply render_lacks_nl with (pw := pw) (canon := canon) (gl := gl)).
    cbn [parse_lines]. rewrite drop_cr_id by assumption. rewrite Hp. reflexivity.
  Qed.

  (* ... also by the read-back check of 9891ca3 *)
  Theorem expressible_validates_intent i : ex i = true -> validate_intent pw canon gl i = true.
  Proof.
    intros H. pose proof (expressible_validates i H) as Hv.
    destruct (expr_inv pw canon gl i H) as (Hs & Hr & Hg & Hh & Hdst & Hc & Hw & Ht & Ho).
    destruct (expr_parse i H) as (d & Hd & Hp).
    destruct (intent_def_fields pw i d Hd) as (_ & F1 & F2 & F3 & _).
    unfold validate_intent, validate_cmd, reads_back. unfold validate in Hv. apply andb_true_iff in Hv as [Hv1 Hv2].
    rewrite Hv1, Hv2, Hp, F1, F2, F3, !beq_refl. cbn [andb]. rewrite !andb_true_r.
    apply andb_true_iff. split.
    - pose proof (owf_topt _ Ht) as Hq. destruct (i_tags i) as [|t ts] eqn:E; [reflexivity|].
      exact (Hq _ eq_refl).
    - pose proof (owf_oopt _ Ho) as Hq. destruct (i_opts i) as [|o os] eqn:E; [reflexivity|].
      exact (Hq _ eq_refl).
  Qed.

  Theorem build_expressible env prefix g : expressible pw canon gl env prefix g = true ->
    build' env prefix g = map render_intent (intents env prefix g).
  Proof.
    intros H. unfold build. f_equal. apply filter_all_true. intros i Hi.
    unfold expressible in H. rewrite forallb_forall in H. now apply expressible_validates_intent, H.
  Qed.

  (* ---- which commands validate lets through: the converse of expressible_validates_intent ---- *)
  Lemma span_fst_all (p : N -> bool) s : forallb p (fst (span p s)) = true.
  Proof.
    induction s as [|c s IH]; cbn [span]; [reflexivity|]. destruct (p c) eqn:E; [|reflexivity].
    destruct (span p s) as [a b]. cbn [fst forallb] in *. now rewrite E, IH.
  Qed.

  Lemma tok_word_out s t r : tok s = Some (t, r) -> t <> [] /\ forallb ns t = true.
  Proof.
    unfold tok. pose proof (span_fst_all (fun c => negb (re_space c)) s) as H.
    destruct (span (fun c => negb (re_space c)) s) as [a b]. cbn [fst] in H.
    destruct a; [discriminate|]. intros E. inversion E; subst. split; [discriminate | exact H].
  Qed.

  Lemma parse_route_add_words z d : parse_route_add pw z = Ok d ->
    (d_svc d <> [] /\ forallb ns (d_svc d) = true) /\ (d_src d <> [] /\ forallb ns (d_src d) = true)
    /\ (d_dst d <> [] /\ forallb ns (d_dst d) = true).
  Proof.
    unfold parse_route_add, match_add, obind.
    destruct (ws1 z) as [r0|]; [|discriminate]. destruct (tok r0) as [[svc r1]|] eqn:T1; [|discriminate].
    destruct (ws1 r1) as [r2|]; [|discriminate]. destruct (tok r2) as [[src r3]|] eqn:T2; [|discriminate].
    destruct (ws1 r3) as [r4|]; [|discriminate]. destruct (tok r4) as [[dst r5]|] eqn:T3; [|discriminate].
    destruct (opt_group _ r5) as [w r6]. destruct (opt_group _ r6) as [tg r7]. destruct (opt_group _ r7) as [op r8].
    destruct (at_end r8); [|discriminate]. destruct (parse_weight pw w); try discriminate.
    intros H; inversion H; subst d. cbn [mk d_svc d_src d_dst].
    split; [exact (tok_word_out _ _ _ T1)|]. split; [exact (tok_word_out _ _ _ T2) | exact (tok_word_out _ _ _ T3)].
  Qed.

  Lemma wordre_go t : t <> [] -> forallb ns t = true -> lacks 11 t = true -> word_ok t = true.
  Proof.
    intros Hne Hns Hv. unfold word_ok. destruct t as [|c t]; [congruence|]. cbn [nonempty andb].
    unfold space_free. apply negb_true_iff. destruct (existsb go_space (c :: t)) eqn:E; auto.
    apply existsb_exists in E as (x & Hx & Ex). rewrite forallb_forall in Hns. specialize (Hns x Hx).
    unfold ns in Hns. apply negb_true_iff in Hns. unfold go_space in Ex. rewrite Hns in Ex. cbn [orb] in Ex.
    apply N.eqb_eq in Ex. subst x. unfold lacks in Hv. apply negb_true_iff in Hv.
    enough (existsb (N.eqb 11) (c :: t) = true) by congruence. apply existsb_exists. now exists 11.
  Qed.

  Lemma lacks_join_inv c sep ts : lacks c (join ts sep) = true -> forallb (lacks c) ts = true.
  Proof.
    induction ts as [|t ts IH]; intros H; [reflexivity|]. destruct ts as [|t2 ts].
    - cbn [join] in H. cbn [forallb]. now rewrite H.
    - change (join (t :: t2 :: ts) sep) with (t ++ sep ++ join (t2 :: ts) sep) in H.
      rewrite !lacks_app in H. apply andb_true_iff in H as [Ht H]. apply andb_true_iff in H as [_ H].
      cbn [forallb]. rewrite Ht. cbn [andb]. exact (IH H).
  Qed.

  (* a command that validate lets through, made from a well-formed intent (what build makes: the
     weight and the options are Fields tokens, the tags are trimmed), comes from an expressible
     registration -- or has a comma in a tag, or a sole empty tag (finding F-C14-2, region
     F_C14_altering), or a vertical tab in the name / route / destination (harmless) *)
  Theorem validated_characterised i : intent_wf i = true -> validate_intent pw canon gl i = true ->
    ex i = true \/ comma_in_tag i = true \/ sole_empty_tag i = true \/ vtab_in_word i = true.
  Proof.
    intros Hwf Hval.
    destruct (vtab_in_word i) eqn:Ev; [auto|]. destruct (comma_in_tag i) eqn:Ec; [auto|].
    destruct (sole_empty_tag i) eqn:Ee; [auto|]. left.
    destruct (validate_intent_inv i Hval) as (Hv & Hq1 & Hq2 & d & Hp & F1 & F2 & F3).
    destruct (validate_good_line i Hv) as (Hnl & Hcr & d' & Hd' & Ha).
    assert (d' = d).
    { unfold parse in Hp. rewrite split_lacks in Hp by exact Hnl. cbn [parse_lines] in Hp.
      rewrite drop_cr_lacks, Hd' in Hp by exact Hcr. cbn [bind] in Hp. now inversion Hp. }
    subst d'.
    (* the three arguments are words *)
    destruct (render_starts i) as (rest & E). destruct (parse_line_route_add rest) as (z & Hz).
    rewrite <- E, Hd' in Hz.
    destruct (parse_route_add pw z) as [d0| |] eqn:Ez; cbn [bind] in Hz; try discriminate.
    inversion Hz; subst d0. clear Hz.
    destruct (parse_route_add_words z d Ez) as ((N1 & W1) & (N2 & W2) & (N3 & W3)).
    rewrite F1 in N1, W1. rewrite F2 in N2, W2. rewrite F3 in N3, W3.
    unfold vtab_in_word in Ev. apply negb_true_iff in Ev. change (lacks 11 (i_svc i ++ i_route i ++ i_dst i) = true) in Ev.
    rewrite !lacks_app in Ev. apply andb_true_iff in Ev as [V1 Ev]. apply andb_true_iff in Ev as [V2 V3].
    pose proof (wordre_go _ N1 W1 V1) as Hs. pose proof (wordre_go _ N2 W2 V2) as Hr. pose proof (wordre_go _ N3 W3 V3) as Hdst.
    unfold intent_wf in Hwf. apply andb_true_iff in Hwf as [Hwf Htr]. apply andb_true_iff in Hwf as [Hws Hwo].
    assert (Ow : owf word_ok (wopt (i_weight i))).
    { intros x Hx. destruct (i_weight i) as [|c w]; [discriminate|]. inversion Hx; subst x. unfold word_ok. now rewrite Hws. }
    assert (Ot : owf no_quote (topt (i_tags i))).
    { intros x Hx. destruct (i_tags i) as [|t ts] eqn:Et; [discriminate|]. unfold topt in Hx. injection Hx as <-. exact Hq1. }
    assert (Oo : owf no_quote (oopt (i_opts i))).
    { intros x Hx. destruct (i_opts i) as [|o os] eqn:Eo; [discriminate|]. unfold oopt in Hx. injection Hx as <-. exact Hq2. }
    (* the weight literal is accepted *)
    pose proof Hd' as Hline. rewrite render_is_line, parse_line_of in Hline by assumption.
    assert (Hw : weight_ok pw (i_weight i) = true).
    { destruct (i_weight i) as [|c w] eqn:Ew; [reflexivity|]. cbn [weight_ok]. rewrite Hws. cbn [andb].
      cbn [wopt parse_weight] in Hline. destruct (pw (c :: w)); [reflexivity | discriminate | discriminate]. }
    (* addRoute's checks *)
    destruct Ha as (_ & _ & _ & Hc & Hg & Hh). rewrite F2 in Hg, Hh. rewrite F3 in Hc.
    (* tags *)
    assert (Ht : tags_ok (i_tags i) = true).
    { assert (Hall : forallb tag_cond (i_tags i) = true).
      { apply forallb_forall. intros t Hin. unfold tag_cond.
        pose proof (lacks_join_inv 34 [44] _ Hq1) as Q. rewrite forallb_forall in Q.
        rewrite forallb_forall in Htr.
        assert (Hnc : no_comma t = true).
        { unfold no_comma. apply negb_true_iff. destruct (existsb (N.eqb 44) t) eqn:E44; auto.
          unfold comma_in_tag in Ec. exfalso.
          assert (X : existsb (fun t => existsb (N.eqb 44) t) (i_tags i) = true) by (apply existsb_exists; now exists t).
          rewrite X in Ec. discriminate. }
        assert (Hl : forall c, lacks c (render_intent i) = true -> lacks c t = true).
        { intros c Hc0. rewrite render_is_line in Hc0. unfold line_of in Hc0.
          destruct (i_tags i) as [|t0 ts0] eqn:Et; [destruct Hin|]. rewrite <- Et in *.
          assert (Hj : lacks c (join (i_tags i) [44]) = true).
          { rewrite Et in Hc0 at 1. cbn [topt Tq] in Hc0. rewrite <- Et in Hc0.
            change (34 :: join (i_tags i) [44] ++ [34]) with ([34] ++ join (i_tags i) [44] ++ [34]) in Hc0.
            change (32 :: i_route i ++ 32 :: i_dst i ++ ?x) with ([32] ++ i_route i ++ [32] ++ i_dst i ++ x) in Hc0.
            rewrite !lacks_app in Hc0.
            repeat match goal with H : _ && _ = true |- _ => apply andb_true_iff in H as [? ?] end.
            assumption. }
          pose proof (lacks_join_inv c [44] _ Hj) as Q2. rewrite forallb_forall in Q2. now apply Q2. }
        pose proof (Q t Hin) as Q34. pose proof (Hl 10 Hnl) as Q10. pose proof (Hl 13 Hcr) as Q13.
        change (lacks 34 t) with (no_quote t) in Q34. change (lacks 10 t) with (no_nl t) in Q10.
        change (lacks 13 t) with (no_cr t) in Q13.
        rewrite Q34, Hnc, Q10, Q13, (Htr t Hin). reflexivity. }
      destruct (i_tags i) as [|t [|t2 r]] eqn:Et; [reflexivity| |destruct t; exact Hall].
      destruct t; [unfold sole_empty_tag in Ee; rewrite Et in Ee; discriminate | exact Hall]. }
    (* options *)
    assert (Ho : opts_ok (i_opts i) = true).
    { unfold opts_ok. apply forallb_forall. intros o Hin.
      pose proof (lacks_join_inv 34 sp _ Hq2) as Q. rewrite forallb_forall in Q, Hwo.
      pose proof (Q o Hin) as Q34. change (lacks 34 o) with (no_quote o) in Q34. now rewrite (Hwo o Hin), Q34. }
    unfold ex, expr, intent_expressible. rewrite Hs, Hr, Hg, Hh, Hdst, Hw, Ht, Ho.
    destruct Hc as [u ->]. reflexivity.
  Qed.

  (* for catalog entries: whatever build emits comes from an expressible routing tag, or lies in
     the syntactic region of F-C14-2, or has a vertical tab in a word *)
  Theorem emitted_characterised env prefix g c : In c (build' env prefix g) ->
    exists i, In i (intents env prefix g) /\ c = render_intent i
      /\ (ex i = true \/ comma_in_tag i = true \/ sole_empty_tag i = true \/ vtab_in_word i = true).
  Proof.
    unfold build. intros H. apply in_map_iff in H as (i & <- & Hi). apply filter_In in Hi as [Hi Hv].
    exists i. split; [exact Hi|]. split; [reflexivity|].
    exact (validated_characterised i (intents_wf env prefix g i Hi) Hv).
  Qed.

  (* (1) for an expressible catalog entry: every routing tag yields a command (none is dropped),
     route.Parse accepts it as exactly one definition, and that definition says what the entry says *)
  Theorem build_parse_denotes env prefix g :
    expressible pw canon gl env prefix g = true ->
    Forall (fun i => In (render_intent i) (build' env prefix g)
                  /\ exists d, parse pw (render_intent i) = Ok [d]
                      /\ intent_def pw i = Ok d
                      /\ d_cmd d = CmdAdd /\ d_svc d = g_name g /\ d_src d = i_route i /\ d_dst d = i_dst i
                      /\ parse_weight pw (Some (i_weight i)) = Ok (d_w d)
                      /\ d_tags d = svc_tags prefix g /\ d_opts d = opts_map (i_opts i))
           (intents env prefix g).
  Proof.
    intros Hex. pose proof (build_expressible env prefix g Hex) as Hb.
    unfold expressible in Hex. apply Forall_forall. intros i Hi.
    rewrite forallb_forall in Hex. specialize (Hex i Hi).
    split; [rewrite Hb; now apply in_map|].
    destruct (render_parse_line pw canon gl i Hex) as (d & Hd & Hp & He). exists d.
    assert (Hi' : i_svc i = g_name g /\ i_tags i = svc_tags prefix g).
    { unfold intents in Hi. apply in_flat_map in Hi as (tag & _ & Hi). unfold intent_of_tag in Hi.
      destruct (parse_url_prefix_tag env prefix tag) as [[r o]|]; [|destruct Hi].
      destruct (fold_left _ _ _) as [[dst w] ro]. destruct Hi as [<-|[]]. split; reflexivity. }
    destruct Hi' as [Hn Ht].
    split.
    - unfold parse. rewrite split_lacks by (now apply render_lacks_nl with (pw := pw) (canon := canon) (gl := gl)).
      cbn [parse_lines]. rewrite drop_cr_id by assumption. rewrite Hp. reflexivity.
    - split; [exact Hd|]. unfold intent_def in Hd.
      destruct (parse_weight pw (Some (i_weight i))) as [f| |]; try discriminate.
      inversion Hd; subst d. cbn [d_cmd d_svc d_src d_dst d_w d_tags d_opts]. repeat split; auto.
  Qed.

  (* (2) on the domain, for any order of the lines *)
  Theorem table_on_domain (is : list intent) :
    Forall (fun i => ex i = true) is ->
    exists t, new_table pw canon gl (config_text (map render_intent is)) = Ok t
      /\ (forall i, In i is -> exists d url tg, intent_def pw i = Ok d /\ canon (i_dst i) = Some url
             /\ In (lower (fst (hostpath (i_route i))), snd (hostpath (i_route i)), tg) (flat t)
             /\ same_target (i_svc i) url (w_clamp (d_w d)) (i_tags i) tg = true)
      /\ (forall x, In x (flat t) -> exists i d url, In i is /\ intent_def pw i = Ok d /\ canon (i_dst i) = Some url
             /\ x = trip d url).
  Proof.
    intros Hall. rewrite Forall_forall in Hall.
    assert (Hgood : Forall good_line (map render_intent is)).
    { apply Forall_forall. intros l Hl. apply in_map_iff in Hl as (i & <- & Hi). now apply expr_good_line, Hall. }
    destruct (lines_table _ Hgood) as (t & Ht & Hin & Horig). exists t. split; [exact Ht|]. split.
    - intros i Hi. destruct (expr_good_line i (Hall i Hi)) as (_ & d & Hd & Hp).
      destruct (Hin (render_intent i) d (in_map _ _ _ Hi) Hp) as (url & tg & Hu & Htg & Hs).
      destruct (intent_def_fields pw i d Hd) as (_ & F1 & F2 & F3 & F4 & _). rewrite F1, F2, F3, F4 in *.
      exists d, url, tg. auto.
    - intros x Hx. destruct (Horig x Hx) as (l & d & url & Hl & Hd & Hu & ->).
      apply in_map_iff in Hl as (i & <- & Hi).
      destruct (expr_good_line i (Hall i Hi)) as (_ & d' & Hd' & Hp'). rewrite Hp' in Hd. inversion Hd; subst d'.
      destruct (intent_def_fields pw i d Hd') as (_ & _ & _ & F3 & _). rewrite F3 in Hu.
      exists i, d, url. auto.
  Qed.

  (* makeConfig's sort only permutes the lines *)
  Lemma insert_line_map {A} (f : A -> str) x ys :
    exists zs, insert_line_desc (f x) (map f ys) = map f zs /\ forall z, In z zs <-> z = x \/ In z ys.
  Proof.
    induction ys as [|y ys (zs & E & H)]; cbn [map insert_line_desc].
    - exists [x]. split; [reflexivity|]. intros z. cbn [In]. intuition auto.
    - destruct (str_ltb (f y) (f x)).
      + exists (x :: y :: ys). split; [reflexivity|]. intros z. cbn [In]. intuition auto.
      + exists (y :: zs). rewrite E. split; [reflexivity|]. intros z. cbn [In]. rewrite H. intuition auto.
  Qed.

  Lemma sort_lines_map {A} (f : A -> str) xs :
    exists ys, sort_lines_desc (map f xs) = map f ys /\ forall x, In x ys <-> In x xs.
  Proof.
    unfold sort_lines_desc. induction xs as [|x xs (ys & E & H)]; cbn [map fold_right].
    - exists []. split; [reflexivity|]. reflexivity.
    - rewrite E. destruct (insert_line_map f x ys) as (zs & E' & H'). exists zs. split; [exact E'|].
      intros z. rewrite H'. cbn [In]. rewrite H. intuition auto.
  Qed.

  (* (2) on the domain, for catalog entries, with the text exactly as makeConfig assembles it:
     no command is dropped, and the table holds exactly what the entries ask for *)
  Theorem registrations_on_domain env prefix (regs : list reg) :
    (forall g, In g regs -> expressible pw canon gl env prefix g = true) ->
    exists t, new_table pw canon gl (config_text (sort_lines_desc (flat_map (build' env prefix) regs))) = Ok t
      /\ (forall g i, In g regs -> In i (intents env prefix g) ->
            exists d url tg, intent_def pw i = Ok d /\ canon (i_dst i) = Some url
             /\ In (lower (fst (hostpath (i_route i))), snd (hostpath (i_route i)), tg) (flat t)
             /\ same_target (g_name g) url (w_clamp (d_w d)) (svc_tags prefix g) tg = true)
      /\ (forall x, In x (flat t) -> exists g i d url, In g regs /\ In i (intents env prefix g)
             /\ intent_def pw i = Ok d /\ canon (i_dst i) = Some url /\ x = trip d url).
  Proof.
    intros Hall.
    rewrite (flat_map_ext_in (build' env prefix) (fun g => map render_intent (intents env prefix g)))
      by (intros g Hg; now apply build_expressible, Hall).
    rewrite <- (map_flat_map render_intent (intents env prefix) regs).
    destruct (sort_lines_map render_intent (flat_map (intents env prefix) regs)) as (ys & E & Hys).
    rewrite E.
    assert (Hex : Forall (fun i => ex i = true) ys).
    { apply Forall_forall. intros i Hi. apply Hys in Hi. apply in_flat_map in Hi as (g & Hg & Hi).
      specialize (Hall g Hg). unfold expressible in Hall. rewrite forallb_forall in Hall. now apply Hall. }
    destruct (table_on_domain ys Hex) as (t & Ht & Hin & Horig). exists t. split; [exact Ht|]. split.
    - intros g i Hg Hi. assert (Hy : In i ys) by (apply Hys, in_flat_map; eauto).
      destruct (Hin i Hy) as (d & url & tg & H1 & H2 & H3 & H4). exists d, url, tg. repeat split; auto.
      assert (Hi' : i_svc i = g_name g /\ i_tags i = svc_tags prefix g).
      { unfold intents in Hi. apply in_flat_map in Hi as (tag & _ & Hi). unfold intent_of_tag in Hi.
        destruct (parse_url_prefix_tag env prefix tag) as [[r o]|]; [|destruct Hi].
        destruct (fold_left _ _ _) as [[dst w] ro]. destruct Hi as [<-|[]]. split; reflexivity. }
      destruct Hi' as [<- <-]. exact H4.
    - intros x Hx. destruct (Horig x Hx) as (i & d & url & Hi & H1 & H2 & H3).
      apply Hys in Hi. apply in_flat_map in Hi as (g & Hg & Hi). exists g, i, d, url. auto.
  Qed.
End TableDomain.

(* ================= the code before d16ce3d: strconv.Quote ================= *)
Definition plain (c : N) : bool := (32 <=? c) && (c <? 127) && negb (c =? 34) && negb (c =? 92).

Lemma quote_byte_plain c : plain c = true -> quote_byte c = [c] /\ (c <? 128) = true.
Proof.
  unfold plain, quote_byte. intros H. repeat (apply andb_true_iff in H as [H ?]).
  apply negb_true_iff in H0, H1. rewrite H0, H1, H, H2. split; [reflexivity|].
  apply N.ltb_lt in H2. apply N.ltb_lt. lia.
Qed.

Theorem quote_stable_plain isp s : forallb plain s = true -> quote_stable isp s = true.
Proof.
  intros H. unfold quote_stable. apply beq_eq. induction s as [|c s IH]; [reflexivity|].
  cbn [forallb] in H. apply andb_true_iff in H as [Hc Hs]. destruct (quote_byte_plain c Hc) as [Hq Hlt].
  cbn [quote_body]. rewrite Hlt, Hq, (IH Hs). reflexivity.
Qed.

(* ================= concrete registrations ================= *)
Definition all_print (r : N) : bool := true.
Definition env_dc : env_t := Some [(bs "DC", bs "dc1")].
Definition pfx : str := bs "urlprefix-".
Definition mkreg (name addr : string) (port : Z) (tags : list str) : reg :=
  {| g_name := bs name; g_id := bs name; g_addr := bs addr; g_node_addr := bs "172.16.0.5"; g_port := port; g_tags := tags |}.

Definition reg_good : reg := mkreg "good" "10.0.0.1" 80 [bs "urlprefix-/good"; bs "blue"].
Definition reg_rich : reg :=
  mkreg "api" "2001:db8::17" 8443
        [bs "urlprefix-$DC.Example.com/v1/${DC} proto=https weight=0.25 strip=/v1 host=dst";
         bs " urlprefix-Foo.com:8080 "; bs "urlprefix-:5000 proto=tcp"; bs "canary"; bs " a b "].
Definition reg_quote : reg := mkreg "bad" "10.0.0.2" 80 [bs "urlprefix-/bad"; bs "a""b"].
Definition reg_weight_abc : reg := mkreg "bad" "10.0.0.2" 80 [bs "urlprefix-/bad weight=abc"].
Definition reg_name_space : reg := mkreg "my svc" "10.0.0.2" 80 [bs "urlprefix-/bad"].
Definition reg_backslash : reg := mkreg "bad" "10.0.0.2" 80 [bs "urlprefix-/bad"; bs "a\b"].
Definition reg_comma : reg := mkreg "bad" "10.0.0.2" 80 [bs "urlprefix-/bad"; bs "a,b"].
Definition reg_ctrl : reg := mkreg "bad" "10.0.0.2" 80 [bs "urlprefix-/bad"; [97; 1; 98]].
Definition reg_empty_tag : reg := mkreg "bad" "10.0.0.2" 80 [bs "urlprefix-/bad"; []].
Definition reg_name_blank : reg := mkreg "svc " "10.0.0.2" 80 [bs "urlprefix-/bad"].
Definition reg_half : reg := mkreg "half" "10.0.0.2" 80 [bs "urlprefix-/ok"; bs "urlprefix-/bad weight=abc"].
Definition reg_bad_host : reg := mkreg "bad" "10.0.0.2" 80 [bs "urlprefix-[X.com/"].
Definition ex_glob (p : str) : bool := negb (beq p (bs "[x.com")).

Definition ex_expressible : reg -> bool := expressible pweight_dec idcanon anyglob env_dc pfx.
Definition ex_build : reg -> list str := build pweight_dec idcanon anyglob env_dc pfx.
Definition ex_text (regs : list reg) : str := config_text (sort_lines_desc (flat_map ex_build regs)).
Definition ex_table (regs : list reg) : outcome table := new_table pweight_dec idcanon anyglob (ex_text regs).
Definition ex_intents : reg -> list intent := intents env_dc pfx.
Definition ex_altering : intent -> bool := F_C14_altering.
Definition ex_build_d16ce3d : reg -> list str := build_d16ce3d pweight_dec idcanon anyglob env_dc pfx.
Definition ex_unread : intent -> bool := F_C14_unread_d16ce3d pweight_dec idcanon anyglob.

Definition ex_build_unrepaired : reg -> list str := build_unrepaired all_print env_dc pfx.
Definition ex_text_unrepaired (regs : list reg) : str := config_text (sort_lines_desc (flat_map ex_build_unrepaired regs)).
Definition ex_table_unrepaired (regs : list reg) : outcome table :=
  new_table pweight_dec idcanon anyglob (ex_text_unrepaired regs).

(* the hypotheses of the on-domain theorems are met by real, non-trivial registrations: IPv6
   address, environment expansion, upper-case host, proto / weight / passed-through options, a
   host:port and a :port route, tags with inner space *)
Theorem expressible_nonvacuous :
  ex_expressible reg_good = true /\ ex_expressible reg_rich = true
  /\ ex_build reg_rich =
       [bs "route add api dc1.example.com/v1/dc1 https://[2001:db8::17]:8443 weight 0.25 tags ""canary,a b"" opts ""strip=/v1 host=dst""";
        bs "route add api Foo.com:8080 http://[2001:db8::17]:8443/ tags ""canary,a b""";
        bs "route add api :5000 tcp://[2001:db8::17]:8443 tags ""canary,a b"""]
  /\ exists t, ex_table [reg_good; reg_rich] = Ok t /\ length (flat t) = 4%nat
               /\ map fst t = [[]; bs "dc1.example.com"; bs "foo.com:8080"; bs ":5000"].
Proof.
  split; [vm_compute; reflexivity|]. split; [vm_compute; reflexivity|]. split; [vm_compute; reflexivity|].
  eexists. split; [vm_compute; reflexivity|]. split; vm_compute; reflexivity.
Qed.

(* since d16ce3d: a registration the command language cannot express is dropped on its own.  The
   entries that used to block every service now emit nothing, the table of the others is built;
   of an entry with one good and one bad routing tag only the bad command is dropped *)
Theorem bad_registration_dropped_alone :
  ex_build reg_quote = [] /\ ex_build reg_weight_abc = [] /\ ex_build reg_name_space = []
  /\ new_table pweight_dec idcanon ex_glob
       (config_text (sort_lines_desc (flat_map (build pweight_dec idcanon ex_glob env_dc pfx) [reg_good; reg_bad_host])))
     = new_table pweight_dec idcanon ex_glob (ex_text [reg_good])
  /\ ex_build reg_half = [bs "route add half /ok http://10.0.0.2:80/"]
  /\ ex_table [reg_quote; reg_good; reg_weight_abc; reg_name_space; reg_half] = ex_table [reg_good; reg_half]
  /\ exists t, ex_table [reg_good; reg_half] = Ok t /\ length (flat t) = 2%nat.
Proof.
  repeat (split; [vm_compute; reflexivity|]). eexists. split; vm_compute; reflexivity.
Qed.

Definition parsed_tags (cmds : list str) : outcome (list (list str)) :=
  match cmds with
  | [c] => match parse pweight_dec c with Ok ds => Ok (map d_tags ds) | Err k => Err k | Panic => Panic end
  | _ => Err 0
  end.
Definition ex_parsed_tags (g : reg) : outcome (list (list str)) := parsed_tags (ex_build g).
Definition ex_parsed_tags_unrepaired (g : reg) : outcome (list (list str)) := parsed_tags (ex_build_unrepaired g).

(* since d16ce3d: a backslash, a control byte come back as they were registered *)
Theorem backslash_control_tags_roundtrip :
  ex_expressible reg_backslash = true /\ ex_parsed_tags reg_backslash = Ok [[bs "a\b"]]
  /\ ex_expressible reg_ctrl = true /\ ex_parsed_tags reg_ctrl = Ok [[[97; 1; 98]]].
Proof. repeat split; vm_compute; reflexivity. Qed.

(* what remains of F-C14-2: a tag containing a comma comes back as two tags ... *)
Theorem comma_tag_split_refuted :
  svc_tags pfx reg_comma = [bs "a,b"]
  /\ ex_parsed_tags reg_comma = Ok [[bs "a"; bs "b"]]
  /\ existsb ex_altering (ex_intents reg_comma) = true.
Proof. repeat split; vm_compute; reflexivity. Qed.

(* ... a single empty tag as no tag ... *)
Theorem sole_empty_tag_lost_refuted :
  svc_tags pfx reg_empty_tag = [[]]
  /\ ex_parsed_tags reg_empty_tag = Ok [[]]
  /\ existsb ex_altering (ex_intents reg_empty_tag) = true.
Proof. repeat split; vm_compute; reflexivity. Qed.

(* ---- the code between d16ce3d and 9891ca3: accepted by the table, never read back (finding
        F-C14-4, repaired by 9891ca3) ---- *)
Definition reg_inject : reg :=
  mkreg "victim victim.com/ http://evil:80/" "10.0.0.2" 80 [bs "urlprefix-weight redirect=301,1"].
Definition reg_inject_tag : reg :=
  mkreg "bad" "10.0.0.2" 80 [bs "urlprefix-/bad"; bs "a"" opts ""strip=/x"].

Definition parsed_defs (cmds : list str) : outcome (list (str * str * str * list str * list (str * str))) :=
  match cmds with
  | [c] => match parse pweight_dec c with
           | Ok ds => Ok (map (fun d => (d_svc d, d_src d, d_dst d, d_tags d, d_opts d)) ds)
           | Err k => Err k | Panic => Panic
           end
  | _ => Err 0
  end.

(* a service name whose extra words complete the grammar: the command was accepted and denoted
   ANOTHER service, route and destination; a quote in a plain tag started an opts clause; a blank
   at the end of the name changed the name.  Since 9891ca3 all three are dropped. *)
Theorem name_injection_d16ce3d_refuted :
  g_name reg_inject = bs "victim victim.com/ http://evil:80/"
  /\ parsed_defs (ex_build_d16ce3d reg_inject)
     = Ok [(bs "victim", bs "victim.com/", bs "http://evil:80/", [], [(bs "redirect", bs "301")])]
  /\ existsb ex_unread (ex_intents reg_inject) = true
  /\ parsed_defs (ex_build_d16ce3d reg_inject_tag)
     = Ok [(bs "bad", bs "/bad", bs "http://10.0.0.2:80/", [bs "a"], [(bs "strip", bs "/x")])]
  /\ existsb ex_unread (ex_intents reg_inject_tag) = true
  /\ parsed_defs (ex_build_d16ce3d reg_name_blank)
     = Ok [(bs "svc", bs "/bad", bs "http://10.0.0.2:80/", [], [])]
  /\ existsb ex_unread (ex_intents reg_name_blank) = true
  /\ ex_build reg_inject = [] /\ ex_build reg_inject_tag = [] /\ ex_build reg_name_blank = [].
Proof. repeat split; vm_compute; reflexivity. Qed.

(* ---- the code before d16ce3d (findings F-C14-1 and the wider F-C14-2, now repaired) ---- *)
Definition ex_blocking : intent -> bool := F_C14_blocking pweight_dec idcanon anyglob.

Theorem bad_registration_blocks_all_unrepaired_refuted :
  ex_expressible reg_good = true
  /\ (exists t, ex_table_unrepaired [reg_good] = Ok t /\ length (flat t) = 1%nat)
  /\ existsb ex_blocking (ex_intents reg_quote) = true
  /\ ex_table_unrepaired [reg_good; reg_quote] = Err e_add_invalid
  /\ existsb ex_blocking (ex_intents reg_weight_abc) = true
  /\ ex_table_unrepaired [reg_good; reg_weight_abc] = Err e_weight_value
  /\ existsb ex_blocking (ex_intents reg_name_space) = true
  /\ ex_table_unrepaired [reg_good; reg_name_space] = Err e_add_invalid.
Proof.
  split; [vm_compute; reflexivity|]. split; [eexists; split; vm_compute; reflexivity|].
  repeat split; vm_compute; reflexivity.
Qed.

Theorem independent_of_other_registrations_unrepaired_refuted :
  ~ (forall regs g, In g regs -> ex_expressible g = true -> exists t, ex_table_unrepaired regs = Ok t).
Proof.
  intros H. destruct (H [reg_good; reg_quote] reg_good (or_introl eq_refl)) as [t Ht]; [vm_compute; reflexivity|].
  vm_compute in Ht. discriminate.
Qed.

Theorem bad_host_blocks_all_unrepaired_refuted :
  existsb (F_C14_blocking pweight_dec idcanon ex_glob) (ex_intents reg_bad_host) = true
  /\ new_table pweight_dec idcanon ex_glob (ex_text_unrepaired [reg_good; reg_bad_host]) = Err e_invalid_host.
Proof. split; vm_compute; reflexivity. Qed.

Theorem backslash_tag_altered_unrepaired_refuted :
  svc_tags pfx reg_backslash = [bs "a\b"]
  /\ ex_parsed_tags_unrepaired reg_backslash = Ok [[bs "a\\b"]]
  /\ existsb (F_C14_altering_unrepaired all_print pweight_dec idcanon anyglob) (ex_intents reg_backslash) = true.
Proof. repeat split; vm_compute; reflexivity. Qed.

Theorem control_byte_tag_altered_unrepaired_refuted :
  svc_tags pfx reg_ctrl = [[97; 1; 98]]
  /\ ex_parsed_tags_unrepaired reg_ctrl = Ok [[bs "a\x01b"]]
  /\ existsb (F_C14_altering_unrepaired all_print pweight_dec idcanon anyglob) (ex_intents reg_ctrl) = true.
Proof. repeat split; vm_compute; reflexivity. Qed.

(* the route of a routing tag, on examples: host lower-cased and $x / ${x} expanded in host/path
   form; host-only, host:port and :port forms returned as written; only the byte 32 ends the route *)
Example route_meaning_examples :
  parse_url_prefix_tag env_dc pfx (bs " urlprefix-$DC.Foo.com/A/${DC}  strip=/A  proto=tcp ")
    = Some (bs "dc1.foo.com/A/dc1", bs " strip=/A  proto=tcp")
  /\ parse_url_prefix_tag env_dc pfx (bs "urlprefix-Foo.com:80") = Some (bs "Foo.com:80", [])
  /\ parse_url_prefix_tag env_dc pfx (bs "urlprefix-:8080 proto=tcp") = Some (bs ":8080", bs "proto=tcp")
  /\ parse_url_prefix_tag None pfx (bs "urlprefix-$DC.x/${DC}") = Some (bs ".x/", [])
  /\ parse_url_prefix_tag env_dc pfx (bs "other-/x") = None.
Proof. repeat split; vm_compute; reflexivity. Qed.
