(** Proofs about the listener wiring (Model/ListenerPick.v).

    With the matcher as it is since 971ce92 ([MPFirst]) a connection is exactly one
    round-robin lookup on the route of its server name and on no other route, for EVERY
    schedule of connections over the routes of the table ([listener_route_isolated]); hence
    the connections of a route, however they are interleaved with connections of other
    routes, receive over whole cycles exactly the share of the ring
    ([listener_cycle_exact], [listener_cycles_exact]) and nobody with a slot is starved.
    With the matcher as it was ([MPConfigured]) a route of two equal targets sends every
    connection to the second one ([listener_unrepaired_starves]).  In general a listener that
    takes [c] picks per connection walks the ring with stride [c] ([conns_run_eq]) and starves
    a slot whenever gcd(c, len ring) > 1 ([stride_starves], [listener_stride_starves]). *)
From Coq Require Import List ZArith NArith Bool Lia.
From Fabio Require Import Lib.Outcome Model.Weigh Model.Ring Model.Pick Model.ListenerPick
  Proofs.Ring Proofs.Pick.
Import ListNotations.
Local Open Scope outcome_scope.

(* ---------- list helpers ---------- *)
Lemma nth_error_set_nth_eq {X} (l : list X) k x : k < length l -> nth_error (set_nth l k x) k = Some x.
Proof.
  revert k; induction l as [|y l IH]; intros k H; cbn [length] in H; [lia|].
  destruct k; cbn [set_nth nth_error]; [reflexivity|apply IH; lia].
Qed.

Lemma nth_error_set_nth_neq {X} (l : list X) k j x : j <> k -> nth_error (set_nth l k x) j = nth_error l j.
Proof.
  revert k j; induction l as [|y l IH]; intros k j H; [reflexivity|].
  destruct k, j; cbn [set_nth nth_error]; try congruence; try reflexivity. apply IH; congruence.
Qed.

Lemma lr_set_total_id rt : lr_set_total rt (lr_total rt) = rt.
Proof. destruct rt; reflexivity. Qed.

(* ---------- one connection = one lookup (the code since 971ce92) ---------- *)
Lemma route_conn_first rt :
  route_conn MPFirst rt =
  (do '(u, t) <- lookup_rr (lr_n rt) (lr_ring rt) (lr_total rt); Ok (u, lr_set_total rt t)).
Proof. reflexivity. Qed.

Lemma lookups_run_rr n r : 2 <= n -> forall k total, lookups_run k n r total = rr_run k r total.
Proof.
  intros Hn k; induction k as [|k IH]; intros total; [reflexivity|].
  cbn [lookups_run rr_run]. destruct n as [|[|n]]; try lia. cbn [lookup_rr].
  destruct (rr_pick r total) as [[t total']| |]; cbn [bind]; [|reflexivity|reflexivity].
  rewrite IH. reflexivity.
Qed.

Lemma conns_of_cons_eq j rest : conns_of j (j :: rest) = S (conns_of j rest).
Proof. unfold conns_of. cbn [filter]. rewrite Nat.eqb_refl. reflexivity. Qed.

Lemma conns_of_cons_neq j i rest : j <> i -> conns_of j (i :: rest) = conns_of j rest.
Proof.
  intros H. unfold conns_of. cbn [filter].
  destruct (Nat.eqb j i) eqn:E; [apply Nat.eqb_eq in E; congruence|reflexivity].
Qed.

Lemma served_cons_neq j i rest u us : j <> i -> served j (i :: rest) (u :: us) = served j rest us.
Proof.
  intros H. cbn [served]. destruct (Nat.eqb i j) eqn:E; [apply Nat.eqb_eq in E; congruence|reflexivity].
Qed.

(** For every schedule and every table: the connections of route [j] are served exactly what
    [conns_of j sched] consecutive lookups on route [j] alone return, the route's cursor ends
    where those lookups leave it, and nothing else of the route changes. *)
Theorem listener_route_isolated : forall sched tb us tb',
  listener_run MPFirst sched tb = Ok (us, tb') ->
  length tb' = length tb /\ length us = length sched /\
  forall j rt, nth_error tb j = Some rt ->
    exists total', nth_error tb' j = Some (lr_set_total rt total')
      /\ lookups_run (conns_of j sched) (lr_n rt) (lr_ring rt) (lr_total rt) = Ok (served j sched us, total').
Proof.
  induction sched as [|i rest IH]; intros tb us tb' H.
  - cbn [listener_run] in H. injection H as <- <-. split; [reflexivity|]. split; [reflexivity|].
    intros j rt Hj. exists (lr_total rt). rewrite lr_set_total_id. split; [exact Hj|reflexivity].
  - cbn [listener_run] in H.
    destruct (listener_conn MPFirst tb i) as [[u tb1]| |] eqn:Hc; cbn [bind] in H; try discriminate.
    destruct (listener_run MPFirst rest tb1) as [[us2 tb2]| |] eqn:Hr; cbn [bind] in H; try discriminate.
    injection H as <- <-.
    destruct (IH _ _ _ Hr) as (Hlen & Hlus & IHj).
    unfold listener_conn in Hc.
    destruct (nth_error tb i) as [rti|] eqn:Hi.
    + rewrite route_conn_first in Hc.
      destruct (lookup_rr (lr_n rti) (lr_ring rti) (lr_total rti)) as [[u0 t0]| |] eqn:Hl;
        cbn [bind] in Hc; try discriminate.
      injection Hc as <- <-.
      assert (Hilt : i < length tb) by (apply nth_error_Some; congruence).
      split; [rewrite Hlen; apply length_set_nth|]. split; [cbn [length]; lia|].
      intros j rt Hj.
      destruct (Nat.eq_dec j i) as [->|Hne].
      * rewrite Hi in Hj. injection Hj as <-.
        destruct (IHj i (lr_set_total rti t0) (nth_error_set_nth_eq _ _ _ Hilt)) as (total' & Hn & Hrun).
        exists total'. split; [exact Hn|].
        rewrite conns_of_cons_eq. cbn [lookups_run]. rewrite Hl. cbn [bind].
        cbn [lr_set_total lr_n lr_ring lr_total] in Hrun. rewrite Hrun. cbn [bind served].
        rewrite Nat.eqb_refl. reflexivity.
      * destruct (IHj j rt) as (total' & Hn & Hrun); [rewrite nth_error_set_nth_neq by exact Hne; exact Hj|].
        exists total'. split; [exact Hn|].
        rewrite conns_of_cons_neq by exact Hne. rewrite served_cons_neq by exact Hne. exact Hrun.
    + injection Hc as <- <-. split; [exact Hlen|]. split; [cbn [length]; lia|].
      intros j rt Hj. destruct (IHj j rt Hj) as (total' & Hn & Hrun). exists total'. split; [exact Hn|].
      assert (Hne : j <> i) by (intros ->; congruence).
      rewrite conns_of_cons_neq by exact Hne. rewrite served_cons_neq by exact Hne. exact Hrun.
Qed.

(** a table whose routes can be looked up: fewer than two targets (the picker is bypassed) or a
    non-empty ring *)
Definition route_ok (rt : lroute) : Prop := lr_n rt < 2 \/ lr_ring rt <> [].

Lemma lookup_rr_ok n r total : n < 2 \/ r <> [] -> exists u t, lookup_rr n r total = Ok (u, t).
Proof.
  intros H. destruct n as [|[|n]]; cbn [lookup_rr]; eauto.
  destruct H as [H|H]; [lia|]. rewrite (rr_pick_ok r total H). eauto.
Qed.

Lemma Forall_set_nth {X} (P : X -> Prop) l k x : Forall P l -> P x -> Forall P (set_nth l k x).
Proof.
  intros Hl Hx. revert k; induction Hl as [|y l Hy Hl IH]; intros k; [constructor|].
  destruct k; cbn [set_nth]; constructor; auto.
Qed.

(** ... is served without a crash, whatever the schedule *)
Theorem listener_run_total : forall sched tb, Forall route_ok tb ->
  exists us tb', listener_run MPFirst sched tb = Ok (us, tb').
Proof.
  induction sched as [|i rest IH]; intros tb Hok; [cbn [listener_run]; eauto|].
  cbn [listener_run]. unfold listener_conn.
  destruct (nth_error tb i) as [rti|] eqn:Hi.
  - rewrite route_conn_first.
    assert (Hrt : route_ok rti) by (eapply Forall_forall; [exact Hok|eapply nth_error_In; exact Hi]).
    destruct (lookup_rr_ok (lr_n rti) (lr_ring rti) (lr_total rti) Hrt) as (u & t & Hl).
    rewrite Hl. cbn [bind].
    destruct (IH (set_nth tb i (lr_set_total rti t))) as (us & tb' & Hr).
    { apply Forall_set_nth; [exact Hok|exact Hrt]. }
    rewrite Hr. cbn [bind]. eauto.
  - cbn [bind]. destruct (IH tb Hok) as (us & tb' & Hr). rewrite Hr. cbn [bind]. eauto.
Qed.

(* ---------- whole cycles ---------- *)
Lemma rr_run_app r : forall a b total,
  rr_run (a + b) r total =
  (do '(p1, t1) <- rr_run a r total; do '(p2, t2) <- rr_run b r t1; Ok (p1 ++ p2, t2)).
Proof.
  induction a as [|a IH]; intros b total.
  - cbn [Nat.add rr_run bind]. destruct (rr_run b r total) as [[p2 t2]| |]; reflexivity.
  - cbn [Nat.add rr_run]. destruct (rr_pick r total) as [[t total']| |]; cbn [bind]; try reflexivity.
    rewrite IH. destruct (rr_run a r total') as [[p1 t1]| |]; cbn [bind]; try reflexivity.
    destruct (rr_run b r t1) as [[p2 t2]| |]; cbn [bind]; reflexivity.
Qed.

(** [q] whole cycles (no uint64 wrap inside them) hit every target [q] times its number of slots *)
Theorem rr_cycles_exact r : r <> [] -> forall q total,
  (total < two64)%N -> (total + N.of_nat (q * length r) <= two64)%N ->
  exists picks c, rr_run (q * length r) r total = Ok (picks, c)
    /\ length picks = q * length r
    /\ forall t, occupancy t picks = q * occupancy t r.
Proof.
  intros Hne. assert (HU : 0 < length r) by (destruct r; [congruence|cbn; lia]).
  induction q as [|q IH]; intros total Hlt Hb.
  - cbn [Nat.mul rr_run]. exists [], total. repeat split; reflexivity.
  - cbn [Nat.mul]. rewrite rr_run_app.
    destruct (rr_cycle_exact r total Hne Hlt) as (p1 & Hrun & Hlen1 & Hocc1); [lia|].
    rewrite Hrun. cbn [bind].
    destruct q as [|q'].
    + cbn [Nat.mul rr_run bind]. rewrite app_nil_r. eexists _, _. split; [reflexivity|].
      split; [lia|]. intros t. rewrite Hocc1. lia.
    + assert (Hs : (total + N.of_nat (length r) < two64)%N) by lia.
      rewrite N.mod_small by exact Hs.
      destruct (IH (total + N.of_nat (length r))%N Hs) as (p2 & c & Hrun2 & Hlen2 & Hocc2); [lia|].
      rewrite Hrun2. cbn [bind]. eexists _, _. split; [reflexivity|].
      split; [rewrite app_length; lia|]. intros t. rewrite occupancy_app, Hocc1, Hocc2. lia.
Qed.

(** the property's clause in terms of connections: [q] whole cycles of connections of one route,
    interleaved in any way with connections of other routes, hand every target [q] times its slots *)
Theorem listener_cycles_exact : forall sched tb us tb' j rt q,
  listener_run MPFirst sched tb = Ok (us, tb') -> nth_error tb j = Some rt ->
  2 <= lr_n rt -> lr_ring rt <> [] -> (lr_total rt < two64)%N ->
  (lr_total rt + N.of_nat (q * length (lr_ring rt)) <= two64)%N ->
  conns_of j sched = q * length (lr_ring rt) ->
  length (served j sched us) = q * length (lr_ring rt)
  /\ forall t, occupancy t (served j sched us) = q * occupancy t (lr_ring rt).
Proof.
  intros sched tb us tb' j rt q Hrun Hj Hn Hne Hlt Hb Hcount.
  destruct (listener_route_isolated _ _ _ _ Hrun) as (_ & _ & Hiso).
  destruct (Hiso j rt Hj) as (total' & _ & Hl).
  rewrite Hcount, (lookups_run_rr _ _ Hn) in Hl.
  destruct (rr_cycles_exact _ Hne q _ Hlt Hb) as (picks & c & Hr & Hlen & Hocc).
  rewrite Hr in Hl. injection Hl as -> _. split; [exact Hlen|exact Hocc].
Qed.

Theorem listener_cycle_exact : forall sched tb us tb' j rt,
  listener_run MPFirst sched tb = Ok (us, tb') -> nth_error tb j = Some rt ->
  2 <= lr_n rt -> lr_ring rt <> [] -> (lr_total rt < two64)%N ->
  (lr_total rt + N.of_nat (length (lr_ring rt)) <= two64)%N ->
  conns_of j sched = length (lr_ring rt) ->
  forall t, occupancy t (served j sched us) = occupancy t (lr_ring rt).
Proof.
  intros sched tb us tb' j rt Hrun Hj Hn Hne Hlt Hb Hcount t.
  destruct (listener_cycles_exact sched tb us tb' j rt 1 Hrun Hj Hn Hne Hlt) as (_ & Hocc); try lia.
  rewrite Hocc. lia.
Qed.

(** never starved: a target with a slot receives a connection in every full cycle of its route *)
Theorem listener_never_starved : forall sched tb us tb' j rt i,
  listener_run MPFirst sched tb = Ok (us, tb') -> nth_error tb j = Some rt ->
  2 <= lr_n rt -> (lr_total rt < two64)%N ->
  (lr_total rt + N.of_nat (length (lr_ring rt)) <= two64)%N ->
  conns_of j sched = length (lr_ring rt) ->
  0 < occupancy (Some i) (lr_ring rt) -> In (Some i) (served j sched us).
Proof.
  intros sched tb us tb' j rt i Hrun Hj Hn Hlt Hb Hcount Hocc.
  assert (Hne : lr_ring rt <> []) by (intros E; rewrite E in Hocc; cbn in Hocc; lia).
  apply occupancy_pos_in. rewrite (listener_cycle_exact sched tb us tb' j rt Hrun Hj Hn Hne Hlt Hb Hcount).
  exact Hocc.
Qed.

(** never picked: a target without a slot receives no connection, in any schedule *)
Lemma lookups_run_in k : forall n r total ts c i, 2 <= n ->
  lookups_run k n r total = Ok (ts, c) -> In (Some i) ts -> 0 < occupancy (Some i) r.
Proof.
  induction k as [|k IH]; intros n r total ts c i Hn H Hin.
  - cbn [lookups_run] in H. injection H as <- _. destruct Hin.
  - cbn [lookups_run] in H.
    destruct (lookup_rr n r total) as [[t total']| |] eqn:Hl; cbn [bind] in H; try discriminate.
    destruct (lookups_run k n r total') as [[ts2 c2]| |] eqn:Hr; cbn [bind] in H; try discriminate.
    injection H as <- _. destruct Hin as [->|Hin]; [|eapply IH; eauto].
    destruct n as [|[|n]]; try lia. cbn [lookup_rr] in Hl.
    destruct (Nat.eq_dec (occupancy (Some i) r) 0) as [E|E]; [|lia].
    exfalso. exact (rr_zero_never_picked r i E total total' Hl).
Qed.

Theorem listener_zero_never_picked : forall sched tb us tb' j rt i,
  listener_run MPFirst sched tb = Ok (us, tb') -> nth_error tb j = Some rt ->
  2 <= lr_n rt -> occupancy (Some i) (lr_ring rt) = 0 -> ~ In (Some i) (served j sched us).
Proof.
  intros sched tb us tb' j rt i Hrun Hj Hn Hocc Hin.
  destruct (listener_route_isolated _ _ _ _ Hrun) as (_ & _ & Hiso).
  destruct (Hiso j rt Hj) as (total' & _ & Hl).
  pose proof (lookups_run_in _ _ _ _ _ _ i Hn Hl Hin). lia.
Qed.

(* ---------- the code before 971ce92: two picks per connection ---------- *)
Definition two_targets (total : N) : lroute := {| lr_n := 2; lr_ring := [Some 0; Some 1]; lr_total := total |}.

Lemma route_conn_two_even m : (m < 2 ^ 63)%N ->
  route_conn MPConfigured (two_targets (2 * m)) = Ok (Some 1, two_targets ((2 * m + 2) mod two64)).
Proof.
  intros Hm. unfold route_conn, matcher_lookup.
  change (lr_n (two_targets (2 * m))) with 2.
  change (lr_ring (two_targets (2 * m))) with [Some 0; Some 1].
  change (lr_total (two_targets (2 * m))) with (2 * m)%N.
  cbn [lookup_rr].
  assert (H2 : (2 ^ 63 = 9223372036854775808)%N) by reflexivity.
  assert (Hp1 : rr_pick [Some 0; Some 1] (2 * m) = Ok (Some 0, (2 * m + 1)%N)).
  { rewrite rr_pick_ok by discriminate. cbn [length].
    replace (N.to_nat (2 * m) mod 2) with 0.
    - cbn [nth]. f_equal. f_equal. apply N.mod_small. unfold two64. lia.
    - rewrite N2Nat.inj_mul. change (N.to_nat 2) with 2. rewrite Nat.mul_comm, Nat.mod_mul by lia. reflexivity. }
  rewrite Hp1. cbn [bind].
  assert (Hp2 : rr_pick [Some 0; Some 1] (2 * m + 1) = Ok (Some 1, ((2 * m + 2) mod two64)%N)).
  { rewrite rr_pick_ok by discriminate. cbn [length].
    replace (N.to_nat (2 * m + 1) mod 2) with 1.
    - cbn [nth]. f_equal. f_equal. f_equal. lia.
    - rewrite N2Nat.inj_add, N2Nat.inj_mul. change (N.to_nat 2) with 2. change (N.to_nat 1) with 1.
      rewrite Nat.add_comm, Nat.mul_comm, Nat.mod_add by lia. reflexivity. }
  rewrite Hp2. cbn [bind]. reflexivity.
Qed.

Lemma unrepaired_even : forall k m, (m < 2 ^ 63)%N ->
  exists m', (m' < 2 ^ 63)%N /\
    listener_run MPConfigured (repeat 0 k) [two_targets (2 * m)] = Ok (repeat (Some 1) k, [two_targets (2 * m')]).
Proof.
  induction k as [|k IH]; intros m Hm.
  - exists m. split; [exact Hm|reflexivity].
  - cbn [repeat listener_run]. unfold listener_conn. cbn [nth_error].
    rewrite route_conn_two_even by exact Hm. cbn [bind set_nth].
    assert (H2 : (2 ^ 63 = 9223372036854775808)%N) by reflexivity.
    destruct (N.eq_dec (m + 1) (2 ^ 63)) as [E|E].
    + replace ((2 * m + 2) mod two64)%N with (2 * 0)%N.
      * destruct (IH 0%N) as (m' & Hm' & Hr); [lia|]. rewrite Hr. cbn [bind].
        exists m'. split; [exact Hm'|reflexivity].
      * replace (2 * m + 2)%N with two64 by (unfold two64; lia). rewrite N.mod_same by discriminate. reflexivity.
    + replace ((2 * m + 2) mod two64)%N with (2 * (m + 1))%N.
      * destruct (IH (m + 1)%N) as (m' & Hm' & Hr); [lia|]. rewrite Hr. cbn [bind].
        exists m'. split; [exact Hm'|reflexivity].
      * rewrite N.mod_small by (unfold two64; lia). lia.
Qed.

(** Two targets with equal weights, each one slot of the ring (weight 1/2 each), fresh cursor, the
    matcher as it was before 971ce92: EVERY connection goes to the second target, for any number of
    connections; the first target has a slot and is starved, and no cycle has the exact share. *)
Theorem listener_unrepaired_starves : forall k,
  exists tb', listener_run MPConfigured (repeat 0 k) [two_targets 0] = Ok (repeat (Some 1) k, tb')
    /\ occupancy (Some 0) (lr_ring (two_targets 0)) = 1
    /\ occupancy (Some 0) (served 0 (repeat 0 k) (repeat (Some 1) k)) = 0.
Proof.
  intros k. destruct (unrepaired_even k 0%N) as (m' & _ & Hr); [reflexivity|].
  change (2 * 0)%N with 0%N in Hr. eexists. split; [exact Hr|]. split; [reflexivity|].
  clear. induction k as [|k IH]; [reflexivity|]. cbn [repeat served Nat.eqb].
  rewrite occupancy_cons, IH. reflexivity.
Qed.

(** the same connections with the code as it is: they alternate *)
Example listener_repaired_alternates :
  listener_run MPFirst (repeat 0 6) [two_targets 0]
  = Ok ([Some 0; Some 1; Some 0; Some 1; Some 0; Some 1], [two_targets 6]).
Proof. vm_compute. reflexivity. Qed.

(* ---------- c picks per connection ---------- *)
Lemma conn_picks_one r total : conn_picks 1 r total = rr_pick r total.
Proof.
  unfold conn_picks. cbn [rr_run]. destruct (rr_pick r total) as [[t total']| |]; reflexivity.
Qed.

Lemma route_conn_first_picks rt : 2 <= lr_n rt ->
  route_conn MPFirst rt =
  (do '(u, t) <- conn_picks 1 (lr_ring rt) (lr_total rt); Ok (u, lr_set_total rt t)).
Proof.
  intros Hn. rewrite route_conn_first, conn_picks_one.
  destruct (lr_n rt) as [|[|n]]; try lia. reflexivity.
Qed.

Lemma route_conn_configured_picks rt : 2 <= lr_n rt ->
  route_conn MPConfigured rt =
  (do '(u, t) <- conn_picks 2 (lr_ring rt) (lr_total rt); Ok (u, lr_set_total rt t)).
Proof.
  intros Hn. unfold route_conn, matcher_lookup, conn_picks.
  destruct (lr_n rt) as [|[|n]]; try lia. cbn [lookup_rr rr_run].
  destruct (rr_pick (lr_ring rt) (lr_total rt)) as [[a t1]| |]; cbn [bind]; try reflexivity.
  destruct (rr_pick (lr_ring rt) t1) as [[b t2]| |]; cbn [bind]; reflexivity.
Qed.

Lemma last_map_seq {X} (f : nat -> X) d c : 1 <= c -> last (map f (seq 0 c)) d = f (c - 1).
Proof.
  intros H. destruct c as [|c]; [lia|]. rewrite seq_S, map_app. cbn [map Nat.add].
  rewrite last_last. f_equal. lia.
Qed.

Lemma conn_picks_eq r c total : r <> [] -> 1 <= c -> (total < two64)%N -> (total + N.of_nat c <= two64)%N ->
  conn_picks c r total
  = Ok (nth (conn_slot c (N.to_nat total) (length r) 0) r None, ((total + N.of_nat c) mod two64)%N).
Proof.
  intros Hne Hc Hlt Hb. unfold conn_picks. rewrite (rr_run_eq r Hne) by assumption. cbn [bind].
  rewrite last_map_seq by exact Hc. unfold conn_slot. rewrite Nat.mul_0_r, Nat.add_0_r. reflexivity.
Qed.

(** connection number [i] is routed by slot (s + c*i + c-1) mod U: stride [c] *)
Theorem conns_run_eq r c : r <> [] -> 1 <= c -> forall k total,
  (total < two64)%N -> (total + N.of_nat (c * k) <= two64)%N ->
  conns_run c k r total
  = Ok (map (fun i => nth (conn_slot c (N.to_nat total) (length r) i) r None) (seq 0 k),
        ((total + N.of_nat (c * k)) mod two64)%N).
Proof.
  intros Hne Hc k; induction k as [|k IH]; intros total Hlt Hb.
  - cbn [conns_run seq map]. rewrite Nat.mul_0_r, N.add_0_r, N.mod_small by exact Hlt. reflexivity.
  - cbn [conns_run]. rewrite (conn_picks_eq r c total Hne Hc Hlt) by lia. cbn [bind].
    destruct (N.eq_dec (total + N.of_nat c) two64) as [He|Hn].
    + assert (k = 0) by nia. subst k. rewrite He, N.mod_same by discriminate.
      cbn [conns_run bind seq map]. f_equal. f_equal.
      replace (total + N.of_nat (c * 1))%N with two64 by lia. rewrite N.mod_same by discriminate. reflexivity.
    + rewrite N.mod_small by lia. rewrite IH by lia. cbn [bind seq map]. f_equal. f_equal.
      * f_equal. rewrite <- seq_shift, map_map. apply map_ext. intros i. f_equal.
        unfold conn_slot. f_equal. rewrite N2Nat.inj_add, Nat2N.id. lia.
      * f_equal. lia.
Qed.

(** one pick per connection is plain round robin (so all cycle theorems apply) *)
Theorem conns_run_one r : forall k total, conns_run 1 k r total = rr_run k r total.
Proof.
  induction k as [|k IH]; intros total; [reflexivity|].
  cbn [conns_run rr_run]. rewrite conn_picks_one.
  destruct (rr_pick r total) as [[t total']| |]; cbn [bind]; try reflexivity. rewrite IH. reflexivity.
Qed.

Lemma mod_mod_divide x U g : g <> 0 -> U <> 0 -> Nat.divide g U -> (x mod U) mod g = x mod g.
Proof.
  intros Hg HU [z Hz]. subst U. assert (z <> 0) by (intros ->; lia).
  rewrite (Nat.mul_comm z g). rewrite Nat.mod_mul_r by assumption.
  rewrite (Nat.mul_comm g), Nat.mod_add by exact Hg. apply Nat.mod_mod. exact Hg.
Qed.

(** a stride that shares a factor with the ring length never reaches some slot *)
Theorem stride_starves c U s : 0 < U -> 1 < Nat.gcd c U ->
  exists p, p < U /\ forall i, conn_slot c s U i <> p.
Proof.
  intros HU Hg. set (g := Nat.gcd c U) in *.
  assert (Hgc : Nat.divide g c) by apply Nat.gcd_divide_l.
  assert (HgU : Nat.divide g U) by apply Nat.gcd_divide_r.
  assert (HgleU : g <= U) by (apply Nat.divide_pos_le; [lia|exact HgU]).
  set (rho := (s + (c - 1)) mod g).
  assert (Hrho : rho < g) by (apply Nat.mod_upper_bound; lia).
  exists ((rho + 1) mod g).
  assert (Hp : (rho + 1) mod g < g) by (apply Nat.mod_upper_bound; lia).
  split; [lia|]. intros i Hi.
  assert (Hres : conn_slot c s U i mod g = rho).
  { unfold conn_slot. rewrite mod_mod_divide by (try lia; exact HgU).
    destruct Hgc as [z Hz]. replace (s + c * i + (c - 1)) with (s + (c - 1) + (z * i) * g) by nia.
    rewrite Nat.mod_add by lia. reflexivity. }
  rewrite Hi, Nat.mod_mod in Hres by lia.
  destruct (Nat.eq_dec (rho + 1) g) as [E|E].
  - rewrite E, Nat.mod_same in Hres by lia. lia.
  - rewrite Nat.mod_small in Hres by lia. lia.
Qed.

Lemma nth_map_some_seq U j : j < U -> nth j (map Some (seq 0 U)) None = Some j.
Proof.
  intros H. rewrite (nth_indep _ None (Some 0)) by (rewrite map_length, seq_length; exact H).
  rewrite (map_nth Some (seq 0 U) 0 j), seq_nth by exact H. reflexivity.
Qed.

Lemma occupancy_some_seq p : forall U a,
  occupancy (Some p) (map Some (seq a U)) = if (a <=? p) && (p <? a + U) then 1 else 0.
Proof.
  induction U as [|U IH]; intros a.
  - cbn [seq map]. rewrite occupancy_nil.
    destruct (a <=? p) eqn:E1; destruct (p <? a + 0) eqn:E2; cbn [andb]; try reflexivity.
    apply Nat.leb_le in E1. apply Nat.ltb_lt in E2. lia.
  - cbn [seq map]. rewrite occupancy_cons, IH. cbn [slot_eqb].
    destruct (Nat.eqb p a) eqn:E; [apply Nat.eqb_eq in E|apply Nat.eqb_neq in E];
      destruct (S a <=? p) eqn:E1; destruct (p <? S a + U) eqn:E2;
      destruct (a <=? p) eqn:E3; destruct (p <? a + S U) eqn:E4; cbn [andb]; try reflexivity;
      repeat match goal with
             | H : (_ <=? _) = true |- _ => apply Nat.leb_le in H
             | H : (_ <=? _) = false |- _ => apply Nat.leb_gt in H
             | H : (_ <? _) = true |- _ => apply Nat.ltb_lt in H
             | H : (_ <? _) = false |- _ => apply Nat.ltb_ge in H
             end; lia.
Qed.

(** on a route of [U] targets with equal weights (the ring is the target list) a listener that takes
    [c] picks per connection, gcd(c, U) > 1, never sends a connection to some target, however many
    connections arrive: [c] = 2, [U] = 2 is the defect repaired by 971ce92 *)
Theorem listener_stride_starves c U total : 0 < U -> 1 <= c -> 1 < Nat.gcd c U -> (total < two64)%N ->
  exists p, p < U /\ occupancy (Some p) (map Some (seq 0 U)) = 1 /\
    forall k, (total + N.of_nat (c * k) <= two64)%N ->
      exists us total', conns_run c k (map Some (seq 0 U)) total = Ok (us, total') /\ ~ In (Some p) us.
Proof.
  intros HU Hc Hg Hlt.
  destruct (stride_starves c U (N.to_nat total) HU Hg) as (p & Hp & Hnever).
  exists p. split; [exact Hp|]. split.
  { rewrite occupancy_some_seq. cbn [Nat.add]. destruct (0 <=? p) eqn:E1; destruct (p <? U) eqn:E2; cbn [andb]; try reflexivity;
      [apply Nat.ltb_ge in E2; lia|apply Nat.leb_gt in E1; lia|apply Nat.leb_gt in E1; lia]. }
  intros k Hb. assert (Hne : map Some (seq 0 U) <> []) by (destruct U; [lia|discriminate]).
  rewrite (conns_run_eq _ c Hne Hc k total Hlt Hb). eexists _, _. split; [reflexivity|].
  intros Hin. apply in_map_iff in Hin. destruct Hin as (i & Hi & _).
  rewrite map_length, seq_length in Hi.
  rewrite nth_map_some_seq in Hi by (unfold conn_slot; apply Nat.mod_upper_bound; lia).
  injection Hi as Hi. exact (Hnever i Hi).
Qed.

(* ---------- both wirings as "c picks per connection" ---------- *)
Theorem route_conn_picks rt : 2 <= lr_n rt ->
  route_conn MPFirst rt = bind (conn_picks 1 (lr_ring rt) (lr_total rt)) (fun p => Ok (fst p, lr_set_total rt (snd p)))
  /\ route_conn MPConfigured rt = bind (conn_picks 2 (lr_ring rt) (lr_total rt)) (fun p => Ok (fst p, lr_set_total rt (snd p))).
Proof.
  intros Hn. rewrite (route_conn_first_picks rt Hn), (route_conn_configured_picks rt Hn).
  split.
  - destruct (conn_picks 1 (lr_ring rt) (lr_total rt)) as [[u t]| |]; reflexivity.
  - destruct (conn_picks 2 (lr_ring rt) (lr_total rt)) as [[u t]| |]; reflexivity.
Qed.

Example listener_nonvacuous :
  listener_run MPFirst [0; 1; 0; 2; 1; 0; 1; 0]
    [{| lr_n := 2; lr_ring := [Some 0; Some 1]; lr_total := 0 |};
     {| lr_n := 3; lr_ring := [Some 0; Some 1; Some 2]; lr_total := 0 |}]
  = Ok ([Some 0; Some 0; Some 1; None; Some 1; Some 0; Some 2; Some 1],
        [{| lr_n := 2; lr_ring := [Some 0; Some 1]; lr_total := 4 |};
         {| lr_n := 3; lr_ring := [Some 0; Some 1; Some 2]; lr_total := 3 |}]).
Proof. vm_compute. reflexivity. Qed.

(* ---------- a stride coprime to the ring length ---------- *)
Lemma mod_add_same_zero A D U : U <> 0 -> (A + D) mod U = A mod U -> D mod U = 0.
Proof.
  intros HU H.
  pose proof (Nat.div_mod A U HU) as HA. pose proof (Nat.div_mod (A + D) U HU) as HB.
  assert (Hle : A / U <= (A + D) / U) by (apply Nat.div_le_mono; lia).
  rewrite H in HB.
  assert (HD : D = ((A + D) / U - A / U) * U) by nia.
  rewrite HD. apply Nat.mod_mul. exact HU.
Qed.

Lemma conn_slot_inj c s U i i' : Nat.gcd c U = 1 -> i < U -> i' < U -> i <= i' ->
  conn_slot c s U i = conn_slot c s U i' -> i = i'.
Proof.
  intros Hg Hi Hi' Hle H. unfold conn_slot in H.
  assert (HU : U <> 0) by lia.
  replace (s + c * i' + (c - 1)) with ((s + c * i + (c - 1)) + c * (i' - i)) in H by nia.
  symmetry in H. apply mod_add_same_zero in H; [|exact HU].
  apply Nat.mod_divide in H; [|exact HU].
  assert (Hdiv : Nat.divide U (i' - i)).
  { apply (Nat.gauss U c (i' - i)); [exact H|]. rewrite Nat.gcd_comm. exact Hg. }
  destruct Hdiv as [z Hz]. destruct z as [|z]; [lia|]. nia.
Qed.

Lemma NoDup_map_inj_on {X Y} (f : X -> Y) l :
  (forall x y, In x l -> In y l -> f x = f y -> x = y) -> NoDup l -> NoDup (map f l).
Proof.
  intros Hinj Hnd. induction Hnd as [|a l Hna Hnd IH]; [constructor|].
  cbn [map]. constructor.
  - intros Hin. apply in_map_iff in Hin. destruct Hin as (b & Hb & Hbl).
    assert (b = a) by (apply Hinj; [right; exact Hbl|left; reflexivity|exact Hb]). subst b. contradiction.
  - apply IH. intros x y Hx Hy. apply Hinj; right; assumption.
Qed.

Lemma conn_slots_perm c s U : Nat.gcd c U = 1 -> 0 < U ->
  Permutation.Permutation (map (conn_slot c s U) (seq 0 U)) (seq 0 U).
Proof.
  intros Hg HU. apply Permutation.NoDup_Permutation_bis.
  - apply NoDup_map_inj_on; [|apply seq_NoDup].
    intros x y Hx Hy Hxy. apply in_seq in Hx. apply in_seq in Hy.
    destruct (Nat.le_ge_cases x y) as [Hle|Hle].
    + apply (conn_slot_inj c s U x y); try lia; assumption.
    + symmetry. apply (conn_slot_inj c s U y x); try lia; assumption.
  - rewrite map_length. lia.
  - intros x Hx. apply in_map_iff in Hx. destruct Hx as (i & <- & _). apply in_seq.
    split; [lia|]. cbn [Nat.add]. unfold conn_slot. apply Nat.mod_upper_bound. lia.
Qed.

Lemma occupancy_perm t a b : Permutation.Permutation a b -> occupancy t a = occupancy t b.
Proof.
  intros H. induction H as [|x a b H IH|x y a|a b c H1 IH1 H2 IH2].
  - reflexivity.
  - rewrite !occupancy_cons, IH. reflexivity.
  - rewrite !occupancy_cons. lia.
  - congruence.
Qed.

Lemma map_nth_seq_id {X} (l : list X) d : map (fun i => nth i l d) (seq 0 (length l)) = l.
Proof.
  rewrite (map_ext _ (fun j => nth (0 + j) l d)) by reflexivity.
  rewrite map_nth_seq_skip by (cbn [Nat.add]; lia). cbn [skipn]. apply firstn_all.
Qed.

(** a stride coprime to the ring length visits every slot exactly once in [len ring] connections:
    the exact share survives (in another order) *)
Theorem conns_run_coprime_exact r c total : r <> [] -> 1 <= c -> Nat.gcd c (length r) = 1 ->
  (total < two64)%N -> (total + N.of_nat (c * length r) <= two64)%N ->
  exists us total', conns_run c (length r) r total = Ok (us, total')
    /\ forall t, occupancy t us = occupancy t r.
Proof.
  intros Hne Hc Hg Hlt Hb. assert (HU : 0 < length r) by (destruct r; [congruence|cbn; lia]).
  rewrite (conns_run_eq r c Hne Hc (length r) total Hlt Hb). eexists _, _. split; [reflexivity|].
  intros t.
  rewrite <- (map_map (conn_slot c (N.to_nat total) (length r)) (fun x => nth x r None)).
  rewrite (occupancy_perm t _ (map (fun x => nth x r None) (seq 0 (length r)))).
  - rewrite map_nth_seq_id. reflexivity.
  - apply Permutation.Permutation_map. apply conn_slots_perm; assumption.
Qed.
