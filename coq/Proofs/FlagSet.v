(** Proofs about Model/FlagSet.v: the map/visit formulation of ParseFlags chooses,
    for every flag, the value of the first present source in the fixed order
    command line, prefixes in order, properties, default. *)
From Coq Require Import String List NArith Bool Lia Arith.
From Fabio Require Import Lib.Outcome Lib.Bytes Model.FlagSet.
Import ListNotations.
Local Open Scope N_scope.

(* ---------- association lists ---------- *)
Lemma beq_sym a b : beq a b = beq b a.
Proof.
  destruct (beq a b) eqn:E; symmetry.
  - apply beq_eq in E. subst. apply beq_refl.
  - apply beq_neq in E. apply beq_neq. congruence.
Qed.

Lemma map_get_set m k v k' :
  map_get (map_set m k v) k' = if beq k k' then Some v else map_get m k'.
Proof.
  induction m as [|[k0 v0] m IH]; cbn [map_set map_get].
  - reflexivity.
  - destruct (beq k0 k) eqn:E0.
    + cbn [map_get]. apply beq_eq in E0. subst k0. destruct (beq k k'); reflexivity.
    + cbn [map_get]. destruct (beq k0 k') eqn:E1.
      * apply beq_eq in E1. subst k0. rewrite beq_sym, E0. reflexivity.
      * exact IH.
Qed.

(* ---------- find over append / reverse ---------- *)
Lemma find_app_c {A} (f : A -> bool) l1 l2 :
  find f (l1 ++ l2) = match find f l1 with Some x => Some x | None => find f l2 end.
Proof. induction l1 as [|x l1 IH]; cbn [app find]; [reflexivity|]. destruct (f x); auto. Qed.

(* ---------- the environment map is "last NAME=VALUE entry, any case" ---------- *)
Definition env_matches (key : str) (e : str) : bool :=
  match snd (cut_eq e) with Some _ => true | None => false end
  && beq (upper (fst (cut_eq e))) key.

Lemma env_map_get environ : forall m0 key,
  map_get (env_map environ m0) key
  = match find (env_matches key) (rev environ) with
    | Some e => snd (cut_eq e)
    | None => map_get m0 key
    end.
Proof.
  induction environ as [|e r IH]; intros m0 key; cbn [env_map].
  - reflexivity.
  - cbn [rev]. rewrite find_app_c. destruct (cut_eq e) as [n o] eqn:Ec. destruct o as [v|].
    + rewrite IH. destruct (find (env_matches key) (rev r)); [reflexivity|].
      cbn [find]. unfold env_matches at 1. rewrite Ec. cbn [fst snd andb].
      rewrite map_get_set. destruct (beq (upper n) key); cbv beta iota; [rewrite Ec|]; reflexivity.
    + rewrite IH. destruct (find (env_matches key) (rev r)); [reflexivity|].
      cbn [find]. unfold env_matches at 1. rewrite Ec. cbn [snd andb]. reflexivity.
Qed.

Lemma env_map_value environ key :
  map_get (env_map environ []) key = env_value environ key.
Proof. rewrite env_map_get. reflexivity. Qed.

(* the loop before fix 3899f15: on blocks where every entry has an '=' it computes the
   same map; on every other block it panics *)
Lemma env_map_unrepaired_on_domain environ : forall m0,
  env_well_formed environ = true -> env_map_unrepaired environ m0 = Ok (env_map environ m0).
Proof.
  induction environ as [|e r IH]; intros m0 H; cbn [env_map env_map_unrepaired].
  - reflexivity.
  - cbn [env_well_formed forallb] in H. apply andb_true_iff in H as [He Hr].
    destruct (cut_eq e) as [n o]. cbn [snd] in He. destruct o; [|discriminate].
    apply IH. exact Hr.
Qed.

Lemma env_map_unrepaired_panics environ : forall m0,
  env_well_formed environ = false -> env_map_unrepaired environ m0 = Panic.
Proof.
  induction environ as [|e r IH]; intros m0 H; cbn [env_map_unrepaired].
  - discriminate.
  - cbn [env_well_formed forallb] in H.
    destruct (cut_eq e) as [n o]. cbn [snd] in H. destruct o; [|reflexivity].
    apply IH. exact H.
Qed.

(* ---------- the command line: the last assignment ---------- *)
Lemma last_of_filter (P : str * str -> bool) (l : list (str * str)) :
  match rev (map snd (filter P l)) with v :: _ => Some v | [] => None end
  = match find P (rev l) with Some c => Some (snd c) | None => None end.
Proof.
  induction l as [|x l IH] using rev_ind; [reflexivity|].
  rewrite filter_app, map_app, rev_app_distr, rev_app_distr. cbn [filter rev app find].
  destruct (P x); cbn [map rev app]; [reflexivity | exact IH].
Qed.

Lemma calls_for_final name calls :
  match rev (calls_for name calls) with v :: _ => Some v | [] => None end = cmd_value calls name.
Proof. unfold calls_for, cmd_value. apply last_of_filter. Qed.

Lemma calls_for_nil name calls : calls_for name calls = [] -> cmd_value calls name = None.
Proof. intros H. rewrite <- calls_for_final, H. reflexivity. Qed.

(* ---------- first_some ---------- *)
Lemma first_some_cons_some {A} (v : A) l : first_some (Some v :: l) = Some v.
Proof. reflexivity. Qed.
Lemma first_some_cons_none {A} (l : list (option A)) : first_some (None :: l) = first_some l.
Proof. reflexivity. Qed.

Lemma env_lookup_first_some prefixes : forall i env name,
  match env_lookup prefixes i env name with Some (_, v) => Some v | None => None end
  = first_some (map (fun p => map_get env (env_name p name)) prefixes).
Proof.
  induction prefixes as [|p r IH]; intros i env name; cbn [env_lookup map]; [reflexivity|].
  destruct (map_get env (env_name p name)) as [v|].
  - rewrite first_some_cons_some. reflexivity.
  - rewrite first_some_cons_none. apply IH.
Qed.

Lemma first_some_app_none {A} (l1 l2 : list (option A)) :
  first_some l1 = None -> first_some (l1 ++ l2) = first_some l2.
Proof.
  induction l1 as [|[a|] l1 IH]; cbn [app]; intros H.
  - reflexivity.
  - rewrite first_some_cons_some in H. discriminate.
  - rewrite first_some_cons_none in *. auto.
Qed.

Lemma first_some_app_some {A} (l1 l2 : list (option A)) v :
  first_some l1 = Some v -> first_some (l1 ++ l2) = Some v.
Proof.
  induction l1 as [|[a|] l1 IH]; cbn [app]; intros H.
  - discriminate.
  - rewrite first_some_cons_some in *. exact H.
  - rewrite first_some_cons_none in *. auto.
Qed.

(* ---------- one flag ---------- *)
Definition is_some {A} (o : option A) : bool := match o with Some _ => true | None => false end.

Lemma visit_choice calls prefixes env props f :
  let r := visit calls prefixes env props f in
  r_name r = fname f /\
  final_raw r = first_some (cmd_value calls (fname f)
                            :: map (fun p => map_get env (env_name p (fname f))) prefixes
                            ++ [props_value props (fname f)]) /\
  r_set r = is_some (final_raw r).
Proof.
  cbn zeta. unfold visit.
  destruct (calls_for (fname f) calls) as [|c cs] eqn:Ec.
  - rewrite (calls_for_nil _ _ Ec), first_some_cons_none.
    pose proof (env_lookup_first_some prefixes 0 env (fname f)) as Hl.
    destruct (env_lookup prefixes 0 env (fname f)) as [[i v]|].
    + cbn [r_name r_set r_calls]. unfold final_raw. cbn [r_calls rev app].
      rewrite (first_some_app_some _ _ v (eq_sym Hl)). auto.
    + rewrite (first_some_app_none _ _ (eq_sym Hl)).
      destruct props as [p|]; cbn [props_value].
      * destruct (map_get p (fname f)) as [v|]; cbn [r_name r_set]; unfold final_raw;
          cbn [r_calls rev app]; auto.
      * cbn [r_name r_set]. unfold final_raw. cbn [r_calls rev app]. auto.
  - cbn [r_name r_set]. unfold final_raw. cbn [r_calls].
    pose proof (calls_for_final (fname f) calls) as Hc. rewrite Ec in Hc.
    destruct (rev (c :: cs)) as [|v vs] eqn:Er.
    + apply (f_equal (@length _)) in Er. rewrite rev_length in Er. discriminate.
    + rewrite <- Hc, first_some_cons_some. auto.
Qed.

Lemma Forall2_in_r {A B} (P : A -> B -> Prop) l rs r :
  Forall2 P l rs -> In r rs -> exists f, In f l /\ P f r.
Proof.
  induction 1 as [|f0 r0 fs rs0 H0 _ IH]; [intros []|]. intros [<-|Hr].
  - exists f0. split; [left; reflexivity | exact H0].
  - destruct (IH Hr) as (f & Hf & Hp). exists f. split; [right; exact Hf | exact Hp].
Qed.

Lemma Forall2_in_l {A B} (P : A -> B -> Prop) l rs f :
  Forall2 P l rs -> In f l -> exists r, In r rs /\ P f r.
Proof.
  induction 1 as [|f0 r0 fs rs0 H0 _ IH]; [intros []|]. intros [<-|Hf].
  - exists r0. split; [left; reflexivity | exact H0].
  - destruct (IH Hf) as (r & Hr & Hp). exists r. split; [right; exact Hr | exact Hp].
Qed.

(* ---------- ParseFlags ---------- *)
Section Main.
  Variable flags : list flagdecl.
  Variable bad : str -> str -> bool.

  Definition visited (calls : list (str * str)) environ prefixes props : list flag_result :=
    map (visit calls (match prefixes with [] => [[]] | _ => prefixes end)
               (env_map environ []) props) flags.

  Lemma parse_flags_unfold args environ prefixes props calls :
    parse_args flags bad args [] = Ok calls ->
    parse_flags flags bad args environ prefixes props
    = finish_visit bad (visited calls environ prefixes props).
  Proof. intros Hc. unfold parse_flags. rewrite Hc. reflexivity. Qed.

  Lemma finish_visit_ok rs rs' : finish_visit bad rs = Ok rs' -> rs' = rs.
  Proof. unfold finish_visit. destruct (existsb (rejected bad) rs); congruence. Qed.

  (* ok or error, nothing else; the error is the one class "a value was rejected" *)
  Lemma parse_flags_verdict args environ prefixes props calls :
    parse_args flags bad args [] = Ok calls ->
    parse_flags flags bad args environ prefixes props = Ok (visited calls environ prefixes props) \/
    parse_flags flags bad args environ prefixes props = Err 1.
  Proof.
    intros Hc. rewrite (parse_flags_unfold _ _ _ _ _ Hc). unfold finish_visit.
    destruct (existsb _ _); auto.
  Qed.

  Lemma visited_choice calls environ prefixes props :
    Forall2 (fun f r => r_name r = fname f /\
                        final_raw r = spec_choice_gen calls environ prefixes props (fname f) /\
                        r_set r = is_some (final_raw r)) flags (visited calls environ prefixes props).
  Proof.
    unfold visited. generalize flags as l.
    induction l as [|f fs IH]; cbn [map]; constructor; [|exact IH].
    destruct (visit_choice calls (match prefixes with [] => [[]] | _ => prefixes end)
                           (env_map environ []) props f) as (Hn & Hf & Hs).
    split; [exact Hn|]. split; [|exact Hs].
    rewrite Hf. unfold spec_choice_gen. f_equal. f_equal. f_equal.
    apply map_ext. intros p. apply env_map_value.
  Qed.

  (* general form, any prefix list, any environment block: whenever ParseFlags succeeds ... *)
  Theorem precedence_gen args environ prefixes props calls rs :
    parse_args flags bad args [] = Ok calls ->
    parse_flags flags bad args environ prefixes props = Ok rs ->
    Forall2 (fun f r => r_name r = fname f /\
                        final_raw r = spec_choice_gen calls environ prefixes props (fname f) /\
                        r_set r = is_some (final_raw r)) flags rs.
  Proof.
    intros Hc Hp. rewrite (parse_flags_unfold _ _ _ _ _ Hc) in Hp.
    apply finish_visit_ok in Hp. subst rs. apply visited_choice.
  Qed.

  (* ... and it succeeds when no chosen value is rejected by its option's type *)
  Theorem parse_flags_accepts args environ prefixes props calls :
    parse_args flags bad args [] = Ok calls ->
    (forall f v, In f flags ->
                 spec_choice_gen calls environ prefixes props (fname f) = Some v ->
                 bad (fname f) v = false) ->
    exists rs, parse_flags flags bad args environ prefixes props = Ok rs.
  Proof.
    intros Hc Hgood. rewrite (parse_flags_unfold _ _ _ _ _ Hc). unfold finish_visit.
    destruct (existsb (rejected bad) (visited calls environ prefixes props)) eqn:E; [|eauto].
    exfalso. apply existsb_exists in E as (r & Hr & Hrej).
    pose proof (visited_choice calls environ prefixes props) as Hall.
    destruct (Forall2_in_r _ _ _ _ Hall Hr) as (f & Hf & Hn & Hfr & _).
    unfold rejected in Hrej. unfold final_raw in Hfr.
    destruct (r_src r); try discriminate;
      (destruct (rev (r_calls r)) as [|v vs]; [discriminate|];
       rewrite Hn in Hrej; rewrite (Hgood f v Hf (eq_sym Hfr)) in Hrej; discriminate).
  Qed.

  Lemma spec_choice_fabio calls environ props name :
    spec_choice_gen calls environ fabio_prefixes props name = spec_choice calls environ props name.
  Proof. reflexivity. Qed.

  (* the five sources of config.Load *)
  Theorem precedence args environ props calls rs :
    parse_args flags bad args [] = Ok calls ->
    parse_flags flags bad args environ fabio_prefixes props = Ok rs ->
    Forall2 (fun f r => r_name r = fname f /\
                        final_raw r = spec_choice calls environ props (fname f) /\
                        r_set r = is_some (final_raw r)) flags rs.
  Proof. intros Hc Hp. exact (precedence_gen args environ fabio_prefixes props calls rs Hc Hp). Qed.

  (* letter case of environment names does not matter *)
  Definition same_up_to_case (e e' : str) : Prop :=
    upper (fst (cut_eq e)) = upper (fst (cut_eq e')) /\ snd (cut_eq e) = snd (cut_eq e').

  Lemma env_map_case environ environ' :
    Forall2 same_up_to_case environ environ' ->
    forall m0, env_map environ m0 = env_map environ' m0.
  Proof.
    induction 1 as [|e e' r r' [Hn Ho] _ IH]; intros m0; cbn [env_map]; [reflexivity|].
    destruct (cut_eq e) as [n o], (cut_eq e') as [n' o']. cbn [fst snd] in *. subst o'.
    destruct o; [rewrite Hn; apply IH | apply IH].
  Qed.

  Theorem env_case_insensitive args environ environ' prefixes props :
    Forall2 same_up_to_case environ environ' ->
    parse_flags flags bad args environ prefixes props
    = parse_flags flags bad args environ' prefixes props.
  Proof.
    intros H. unfold parse_flags. rewrite (env_map_case _ _ H). reflexivity.
  Qed.

  (* ... nor does the case of the prefix the caller passes *)
  Lemma env_name_upper p name : env_name (upper p) name = env_name p name.
  Proof.
    unfold env_name, upper. rewrite !map_app, map_map. f_equal.
    apply map_ext. intros c. unfold upper_byte, is_lower.
    destruct ((97 <=? c) && (c <=? 122)) eqn:E; [|rewrite E; reflexivity].
    apply andb_true_iff in E as [E1 E2]. apply N.leb_le in E1, E2.
    replace ((97 <=? c - 32) && (c - 32 <=? 122)) with false; [reflexivity|].
    symmetry. apply andb_false_iff. left. apply N.leb_gt. lia.
  Qed.

  (* flag.Parse itself never panics (nor does the model of it) *)
  Lemma parse_args_not_panic : forall n args calls,
    (length args <= n)%nat -> parse_args flags bad args calls <> Panic.
  Proof.
    induction n as [|n IH]; intros args calls Hl.
    - destruct args; [cbn; discriminate | cbn in Hl; lia].
    - destruct args as [|s rest]; [cbn; discriminate|]. cbn [length] in Hl.
      cbn [parse_args].
      destruct s as [|c0 [|c1 s2]]; try discriminate.
      destruct (negb (c0 =? 45)); [discriminate|].
      destruct ((c1 =? 45) && match s2 with [] => true | _ => false end); [discriminate|].
      destruct (if c1 =? 45 then s2 else c1 :: s2) as [|n0 after]; [discriminate|].
      destruct ((n0 =? 45) || (n0 =? 61)); [discriminate|].
      destruct (split_flag_value (n0 :: after)) as [name val].
      destruct (lookup_flag flags name) as [fl|].
      + destruct (fbool fl).
        * destruct (bad name _); [discriminate | apply IH; lia].
        * destruct val as [v|].
          -- destruct (bad name v); [discriminate | apply IH; lia].
          -- destruct rest as [|v rest']; [discriminate|].
             destruct (bad name v); [discriminate|]. apply IH. cbn [length] in Hl. lia.
      + destruct (beq name _ || beq name _); discriminate.
  Qed.

  (* ParseFlags never panics: every argument list, every environment block (entries
     without '=' included), every prefix list, every properties map *)
  Theorem parse_flags_never_panics args environ prefixes props :
    parse_flags flags bad args environ prefixes props <> Panic.
  Proof.
    unfold parse_flags.
    destruct (parse_args flags bad args []) as [calls|k|] eqn:Hc; cbn [bind]; try discriminate.
    - unfold finish_visit. destruct (existsb _ _); discriminate.
    - exfalso. exact (parse_args_not_panic _ _ _ (le_n _) Hc).
  Qed.

  (* entries without '=' are as good as absent *)
  Theorem entries_without_eq_ignored args environ prefixes props :
    parse_flags flags bad args environ prefixes props
    = parse_flags flags bad args
        (filter (fun e => match snd (cut_eq e) with Some _ => true | None => false end) environ)
        prefixes props.
  Proof.
    unfold parse_flags.
    assert (H : forall m0, env_map environ m0 =
              env_map (filter (fun e => match snd (cut_eq e) with Some _ => true | None => false end) environ) m0).
    { induction environ as [|e r IH]; intros m0; cbn [env_map filter]; [reflexivity|].
      destruct (cut_eq e) as [n o] eqn:Ec. cbn [snd]. destruct o; cbn [env_map]; [rewrite Ec|]; apply IH. }
    rewrite H. reflexivity.
  Qed.

  (* ---- the loop before fix 3899f15 (repaired in /repo) ---- *)
  Theorem unrepaired_env_without_eq_panics args environ prefixes props calls :
    parse_args flags bad args [] = Ok calls ->
    env_well_formed environ = false ->
    parse_flags_unrepaired flags bad args environ prefixes props = Panic.
  Proof.
    intros Hc Hw. unfold parse_flags_unrepaired. rewrite Hc. cbn [bind].
    rewrite (env_map_unrepaired_panics _ _ Hw). reflexivity.
  Qed.

  Theorem unrepaired_agrees_on_domain args environ prefixes props :
    env_well_formed environ = true ->
    parse_flags_unrepaired flags bad args environ prefixes props
    = parse_flags flags bad args environ prefixes props.
  Proof.
    intros Hw. unfold parse_flags_unrepaired, parse_flags.
    rewrite (env_map_unrepaired_on_domain _ _ Hw). reflexivity.
  Qed.
End Main.

(* ---------- source equivalence ---------- *)
(* only source k supplies a value for the option, and it is v *)
Definition only_source (calls : list (str * str)) (environ : list str) (props : option smap)
           (name : str) (k : N) (v : str) : Prop :=
  forall j, In j [1; 2; 3; 4] ->
            present calls environ props name j = if j =? k then Some v else None.

Lemma only_source_choice calls environ props name k v :
  In k [1; 2; 3; 4] -> only_source calls environ props name k v ->
  spec_choice calls environ props name = Some v.
Proof.
  intros Hk H. unfold spec_choice. cbn [map].
  rewrite (H 1), (H 2), (H 3), (H 4) by (cbn; auto 6).
  cbn in Hk. destruct Hk as [<-|[<-|[<-|[<-|[]]]]]; reflexivity.
Qed.

(* whichever single source supplies the raw value v, the flag's Value.Set receives v last
   and the flag counts as set *)
Theorem source_equivalence flags bad args environ props calls rs k v f :
  parse_args flags bad args [] = Ok calls ->
  parse_flags flags bad args environ fabio_prefixes props = Ok rs ->
  In f flags -> In k [1; 2; 3; 4] ->
  only_source calls environ props (fname f) k v ->
  exists r, In r rs /\ r_name r = fname f /\ final_raw r = Some v /\ r_set r = true.
Proof.
  intros Hc Hp Hf Hk Ho.
  pose proof (precedence flags bad args environ props calls rs Hc Hp) as Hall.
  destruct (Forall2_in_l _ _ _ _ Hall Hf) as (r & Hr & Hn & Hfr & Hs).
  exists r. rewrite (only_source_choice _ _ _ _ _ _ Hk Ho) in Hfr.
  repeat split; auto. rewrite Hs, Hfr. reflexivity.
Qed.

(* ---------- the same verdict from every source, for every raw value ----------
   One registered option, one raw value v (well-formed for the option's type or not), given by
   one source alone.  The command line ("-name=v") is accepted iff the type accepts v; so is the
   FABIO_ variable, the plain variable and the properties file. *)
Lemma cut_eq_app n v : ~ In 61 n -> cut_eq (n ++ 61 :: v) = (n, Some v).
Proof.
  induction n as [|c n IH]; intros H; cbn [app cut_eq].
  - reflexivity.
  - destruct (c =? 61) eqn:E; [apply N.eqb_eq in E; subst; exfalso; apply H; left; reflexivity|].
    rewrite IH; [reflexivity|]. intros Hin. apply H. right. exact Hin.
Qed.

Definition plain_name (name : str) : Prop :=
  match name with
  | [] => False
  | c :: r => c <> 45 /\ c <> 61 /\ ~ In 61 r
  end.

Lemma cmdline_verdict bad name isbool v :
  plain_name name ->
  parse_args [{| fname := name; fbool := isbool |}] bad [45 :: name ++ 61 :: v] []
  = if bad name v then Err 1 else Ok [(name, v)].
Proof.
  destruct name as [|c r]; [intros []|]. intros (H45 & H61 & Hr).
  cbn [parse_args app]. cbn [N.eqb Pos.eqb negb].
  apply N.eqb_neq in H45, H61. rewrite H45. cbn [andb]. rewrite H45, H61. cbn [orb].
  unfold split_flag_value. rewrite (cut_eq_app r v Hr).
  unfold lookup_flag. cbn [find fname]. rewrite beq_refl. cbn [fbool].
  destruct isbool; destruct (bad (c :: r) v); reflexivity.
Qed.

(* ---------- the verdict of ParseFlags, for any flag list ----------
   ParseFlags succeeds iff flag.Parse does and, for every registered flag the command line
   does not set, the value of the first present other source is accepted by the flag's type. *)
Definition chosen_ok (bad : str -> str -> bool) (calls : list (str * str)) (environ prefixes : list str)
           (props : option smap) (f : flagdecl) : bool :=
  match cmd_value calls (fname f) with
  | Some _ => true                    (* accepted by flag.Parse already *)
  | None => match spec_choice_gen calls environ prefixes props (fname f) with
            | Some v => negb (bad (fname f) v)
            | None => true
            end
  end.

Lemma visit_rejected bad calls environ prefixes props f :
  rejected bad (visit calls (match prefixes with [] => [[]] | _ => prefixes end)
                      (env_map environ []) props f)
  = negb (chosen_ok bad calls environ prefixes props f).
Proof.
  destruct (visit_choice calls (match prefixes with [] => [[]] | _ => prefixes end)
                         (env_map environ []) props f) as (Hn & Hf & _).
  assert (Hspec : final_raw (visit calls (match prefixes with [] => [[]] | _ => prefixes end)
                                   (env_map environ []) props f)
                  = spec_choice_gen calls environ prefixes props (fname f)).
  { rewrite Hf. unfold spec_choice_gen. f_equal. f_equal. f_equal.
    apply map_ext. intros p. apply env_map_value. }
  unfold chosen_ok, rejected. rewrite Hn. rewrite <- Hspec. clear Hf Hspec.
  unfold visit, final_raw.
  destruct (calls_for (fname f) calls) as [|c cs] eqn:Ec.
  - rewrite (calls_for_nil _ _ Ec).
    destruct (env_lookup _ 0 (env_map environ []) (fname f)) as [[i v]|].
    + cbn [r_src r_calls rev app]. rewrite negb_involutive. reflexivity.
    + destruct props as [p|]; [destruct (map_get p (fname f)) as [v|]|];
        cbn [r_src r_calls rev app]; try rewrite negb_involutive; reflexivity.
  - cbn [r_src]. pose proof (calls_for_final (fname f) calls) as Hc. rewrite Ec in Hc.
    destruct (rev (c :: cs)) as [|v vs] eqn:Er.
    + apply (f_equal (@length _)) in Er. rewrite rev_length in Er. discriminate.
    + rewrite <- Hc. reflexivity.
Qed.

Theorem parse_flags_verdict_spec flags bad args environ prefixes props calls :
  parse_args flags bad args [] = Ok calls ->
  is_ok (parse_flags flags bad args environ prefixes props)
  = forallb (chosen_ok bad calls environ prefixes props) flags.
Proof.
  intros Hc. rewrite (parse_flags_unfold flags bad _ _ _ _ _ Hc). unfold finish_visit, visited.
  assert (E : existsb (rejected bad)
                (map (visit calls (match prefixes with [] => [[]] | _ => prefixes end)
                            (env_map environ []) props) flags)
              = negb (forallb (chosen_ok bad calls environ prefixes props) flags)).
  { induction flags as [|f fs IH]; [reflexivity|]. cbn [map existsb forallb].
    rewrite visit_rejected, negb_andb. f_equal.
    (* IH was stated for the section-free lemma: re-prove pointwise *)
    clear IH Hc. induction fs as [|g gs IHg]; [reflexivity|]. cbn [map existsb forallb].
    rewrite visit_rejected, negb_andb. f_equal. exact IHg. }
  rewrite E. destruct (forallb _ flags); reflexivity.
Qed.

(* the other spellings of a command-line assignment mean the same as "-name=v" *)
Lemma cmdline_spellings bad name isbool v :
  plain_name name ->
  let flags := [{| fname := name; fbool := isbool |}] in
  parse_args flags bad [45 :: 45 :: name ++ 61 :: v] [] = parse_args flags bad [45 :: name ++ 61 :: v] [] /\
  (isbool = false ->
   parse_args flags bad [45 :: name; v] [] = parse_args flags bad [45 :: name ++ 61 :: v] [] /\
   parse_args flags bad [45 :: 45 :: name; v] [] = parse_args flags bad [45 :: name ++ 61 :: v] []) /\
  (isbool = true ->
   parse_args flags bad [45 :: name] [] = parse_args flags bad [45 :: name ++ 61 :: bs "true"] []).
Proof.
  intros Hn flags. subst flags.
  assert (Hsplit0 : forall n, ~ In 61 n -> cut_eq n = (n, None)).
  { induction n as [|c n IH]; intros H; cbn [cut_eq]; [reflexivity|].
    destruct (c =? 61) eqn:E; [apply N.eqb_eq in E; subst; exfalso; apply H; left; reflexivity|].
    rewrite IH; [reflexivity|]. intros Hin. apply H. right. exact Hin. }
  rewrite !(cmdline_verdict bad name isbool _ Hn).
  destruct name as [|c r]; [destruct Hn|]. destruct Hn as (H45 & H61 & Hr).
  apply N.eqb_neq in H45, H61.
  split; [|split].
  - cbn [parse_args app]. cbn [N.eqb Pos.eqb negb andb]. rewrite H45, H61. cbn [orb].
    unfold split_flag_value. rewrite (cut_eq_app r v Hr).
    unfold lookup_flag. cbn [find fname]. rewrite beq_refl. cbn [fbool].
    destruct isbool; destruct (bad (c :: r) v); reflexivity.
  - intros ->. split.
    + cbn [parse_args app]. cbn [N.eqb Pos.eqb negb]. rewrite H45. cbn [andb]. rewrite H45, H61. cbn [orb].
      unfold split_flag_value. rewrite (Hsplit0 r Hr).
      unfold lookup_flag. cbn [find fname]. rewrite beq_refl. cbn [fbool].
      destruct (bad (c :: r) v); reflexivity.
    + cbn [parse_args app]. cbn [N.eqb Pos.eqb negb andb]. rewrite H45, H61. cbn [orb].
      unfold split_flag_value. rewrite (Hsplit0 r Hr).
      unfold lookup_flag. cbn [find fname]. rewrite beq_refl. cbn [fbool].
      destruct (bad (c :: r) v); reflexivity.
  - intros ->.
    cbn [parse_args app]. cbn [N.eqb Pos.eqb negb]. rewrite H45. cbn [andb]. rewrite H45, H61. cbn [orb].
    unfold split_flag_value. rewrite (Hsplit0 r Hr).
    unfold lookup_flag. cbn [find fname]. rewrite beq_refl. cbn [fbool].
    destruct (bad (c :: r) _); reflexivity.
Qed.

Lemma visited_fabio flags calls environ props :
  visited flags calls environ fabio_prefixes props
  = map (visit calls fabio_prefixes (env_map environ []) props) flags.
Proof. reflexivity. Qed.

Lemma other_source_verdict bad f environ props k v :
  In k [2; 3; 4] -> only_source [] environ props (fname f) k v ->
  parse_flags [f] bad [] environ fabio_prefixes props
  = if bad (fname f) v then Err 1
    else Ok (visited [f] [] environ fabio_prefixes props).
Proof.
  intros Hk Ho. assert (Hk' : In k [1; 2; 3; 4]) by (cbn in *; tauto).
  rewrite (parse_flags_unfold [f] bad [] environ fabio_prefixes props [] eq_refl).
  rewrite visited_fabio. unfold finish_visit.
  cbn [map existsb]. rewrite orb_false_r.
  destruct (visit_choice [] fabio_prefixes (env_map environ []) props f) as (Hn & Hf & _).
  assert (Hfr : final_raw (visit [] fabio_prefixes (env_map environ []) props f) = Some v).
  { pose proof (visited_choice [f] [] environ fabio_prefixes props) as Hall.
    rewrite visited_fabio in Hall.
    cbn [map] in Hall. inversion Hall as [|? ? ? ? (_ & Hx & _) _]; subst.
    rewrite Hx. rewrite spec_choice_fabio. apply (only_source_choice _ _ _ _ _ _ Hk' Ho). }
  unfold rejected. rewrite Hn.
  assert (Hsrc : r_src (visit [] fabio_prefixes (env_map environ []) props f) <> SrcCmdline).
  { unfold visit. cbn [calls_for filter map].
    destruct (env_lookup _ _ _ _) as [[i x]|]; [discriminate|].
    destruct props as [p|]; [destruct (map_get p (fname f))|]; discriminate. }
  unfold final_raw in Hfr.
  destruct (r_src _); try contradiction;
    (destruct (rev (r_calls _)) as [|x xs]; [discriminate|]; inversion Hfr; subst;
     destruct (bad (fname f) v); reflexivity).
Qed.

Theorem same_verdict_every_source bad name isbool v environ props k :
  plain_name name ->
  In k [2; 3; 4] ->
  only_source [] environ props name k v ->
  let f := {| fname := name; fbool := isbool |} in
  is_ok (parse_flags [f] bad [45 :: name ++ 61 :: v] [] fabio_prefixes None) = negb (bad name v) /\
  is_ok (parse_flags [f] bad [] environ fabio_prefixes props) = negb (bad name v).
Proof.
  intros Hn Hk Ho f. subst f. split.
  - unfold parse_flags. rewrite (cmdline_verdict bad name isbool v Hn).
    destruct (bad name v) eqn:E; [reflexivity|]. cbn [bind].
    unfold finish_visit. cbn [map existsb]. unfold visit. cbn [fname calls_for filter fst map snd].
    rewrite beq_refl. cbn [map snd rejected r_src orb]. reflexivity.
  - rewrite (other_source_verdict bad {| fname := name; fbool := isbool |} environ props k v Hk Ho). cbn [fname].
    destruct (bad name v); reflexivity.
Qed.

(* ---------- several Loads in one process ---------- *)
Lemma load_history_nth {I R} (load : I -> R) inputs i :
  nth_error (load_history load inputs) i = option_map load (nth_error inputs i).
Proof. unfold load_history. apply nth_error_map. Qed.

Lemma load_history_app {I R} (load : I -> R) l1 l2 :
  load_history load (l1 ++ l2) = load_history load l1 ++ load_history load l2.
Proof. apply map_app. Qed.

(* each result of a history is the single-Load result of its own input, and the results of
   the Loads already done are not changed by the Loads that follow *)
Theorem load_history_independent {I R} (load : I -> R) (before after : list I) (x : I) :
  nth_error (load_history load (before ++ x :: after)) (length before) = Some (load x) /\
  firstn (length before) (load_history load (before ++ x :: after)) = load_history load before.
Proof.
  split.
  - rewrite load_history_nth, nth_error_app2, Nat.sub_diag by apply le_n. reflexivity.
  - rewrite load_history_app. unfold load_history at 1 3.
    rewrite <- (map_length load before) at 1. rewrite firstn_app, firstn_all, Nat.sub_diag.
    cbn [firstn]. apply app_nil_r.
Qed.

(* ---------- witnesses ---------- *)
Definition ex_flags : list flagdecl :=
  [{| fname := bs "proxy.addr"; fbool := false |}; {| fname := bs "insecure"; fbool := true |}].
Definition no_bad_values (_ _ : str) : bool := false.

(* FOO (no '=') in the environment: ParseFlags before fix 3899f15 panicked whatever else
   was configured (repaired in /repo); the current one ignores the entry *)
Lemma unrepaired_env_without_eq_witness flags bad prefixes props :
  parse_flags_unrepaired flags bad [] [bs "FOO"] prefixes props = Panic.
Proof. reflexivity. Qed.

Example env_without_eq_skipped :
  option_map (map final_raw)
    (match parse_flags ex_flags no_bad_values [] [bs "FOO"; bs "proxy_addr=:3"; bs ""; bs "PROXY_ADDR"]
                       fabio_prefixes None with Ok rs => Some rs | _ => None end)
  = Some [Some (bs ":3"); None].
Proof. vm_compute. reflexivity. Qed.

(* all five sources at once: the command line wins; drop it and FABIO_ wins; and so on *)
Example precedence_nonvacuous :
  let env := [bs "proxy_addr=:3"; bs "Fabio_Proxy_Addr=:2"; bs "HOME=/root"] in
  let props := Some [(bs "proxy.addr", bs ":4")] in
  option_map final_raw (option_map (fun rs => nth 0 rs {| r_name := []; r_set := false; r_calls := []; r_src := SrcDefault |})
     (match parse_flags ex_flags no_bad_values [bs "-proxy.addr=:1"] env fabio_prefixes props with Ok rs => Some rs | _ => None end))
  = Some (Some (bs ":1")) /\
  parse_args ex_flags no_bad_values [bs "-proxy.addr=:1"] [] = Ok [(bs "proxy.addr", bs ":1")] /\
  spec_choice [] env props (bs "proxy.addr") = Some (bs ":2") /\
  spec_choice [] [bs "proxy_addr=:3"] props (bs "proxy.addr") = Some (bs ":3") /\
  spec_choice [] [] props (bs "proxy.addr") = Some (bs ":4") /\
  spec_choice [] [] None (bs "proxy.addr") = None.
Proof. vm_compute. repeat split. Qed.

Example source_equivalence_nonvacuous :
  only_source [(bs "insecure", bs "true")] [] None (bs "insecure") 1 (bs "true") /\
  only_source [] [bs "fabio_INSECURE=true"] None (bs "insecure") 2 (bs "true") /\
  only_source [] [bs "Insecure=true"] None (bs "insecure") 3 (bs "true") /\
  only_source [] [] (Some [(bs "insecure", bs "true")]) (bs "insecure") 4 (bs "true").
Proof.
  repeat split; intros j Hj; cbn in Hj;
    destruct Hj as [<-|[<-|[<-|[<-|[]]]]]; vm_compute; reflexivity.
Qed.

Example env_case_nonvacuous :
  Forall2 same_up_to_case [bs "fabio_proxy_ADDR=:1"; bs "x=y"] [bs "FABIO_PROXY_addr=:1"; bs "X=y"].
Proof. repeat constructor. Qed.

(* ---------- before fix 12b472e (finding F-C15-3, repaired in /repo): an ill-formed typed value got a
   source-dependent verdict ----------
   flagset.go:134 and :145 called f.Set(fl.Name, val) and dropped the error, while flag.Parse fails on
   the same raw value: from the command line the value is rejected, from the environment or
   the file Value.Set is called, fails, the option holds whatever the failed Set left (the zero
   value for the stdlib flag types) and is counted as set. *)
Definition maxconn_flags : list flagdecl := [{| fname := bs "proxy.maxconn"; fbool := false |}].
Definition abc_is_bad (_ raw : str) : bool := beq raw (bs "abc").

Lemma illformed_value_source_dependent :
  parse_flags_set_error_dropped maxconn_flags abc_is_bad [bs "-proxy.maxconn=abc"] [] fabio_prefixes None = Err 1 /\
  parse_flags_set_error_dropped maxconn_flags abc_is_bad [] [bs "FABIO_PROXY_MAXCONN=abc"] fabio_prefixes None
  = Ok [{| r_name := bs "proxy.maxconn"; r_set := true; r_calls := [bs "abc"]; r_src := SrcEnv 0 |}] /\
  parse_flags_set_error_dropped maxconn_flags abc_is_bad [] [] fabio_prefixes (Some [(bs "proxy.maxconn", bs "abc")])
  = Ok [{| r_name := bs "proxy.maxconn"; r_set := true; r_calls := [bs "abc"]; r_src := SrcProps |}].
Proof. vm_compute. repeat split. Qed.

(* outside that region (the command line accepts every value it carries) all sources agree:
   this is [source_equivalence], whose hypothesis [parse_args = Ok calls] says exactly that.
   In particular when no value is ill-formed at all, flag.Parse fails only on syntax: *)
Lemma parse_args_bad_irrelevant flags args : forall n calls,
  (length args <= n)%nat ->
  forall bad, (forall name raw, bad name raw = false) ->
  parse_args flags bad args calls = parse_args flags (fun _ _ => false) args calls.
Proof.
  intros n. revert args. induction n as [|n IH]; intros args calls Hl bad Hb.
  - destruct args; [reflexivity | cbn in Hl; lia].
  - destruct args as [|s rest]; [reflexivity|]. cbn [length] in Hl. cbn [parse_args].
    destruct s as [|c0 [|c1 s2]]; try reflexivity.
    destruct (negb (c0 =? 45)); [reflexivity|].
    destruct ((c1 =? 45) && match s2 with [] => true | _ => false end); [reflexivity|].
    destruct (if c1 =? 45 then s2 else c1 :: s2) as [|n0 after]; [reflexivity|].
    destruct ((n0 =? 45) || (n0 =? 61)); [reflexivity|].
    destruct (split_flag_value (n0 :: after)) as [name val].
    destruct (lookup_flag flags name) as [fl|]; [|reflexivity].
    destruct (fbool fl).
    + rewrite Hb. apply IH; auto; lia.
    + destruct val as [v|].
      * rewrite Hb. apply IH; auto; lia.
      * destruct rest as [|v rest']; [reflexivity|]. rewrite Hb. apply IH; auto. cbn [length] in Hl. lia.
Qed.

Example same_verdict_nonvacuous :
  plain_name (bs "proxy.maxconn") /\
  only_source [] [bs "Fabio_Proxy_MaxConn=abc"] None (bs "proxy.maxconn") 2 (bs "abc") /\
  only_source [] [bs "proxy_maxconn=abc"] None (bs "proxy.maxconn") 3 (bs "abc") /\
  only_source [] [] (Some [(bs "proxy.maxconn", bs "abc")]) (bs "proxy.maxconn") 4 (bs "abc") /\
  parse_flags maxconn_flags abc_is_bad [] [bs "FABIO_PROXY_MAXCONN=abc"] fabio_prefixes None = Err 1 /\
  parse_flags maxconn_flags abc_is_bad [bs "-proxy.maxconn=abc"] [] fabio_prefixes None = Err 1.
Proof.
  split; [vm_compute; repeat split; discriminate || (intros H; repeat (destruct H as [H|H]; try discriminate); exact H)|].
  repeat split; try (intros j Hj; cbn in Hj; destruct Hj as [<-|[<-|[<-|[<-|[]]]]]; vm_compute; reflexivity).
Qed.
