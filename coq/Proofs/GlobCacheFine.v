(** C06 - the lock reduction: invariants of the fine-grained repaired glob cache
    (Model/GlobCacheFine.v, mutex explicit, one action per shared access) for EVERY schedule. *)
From Coq Require Import String List NArith Bool Arith Lia.
From Fabio Require Import Lib.Outcome Lib.Bytes Model.Interleave Model.GlobCacheC06 Model.GlobCacheFine Proofs.GlobCacheC06.
Import ListNotations.

(* ---- the inner 17-state machine run alone ---- *)
Lemma step_done : forall s l, g_at l = GDone -> g_step_unrepaired s l = (s, l).
Proof. intros s l H. unfold g_step_unrepaired. rewrite H. reflexivity. Qed.
Lemma solo_done : forall k s l, g_at l = GDone -> solo k s l = (s, l).
Proof. induction k as [|k IH]; intros s l H; cbn [solo]; [reflexivity|]. rewrite step_done by assumption. now apply IH. Qed.

(* a state of the inner machine has a result only when it has returned *)
Definition res_done (l : glocal) : Prop := g_at l = GDone \/ g_res l = None.
Lemma step_res_done : forall s l, res_done l -> res_done (snd (g_step_unrepaired s l)).
Proof.
  intros s l H. unfold res_done in *. unfold g_step_unrepaired.
  destruct (g_at l) eqn:E; try (destruct H as [H|H]; [discriminate|]);
    repeat match goal with |- context [match ?x with _ => _ end] => destruct x end;
    cbn; auto.
Qed.
Lemma solo_res_done : forall k s l, res_done l -> res_done (snd (solo k s l)).
Proof.
  induction k as [|k IH]; intros s l H; cbn [solo]; [assumption|].
  pose proof (step_res_done s l H) as H1. destruct (g_step_unrepaired s l) as [s1 l1]. now apply IH.
Qed.

(* the uninterrupted section from a state satisfying the sequential invariant: ends returned, with
   the glob of its pattern, in a state satisfying the invariant *)
Lemma final_ok : forall size c0 p, gc_inv size c0 ->
  gc_inv size (fst (solo 11 c0 (g_init_unrepaired p true)))
  /\ g_res (snd (solo 11 c0 (g_init_unrepaired p true))) = Some (Ok p)
  /\ g_at (snd (solo 11 c0 (g_init_unrepaired p true))) = GDone.
Proof.
  intros size c0 p H. pose proof (gc_get_inv size c0 p true H) as G. unfold gc_get in G.
  assert (R : res_done (snd (solo 11 c0 (g_init_unrepaired p true)))).
  { apply solo_res_done. right. reflexivity. }
  destruct (solo 11 c0 (g_init_unrepaired p true)) as [s' l']. cbn [fst snd] in *. destruct G as [G1 G2].
  split; [assumption|]. split; [assumption|]. destruct R as [R|R]; [assumption | congruence].
Qed.

(* ---- the invariant of the fine-grained machine ---- *)
Definition rel (size : nat) (c : gshared) (l : flocal) : Prop :=
  g_thread_ok (f_in l) /\ g_pat (f_in l) = f_pat l /\
  exists c0 j, gc_inv size c0 /\ solo j c (f_in l) = solo 11 c0 (g_init_unrepaired (f_pat l) true).

Definition f_thread_ok (l : flocal) : Prop :=
  match f_res l with
  | None => f_at l <> FDone                 (* a finished Get has a result ... *)
  | Some (Ok v) => v = f_pat l              (* ... the glob compiled from ITS pattern, *)
  | Some (Err _) => f_ok l = false          (* an error only if the pattern does not compile, *)
  | Some Panic => False                     (* never a panic *)
  end.

Definition b2n (b : bool) : nat := if b then 1 else 0.
Fixpoint ncs (ts : list flocal) : nat := match ts with [] => 0 | l :: r => b2n (in_cs l) + ncs r end.

Definition f_inv (size : nat) (s : fshared) (ts : list flocal) : Prop :=
  ncs ts = b2n (f_lock s)                                              (* the mutex is held by exactly one goroutine, or free *)
  /\ (f_lock s = false -> gc_inv size (f_c s))                         (* lock-release points: the sequential invariant *)
  /\ Forall (fun l => in_cs l = true -> rel size (f_c s) l) ts         (* the holder is somewhere on the sequential path *)
  /\ Forall f_thread_ok ts
  /\ m_wf (c_m (f_c s)).                                               (* the map is sound at EVERY point (fast path) *)

Lemma ncs_upd : forall ts i l l', nth_error ts i = Some l ->
  ncs (upd ts i l') + b2n (in_cs l) = ncs ts + b2n (in_cs l').
Proof.
  induction ts as [|a ts IH]; intros [|i] l l' H; cbn in H; try discriminate.
  - inversion H; subst. cbn [upd ncs]. lia.
  - cbn [upd ncs]. specialize (IH i l l' H). lia.
Qed.
Lemma ncs0_all : forall ts, ncs ts = 0 -> Forall (fun l => in_cs l = false) ts.
Proof.
  induction ts as [|a ts IH]; intros H; [constructor|]. cbn [ncs] in H. destruct (in_cs a) eqn:E; cbn in H; [lia|].
  constructor; [assumption | apply IH; lia].
Qed.
Lemma holder_alone : forall (R : flocal -> Prop) ts i l l', ncs ts = 1 -> nth_error ts i = Some l -> in_cs l = true ->
  (in_cs l' = true -> R l') -> Forall (fun x => in_cs x = true -> R x) (upd ts i l').
Proof.
  intros R. induction ts as [|a ts IH]; intros [|i] l l' N H C HR; cbn in H; try discriminate.
  - inversion H; subst a. cbn [ncs] in N. rewrite C in N. cbn in N. cbn [upd]. constructor; [assumption|].
    assert (Z : ncs ts = 0) by lia. apply ncs0_all in Z. eapply Forall_impl; [|exact Z]. cbn. intros x Hx Hy. congruence.
  - cbn [ncs] in N. cbn [upd]. destruct (in_cs a) eqn:Ea; cbn in N.
    + assert (Z : ncs ts = 0) by lia. apply ncs0_all in Z. exfalso.
      assert (in_cs l = false) by (eapply (proj1 (Forall_forall _ _) Z); eapply nth_error_In; eassumption). congruence.
    + constructor; [intros Hx; congruence|]. eapply IH; eauto.
Qed.

Lemma solo_S : forall k s l, solo (S k) s l = let '(s', l') := g_step_unrepaired s l in solo k s' l'.
Proof. reflexivity. Qed.

Lemma f_inv_intro : forall size s ts,
  ncs ts = b2n (f_lock s) -> (f_lock s = false -> gc_inv size (f_c s)) ->
  Forall (fun l => in_cs l = true -> rel size (f_c s) l) ts -> Forall f_thread_ok ts -> m_wf (c_m (f_c s)) ->
  f_inv size s ts.
Proof. intros. unfold f_inv. tauto. Qed.

(* one step of any goroutine preserves the invariant *)
Lemma f_step_inv : forall size s ts i l, f_inv size s ts -> nth_error ts i = Some l ->
  f_inv size (fst (f_step s l)) (upd ts i (snd (f_step s l))).
Proof.
  intros size s ts i l (A & B & C & D & E) H.
  assert (Dl : f_thread_ok l) by (eapply (proj1 (Forall_forall _ _) D); eapply nth_error_In; eassumption).
  assert (Cl : in_cs l = true -> rel size (f_c s) l) by (eapply (proj1 (Forall_forall _ _) C); eapply nth_error_In; eassumption).
  pose proof (ncs_upd ts i l) as NU.
  (* a step that changes nothing shared and leaves the goroutine outside the section *)
  assert (Gen : in_cs l = false -> forall l', in_cs l' = false -> f_thread_ok l' -> f_inv size s (upd ts i l')).
  { intros Out l' O T. specialize (NU l' H). rewrite Out, O in NU. apply f_inv_intro; try assumption.
    - lia.
    - apply Forall_upd; [assumption | intros X; congruence].
    - now apply Forall_upd. }
  unfold f_step. destruct (f_at l) eqn:At.
  - (* fast path *)
    assert (Out : in_cs l = false) by (unfold in_cs; now rewrite At).
    destruct (m_load (c_m (f_c s)) (f_pat l)) as [v|] eqn:EL; cbn [fst snd].
    + apply Gen; [assumption|reflexivity|]. unfold f_thread_ok, f_ret. cbn. apply m_load_some in EL. now apply E.
    + destruct (f_ok l) eqn:EO; cbn [fst snd]; apply Gen; try assumption; try reflexivity; unfold f_thread_ok, f_goto, f_ret; cbn.
      * unfold f_thread_ok in Dl. destruct (f_res l) as [[v| |]|]; try assumption. discriminate.
  - (* Lock *)
    assert (Out : in_cs l = false) by (unfold in_cs; now rewrite At).
    destruct (f_lock s) eqn:Lk; cbn [fst snd].
    + (* blocked *) apply Gen; assumption.
    + (* acquired: the holder starts the sequential path at the current state *)
      set (l' := {| f_at := FCrit; f_pat := f_pat l; f_ok := f_ok l; f_in := g_init_unrepaired (f_pat l) true; f_res := None |}).
      specialize (NU l' H). rewrite Out in NU. cbn [b2n] in A.
      assert (Z : ncs ts = 0) by lia. apply ncs0_all in Z.
      apply f_inv_intro; cbn [f_lock f_c]; try assumption.
      * cbn in NU. cbn. lia.
      * intros X. discriminate.
      * apply Forall_upd.
        -- eapply Forall_impl; [|exact Z]. cbn. intros x Hx Hy. congruence.
        -- intros _. unfold rel. cbn [f_in f_pat l']. split; [exact I|]. split; [reflexivity|].
           exists (f_c s), 11. split; [now apply B | reflexivity].
      * apply Forall_upd; [assumption|]. unfold f_thread_ok. cbn. discriminate.
  - (* inside the section *)
    assert (In : in_cs l = true) by (unfold in_cs; now rewrite At).
    destruct (Cl In) as (Gok & Gpat & c0 & j & I0 & Sj).
    assert (Lk : f_lock s = true).
    { destruct (f_lock s); [reflexivity|]. cbn [b2n] in A. exfalso. apply ncs0_all in A.
      assert (in_cs l = false) by (eapply (proj1 (Forall_forall _ _) A); eapply nth_error_In; eassumption). congruence. }
    assert (N1 : ncs ts = 1) by (rewrite Lk in A; exact A).
    destruct (final_ok size c0 (f_pat l) I0) as (F1 & F2 & F3).
    destruct (g_is_done (f_in l)) eqn:Dn; cbn [fst snd].
    + (* Unlock: the section has run to its end, which is the end of the sequential Get from c0 *)
      assert (Dn' : g_at (f_in l) = GDone) by (unfold g_is_done in Dn; destruct (g_at (f_in l)); try discriminate; reflexivity).
      rewrite (solo_done j _ _ Dn') in Sj.
      assert (Ec : f_c s = fst (solo 11 c0 (g_init_unrepaired (f_pat l) true))) by (rewrite <- Sj; reflexivity).
      assert (Er : g_res (f_in l) = Some (Ok (f_pat l))) by (rewrite <- F2, <- Sj; reflexivity).
      specialize (NU (f_ret l (g_res (f_in l))) H). rewrite In in NU.
      apply f_inv_intro; cbn [f_lock f_c]; try assumption.
      * cbn in NU. cbn. lia.
      * intros _. rewrite Ec. exact F1.
      * eapply holder_alone; eauto; try (cbn; discriminate).
      * apply Forall_upd; [assumption|]. unfold f_thread_ok, f_ret. cbn. rewrite Er. reflexivity.
    + (* one more shared access of the holder *)
      assert (Nd : g_at (f_in l) <> GDone) by (unfold g_is_done in Dn; destruct (g_at (f_in l)); try discriminate; intros X; discriminate).
      destruct j as [|j].
      { exfalso. assert (Sj0 : (f_c s, f_in l) = solo 11 c0 (g_init_unrepaired (f_pat l) true)) by exact Sj.
        apply Nd. rewrite <- F3, <- Sj0. reflexivity. }
      rewrite solo_S in Sj. pose proof (g_step_sound (f_c s) (f_in l) E Gok) as [S1 S2].
      assert (Pp : g_pat (snd (g_step_unrepaired (f_c s) (f_in l))) = g_pat (f_in l)).
      { clear. unfold g_step_unrepaired. destruct (g_at (f_in l));
          repeat match goal with |- context [match ?x with _ => _ end] => destruct x end; reflexivity. }
      destruct (g_step_unrepaired (f_c s) (f_in l)) as [c' i'] eqn:St. cbn [fst snd] in *.
      set (l' := {| f_at := FCrit; f_pat := f_pat l; f_ok := f_ok l; f_in := i'; f_res := None |}).
      specialize (NU l' H). rewrite In in NU.
      apply f_inv_intro; cbn [f_lock f_c]; try assumption.
      * cbn in NU. rewrite Lk. cbn. lia.
      * intros X. congruence.
      * eapply holder_alone; eauto. intros _. unfold rel. cbn [f_in f_pat l'].
        split; [assumption|]. split; [congruence|]. exists c0, j. split; assumption.
      * apply Forall_upd; [assumption|]. unfold f_thread_ok. cbn. discriminate.
  - (* returned *)
    cbn [fst snd]. specialize (NU l H). apply f_inv_intro; try assumption.
    + lia.
    + apply Forall_upd; assumption.
    + apply Forall_upd; assumption.
Qed.

(* globcache_fine_every_schedule: every schedule, any number of goroutines, every reachable state *)
Theorem globcache_fine_every_schedule_l : forall size sched s ts, f_inv size s ts ->
  f_inv size (fst (run f_step sched s ts)) (snd (run f_step sched s ts)).
Proof.
  intros size sched. induction sched as [|i sched IH]; intros s ts H; cbn [run]; [assumption|].
  unfold step1. destruct (nth_error ts i) as [l|] eqn:E; [|apply IH; assumption].
  pose proof (f_step_inv size s ts i l H E) as H1. destruct (f_step s l) as [s' l']. apply IH. exact H1.
Qed.

Lemma f_init_inv : forall size calls, 0 < size ->
  f_inv size (f_new size) (map (fun c => f_init (fst c) (snd c)) calls).
Proof.
  intros size calls H. unfold f_new.
  assert (Z : forall cs, ncs (map (fun c => f_init (fst c) (snd c)) cs) = 0 /\
                         Forall (fun l => in_cs l = true -> rel size (gc_new size) l) (map (fun c => f_init (fst c) (snd c)) cs) /\
                         Forall f_thread_ok (map (fun c => f_init (fst c) (snd c)) cs)).
  { induction cs as [|c cs IH]; cbn [map ncs]; [repeat split; constructor|]. destruct IH as (I1 & I2 & I3).
    split; [cbn; lia|]. split; constructor; try assumption; [intros X; discriminate | unfold f_thread_ok; cbn; discriminate]. }
  destruct (Z calls) as (Z1 & Z2 & Z3). apply f_inv_intro; cbn [f_lock f_c]; try assumption.
  - intros _. now apply gc_new_inv.
  - intros k v [].
Qed.

(* the statement: fresh cache of any size > 0, any number of goroutines calling Get with any pattern,
   ANY schedule of the fine-grained machine: whenever the mutex is free the sequential invariant holds
   (n <= size, at most size map entries, all of them in l), and at every point no Get has panicked or
   returned anything but the glob compiled from its own pattern *)
Theorem globcache_fine_inv_l : forall size calls sched, 0 < size ->
  let r := run f_step sched (f_new size) (map (fun c => f_init (fst c) (snd c)) calls) in
  (f_lock (fst r) = false ->
     c_n (f_c (fst r)) <= size /\ length (m_keys (c_m (f_c (fst r)))) <= size
     /\ incl (m_keys (c_m (f_c (fst r)))) (c_l (f_c (fst r))) /\ length (c_l (f_c (fst r))) = size)
  /\ Forall f_thread_ok (snd r).
Proof.
  intros size calls sched H. cbv zeta.
  pose proof (globcache_fine_every_schedule_l size sched _ _ (f_init_inv size calls H)) as (A & B & C & D & E).
  split; [|assumption]. intros Lk. destruct (gc_inv_bounds size _ (B Lk)) as (P & Q & R & S). repeat split; assumption.
Qed.

(* two goroutines miss on the fast path; the second is blocked on the mutex while the first evicts z*;
   a third is served from the map on the lock-free fast path while the mutex is held *)
Example globcache_fine_nonvacuous :
  let r := run f_step ([0; 1; 0; 1; 2] ++ repeat 0 12 ++ repeat 1 14)
               {| f_c := fst (gc_get (gc_new 1) (bs "z*") true); f_lock := false |}
               [f_init (bs "a*") true; f_init (bs "b*") true; f_init (bs "z*") true] in
  f_results (snd r) = [Some (Ok (bs "a*")); Some (Ok (bs "b*")); Some (Ok (bs "z*"))]
  /\ f_lock (fst r) = false /\ c_n (f_c (fst r)) = 1 /\ m_keys (c_m (f_c (fst r))) = [bs "b*"].
Proof. vm_compute. repeat split. Qed.
