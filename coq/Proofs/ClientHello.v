(** Lemmas about Model/ClientHello.v (property C10).  The model file contains no
    proofs so that it still evaluates when a proof here is broken. *)
From Coq Require Import String List NArith Bool Lia Arith.
From Fabio Require Import Lib.Outcome Lib.Bytes Model.ClientHello.
Import ListNotations.
Local Open Scope N_scope.

(* ---------- checked accesses ---------- *)
Lemma idx_panic d i : idx d i = Panic -> (length d <= i)%nat.
Proof. unfold idx. destruct (nth_error d i) eqn:E; [discriminate|]. intros _. now apply nth_error_None. Qed.
Lemma idx_ok d i b : idx d i = Ok b -> (i < length d)%nat.
Proof. unfold idx. destruct (nth_error d i) eqn:E; [|discriminate]. intros _. apply nth_error_Some. congruence. Qed.
Lemma idx_err d i k : idx d i <> Err k.
Proof. unfold idx. destruct (nth_error d i); discriminate. Qed.

Lemma u16_panic d i : u16 d i = Panic -> (length d <= i + 1)%nat.
Proof.
  unfold u16. destruct (idx d i) eqn:E1; cbn.
  - destruct (idx d (i + 1)) eqn:E2; cbn; try discriminate. intros _. now apply idx_panic in E2.
  - discriminate.
  - intros _. apply idx_panic in E1. lia.
Qed.
Lemma u16_err d i k : u16 d i <> Err k.
Proof.
  unfold u16. destruct (idx d i) eqn:E1; cbn; [|now apply idx_err in E1|discriminate].
  destruct (idx d (i + 1)) eqn:E2; cbn; [discriminate|now apply idx_err in E2|discriminate].
Qed.
Lemma u24_panic d i : u24 d i = Panic -> (length d <= i + 2)%nat.
Proof.
  unfold u24. destruct (idx d i) eqn:E1; cbn; [|discriminate|intros _; apply idx_panic in E1; lia].
  destruct (idx d (i + 1)) eqn:E2; cbn; [|discriminate|intros _; apply idx_panic in E2; lia].
  destruct (idx d (i + 2)) eqn:E3; cbn; [discriminate|discriminate|intros _; apply idx_panic in E3; lia].
Qed.

Lemma from_ok d a r : from d a = Ok r -> r = skipn a d /\ (a <= length d)%nat.
Proof. unfold from. destruct (Nat.leb a (length d)) eqn:E; [|discriminate]. intros H. inversion H. split; auto. now apply Nat.leb_le. Qed.
Lemma from_panic d a : from d a = Panic -> (length d < a)%nat.
Proof. unfold from. destruct (Nat.leb a (length d)) eqn:E; [discriminate|]. intros _. now apply Nat.leb_gt. Qed.
Lemma from_err d a k : from d a <> Err k.
Proof. unfold from. destruct (Nat.leb a (length d)); discriminate. Qed.
Lemma slice_ok d a b r : slice d a b = Ok r -> r = firstn (b - a) (skipn a d) /\ (a <= b <= length d)%nat.
Proof.
  unfold slice. destruct (Nat.leb a b && Nat.leb b (length d)) eqn:E; [|discriminate].
  apply andb_true_iff in E as [E1 E2]. apply Nat.leb_le in E1, E2. intros H. inversion H. auto.
Qed.
Lemma slice_panic d a b : slice d a b = Panic -> ~ (a <= b <= length d)%nat.
Proof.
  unfold slice. destruct (Nat.leb a b && Nat.leb b (length d)) eqn:E; [discriminate|].
  intros _ [H1 H2]. apply Nat.leb_le in H1, H2. rewrite H1, H2 in E. discriminate.
Qed.
Lemma slice_err d a b k : slice d a b <> Err k.
Proof. unfold slice. destruct (Nat.leb a b && Nat.leb b (length d)); discriminate. Qed.

Lemma nlen_skipn d a : (a <= length d)%nat -> nlen (skipn a d) = nlen d - N.of_nat a.
Proof. intros H. unfold nlen. rewrite skipn_length. lia. Qed.
Lemma nlen_firstn d a : (a <= length d)%nat -> nlen (firstn a d) = N.of_nat a.
Proof. intros H. unfold nlen. rewrite firstn_length. lia. Qed.

(* one tactic step: case on the head access of the goal; impossible branches are
   closed from the bounds the code's own guards put in the context *)
Ltac leb_hyps :=
  repeat match goal with
  | H : (_ && _) = true |- _ => apply andb_true_iff in H as [? ?]
  | H : (_ <=? _) = true |- _ => apply N.leb_le in H
  | H : (_ <? _) = true |- _ => apply N.ltb_lt in H
  | H : (_ =? _) = true |- _ => apply N.eqb_eq in H
  | H : (_ =? _) = false |- _ => apply N.eqb_neq in H
  end.

Ltac acc_facts :=
  repeat match goal with
  | H : idx _ _ = Panic |- _ => apply idx_panic in H
  | H : idx _ _ = Err _ |- _ => now apply idx_err in H
  | H : u16 _ _ = Panic |- _ => apply u16_panic in H
  | H : u16 _ _ = Err _ |- _ => now apply u16_err in H
  | H : u24 _ _ = Panic |- _ => apply u24_panic in H
  | H : from _ _ = Panic |- _ => apply from_panic in H
  | H : from _ _ = Err _ |- _ => now apply from_err in H
  | H : from _ _ = Ok _ |- _ => apply from_ok in H as [? ?]; subst
  | H : slice _ _ _ = Panic |- _ => apply slice_panic in H
  | H : slice _ _ _ = Err _ |- _ => now apply slice_err in H
  | H : slice _ _ _ = Ok _ |- _ => apply slice_ok in H as [? ?]; subst
  end.

(* ---------- never panics ---------- *)
Lemma names_never_panics fuel : forall d, names fuel d <> Panic.
Proof.
  induction fuel as [|f IH]; intros d; cbn [names]; [discriminate|].
  destruct (nlen d =? 0) eqn:E0; [discriminate|].
  destruct (3 <=? nlen d) eqn:E3; [|discriminate].
  apply N.leb_le in E3. unfold nlen in E3.
  destruct (idx d 0) eqn:H0; cbn [bind]; acc_facts; [|lia].
  destruct (u16 d 1) eqn:H1; cbn [bind]; acc_facts; [|lia].
  destruct (from d 3) eqn:H2; cbn [bind]; acc_facts; [|lia].
  destruct (a0 <=? nlen (skipn 3 d)) eqn:E4; [|discriminate].
  apply N.leb_le in E4. unfold nlen in E4.
  destruct (a =? 0).
  - destruct (slice (skipn 3 d) 0 (N.to_nat a0)) eqn:H3; cbn [bind]; acc_facts; try discriminate.
    exfalso. apply H3. lia.
  - destruct (from (skipn 3 d) (N.to_nat a0)) eqn:H3; cbn [bind]; acc_facts; [apply IH|lia].
Qed.

Lemma exts_never_panics fuel : forall d sn, exts fuel d sn <> Panic.
Proof.
  induction fuel as [|f IH]; intros d sn; cbn [exts]; [discriminate|].
  destruct (nlen d =? 0) eqn:E0; [discriminate|].
  destruct (4 <=? nlen d) eqn:E4; [|discriminate].
  apply N.leb_le in E4. unfold nlen in E4.
  destruct (u16 d 0) eqn:H0; cbn [bind]; acc_facts; [|lia].
  destruct (u16 d 2) eqn:H1; cbn [bind]; acc_facts; [|lia].
  destruct (from d 4) eqn:H2; cbn [bind]; acc_facts; [|lia].
  destruct (a0 <=? nlen (skipn 4 d)) eqn:E5; [|discriminate].
  apply N.leb_le in E5. unfold nlen in E5.
  assert (Hfrom : forall sn', bind (from (skipn 4 d) (N.to_nat a0)) (fun d2 => exts f d2 sn') <> Panic).
  { intros sn'. destruct (from (skipn 4 d) (N.to_nat a0)) eqn:H3; cbn [bind]; acc_facts; [apply IH|lia]. }
  destruct (a =? 0); [|cbn [bind]; apply Hfrom].
  destruct (slice (skipn 4 d) 0 (N.to_nat a0)) eqn:H3; cbn [bind]; acc_facts; [|exfalso; apply H3; lia].
  rewrite skipn_O, Nat.sub_0_r.
  set (x := firstn (N.to_nat a0) (skipn 4 d)) in *.
  destruct (2 <=? nlen x) eqn:E6; [|cbn [bind]; discriminate].
  apply N.leb_le in E6. unfold nlen in E6.
  destruct (u16 x 0) eqn:H4; cbn [bind]; acc_facts; [|lia].
  destruct (from x 2) eqn:H5; cbn [bind]; acc_facts; [|lia].
  destruct (nlen (skipn 2 x) =? a1); [|cbn [bind]; discriminate].
  destruct (names (S (length (skipn 2 x))) (skipn 2 x)) eqn:H6; cbn [bind].
  - apply Hfrom.
  - discriminate.
  - now apply names_never_panics in H6.
Qed.

Theorem unmarshal_never_panics_lemma : forall d, unmarshal d <> Panic.
Proof.
  intros d. unfold unmarshal.
  destruct (42 <=? nlen d) eqn:E; [|discriminate]. apply N.leb_le in E. unfold nlen in E.
  destruct (u16 d 4) eqn:H0; cbn [bind]; acc_facts; [|lia].
  destruct (slice d 6 38) eqn:H1; cbn [bind]; acc_facts; [|exfalso; apply H1; lia].
  destruct (idx d 38) eqn:H2; cbn [bind]; acc_facts; [|lia].
  destruct ((a0 <=? 32) && (39 + a0 <=? nlen d)) eqn:E1; [|discriminate].
  apply andb_true_iff in E1 as [E1 E2]. apply N.leb_le in E1, E2. unfold nlen in E2.
  destruct (slice d 39 (39 + N.to_nat a0)) eqn:H3; cbn [bind]; acc_facts; [|exfalso; apply H3; lia].
  destruct (from d (39 + N.to_nat a0)) eqn:H4; cbn [bind]; acc_facts; [|lia].
  set (d1 := skipn (39 + N.to_nat a0) d) in *.
  destruct (2 <=? nlen d1) eqn:E3; [|discriminate]. apply N.leb_le in E3. unfold nlen in E3.
  destruct (u16 d1 0) eqn:H5; cbn [bind]; acc_facts; [|lia].
  destruct (N.even a1 && (2 + a1 <=? nlen d1)) eqn:E4; [|discriminate].
  apply andb_true_iff in E4 as [_ E4]. apply N.leb_le in E4. unfold nlen in E4.
  destruct (from d1 (2 + N.to_nat a1)) eqn:H6; cbn [bind]; acc_facts; [|lia].
  set (d2 := skipn (2 + N.to_nat a1) d1) in *.
  destruct (1 <=? nlen d2) eqn:E5; [|discriminate]. apply N.leb_le in E5. unfold nlen in E5.
  destruct (idx d2 0) eqn:H7; cbn [bind]; acc_facts; [|lia].
  destruct (1 + a2 <=? nlen d2) eqn:E6; [|discriminate]. apply N.leb_le in E6. unfold nlen in E6.
  destruct (slice d2 1 (1 + N.to_nat a2)) eqn:H8; cbn [bind]; acc_facts; [|exfalso; apply H8; lia].
  destruct (from d2 (1 + N.to_nat a2)) eqn:H9; cbn [bind]; acc_facts; [|lia].
  set (d3 := skipn (1 + N.to_nat a2) d2) in *.
  destruct (nlen d3 =? 0); [discriminate|].
  destruct (2 <=? nlen d3) eqn:E7; [|discriminate]. apply N.leb_le in E7. unfold nlen in E7.
  destruct (u16 d3 0) eqn:H10; cbn [bind]; acc_facts; [|lia].
  destruct (from d3 2) eqn:H11; cbn [bind]; acc_facts; [|lia].
  destruct (a3 =? nlen (skipn 2 d3)); [|discriminate].
  apply exts_never_panics.
Qed.

Lemma read_server_name_never_panics : forall msg, read_server_name msg <> Panic.
Proof. exact unmarshal_never_panics_lemma. Qed.

(* ---------- buffer size ---------- *)
Lemma buffer_size_never_panics d : client_hello_buffer_size d <> Panic.
Proof.
  unfold client_hello_buffer_size.
  destruct (9 <=? nlen d) eqn:E; [|discriminate]. apply N.leb_le in E. unfold nlen in E.
  destruct (idx d 0) eqn:H0; cbn [bind]; acc_facts; [|lia].
  destruct (a =? 22); [|discriminate].
  destruct (u16 d 3) eqn:H1; cbn [bind]; acc_facts; [|lia].
  destruct ((0 <? a0) && (a0 <=? 16384)); [|discriminate].
  destruct (idx d 5) eqn:H2; cbn [bind]; acc_facts; [|lia].
  destruct (a1 =? 1); [|discriminate].
  destruct (u24 d 6) eqn:H3; cbn [bind]; acc_facts; [| |lia].
  - destruct ((0 <? a2) && (a2 + 4 <=? a0)); discriminate.
  - discriminate.
Qed.

(* the size returned never reaches beyond the first TLS record: record header (5)
   + record length, and the record length is at most 2^14 *)
Lemma buffer_size_bound_lemma d n :
  client_hello_buffer_size d = Ok n ->
  exists rl, u16 d 3 = Ok rl /\ 10 <= n /\ n <= rl + 5 /\ rl <= 16384 /\
             idx d 0 = Ok 22 /\ idx d 5 = Ok 1.
Proof.
  unfold client_hello_buffer_size.
  destruct (9 <=? nlen d) eqn:E; [|discriminate].
  destruct (idx d 0) eqn:H0; cbn [bind]; try discriminate.
  destruct (a =? 22) eqn:E22; [|discriminate]. apply N.eqb_eq in E22. subst a.
  destruct (u16 d 3) eqn:H1; cbn [bind]; try discriminate.
  destruct ((0 <? a) && (a <=? 16384)) eqn:E1; [|discriminate].
  destruct (idx d 5) eqn:H2; cbn [bind]; try discriminate.
  destruct (a0 =? 1) eqn:E01; [|discriminate]. apply N.eqb_eq in E01. subst a0.
  destruct (u24 d 6) eqn:H3; cbn [bind]; try discriminate.
  destruct ((0 <? a0) && (a0 + 4 <=? a)) eqn:E2; [|discriminate].
  intros H. inversion H; subst. leb_hyps. exists a. repeat split; auto; lia.
Qed.

(* ---------- decoding what the encoder wrote ---------- *)
Lemma idx_app_r a b i : idx (a ++ b) (length a + i) = idx b i.
Proof. unfold idx. rewrite nth_error_app2 by lia. replace (length a + i - length a)%nat with i by lia. reflexivity. Qed.
Lemma idx_app_r0 a x b : idx (a ++ x :: b) (length a) = Ok x.
Proof. rewrite <- (Nat.add_0_r (length a)). rewrite idx_app_r. reflexivity. Qed.
Lemma idx_at n a x b : n = length a -> idx (a ++ x :: b) n = Ok x.
Proof. intros ->. apply idx_app_r0. Qed.

Lemma enc16_dec n : (n / 256) * 256 + n mod 256 = n.
Proof. rewrite N.mul_comm. symmetry. apply N.div_mod. discriminate. Qed.

Lemma u16_at n a v r : n = length a -> u16 (a ++ enc16 v ++ r) n = Ok v.
Proof.
  intros ->. unfold u16, enc16. cbn [app].
  rewrite idx_app_r0. cbn [bind].
  replace (length a + 1)%nat with (length (a ++ [v / 256])) by (rewrite app_length; reflexivity).
  replace (a ++ v / 256 :: v mod 256 :: r) with ((a ++ [v / 256]) ++ v mod 256 :: r) by (rewrite <- app_assoc; reflexivity).
  rewrite idx_app_r0. cbn [bind]. now rewrite enc16_dec.
Qed.
Lemma u16_0 v r : u16 (enc16 v ++ r) 0 = Ok v.
Proof. apply (u16_at 0%nat [] v r). reflexivity. Qed.

Lemma from_at n a b : n = length a -> from (a ++ b) n = Ok b.
Proof.
  intros ->. unfold from. rewrite app_length.
  replace (Nat.leb (length a) (length a + length b)) with true by (symmetry; apply Nat.leb_le; lia).
  now rewrite skipn_app, skipn_all, Nat.sub_diag.
Qed.
Lemma slice_at n m a b c : n = length a -> m = (length a + length b)%nat -> slice (a ++ b ++ c) n m = Ok b.
Proof.
  intros -> ->. unfold slice. rewrite !app_length.
  replace (Nat.leb (length a) (length a + length b) && Nat.leb (length a + length b) (length a + (length b + length c)))
    with true by (symmetry; apply andb_true_iff; split; apply Nat.leb_le; lia).
  rewrite skipn_app, skipn_all, Nat.sub_diag. cbn [skipn app].
  replace (length a + length b - length a)%nat with (length b) by lia.
  now rewrite firstn_app, firstn_all, Nat.sub_diag, firstn_O, app_nil_r.
Qed.
Lemma slice_0 m b c : m = length b -> slice (b ++ c) 0 m = Ok b.
Proof. intros ->. apply (slice_at 0%nat (length b) [] b c); reflexivity. Qed.

Lemma nlen_app a b : nlen (a ++ b) = nlen a + nlen b.
Proof. unfold nlen. rewrite app_length. lia. Qed.
Lemma nlen_cons x a : nlen (x :: a) = 1 + nlen a.
Proof. unfold nlen. cbn [length]. lia. Qed.
Lemma nlen_nil : nlen [] = 0.
Proof. reflexivity. Qed.
Lemma nlen_enc16 v : nlen (enc16 v) = 2.
Proof. reflexivity. Qed.
Lemma nlen_to_nat a : N.to_nat (nlen a) = length a.
Proof. unfold nlen. lia. Qed.

(* ---- the server_name list ---- *)
Definition host_entries (l : list sni_entry) : list sni_entry :=
  filter (fun e => sn_type e =? 0) l.
(* what TLS says the server name of a list is: the first host_name entry *)
Definition sni_of_list (l : list sni_entry) : option str :=
  match host_entries l with e :: _ => Some (sn_name e) | [] => None end.

Lemma names_enc fuel : forall l,
  (length (flat_map enc_sni_entry l) < fuel)%nat ->
  names fuel (flat_map enc_sni_entry l) = Ok (sni_of_list l).
Proof.
  induction fuel as [|f IH]; intros l Hf; [lia|].
  cbn [names]. destruct l as [|e l].
  - reflexivity.
  - assert (Hl : flat_map enc_sni_entry (e :: l) =
                 sn_type e :: enc16 (nlen (sn_name e)) ++ sn_name e ++ flat_map enc_sni_entry l).
    { cbn [flat_map]. unfold enc_sni_entry at 1. cbn [app]. now rewrite <- app_assoc. }
    rewrite Hl in *. clear Hl. set (tl := flat_map enc_sni_entry l) in *.
    rewrite nlen_cons. destruct (1 + _ =? 0) eqn:E; [apply N.eqb_eq in E; lia|]. clear E.
    rewrite !nlen_app, nlen_enc16.
    destruct (3 <=? 1 + (2 + _)) eqn:E; [|apply N.leb_gt in E; lia]. clear E.
    unfold idx at 1. cbn [nth_error bind].
    change (sn_type e :: enc16 (nlen (sn_name e)) ++ sn_name e ++ tl)
      with ([sn_type e] ++ enc16 (nlen (sn_name e)) ++ sn_name e ++ tl) at 1.
    rewrite (u16_at 1%nat [sn_type e]) by reflexivity. cbn [bind].
    change (sn_type e :: enc16 (nlen (sn_name e)) ++ sn_name e ++ tl)
      with ((sn_type e :: enc16 (nlen (sn_name e))) ++ sn_name e ++ tl).
    rewrite from_at by reflexivity. cbn [bind].
    rewrite nlen_app.
    destruct (nlen (sn_name e) <=? _) eqn:E; [|apply N.leb_gt in E; lia]. clear E.
    unfold sni_of_list. cbn [host_entries filter].
    destruct (sn_type e =? 0) eqn:Et.
    + rewrite slice_0 by (apply nlen_to_nat). reflexivity.
    + rewrite from_at by (apply nlen_to_nat). cbn [bind].
      apply IH. cbn [length] in Hf. rewrite !app_length in Hf. fold tl. lia.
Qed.

(* ---- the extension block ---- *)
Definition is_sni_ext (e : extension) (l : list sni_entry) : Prop :=
  ext_type e = 0 /\ ext_data e = enc_sni_list l.

(* the name the extension list denotes, folding left to right like TLS readers that
   keep the last occurrence; with at most one server_name extension (RFC 6066) this
   is simply that extension's first host_name *)
Definition ext_sni (e : extension) (l : list sni_entry) (sn : str) : str :=
  match sni_of_list l with Some n => n | None => sn end.

Inductive exts_denote : list extension -> str -> str -> Prop :=
| ed_nil sn : exts_denote [] sn sn
| ed_other e es sn r : ext_type e <> 0 -> exts_denote es sn r -> exts_denote (e :: es) sn r
| ed_sni e l es sn r : is_sni_ext e l -> exts_denote es (ext_sni e l sn) r -> exts_denote (e :: es) sn r.

Lemma exts_enc fuel : forall es sn r,
  (length (flat_map enc_ext es) < fuel)%nat ->
  exts_denote es sn r ->
  exts fuel (flat_map enc_ext es) sn = Ok r.
Proof.
  induction fuel as [|f IH]; intros es sn r Hf Hd; [lia|].
  cbn [exts]. destruct Hd as [sn | e es sn r Hne Hd | e l es sn r [Ht Hdata] Hd].
  - reflexivity.
  - cbn [flat_map] in *. unfold enc_ext in * |- *. fold enc_ext in *.
    rewrite <- !app_assoc in *.
    rewrite !nlen_app, !nlen_enc16.
    destruct (2 + _ =? 0) eqn:E; [apply N.eqb_eq in E; lia|]. clear E.
    destruct (4 <=? _) eqn:E; [|apply N.leb_gt in E; lia]. clear E.
    rewrite u16_0. cbn [bind].
    rewrite (u16_at 2%nat (enc16 (ext_type e))) by reflexivity. cbn [bind].
    rewrite app_assoc. rewrite from_at by reflexivity. cbn [bind].
    rewrite nlen_app.
    destruct (nlen (ext_data e) <=? _) eqn:E; [|apply N.leb_gt in E; lia]. clear E.
    destruct (ext_type e =? 0) eqn:E; [apply N.eqb_eq in E; contradiction|]. clear E.
    cbn [bind]. rewrite from_at by (apply nlen_to_nat). cbn [bind].
    apply IH; [|exact Hd]. rewrite !app_length in Hf. cbn [length enc16] in Hf. lia.
  - cbn [flat_map] in *. unfold enc_ext in * |- *. fold enc_ext in *.
    rewrite <- !app_assoc in *.
    rewrite !nlen_app, !nlen_enc16.
    destruct (2 + _ =? 0) eqn:E; [apply N.eqb_eq in E; lia|]. clear E.
    destruct (4 <=? _) eqn:E; [|apply N.leb_gt in E; lia]. clear E.
    rewrite u16_0. cbn [bind].
    rewrite (u16_at 2%nat (enc16 (ext_type e))) by reflexivity. cbn [bind].
    rewrite app_assoc. rewrite from_at by reflexivity. cbn [bind].
    rewrite nlen_app.
    destruct (nlen (ext_data e) <=? _) eqn:E; [|apply N.leb_gt in E; lia]. clear E.
    rewrite Ht. cbn [N.eqb].
    rewrite slice_0 by (apply nlen_to_nat). cbn [bind].
    set (tailx := from (ext_data e ++ flat_map enc_ext es) (N.to_nat (nlen (ext_data e)))).
    rewrite Hdata. unfold enc_sni_list.
    rewrite nlen_app, nlen_enc16.
    destruct (2 <=? _) eqn:E; [|apply N.leb_gt in E; lia]. clear E.
    rewrite u16_0. cbn [bind].
    rewrite (from_at 2%nat (enc16 _)) by reflexivity. cbn [bind].
    rewrite N.eqb_refl.
    rewrite names_enc by lia. cbn [bind].
    subst tailx. rewrite from_at by (apply nlen_to_nat). cbn [bind].
    apply IH; [|exact Hd]. rewrite !app_length in Hf. cbn [length enc16] in Hf. lia.
Qed.

(* ================= byte strings ================= *)
(* byte strings: every element below 256 *)
Definition is_byte (b : N) : Prop := b < 256.
Definition all_bytes (s : str) : Prop := Forall is_byte s.

(* an extension whose type and length fit their 16-bit fields and whose body is bytes *)
Definition ext_fits (e : extension) : Prop :=
  ext_type e < 65536 /\ nlen (ext_data e) < 65536 /\ all_bytes (ext_data e).

(* ================= fuel adequacy on ALL inputs =================
   Every iteration of either loop consumes at least 3 (resp. 4) bytes, so any fuel above
   the length of the input gives the same result: the [O] branches of [names] / [exts]
   (which return a normal-looking value) are unreachable from the fuel the model passes,
   on malformed inputs as well as on encodings. *)
Lemma names_fuel_irrel f1 : forall f2 d,
  (length d < f1)%nat -> (length d < f2)%nat -> names f1 d = names f2 d.
Proof.
  induction f1 as [|f1 IH]; intros f2 d H1 H2; [lia|].
  destruct f2 as [|f2]; [lia|].
  cbn [names].
  destruct (nlen d =? 0); [reflexivity|].
  destruct (3 <=? nlen d) eqn:E3; [|reflexivity].
  apply N.leb_le in E3. unfold nlen in E3.
  destruct (idx d 0) as [ty|k|]; cbn [bind]; try reflexivity.
  destruct (u16 d 1) as [nl|k|]; cbn [bind]; try reflexivity.
  destruct (from d 3) as [d1|k|] eqn:Hf; cbn [bind]; try reflexivity.
  destruct (nl <=? nlen d1); [|reflexivity].
  destruct (ty =? 0); [reflexivity|].
  destruct (from d1 (N.to_nat nl)) as [d2|k|] eqn:Hf2; cbn [bind]; try reflexivity.
  apply from_ok in Hf as [-> ?]. apply from_ok in Hf2 as [-> ?].
  apply IH; rewrite !skipn_length; lia.
Qed.

Theorem names_fuel_adequate d f :
  (length d < f)%nat -> names f d = names (S (length d)) d.
Proof. intros H. apply names_fuel_irrel; lia. Qed.

Lemma exts_fuel_irrel f1 : forall f2 d sn,
  (length d < f1)%nat -> (length d < f2)%nat -> exts f1 d sn = exts f2 d sn.
Proof.
  induction f1 as [|f1 IH]; intros f2 d sn H1 H2; [lia|].
  destruct f2 as [|f2]; [lia|].
  cbn [exts].
  destruct (nlen d =? 0); [reflexivity|].
  destruct (4 <=? nlen d) eqn:E4; [|reflexivity].
  apply N.leb_le in E4. unfold nlen in E4.
  destruct (u16 d 0) as [e|k|]; cbn [bind]; try reflexivity.
  destruct (u16 d 2) as [len|k|]; cbn [bind]; try reflexivity.
  destruct (from d 4) as [d1|k|] eqn:Hf; cbn [bind]; try reflexivity.
  destruct (len <=? nlen d1); [|reflexivity].
  match goal with |- bind ?x _ = _ => destruct x as [sn'|k|] end; cbn [bind]; try reflexivity.
  destruct (from d1 (N.to_nat len)) as [d2|k|] eqn:Hf2; cbn [bind]; try reflexivity.
  apply from_ok in Hf as [-> ?]. apply from_ok in Hf2 as [-> ?].
  apply IH; rewrite !skipn_length; lia.
Qed.

Theorem exts_fuel_adequate d sn f :
  (length d < f)%nat -> exts f d sn = exts (S (length d)) d sn.
Proof. intros H. apply exts_fuel_irrel; lia. Qed.

(* ================= the encoding of a well-formed hello is a string of bytes ================= *)
Lemma all_bytes_app a b : all_bytes (a ++ b) <-> all_bytes a /\ all_bytes b.
Proof. apply Forall_app. Qed.
Lemma all_bytes_split n d : all_bytes d -> all_bytes (firstn n d) /\ all_bytes (skipn n d).
Proof. intros H. apply Forall_app. now rewrite firstn_skipn. Qed.
Lemma all_bytes_firstn n d : all_bytes d -> all_bytes (firstn n d).
Proof. intros H. now apply all_bytes_split. Qed.
Lemma all_bytes_skipn n d : all_bytes d -> all_bytes (skipn n d).
Proof. intros H. now apply all_bytes_split. Qed.
Lemma all_bytes_cons x d : all_bytes (x :: d) <-> x < 256 /\ all_bytes d.
Proof. split; [intros H; inversion H; auto | intros [? ?]; now constructor]. Qed.

Lemma enc16_is_bytes n : n < 65536 -> all_bytes (enc16 n).
Proof.
  intros H. unfold enc16. repeat constructor; unfold is_byte.
  - apply N.div_lt_upper_bound; [discriminate|lia].
  - apply N.mod_lt. discriminate.
Qed.
Lemma enc24_is_bytes n : n < 16777216 -> all_bytes (enc24 n).
Proof.
  intros H. unfold enc24. repeat constructor; unfold is_byte.
  - apply N.div_lt_upper_bound; [discriminate|lia].
  - apply N.mod_lt. discriminate.
  - apply N.mod_lt. discriminate.
Qed.

Lemma enc_exts_list_bytes es : Forall ext_fits es -> all_bytes (flat_map enc_ext es).
Proof.
  induction 1 as [|e es (Ht & Hl & Hb) _ IH]; [constructor|].
  cbn [flat_map]. unfold enc_ext. rewrite !all_bytes_app.
  repeat split; auto using enc16_is_bytes.
Qed.

(* ================= parser soundness: what an accepted input looks like ================= *)
Lemma idx_byte d i b : all_bytes d -> idx d i = Ok b -> b < 256.
Proof.
  unfold idx. intros Hb. destruct (nth_error d i) eqn:E; [|discriminate].
  intros H. inversion H; subst. apply nth_error_In in E.
  unfold all_bytes in Hb. rewrite Forall_forall in Hb. now apply Hb.
Qed.

Lemma skipn_idx d : forall i b, idx d i = Ok b -> skipn i d = b :: skipn (S i) d.
Proof.
  unfold idx. induction d as [|x d IH]; intros [|i] b; cbn [nth_error]; try discriminate.
  - intros H. inversion H. reflexivity.
  - intros H. apply IH in H. exact H.
Qed.

Lemma enc16_bytes hi lo : hi < 256 -> lo < 256 -> enc16 (hi * 256 + lo) = [hi; lo].
Proof.
  intros H1 H2. unfold enc16. f_equal; [|f_equal].
  - symmetry. apply (N.div_unique _ 256 hi lo); lia.
  - symmetry. apply (N.mod_unique _ 256 hi lo); lia.
Qed.
Lemma enc24_bytes b0 b1 b2 : b0 < 256 -> b1 < 256 -> b2 < 256 ->
  enc24 (b0 * 65536 + b1 * 256 + b2) = [b0; b1; b2].
Proof.
  intros H0 H1 H2. unfold enc24.
  assert (Hd : (b0 * 65536 + b1 * 256 + b2) / 256 = b0 * 256 + b1).
  { symmetry. apply (N.div_unique _ 256 _ b2); lia. }
  f_equal; [|f_equal; [|f_equal]].
  - symmetry. apply (N.div_unique _ 65536 b0 (b1 * 256 + b2)); lia.
  - rewrite Hd. symmetry. apply (N.mod_unique _ 256 b0 b1); lia.
  - symmetry. apply (N.mod_unique _ 256 (b0 * 256 + b1) b2); lia.
Qed.

Lemma u16_split d i v : all_bytes d -> u16 d i = Ok v ->
  skipn i d = enc16 v ++ skipn (i + 2) d /\ v < 65536.
Proof.
  intros Hb. unfold u16.
  destruct (idx d i) as [hi|k|] eqn:H1; cbn [bind]; try discriminate.
  destruct (idx d (i + 1)) as [lo|k|] eqn:H2; cbn [bind]; try discriminate.
  intros H. inversion H; subst v; clear H.
  pose proof (idx_byte _ _ _ Hb H1) as B1. pose proof (idx_byte _ _ _ Hb H2) as B2.
  rewrite enc16_bytes by assumption.
  apply skipn_idx in H1, H2. rewrite H1.
  replace (S i) with (i + 1)%nat by lia. rewrite H2.
  replace (S (i + 1)) with (i + 2)%nat by lia. split; [reflexivity|lia].
Qed.

(* skipn i d = (the next k bytes) ++ the rest *)
Lemma skipn_add {A} a : forall b (d : list A), skipn (a + b) d = skipn b (skipn a d).
Proof.
  induction a as [|a IH]; intros b d; [reflexivity|].
  destruct d as [|x d]; [now rewrite !skipn_nil|]. cbn [Nat.add skipn]. apply IH.
Qed.
Lemma skipn_take (d : str) i k : skipn i d = firstn k (skipn i d) ++ skipn (i + k) d.
Proof. rewrite skipn_add. symmetry. apply firstn_skipn. Qed.

(* what the list loop accepts: entries of other types, then either the end of the list or a
   host_name entry followed by ANY bytes (the loop breaks there and never looks at them) *)
Inductive sni_body : str -> option str -> Prop :=
| sb_end : sni_body [] None
| sb_host name junk :
    sni_body (enc_sni_entry {| sn_type := 0; sn_name := name |} ++ junk) (Some name)
| sb_skip e rest o :
    sn_type e <> 0 -> sni_body rest o -> sni_body (enc_sni_entry e ++ rest) o.

Lemma entry_split d ty nl :
  all_bytes d -> idx d 0 = Ok ty -> u16 d 1 = Ok nl -> nl <= nlen (skipn 3 d) ->
  d = enc_sni_entry {| sn_type := ty; sn_name := firstn (N.to_nat nl) (skipn 3 d) |}
      ++ skipn (N.to_nat nl) (skipn 3 d).
Proof.
  intros Hb H0 H1 Hle. unfold nlen in Hle.
  apply skipn_idx in H0. rewrite skipn_O in H0.
  apply (u16_split d 1 nl Hb) in H1 as [H1 _]. cbn [Nat.add] in H1.
  unfold enc_sni_entry. cbn [sn_type sn_name].
  rewrite nlen_firstn by lia. rewrite N2Nat.id.
  cbn [app]. rewrite <- app_assoc, firstn_skipn, <- H1. exact H0.
Qed.

Lemma names_sound f : forall d o,
  all_bytes d -> (length d < f)%nat -> names f d = Ok o -> sni_body d o.
Proof.
  induction f as [|f IH]; intros d o Hb Hf; [lia|]. cbn [names].
  destruct (nlen d =? 0) eqn:E0.
  { intros H. inversion H; subst. apply N.eqb_eq in E0. unfold nlen in E0.
    destruct d; [constructor|cbn [length] in E0; lia]. }
  destruct (3 <=? nlen d) eqn:E3; [|discriminate].
  apply N.leb_le in E3. unfold nlen in E3.
  destruct (idx d 0) as [ty|k|] eqn:H0; cbn [bind]; try discriminate.
  destruct (u16 d 1) as [nl|k|] eqn:H1; cbn [bind]; try discriminate.
  destruct (from d 3) as [d1|k|] eqn:H2; cbn [bind]; try discriminate.
  apply from_ok in H2 as [-> H3].
  destruct (nl <=? nlen (skipn 3 d)) eqn:E4; [|discriminate]. apply N.leb_le in E4.
  pose proof (entry_split d ty nl Hb H0 H1 E4) as Hd.
  unfold nlen in E4.
  destruct (ty =? 0) eqn:Et.
  - apply N.eqb_eq in Et. subst ty.
    destruct (slice (skipn 3 d) 0 (N.to_nat nl)) as [n|k|] eqn:Hs; cbn [bind]; try discriminate.
    apply slice_ok in Hs as [-> _]. rewrite skipn_O, Nat.sub_0_r.
    intros H. inversion H; subst o; clear H.
    rewrite Hd at 1. constructor.
  - apply N.eqb_neq in Et.
    destruct (from (skipn 3 d) (N.to_nat nl)) as [d2|k|] eqn:Hs; cbn [bind]; try discriminate.
    apply from_ok in Hs as [-> _].
    intros H. rewrite Hd at 1. apply sb_skip; [exact Et|].
    apply IH; [now apply all_bytes_skipn, all_bytes_skipn | rewrite !skipn_length; lia | exact H].
Qed.

(* and conversely the loop accepts every such list (no byte bound needed) *)
Lemma names_body : forall d o, sni_body d o ->
  forall f, (length d < f)%nat -> names f d = Ok o.
Proof.
  induction 1 as [|name junk|e rest o Hne Hs IH]; intros f Hf; (destruct f as [|f]; [lia|]); cbn [names].
  - reflexivity.
  - unfold enc_sni_entry. cbn [sn_type sn_name app].
    rewrite nlen_cons. destruct (1 + _ =? 0) eqn:E; [apply N.eqb_eq in E; lia|]. clear E.
    rewrite <- !app_assoc, !nlen_app, nlen_enc16.
    destruct (3 <=? 1 + (2 + _)) eqn:E; [|apply N.leb_gt in E; lia]. clear E.
    unfold idx at 1. cbn [nth_error bind].
    change (0 :: enc16 (nlen name) ++ name ++ junk) with ([0] ++ enc16 (nlen name) ++ name ++ junk) at 1.
    rewrite (u16_at 1%nat [0]) by reflexivity. cbn [bind].
    change (0 :: enc16 (nlen name) ++ name ++ junk) with ((0 :: enc16 (nlen name)) ++ name ++ junk).
    rewrite from_at by reflexivity. cbn [bind].
    rewrite nlen_app.
    destruct (nlen name <=? _) eqn:E; [|apply N.leb_gt in E; lia]. clear E.
    cbn [N.eqb]. rewrite slice_0 by (apply nlen_to_nat). reflexivity.
  - unfold enc_sni_entry in *. cbn [app] in *.
    rewrite nlen_cons. destruct (1 + _ =? 0) eqn:E; [apply N.eqb_eq in E; lia|]. clear E.
    rewrite <- !app_assoc in *. rewrite !nlen_app, nlen_enc16.
    destruct (3 <=? 1 + (2 + _)) eqn:E; [|apply N.leb_gt in E; lia]. clear E.
    unfold idx at 1. cbn [nth_error bind].
    change (sn_type e :: enc16 (nlen (sn_name e)) ++ sn_name e ++ rest)
      with ([sn_type e] ++ enc16 (nlen (sn_name e)) ++ sn_name e ++ rest) at 1.
    rewrite (u16_at 1%nat [sn_type e]) by reflexivity. cbn [bind].
    change (sn_type e :: enc16 (nlen (sn_name e)) ++ sn_name e ++ rest)
      with ((sn_type e :: enc16 (nlen (sn_name e))) ++ sn_name e ++ rest).
    rewrite from_at by reflexivity. cbn [bind].
    rewrite nlen_app.
    destruct (nlen (sn_name e) <=? _) eqn:E; [|apply N.leb_gt in E; lia]. clear E.
    destruct (sn_type e =? 0) eqn:Et; [apply N.eqb_eq in Et; contradiction|].
    rewrite from_at by (apply nlen_to_nat). cbn [bind].
    apply IH. cbn [length] in Hf. rewrite !app_length in Hf. lia.
Qed.

(* a well-formed list (the encoding of entries) is such a body, and its name is the first host_name *)
Lemma sni_body_of_list l : sni_body (flat_map enc_sni_entry l) (sni_of_list l).
Proof.
  induction l as [|e l IH]; [constructor|].
  cbn [flat_map]. unfold sni_of_list. cbn [host_entries filter].
  destruct (sn_type e =? 0) eqn:Et.
  - apply N.eqb_eq in Et. destruct e as [ty nm]. cbn [sn_type sn_name] in *. subst ty. constructor.
  - apply N.eqb_neq in Et. apply sb_skip; [exact Et|]. exact IH.
Qed.


(* ---- the extension block: what the loop accepts ----
   [exts_parse es sn r]: starting with name [sn], the extensions [es] leave name [r].  Unlike
   [exts_denote] a server_name extension need not carry a well-formed list: its data is a
   16-bit length and a [sni_body] (bytes after the first host_name entry are never read). *)
Inductive exts_parse : list extension -> str -> str -> Prop :=
| ep_nil sn : exts_parse [] sn sn
| ep_other e es sn r : ext_type e <> 0 -> exts_parse es sn r -> exts_parse (e :: es) sn r
| ep_sni e body o es sn r :
    ext_type e = 0 -> ext_data e = enc16 (nlen body) ++ body -> sni_body body o ->
    exts_parse es (match o with Some n => n | None => sn end) r ->
    exts_parse (e :: es) sn r.

Lemma exts_denote_parse es sn r : exts_denote es sn r -> exts_parse es sn r.
Proof.
  induction 1 as [sn | e es sn r Hne _ IH | e l es sn r [Ht Hdata] _ IH].
  - constructor.
  - now apply ep_other.
  - apply (ep_sni e (flat_map enc_sni_entry l) (sni_of_list l)); auto.
    apply sni_body_of_list.
Qed.

Lemma ext_split d e len :
  all_bytes d -> u16 d 0 = Ok e -> u16 d 2 = Ok len -> len <= nlen (skipn 4 d) ->
  d = enc_ext {| ext_type := e; ext_data := firstn (N.to_nat len) (skipn 4 d) |}
      ++ skipn (N.to_nat len) (skipn 4 d).
Proof.
  intros Hb H0 H1 Hle. unfold nlen in Hle.
  apply (u16_split d 0 e Hb) in H0 as [H0 _]. rewrite skipn_O in H0. cbn [Nat.add] in H0.
  apply (u16_split d 2 len Hb) in H1 as [H1 _]. cbn [Nat.add] in H1.
  unfold enc_ext. cbn [ext_type ext_data].
  rewrite nlen_firstn by lia. rewrite N2Nat.id.
  rewrite <- !app_assoc, firstn_skipn, <- H1. exact H0.
Qed.

Lemma exts_sound f : forall d sn r,
  all_bytes d -> (length d < f)%nat -> exts f d sn = Ok r ->
  exists es, d = flat_map enc_ext es /\ exts_parse es sn r /\ Forall ext_fits es.
Proof.
  induction f as [|f IH]; intros d sn r Hb Hf; [lia|]. cbn [exts].
  destruct (nlen d =? 0) eqn:E0.
  { intros H. inversion H; subst. apply N.eqb_eq in E0. unfold nlen in E0.
    destruct d; [|cbn [length] in E0; lia]. exists []. repeat split; constructor. }
  destruct (4 <=? nlen d) eqn:E4; [|discriminate].
  apply N.leb_le in E4. unfold nlen in E4.
  destruct (u16 d 0) as [e|k|] eqn:H0; cbn [bind]; try discriminate.
  destruct (u16 d 2) as [len|k|] eqn:H1; cbn [bind]; try discriminate.
  destruct (from d 4) as [d1|k|] eqn:H2; cbn [bind]; try discriminate.
  apply from_ok in H2 as [-> H3].
  destruct (len <=? nlen (skipn 4 d)) eqn:E5; [|discriminate]. apply N.leb_le in E5.
  pose proof (ext_split d e len Hb H0 H1 E5) as Hd.
  pose proof (proj2 (u16_split d 0 e Hb H0)) as Be.
  pose proof (proj2 (u16_split d 2 len Hb H1)) as Blen.
  unfold nlen in E5.
  set (data := firstn (N.to_nat len) (skipn 4 d)) in *.
  set (rest := skipn (N.to_nat len) (skipn 4 d)) in *.
  assert (Bdata : all_bytes data) by (apply all_bytes_firstn, all_bytes_skipn, Hb).
  assert (Brest : all_bytes rest) by (apply all_bytes_skipn, all_bytes_skipn, Hb).
  assert (Ldata : nlen data = len) by (unfold data; rewrite nlen_firstn by lia; lia).
  assert (Lrest : (length rest < f)%nat) by (unfold rest; rewrite !skipn_length; lia).
  assert (Hfit : ext_fits {| ext_type := e; ext_data := data |}).
  { unfold ext_fits. cbn [ext_type ext_data]. rewrite Ldata. auto. }
  destruct (e =? 0) eqn:Ee.
  - apply N.eqb_eq in Ee.
    destruct (slice (skipn 4 d) 0 (N.to_nat len)) as [x|k|] eqn:Hs; cbn [bind]; try discriminate.
    apply slice_ok in Hs as [-> _]. rewrite skipn_O, Nat.sub_0_r. fold data.
    destruct (2 <=? nlen data) eqn:E6; cbn [bind]; [|discriminate].
    destruct (u16 data 0) as [nl|k|] eqn:H4; cbn [bind]; try discriminate.
    destruct (from data 2) as [x1|k|] eqn:H5; cbn [bind]; try discriminate.
    apply from_ok in H5 as [-> H6].
    destruct (nlen (skipn 2 data) =? nl) eqn:E7; cbn [bind]; [|discriminate]. apply N.eqb_eq in E7.
    destruct (names (S (length (skipn 2 data))) (skipn 2 data)) as [o|k|] eqn:Hn; cbn [bind]; try discriminate.
    apply names_sound in Hn; [|now apply all_bytes_skipn|lia].
    apply (u16_split data 0 nl Bdata) in H4 as [H4 _]. rewrite skipn_O in H4. cbn [Nat.add] in H4.
    destruct (from (skipn 4 d) (N.to_nat len)) as [d2|k|] eqn:H7; cbn [bind]; try discriminate.
    apply from_ok in H7 as [-> _]. fold rest.
    intros Hx. apply IH in Hx as (es & Hes & Hp & Hfs); auto.
    exists ({| ext_type := e; ext_data := data |} :: es). repeat split.
    + cbn [flat_map]. rewrite <- Hes. exact Hd.
    + apply (ep_sni _ (skipn 2 data) o); auto. cbn [ext_data]. rewrite E7. exact H4.
    + now constructor.
  - apply N.eqb_neq in Ee. cbn [bind].
    destruct (from (skipn 4 d) (N.to_nat len)) as [d2|k|] eqn:H7; cbn [bind]; try discriminate.
    apply from_ok in H7 as [-> _]. fold rest.
    intros Hx. apply IH in Hx as (es & Hes & Hp & Hfs); auto.
    exists ({| ext_type := e; ext_data := data |} :: es). repeat split.
    + cbn [flat_map]. rewrite <- Hes. exact Hd.
    + apply ep_other; auto.
    + now constructor.
Qed.

(* and conversely (no byte bound needed): the loop accepts everything [exts_parse] describes *)
Lemma exts_parse_enc fuel : forall es sn r,
  (length (flat_map enc_ext es) < fuel)%nat ->
  exts_parse es sn r ->
  exts fuel (flat_map enc_ext es) sn = Ok r.
Proof.
  induction fuel as [|f IH]; intros es sn r Hf Hd; [lia|].
  cbn [exts]. destruct Hd as [sn | e es sn r Hne Hd | e body o es sn r Ht Hdata Hbody Hd].
  - reflexivity.
  - cbn [flat_map] in *. unfold enc_ext in * |- *. fold enc_ext in *.
    rewrite <- !app_assoc in *.
    rewrite !nlen_app, !nlen_enc16.
    destruct (2 + _ =? 0) eqn:E; [apply N.eqb_eq in E; lia|]. clear E.
    destruct (4 <=? _) eqn:E; [|apply N.leb_gt in E; lia]. clear E.
    rewrite u16_0. cbn [bind].
    rewrite (u16_at 2%nat (enc16 (ext_type e))) by reflexivity. cbn [bind].
    rewrite app_assoc. rewrite from_at by reflexivity. cbn [bind].
    rewrite nlen_app.
    destruct (nlen (ext_data e) <=? _) eqn:E; [|apply N.leb_gt in E; lia]. clear E.
    destruct (ext_type e =? 0) eqn:E; [apply N.eqb_eq in E; contradiction|]. clear E.
    cbn [bind]. rewrite from_at by (apply nlen_to_nat). cbn [bind].
    apply IH; [|exact Hd]. rewrite !app_length in Hf. cbn [length enc16] in Hf. lia.
  - cbn [flat_map] in *. unfold enc_ext in * |- *. fold enc_ext in *.
    rewrite <- !app_assoc in *.
    rewrite !nlen_app, !nlen_enc16.
    destruct (2 + _ =? 0) eqn:E; [apply N.eqb_eq in E; lia|]. clear E.
    destruct (4 <=? _) eqn:E; [|apply N.leb_gt in E; lia]. clear E.
    rewrite u16_0. cbn [bind].
    rewrite (u16_at 2%nat (enc16 (ext_type e))) by reflexivity. cbn [bind].
    rewrite app_assoc. rewrite from_at by reflexivity. cbn [bind].
    rewrite nlen_app.
    destruct (nlen (ext_data e) <=? _) eqn:E; [|apply N.leb_gt in E; lia]. clear E.
    rewrite Ht. cbn [N.eqb].
    rewrite slice_0 by (apply nlen_to_nat). cbn [bind].
    set (tailx := from (ext_data e ++ flat_map enc_ext es) (N.to_nat (nlen (ext_data e)))).
    rewrite Hdata.
    rewrite nlen_app, nlen_enc16.
    destruct (2 <=? _) eqn:E; [|apply N.leb_gt in E; lia]. clear E.
    rewrite u16_0. cbn [bind].
    rewrite (from_at 2%nat (enc16 _)) by reflexivity. cbn [bind].
    rewrite N.eqb_refl.
    rewrite (names_body _ _ Hbody) by lia. cbn [bind].
    subst tailx. rewrite from_at by (apply nlen_to_nat). cbn [bind].
    apply IH; [|exact Hd]. rewrite !app_length in Hf. cbn [length enc16] in Hf. lia.
Qed.


(* ---- the whole message ---- *)
(* well-formed = the shape RFC 5246 7.4.1.2 gives the message (first three fields: what the
   round trip needs) and every field is a byte string that fits its length prefix (so that
   [enc_handshake h] is a string of bytes: lemma [enc_handshake_bytes]) *)
Record wf_hello (h : hello) : Prop := {
  wf_random : length (h_random h) = 32%nat;
  wf_session : nlen (h_session h) <= 32;
  wf_ciphers : N.even (nlen (h_ciphers h)) = true;
  wf_vers : h_vers_hi h < 256 /\ h_vers_lo h < 256;
  wf_field_bytes : all_bytes (h_random h) /\ all_bytes (h_session h) /\
                   all_bytes (h_ciphers h) /\ all_bytes (h_compress h);
  wf_ciphers_len : nlen (h_ciphers h) < 65536;
  wf_compress_len : nlen (h_compress h) < 256;
  wf_exts_fit : match h_exts h with
                | None => True
                | Some es => Forall ext_fits es /\ nlen (flat_map enc_ext es) < 65536
                end;
  wf_body_len : nlen (enc_body h) < 16777216
}.

Lemma bytes_b_ok s : bytes_b s = true -> all_bytes s.
Proof.
  unfold bytes_b, all_bytes. intros H. apply Forall_forall. intros x Hx.
  rewrite forallb_forall in H. apply H in Hx. now apply N.ltb_lt in Hx.
Qed.

Lemma wf_hello_b_ok h : wf_hello_b h = true -> wf_hello h.
Proof.
  unfold wf_hello_b. intros H.
  repeat match type of H with (_ && _) = true => let H' := fresh "W" in apply andb_true_iff in H as [H H'] end.
  constructor.
  - now apply Nat.eqb_eq.
  - now apply N.leb_le.
  - assumption.
  - split; now apply N.ltb_lt.
  - repeat split; now apply bytes_b_ok.
  - now apply N.ltb_lt.
  - now apply N.ltb_lt.
  - destruct (h_exts h) as [es|]; [|exact I].
    apply andb_true_iff in W0 as [Wa Wb]. split; [|now apply N.ltb_lt].
    apply Forall_forall. intros e He. rewrite forallb_forall in Wa. apply Wa in He.
    unfold ext_fits_b in He. apply andb_true_iff in He as [He H3]. apply andb_true_iff in He as [H1 H2].
    repeat split; [now apply N.ltb_lt | now apply N.ltb_lt | now apply bytes_b_ok].
  - now apply N.ltb_lt.
Qed.

Definition hello_denotes (h : hello) (r : str) : Prop :=
  match h_exts h with
  | None => r = []
  | Some es => exts_denote es [] r
  end.

(* what the parser accepts of the extension block (see [exts_parse]) *)
Definition hello_parses (h : hello) (r : str) : Prop :=
  match h_exts h with
  | None => r = []
  | Some es => exts_parse es [] r
  end.

Lemma hello_denotes_parses h r : hello_denotes h r -> hello_parses h r.
Proof.
  unfold hello_denotes, hello_parses. destruct (h_exts h); [apply exts_denote_parse|auto].
Qed.

Lemma read_parse_lemma h r :
  wf_hello h -> hello_parses h r -> read_server_name (enc_handshake h) = Ok r.
Proof.
  intros [Hr Hs Hc _ _ _ _ _ _] Hd. unfold read_server_name, unmarshal, enc_handshake.
  set (body := enc_body h).
  assert (Hbody : body = [h_vers_hi h; h_vers_lo h] ++ h_random h
            ++ [nlen (h_session h)] ++ h_session h
            ++ enc16 (nlen (h_ciphers h)) ++ h_ciphers h
            ++ [nlen (h_compress h)] ++ h_compress h ++ enc_exts (h_exts h)) by reflexivity.
  set (L := nlen body).
  set (hdr := 1 :: enc24 L).
  change (1 :: enc24 L ++ body) with (hdr ++ body).
  assert (Hlen42 : 42 <= nlen (hdr ++ body)).
  { rewrite nlen_app, Hbody. unfold hdr. rewrite !nlen_app. unfold nlen at 1 2 3. cbn [length enc24 enc16].
    rewrite Hr. unfold nlen. cbn [length enc16]. lia. }
  destruct (42 <=? nlen (hdr ++ body)) eqn:E; [|apply N.leb_gt in E; lia]. clear E.
  (* u16 d 4: the two version bytes; their value is irrelevant *)
  assert (Hu : exists v, u16 (hdr ++ body) 4 = Ok v).
  { rewrite Hbody. unfold hdr, enc24, u16, idx. cbn [app nth_error bind Nat.add]. eauto. }
  destruct Hu as [v ->]. cbn [bind].
  (* the layout: pre (6 bytes) ++ random (32) ++ [sl] ++ session ++ rest *)
  set (pre := hdr ++ [h_vers_hi h; h_vers_lo h]).
  set (rest1 := enc16 (nlen (h_ciphers h)) ++ h_ciphers h ++ [nlen (h_compress h)] ++ h_compress h ++ enc_exts (h_exts h)).
  assert (Hd0 : hdr ++ body = pre ++ h_random h ++ [nlen (h_session h)] ++ h_session h ++ rest1).
  { rewrite Hbody. unfold pre. rewrite <- !app_assoc. reflexivity. }
  rewrite Hd0.
  assert (Hpre : length pre = 6%nat) by reflexivity.
  rewrite (slice_at 6 38 pre (h_random h)) by (rewrite ?Hpre, ?Hr; reflexivity). cbn [bind].
  replace (pre ++ h_random h ++ [nlen (h_session h)] ++ h_session h ++ rest1)
    with ((pre ++ h_random h) ++ nlen (h_session h) :: h_session h ++ rest1)
    by (rewrite <- !app_assoc; reflexivity).
  rewrite (idx_at 38) by (rewrite app_length, Hpre, Hr; reflexivity). cbn [bind].
  assert (Hs' : (nlen (h_session h) <=? 32) = true) by (apply N.leb_le; exact Hs).
  rewrite Hs'. cbn [andb].
  set (p38 := pre ++ h_random h).
  assert (Hp38 : length p38 = 38%nat) by (unfold p38; rewrite app_length, Hpre, Hr; reflexivity).
  assert (Hn : nlen (p38 ++ nlen (h_session h) :: h_session h ++ rest1) = 39 + nlen (h_session h) + nlen rest1).
  { rewrite nlen_app, nlen_cons, nlen_app. unfold nlen at 1. rewrite Hp38. lia. }
  rewrite Hn.
  destruct (39 + nlen (h_session h) <=? _) eqn:E; [|apply N.leb_gt in E; lia]. clear E.
  replace (p38 ++ nlen (h_session h) :: h_session h ++ rest1)
    with ((p38 ++ [nlen (h_session h)]) ++ h_session h ++ rest1)
    by (rewrite <- !app_assoc; reflexivity).
  rewrite (slice_at 39 (39 + N.to_nat (nlen (h_session h))) (p38 ++ [nlen (h_session h)]) (h_session h))
    by (rewrite ?app_length, ?Hp38, ?nlen_to_nat; reflexivity). cbn [bind].
  rewrite app_assoc.
  rewrite from_at by (rewrite !app_length, Hp38, nlen_to_nat; reflexivity). cbn [bind].
  (* cipher suites *)
  unfold rest1. rewrite nlen_app, nlen_enc16.
  destruct (2 <=? _) eqn:E; [|apply N.leb_gt in E; lia]. clear E.
  rewrite u16_0. cbn [bind]. rewrite Hc. cbn [andb].
  rewrite nlen_app.
  destruct (2 + nlen (h_ciphers h) <=? _) eqn:E; [|apply N.leb_gt in E; lia]. clear E.
  rewrite (app_assoc (enc16 _) (h_ciphers h)).
  rewrite from_at by (rewrite app_length, nlen_to_nat; reflexivity). cbn [bind].
  (* compression methods *)
  cbn [app]. rewrite nlen_cons.
  destruct (1 <=? _) eqn:E; [|apply N.leb_gt in E; lia]. clear E.
  unfold idx at 1. cbn [nth_error bind].
  rewrite nlen_app.
  destruct (1 + nlen (h_compress h) <=? _) eqn:E; [|apply N.leb_gt in E; lia]. clear E.
  change (nlen (h_compress h) :: h_compress h ++ enc_exts (h_exts h))
    with ([nlen (h_compress h)] ++ h_compress h ++ enc_exts (h_exts h)).
  rewrite (slice_at 1 (1 + N.to_nat (nlen (h_compress h))) [nlen (h_compress h)] (h_compress h))
    by (rewrite ?nlen_to_nat; reflexivity). cbn [bind].
  rewrite app_assoc.
  rewrite from_at by (rewrite app_length, nlen_to_nat; reflexivity). cbn [bind].
  (* extensions *)
  unfold hello_parses in Hd. destruct (h_exts h) as [es|]; cbn [enc_exts].
  - rewrite nlen_app, nlen_enc16.
    destruct (2 + _ =? 0) eqn:E; [apply N.eqb_eq in E; lia|]. clear E.
    destruct (2 <=? _) eqn:E; [|apply N.leb_gt in E; lia]. clear E.
    rewrite u16_0. cbn [bind].
    rewrite (from_at 2%nat (enc16 _)) by reflexivity. cbn [bind].
    rewrite N.eqb_refl.
    apply exts_parse_enc; [lia|exact Hd].
  - subst r. reflexivity.
Qed.

Lemma read_encode_lemma h r :
  wf_hello h -> hello_denotes h r -> read_server_name (enc_handshake h) = Ok r.
Proof. intros Hwf Hd. apply read_parse_lemma; [exact Hwf|now apply hello_denotes_parses]. Qed.


(* non-vacuity: a concrete hello with ALPN-like and server_name extensions *)
Definition ex_hello : hello := {|
  h_vers_hi := 3; h_vers_lo := 3;
  h_random := repeat 7 32; h_session := [1; 2; 3];
  h_ciphers := [19; 1; 19; 2]; h_compress := [0];
  h_exts := Some [ {| ext_type := 16; ext_data := [0; 3; 2; 104; 50] |};
                   {| ext_type := 0; ext_data := enc_sni_list [ {| sn_type := 0; sn_name := bs "foo.com"%string |} ] |} ]
|}.
Example ex_hello_wf : wf_hello ex_hello /\ hello_denotes ex_hello (bs "foo.com"%string).
Proof.
  split; [apply wf_hello_b_ok; vm_compute; reflexivity|].
  unfold hello_denotes. cbn [h_exts ex_hello].
  apply ed_other; [discriminate|].
  eapply ed_sni; [split; reflexivity|]. apply ed_nil.
Qed.
Example ex_hello_reads : read_server_name (enc_handshake ex_hello) = Ok (bs "foo.com"%string).
Proof. vm_compute. reflexivity. Qed.

(* ---------- RFC 6066 shape: at most one server_name extension ---------- *)
Lemma exts_denote_no_sni es : (forall e, In e es -> ext_type e <> 0) -> forall sn, exts_denote es sn sn.
Proof.
  induction es as [|e es IH]; intros H sn; [constructor|].
  apply ed_other; [apply H; now left|]. apply IH. intros e' He'. apply H. now right.
Qed.

Lemma exts_denote_unique_sni es : forall e l sn,
  NoDup (map ext_type es) -> In e es -> is_sni_ext e l ->
  exts_denote es sn (ext_sni e l sn).
Proof.
  induction es as [|e0 es IH]; intros e l sn Hnd Hin Hs; [contradiction|].
  cbn [map] in Hnd. inversion Hnd as [|x xs Hnotin Hnd']; subst.
  destruct Hin as [->|Hin].
  - eapply ed_sni; [exact Hs|]. apply exts_denote_no_sni.
    intros e' He' Hz. apply Hnotin. destruct Hs as [Ht _]. rewrite Ht, <- Hz. now apply in_map.
  - apply ed_other; [|now apply IH].
    intros Hz. apply Hnotin. destruct Hs as [Ht _]. rewrite Hz, <- Ht. now apply in_map.
Qed.

Lemma read_encode_rfc h es e l :
  wf_hello h -> h_exts h = Some es -> NoDup (map ext_type es) -> In e es -> is_sni_ext e l ->
  read_server_name (enc_handshake h) = Ok (match sni_of_list l with Some n => n | None => [] end).
Proof.
  intros Hwf He Hnd Hin Hs. apply read_encode_lemma; [exact Hwf|].
  unfold hello_denotes. rewrite He. apply (exts_denote_unique_sni es e l [] Hnd Hin Hs).
Qed.

Lemma read_encode_no_sni h :
  wf_hello h ->
  (match h_exts h with None => True | Some es => forall e, In e es -> ext_type e <> 0 end) ->
  read_server_name (enc_handshake h) = Ok [].
Proof.
  intros Hwf H. apply read_encode_lemma; [exact Hwf|].
  unfold hello_denotes. destruct (h_exts h); [now apply exts_denote_no_sni | reflexivity].
Qed.

(* ---------- the path through SNIProxy.ServeTCP ---------- *)
Lemma firstn_nth_error {A} (l : list A) n i : (i < n)%nat -> nth_error (firstn n l) i = nth_error l i.
Proof.
  revert l i; induction n as [|n IH]; intros l i Hi; [lia|].
  destruct l as [|x l]; [now destruct i|]. destruct i as [|i]; [reflexivity|]. cbn. apply IH. lia.
Qed.
Lemma idx_firstn d n i : (i < n)%nat -> idx (firstn n d) i = idx d i.
Proof. intros H. unfold idx. now rewrite firstn_nth_error. Qed.
Lemma u16_firstn d n i : (i + 1 < n)%nat -> u16 (firstn n d) i = u16 d i.
Proof. intros H. unfold u16. rewrite !idx_firstn by lia. reflexivity. Qed.

Lemma sni_route_never_panics stream : sni_route_name stream <> Panic.
Proof.
  unfold sni_route_name.
  destruct (9 <=? nlen stream) eqn:E9; [|discriminate].
  destruct (client_hello_buffer_size (firstn 9 stream)) eqn:Hb; cbn [bind];
    [|discriminate|now apply buffer_size_never_panics in Hb].
  apply buffer_size_bound_lemma in Hb as (rl & _ & Hlo & _).
  destruct (a <=? nlen stream) eqn:En; [|discriminate].
  apply N.leb_le in En. unfold nlen in En.
  destruct (slice stream 0 (N.to_nat a)) eqn:Hs; cbn [bind]; acc_facts; [|exfalso; apply Hs; lia].
  destruct (from _ 5) eqn:Hf; cbn [bind]; acc_facts.
  - destruct (read_server_name _) eqn:Hr; cbn [bind]; try discriminate.
    now apply read_server_name_never_panics in Hr.
  - rewrite firstn_length, skipn_O in Hf. lia.
Qed.

(* whatever the stream, the proxy consumes no byte beyond the first TLS record *)
Lemma sni_route_bound stream n name :
  sni_route_name stream = Ok (n, name) ->
  exists rl, u16 stream 3 = Ok rl /\ 10 <= n /\ n <= rl + 5 /\ n <= 16389 /\ n <= nlen stream.
Proof.
  unfold sni_route_name.
  destruct (9 <=? nlen stream) eqn:E9; [|discriminate].
  destruct (client_hello_buffer_size (firstn 9 stream)) eqn:Hb; cbn [bind]; try discriminate.
  apply buffer_size_bound_lemma in Hb as (rl & Hu & Hlo & Hhi & Hrl & _).
  rewrite u16_firstn in Hu by lia.
  destruct (a <=? nlen stream) eqn:En; [|discriminate]. apply N.leb_le in En.
  destruct (slice stream 0 (N.to_nat a)); cbn [bind]; try discriminate.
  destruct (from _ 5); cbn [bind]; try discriminate.
  destruct (read_server_name _); cbn [bind]; try discriminate.
  intros H. inversion H; subst. exists rl. repeat split; auto; lia.
Qed.

Lemma enc24_dec n : (n / 65536) * 65536 + ((n / 256) mod 256) * 256 + n mod 256 = n.
Proof.
  pose proof (N.div_mod n 256 ltac:(discriminate)) as H1.
  pose proof (N.div_mod (n / 256) 256 ltac:(discriminate)) as H2.
  rewrite N.div_div in H2 by discriminate. change (256 * 256) with 65536 in H2. lia.
Qed.

(* the full path on a stream that starts with one record carrying a well-formed
   hello: the name is found and exactly the record is consumed, whatever follows *)
Lemma sni_route_encode hi lo h r extra :
  wf_hello h -> hello_denotes h r ->
  nlen (enc_handshake h) <= 16384 ->
  sni_route_name (enc_record hi lo h ++ extra) = Ok (nlen (enc_record hi lo h), r).
Proof.
  intros Hwf Hd Hsz.
  pose proof (read_encode_lemma h r Hwf Hd) as Hread.
  unfold sni_route_name, enc_record.
  set (hs := enc_handshake h) in *.
  assert (Hhs : hs = 1 :: enc24 (nlen (enc_body h)) ++ enc_body h) by reflexivity.
  set (L := nlen (enc_body h)) in *.
  assert (HRL : nlen hs = L + 4).
  { rewrite Hhs, nlen_cons, nlen_app. unfold L. unfold nlen at 1. cbn [length enc24]. lia. }
  assert (HL : 0 < L).
  { destruct Hwf as [Hr _ _ _ _ _ _ _ _]. unfold L, enc_body. rewrite !nlen_app. unfold nlen at 2. rewrite Hr. lia. }
  set (stream := ([22; hi; lo] ++ enc16 (nlen hs) ++ hs) ++ extra).
  assert (Hn : nlen stream = 5 + nlen hs + nlen extra).
  { unfold stream. rewrite !nlen_app. unfold nlen at 1 2. cbn [length enc16]. lia. }
  destruct (9 <=? nlen stream) eqn:E; [|apply N.leb_gt in E; lia]. clear E.
  assert (H9 : firstn 9 stream =
               [22; hi; lo; nlen hs / 256; nlen hs mod 256; 1; L / 65536; (L / 256) mod 256; L mod 256]).
  { unfold stream. rewrite Hhs. reflexivity. }
  rewrite H9. unfold client_hello_buffer_size.
  change (nlen [22; hi; lo; nlen hs / 256; nlen hs mod 256; 1; L / 65536; (L / 256) mod 256; L mod 256]) with 9.
  cbn [N.leb N.compare Pos.compare Pos.compare_cont].
  unfold u16, u24, idx. cbn [nth_error bind Nat.add N.eqb Pos.eqb].
  rewrite enc16_dec, enc24_dec.
  destruct ((0 <? nlen hs) && (nlen hs <=? 16384)) eqn:E;
    [|apply andb_false_iff in E as [E|E]; [apply N.ltb_ge in E | apply N.leb_gt in E]; lia]. clear E.
  destruct ((0 <? L) && (L + 4 <=? nlen hs)) eqn:E;
    [|apply andb_false_iff in E as [E|E]; [apply N.ltb_ge in E | apply N.leb_gt in E]; lia]. clear E.
  cbn [bind].
  destruct (L + 9 <=? nlen stream) eqn:E; [|apply N.leb_gt in E; lia]. clear E.
  unfold stream.
  rewrite slice_0; [cbn [bind]|].
  2:{ rewrite !app_length. cbn [length enc16]. unfold nlen in HRL. lia. }
  rewrite (app_assoc [22; hi; lo]).
  rewrite (from_at 5%nat ([22; hi; lo] ++ enc16 (nlen hs))) by reflexivity. cbn [bind].
  rewrite Hread. cbn [bind]. f_equal. f_equal.
  rewrite !nlen_app, nlen_enc16. change (nlen [22; hi; lo]) with 3. lia.
Qed.

(* ---------- the encoding of a well-formed hello is a string of bytes ---------- *)
Theorem enc_handshake_bytes h : wf_hello h -> all_bytes (enc_handshake h).
Proof.
  intros [Hr Hs Hc [Hv1 Hv2] (Br & Bs & Bc & Bm) Hcl Hml He Hbl].
  unfold enc_handshake. apply all_bytes_cons. split; [lia|].
  apply all_bytes_app. split; [now apply enc24_is_bytes|].
  unfold enc_body. rewrite !all_bytes_app.
  repeat split; auto.
  - repeat constructor; assumption.
  - repeat constructor. unfold is_byte. lia.
  - now apply enc16_is_bytes.
  - repeat constructor. exact Hml.
  - destruct (h_exts h) as [es|]; cbn [enc_exts]; [|constructor].
    destruct He as [He1 He2]. apply all_bytes_app. split; [now apply enc16_is_bytes | now apply enc_exts_list_bytes].
Qed.

Theorem enc_record_bytes hi lo h :
  hi < 256 -> lo < 256 -> wf_hello h -> nlen (enc_handshake h) < 65536 ->
  all_bytes (enc_record hi lo h).
Proof.
  intros H1 H2 Hwf Hn. unfold enc_record. rewrite !all_bytes_app.
  repeat split; [repeat constructor; unfold is_byte; lia | now apply enc16_is_bytes | now apply enc_handshake_bytes].
Qed.


(* ---------- the path through ServeTCP, general form: the record may be longer than the
   handshake message (hl + 4 <= rl); the bytes of the record beyond the message are not
   consumed, like everything after them ---------- *)
Lemma sni_route_parse hi lo rl h r extra :
  wf_hello h -> hello_parses h r ->
  nlen (enc_handshake h) <= rl -> rl <= 16384 ->
  sni_route_name ([22; hi; lo] ++ enc16 rl ++ enc_handshake h ++ extra)
  = Ok (5 + nlen (enc_handshake h), r).
Proof.
  intros Hwf Hd Hrl Hsz.
  pose proof (read_parse_lemma h r Hwf Hd) as Hread.
  unfold sni_route_name.
  set (hs := enc_handshake h) in *.
  assert (Hhs : hs = 1 :: enc24 (nlen (enc_body h)) ++ enc_body h) by reflexivity.
  set (L := nlen (enc_body h)) in *.
  assert (HRL : nlen hs = L + 4).
  { rewrite Hhs, nlen_cons, nlen_app. unfold L. unfold nlen at 1. cbn [length enc24]. lia. }
  assert (HL : 0 < L).
  { destruct Hwf as [Hr _ _ _ _ _ _ _ _]. unfold L, enc_body. rewrite !nlen_app. unfold nlen at 2. rewrite Hr. lia. }
  set (stream := [22; hi; lo] ++ enc16 rl ++ hs ++ extra).
  assert (Hn : nlen stream = 5 + nlen hs + nlen extra).
  { unfold stream. rewrite !nlen_app. unfold nlen at 1 2. cbn [length enc16]. lia. }
  destruct (9 <=? nlen stream) eqn:E; [|apply N.leb_gt in E; lia]. clear E.
  assert (H9 : firstn 9 stream =
               [22; hi; lo; rl / 256; rl mod 256; 1; L / 65536; (L / 256) mod 256; L mod 256]).
  { unfold stream. rewrite Hhs. reflexivity. }
  rewrite H9. unfold client_hello_buffer_size.
  change (nlen [22; hi; lo; rl / 256; rl mod 256; 1; L / 65536; (L / 256) mod 256; L mod 256]) with 9.
  cbn [N.leb N.compare Pos.compare Pos.compare_cont].
  unfold u16, u24, idx. cbn [nth_error bind Nat.add N.eqb Pos.eqb].
  rewrite enc16_dec, enc24_dec.
  destruct ((0 <? rl) && (rl <=? 16384)) eqn:E;
    [|apply andb_false_iff in E as [E|E]; [apply N.ltb_ge in E | apply N.leb_gt in E]; lia]. clear E.
  destruct ((0 <? L) && (L + 4 <=? rl)) eqn:E;
    [|apply andb_false_iff in E as [E|E]; [apply N.ltb_ge in E | apply N.leb_gt in E]; lia]. clear E.
  cbn [bind].
  destruct (L + 9 <=? nlen stream) eqn:E; [|apply N.leb_gt in E; lia]. clear E.
  unfold stream.
  replace ([22; hi; lo] ++ enc16 rl ++ hs ++ extra) with (([22; hi; lo] ++ enc16 rl ++ hs) ++ extra)
    by (rewrite <- !app_assoc; reflexivity).
  rewrite slice_0; [cbn [bind]|].
  2:{ rewrite !app_length. cbn [length enc16]. unfold nlen in HRL. lia. }
  rewrite (app_assoc [22; hi; lo]).
  rewrite (from_at 5%nat ([22; hi; lo] ++ enc16 rl)) by reflexivity. cbn [bind].
  rewrite Hread. cbn [bind]. f_equal. f_equal. lia.
Qed.

(* ================= soundness of the whole parser =================
   An accepted message IS the encoding of a well-formed hello: every length field on the way
   is consistent with the bytes that follow it, nothing is left over. *)
Lemma assemble_body {s4 a s6 rnd s38 sl s39 sid d1 c16 s2 ciph d2 ml s1 comp d3 : str} {slb mlb : N} :
  s4 = a ++ s6 -> s6 = rnd ++ s38 -> s38 = slb :: s39 -> s39 = sid ++ d1 ->
  d1 = c16 ++ s2 -> s2 = ciph ++ d2 -> d2 = mlb :: s1 -> s1 = comp ++ d3 ->
  sl = [slb] -> ml = [mlb] ->
  s4 = a ++ rnd ++ sl ++ sid ++ c16 ++ ciph ++ ml ++ comp ++ d3.
Proof. intros; subst. rewrite <- ?app_assoc. reflexivity. Qed.

Lemma unmarshal_sound d r :
  all_bytes d -> unmarshal d = Ok r ->
  exists h, wf_hello h /\ hello_parses h r /\ skipn 4 d = enc_body h /\ (42 <= length d)%nat.
Proof.
  intros Hb. unfold unmarshal.
  destruct (42 <=? nlen d) eqn:E; [|discriminate]. apply N.leb_le in E. unfold nlen in E.
  destruct (u16 d 4) as [v|k|] eqn:H0; cbn [bind]; try discriminate.
  destruct (slice d 6 38) as [rnd0|k|] eqn:H1; cbn [bind]; try discriminate. clear H1 rnd0.
  destruct (idx d 38) as [sl|k|] eqn:H2; cbn [bind]; try discriminate.
  destruct ((sl <=? 32) && (39 + sl <=? nlen d)) eqn:E1; [|discriminate].
  apply andb_true_iff in E1 as [E1 E2]. apply N.leb_le in E1, E2. unfold nlen in E2.
  destruct (slice d 39 (39 + N.to_nat sl)) as [sid0|k|] eqn:H3; cbn [bind]; try discriminate. clear H3 sid0.
  destruct (from d (39 + N.to_nat sl)) as [d1|k|] eqn:H4; cbn [bind]; try discriminate.
  apply from_ok in H4 as [Hd1 _].
  assert (Bd1 : all_bytes d1) by (subst d1; now apply all_bytes_skipn).
  assert (Ld1 : (length d1 = length d - (39 + N.to_nat sl))%nat) by (subst d1; apply skipn_length).
  destruct (2 <=? nlen d1) eqn:E3; [|discriminate]. apply N.leb_le in E3. unfold nlen in E3.
  destruct (u16 d1 0) as [cl|k|] eqn:H5; cbn [bind]; try discriminate.
  destruct (N.even cl && (2 + cl <=? nlen d1)) eqn:E4; [|discriminate].
  apply andb_true_iff in E4 as [Ev E4]. apply N.leb_le in E4. unfold nlen in E4.
  destruct (from d1 (2 + N.to_nat cl)) as [d2|k|] eqn:H6; cbn [bind]; try discriminate.
  apply from_ok in H6 as [Hd2 _].
  assert (Bd2 : all_bytes d2) by (subst d2; now apply all_bytes_skipn).
  assert (Ld2 : (length d2 = length d1 - (2 + N.to_nat cl))%nat) by (subst d2; apply skipn_length).
  destruct (1 <=? nlen d2) eqn:E5; [|discriminate]. apply N.leb_le in E5. unfold nlen in E5.
  destruct (idx d2 0) as [ml|k|] eqn:H7; cbn [bind]; try discriminate.
  destruct (1 + ml <=? nlen d2) eqn:E6; [|discriminate]. apply N.leb_le in E6. unfold nlen in E6.
  destruct (slice d2 1 (1 + N.to_nat ml)) as [cm0|k|] eqn:H8; cbn [bind]; try discriminate. clear H8 cm0.
  destruct (from d2 (1 + N.to_nat ml)) as [d3|k|] eqn:H9; cbn [bind]; try discriminate.
  apply from_ok in H9 as [Hd3 _].
  assert (Bd3 : all_bytes d3) by (subst d3; now apply all_bytes_skipn).
  assert (Ld3 : (length d3 = length d2 - (1 + N.to_nat ml))%nat) by (subst d3; apply skipn_length).
  (* the pieces *)
  pose proof (u16_split d 4 v Hb H0) as [Ea Bv]. cbn [Nat.add] in Ea.
  pose proof (skipn_take d 6 32) as Eb. cbn [Nat.add] in Eb.
  pose proof (skipn_idx d 38 sl H2) as Ec.
  pose proof (skipn_take d 39 (N.to_nat sl)) as Ed. rewrite <- Hd1 in Ed.
  pose proof (u16_split d1 0 cl Bd1 H5) as [Ee Bcl]. rewrite skipn_O in Ee. cbn [Nat.add] in Ee.
  pose proof (skipn_take d1 2 (N.to_nat cl)) as Ef. rewrite <- Hd2 in Ef.
  pose proof (skipn_idx d2 0 ml H7) as Eg. rewrite skipn_O in Eg.
  pose proof (skipn_take d2 1 (N.to_nat ml)) as Eh. rewrite <- Hd3 in Eh.
  pose proof (idx_byte d 38 sl Hb H2) as Bsl.
  pose proof (idx_byte d2 0 ml Bd2 H7) as Bml.
  set (rnd := firstn 32 (skipn 6 d)) in *.
  set (sid := firstn (N.to_nat sl) (skipn 39 d)) in *.
  set (ciph := firstn (N.to_nat cl) (skipn 2 d1)) in *.
  set (comp := firstn (N.to_nat ml) (skipn 1 d2)) in *.
  assert (Lrnd : length rnd = 32%nat) by (unfold rnd; rewrite firstn_length, skipn_length; lia).
  assert (Lsid : nlen sid = sl) by (unfold sid, nlen; rewrite firstn_length, skipn_length; lia).
  assert (Lciph : nlen ciph = cl) by (unfold ciph, nlen; rewrite firstn_length, skipn_length; lia).
  assert (Lcomp : nlen comp = ml) by (unfold comp, nlen; rewrite firstn_length, skipn_length; lia).
  assert (Brnd : all_bytes rnd) by (apply all_bytes_firstn, all_bytes_skipn, Hb).
  assert (Bsid : all_bytes sid) by (apply all_bytes_firstn, all_bytes_skipn, Hb).
  assert (Bciph : all_bytes ciph) by (apply all_bytes_firstn, all_bytes_skipn, Bd1).
  assert (Bcomp : all_bytes comp) by (apply all_bytes_firstn, all_bytes_skipn, Bd2).
  pose proof (assemble_body Ea Eb Ec Ed Ee Ef Eg Eh eq_refl eq_refl) as Hall.
  assert (Hv1 : v / 256 < 256) by (apply N.div_lt_upper_bound; [discriminate|lia]).
  assert (Hv2 : v mod 256 < 256) by (apply N.mod_lt; discriminate).
  destruct (nlen d3 =? 0) eqn:E7.
  - (* no extension block *)
    intros Hr. inversion Hr; subst r; clear Hr.
    apply N.eqb_eq in E7. unfold nlen in E7.
    assert (Hd3nil : d3 = []) by (destruct d3; [reflexivity|cbn [length] in E7; lia]).
    exists {| h_vers_hi := v / 256; h_vers_lo := v mod 256; h_random := rnd; h_session := sid;
              h_ciphers := ciph; h_compress := comp; h_exts := None |}.
    assert (Hbody : skipn 4 d = enc_body {| h_vers_hi := v / 256; h_vers_lo := v mod 256; h_random := rnd;
              h_session := sid; h_ciphers := ciph; h_compress := comp; h_exts := None |}).
    { unfold enc_body. cbn [h_vers_hi h_vers_lo h_random h_session h_ciphers h_compress h_exts enc_exts].
      rewrite Lsid, Lciph, Lcomp. rewrite Hd3nil in Hall. exact Hall. }
    split; [|split; [reflexivity|split; [exact Hbody|lia]]].
    constructor; cbn [h_vers_hi h_vers_lo h_random h_session h_ciphers h_compress h_exts]; auto.
    + rewrite Lsid. exact E1.
    + now rewrite Lciph.
    + now rewrite Lciph.
    + now rewrite Lcomp.
    + rewrite <- Hbody. unfold nlen. rewrite skipn_length.
      rewrite Hd3nil in Ld3. cbn [length] in Ld3. lia.
  - destruct (2 <=? nlen d3) eqn:E8; [|discriminate]. apply N.leb_le in E8. unfold nlen in E8.
    destruct (u16 d3 0) as [el|k|] eqn:H10; cbn [bind]; try discriminate.
    destruct (from d3 2) as [d4|k|] eqn:H11; cbn [bind]; try discriminate.
    apply from_ok in H11 as [Hd4 _].
    destruct (el =? nlen d4) eqn:E9; [|discriminate]. apply N.eqb_eq in E9.
    pose proof (u16_split d3 0 el Bd3 H10) as [Ei Bel]. rewrite skipn_O in Ei. cbn [Nat.add] in Ei.
    rewrite <- Hd4 in Ei.
    intros Hx. apply exts_sound in Hx as (es & Hes & Hp & Hfs);
      [|subst d4; now apply all_bytes_skipn|lia].
    exists {| h_vers_hi := v / 256; h_vers_lo := v mod 256; h_random := rnd; h_session := sid;
              h_ciphers := ciph; h_compress := comp; h_exts := Some es |}.
    assert (Hbody : skipn 4 d = enc_body {| h_vers_hi := v / 256; h_vers_lo := v mod 256; h_random := rnd;
              h_session := sid; h_ciphers := ciph; h_compress := comp; h_exts := Some es |}).
    { unfold enc_body. cbn [h_vers_hi h_vers_lo h_random h_session h_ciphers h_compress h_exts enc_exts].
      rewrite Lsid, Lciph, Lcomp. rewrite <- Hes, <- E9, <- Ei. exact Hall. }
    split; [|split; [exact Hp|split; [exact Hbody|lia]]].
    constructor; cbn [h_vers_hi h_vers_lo h_random h_session h_ciphers h_compress h_exts]; auto.
    + rewrite Lsid. exact E1.
    + now rewrite Lciph.
    + now rewrite Lciph.
    + now rewrite Lcomp.
    + split; [exact Hfs|]. rewrite <- Hes, <- E9. exact Bel.
    + rewrite <- Hbody. unfold nlen. rewrite skipn_length.
      assert (length d4 = length d3 - 2)%nat by (subst d4; apply skipn_length).
      unfold nlen in E9. lia.
Qed.

Lemma length9 (l : str) : length l = 9%nat ->
  exists a0 a1 a2 a3 a4 a5 a6 a7 a8, l = [a0; a1; a2; a3; a4; a5; a6; a7; a8].
Proof.
  intros H. do 10 (destruct l as [|? l]; try discriminate). repeat eexists.
Qed.

Lemma buffer_size_inv9 a0 a1 a2 a3 a4 a5 a6 a7 a8 n :
  client_hello_buffer_size [a0; a1; a2; a3; a4; a5; a6; a7; a8] = Ok n ->
  a0 = 22 /\ a5 = 1 /\ 0 < a6 * 65536 + a7 * 256 + a8 /\
  a6 * 65536 + a7 * 256 + a8 + 4 <= a3 * 256 + a4 /\ a3 * 256 + a4 <= 16384 /\
  n = a6 * 65536 + a7 * 256 + a8 + 9.
Proof.
  unfold client_hello_buffer_size.
  change (nlen [a0; a1; a2; a3; a4; a5; a6; a7; a8]) with 9.
  cbn [N.leb N.compare Pos.compare Pos.compare_cont].
  unfold u16, u24, idx. cbn [nth_error bind Nat.add].
  destruct (a0 =? 22) eqn:E0; [|discriminate].
  destruct ((0 <? a3 * 256 + a4) && (a3 * 256 + a4 <=? 16384)) eqn:E1; [|discriminate].
  destruct (a5 =? 1) eqn:E5; [|discriminate].
  destruct ((0 <? a6 * 65536 + a7 * 256 + a8) && (a6 * 65536 + a7 * 256 + a8 + 4 <=? a3 * 256 + a4)) eqn:E2; [|discriminate].
  intros H. inversion H. leb_hyps. repeat split; auto.
Qed.

(* SOUNDNESS of the whole path.  If ServeTCP routes a stream of bytes on name [r] after
   consuming [n] bytes, then those [n] bytes are: a handshake record header (any version
   bytes), a record length [rl] <= 2^14, and the complete encoding of a well-formed
   ClientHello [h] whose extension block parses to [r]; the message fits the record
   ([rl] may be larger: record bytes beyond the message are neither consumed nor looked at,
   like everything after them). *)
Theorem sni_route_sound s n r :
  all_bytes s -> sni_route_name s = Ok (n, r) ->
  exists hi lo rl h,
    wf_hello h /\ hello_parses h r /\
    firstn (N.to_nat n) s = [22; hi; lo] ++ enc16 rl ++ enc_handshake h /\
    n = 5 + nlen (enc_handshake h) /\ nlen (enc_handshake h) <= rl /\ rl <= 16384.
Proof.
  intros Hb. unfold sni_route_name.
  destruct (9 <=? nlen s) eqn:E9; [|discriminate]. apply N.leb_le in E9. unfold nlen in E9.
  assert (L9 : length (firstn 9 s) = 9%nat) by (rewrite firstn_length; lia).
  destruct (length9 _ L9) as (a0 & a1 & a2 & a3 & a4 & a5 & a6 & a7 & a8 & H9).
  assert (B9 : all_bytes (firstn 9 s)) by now apply all_bytes_firstn.
  rewrite H9 in *.
  destruct (client_hello_buffer_size _) as [n0|k|] eqn:Hbuf; cbn [bind]; try discriminate.
  apply buffer_size_inv9 in Hbuf as (-> & -> & Hhl & Hrl & Hmax & ->).
  set (rl := a3 * 256 + a4) in *. set (hl := a6 * 65536 + a7 * 256 + a8) in *.
  destruct (hl + 9 <=? nlen s) eqn:En; [|discriminate]. apply N.leb_le in En. unfold nlen in En.
  destruct (slice s 0 (N.to_nat (hl + 9))) as [data|k|] eqn:Hs; cbn [bind]; try discriminate.
  apply slice_ok in Hs as [-> _]. rewrite skipn_O, Nat.sub_0_r.
  assert (Hdata : firstn (N.to_nat (hl + 9)) s =
                  [22; a1; a2; a3; a4; 1; a6; a7; a8] ++ firstn (N.to_nat hl) (skipn 9 s)).
  { rewrite <- (firstn_skipn 9 s) at 1. rewrite H9.
    set (hdr := [22; a1; a2; a3; a4; 1; a6; a7; a8]).
    replace (N.to_nat (hl + 9)) with (length hdr + N.to_nat hl)%nat by (cbn [length hdr]; lia).
    apply firstn_app_2. }
  rewrite Hdata. set (body := firstn (N.to_nat hl) (skipn 9 s)) in *.
  destruct (from _ 5) as [msg|k|] eqn:Hf; cbn [bind]; try discriminate.
  apply from_ok in Hf as [-> _]. cbn [app skipn].
  destruct (read_server_name _) as [name|k|] eqn:Hr; cbn [bind]; try discriminate.
  intros H. inversion H; subst n r; clear H.
  repeat (apply all_bytes_cons in B9 as [? B9]).
  assert (Bbody : all_bytes body) by (apply all_bytes_firstn, all_bytes_skipn, Hb).
  assert (Lbody : nlen body = hl) by (unfold body, nlen; rewrite firstn_length, skipn_length; lia).
  apply unmarshal_sound in Hr as (h & Hwf & Hp & Hbody & _).
  2:{ repeat (apply all_bytes_cons; split; [assumption|]). exact Bbody. }
  cbn [skipn] in Hbody.
  assert (Hhs : enc_handshake h = 1 :: a6 :: a7 :: a8 :: body).
  { unfold enc_handshake. rewrite <- Hbody, Lbody. unfold hl. rewrite enc24_bytes by assumption. reflexivity. }
  assert (Lhs : nlen (enc_handshake h) = hl + 4).
  { rewrite Hhs, !nlen_cons, Lbody. lia. }
  exists a1, a2, rl, h.
  split; [exact Hwf|]. split; [exact Hp|]. split; [|split; [|split; [|exact Hmax]]].
  - rewrite Hdata. unfold rl. rewrite enc16_bytes by assumption. rewrite Hhs. reflexivity.
  - lia.
  - lia.
Qed.

(* ... and the converse: together an exact description of what is routed *)
Theorem sni_route_exact s n r :
  all_bytes s ->
  (sni_route_name s = Ok (n, r) <->
   exists hi lo rl h extra,
     wf_hello h /\ hello_parses h r /\
     s = [22; hi; lo] ++ enc16 rl ++ enc_handshake h ++ extra /\
     n = 5 + nlen (enc_handshake h) /\ nlen (enc_handshake h) <= rl /\ rl <= 16384).
Proof.
  intros Hb. split.
  - intros H. destruct (sni_route_sound s n r Hb H) as (hi & lo & rl & h & Hwf & Hp & Hs & Hn & H1 & H2).
    exists hi, lo, rl, h, (skipn (N.to_nat n) s).
    split; [exact Hwf|]. split; [exact Hp|]. split; [|auto].
    rewrite <- (firstn_skipn (N.to_nat n) s) at 1. rewrite Hs, <- !app_assoc. reflexivity.
  - intros (hi & lo & rl & h & extra & Hwf & Hp & -> & -> & H1 & H2).
    now apply sni_route_parse.
Qed.

(* TRUNCATION: every strict prefix of what an accepted stream had consumed is rejected
   (Peek / ReadFull fail: Err 10), whatever the bytes *)
Theorem sni_route_truncated s n r k :
  sni_route_name s = Ok (n, r) -> (k < N.to_nat n)%nat ->
  sni_route_name (firstn k s) = Err 10.
Proof.
  unfold sni_route_name. intros H Hk.
  destruct (9 <=? nlen s) eqn:E9; [|discriminate]. apply N.leb_le in E9. unfold nlen in E9.
  destruct (client_hello_buffer_size (firstn 9 s)) as [n0|e|] eqn:Hb; cbn [bind] in H; try discriminate.
  destruct (n0 <=? nlen s) eqn:En; [|discriminate].
  destruct (slice s 0 (N.to_nat n0)) as [data|e|]; cbn [bind] in H; try discriminate.
  destruct (from data 5) as [msg|e|]; cbn [bind] in H; try discriminate.
  destruct (read_server_name msg) as [nm|e|]; cbn [bind] in H; try discriminate.
  inversion H; subst n0 r; clear H.
  destruct (9 <=? nlen (firstn k s)) eqn:E; [|reflexivity].
  apply N.leb_le in E. unfold nlen in E. rewrite firstn_length in E.
  rewrite firstn_firstn. replace (Nat.min 9 k) with 9%nat by lia. rewrite Hb. cbn [bind].
  destruct (n <=? nlen (firstn k s)) eqn:E2; [|reflexivity].
  apply N.leb_le in E2. unfold nlen in E2. rewrite firstn_length in E2. lia.
Qed.

(* for encodings: no strict prefix of a record carrying a well-formed hello is accepted *)
Theorem enc_record_truncated hi lo h r k :
  wf_hello h -> hello_denotes h r -> nlen (enc_handshake h) <= 16384 ->
  (k < length (enc_record hi lo h))%nat ->
  sni_route_name (firstn k (enc_record hi lo h)) = Err 10.
Proof.
  intros Hwf Hd Hsz Hk.
  pose proof (sni_route_encode hi lo h r [] Hwf Hd Hsz) as H. rewrite app_nil_r in H.
  apply (sni_route_truncated _ _ _ k H). unfold nlen. lia.
Qed.

(* a non-trivial instance of the soundness theorem's hypotheses *)
Example ex_route_sound_nonvacuous :
  all_bytes (enc_record 3 1 ex_hello ++ [23; 3; 3]) /\
  sni_route_name (enc_record 3 1 ex_hello ++ [23; 3; 3]) = Ok (nlen (enc_record 3 1 ex_hello), bs "foo.com"%string).
Proof. split; [apply bytes_b_ok; vm_compute; reflexivity | vm_compute; reflexivity]. Qed.

(* ---------- from [hello_parses] back to [hello_denotes] ----------
   When every server_name extension of the hello carries the encoding of an entry list (no
   stray bytes), what the parser found is what the lists denote. *)
Lemma app_same_length_inv {A} (a a' b b' : list A) :
  length a = length a' -> a ++ b = a' ++ b' -> a = a' /\ b = b'.
Proof.
  revert a'. induction a as [|x a IH]; intros [|x' a'] HL H; try discriminate.
  - auto.
  - cbn [app] in H. inversion H; subst. cbn [length] in HL.
    destruct (IH a') as [-> ->]; auto.
Qed.

Lemma sni_body_fun b o o' : sni_body b o -> sni_body b o' -> o = o'.
Proof.
  intros H H'. pose proof (names_body _ _ H (S (length b)) ltac:(lia)) as E.
  pose proof (names_body _ _ H' (S (length b)) ltac:(lia)) as E'. congruence.
Qed.

Definition well_listed (es : list extension) : Prop :=
  forall e, In e es -> ext_type e = 0 -> exists l, ext_data e = enc_sni_list l.

Lemma exts_parse_denote es sn r :
  exts_parse es sn r -> well_listed es -> exts_denote es sn r.
Proof.
  induction 1 as [sn | e es sn r Hne _ IH | e body o es sn r Ht Hdata Hbody _ IH]; intros Hw.
  - constructor.
  - apply ed_other; [exact Hne|]. apply IH. intros e' He'. apply Hw. now right.
  - destruct (Hw e (or_introl eq_refl) Ht) as [l Hl].
    apply (ed_sni e l); [split; assumption|].
    assert (Hb : body = flat_map enc_sni_entry l).
    { rewrite Hl in Hdata. unfold enc_sni_list in Hdata.
      apply app_same_length_inv in Hdata as [_ Hdata]; [now symmetry|reflexivity]. }
    subst body. unfold ext_sni.
    rewrite (sni_body_fun _ _ _ Hbody (sni_body_of_list l)) in IH.
    apply IH. intros e' He'. apply Hw. now right.
Qed.

Lemma hello_parses_denotes h r :
  hello_parses h r ->
  (match h_exts h with None => True | Some es => well_listed es end) ->
  hello_denotes h r.
Proof.
  unfold hello_parses, hello_denotes. destruct (h_exts h); [apply exts_parse_denote|auto].
Qed.

(* the encoding of an entry list is injective (no bound needed: [enc16] is) *)
Lemma enc16_inj a b : enc16 a = enc16 b -> a = b.
Proof.
  unfold enc16. intros H. injection H as H1 H2.
  rewrite <- (enc16_dec a), <- (enc16_dec b). congruence.
Qed.

Lemma enc_sni_entries_inj l : forall l',
  flat_map enc_sni_entry l = flat_map enc_sni_entry l' -> l = l'.
Proof.
  induction l as [|[ty nm] l IH]; intros [|[ty' nm'] l'] H; try reflexivity; try discriminate.
  cbn [flat_map] in H. unfold enc_sni_entry in H at 1 3. cbn [sn_type sn_name] in H.
  unfold enc16 in H. cbn [app] in H. injection H as Hty Hhi Hlo Hrest.
  assert (Hn : nlen nm = nlen nm') by (apply enc16_inj; unfold enc16; congruence).
  apply app_same_length_inv in Hrest as [-> Hrest]; [|unfold nlen in Hn; lia].
  subst. f_equal. now apply IH.
Qed.

Lemma enc_sni_list_inj l l' : enc_sni_list l = enc_sni_list l' -> l = l'.
Proof.
  unfold enc_sni_list. intros H.
  apply app_same_length_inv in H as [_ H]; [|reflexivity]. now apply enc_sni_entries_inj.
Qed.


(* ================= malformed server_name data that is NOT rejected (open findings) =================
   RFC 8446 4.2 (no two extensions of one type) and RFC 6066 3 (a ServerNameList is not empty,
   names are not empty, at most one name per type; and no trailing dot, RFC 6066 3 "without a
   trailing dot"), i.e. what a standard TLS server (crypto/tls) enforces on the part of the hello
   the extraction is about.  The property wants such input rejected; the parser is laxer. *)
Definition ends_with_dot (s : str) : bool :=
  match rev s with 46 :: _ => true | _ => false end.

Definition rfc_sni_list (l : list sni_entry) : Prop :=
  l <> [] /\ (forall e, In e l -> sn_name e <> []) /\
  (length (host_entries l) <= 1)%nat /\
  (forall e, In e (host_entries l) -> ends_with_dot (sn_name e) = false).

Definition rfc_exts (es : list extension) : Prop :=
  NoDup (map ext_type es) /\
  forall e, In e es -> ext_type e = 0 ->
    exists l, ext_data e = enc_sni_list l /\ rfc_sni_list l.

Definition rfc_hello (h : hello) : Prop :=
  match h_exts h with None => True | Some es => rfc_exts es end.

Definition host (s : string) : sni_entry := {| sn_type := 0; sn_name := bs s |}.
Definition sni_ext (l : list sni_entry) : extension := {| ext_type := 0; ext_data := enc_sni_list l |}.
Definition hello_with (es : list extension) : hello := {|
  h_vers_hi := 3; h_vers_lo := 3; h_random := repeat 7 32; h_session := [];
  h_ciphers := [19; 1]; h_compress := [0]; h_exts := Some es |}.

(* region 1: two server_name extensions; the last one with a host_name wins *)
Definition wit_dup_sni : hello := hello_with [sni_ext [host "a.com"]; sni_ext [host "b.com"]].
(* region 2: bytes after the first host_name entry are never looked at (here: a second host_name) *)
Definition wit_two_hosts : hello := hello_with [sni_ext [host "a.com"; host "b.com"]].
(* region 3: a host_name with a trailing dot *)
Definition wit_trailing_dot : hello := hello_with [sni_ext [host "a.com."]].

Ltac routed_witness :=
  split; [apply wf_hello_b_ok; vm_compute; reflexivity|];
  split; [vm_compute; reflexivity|]; split; [discriminate|].

Theorem duplicate_sni_routed_refuted :
  exists h r, wf_hello h /\
    sni_route_name (enc_record 3 1 h) = Ok (nlen (enc_record 3 1 h), r) /\ r <> [] /\ ~ rfc_hello h.
Proof.
  exists wit_dup_sni, (bs "b.com"%string). routed_witness.
  intros [Hnd _]. cbn in Hnd. inversion Hnd as [|x xs Hnotin _]. apply Hnotin. now left.
Qed.

Theorem second_host_name_routed_refuted :
  exists h r, wf_hello h /\
    sni_route_name (enc_record 3 1 h) = Ok (nlen (enc_record 3 1 h), r) /\ r <> [] /\ ~ rfc_hello h.
Proof.
  exists wit_two_hosts, (bs "a.com"%string). routed_witness.
  intros [_ Hs].
  destruct (Hs (sni_ext [host "a.com"; host "b.com"]) (or_introl eq_refl) eq_refl) as (l & Hl & Hrfc).
  cbn [ext_data sni_ext] in Hl. apply enc_sni_list_inj in Hl. subst l.
  destruct Hrfc as (_ & _ & Hlen & _). cbn in Hlen. lia.
Qed.

Theorem trailing_dot_routed_refuted :
  exists h r, wf_hello h /\
    sni_route_name (enc_record 3 1 h) = Ok (nlen (enc_record 3 1 h), r) /\ r <> [] /\ ~ rfc_hello h.
Proof.
  exists wit_trailing_dot, (bs "a.com."%string). routed_witness.
  intros [_ Hs].
  destruct (Hs (sni_ext [host "a.com."]) (or_introl eq_refl) eq_refl) as (l & Hl & Hrfc).
  cbn [ext_data sni_ext] in Hl. apply enc_sni_list_inj in Hl. subst l.
  destruct Hrfc as (_ & _ & _ & Hdot).
  specialize (Hdot (host "a.com.") (or_introl eq_refl)). vm_compute in Hdot. discriminate.
Qed.

(* outside the regions: on RFC-shaped hellos the parser returns THE host_name (or nothing) *)
Theorem rfc_hello_read h :
  wf_hello h -> rfc_hello h ->
  exists r, read_server_name (enc_handshake h) = Ok r /\ hello_denotes h r /\
    match h_exts h with
    | None => r = []
    | Some es =>
        (forall e, In e es -> ext_type e <> 0) /\ r = [] \/
        exists e l, In e es /\ is_sni_ext e l /\ rfc_sni_list l /\
                    r = match sni_of_list l with Some n => n | None => [] end
    end.
Proof.
  intros Hwf Hr. unfold rfc_hello in Hr. unfold hello_denotes.
  destruct (h_exts h) as [es|] eqn:He.
  2:{ exists []. split; [|auto]. apply read_encode_no_sni; [exact Hwf|]. now rewrite He. }
  destruct Hr as [Hnd Hs].
  destruct (existsb (fun e => ext_type e =? 0) es) eqn:Ex.
  - apply existsb_exists in Ex as (e & Hin & Ht). apply N.eqb_eq in Ht.
    destruct (Hs e Hin Ht) as (l & Hl & Hall).
    exists (match sni_of_list l with Some n => n | None => [] end).
    split; [apply (read_encode_rfc h es e l); auto; now split|].
    split; [apply (exts_denote_unique_sni es e l []); auto; now split|].
    right. exists e, l. split; [exact Hin|]. split; [now split|]. split; [exact Hall|reflexivity].
  - exists []. assert (Hno : forall e, In e es -> ext_type e <> 0).
    { intros e Hin Ht. assert (existsb (fun e => ext_type e =? 0) es = true); [|congruence].
      apply existsb_exists. exists e. split; [exact Hin|now apply N.eqb_eq]. }
    split; [apply read_encode_no_sni; [exact Hwf|now rewrite He]|].
    split; [now apply exts_denote_no_sni|]. left. auto.
Qed.

(* the premises of C10_read_encode (and RFC shape) on the example hello *)
Example ex_hello_rfc_premises :
  exists es e l, h_exts ex_hello = Some es /\ NoDup (map ext_type es) /\ In e es /\ is_sni_ext e l /\
                 rfc_hello ex_hello.
Proof.
  eexists. exists {| ext_type := 0; ext_data := enc_sni_list [ {| sn_type := 0; sn_name := bs "foo.com"%string |} ] |}.
  eexists. split; [reflexivity|]. split.
  { cbn. repeat constructor; cbn; intuition discriminate. }
  split; [right; left; reflexivity|]. split; [split; reflexivity|].
  split.
  { cbn. repeat constructor; cbn; intuition discriminate. }
  intros e [<-|[<-|[]]] Ht; [discriminate|]. eexists. split; [reflexivity|].
  split; [discriminate|]. split; [intros e [<-|[]]; discriminate|].
  split; [cbn; lia|]. intros e [<-|[]]. reflexivity.
Qed.

(* outside the regions, for byte streams: what is routed is the encoding of a well-formed hello,
   and if that hello is RFC-shaped the name routed on is the one its (single) list denotes *)
Lemma rfc_well_listed es : rfc_exts es -> well_listed es.
Proof. intros [_ H] e Hin Ht. destruct (H e Hin Ht) as (l & Hl & _). eauto. Qed.

Theorem sni_route_sound_rfc s n r :
  all_bytes s -> sni_route_name s = Ok (n, r) ->
  exists hi lo rl h,
    wf_hello h /\
    firstn (N.to_nat n) s = [22; hi; lo] ++ enc16 rl ++ enc_handshake h /\
    (rfc_hello h -> hello_denotes h r).
Proof.
  intros Hb H. destruct (sni_route_sound s n r Hb H) as (hi & lo & rl & h & Hwf & Hp & Hs & _).
  exists hi, lo, rl, h. split; [exact Hwf|]. split; [exact Hs|].
  intros Hr. apply hello_parses_denotes; [exact Hp|].
  unfold rfc_hello in Hr. destruct (h_exts h); [now apply rfc_well_listed|exact I].
Qed.

(* RFC 5246 7.4.1.2 / RFC 8446 4.1.2, legacy_session_id<0..32>: a hello whose session id
   length byte exceeds 32 is never parsed, whatever follows (crypto/tls's unmarshal does not
   enforce this bound; the property's "malformed input is rejected" does) *)
Lemma long_session_id_rejected (d : str) (sl : N) (n : str) :
  idx d 38 = Ok sl -> (32 < sl)%N -> unmarshal d <> Ok n.
Proof.
  intros Hi Hl. unfold unmarshal.
  destruct (42 <=? nlen d)%N; [|discriminate].
  destruct (u16 d 4) as [v|k|]; cbn [bind]; try discriminate.
  destruct (slice d 6 38) as [r|k|]; cbn [bind]; try discriminate.
  rewrite Hi. cbn [bind].
  replace (sl <=? 32)%N with false by (symmetry; apply N.leb_gt; exact Hl).
  cbn [andb]. discriminate.
Qed.
