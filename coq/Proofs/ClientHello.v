(** Lemmas about Model/ClientHello.v (property C10).  The model file contains no
    proofs so that it still evaluates when a proof here is broken. *)
From Coq Require Import String List NArith Bool Lia Arith.
From Fabio Require Import Lib.Outcome Lib.Bytes Model.ClientHello.
Import ListNotations.
Local Open Scope N_scope.

(* ---------- checked accesses ---------- *)
Lemma idx_panic d i : idx d i = Panic -> (length d <= i)%nat.
Proof. unfold idx. destruct (nth_error d i) eqn:E; [discriminate|]. intros _. now apply nth_error_None. Qed.
Lemma idx_ok d i b : idx d i = Ok b -> (i < length d)%nat.
Proof. unfold idx. destruct (nth_error d i) eqn:E; [|discriminate]. intros _. apply nth_error_Some. congruence. Qed.
Lemma idx_err d i k : idx d i <> Err k.
Proof. unfold idx. destruct (nth_error d i); discriminate. Qed.

Lemma u16_panic d i : u16 d i = Panic -> (length d <= i + 1)%nat.
Proof.
  unfold u16. destruct (idx d i) eqn:E1; cbn.
  - destruct (idx d (i + 1)) eqn:E2; cbn; try discriminate. intros _. now apply idx_panic in E2.
  - discriminate.
  - intros _. apply idx_panic in E1. lia.
Qed.
Lemma u16_err d i k : u16 d i <> Err k.
Proof.
  unfold u16. destruct (idx d i) eqn:E1; cbn; [|now apply idx_err in E1|discriminate].
  destruct (idx d (i + 1)) eqn:E2; cbn; [discriminate|now apply idx_err in E2|discriminate].
Qed.
Lemma u24_panic d i : u24 d i = Panic -> (length d <= i + 2)%nat.
Proof.
  unfold u24. destruct (idx d i) eqn:E1; cbn; [|discriminate|intros _; apply idx_panic in E1; lia].
  destruct (idx d (i + 1)) eqn:E2; cbn; [|discriminate|intros _; apply idx_panic in E2; lia].
  destruct (idx d (i + 2)) eqn:E3; cbn; [discriminate|discriminate|intros _; apply idx_panic in E3; lia].
Qed.

Lemma from_ok d a r : from d a = Ok r -> r = skipn a d /\ (a <= length d)%nat.
Proof. unfold from. destruct (Nat.leb a (length d)) eqn:E; [|discriminate]. intros H. inversion H. split; auto. now apply Nat.leb_le. Qed.
Lemma from_panic d a : from d a = Panic -> (length d < a)%nat.
Proof. unfold from. destruct (Nat.leb a (length d)) eqn:E; [discriminate|]. intros _. now apply Nat.leb_gt. Qed.
Lemma from_err d a k : from d a <> Err k.
Proof. unfold from. destruct (Nat.leb a (length d)); discriminate. Qed.
Lemma slice_ok d a b r : slice d a b = Ok r -> r = firstn (b - a) (skipn a d) /\ (a <= b <= length d)%nat.
Proof.
  unfold slice. destruct (Nat.leb a b && Nat.leb b (length d)) eqn:E; [|discriminate].
  apply andb_true_iff in E as [E1 E2]. apply Nat.leb_le in E1, E2. intros H. inversion H. auto.
Qed.
Lemma slice_panic d a b : slice d a b = Panic -> ~ (a <= b <= length d)%nat.
Proof.
  unfold slice. destruct (Nat.leb a b && Nat.leb b (length d)) eqn:E; [discriminate|].
  intros _ [H1 H2]. apply Nat.leb_le in H1, H2. rewrite H1, H2 in E. discriminate.
Qed.
Lemma slice_err d a b k : slice d a b <> Err k.
Proof. unfold slice. destruct (Nat.leb a b && Nat.leb b (length d)); discriminate. Qed.

Lemma nlen_skipn d a : (a <= length d)%nat -> nlen (skipn a d) = nlen d - N.of_nat a.
Proof. intros H. unfold nlen. rewrite skipn_length. lia. Qed.
Lemma nlen_firstn d a : (a <= length d)%nat -> nlen (firstn a d) = N.of_nat a.
Proof. intros H. unfold nlen. rewrite firstn_length. lia. Qed.

(* one tactic step: case on the head access of the goal; impossible branches are
   closed from the bounds the code's own guards put in the context *)
Ltac leb_hyps :=
  repeat match goal with
  | H : (_ && _) = true |- _ => apply andb_true_iff in H as [? ?]
  | H : (_ <=? _) = true |- _ => apply N.leb_le in H
  | H : (_ <? _) = true |- _ => apply N.ltb_lt in H
  | H : (_ =? _) = true |- _ => apply N.eqb_eq in H
  | H : (_ =? _) = false |- _ => apply N.eqb_neq in H
  end.

Ltac acc_facts :=
  repeat match goal with
  | H : idx _ _ = Panic |- _ => apply idx_panic in H
  | H : idx _ _ = Err _ |- _ => now apply idx_err in H
  | H : u16 _ _ = Panic |- _ => apply u16_panic in H
  | H : u16 _ _ = Err _ |- _ => now apply u16_err in H
  | H : u24 _ _ = Panic |- _ => apply u24_panic in H
  | H : from _ _ = Panic |- _ => apply from_panic in H
  | H : from _ _ = Err _ |- _ => now apply from_err in H
  | H : from _ _ = Ok _ |- _ => apply from_ok in H as [? ?]; subst
  | H : slice _ _ _ = Panic |- _ => apply slice_panic in H
  | H : slice _ _ _ = Err _ |- _ => now apply slice_err in H
  | H : slice _ _ _ = Ok _ |- _ => apply slice_ok in H as [? ?]; subst
  end.

(* ---------- never panics ---------- *)
Lemma names_never_panics fuel : forall d, names fuel d <> Panic.
Proof.
  induction fuel as [|f IH]; intros d; cbn [names]; [discriminate|].
  destruct (nlen d =? 0) eqn:E0; [discriminate|].
  destruct (3 <=? nlen d) eqn:E3; [|discriminate].
  apply N.leb_le in E3. unfold nlen in E3.
  destruct (idx d 0) eqn:H0; cbn [bind]; acc_facts; [|lia].
  destruct (u16 d 1) eqn:H1; cbn [bind]; acc_facts; [|lia].
  destruct (from d 3) eqn:H2; cbn [bind]; acc_facts; [|lia].
  destruct (a0 <=? nlen (skipn 3 d)) eqn:E4; [|discriminate].
  apply N.leb_le in E4. unfold nlen in E4.
  destruct (a =? 0).
  - destruct (slice (skipn 3 d) 0 (N.to_nat a0)) eqn:H3; cbn [bind]; acc_facts; try discriminate.
    exfalso. apply H3. lia.
  - destruct (from (skipn 3 d) (N.to_nat a0)) eqn:H3; cbn [bind]; acc_facts; [apply IH|lia].
Qed.

Lemma exts_never_panics fuel : forall d sn, exts fuel d sn <> Panic.
Proof.
  induction fuel as [|f IH]; intros d sn; cbn [exts]; [discriminate|].
  destruct (nlen d =? 0) eqn:E0; [discriminate|].
  destruct (4 <=? nlen d) eqn:E4; [|discriminate].
  apply N.leb_le in E4. unfold nlen in E4.
  destruct (u16 d 0) eqn:H0; cbn [bind]; acc_facts; [|lia].
  destruct (u16 d 2) eqn:H1; cbn [bind]; acc_facts; [|lia].
  destruct (from d 4) eqn:H2; cbn [bind]; acc_facts; [|lia].
  destruct (a0 <=? nlen (skipn 4 d)) eqn:E5; [|discriminate].
  apply N.leb_le in E5. unfold nlen in E5.
  assert (Hfrom : forall sn', bind (from (skipn 4 d) (N.to_nat a0)) (fun d2 => exts f d2 sn') <> Panic).
  { intros sn'. destruct (from (skipn 4 d) (N.to_nat a0)) eqn:H3; cbn [bind]; acc_facts; [apply IH|lia]. }
  destruct (a =? 0); [|cbn [bind]; apply Hfrom].
  destruct (slice (skipn 4 d) 0 (N.to_nat a0)) eqn:H3; cbn [bind]; acc_facts; [|exfalso; apply H3; lia].
  rewrite skipn_O, Nat.sub_0_r.
  set (x := firstn (N.to_nat a0) (skipn 4 d)) in *.
  destruct (2 <=? nlen x) eqn:E6; [|cbn [bind]; discriminate].
  apply N.leb_le in E6. unfold nlen in E6.
  destruct (u16 x 0) eqn:H4; cbn [bind]; acc_facts; [|lia].
  destruct (from x 2) eqn:H5; cbn [bind]; acc_facts; [|lia].
  destruct (nlen (skipn 2 x) =? a1); [|cbn [bind]; discriminate].
  destruct (names (S (length (skipn 2 x))) (skipn 2 x)) eqn:H6; cbn [bind].
  - apply Hfrom.
  - discriminate.
  - now apply names_never_panics in H6.
Qed.

Theorem unmarshal_never_panics_lemma : forall d, unmarshal d <> Panic.
Proof.
  intros d. unfold unmarshal.
  destruct (42 <=? nlen d) eqn:E; [|discriminate]. apply N.leb_le in E. unfold nlen in E.
  destruct (u16 d 4) eqn:H0; cbn [bind]; acc_facts; [|lia].
  destruct (slice d 6 38) eqn:H1; cbn [bind]; acc_facts; [|exfalso; apply H1; lia].
  destruct (idx d 38) eqn:H2; cbn [bind]; acc_facts; [|lia].
  destruct ((a0 <=? 32) && (39 + a0 <=? nlen d)) eqn:E1; [|discriminate].
  apply andb_true_iff in E1 as [E1 E2]. apply N.leb_le in E1, E2. unfold nlen in E2.
  destruct (slice d 39 (39 + N.to_nat a0)) eqn:H3; cbn [bind]; acc_facts; [|exfalso; apply H3; lia].
  destruct (from d (39 + N.to_nat a0)) eqn:H4; cbn [bind]; acc_facts; [|lia].
  set (d1 := skipn (39 + N.to_nat a0) d) in *.
  destruct (2 <=? nlen d1) eqn:E3; [|discriminate]. apply N.leb_le in E3. unfold nlen in E3.
  destruct (u16 d1 0) eqn:H5; cbn [bind]; acc_facts; [|lia].
  destruct (N.even a1 && (2 + a1 <=? nlen d1)) eqn:E4; [|discriminate].
  apply andb_true_iff in E4 as [_ E4]. apply N.leb_le in E4. unfold nlen in E4.
  destruct (from d1 (2 + N.to_nat a1)) eqn:H6; cbn [bind]; acc_facts; [|lia].
  set (d2 := skipn (2 + N.to_nat a1) d1) in *.
  destruct (1 <=? nlen d2) eqn:E5; [|discriminate]. apply N.leb_le in E5. unfold nlen in E5.
  destruct (idx d2 0) eqn:H7; cbn [bind]; acc_facts; [|lia].
  destruct (1 + a2 <=? nlen d2) eqn:E6; [|discriminate]. apply N.leb_le in E6. unfold nlen in E6.
  destruct (slice d2 1 (1 + N.to_nat a2)) eqn:H8; cbn [bind]; acc_facts; [|exfalso; apply H8; lia].
  destruct (from d2 (1 + N.to_nat a2)) eqn:H9; cbn [bind]; acc_facts; [|lia].
  set (d3 := skipn (1 + N.to_nat a2) d2) in *.
  destruct (nlen d3 =? 0); [discriminate|].
  destruct (2 <=? nlen d3) eqn:E7; [|discriminate]. apply N.leb_le in E7. unfold nlen in E7.
  destruct (u16 d3 0) eqn:H10; cbn [bind]; acc_facts; [|lia].
  destruct (from d3 2) eqn:H11; cbn [bind]; acc_facts; [|lia].
  destruct (a3 =? nlen (skipn 2 d3)); [|discriminate].
  apply exts_never_panics.
Qed.

Lemma read_server_name_never_panics : forall msg, read_server_name msg <> Panic.
Proof. exact unmarshal_never_panics_lemma. Qed.

(* ---------- buffer size ---------- *)
Lemma buffer_size_never_panics d : client_hello_buffer_size d <> Panic.
Proof.
  unfold client_hello_buffer_size.
  destruct (9 <=? nlen d) eqn:E; [|discriminate]. apply N.leb_le in E. unfold nlen in E.
  destruct (idx d 0) eqn:H0; cbn [bind]; acc_facts; [|lia].
  destruct (a =? 22); [|discriminate].
  destruct (u16 d 3) eqn:H1; cbn [bind]; acc_facts; [|lia].
  destruct ((0 <? a0) && (a0 <=? 16384)); [|discriminate].
  destruct (idx d 5) eqn:H2; cbn [bind]; acc_facts; [|lia].
  destruct (a1 =? 1); [|discriminate].
  destruct (u24 d 6) eqn:H3; cbn [bind]; acc_facts; [| |lia].
  - destruct ((0 <? a2) && (a2 + 4 <=? a0)); discriminate.
  - discriminate.
Qed.

(* the size returned never reaches beyond the first TLS record: record header (5)
   + record length, and the record length is at most 2^14 *)
Lemma buffer_size_bound_lemma d n :
  client_hello_buffer_size d = Ok n ->
  exists rl, u16 d 3 = Ok rl /\ 10 <= n /\ n <= rl + 5 /\ rl <= 16384 /\
             idx d 0 = Ok 22 /\ idx d 5 = Ok 1.
Proof.
  unfold client_hello_buffer_size.
  destruct (9 <=? nlen d) eqn:E; [|discriminate].
  destruct (idx d 0) eqn:H0; cbn [bind]; try discriminate.
  destruct (a =? 22) eqn:E22; [|discriminate]. apply N.eqb_eq in E22. subst a.
  destruct (u16 d 3) eqn:H1; cbn [bind]; try discriminate.
  destruct ((0 <? a) && (a <=? 16384)) eqn:E1; [|discriminate].
  destruct (idx d 5) eqn:H2; cbn [bind]; try discriminate.
  destruct (a0 =? 1) eqn:E01; [|discriminate]. apply N.eqb_eq in E01. subst a0.
  destruct (u24 d 6) eqn:H3; cbn [bind]; try discriminate.
  destruct ((0 <? a0) && (a0 + 4 <=? a)) eqn:E2; [|discriminate].
  intros H. inversion H; subst. leb_hyps. exists a. repeat split; auto; lia.
Qed.

(* ---------- decoding what the encoder wrote ---------- *)
Lemma idx_app_r a b i : idx (a ++ b) (length a + i) = idx b i.
Proof. unfold idx. rewrite nth_error_app2 by lia. replace (length a + i - length a)%nat with i by lia. reflexivity. Qed.
Lemma idx_app_r0 a x b : idx (a ++ x :: b) (length a) = Ok x.
Proof. rewrite <- (Nat.add_0_r (length a)). rewrite idx_app_r. reflexivity. Qed.
Lemma idx_at n a x b : n = length a -> idx (a ++ x :: b) n = Ok x.
Proof. intros ->. apply idx_app_r0. Qed.

Lemma enc16_dec n : (n / 256) * 256 + n mod 256 = n.
Proof. rewrite N.mul_comm. symmetry. apply N.div_mod. discriminate. Qed.

Lemma u16_at n a v r : n = length a -> u16 (a ++ enc16 v ++ r) n = Ok v.
Proof.
  intros ->. unfold u16, enc16. cbn [app].
  rewrite idx_app_r0. cbn [bind].
  replace (length a + 1)%nat with (length (a ++ [v / 256])) by (rewrite app_length; reflexivity).
  replace (a ++ v / 256 :: v mod 256 :: r) with ((a ++ [v / 256]) ++ v mod 256 :: r) by (rewrite <- app_assoc; reflexivity).
  rewrite idx_app_r0. cbn [bind]. now rewrite enc16_dec.
Qed.
Lemma u16_0 v r : u16 (enc16 v ++ r) 0 = Ok v.
Proof. apply (u16_at 0%nat [] v r). reflexivity. Qed.

Lemma from_at n a b : n = length a -> from (a ++ b) n = Ok b.
Proof.
  intros ->. unfold from. rewrite app_length.
  replace (Nat.leb (length a) (length a + length b)) with true by (symmetry; apply Nat.leb_le; lia).
  now rewrite skipn_app, skipn_all, Nat.sub_diag.
Qed.
Lemma slice_at n m a b c : n = length a -> m = (length a + length b)%nat -> slice (a ++ b ++ c) n m = Ok b.
Proof.
  intros -> ->. unfold slice. rewrite !app_length.
  replace (Nat.leb (length a) (length a + length b) && Nat.leb (length a + length b) (length a + (length b + length c)))
    with true by (symmetry; apply andb_true_iff; split; apply Nat.leb_le; lia).
  rewrite skipn_app, skipn_all, Nat.sub_diag. cbn [skipn app].
  replace (length a + length b - length a)%nat with (length b) by lia.
  now rewrite firstn_app, firstn_all, Nat.sub_diag, firstn_O, app_nil_r.
Qed.
Lemma slice_0 m b c : m = length b -> slice (b ++ c) 0 m = Ok b.
Proof. intros ->. apply (slice_at 0%nat (length b) [] b c); reflexivity. Qed.

Lemma nlen_app a b : nlen (a ++ b) = nlen a + nlen b.
Proof. unfold nlen. rewrite app_length. lia. Qed.
Lemma nlen_cons x a : nlen (x :: a) = 1 + nlen a.
Proof. unfold nlen. cbn [length]. lia. Qed.
Lemma nlen_nil : nlen [] = 0.
Proof. reflexivity. Qed.
Lemma nlen_enc16 v : nlen (enc16 v) = 2.
Proof. reflexivity. Qed.
Lemma nlen_to_nat a : N.to_nat (nlen a) = length a.
Proof. unfold nlen. lia. Qed.

(* ---- the server_name list ---- *)
Definition host_entries (l : list sni_entry) : list sni_entry :=
  filter (fun e => sn_type e =? 0) l.
(* what TLS says the server name of a list is: the first host_name entry *)
Definition sni_of_list (l : list sni_entry) : option str :=
  match host_entries l with e :: _ => Some (sn_name e) | [] => None end.

Lemma names_enc fuel : forall l,
  (length (flat_map enc_sni_entry l) < fuel)%nat ->
  names fuel (flat_map enc_sni_entry l) = Ok (sni_of_list l).
Proof.
  induction fuel as [|f IH]; intros l Hf; [lia|].
  cbn [names]. destruct l as [|e l].
  - reflexivity.
  - assert (Hl : flat_map enc_sni_entry (e :: l) =
                 sn_type e :: enc16 (nlen (sn_name e)) ++ sn_name e ++ flat_map enc_sni_entry l).
    { cbn [flat_map]. unfold enc_sni_entry at 1. cbn [app]. now rewrite <- app_assoc. }
    rewrite Hl in *. clear Hl. set (tl := flat_map enc_sni_entry l) in *.
    rewrite nlen_cons. destruct (1 + _ =? 0) eqn:E; [apply N.eqb_eq in E; lia|]. clear E.
    rewrite !nlen_app, nlen_enc16.
    destruct (3 <=? 1 + (2 + _)) eqn:E; [|apply N.leb_gt in E; lia]. clear E.
    unfold idx at 1. cbn [nth_error bind].
    change (sn_type e :: enc16 (nlen (sn_name e)) ++ sn_name e ++ tl)
      with ([sn_type e] ++ enc16 (nlen (sn_name e)) ++ sn_name e ++ tl) at 1.
    rewrite (u16_at 1%nat [sn_type e]) by reflexivity. cbn [bind].
    change (sn_type e :: enc16 (nlen (sn_name e)) ++ sn_name e ++ tl)
      with ((sn_type e :: enc16 (nlen (sn_name e))) ++ sn_name e ++ tl).
    rewrite from_at by reflexivity. cbn [bind].
    rewrite nlen_app.
    destruct (nlen (sn_name e) <=? _) eqn:E; [|apply N.leb_gt in E; lia]. clear E.
    unfold sni_of_list. cbn [host_entries filter].
    destruct (sn_type e =? 0) eqn:Et.
    + rewrite slice_0 by (apply nlen_to_nat). reflexivity.
    + rewrite from_at by (apply nlen_to_nat). cbn [bind].
      apply IH. cbn [length] in Hf. rewrite !app_length in Hf. fold tl. lia.
Qed.

(* ---- the extension block ---- *)
Definition is_sni_ext (e : extension) (l : list sni_entry) : Prop :=
  ext_type e = 0 /\ ext_data e = enc_sni_list l.

(* every extension is either not server_name or a well-formed server_name list *)
Definition wf_ext (e : extension) : Prop :=
  ext_type e < 65536 /\ nlen (ext_data e) < 65536 /\
  (ext_type e = 0 -> exists l, ext_data e = enc_sni_list l).

(* the name the extension list denotes, folding left to right like TLS readers that
   keep the last occurrence; with at most one server_name extension (RFC 6066) this
   is simply that extension's first host_name *)
Definition ext_sni (e : extension) (l : list sni_entry) (sn : str) : str :=
  match sni_of_list l with Some n => n | None => sn end.

Inductive exts_denote : list extension -> str -> str -> Prop :=
| ed_nil sn : exts_denote [] sn sn
| ed_other e es sn r : ext_type e <> 0 -> exts_denote es sn r -> exts_denote (e :: es) sn r
| ed_sni e l es sn r : is_sni_ext e l -> exts_denote es (ext_sni e l sn) r -> exts_denote (e :: es) sn r.

Lemma exts_enc fuel : forall es sn r,
  (length (flat_map enc_ext es) < fuel)%nat ->
  exts_denote es sn r ->
  exts fuel (flat_map enc_ext es) sn = Ok r.
Proof.
  induction fuel as [|f IH]; intros es sn r Hf Hd; [lia|].
  cbn [exts]. destruct Hd as [sn | e es sn r Hne Hd | e l es sn r [Ht Hdata] Hd].
  - reflexivity.
  - cbn [flat_map] in *. unfold enc_ext in * |- *. fold enc_ext in *.
    rewrite <- !app_assoc in *.
    rewrite !nlen_app, !nlen_enc16.
    destruct (2 + _ =? 0) eqn:E; [apply N.eqb_eq in E; lia|]. clear E.
    destruct (4 <=? _) eqn:E; [|apply N.leb_gt in E; lia]. clear E.
    rewrite u16_0. cbn [bind].
    rewrite (u16_at 2%nat (enc16 (ext_type e))) by reflexivity. cbn [bind].
    rewrite app_assoc. rewrite from_at by reflexivity. cbn [bind].
    rewrite nlen_app.
    destruct (nlen (ext_data e) <=? _) eqn:E; [|apply N.leb_gt in E; lia]. clear E.
    destruct (ext_type e =? 0) eqn:E; [apply N.eqb_eq in E; contradiction|]. clear E.
    cbn [bind]. rewrite from_at by (apply nlen_to_nat). cbn [bind].
    apply IH; [|exact Hd]. rewrite !app_length in Hf. cbn [length enc16] in Hf. lia.
  - cbn [flat_map] in *. unfold enc_ext in * |- *. fold enc_ext in *.
    rewrite <- !app_assoc in *.
    rewrite !nlen_app, !nlen_enc16.
    destruct (2 + _ =? 0) eqn:E; [apply N.eqb_eq in E; lia|]. clear E.
    destruct (4 <=? _) eqn:E; [|apply N.leb_gt in E; lia]. clear E.
    rewrite u16_0. cbn [bind].
    rewrite (u16_at 2%nat (enc16 (ext_type e))) by reflexivity. cbn [bind].
    rewrite app_assoc. rewrite from_at by reflexivity. cbn [bind].
    rewrite nlen_app.
    destruct (nlen (ext_data e) <=? _) eqn:E; [|apply N.leb_gt in E; lia]. clear E.
    rewrite Ht. cbn [N.eqb].
    rewrite slice_0 by (apply nlen_to_nat). cbn [bind].
    set (tailx := from (ext_data e ++ flat_map enc_ext es) (N.to_nat (nlen (ext_data e)))).
    rewrite Hdata. unfold enc_sni_list.
    rewrite nlen_app, nlen_enc16.
    destruct (2 <=? _) eqn:E; [|apply N.leb_gt in E; lia]. clear E.
    rewrite u16_0. cbn [bind].
    rewrite (from_at 2%nat (enc16 _)) by reflexivity. cbn [bind].
    rewrite N.eqb_refl.
    rewrite names_enc by lia. cbn [bind].
    subst tailx. rewrite from_at by (apply nlen_to_nat). cbn [bind].
    apply IH; [|exact Hd]. rewrite !app_length in Hf. cbn [length enc16] in Hf. lia.
Qed.

(* ---- the whole message ---- *)
Record wf_hello (h : hello) : Prop := {
  wf_random : length (h_random h) = 32%nat;
  wf_session : nlen (h_session h) <= 32;
  wf_ciphers : N.even (nlen (h_ciphers h)) = true
}.

Definition hello_denotes (h : hello) (r : str) : Prop :=
  match h_exts h with
  | None => r = []
  | Some es => exts_denote es [] r
  end.

Lemma read_encode_lemma h r :
  wf_hello h -> hello_denotes h r -> read_server_name (enc_handshake h) = Ok r.
Proof.
  intros [Hr Hs Hc] Hd. unfold read_server_name, unmarshal, enc_handshake.
  set (body := enc_body h).
  assert (Hbody : body = [h_vers_hi h; h_vers_lo h] ++ h_random h
            ++ [nlen (h_session h)] ++ h_session h
            ++ enc16 (nlen (h_ciphers h)) ++ h_ciphers h
            ++ [nlen (h_compress h)] ++ h_compress h ++ enc_exts (h_exts h)) by reflexivity.
  set (L := nlen body).
  set (hdr := 1 :: enc24 L).
  change (1 :: enc24 L ++ body) with (hdr ++ body).
  assert (Hlen42 : 42 <= nlen (hdr ++ body)).
  { rewrite nlen_app, Hbody. unfold hdr. rewrite !nlen_app. unfold nlen at 1 2 3. cbn [length enc24 enc16].
    rewrite Hr. unfold nlen. cbn [length enc16]. lia. }
  destruct (42 <=? nlen (hdr ++ body)) eqn:E; [|apply N.leb_gt in E; lia]. clear E.
  (* u16 d 4: the two version bytes; their value is irrelevant *)
  assert (Hu : exists v, u16 (hdr ++ body) 4 = Ok v).
  { rewrite Hbody. unfold hdr, enc24, u16, idx. cbn [app nth_error bind Nat.add]. eauto. }
  destruct Hu as [v ->]. cbn [bind].
  (* the layout: pre (6 bytes) ++ random (32) ++ [sl] ++ session ++ rest *)
  set (pre := hdr ++ [h_vers_hi h; h_vers_lo h]).
  set (rest1 := enc16 (nlen (h_ciphers h)) ++ h_ciphers h ++ [nlen (h_compress h)] ++ h_compress h ++ enc_exts (h_exts h)).
  assert (Hd0 : hdr ++ body = pre ++ h_random h ++ [nlen (h_session h)] ++ h_session h ++ rest1).
  { rewrite Hbody. unfold pre. rewrite <- !app_assoc. reflexivity. }
  rewrite Hd0.
  assert (Hpre : length pre = 6%nat) by reflexivity.
  rewrite (slice_at 6 38 pre (h_random h)) by (rewrite ?Hpre, ?Hr; reflexivity). cbn [bind].
  replace (pre ++ h_random h ++ [nlen (h_session h)] ++ h_session h ++ rest1)
    with ((pre ++ h_random h) ++ nlen (h_session h) :: h_session h ++ rest1)
    by (rewrite <- !app_assoc; reflexivity).
  rewrite (idx_at 38) by (rewrite app_length, Hpre, Hr; reflexivity). cbn [bind].
  assert (Hs' : (nlen (h_session h) <=? 32) = true) by (apply N.leb_le; exact Hs).
  rewrite Hs'. cbn [andb].
  set (p38 := pre ++ h_random h).
  assert (Hp38 : length p38 = 38%nat) by (unfold p38; rewrite app_length, Hpre, Hr; reflexivity).
  assert (Hn : nlen (p38 ++ nlen (h_session h) :: h_session h ++ rest1) = 39 + nlen (h_session h) + nlen rest1).
  { rewrite nlen_app, nlen_cons, nlen_app. unfold nlen at 1. rewrite Hp38. lia. }
  rewrite Hn.
  destruct (39 + nlen (h_session h) <=? _) eqn:E; [|apply N.leb_gt in E; lia]. clear E.
  replace (p38 ++ nlen (h_session h) :: h_session h ++ rest1)
    with ((p38 ++ [nlen (h_session h)]) ++ h_session h ++ rest1)
    by (rewrite <- !app_assoc; reflexivity).
  rewrite (slice_at 39 (39 + N.to_nat (nlen (h_session h))) (p38 ++ [nlen (h_session h)]) (h_session h))
    by (rewrite ?app_length, ?Hp38, ?nlen_to_nat; reflexivity). cbn [bind].
  rewrite app_assoc.
  rewrite from_at by (rewrite !app_length, Hp38, nlen_to_nat; reflexivity). cbn [bind].
  (* cipher suites *)
  unfold rest1. rewrite nlen_app, nlen_enc16.
  destruct (2 <=? _) eqn:E; [|apply N.leb_gt in E; lia]. clear E.
  rewrite u16_0. cbn [bind]. rewrite Hc. cbn [andb].
  rewrite nlen_app.
  destruct (2 + nlen (h_ciphers h) <=? _) eqn:E; [|apply N.leb_gt in E; lia]. clear E.
  rewrite (app_assoc (enc16 _) (h_ciphers h)).
  rewrite from_at by (rewrite app_length, nlen_to_nat; reflexivity). cbn [bind].
  (* compression methods *)
  cbn [app]. rewrite nlen_cons.
  destruct (1 <=? _) eqn:E; [|apply N.leb_gt in E; lia]. clear E.
  unfold idx at 1. cbn [nth_error bind].
  rewrite nlen_app.
  destruct (1 + nlen (h_compress h) <=? _) eqn:E; [|apply N.leb_gt in E; lia]. clear E.
  change (nlen (h_compress h) :: h_compress h ++ enc_exts (h_exts h))
    with ([nlen (h_compress h)] ++ h_compress h ++ enc_exts (h_exts h)).
  rewrite (slice_at 1 (1 + N.to_nat (nlen (h_compress h))) [nlen (h_compress h)] (h_compress h))
    by (rewrite ?nlen_to_nat; reflexivity). cbn [bind].
  rewrite app_assoc.
  rewrite from_at by (rewrite app_length, nlen_to_nat; reflexivity). cbn [bind].
  (* extensions *)
  unfold hello_denotes in Hd. destruct (h_exts h) as [es|]; cbn [enc_exts].
  - rewrite nlen_app, nlen_enc16.
    destruct (2 + _ =? 0) eqn:E; [apply N.eqb_eq in E; lia|]. clear E.
    destruct (2 <=? _) eqn:E; [|apply N.leb_gt in E; lia]. clear E.
    rewrite u16_0. cbn [bind].
    rewrite (from_at 2%nat (enc16 _)) by reflexivity. cbn [bind].
    rewrite N.eqb_refl.
    apply exts_enc; [lia|exact Hd].
  - subst r. reflexivity.
Qed.

(* non-vacuity: a concrete hello with ALPN-like and server_name extensions *)
Definition ex_hello : hello := {|
  h_vers_hi := 3; h_vers_lo := 3;
  h_random := repeat 7 32; h_session := [1; 2; 3];
  h_ciphers := [19; 1; 19; 2]; h_compress := [0];
  h_exts := Some [ {| ext_type := 16; ext_data := [0; 3; 2; 104; 50] |};
                   {| ext_type := 0; ext_data := enc_sni_list [ {| sn_type := 0; sn_name := bs "foo.com"%string |} ] |} ]
|}.
Example ex_hello_wf : wf_hello ex_hello /\ hello_denotes ex_hello (bs "foo.com"%string).
Proof.
  split; [split; [reflexivity | vm_compute; discriminate | reflexivity]|].
  unfold hello_denotes. cbn [h_exts ex_hello].
  apply ed_other; [discriminate|].
  eapply ed_sni; [split; reflexivity|]. apply ed_nil.
Qed.
Example ex_hello_reads : read_server_name (enc_handshake ex_hello) = Ok (bs "foo.com"%string).
Proof. vm_compute. reflexivity. Qed.

(* ---------- RFC 6066 shape: at most one server_name extension ---------- *)
Lemma exts_denote_no_sni es : (forall e, In e es -> ext_type e <> 0) -> forall sn, exts_denote es sn sn.
Proof.
  induction es as [|e es IH]; intros H sn; [constructor|].
  apply ed_other; [apply H; now left|]. apply IH. intros e' He'. apply H. now right.
Qed.

Lemma exts_denote_unique_sni es : forall e l sn,
  NoDup (map ext_type es) -> In e es -> is_sni_ext e l ->
  exts_denote es sn (ext_sni e l sn).
Proof.
  induction es as [|e0 es IH]; intros e l sn Hnd Hin Hs; [contradiction|].
  cbn [map] in Hnd. inversion Hnd as [|x xs Hnotin Hnd']; subst.
  destruct Hin as [->|Hin].
  - eapply ed_sni; [exact Hs|]. apply exts_denote_no_sni.
    intros e' He' Hz. apply Hnotin. destruct Hs as [Ht _]. rewrite Ht, <- Hz. now apply in_map.
  - apply ed_other; [|now apply IH].
    intros Hz. apply Hnotin. destruct Hs as [Ht _]. rewrite Hz, <- Ht. now apply in_map.
Qed.

Lemma read_encode_rfc h es e l :
  wf_hello h -> h_exts h = Some es -> NoDup (map ext_type es) -> In e es -> is_sni_ext e l ->
  read_server_name (enc_handshake h) = Ok (match sni_of_list l with Some n => n | None => [] end).
Proof.
  intros Hwf He Hnd Hin Hs. apply read_encode_lemma; [exact Hwf|].
  unfold hello_denotes. rewrite He. apply (exts_denote_unique_sni es e l [] Hnd Hin Hs).
Qed.

Lemma read_encode_no_sni h :
  wf_hello h ->
  (match h_exts h with None => True | Some es => forall e, In e es -> ext_type e <> 0 end) ->
  read_server_name (enc_handshake h) = Ok [].
Proof.
  intros Hwf H. apply read_encode_lemma; [exact Hwf|].
  unfold hello_denotes. destruct (h_exts h); [now apply exts_denote_no_sni | reflexivity].
Qed.

(* ---------- the path through SNIProxy.ServeTCP ---------- *)
Lemma firstn_nth_error {A} (l : list A) n i : (i < n)%nat -> nth_error (firstn n l) i = nth_error l i.
Proof.
  revert l i; induction n as [|n IH]; intros l i Hi; [lia|].
  destruct l as [|x l]; [now destruct i|]. destruct i as [|i]; [reflexivity|]. cbn. apply IH. lia.
Qed.
Lemma idx_firstn d n i : (i < n)%nat -> idx (firstn n d) i = idx d i.
Proof. intros H. unfold idx. now rewrite firstn_nth_error. Qed.
Lemma u16_firstn d n i : (i + 1 < n)%nat -> u16 (firstn n d) i = u16 d i.
Proof. intros H. unfold u16. rewrite !idx_firstn by lia. reflexivity. Qed.

Lemma sni_route_never_panics stream : sni_route_name stream <> Panic.
Proof.
  unfold sni_route_name.
  destruct (9 <=? nlen stream) eqn:E9; [|discriminate].
  destruct (client_hello_buffer_size (firstn 9 stream)) eqn:Hb; cbn [bind];
    [|discriminate|now apply buffer_size_never_panics in Hb].
  apply buffer_size_bound_lemma in Hb as (rl & _ & Hlo & _).
  destruct (a <=? nlen stream) eqn:En; [|discriminate].
  apply N.leb_le in En. unfold nlen in En.
  destruct (slice stream 0 (N.to_nat a)) eqn:Hs; cbn [bind]; acc_facts; [|exfalso; apply Hs; lia].
  destruct (from _ 5) eqn:Hf; cbn [bind]; acc_facts.
  - destruct (read_server_name _) eqn:Hr; cbn [bind]; try discriminate.
    now apply read_server_name_never_panics in Hr.
  - rewrite firstn_length, skipn_O in Hf. lia.
Qed.

(* whatever the stream, the proxy consumes no byte beyond the first TLS record *)
Lemma sni_route_bound stream n name :
  sni_route_name stream = Ok (n, name) ->
  exists rl, u16 stream 3 = Ok rl /\ 10 <= n /\ n <= rl + 5 /\ n <= 16389 /\ n <= nlen stream.
Proof.
  unfold sni_route_name.
  destruct (9 <=? nlen stream) eqn:E9; [|discriminate].
  destruct (client_hello_buffer_size (firstn 9 stream)) eqn:Hb; cbn [bind]; try discriminate.
  apply buffer_size_bound_lemma in Hb as (rl & Hu & Hlo & Hhi & Hrl & _).
  rewrite u16_firstn in Hu by lia.
  destruct (a <=? nlen stream) eqn:En; [|discriminate]. apply N.leb_le in En.
  destruct (slice stream 0 (N.to_nat a)); cbn [bind]; try discriminate.
  destruct (from _ 5); cbn [bind]; try discriminate.
  destruct (read_server_name _); cbn [bind]; try discriminate.
  intros H. inversion H; subst. exists rl. repeat split; auto; lia.
Qed.

Lemma enc24_dec n : (n / 65536) * 65536 + ((n / 256) mod 256) * 256 + n mod 256 = n.
Proof.
  pose proof (N.div_mod n 256 ltac:(discriminate)) as H1.
  pose proof (N.div_mod (n / 256) 256 ltac:(discriminate)) as H2.
  rewrite N.div_div in H2 by discriminate. change (256 * 256) with 65536 in H2. lia.
Qed.

(* the full path on a stream that starts with one record carrying a well-formed
   hello: the name is found and exactly the record is consumed, whatever follows *)
Lemma sni_route_encode hi lo h r extra :
  wf_hello h -> hello_denotes h r ->
  nlen (enc_handshake h) <= 16384 ->
  sni_route_name (enc_record hi lo h ++ extra) = Ok (nlen (enc_record hi lo h), r).
Proof.
  intros Hwf Hd Hsz.
  pose proof (read_encode_lemma h r Hwf Hd) as Hread.
  unfold sni_route_name, enc_record.
  set (hs := enc_handshake h) in *.
  assert (Hhs : hs = 1 :: enc24 (nlen (enc_body h)) ++ enc_body h) by reflexivity.
  set (L := nlen (enc_body h)) in *.
  assert (HRL : nlen hs = L + 4).
  { rewrite Hhs, nlen_cons, nlen_app. unfold L. unfold nlen at 1. cbn [length enc24]. lia. }
  assert (HL : 0 < L).
  { destruct Hwf as [Hr _ _]. unfold L, enc_body. rewrite !nlen_app. unfold nlen at 2. rewrite Hr. lia. }
  set (stream := ([22; hi; lo] ++ enc16 (nlen hs) ++ hs) ++ extra).
  assert (Hn : nlen stream = 5 + nlen hs + nlen extra).
  { unfold stream. rewrite !nlen_app. unfold nlen at 1 2. cbn [length enc16]. lia. }
  destruct (9 <=? nlen stream) eqn:E; [|apply N.leb_gt in E; lia]. clear E.
  assert (H9 : firstn 9 stream =
               [22; hi; lo; nlen hs / 256; nlen hs mod 256; 1; L / 65536; (L / 256) mod 256; L mod 256]).
  { unfold stream. rewrite Hhs. reflexivity. }
  rewrite H9. unfold client_hello_buffer_size.
  change (nlen [22; hi; lo; nlen hs / 256; nlen hs mod 256; 1; L / 65536; (L / 256) mod 256; L mod 256]) with 9.
  cbn [N.leb N.compare Pos.compare Pos.compare_cont].
  unfold u16, u24, idx. cbn [nth_error bind Nat.add N.eqb Pos.eqb].
  rewrite enc16_dec, enc24_dec.
  destruct ((0 <? nlen hs) && (nlen hs <=? 16384)) eqn:E;
    [|apply andb_false_iff in E as [E|E]; [apply N.ltb_ge in E | apply N.leb_gt in E]; lia]. clear E.
  destruct ((0 <? L) && (L + 4 <=? nlen hs)) eqn:E;
    [|apply andb_false_iff in E as [E|E]; [apply N.ltb_ge in E | apply N.leb_gt in E]; lia]. clear E.
  cbn [bind].
  destruct (L + 9 <=? nlen stream) eqn:E; [|apply N.leb_gt in E; lia]. clear E.
  unfold stream.
  rewrite slice_0; [cbn [bind]|].
  2:{ rewrite !app_length. cbn [length enc16]. unfold nlen in HRL. lia. }
  rewrite (app_assoc [22; hi; lo]).
  rewrite (from_at 5%nat ([22; hi; lo] ++ enc16 (nlen hs))) by reflexivity. cbn [bind].
  rewrite Hread. cbn [bind]. f_equal. f_equal.
  rewrite !nlen_app, nlen_enc16. change (nlen [22; hi; lo]) with 3. lia.
Qed.
