(** Proofs about Model/BasicReload.v (the refreshed basic scheme) and the position lemma for long
    X-Forwarded-For lists.  Statements are re-exported by Properties/C12.v. *)
From Coq Require Import String List NArith Bool Lia.
From Fabio Require Import Lib.Outcome Lib.Bytes Model.Access Proofs.Access Model.BasicReload.
Import ListNotations.
Local Open Scope N_scope.

(* ================= the table a complete read builds ================= *)
Definition add1 (acc : ptable) (l : hline) : ptable := fst (add_line acc l).

Lemma table_of_snoc f l : table_of (f ++ [l]) = add1 (table_of f) l.
Proof. unfold table_of. rewrite fold_left_app. reflexivity. Qed.

Lemma fold_add1_app f g acc :
  fold_left add1 (f ++ g) acc = fold_left add1 g (fold_left add1 f acc).
Proof. apply fold_left_app. Qed.

(* Match on the table of a file = the file's last line for the user carries that password *)
Lemma pt_get_table_of f u :
  (forall p, pt_get (table_of f) u = Some p <->
             exists pre post, f = pre ++ HUser u p :: post /\ forall q, ~ In (HUser u q) post).
Proof.
  induction f as [|l f IH] using rev_ind; intros p.
  - cbn. split; [discriminate|]. intros (pre & post & H & _). destruct pre; discriminate.
  - rewrite table_of_snoc. destruct l as [u' p'| |].
    + unfold add1, add_line, pt_set. cbn [fst pt_get].
      destruct (beq u' u) eqn:E.
      * apply beq_eq in E. subst u'. split.
        -- intros [= <-]. exists f, []. split; [reflexivity | intros q []].
        -- intros (pre & post & H & Hn).
           destruct post as [|x post] using rev_ind.
           ++ apply app_inj_tail in H as [_ [= ->]]. reflexivity.
           ++ clear IHpost. rewrite app_comm_cons, app_assoc in H. apply app_inj_tail in H as [_ <-].
              exfalso. apply (Hn p'). apply in_or_app. right. now left.
      * apply beq_neq in E. rewrite IH. split.
        -- intros (pre & post & -> & Hn). exists pre, (post ++ [HUser u' p']). split.
           ++ now rewrite <- app_assoc.
           ++ intros q Hq. apply in_app_or in Hq as [Hq|[Hq|[]]]; [now apply (Hn q)|]. congruence.
        -- intros (pre & post & H & Hn).
           destruct post as [|x post] using rev_ind.
           ++ apply app_inj_tail in H as [_ [= -> _]]. congruence.
           ++ clear IHpost. rewrite app_comm_cons, app_assoc in H. apply app_inj_tail in H as [-> <-].
              exists pre, post. split; [reflexivity|]. intros q Hq. apply (Hn q). apply in_or_app. now left.
    + unfold add1, add_line. cbn [fst]. rewrite IH. split.
      * intros (pre & post & -> & Hn). exists pre, (post ++ [HBad]). split.
        -- now rewrite <- app_assoc.
        -- intros q Hq. apply in_app_or in Hq as [Hq|[Hq|[]]]; [now apply (Hn q) | discriminate].
      * intros (pre & post & H & Hn).
        destruct post as [|x post] using rev_ind.
        -- apply app_inj_tail in H as [_ H]. discriminate.
        -- clear IHpost. rewrite app_comm_cons, app_assoc in H. apply app_inj_tail in H as [-> <-].
           exists pre, post. split; [reflexivity|]. intros q Hq. apply (Hn q). apply in_or_app. now left.
    + unfold add1, add_line. cbn [fst]. rewrite IH. split.
      * intros (pre & post & -> & Hn). exists pre, (post ++ [HBlank]). split.
        -- now rewrite <- app_assoc.
        -- intros q Hq. apply in_app_or in Hq as [Hq|[Hq|[]]]; [now apply (Hn q) | discriminate].
      * intros (pre & post & H & Hn).
        destruct post as [|x post] using rev_ind.
        -- apply app_inj_tail in H as [_ H]. discriminate.
        -- clear IHpost. rewrite app_comm_cons, app_assoc in H. apply app_inj_tail in H as [-> <-].
           exists pre, post. split; [reflexivity|]. intros q Hq. apply (Hn q). apply in_or_app. now left.
Qed.

Lemma in_last_line_unique f u p p' pre post pre' post' :
  f = pre ++ HUser u p :: post -> (forall q, ~ In (HUser u q) post) ->
  f = pre' ++ HUser u p' :: post' -> (forall q, ~ In (HUser u q) post') -> p = p'.
Proof.
  intros H1 N1 H2 N2.
  assert (G1 : pt_get (table_of f) u = Some p) by (apply pt_get_table_of; eauto).
  assert (G2 : pt_get (table_of f) u = Some p') by (apply pt_get_table_of; eauto).
  congruence.
Qed.

Theorem match_table_of_iff f c :
  (c_ok c = true /\ pt_match (table_of f) (c_user c) (c_pw c) = true) <-> file_accepts f c.
Proof.
  unfold file_accepts, pt_match. split.
  - intros [Hok Hm]. split; [exact Hok|].
    destruct (pt_get (table_of f) (c_user c)) as [p|] eqn:G; [|discriminate].
    apply beq_eq in Hm. subst p. now apply pt_get_table_of.
  - intros [Hok H]. split; [exact Hok|]. apply pt_get_table_of in H. rewrite H. apply beq_refl.
Qed.

(* ================= the invariant ================= *)
(* [L] = the file most recently read completely *)
Definition pc_inv (p : rpc) : Prop :=
  match p with
  | RParsing _ whole rest acc => fold_left add1 rest acc = table_of whole
  | _ => True
  end.
Definition rinv (L : hfile) (st : rstate) : Prop :=
  in_force st = table_of L /\ pc_inv (pc st).

(* a trace is right when every verdict is the one the most recently loaded file gives *)
Fixpoint trace_ok (L : hfile) (evs : list revent) : Prop :=
  match evs with
  | [] => True
  | EvVerdict c b :: r => (b = true <-> file_accepts L c) /\ trace_ok L r
  | EvLoaded f :: r => trace_ok f r
  | _ :: r => trace_ok L r
  end.

Lemma trace_ok_app L a b :
  trace_ok L (a ++ b) <-> trace_ok L a /\ trace_ok (last_loaded L a) b.
Proof.
  revert L. induction a as [|e a IH]; intros L; cbn [app trace_ok last_loaded].
  - tauto.
  - destruct e; cbn [trace_ok last_loaded]; rewrite ?IH; tauto.
Qed.

Lemma basic_authorized_iff L st c :
  in_force st = table_of L -> (basic_authorized st c = true <-> file_accepts L c).
Proof.
  intros H. unfold basic_authorized. rewrite H, <- match_table_of_iff.
  destruct (c_ok c); cbn [negb]; intuition congruence.
Qed.

Lemma refresher_step_inv L st ev st' :
  rinv L st -> refresher_step st = (ev, st') ->
  trace_ok L ev /\ rinv (last_loaded L ev) st'.
Proof.
  intros [Hf Hp] H. unfold refresher_step in H.
  destruct (pc st) as [| |mt|mt whole rest acc] eqn:Epc.
  - destruct (fs st) as [[c mt]|].
    + inversion H; subst; clear H. split; [exact I|]. cbn [last_loaded].
      destruct (mt =? cfg_mtime st); [split; [exact Hf | now rewrite Epc] | split; [exact Hf | exact I]].
    + inversion H; subst; clear H. split; [exact I|]. cbn [last_loaded].
      destruct (cleared st); [split; [exact Hf | now rewrite Epc] | split; [exact Hf | exact I]].
  - inversion H; subst; clear H. split; [exact I|]. cbn [last_loaded]. split; [reflexivity | exact I].
  - destruct (fs st) as [[c mt']|]; inversion H; subst; clear H; (split; [exact I|]); cbn [last_loaded].
    + split; [exact Hf|]. cbn [set_pc pc pc_inv]. reflexivity.
    + split; [exact Hf | exact I].
  - destruct rest as [|l rest].
    + inversion H; subst; clear H. split; [exact I|]. cbn [last_loaded].
      split; [cbn [in_force]; cbn [pc_inv fold_left] in Hp; exact Hp | exact I].
    + destruct (add_line acc l) as [acc' bad] eqn:Ea. inversion H; subst; clear H.
      assert (Hacc : acc' = add1 acc l) by (unfold add1; now rewrite Ea).
      split; [destruct bad; exact I|].
      assert (last_loaded L (if bad then [EvBadLine] else []) = L) as -> by (destruct bad; reflexivity).
      split; [exact Hf|]. cbn [set_pc pc pc_inv]. cbn [pc_inv fold_left] in Hp. now rewrite Hacc.
Qed.

Lemma rstep_inv L st a ev st' :
  rinv L st -> rstep st a = (ev, st') -> trace_ok L ev /\ rinv (last_loaded L ev) st'.
Proof.
  intros Hi H. destruct a as [c mt| | |c]; cbn [rstep] in H.
  - inversion H; subst; clear H. split; [exact I|]. exact Hi.
  - inversion H; subst; clear H. split; [exact I|]. exact Hi.
  - eapply refresher_step_inv; eauto.
  - inversion H; subst; clear H. cbn [trace_ok last_loaded]. destruct Hi as [Hf Hp].
    split; [split; [now apply basic_authorized_iff | exact I] | split; assumption].
Qed.

Lemma rrun_inv sched : forall L st evs st',
  rinv L st -> rrun st sched = (evs, st') -> trace_ok L evs /\ rinv (last_loaded L evs) st'.
Proof.
  induction sched as [|a rest IH]; intros L st evs st' Hi H; cbn [rrun] in H.
  - inversion H; subst. split; [exact I | exact Hi].
  - destruct (rstep st a) as [ev st1] eqn:E1. destruct (rrun st1 rest) as [evs2 st2] eqn:E2.
    inversion H; subst; clear H.
    destruct (rstep_inv _ _ _ _ _ Hi E1) as [T1 I1].
    destruct (IH _ _ _ _ I1 E2) as [T2 I2].
    split.
    + apply trace_ok_app. split; assumption.
    + assert (LL : forall a b L0, last_loaded L0 (a ++ b) = last_loaded (last_loaded L0 a) b).
      { induction a0 as [|e a0 IHa]; intros b L0; [reflexivity|]. destruct e; cbn [app last_loaded]; apply IHa. }
      now rewrite LL.
Qed.

Lemma rboot_inv init mt : rinv init (rboot init mt).
Proof. split; [reflexivity | exact I]. Qed.

(* THE THEOREM: for every initial file, every schedule of operator actions, refresher steps and
   requests, every request is judged by the file the scheme has most recently read completely *)
Theorem reload_verdicts_follow_loaded_file init mt sched pre c b post :
  fst (rrun (rboot init mt) sched) = pre ++ EvVerdict c b :: post ->
  (b = true <-> file_accepts (last_loaded init pre) c).
Proof.
  intros H. destruct (rrun (rboot init mt) sched) as [evs st] eqn:E. cbn [fst] in H. subst evs.
  destruct (rrun_inv _ _ _ _ _ (rboot_inv init mt) E) as [T _].
  apply trace_ok_app in T as [_ T]. cbn [trace_ok] in T. tauto.
Qed.

(* the state side of the same fact: what is in force after any schedule *)
Theorem reload_in_force_is_loaded_file init mt sched :
  in_force (snd (rrun (rboot init mt) sched)) = table_of (last_loaded init (fst (rrun (rboot init mt) sched))).
Proof.
  destruct (rrun (rboot init mt) sched) as [evs st] eqn:E.
  destruct (rrun_inv _ _ _ _ _ (rboot_inv init mt) E) as [_ [Hf _]]. exact Hf.
Qed.

(* ---- what gets loaded is a content the operator gave the file (or nothing, after a removal) ---- *)
Definition given (init : hfile) (sched : list raction) (f : hfile) : Prop :=
  f = [] \/ f = init \/ exists mt, In (AWrite f mt) sched.

Definition fs_given (G : hfile -> Prop) (st : rstate) : Prop :=
  (forall c mt, fs st = Some (c, mt) -> G c) /\
  (forall mt whole rest acc, pc st = RParsing mt whole rest acc -> G whole).

Lemma rstep_given (G : hfile -> Prop) st a ev st' :
  G [] -> (forall c mt, a = AWrite c mt -> G c) ->
  fs_given G st -> rstep st a = (ev, st') ->
  (forall f, In (EvLoaded f) ev -> G f) /\ fs_given G st'.
Proof.
  intros Gnil Ga [Hfs Hpc] H. destruct a as [c mt| | |c]; cbn [rstep] in H.
  - inversion H; subst; clear H. split; [intros f []|]. split; cbn [fs pc].
    + intros c0 mt0 [= <- <-]. eapply Ga; reflexivity.
    + exact Hpc.
  - inversion H; subst; clear H. split; [intros f []|]. split; cbn [fs pc]; [discriminate | exact Hpc].
  - unfold refresher_step in H. destruct (pc st) as [| |mt|mt whole rest acc] eqn:Epc; rewrite <- Epc in Hpc.
    + destruct (fs st) as [[c mt]|] eqn:Efs; rewrite <- Efs in Hfs; inversion H; subst; clear H.
      * split; [intros f []|].
        destruct (mt =? cfg_mtime st); split; cbn [set_pc fs pc]; try exact Hfs; try exact Hpc; discriminate.
      * split; [intros f [|[]]; discriminate|].
        destruct (cleared st); split; cbn [set_pc fs pc]; try exact Hfs; try exact Hpc; discriminate.
    + inversion H; subst; clear H. split; [intros f [[= <-]|[]]; exact Gnil|].
      split; cbn [fs pc]; [exact Hfs | discriminate].
    + destruct (fs st) as [[c mt']|] eqn:Efs; rewrite <- Efs in Hfs; inversion H; subst; clear H.
      * split; [intros f []|]. split; cbn [set_pc fs pc]; [exact Hfs|].
        intros mt0 whole rest acc [= _ <- _ _]. eapply Hfs; exact Efs.
      * split; [intros f [|[]]; discriminate|]. split; cbn [set_pc fs pc]; [exact Hfs | discriminate].
    + destruct rest as [|l rest].
      * inversion H; subst; clear H. split.
        -- intros f [[= <-]|[]]. eapply Hpc; exact Epc.
        -- split; cbn [fs pc]; [exact Hfs | discriminate].
      * destruct (add_line acc l) as [acc' bad]. inversion H; subst; clear H. split.
        -- intros f Hin. destruct bad; [destruct Hin as [|[]]; discriminate | destruct Hin].
        -- split; cbn [set_pc fs pc]; [exact Hfs|].
           intros mt0 whole0 rest0 acc0 [= _ <- _ _]. eapply Hpc; exact Epc.
  - inversion H; subst; clear H. split; [intros f [|[]]; discriminate|]. split; assumption.
Qed.

Lemma rrun_given (G : hfile -> Prop) sched : forall st evs st',
  G [] -> (forall c mt, In (AWrite c mt) sched -> G c) ->
  fs_given G st -> rrun st sched = (evs, st') -> forall f, In (EvLoaded f) evs -> G f.
Proof.
  induction sched as [|a rest IH]; intros st evs st' Gnil Ga Hg H f Hin; cbn [rrun] in H.
  - inversion H; subst. destruct Hin.
  - destruct (rstep st a) as [ev st1] eqn:E1. destruct (rrun st1 rest) as [evs2 st2] eqn:E2.
    inversion H; subst; clear H.
    destruct (rstep_given G _ _ _ _ Gnil (fun c mt E => Ga c mt (or_introl E)) Hg E1) as [H1 Hg1].
    apply in_app_or in Hin as [Hin|Hin]; [now apply H1|].
    eapply (IH st1); eauto. intros c mt Hc. eapply Ga. right. exact Hc.
Qed.

Theorem reload_loads_only_given_files init mt sched f :
  In (EvLoaded f) (fst (rrun (rboot init mt) sched)) -> given init sched f.
Proof.
  destruct (rrun (rboot init mt) sched) as [evs st] eqn:E. cbn [fst].
  apply (rrun_given (given init sched) sched (rboot init mt) evs st).
  - now left.
  - intros c mt0 Hin. right. right. now exists mt0.
  - split; cbn [rboot fs pc]; [|discriminate]. intros c mt0 [= <- _]. right. now left.
  - exact E.
Qed.

(* ---- progress: a changed file does come into force ---- *)
Definition is_env (a : raction) : bool :=
  match a with AWrite _ _ | ARemove => true | _ => false end.
Definition is_refresher (a : raction) : bool :=
  match a with ARefresher => true | _ => false end.

Lemma rrun_requests_transparent sched : forall st,
  forallb (fun a => negb (is_env a)) sched = true ->
  snd (rrun st sched) = snd (rrun st (repeat ARefresher (List.length (filter is_refresher sched)))).
Proof.
  induction sched as [|a rest IH]; intros st Hs; [reflexivity|].
  cbn [forallb] in Hs. apply andb_true_iff in Hs as [Ha Hs].
  destruct a as [c mt| | |c]; try discriminate.
  - cbn [filter is_refresher List.length repeat rrun].
    destruct (rstep st ARefresher) as [ev st1].
    specialize (IH st1 Hs).
    destruct (rrun st1 rest) as [e1 s1]. destruct (rrun st1 (repeat ARefresher _)) as [e2 s2].
    exact IH.
  - cbn [filter is_refresher rrun rstep]. specialize (IH st Hs).
    destruct (rrun st rest) as [e1 s1]. exact IH.
Qed.

Lemma rrun_cons_snd st a r : snd (rrun st (a :: r)) = snd (rrun (snd (rstep st a)) r).
Proof.
  cbn [rrun]. destruct (rstep st a) as [ev st1]. cbn [snd]. destruct (rrun st1 r) as [e s]. reflexivity.
Qed.

Definition parsed_state (mt : N) (tbl : ptable) (st0 st' : rstate) : Prop :=
  in_force st' = tbl /\ cfg_mtime st' = mt /\ pc st' = RIdle /\ cleared st' = false /\ fs st' = fs st0.

Lemma rrun_parse mt whole : forall rest acc st,
  pc st = RParsing mt whole rest acc ->
  parsed_state mt (fold_left add1 rest acc) st (snd (rrun st (repeat ARefresher (S (List.length rest))))).
Proof.
  induction rest as [|l rest IH]; intros acc st Hpc.
  - cbn [List.length repeat]. rewrite rrun_cons_snd. cbn [rrun snd rstep]. unfold refresher_step. rewrite Hpc.
    cbn [snd fold_left]. repeat split.
  - change (repeat ARefresher (S (List.length (l :: rest)))) with (ARefresher :: repeat ARefresher (S (List.length rest))).
    rewrite rrun_cons_snd. cbn [rstep]. unfold refresher_step. rewrite Hpc.
    destruct (add_line acc l) as [acc' bad] eqn:Ea. cbn [snd].
    specialize (IH acc' (set_pc st (RParsing mt whole rest acc')) eq_refl).
    cbn [fold_left]. unfold add1 at 2. rewrite Ea. cbn [fst]. exact IH.
Qed.

Theorem reload_changed_file_comes_into_force st c mt sched :
  pc st = RIdle -> fs st = Some (c, mt) -> mt <> cfg_mtime st ->
  forallb (fun a => negb (is_env a)) sched = true ->
  List.length (filter is_refresher sched) = (3 + List.length c)%nat ->
  in_force (snd (rrun st sched)) = table_of c /\ cfg_mtime (snd (rrun st sched)) = mt.
Proof.
  intros Hpc Hfs Hmt Henv Hn. rewrite (rrun_requests_transparent sched st Henv), Hn.
  change (3 + List.length c)%nat with (S (S (S (List.length c)))).
  cbn [repeat]. rewrite rrun_cons_snd. cbn [rstep]. unfold refresher_step. rewrite Hpc, Hfs.
  apply N.eqb_neq in Hmt. rewrite Hmt. cbn [snd].
  rewrite rrun_cons_snd. cbn [rstep]. unfold refresher_step. cbn [set_pc pc fs]. rewrite Hfs. cbn [snd].
  pose proof (rrun_parse mt c c [] (set_pc (set_pc st (RStatted mt)) (RParsing mt c c [])) eq_refl) as P.
  destruct P as (P1 & P2 & _). split; [exact P1 | exact P2].
Qed.

(* ---- composed with the gate of ServeHTTP ---- *)
Theorem reload_forwarded_only_if_file_accepts
        parse_ip split_host init mt sched tg remote xff c :
  t_auth tg <> [] ->
  (In EUpstream (serve_http parse_ip split_host bcreds (Some tg)
                   (basic_scheme_table (t_auth tg) (snd (rrun (rboot init mt) sched))) remote xff c)
   \/ exists code, In (ERedirect code) (serve_http parse_ip split_host bcreds (Some tg)
                   (basic_scheme_table (t_auth tg) (snd (rrun (rboot init mt) sched))) remote xff c)) ->
  file_accepts (last_loaded init (fst (rrun (rboot init mt) sched))) c.
Proof.
  intros Hne H.
  assert (A : authorized (t_auth tg) (basic_scheme_table (t_auth tg) (snd (rrun (rboot init mt) sched))) c = true).
  { destruct H as [H|[code H]].
    - apply gate_before_upstream_http in H as (tg' & [= <-] & _ & A & _). exact A.
    - apply gate_before_redirect_http in H as (tg' & [= <-] & _ & _ & _ & A). exact A. }
  apply authorized_iff in A as [A|(s & Hs & Hc)]; [contradiction|].
  unfold basic_scheme_table in Hs. rewrite beq_refl in Hs. inversion Hs; subst s.
  eapply basic_authorized_iff; [|exact Hc]. apply reload_in_force_is_loaded_file.
Qed.

(* otherwise the client gets 401 (when the access rules admit the request) *)
Theorem reload_rejected_gets_401 parse_ip split_host init mt sched tg remote xff c :
  t_auth tg <> [] ->
  access_denied_http parse_ip split_host (t_rules tg) remote xff = false ->
  ~ file_accepts (last_loaded init (fst (rrun (rboot init mt) sched))) c ->
  serve_http parse_ip split_host bcreds (Some tg)
             (basic_scheme_table (t_auth tg) (snd (rrun (rboot init mt) sched))) remote xff c = [ERespond 401].
Proof.
  intros Hne Hd Hn. apply unauthorized_gets_401; [exact Hd|].
  destruct (authorized _ _ c) eqn:A; [|reflexivity]. exfalso. apply Hn.
  apply authorized_iff in A as [A|(s & Hs & Hc)]; [contradiction|].
  unfold basic_scheme_table in Hs. rewrite beq_refl in Hs. inversion Hs; subst s.
  eapply basic_authorized_iff; [|exact Hc]. apply reload_in_force_is_loaded_file.
Qed.

(* ---- the boolean reference of the correspondence check ---- *)
Lemma users_of_app f g : users_of (f ++ g) = users_of f ++ users_of g.
Proof.
  induction f as [|l f IH]; [reflexivity|]. destruct l; cbn [app users_of]; [now rewrite IH | exact IH | exact IH].
Qed.

Lemma in_users_of f u : In u (users_of f) <-> exists p, In (HUser u p) f.
Proof.
  induction f as [|l f IH]; cbn [users_of].
  - split; [intros [] | intros (p & [])].
  - destruct l as [u' p'| |]; cbn [In]; rewrite ?IH.
    + split.
      * intros [->|(p & Hp)]; [exists p'; now left | exists p; now right].
      * intros (p & [[= -> ->]|Hp]); [now left | right; now exists p].
    + split; [intros (p & Hp); exists p; now right | intros (p & [|Hp]); [discriminate | now exists p]].
    + split; [intros (p & Hp); exists p; now right | intros (p & [|Hp]); [discriminate | now exists p]].
Qed.

Lemma str_nodup_spec l : str_nodup l = true -> NoDup l.
Proof.
  induction l as [|x r IH]; intros H; [constructor|]. cbn [str_nodup] in H.
  apply andb_true_iff in H as [Hx Hr]. constructor; [|now apply IH].
  intros Hin. apply negb_true_iff in Hx.
  assert (existsb (beq x) r = true) by (apply existsb_exists; exists x; split; [exact Hin | apply beq_refl]).
  congruence.
Qed.

Theorem file_accepts_b_spec f c :
  str_nodup (users_of f) = true -> (file_accepts_b f c = true <-> file_accepts f c).
Proof.
  intros Hnd. apply str_nodup_spec in Hnd. unfold file_accepts_b, file_accepts.
  rewrite andb_true_iff, existsb_exists. split.
  - intros [Hok (l & Hin & Hl)]. split; [exact Hok|].
    destruct l as [u p| |]; cbn [line_is] in Hl; try discriminate.
    apply andb_true_iff in Hl as [Hu Hp]. apply beq_eq in Hu. apply beq_eq in Hp. subst u p.
    apply in_split in Hin as (pre & post & ->). exists pre, post. split; [reflexivity|].
    intros q Hq. rewrite users_of_app in Hnd. cbn [users_of] in Hnd.
    apply NoDup_remove_2 in Hnd. apply Hnd. apply in_or_app. right.
    apply in_users_of. now exists q.
  - intros [Hok (pre & post & -> & _)]. split; [exact Hok|].
    exists (HUser (c_user c) (c_pw c)). split; [apply in_or_app; right; now left|].
    cbn [line_is]. now rewrite !beq_refl.
Qed.

(* ---- non-vacuity: a user removed from the file is accepted while the new file is being read
        (the old one is in force) and rejected once it has been read ---- *)
Definition ex_alice : bcreds := {| c_ok := true; c_user := bs "alice"; c_pw := bs "wonderland" |}.
Definition ex_bob : bcreds := {| c_ok := true; c_user := bs "bob"; c_pw := bs "builder" |}.
Definition ex_file1 : hfile := [HUser (bs "alice") (bs "wonderland")].
Definition ex_file2 : hfile := [HBad; HUser (bs "bob") (bs "builder")].
Definition ex_sched : list raction :=
  [ARequest ex_alice; AWrite ex_file2 2; ARefresher; ARefresher; ARefresher;
   ARequest ex_alice; ARequest ex_bob; ARefresher; ARefresher; ARequest ex_alice; ARequest ex_bob].

Theorem reload_nonvacuous :
  fst (rrun (rboot ex_file1 1) ex_sched) =
    [EvVerdict ex_alice true; EvBadLine; EvVerdict ex_alice true; EvVerdict ex_bob false;
     EvLoaded ex_file2; EvVerdict ex_alice false; EvVerdict ex_bob true] /\
  file_accepts ex_file1 ex_alice /\ ~ file_accepts ex_file2 ex_alice /\ file_accepts ex_file2 ex_bob.
Proof.
  split; [vm_compute; reflexivity|].
  assert (N1 : str_nodup (users_of ex_file1) = true) by (vm_compute; reflexivity).
  assert (N2 : str_nodup (users_of ex_file2) = true) by (vm_compute; reflexivity).
  split; [apply (file_accepts_b_spec _ _ N1); vm_compute; reflexivity|].
  split; [|apply (file_accepts_b_spec _ _ N2); vm_compute; reflexivity].
  intros H. apply (file_accepts_b_spec _ _ N2) in H. vm_compute in H. discriminate.
Qed.

(* ================= X-Forwarded-For: the position of an element does not matter ================= *)
Lemma split_byte_no_sep x sep : ~ In sep x -> split_byte x sep = [x].
Proof.
  induction x as [|c x IH]; intros Hn; [reflexivity|]. cbn [split_byte].
  destruct (c =? sep) eqn:E; [apply N.eqb_eq in E; subst; exfalso; apply Hn; now left|].
  rewrite IH; [reflexivity|]. intros Hin. apply Hn. now right.
Qed.

(* whatever stands before it (any number of elements) and after it in the list: an element that
   reads as an address the rule map rejects makes AccessDeniedHTTP answer true *)
Theorem xff_rejected_at_any_position parse_ip split_host r remote host before x after ip :
  split_host remote = Some host -> parse_ip [] = None ->
  ~ In 44 x ->
  parse_ip (strip_zone (trim_space x)) = Some ip -> deny_by_ip r (Some ip) = true ->
  access_denied_http parse_ip split_host r remote [join (before ++ x :: after) [44]] = true.
Proof.
  intros Hs Hnil Hc Hp Hd.
  eapply rejected_address_denies with (s := trim_space x); eauto.
  right. cbn [flat_map]. rewrite app_nil_r. apply in_map.
  apply (in_split_join (before ++ x :: after) x x).
  - apply in_or_app. right. now left.
  - rewrite split_byte_no_sep by exact Hc. now left.
Qed.

(* and the same over several header lines: the line and the position inside it are arbitrary *)
Theorem xff_rejected_in_any_line parse_ip split_host r remote host lines_before before x after lines_after ip :
  split_host remote = Some host -> parse_ip [] = None ->
  ~ In 44 x ->
  parse_ip (strip_zone (trim_space x)) = Some ip -> deny_by_ip r (Some ip) = true ->
  access_denied_http parse_ip split_host r remote
    (lines_before ++ join (before ++ x :: after) [44] :: lines_after) = true.
Proof.
  intros Hs Hnil Hc Hp Hd.
  eapply rejected_address_denies with (s := trim_space x); eauto.
  right. apply in_flat_map. exists (join (before ++ x :: after) [44]). split.
  - apply in_or_app. right. now left.
  - apply in_map. apply (in_split_join (before ++ x :: after) x x).
    + apply in_or_app. right. now left.
    + rewrite split_byte_no_sep by exact Hc. now left.
Qed.

(* 40 admitted elements before the rejected one, more after it *)
Theorem xff_long_nonvacuous :
  access_denied_http ex_parse_ip ex_split_host ex_deny_6666 (bs "1.1.1.1:1")
    [join (repeat (bs "8.8.8.8") 40 ++ bs " 6.6.6.6" :: repeat (bs "8.8.8.8") 3) [44]] = true /\
  access_denied_http ex_parse_ip ex_split_host ex_deny_6666 (bs "1.1.1.1:1")
    [join (repeat (bs "8.8.8.8") 44) [44]] = false.
Proof. split; vm_compute; reflexivity. Qed.
