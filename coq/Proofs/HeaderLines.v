(** Proofs about Model.HeaderLines (C08): the header map of a client's header LINES never
    carries the nil "do not populate" marker, so the X-Forwarded-For clause (and every other
    clause) holds at the upstream's end of the wire for ALL lists of header lines -- empty and
    blank values included -- without a well-formedness hypothesis. *)
From Coq Require Import String List NArith ZArith Bool Lia.
From Fabio Require Import Lib.Outcome Lib.Bytes Model.Headers Model.HeadersSpec Model.HeaderLines Proofs.Headers.
Import ListNotations.
Local Open Scope N_scope.

(* ------------------------------------------------------------------ *)
(** * m[key] = append(m[key], value) *)

Lemma wf_happend h k v : wf_hdr h = true -> wf_hdr (happend h k v) = true.
Proof.
  induction h as [|[k' vs] h IH]; cbn [happend]; intros W.
  - reflexivity.
  - cbn [wf_hdr forallb snd] in W. apply andb_true_iff in W as [A B].
    destruct (beq k k'); cbn [wf_hdr forallb snd].
    + apply andb_true_iff. split; [|exact B]. destruct vs; [discriminate|reflexivity].
    + apply andb_true_iff. split; [exact A|]. apply IH. exact B.
Qed.

Lemma hfind_happend_same h k v :
  hfind (happend h k v) k = Some (match hfind h k with Some vs => vs ++ [v] | None => [v] end).
Proof.
  induction h as [|[k' vs] h IH]; cbn [happend hfind].
  - now rewrite beq_refl.
  - destruct (beq k k') eqn:E; cbn [hfind]; rewrite E; auto.
Qed.

Lemma hfind_happend_other h k v q : beq q k = false -> hfind (happend h k v) q = hfind h q.
Proof.
  intros N. induction h as [|[k' vs] h IH]; cbn [happend hfind].
  - now rewrite N.
  - destruct (beq k k') eqn:E; cbn [hfind].
    + apply beq_eq in E. subst k'. now rewrite N.
    + destruct (beq q k'); auto.
Qed.

(* ------------------------------------------------------------------ *)
(** * the header map of a list of lines *)

Lemma wf_fold ls : forall h, wf_hdr h = true ->
  wf_hdr (fold_left (fun h l => happend h (line_key l) (line_value l)) ls h) = true.
Proof.
  induction ls as [|l ls IH]; intros h W; cbn [fold_left]; auto.
  apply IH. now apply wf_happend.
Qed.

(* whatever lines a client writes -- empty values, blank values, repeated names -- no key of
   the header map fabio gets is present without a value *)
Theorem lines_wf ls : wf_hdr (parse_lines ls) = true.
Proof. unfold parse_lines. now apply wf_fold. Qed.

Lemma fold_find ls : forall h k,
  hfind (fold_left (fun h l => happend h (line_key l) (line_value l)) ls h) k =
  match hfind h k, values_of k ls with
  | Some vs, xs => Some (vs ++ xs)
  | None, [] => None
  | None, xs => Some xs
  end.
Proof.
  induction ls as [|l ls IH]; intros h k; cbn [fold_left].
  - unfold values_of. cbn [filter map]. destruct (hfind h k); [now rewrite app_nil_r|reflexivity].
  - rewrite IH. unfold values_of. cbn [filter].
    destruct (beq k (line_key l)) eqn:E.
    + apply beq_eq in E. subst k. rewrite hfind_happend_same. cbn [map].
      destruct (hfind h (line_key l)) as [vs|].
      * now rewrite <- app_assoc.
      * reflexivity.
    + rewrite hfind_happend_other by exact E. reflexivity.
Qed.

(* the values under a key are the trimmed values of exactly the lines with that canonical
   name, in the order of the lines (and the key is absent when there is no such line) *)
Theorem lines_values ls k :
  hfind (parse_lines ls) k = match values_of k ls with [] => None | xs => Some xs end.
Proof. unfold parse_lines. rewrite fold_find. reflexivity. Qed.

(* ------------------------------------------------------------------ *)
(** * the upstream's end of the wire *)

Lemma serve_up_wf cfg t uuid r up sts :
  serve cfg t uuid r = Ok (up, sts) -> wf_hdr (r_hdr r) = true -> wf_hdr up = true.
Proof.
  intros S W.
  apply serve_inv in S as (peer & h & P & A & -> & _).
  apply add_headers_ok in A as (peer' & _ & ->).
  assert (Wh : wf_hdr (upto10 cfg (t_strip t) (req_with_reqid cfg uuid r) peer' (r_hdr (req_with_reqid cfg uuid r))) = true).
  { apply wf_upto10. cbn [req_with_reqid r_hdr]. apply wf_cset. exact W. }
  destruct (takes_ws_path _).
  - now rewrite wire_id.
  - unfold rp_out. apply wf_xff_append. unfold rp_strip. now apply wf_hdel_all.
Qed.

(* for a header map without the nil marker nothing is lost between the map handed to the
   transport / websocket handler and the lines the upstream reads *)
Lemma serve_wire_eq cfg t uuid r :
  wf_hdr (r_hdr r) = true -> serve_wire cfg t uuid r = serve cfg t uuid r.
Proof.
  intros W. unfold serve_wire.
  destruct (serve cfg t uuid r) as [[up sts]| |] eqn:S; cbn [bind fst snd]; auto.
  rewrite wire_id; [reflexivity|]. exact (serve_up_wf _ _ _ _ _ _ S W).
Qed.

Lemma serve_lines_eq cfg t uuid r ls :
  serve_lines cfg t uuid r ls = serve cfg t uuid (req_of_lines r ls).
Proof. unfold serve_lines. apply serve_wire_eq. cbn [req_of_lines r_hdr]. apply lines_wf. Qed.

(* The peer is the last element of the X-Forwarded-For line the upstream reads, for ALL lists
   of header lines the client wrote (no [wf_hdr] hypothesis: [lines_wf] discharges it). *)
Theorem lines_xff_last_is_peer cfg t uuid r ls peer up sts :
  serve_lines cfg t uuid r ls = Ok (up, sts) -> r_peer r = Some peer ->
  off K_XFF (c_tlsheader cfg) ->
  off K_UPGRADE (c_clientip cfg) -> off K_UPGRADE (c_tlsheader cfg) -> off K_UPGRADE (c_reqid cfg) ->
  cl_xff up peer = true.
Proof.
  intros S P T1 C2 T2 R2. rewrite serve_lines_eq in S.
  apply (xff_last_is_peer cfg t uuid (req_of_lines r ls) peer up sts S); auto.
  cbn [req_of_lines r_hdr]. apply lines_wf.
Qed.

(* every clause, at the upstream's end of the wire, for all header lines outside regions 5 / 6 *)
Theorem lines_clauses_on_domain cfg t uuid r ls peer up sts :
  cfg_sane cfg = true -> no_region (parse_lines ls) = true ->
  serve_lines cfg t uuid r ls = Ok (up, sts) -> r_peer r = Some peer ->
  all_hold (clauses cfg (parse_lines ls) peer (r_host r) (local_port (r_host r) (is_tls r)) (is_tls r) true up) = true.
Proof.
  intros SANE NR S P. rewrite serve_lines_eq in S.
  exact (serve_clauses_on_domain cfg t uuid (req_of_lines r ls) peer up sts SANE (lines_wf ls) NR S P).
Qed.

(* non-vacuity, and the input class itself: a client whose only X-Forwarded-For lines are an
   empty and a blank one, on the ReverseProxy path and on the websocket path *)
Theorem lines_blank_xff_nonvacuous :
  let ls := [(bs "x-forwarded-for", []); (bs "Accept", bs "*/*"); (bs "X-FORWARDED-FOR", bs "  ")] in
  let lsw := ls ++ [(bs "upgrade", bs "websocket"); (bs "Connection", bs " Upgrade")] in
  only_blank_xff ls = true /\ only_blank_xff lsw = true /\
  hfind (parse_lines ls) K_XFF = Some [[]; []] /\
  exists up sts upw stsw,
    serve_lines ex_cfg (ex_tgt []) [] (ex_req None []) ls = Ok (up, sts) /\
    hfind up K_XFF = Some [bs ", , 1.2.3.4"] /\ cl_xff up ex_peer = true /\
    serve_lines ex_cfg (ex_tgt []) [] (ex_req None []) lsw = Ok (upw, stsw) /\
    takes_ws_path upw = true /\
    hfind upw K_XFF = Some [bs ", , 1.2.3.4"] /\ cl_xff upw ex_peer = true /\
    all_hold (clauses ex_cfg (parse_lines ls) ex_peer (bs "example.com") (spec_port (bs "example.com") false) false true up) = true.
Proof.
  cbv zeta. repeat (split; [vm_compute; reflexivity|]).
  do 4 eexists. repeat (split; [vm_compute; reflexivity|]). vm_compute. reflexivity.
Qed.

(* why the hypothesis matters: a header map that carries the nil marker under X-Forwarded-For
   (no list of header lines produces one -- [lines_wf]) hides the peer from the upstream on both
   paths: no X-Forwarded-For line is written at all *)
Theorem xff_nil_marker_refuted :
  exists cfg t uuid r rw up sts upw stsw,
    cfg_sane cfg = true /\ wf_hdr (r_hdr r) = false /\ wf_hdr (r_hdr rw) = false /\
    hfind (r_hdr r) K_XFF = Some [] /\ hfind (r_hdr rw) K_XFF = Some [] /\
    serve_wire cfg t uuid r = Ok (up, sts) /\ hfind up K_XFF = None /\ cl_xff up ex_peer = false /\
    serve_wire cfg t uuid rw = Ok (upw, stsw) /\ takes_ws_path upw = true /\
    hfind upw K_XFF = None /\ cl_xff upw ex_peer = false.
Proof.
  exists ex_cfg, (ex_tgt []), [], (ex_req None [(K_XFF, [])]),
         (ex_req None [(K_UPGRADE, [bs "websocket"]); (K_CONN, [bs "Upgrade"]); (K_XFF, [])]).
  do 4 eexists. repeat (split; [vm_compute; reflexivity|]). vm_compute. reflexivity.
Qed.
