(** Proofs about the ring fill (Model/Ring.v): the probe loop is the single scan
    ([probe_scan_eq]), the fill terminates and never crashes whenever the ring
    has room ([fill_all_spec]), and the resulting ring holds target i in exactly
    n_i slots, with no empty slot ([ring_of_counts_spec]), for every vector of
    non-negative slot counts and every arrangement the unstable sort may leave. *)
From Coq Require Import List ZArith NArith Bool Lia Permutation.
From Fabio Require Import Lib.Outcome Model.Weigh Model.Ring.
Import ListNotations.
Local Open Scope outcome_scope.

(* ---------- list helpers ---------- *)
Lemma nth_error_skipn_add {X} (l : list X) n j : nth_error (skipn n l) j = nth_error l (n + j).
Proof.
  revert l; induction n as [|n IH]; intros l; [reflexivity|].
  destruct l as [|x l]; cbn [skipn Nat.add nth_error]; [destruct j; reflexivity|apply IH].
Qed.

Lemma nth_error_firstn_lt {X} (l : list X) n j : j < n -> nth_error (firstn n l) j = nth_error l j.
Proof.
  revert l j; induction n as [|n IH]; intros l j Hj; [lia|].
  destruct l as [|x l]; [destruct j; reflexivity|].
  destruct j as [|j]; cbn [firstn nth_error]; [reflexivity|apply IH; lia].
Qed.

Lemma skipn_cons_inv {X} (l : list X) n x rest :
  skipn n l = x :: rest -> nth_error l n = Some x /\ skipn (S n) l = rest /\ n < length l.
Proof.
  revert l; induction n as [|n IH]; intros l H.
  - destruct l as [|y l]; cbn [skipn] in H; [discriminate|]. injection H as -> ->.
    cbn [nth_error skipn length]. repeat split; lia.
  - destruct l as [|y l]; cbn [skipn] in H; [discriminate|].
    destruct (IH l H) as (H1 & H2 & H3). cbn [nth_error length]. repeat split; [exact H1|exact H2|lia].
Qed.

Lemma skipn_nil_inv {X} (l : list X) n : skipn n l = [] -> length l <= n.
Proof.
  revert l; induction n as [|n IH]; intros l H.
  - destruct l; cbn [skipn] in H; [cbn; lia|discriminate].
  - destruct l as [|y l]; cbn [skipn length] in *; [lia|]. specialize (IH l H). lia.
Qed.

Lemma length_set_nth {X} (l : list X) k x : length (set_nth l k x) = length l.
Proof.
  revert k; induction l as [|y l IH]; intros k; [reflexivity|].
  destruct k; cbn [set_nth length]; [reflexivity|now rewrite IH].
Qed.

(* ---------- occupancy ---------- *)
Lemma slot_eqb_refl s : slot_eqb s s = true.
Proof. destruct s as [x|]; cbn; [apply Nat.eqb_refl|reflexivity]. Qed.

Lemma slot_eqb_eq a b : slot_eqb a b = true <-> a = b.
Proof.
  destruct a as [x|], b as [y|]; cbn; split; intros H; try discriminate; try reflexivity.
  - apply Nat.eqb_eq in H; now subst.
  - injection H as ->; apply Nat.eqb_refl.
Qed.

Lemma occupancy_cons t x r :
  occupancy t (x :: r) = (if slot_eqb t x then 1 else 0) + occupancy t r.
Proof. unfold occupancy; cbn [filter]. destruct (slot_eqb t x); reflexivity. Qed.

Lemma occupancy_nil t : occupancy t [] = 0.
Proof. reflexivity. Qed.

Lemma occupancy_app t a b : occupancy t (a ++ b) = occupancy t a + occupancy t b.
Proof. unfold occupancy. now rewrite filter_app, app_length. Qed.

Lemma occupancy_repeat_none n : occupancy None (repeat None n) = n.
Proof. induction n as [|n IH]; [reflexivity|]. cbn [repeat]. rewrite occupancy_cons, IH. reflexivity. Qed.

Lemma occupancy_repeat_some i n : occupancy (Some i) (repeat None n) = 0.
Proof. induction n as [|n IH]; [reflexivity|]. cbn [repeat]. rewrite occupancy_cons, IH. reflexivity. Qed.

(* replacing one element moves one unit of occupancy from the old to the new value *)
Lemma occupancy_set_nth t r p old new :
  nth_error r p = Some old ->
  occupancy t (set_nth r p new) + (if slot_eqb t old then 1 else 0)
  = occupancy t r + (if slot_eqb t new then 1 else 0).
Proof.
  revert p; induction r as [|y r IH]; intros p H; [destruct p; discriminate|].
  destruct p as [|p]; cbn [nth_error set_nth] in *.
  - injection H as ->. rewrite !occupancy_cons. lia.
  - rewrite !occupancy_cons. specialize (IH p H). lia.
Qed.

Lemma occupancy_none_zero r : occupancy None r = 0 -> forall x, In x r -> x <> None.
Proof.
  induction r as [|y r IH]; intros H x Hin; [destruct Hin|].
  rewrite occupancy_cons in H. destruct Hin as [->|Hin].
  - intros ->. cbn in H. lia.
  - apply IH; [lia|exact Hin].
Qed.

Lemma all_occupied_occupancy r : (forall x, In x r -> x <> None) -> occupancy None r = 0.
Proof.
  induction r as [|y r IH]; intros H; [reflexivity|].
  rewrite occupancy_cons, IH by (intros x Hx; apply H; now right).
  destruct y as [i|]; [reflexivity|]. exfalso; apply (H None); [now left|reflexivity].
Qed.

(* ---------- find_none ---------- *)
Lemma find_none_some l j :
  find_none l = Some j -> nth_error l j = Some None /\ j < length l.
Proof.
  revert j; induction l as [|x l IH]; intros j H; [discriminate|].
  destruct x as [i|]; cbn [find_none] in H.
  - destruct (find_none l) as [j'|] eqn:E; [|discriminate]. injection H as <-.
    destruct (IH j' eq_refl) as [H1 H2]. cbn [nth_error length]. split; [exact H1|lia].
  - injection H as <-. cbn [nth_error length]. split; [reflexivity|lia].
Qed.

Lemma find_none_none l : find_none l = None -> forall x, In x l -> x <> None.
Proof.
  induction l as [|y l IH]; intros H x Hin; [destruct Hin|].
  destruct y as [i|]; cbn [find_none] in H; [|discriminate].
  destruct (find_none l) eqn:E; [discriminate|].
  destruct Hin as [<-|Hin]; [discriminate|now apply IH].
Qed.

Lemma find_none_app_l a b j : find_none a = Some j -> find_none (a ++ b) = Some j.
Proof.
  revert j; induction a as [|x a IH]; intros j H; [discriminate|].
  destruct x as [i|]; cbn [find_none app] in *; [|exact H].
  destruct (find_none a) as [j'|] eqn:E; [|discriminate]. now rewrite (IH j' eq_refl).
Qed.

(* ---------- the probe loop is the scan ---------- *)
Lemma probe_linear r used : length r = used ->
  forall j next fuel, find_none (skipn next r) = Some j -> j < fuel ->
  probe fuel r used next = Ok (next + j).
Proof.
  intros Hlen j; induction j as [|j IH]; intros next fuel Hf Hfuel.
  - destruct fuel as [|f]; [lia|].
    destruct (skipn next r) as [|x rest] eqn:Es; [discriminate|].
    destruct (skipn_cons_inv _ _ _ _ Es) as (Hn & _ & _).
    destruct x as [i|]; cbn [find_none] in Hf.
    + destruct (find_none rest); discriminate.
    + cbn [probe]. rewrite Hn. now rewrite Nat.add_0_r.
  - destruct fuel as [|f]; [lia|].
    destruct (skipn next r) as [|x rest] eqn:Es; [discriminate|].
    destruct (skipn_cons_inv _ _ _ _ Es) as (Hn & Hs & Hlt).
    destruct x as [i|]; cbn [find_none] in Hf; [|discriminate].
    destruct (find_none rest) as [j'|] eqn:Er; [|discriminate]. injection Hf as ->.
    assert (Hrest : S next < length r).
    { destruct (find_none_some _ _ Er) as [_ Hl]. rewrite <- Hs in Hl.
      rewrite skipn_length in Hl. lia. }
    cbn [probe]. rewrite Hn.
    destruct (Nat.eqb used 0) eqn:E0; [apply Nat.eqb_eq in E0; lia|].
    replace ((next + 1) mod used) with (S next) by (rewrite Nat.mod_small; lia).
    rewrite (IH (S next) f); [f_equal; lia| now rewrite Hs | lia].
Qed.

Lemma probe_wrap r used : length r = used ->
  forall d next fuel, used - next = d -> next < used ->
  find_none (skipn next r) = None -> d <= fuel ->
  probe fuel r used next = probe (fuel - d) r used 0.
Proof.
  intros Hlen d; induction d as [|d IH]; intros next fuel Hd Hlt Hf Hfuel; [lia|].
  destruct fuel as [|f]; [lia|].
  destruct (skipn next r) as [|x rest] eqn:Es.
  { apply skipn_nil_inv in Es. lia. }
  destruct (skipn_cons_inv _ _ _ _ Es) as (Hn & Hs & _).
  destruct x as [i|]; cbn [find_none] in Hf; [|discriminate].
  destruct (find_none rest) eqn:Er; [discriminate|].
  cbn [probe]. rewrite Hn.
  destruct (Nat.eqb used 0) eqn:E0; [apply Nat.eqb_eq in E0; lia|].
  destruct (Nat.eq_dec (S next) used) as [He|Hne].
  - replace ((next + 1) mod used) with 0 by (replace (next + 1) with used by lia; now rewrite Nat.mod_same by lia).
    f_equal. lia.
  - replace ((next + 1) mod used) with (S next) by (rewrite Nat.mod_small; lia).
    rewrite (IH (S next) f); [f_equal; lia|lia|lia|now rewrite Hs|lia].
Qed.

Lemma probe_all_occupied r used : length r = used -> (forall x, In x r -> x <> None) ->
  forall fuel next, next < used -> probe fuel r used next = Err diverges.
Proof.
  intros Hlen Hocc fuel; induction fuel as [|f IH]; intros next Hlt; [reflexivity|].
  cbn [probe]. destruct (nth_error r next) as [x|] eqn:En.
  - destruct x as [i|]; [|exfalso; apply (Hocc None); [eapply nth_error_In; eauto|reflexivity]].
    destruct (Nat.eqb used 0) eqn:E0; [apply Nat.eqb_eq in E0; lia|].
    apply IH. apply Nat.mod_upper_bound. lia.
  - apply nth_error_None in En. lia.
Qed.

Theorem probe_scan_eq r next :
  probe (S (length r)) r (length r) next = probe_scan r next.
Proof.
  unfold probe_scan. set (used := length r).
  destruct (skipn next r) as [|x rest] eqn:Es.
  - apply skipn_nil_inv in Es. cbn [probe].
    destruct (nth_error r next) eqn:En; [|reflexivity].
    assert (next < length r) by (apply nth_error_Some; congruence). lia.
  - destruct (skipn_cons_inv _ _ _ _ Es) as (_ & _ & Hlt). rewrite <- Es.
    destruct (find_none (skipn next r)) as [j|] eqn:Ef.
    + apply probe_linear; [reflexivity|exact Ef|].
      destruct (find_none_some _ _ Ef) as [_ Hl]. rewrite skipn_length in Hl. unfold used. lia.
    + rewrite (probe_wrap r used eq_refl (used - next) next (S used) eq_refl Hlt Ef) by lia.
      replace (S used - (used - next)) with (S next) by lia.
      destruct (find_none (firstn next r)) as [j|] eqn:Eh.
      * assert (Hj : j < next).
        { destruct (find_none_some _ _ Eh) as [_ Hl]. rewrite firstn_length in Hl. lia. }
        change (Ok j) with (@Ok nat (0 + j)).
        apply probe_linear; [reflexivity| |lia].
        cbn [skipn]. rewrite <- (firstn_skipn next r). now apply find_none_app_l.
      * apply probe_all_occupied; [reflexivity| |unfold used; lia].
        intros y Hy. rewrite <- (firstn_skipn next r) in Hy. apply in_app_or in Hy.
        destruct Hy as [Hy|Hy]; [exact (find_none_none _ Eh y Hy)|exact (find_none_none _ Ef y Hy)].
Qed.

(** the probe's fuel [length r + 1] is never the reason for its answer: it reports
    divergence exactly when the ring is full, i.e. when Go's loop would spin forever *)
Theorem probe_full_diverges r next :
  next < length r -> occupancy None r = 0 ->
  forall fuel, probe fuel r (length r) next = Err diverges.
Proof.
  intros Hlt Hocc fuel. apply probe_all_occupied; [reflexivity| |exact Hlt].
  now apply occupancy_none_zero.
Qed.

Lemma probe_scan_ok r next :
  next < length r -> 0 < occupancy None r ->
  exists p, probe_scan r next = Ok p /\ nth_error r p = Some None.
Proof.
  intros Hlt Hocc. unfold probe_scan.
  destruct (skipn next r) as [|x rest] eqn:Es; [apply skipn_nil_inv in Es; lia|].
  rewrite <- Es.
  destruct (find_none (skipn next r)) as [j|] eqn:Ef.
  - exists (next + j). split; [reflexivity|].
    destruct (find_none_some _ _ Ef) as [H _]. now rewrite nth_error_skipn_add in H.
  - destruct (find_none (firstn next r)) as [j|] eqn:Eh.
    + exists j. split; [reflexivity|].
      destruct (find_none_some _ _ Eh) as [H Hl]. rewrite firstn_length in Hl.
      rewrite nth_error_firstn_lt in H by lia. exact H.
    + exfalso. assert (occupancy None r = 0); [|lia].
      apply all_occupied_occupancy. intros y Hy.
      rewrite <- (firstn_skipn next r) in Hy. apply in_app_or in Hy.
      destruct Hy as [Hy|Hy]; [exact (find_none_none _ Eh y Hy)|exact (find_none_none _ Ef y Hy)].
Qed.

(* ---------- placing one target ---------- *)
Lemma place_scan_eq k t step r next :
  place k t step (length r) r next = place_scan k t step (length r) r next.
Proof.
  revert r next; induction k as [|k IH]; intros r next; [reflexivity|].
  cbn [place place_scan]. rewrite probe_scan_eq.
  destruct (probe_scan r next) as [p| |]; cbn [bind]; try reflexivity.
  destruct (Nat.eqb (length r) 0); [reflexivity|].
  rewrite <- (length_set_nth r p (Some t)) at 1 3. apply IH.
Qed.

Lemma place_scan_spec t step used :
  0 < used ->
  forall k r next, length r = used -> k <= occupancy None r -> next < used ->
  exists r', place_scan k t step used r next = Ok r' /\ length r' = used
    /\ occupancy None r' + k = occupancy None r
    /\ occupancy (Some t) r' = occupancy (Some t) r + k
    /\ (forall i, i <> t -> occupancy (Some i) r' = occupancy (Some i) r).
Proof.
  intros Hu k; induction k as [|k IH]; intros r next Hlen Hk Hnext.
  - exists r. cbn [place_scan]. repeat split; lia.
  - destruct (probe_scan_ok r next) as (p & Hp & Hnone); [lia|lia|].
    cbn [place_scan]. rewrite Hp. cbn [bind].
    destruct (Nat.eqb used 0) eqn:E0; [apply Nat.eqb_eq in E0; lia|].
    pose proof (occupancy_set_nth None r p None (Some t) Hnone) as HoN.
    pose proof (occupancy_set_nth (Some t) r p None (Some t) Hnone) as HoT.
    cbn [slot_eqb] in HoN, HoT. rewrite Nat.eqb_refl in HoT.
    destruct (IH (set_nth r p (Some t)) ((p + step) mod used)) as (r' & Hr' & Hl' & HN & HT & HO).
    + now rewrite length_set_nth.
    + lia.
    + apply Nat.mod_upper_bound; lia.
    + exists r'. split; [exact Hr'|]. split; [exact Hl'|]. split; [lia|]. split; [lia|].
      intros i Hi. rewrite (HO i Hi).
      pose proof (occupancy_set_nth (Some i) r p None (Some t) Hnone) as HoI.
      cbn [slot_eqb] in HoI. destruct (Nat.eqb i t) eqn:E; [apply Nat.eqb_eq in E; congruence|]. lia.
Qed.

(* ---------- all targets ---------- *)
(** slots the fill wants for target [i] / in total: entries with a count <= 0 are skipped *)
Fixpoint placed_for (i : nat) (slots : list (nat * Z)) : nat :=
  match slots with
  | [] => 0
  | (j, n) :: rest => (if (Nat.eqb i j && (0 <? n)%Z)%bool then Z.to_nat n else 0) + placed_for i rest
  end.
Fixpoint placed_total (slots : list (nat * Z)) : nat :=
  match slots with
  | [] => 0
  | (_, n) :: rest => (if (0 <? n)%Z then Z.to_nat n else 0) + placed_total rest
  end.

Lemma place_scan_length k t step used : forall r next r',
  place_scan k t step used r next = Ok r' -> length r' = length r.
Proof.
  induction k as [|k IHk]; intros r next r' E; cbn [place_scan] in E.
  - now injection E as ->.
  - destruct (probe_scan r next) as [p| |]; cbn [bind] in E; try discriminate.
    destruct (Nat.eqb used 0); [discriminate|].
    apply IHk in E. now rewrite length_set_nth in E.
Qed.

Lemma fill_scan_eq slots r : fill_all slots (length r) r = fill_scan slots (length r) r.
Proof.
  revert r; induction slots as [|[i n] rest IH]; intros r; [reflexivity|].
  cbn [fill_all fill_scan]. destruct (n <=? 0)%Z; [apply IH|].
  rewrite place_scan_eq.
  destruct (place_scan (Z.to_nat n) i (Z.to_nat (Z.of_nat (length r) / n)) (length r) r 0) as [r'| |] eqn:E;
    cbn [bind]; try reflexivity.
  assert (Hl : length r' = length r) by (eapply place_scan_length; eauto).
  rewrite <- Hl. apply IH.
Qed.

Theorem fill_scan_spec used : 0 < used ->
  forall slots r, length r = used -> placed_total slots <= occupancy None r ->
  exists r', fill_scan slots used r = Ok r' /\ length r' = used
    /\ occupancy None r' + placed_total slots = occupancy None r
    /\ (forall i, occupancy (Some i) r' = occupancy (Some i) r + placed_for i slots).
Proof.
  intros Hu slots; induction slots as [|[j n] rest IH]; intros r Hlen Hroom.
  - exists r. cbn [fill_scan placed_total placed_for]. repeat split; try lia; intros; lia.
  - cbn [fill_scan placed_total placed_for] in *.
    destruct (n <=? 0)%Z eqn:En.
    + assert (Hz : (0 <? n)%Z = false) by lia. rewrite Hz in *.
      destruct (IH r Hlen) as (r' & H1 & H2 & H3 & H4); [lia|].
      exists r'. repeat split; [exact H1|exact H2|lia|]. intros i. rewrite H4.
      destruct (Nat.eqb i j); cbn [andb]; lia.
    + assert (Hz : (0 <? n)%Z = true) by lia. rewrite Hz in *.
      destruct (place_scan_spec j (Z.to_nat (Z.of_nat used / n)) used Hu (Z.to_nat n) r 0 Hlen)
        as (r1 & Hp & Hl1 & HN1 & HT1 & HO1); [lia|lia|].
      rewrite Hp. cbn [bind].
      destruct (IH r1 Hl1) as (r' & H1 & H2 & H3 & H4); [lia|].
      exists r'. repeat split; [exact H1|exact H2|lia|]. intros i. rewrite H4.
      destruct (Nat.eqb i j) eqn:E; cbn [andb].
      * apply Nat.eqb_eq in E. subst i. lia.
      * apply Nat.eqb_neq in E. rewrite (HO1 i E). lia.
Qed.

(* ---------- permutations of the slot vector ---------- *)
Lemma placed_for_perm i a b : Permutation a b -> placed_for i a = placed_for i b.
Proof.
  induction 1 as [|[j n] a b _ IH|[j n] [j' n'] a|a b c _ IH1 _ IH2]; cbn [placed_for]; lia.
Qed.
Lemma placed_total_perm a b : Permutation a b -> placed_total a = placed_total b.
Proof.
  induction 1 as [|[j n] a b _ IH|[j n] [j' n'] a|a b c _ IH1 _ IH2]; cbn [placed_total]; lia.
Qed.

Definition zsum (l : list Z) : Z := fold_right Z.add 0%Z l.

Lemma placed_total_indexed_gen counts : Forall (fun n => 0 <= n)%Z counts ->
  forall a, Z.of_nat (placed_total (combine (seq a (length counts)) counts)) = zsum counts.
Proof.
  induction 1 as [|n counts Hn _ IH]; intros a; [reflexivity|].
  cbn [length seq combine placed_total zsum fold_right].
  rewrite Nat2Z.inj_add, IH. fold (zsum counts).
  destruct (0 <? n)%Z eqn:E; lia.
Qed.

Lemma placed_for_indexed_gen counts : Forall (fun n => 0 <= n)%Z counts ->
  forall a i, placed_for i (combine (seq a (length counts)) counts)
              = if (Nat.leb a i && Nat.ltb i (a + length counts))%bool
                then Z.to_nat (nth (i - a) counts 0%Z) else 0.
Proof.
  induction 1 as [|n counts Hn _ IH]; intros a i.
  - cbn [length seq combine placed_for]. rewrite Nat.add_0_r.
    destruct (Nat.leb a i) eqn:E1, (Nat.ltb i a) eqn:E2; cbn [andb]; try reflexivity.
    apply Nat.leb_le in E1. apply Nat.ltb_lt in E2. lia.
  - cbn [length seq combine placed_for]. rewrite IH.
    destruct (Nat.eqb i a) eqn:Ei.
    + apply Nat.eqb_eq in Ei. subst i. rewrite Nat.sub_diag. cbn [nth].
      replace (Nat.leb (S a) a) with false by (symmetry; apply Nat.leb_gt; lia).
      replace (Nat.leb a a) with true by (symmetry; apply Nat.leb_le; lia).
      replace (Nat.ltb a (a + S (length counts))) with true by (symmetry; apply Nat.ltb_lt; lia).
      cbn [andb]. destruct (0 <? n)%Z eqn:E; [lia|]. assert (n = 0%Z) by lia. subst n. reflexivity.
    + apply Nat.eqb_neq in Ei. cbn [andb].
      destruct (Nat.leb a i) eqn:E1.
      * apply Nat.leb_le in E1.
        replace (Nat.leb (S a) i) with true by (symmetry; apply Nat.leb_le; lia).
        replace (Nat.ltb i (a + S (length counts))) with (Nat.ltb i (S a + length counts))
          by (f_equal; lia).
        destruct (Nat.ltb i (S a + length counts)); cbn [andb]; [|reflexivity].
        replace (i - a) with (S (i - S a)) by lia. reflexivity.
      * apply Nat.leb_gt in E1.
        replace (Nat.leb (S a) i) with false by (symmetry; apply Nat.leb_gt; lia).
        reflexivity.
Qed.

(* ---------- usedSlots without overflow ---------- *)
Lemma wrap64_id z : (- 2^63 <= z < 2^63)%Z -> wrap64 z = z.
Proof. intros H. unfold wrap64. rewrite Z.mod_small; lia. Qed.

Lemma used_slots_gen counts : Forall (fun n => 0 <= n)%Z counts ->
  forall u, (0 <= u)%Z -> (u + zsum counts < 2^63)%Z ->
  fold_left (fun u n => wrap64 (u + n)) counts u = (u + zsum counts)%Z.
Proof.
  induction 1 as [|n counts Hn Hall IH]; intros u Hu Hb; cbn [fold_left zsum fold_right] in *.
  - lia.
  - fold (zsum counts) in *.
    assert (Hs : (0 <= zsum counts)%Z).
    { clear -Hall. induction Hall; cbn [zsum fold_right]; [lia|]. fold (zsum l). lia. }
    rewrite wrap64_id by lia. rewrite IH; lia.
Qed.

Lemma used_slots_sum counts : Forall (fun n => 0 <= n)%Z counts -> (zsum counts < 2^63)%Z ->
  used_slots counts = zsum counts.
Proof. intros H Hb. unfold used_slots, total_slots. rewrite used_slots_gen; auto; lia. Qed.

Lemma zsum_nonneg counts : Forall (fun n => 0 <= n)%Z counts -> (0 <= zsum counts)%Z.
Proof. induction 1; cbn [zsum fold_right]; [lia|]. fold (zsum l). lia. Qed.

(** fill_terminates + fill_counts: for every vector of non-negative slot counts whose sum
    [make] accepts, and every arrangement [sorted] of the (index, count) pairs, the ring is
    built (no panic, the probe loop always finds a slot), has exactly [sum counts] slots,
    none of them empty, and target i occupies exactly [counts[i]] of them. *)
Theorem ring_of_counts_spec counts sorted :
  Forall (fun n => 0 <= n)%Z counts -> (zsum counts <= 2^45)%Z ->
  Permutation sorted (indexed counts) ->
  exists r, ring_of_counts sorted counts = Ok r
    /\ Z.of_nat (length r) = zsum counts
    /\ occupancy None r = 0
    /\ (forall i, Z.of_nat (occupancy (Some i) r) = nth i counts 0%Z).
Proof.
  intros Hnn Hb Hperm. unfold ring_of_counts.
  rewrite used_slots_sum by (auto; lia).
  pose proof (zsum_nonneg counts Hnn) as Hs.
  unfold make_ring.
  replace ((zsum counts <? 0) || (2 ^ 45 <? zsum counts))%Z with false
    by (symmetry; apply orb_false_iff; split; lia).
  cbn [bind]. set (U := Z.to_nat (zsum counts)).
  assert (HlenU : length (repeat (@None nat) U) = U) by apply repeat_length.
  assert (Heq : fill_all sorted U (repeat None U) = fill_scan sorted U (repeat None U)).
  { pose proof (fill_scan_eq sorted (repeat None U)) as H. rewrite HlenU in H. exact H. }
  rewrite Heq. clear Heq.
  assert (Htot : placed_total sorted = U).
  { rewrite (placed_total_perm _ _ Hperm). unfold indexed, U.
    rewrite <- (placed_total_indexed_gen counts Hnn 0). now rewrite Nat2Z.id. }
  assert (Hfor : forall i, Z.of_nat (placed_for i sorted) = nth i counts 0%Z).
  { intros i. rewrite (placed_for_perm i _ _ Hperm). unfold indexed.
    rewrite (placed_for_indexed_gen counts Hnn 0 i). cbn [Nat.leb andb Nat.add]. rewrite Nat.sub_0_r.
    destruct (Nat.ltb i (length counts)) eqn:E.
    - apply Nat.ltb_lt in E. rewrite Z2Nat.id; [reflexivity|].
      rewrite Forall_forall in Hnn. apply Hnn. now apply nth_In.
    - apply Nat.ltb_ge in E. now rewrite nth_overflow. }
  destruct (Nat.eq_dec U 0) as [HU0|HUpos].
  - (* nothing to place: every count is zero and the fill leaves the empty ring *)
    rewrite HU0. cbn [repeat].
    assert (Hskip : forall slots, placed_total slots = 0 -> fill_scan slots 0 [] = Ok []).
    { induction slots as [|[j n] rest IH]; intros H0; [reflexivity|].
      cbn [fill_scan placed_total] in *. destruct (n <=? 0)%Z eqn:En; [apply IH; lia|].
      assert ((0 <? n)%Z = true) as Hz by lia. rewrite Hz in H0. lia. }
    rewrite Hskip by lia. exists []. repeat split; cbn [length]; [lia|].
    intros i. cbn. rewrite <- Hfor.
    assert (placed_for i sorted <= placed_total sorted); [|lia].
    clear. induction sorted as [|[j n] rest IH]; cbn [placed_for placed_total]; [lia|].
    destruct (Nat.eqb i j && (0 <? n)%Z)%bool eqn:E.
    + apply andb_prop in E. destruct E as [_ E]. rewrite E. lia.
    + destruct (0 <? n)%Z; lia.
  - destruct (fill_scan_spec U ltac:(lia) sorted (repeat None U) HlenU) as (r & H1 & H2 & H3 & H4).
    { rewrite occupancy_repeat_none. lia. }
    exists r. rewrite occupancy_repeat_none in H3.
    repeat split; [exact H1|unfold U in H2; lia|lia|].
    intros i. rewrite H4, occupancy_repeat_some. cbn [Nat.add]. apply Hfor.
Qed.

(** [stable_order] is one admissible arrangement *)
Lemma insert_slot_perm x l : Permutation (insert_slot x l) (x :: l).
Proof.
  induction l as [|y l IH]; cbn [insert_slot]; [reflexivity|].
  destruct (snd x <=? snd y)%Z; [reflexivity|].
  rewrite IH. apply perm_swap.
Qed.
Lemma stable_order_perm l : Permutation (stable_order l) l.
Proof.
  induction l as [|x l IH]; cbn [stable_order fold_right]; [reflexivity|].
  fold (stable_order l). rewrite insert_slot_perm. now constructor.
Qed.

(** the scan formulation evaluated by the correspondence check is the model *)
Theorem ring_of_counts_scan_eq sorted counts :
  ring_of_counts_scan sorted counts = ring_of_counts sorted counts.
Proof.
  unfold ring_of_counts_scan, ring_of_counts, make_ring.
  destruct ((used_slots counts <? 0) || (2 ^ 45 <? used_slots counts))%Z; [reflexivity|].
  cbn [bind]. set (U := Z.to_nat (used_slots counts)).
  assert (HlenU : length (repeat (@None nat) U) = U) by apply repeat_length.
  pose proof (fill_scan_eq sorted (repeat None U)) as H. rewrite HlenU in H. symmetry. exact H.
Qed.


(* ---------- the crash status without building the ring ---------- *)
Definition zpos_sum (l : list Z) : Z :=
  fold_right (fun n s => ((if (0 <? n)%Z then n else 0) + s)%Z) 0%Z l.

Lemma wanted_slots_gen counts : forall p,
  fold_left (fun p n => if (n <=? 0)%Z then p else (p + n)%Z) counts p = (p + zpos_sum counts)%Z.
Proof.
  induction counts as [|n counts IH]; intros p; cbn [fold_left zpos_sum fold_right]; [lia|].
  fold (zpos_sum counts). rewrite IH.
  destruct (n <=? 0)%Z eqn:E1, (0 <? n)%Z eqn:E2; lia.
Qed.

Lemma placed_total_indexed_any counts : forall a,
  Z.of_nat (placed_total (combine (seq a (length counts)) counts)) = zpos_sum counts.
Proof.
  induction counts as [|n counts IH]; intros a; [reflexivity|].
  cbn [length seq combine placed_total zpos_sum fold_right]. fold (zpos_sum counts).
  rewrite Nat2Z.inj_add, IH. destruct (0 <? n)%Z eqn:E; [rewrite Z2Nat.id by lia|]; lia.
Qed.

Lemma probe_scan_full r next : next < length r -> occupancy None r = 0 -> probe_scan r next = Err diverges.
Proof. intros H1 H2. rewrite <- probe_scan_eq. now apply probe_full_diverges. Qed.

Lemma place_scan_overflow t step used : 0 < used ->
  forall k r next, length r = used -> occupancy None r < k -> next < used ->
  place_scan k t step used r next = Err diverges.
Proof.
  intros Hu k; induction k as [|k IH]; intros r next Hlen Hk Hnext; [lia|].
  cbn [place_scan]. destruct (Nat.eq_dec (occupancy None r) 0) as [H0|Hpos].
  - rewrite probe_scan_full by lia. reflexivity.
  - destruct (probe_scan_ok r next) as (p & Hp & Hnone); [lia|lia|].
    rewrite Hp. cbn [bind].
    destruct (Nat.eqb used 0) eqn:E0; [apply Nat.eqb_eq in E0; lia|].
    pose proof (occupancy_set_nth None r p None (Some t) Hnone) as HoN. cbn [slot_eqb] in HoN.
    apply IH; [now rewrite length_set_nth|lia|apply Nat.mod_upper_bound; lia].
Qed.

Lemma fill_scan_overflow used : 0 < used ->
  forall slots r, length r = used -> occupancy None r < placed_total slots ->
  fill_scan slots used r = Err diverges.
Proof.
  intros Hu slots; induction slots as [|[j n] rest IH]; intros r Hlen Hroom; cbn [placed_total] in Hroom; [lia|].
  cbn [fill_scan]. destruct (n <=? 0)%Z eqn:En.
  - assert (Hz : (0 <? n)%Z = false) by lia. rewrite Hz in Hroom. apply IH; [exact Hlen|lia].
  - assert (Hz : (0 <? n)%Z = true) by lia. rewrite Hz in Hroom.
    destruct (Nat.lt_ge_cases (occupancy None r) (Z.to_nat n)) as [Hlt|Hge].
    + rewrite (place_scan_overflow j _ used Hu (Z.to_nat n) r 0 Hlen Hlt Hu). reflexivity.
    + destruct (place_scan_spec j (Z.to_nat (Z.of_nat used / n)) used Hu (Z.to_nat n) r 0 Hlen Hge Hu)
        as (r1 & Hp & Hl1 & HN1 & _). rewrite Hp. cbn [bind]. apply IH; [exact Hl1|lia].
Qed.

Lemma fill_scan_nothing slots used r : placed_total slots = 0 -> fill_scan slots used r = Ok r.
Proof.
  induction slots as [|[j n] rest IH]; intros H0; [reflexivity|].
  cbn [fill_scan placed_total] in *. destruct (n <=? 0)%Z eqn:En; [apply IH; lia|].
  assert ((0 <? n)%Z = true) as Hz by lia. rewrite Hz in H0. lia.
Qed.

Lemma fill_scan_empty_panic slots : 0 < placed_total slots -> fill_scan slots 0 [] = Panic.
Proof.
  induction slots as [|[j n] rest IH]; intros H0; cbn [placed_total] in H0; [lia|].
  cbn [fill_scan]. destruct (n <=? 0)%Z eqn:En.
  - assert (Hz : (0 <? n)%Z = false) by lia. rewrite Hz in H0. apply IH. lia.
  - destruct (Z.to_nat n) as [|k] eqn:Ek; [lia|]. reflexivity.
Qed.

(** [ring_status] is the crash status of the ring construction: for EVERY vector of
    64-bit slot counts (negative ones and wrapped sums included) and every arrangement
    the sort may leave, [ring_of_counts] panics / never terminates / succeeds exactly as
    [ring_status] says. *)
Theorem ring_status_correct counts sorted :
  Permutation sorted (indexed counts) ->
  status_of (ring_of_counts sorted counts) = ring_status counts.
Proof.
  intros Hperm. rewrite <- ring_of_counts_scan_eq.
  unfold ring_of_counts_scan, ring_status, make_ring.
  destruct ((used_slots counts <? 0) || (2 ^ 45 <? used_slots counts))%Z eqn:Erange; [reflexivity|].
  apply orb_false_iff in Erange. destruct Erange as [Eneg Ebig].
  cbn [bind]. set (U := Z.to_nat (used_slots counts)).
  assert (HU : Z.of_nat U = used_slots counts) by (unfold U; lia).
  assert (Hp : wanted_slots counts = Z.of_nat (placed_total sorted)).
  { unfold wanted_slots. rewrite wanted_slots_gen. rewrite (placed_total_perm _ _ Hperm).
    unfold indexed. rewrite placed_total_indexed_any. lia. }
  rewrite Hp.
  assert (HlenU : length (repeat (@None nat) U) = U) by apply repeat_length.
  destruct (Z.of_nat (placed_total sorted) =? 0)%Z eqn:E0.
  - rewrite fill_scan_nothing by lia. reflexivity.
  - destruct (used_slots counts =? 0)%Z eqn:E1.
    + assert (U = 0) by lia. replace U with 0 by lia. cbn [repeat].
      rewrite fill_scan_empty_panic by lia. reflexivity.
    + destruct (used_slots counts <? Z.of_nat (placed_total sorted))%Z eqn:E2.
      * rewrite (fill_scan_overflow U ltac:(lia) sorted (repeat None U) HlenU); [reflexivity|].
        rewrite occupancy_repeat_none. lia.
      * destruct (fill_scan_spec U ltac:(lia) sorted (repeat None U) HlenU) as (r & Hr & _).
        { rewrite occupancy_repeat_none. lia. }
        rewrite Hr. reflexivity.
Qed.

(* non-vacuity: a concrete vector meets the hypotheses, in two arrangements *)
Example ring_of_counts_nonvacuous :
  ring_of_counts (stable_order (indexed [3; 0; 2; 1]%Z)) [3; 0; 2; 1]%Z
  = Ok [Some 3; Some 2; Some 0; Some 0; Some 2; Some 0].
Proof. vm_compute. reflexivity. Qed.
