(** C08: what the property says about requests that pass the routing stage (Model/HeadersRouted.v):
    whatever the table decides, an upstream that is contacted is told the truth about THE CLIENT'S
    request; nothing is forwarded on any other decision. *)
From Coq Require Import String List NArith ZArith Bool.
From Fabio Require Import Lib.Outcome Lib.Bytes Model.Headers Model.HeadersSpec Model.HeaderLines
     Model.HeadersRouted Proofs.Headers Proofs.HeaderLines.
Import ListNotations.
Local Open Scope N_scope.

Lemma routed_inv {A} d (k : target -> outcome A) x :
  routed d k = Ok x -> exists t, d = DProxy t /\ k t = Ok x.
Proof. destruct d; cbn [routed]; try discriminate. intros H. eauto. Qed.

(* only a proxy decision reaches an upstream, and then with the target the table picked *)
Theorem routed_forwards_only_proxy cfg d uuid r x :
  serve_routed cfg d uuid r = Ok x -> exists t, d = DProxy t /\ serve cfg t uuid r = Ok x.
Proof. apply routed_inv. Qed.

Theorem routed_not_forwarded cfg d uuid r :
  is_proxy d = false -> serve_routed cfg d uuid r = Err E_NOT_FORWARDED.
Proof. destruct d; cbn [is_proxy]; try discriminate; reflexivity. Qed.

Theorem routed_xff_last_is_peer cfg d uuid r peer up sts :
  serve_routed cfg d uuid r = Ok (up, sts) -> r_peer r = Some peer -> wf_hdr (r_hdr r) = true ->
  off K_XFF (c_tlsheader cfg) ->
  off K_UPGRADE (c_clientip cfg) -> off K_UPGRADE (c_tlsheader cfg) -> off K_UPGRADE (c_reqid cfg) ->
  cl_xff up peer = true.
Proof.
  intros S. apply routed_inv in S as (t & _ & S).
  exact (xff_last_is_peer cfg t uuid r peer up sts S).
Qed.

Theorem routed_clauses_on_domain cfg d uuid r peer up sts :
  cfg_sane cfg = true -> wf_hdr (r_hdr r) = true -> no_region (r_hdr r) = true ->
  serve_routed cfg d uuid r = Ok (up, sts) -> r_peer r = Some peer ->
  all_hold (clauses cfg (r_hdr r) peer (r_host r) (local_port (r_host r) (is_tls r)) (is_tls r) true up) = true.
Proof.
  intros SA W NR S P. apply routed_inv in S as (t & _ & S).
  exact (serve_clauses_on_domain cfg t uuid r peer up sts SA W NR S P).
Qed.

Theorem routed_host_port_truthful cfg d uuid r peer up sts :
  cfg_sane cfg = true -> wf_hdr (r_hdr r) = true ->
  serve_routed cfg d uuid r = Ok (up, sts) -> r_peer r = Some peer ->
  (hget (r_hdr r) K_XFH = [] -> r_host r <> [] -> hfind up K_XFH = Some [r_host r]) /\
  (hget (r_hdr r) K_XFPORT = [] -> hfind up K_XFPORT = Some [local_port (r_host r) (is_tls r)]).
Proof.
  intros SA W S P. apply routed_inv in S as (t & _ & S).
  exact (serve_host_port_truthful cfg t uuid r peer up sts SA W S P).
Qed.

Theorem routed_sts_clause cfg d uuid r up sts :
  serve_routed cfg d uuid r = Ok (up, sts) ->
  cl_sts cfg (is_tls r) (match sts with Some v => [v] | None => [] end) = true.
Proof.
  intros S. apply routed_inv in S as (t & _ & S). exact (serve_sts_clause cfg t uuid r up sts S).
Qed.

(* which route was picked, its host= option and its URL are irrelevant to what the upstream is
   told (only strip= enters, through X-Forwarded-Prefix) *)
Theorem routed_route_irrelevant cfg t1 t2 uuid r :
  t_strip t1 = t_strip t2 ->
  serve_routed cfg (DProxy t1) uuid r = serve_routed cfg (DProxy t2) uuid r.
Proof. intros E. cbn [serve_routed routed]. unfold serve. rewrite E. reflexivity. Qed.

(* from the client's header lines to the upstream's end of the wire *)
Theorem routed_lines_xff_last_is_peer cfg d uuid r ls peer up sts :
  serve_routed_lines cfg d uuid r ls = Ok (up, sts) -> r_peer r = Some peer ->
  off K_XFF (c_tlsheader cfg) ->
  off K_UPGRADE (c_clientip cfg) -> off K_UPGRADE (c_tlsheader cfg) -> off K_UPGRADE (c_reqid cfg) ->
  cl_xff up peer = true.
Proof.
  intros S. apply routed_inv in S as (t & _ & S).
  exact (lines_xff_last_is_peer cfg t uuid r ls peer up sts S).
Qed.

Theorem routed_lines_clauses_on_domain cfg d uuid r ls peer up sts :
  cfg_sane cfg = true -> no_region (parse_lines ls) = true ->
  serve_routed_lines cfg d uuid r ls = Ok (up, sts) -> r_peer r = Some peer ->
  all_hold (clauses cfg (parse_lines ls) peer (r_host r) (local_port (r_host r) (is_tls r)) (is_tls r) true up) = true.
Proof.
  intros SA NR S P. apply routed_inv in S as (t & _ & S).
  exact (lines_clauses_on_domain cfg t uuid r ls peer up sts SA NR S P).
Qed.

(* non-vacuity on the two request shapes of round 8:
   (1) the client's X-Forwarded-For names only the address it connects from (one line, two lines):
       the upstream still reads the peer as the last element;
   (2) TLS connection, Host with the default port spelled out: X-Forwarded-Host is that Host,
       X-Forwarded-Port its port, the upstream's Host is the route's host= value. *)
Theorem routed_nonvacuous :
  let h1 := [(K_XFF, [ex_peer])] in
  let h2 := [(K_XFF, [ex_peer; ex_peer]); (K_UPGRADE, [bs "websocket"]); (K_CONN, [bs "Upgrade"])] in
  let r3 := {| r_peer := Some ex_peer; r_host := bs "shop.example.com:443"; r_tls := Some (772, 4865);
               r_proto := bs "HTTP/1.1"; r_hdr := [(bs "Accept", [bs "*/*"])] |} in
  let d := DProxy (ex_tgt (bs "backend.internal")) in
  xff_only_peer h1 ex_peer = true /\ xff_only_peer h2 ex_peer = true /\
  exists up1 s1 up2 s2 up3 s3,
    serve_routed ex_cfg d [] (ex_req None h1) = Ok (up1, s1) /\
    hfind up1 K_XFF = Some [bs "1.2.3.4, 1.2.3.4"] /\
    all_hold (clauses ex_cfg h1 ex_peer (bs "example.com") (spec_port (bs "example.com") false) false true up1) = true /\
    serve_routed ex_cfg d [] (ex_req None h2) = Ok (up2, s2) /\ takes_ws_path up2 = true /\
    hfind up2 K_XFF = Some [bs "1.2.3.4, 1.2.3.4, 1.2.3.4"] /\ cl_xff up2 ex_peer = true /\
    serve_routed ex_cfg d [] r3 = Ok (up3, s3) /\
    hfind up3 K_XFH = Some [bs "shop.example.com:443"] /\ hfind up3 K_XFPORT = Some [bs "443"] /\
    all_hold (clauses ex_cfg (r_hdr r3) ex_peer (r_host r3) (spec_port (r_host r3) true) true true up3) = true /\
    upstream_host_routed ex_cfg d [] r3 = Ok (bs "backend.internal") /\
    serve_routed ex_cfg DDenied [] r3 = Err E_NOT_FORWARDED /\
    serve_routed ex_cfg DRedirect [] r3 = Err E_NOT_FORWARDED.
Proof.
  cbv zeta. repeat (split; [vm_compute; reflexivity|]).
  do 6 eexists. repeat (split; [vm_compute; reflexivity|]). vm_compute. reflexivity.
Qed.
