(** Proofs for C09, websocket: the bytes a client sends together with its upgrade request
    (net/http's buffered reader at Hijack time, io.CopyN of the buffered bytes, the relay). *)
From Coq Require Import String List NArith Bool Arith PeanoNat Lia ZifyBool ZifyNat ZifyN.
From Fabio Require Import Lib.Outcome Lib.Bytes Model.ClientHello Model.BufioR Model.Tunnel Model.WsHijack
  Proofs.ClientHello Proofs.Tunnel.
Import ListNotations.

(* ================= lines ================= *)
Lemma nl_index_some : forall s i, nl_index s = Some i ->
  exists l0 r, s = l0 ++ 10%N :: r /\ length l0 = i /\ ~ In 10%N l0.
Proof.
  induction s as [|x s IH]; intros i H; cbn [nl_index] in H; [discriminate|].
  destruct (x =? 10)%N eqn:E.
  - apply N.eqb_eq in E. subst x. inversion H; subst. exists [], s. repeat split. intros [].
  - apply N.eqb_neq in E. destruct (nl_index s) as [j|] eqn:J; [|discriminate].
    inversion H; subst. destruct (IH j eq_refl) as [l0 [r [-> [L N0]]]].
    exists (x :: l0), r. repeat split.
    + cbn [length]. now rewrite L.
    + intros [A|A]; [congruence | contradiction].
Qed.

Lemma nl_index_none : forall s, nl_index s = None -> ~ In 10%N s.
Proof.
  induction s as [|x s IH]; intros H; cbn [nl_index] in H; [intros []|].
  destruct (x =? 10)%N eqn:E; [discriminate|]. apply N.eqb_neq in E.
  destruct (nl_index s) eqn:J; [discriminate|]. intros [A|A]; [congruence | now apply IH].
Qed.

Lemma take_line_app : forall l0 r, ~ In 10%N l0 -> take_line (l0 ++ 10%N :: r) = Some (l0 ++ [10%N], r).
Proof.
  induction l0 as [|x l0 IH]; intros r N0; cbn [app take_line].
  - reflexivity.
  - destruct (x =? 10)%N eqn:E.
    + apply N.eqb_eq in E. exfalso. apply N0. left. exact E.
    + rewrite IH; [reflexivity|]. intros A. apply N0. now right.
Qed.

Lemma take_line_some : forall s l rest, take_line s = Some (l, rest) ->
  exists l0, l = l0 ++ [10%N] /\ ~ In 10%N l0 /\ s = l ++ rest.
Proof.
  induction s as [|x s IH]; intros l rest H; cbn [take_line] in H; [discriminate|].
  destruct (x =? 10)%N eqn:E.
  - apply N.eqb_eq in E. subst x. inversion H; subst. exists []. repeat split. intros [].
  - apply N.eqb_neq in E. destruct (take_line s) as [[l1 r1]|] eqn:T; [|discriminate].
    inversion H; subst. destruct (IH _ _ eq_refl) as [l0 [-> [N0 ->]]].
    exists (x :: l0). repeat split. intros [A|A]; [congruence | contradiction].
Qed.

(* the first '\n' of a stream is where it is, however the stream is cut *)
Lemma first_nl_unique : forall (p l0 r1 r2 : str),
  ~ In 10%N p -> ~ In 10%N l0 -> p ++ 10%N :: r1 = l0 ++ 10%N :: r2 -> p = l0 /\ r1 = r2.
Proof.
  induction p as [|x p IH]; intros l0 r1 r2 Np Nl H.
  - destruct l0 as [|y l0]; cbn [app] in H.
    + inversion H. split; reflexivity.
    + inversion H; subst. exfalso. apply Nl. now left.
  - destruct l0 as [|y l0]; cbn [app] in H.
    + inversion H; subst. exfalso. apply Np. now left.
    + inversion H; subst. destruct (IH l0 r1 r2) as [-> ->]; try assumption.
      * intros A. apply Np. now right.
      * intros A. apply Nl. now right.
      * split; reflexivity.
Qed.

Lemma no_nl_prefix_len : forall (buf x l0 rest : str),
  ~ In 10%N buf -> buf ++ x = l0 ++ 10%N :: rest -> (length buf <= length l0)%nat.
Proof.
  induction buf as [|a buf IH]; intros x l0 rest Nb H; cbn [length]; [lia|].
  destruct l0 as [|y l0]; cbn [app] in H.
  - inversion H; subst. exfalso. apply Nb. now left.
  - inversion H; subst. cbn [length]. apply le_n_S. eapply IH; [|eassumption].
    intros A. apply Nb. now right.
Qed.

(* ================= ReadSlice('\n') ================= *)
Definition bounded (b : breader) : Prop := (buffered b <= b_cap b)%nat.

Lemma set_buf_pending b buf : pending (set_buf b buf) = buf ++ concat (b_src b).
Proof. reflexivity. Qed.

Lemma fill_bounded b : bounded b -> bounded (fill b).
Proof.
  unfold bounded, fill, buffered. intros H.
  destruct (src_read (b_cap b - length (b_buf b)) (b_src b)) as [[d s'] e] eqn:E.
  cbn [b_buf b_cap]. rewrite app_length. pose proof (src_read_len _ _ _ _ _ E). lia.
Qed.

Lemma src_read_count m : forall src d s' e, src_read m src = (d, s', e) -> (length s' <= length src)%nat.
Proof.
  induction src as [|seg rest IH]; intros d s' e H.
  - cbn [src_read] in H. inversion H; subst. cbn [length]. lia.
  - destruct seg as [|x seg]; cbn [src_read] in H.
    + specialize (IH _ _ _ H). cbn [length]. lia.
    + inversion H; subst. cbn [length]. lia.
Qed.

(* the measure the head loop's fuel is taken from *)
Definition rmeasure (b : breader) : nat := length (pending b) + length (b_src b).

Lemma rmeasure_eq b : rmeasure b = reader_measure b.
Proof. unfold rmeasure, reader_measure, pending, src_measure. rewrite app_length. lia. Qed.

Lemma fill_rmeasure b : (rmeasure (fill b) <= rmeasure b)%nat.
Proof.
  unfold rmeasure. rewrite fill_pending. unfold fill.
  destruct (src_read (b_cap b - buffered b) (b_src b)) as [[d s'] e] eqn:E. cbn [b_src].
  pose proof (src_read_count _ _ _ _ _ E). lia.
Qed.

Definition slice_post (b : breader) (l : str) (e : N) (b1 : breader) : Prop :=
  l ++ pending b1 = pending b /\ (wf b -> wf b1) /\ b_cap b1 = b_cap b /\
  (bounded b -> (buffered b1 + (if (e =? 0)%N then length l else 0) <= b_cap b)%nat) /\
  (rmeasure b1 + length l <= rmeasure b)%nat /\
  (e = 0%N -> exists l0, l = l0 ++ [10%N] /\ ~ In 10%N l0).

Ltac sp6 := split; [|split; [|split; [|split; [|split]]]].

Lemma slice_found b i : nl_index (b_buf b) = Some i ->
  slice_post b (firstn (S i) (b_buf b)) 0%N (set_buf b (skipn (S i) (b_buf b))).
Proof.
  intros I. destruct (nl_index_some _ _ I) as [l0 [r [B [L N0]]]]. subst i.
  assert (F : firstn (S (length l0)) (b_buf b) = l0 ++ [10%N]).
  { rewrite B. replace (l0 ++ 10%N :: r) with ((l0 ++ [10%N]) ++ r) by (rewrite <- app_assoc; reflexivity).
    rewrite firstn_app_le by (rewrite app_length; cbn [length]; lia).
    apply firstn_all2. rewrite app_length. cbn [length]. lia. }
  unfold slice_post. sp6.
  - rewrite set_buf_pending. unfold pending. apply firstn_skipn_app3.
  - intros W. exact W.
  - reflexivity.
  - intros Bd. unfold bounded, buffered in *. cbn [set_buf b_buf N.eqb].
    rewrite skipn_length, firstn_length. lia.
  - unfold rmeasure. rewrite set_buf_pending. cbn [set_buf b_src]. unfold pending.
    rewrite !app_length, skipn_length, firstn_length. lia.
  - intros _. exists l0. split; [exact F | exact N0].
Qed.

Lemma read_slice_loop_inv : forall fuel b l e b1, read_slice_loop fuel b = Some (l, e, b1) ->
  l ++ pending b1 = pending b /\ (wf b -> wf b1) /\ b_cap b1 = b_cap b /\
  (bounded b -> (buffered b1 + (if (e =? 0)%N then length l else 0) <= b_cap b)%nat) /\
  (rmeasure b1 + length l <= rmeasure b)%nat /\
  (e = 0%N -> exists l0, l = l0 ++ [10%N] /\ ~ In 10%N l0).
Proof.
  induction fuel as [|f IH]; intros b l e b1 H.
  - cbn [read_slice_loop] in H. destruct (nl_index (b_buf b)) as [i|] eqn:I.
    + injection H as <- <- <-. exact (slice_found b i I).
    + destruct (negb (b_err b =? 0)%N) eqn:Er.
      * inversion H; subst. clear H. apply negb_true_iff in Er. apply N.eqb_neq in Er. sp6.
        -- reflexivity.
        -- intros _. wf0.
        -- reflexivity.
        -- intros Bd. apply N.eqb_neq in Er. rewrite Er. unfold bounded, buffered in *. cbn [clear_err set_buf b_buf length]. lia.
        -- unfold rmeasure, pending. cbn [clear_err set_buf b_buf b_src]. rewrite !app_length. cbn [length]. lia.
        -- intros E0. contradiction.
      * destruct (b_cap b <=? buffered b)%nat; [|discriminate].
        inversion H; subst. clear H. sp6.
        -- reflexivity.
        -- intros W. exact W.
        -- reflexivity.
        -- intros Bd. unfold bounded, buffered in *. cbn [set_buf b_buf length N.eqb]. lia.
        -- unfold rmeasure, pending. cbn [set_buf b_buf b_src]. rewrite !app_length. cbn [length]. lia.
        -- intros E0. discriminate.
  - cbn [read_slice_loop] in H. destruct (nl_index (b_buf b)) as [i|] eqn:I.
    + injection H as <- <- <-. exact (slice_found b i I).
    + destruct (negb (b_err b =? 0)%N) eqn:Er.
      * inversion H; subst. clear H. apply negb_true_iff in Er. apply N.eqb_neq in Er. sp6.
        -- reflexivity.
        -- intros _. wf0.
        -- reflexivity.
        -- intros Bd. apply N.eqb_neq in Er. rewrite Er. unfold bounded, buffered in *. cbn [clear_err set_buf b_buf length]. lia.
        -- unfold rmeasure, pending. cbn [clear_err set_buf b_buf b_src]. rewrite !app_length. cbn [length]. lia.
        -- intros E0. contradiction.
      * destruct (b_cap b <=? buffered b)%nat.
        -- inversion H; subst. clear H. sp6.
           ++ reflexivity.
           ++ intros W. exact W.
           ++ reflexivity.
           ++ intros Bd. unfold bounded, buffered in *. cbn [set_buf b_buf length N.eqb]. lia.
           ++ unfold rmeasure, pending. cbn [set_buf b_buf b_src]. rewrite !app_length. cbn [length]. lia.
           ++ intros E0. discriminate.
        -- destruct (IH _ _ _ _ H) as [P [W [C [Bd [M Ln]]]]]. sp6.
           ++ rewrite P. apply fill_pending.
           ++ intros _. apply W. apply fill_wf.
           ++ rewrite C. apply fill_cap.
           ++ intros B0. rewrite fill_cap in Bd. apply Bd. now apply fill_bounded.
           ++ pose proof (fill_rmeasure b). lia.
           ++ exact Ln.
Qed.

Lemma read_slice_loop_fuel : forall fuel b, (b_cap b - buffered b < fuel)%nat -> read_slice_loop fuel b <> None.
Proof.
  induction fuel as [|f IH]; intros b Hf; [lia|].
  cbn [read_slice_loop]. destruct (nl_index (b_buf b)) eqn:I; [discriminate|].
  destruct (negb (b_err b =? 0)%N) eqn:Er; [discriminate|].
  destruct (b_cap b <=? buffered b)%nat eqn:Cp; [discriminate|]. apply Nat.leb_gt in Cp.
  unfold fill. destruct (src_read (b_cap b - buffered b) (b_src b)) as [[d s'] e] eqn:E.
  destruct e.
  - (* EOF: the next round ends on b.err *)
    apply src_read_eof in E. destruct E as [-> _].
    destruct f as [|f']; cbn [read_slice_loop b_buf b_err]; rewrite app_nil_r, I; cbn; discriminate.
  - apply IH. assert (Hm : (0 < b_cap b - buffered b)%nat) by lia.
    destruct (src_read_progress _ _ _ _ Hm E) as [Hd _].
    unfold buffered in *. cbn [b_cap b_buf]. rewrite app_length.
    destruct d; [contradiction|]. cbn [length]. lia.
Qed.

Theorem read_slice_never_out_of_fuel : forall b, read_slice b <> Err 77%N.
Proof.
  intros b. unfold read_slice. destruct (read_slice_loop (S (b_cap b)) b) eqn:L; [discriminate|].
  exfalso. apply (read_slice_loop_fuel (S (b_cap b)) b); [lia | exact L].
Qed.

Lemma read_slice_inv b l e b1 : read_slice b = Ok (l, e, b1) ->
  l ++ pending b1 = pending b /\ (wf b -> wf b1) /\ b_cap b1 = b_cap b /\
  (bounded b -> (buffered b1 + (if (e =? 0)%N then length l else 0) <= b_cap b)%nat) /\
  (rmeasure b1 + length l <= rmeasure b)%nat /\
  (e = 0%N -> exists l0, l = l0 ++ [10%N] /\ ~ In 10%N l0).
Proof.
  unfold read_slice. destruct (read_slice_loop (S (b_cap b)) b) as [[[l0 e0] b0]|] eqn:L; [|discriminate].
  intros H; inversion H; subst. exact (read_slice_loop_inv _ _ _ _ _ L).
Qed.

(* a line that is there and fits the buffer is read, for every segmentation *)
Lemma read_slice_loop_total : forall fuel b l0 rest, wf b ->
  pending b = l0 ++ 10%N :: rest -> ~ In 10%N l0 -> (S (length l0) <= b_cap b)%nat ->
  (b_cap b - buffered b < fuel)%nat ->
  exists b1, read_slice_loop fuel b = Some (l0 ++ [10%N], 0%N, b1).
Proof.
  induction fuel as [|f IH]; intros b l0 rest W P N0 Hc Hf; [lia|].
  cbn [read_slice_loop]. destruct (nl_index (b_buf b)) as [i|] eqn:I.
  - destruct (nl_index_some _ _ I) as [p [r [B [L Np]]]].
    unfold pending in P. rewrite B, <- app_assoc in P. cbn [app] in P.
    destruct (first_nl_unique _ _ _ _ Np N0 P) as [-> _].
    eexists. f_equal. f_equal. f_equal. rewrite B, <- L.
    replace (l0 ++ 10%N :: r) with ((l0 ++ [10%N]) ++ r) by (rewrite <- app_assoc; reflexivity).
    rewrite firstn_app_le by (rewrite app_length; cbn [length]; lia).
    apply firstn_all2. rewrite app_length. cbn [length]. lia.
  - pose proof (nl_index_none _ I) as Nb.
    assert (Lb : (length (b_buf b) <= length l0)%nat) by (eapply no_nl_prefix_len; [exact Nb | exact P]).
    destruct (b_err b =? 0)%N eqn:Er; cbn [negb].
    + destruct (b_cap b <=? buffered b)%nat eqn:Cp; [apply Nat.leb_le in Cp; unfold buffered in Cp; lia|].
      apply Nat.leb_gt in Cp.
      destruct (src_read (b_cap b - buffered b) (b_src b)) as [[d s'] e] eqn:E.
      assert (Hm : (0 < b_cap b - buffered b)%nat) by lia.
      destruct e.
      * (* the connection cannot be at its end: the line's '\n' is still to come *)
        exfalso. apply src_read_eof in E. destruct E as [_ Hs]. unfold pending in P. rewrite Hs, app_nil_r in P.
        apply Nb. rewrite P. apply in_or_app. right. now left.
      * apply (IH (fill b) l0 rest).
        -- apply fill_wf.
        -- rewrite fill_pending. exact P.
        -- exact N0.
        -- rewrite fill_cap. exact Hc.
        -- rewrite fill_cap. unfold fill. rewrite E. unfold buffered in *. cbn [b_buf]. rewrite app_length.
           destruct (src_read_progress _ _ _ _ Hm E) as [Hd _]. destruct d; [contradiction|]. cbn [length]. lia.
    + exfalso. apply N.eqb_neq in Er. unfold pending in P. rewrite (W Er), app_nil_r in P.
      apply Nb. rewrite P. apply in_or_app. right. now left.
Qed.

Lemma read_slice_total b l0 rest : wf b ->
  pending b = l0 ++ 10%N :: rest -> ~ In 10%N l0 -> (S (length l0) <= b_cap b)%nat ->
  exists b1, read_slice b = Ok (l0 ++ [10%N], 0%N, b1).
Proof.
  intros W P N0 Hc. unfold read_slice.
  destruct (read_slice_loop_total (S (b_cap b)) b l0 rest W P N0 Hc) as [b1 ->]; [lia|]. now exists b1.
Qed.

(* ================= the request head ================= *)
Lemma read_head_loop_fuel : forall fuel first acc b, (rmeasure b < fuel)%nat -> read_head_loop fuel first acc b <> Err 77%N.
Proof.
  induction fuel as [|f IH]; intros first acc b Hf; [lia|].
  cbn [read_head_loop]. destruct (read_slice b) as [[[l e] b1]|k|] eqn:R; cbn [bind]; try discriminate.
  - destruct (e =? 0)%N eqn:E0; cbn [negb]; [|discriminate].
    destruct (negb first && is_blank_line l); [discriminate|].
    apply N.eqb_eq in E0. subst e.
    destruct (read_slice_inv _ _ _ _ R) as [_ [_ [_ [_ [M Ln]]]]].
    destruct (Ln eq_refl) as [l0 [-> _]]. rewrite app_length in M. cbn [length] in M.
    apply IH. lia.
  - intros H. inversion H; subst. now apply (read_slice_never_out_of_fuel b).
Qed.

Theorem http_read_head_never_out_of_fuel : forall b, http_read_head b <> Err 77%N.
Proof. intros b. apply read_head_loop_fuel. rewrite rmeasure_eq. lia. Qed.

(* what has been read as the head is the next part of the stream, the rest is kept in order;
   afterwards the buffer is not full *)
Lemma read_head_loop_inv : forall fuel first acc b h b1, read_head_loop fuel first acc b = Ok (Some (h, b1)) ->
  exists ls, h = acc ++ ls /\ ls ++ pending b1 = pending b /\ (wf b -> wf b1) /\ b_cap b1 = b_cap b /\
    (bounded b -> (buffered b1 < b_cap b1)%nat).
Proof.
  induction fuel as [|f IH]; intros first acc b h b1 H; [discriminate|].
  cbn [read_head_loop] in H. destruct (read_slice b) as [[[l e] b0]|k|] eqn:R; cbn [bind] in H; try discriminate.
  destruct (e =? 0)%N eqn:E0; cbn [negb] in H; [|discriminate].
  apply N.eqb_eq in E0. subst e.
  destruct (read_slice_inv _ _ _ _ R) as [P [W [C [Bd [_ Ln]]]]]. cbn [N.eqb] in Bd.
  destruct (Ln eq_refl) as [l0 [El _]].
  assert (Ll : (0 < length l)%nat) by (rewrite El, app_length; cbn [length]; lia).
  destruct (negb first && is_blank_line l).
  - injection H as <- <-. exists l. split; [reflexivity|]. split; [exact P|]. split; [exact W|]. split; [exact C|].
    intros B0. specialize (Bd B0). rewrite C. lia.
  - destruct (IH _ _ _ _ _ H) as [ls [-> [P1 [W1 [C1 B1]]]]].
    exists (l ++ ls). split; [|split; [|split; [|split]]].
    + now rewrite app_assoc.
    + rewrite <- app_assoc, P1. exact P.
    + intros W0. auto.
    + congruence.
    + intros B0. apply B1. unfold bounded. specialize (Bd B0). rewrite C. lia.
Qed.

(* ... and it is the head of the flat stream: the lines up to the first blank one *)
Lemma read_head_loop_flat : forall fuel first acc b h b1, read_head_loop fuel first acc b = Ok (Some (h, b1)) ->
  forall f2, (length (pending b) < f2)%nat -> flat_head_loop f2 first acc (pending b) = Some (h, pending b1).
Proof.
  induction fuel as [|f IH]; intros first acc b h b1 H f2 Hf; [discriminate|].
  cbn [read_head_loop] in H. destruct (read_slice b) as [[[l e] b0]|k|] eqn:R; cbn [bind] in H; try discriminate.
  destruct (e =? 0)%N eqn:E0; cbn [negb] in H; [|discriminate].
  apply N.eqb_eq in E0. subst e.
  destruct (read_slice_inv _ _ _ _ R) as [P [_ [_ [_ [_ Ln]]]]].
  destruct (Ln eq_refl) as [l0 [El N0]].
  destruct f2 as [|f2']; [lia|]. cbn [flat_head_loop].
  rewrite <- P, El, <- app_assoc. cbn [app]. rewrite (take_line_app _ _ N0). rewrite <- El.
  destruct (negb first && is_blank_line l).
  - inversion H; subst. reflexivity.
  - apply IH; [exact H|]. rewrite <- P, app_length in Hf. rewrite El, app_length in Hf. cbn [length] in Hf. lia.
Qed.

Theorem http_read_head_flat : forall cap segs h b1,
  http_read_head (new_reader cap segs) = Ok (Some (h, b1)) -> flat_head (concat segs) = Some (h, pending b1).
Proof.
  intros cap segs h b1 H. unfold http_read_head in H. unfold flat_head.
  apply (read_head_loop_flat _ _ _ _ _ _ H (S (length (concat segs)))). unfold pending. cbn [new_reader b_buf b_src app]. lia.
Qed.

Lemma flat_head_loop_parts : forall f2 first acc s h rest, flat_head_loop f2 first acc s = Some (h, rest) ->
  exists ls, h = acc ++ ls /\ s = ls ++ rest.
Proof.
  induction f2 as [|f IH]; intros first acc s h rest H; [discriminate|].
  cbn [flat_head_loop] in H. destruct (take_line s) as [[l r]|] eqn:T; [|discriminate].
  destruct (take_line_some _ _ _ T) as [l0 [El [N0 Es]]].
  destruct (negb first && is_blank_line l).
  - injection H as <- <-. exists l. split; [reflexivity | exact Es].
  - destruct (IH _ _ _ _ _ H) as [ls [-> Er]]. exists (l ++ ls). split; [now rewrite app_assoc|].
    rewrite Es, Er. now rewrite app_assoc.
Qed.

(* totality: a head that is there and fits the reader's buffer is read, for every segmentation *)
Lemma read_head_loop_total : forall f2 first acc b h rest,
  flat_head_loop f2 first acc (pending b) = Some (h, rest) -> wf b ->
  (length h - length acc <= b_cap b)%nat ->
  forall fuel, (rmeasure b < fuel)%nat ->
  exists b1, read_head_loop fuel first acc b = Ok (Some (h, b1)) /\ pending b1 = rest.
Proof.
  induction f2 as [|f IH]; intros first acc b h rest H W Hc fuel Hf; [discriminate|].
  cbn [flat_head_loop] in H. destruct (take_line (pending b)) as [[l r]|] eqn:T; [|discriminate].
  destruct (take_line_some _ _ _ T) as [l0 [El [N0 Es]]].
  assert (Hl : exists ls, h = acc ++ l ++ ls).
  { destruct (negb first && is_blank_line l).
    - injection H as <- _. exists []. now rewrite app_nil_r.
    - destruct (flat_head_loop_parts _ _ _ _ _ _ H) as [ls [-> _]]. exists ls. now rewrite app_assoc. }
  destruct Hl as [ls0 Eh].
  assert (Ll : (S (length l0) <= b_cap b)%nat).
  { rewrite Eh in Hc. rewrite !app_length in Hc. rewrite El, app_length in Hc. cbn [length] in Hc. lia. }
  destruct fuel as [|fuel']; [lia|]. cbn [read_head_loop].
  assert (P : pending b = l0 ++ 10%N :: r).
  { rewrite Es, El, <- app_assoc. reflexivity. }
  destruct (read_slice_total b l0 r W P N0 Ll) as [b0 R]. rewrite R. cbn [bind N.eqb negb]. rewrite <- El.
  destruct (read_slice_inv _ _ _ _ R) as [P0 [W0 [C0 [_ [M0 _]]]]].
  assert (Pr : pending b0 = r).
  { rewrite Es in P0. rewrite <- El in P0. now apply app_inv_head in P0. }
  destruct (negb first && is_blank_line l).
  - injection H as <- <-. exists b0. split; [reflexivity | exact Pr].
  - rewrite <- Pr in H. destruct (IH _ _ _ _ _ H (W0 W)) with (fuel := fuel') as [b1 [R1 P1]].
    + rewrite C0. rewrite Eh in Hc |- *. rewrite !app_length in *. lia.
    + rewrite <- El in M0. assert (0 < length l)%nat by (rewrite El, app_length; cbn [length]; lia). lia.
    + exists b1. split; assumption.
Qed.

Theorem http_read_head_total : forall segs h rest,
  flat_head (concat segs) = Some (h, rest) -> (length h <= http_buf_size)%nat ->
  exists b1, http_read_head (new_reader http_buf_size segs) = Ok (Some (h, b1)) /\ pending b1 = rest.
Proof.
  intros segs h rest H Hc. unfold http_read_head.
  apply (read_head_loop_total (S (length (concat segs))) true [] (new_reader http_buf_size segs)).
  - exact H.
  - wf0.
  - cbn [length new_reader b_cap]. lia.
  - rewrite rmeasure_eq. lia.
Qed.

Lemma new_reader_bounded cap segs : bounded (new_reader cap segs).
Proof. unfold bounded, buffered. cbn [new_reader b_buf b_cap length]. lia. Qed.

Lemma http_read_head_inv cap segs h b1 : http_read_head (new_reader cap segs) = Ok (Some (h, b1)) ->
  h ++ pending b1 = concat segs /\ (buffered b1 < b_cap b1)%nat.
Proof.
  intros R. unfold http_read_head in R.
  destruct (read_head_loop_inv _ _ _ _ _ _ R) as [ls [Eh [P [_ [_ B1]]]]]. cbn [app] in Eh. subst ls.
  split; [exact P | apply B1, new_reader_bounded].
Qed.

(* ================= the background byte ================= *)
Lemma hijack_bg_ok bg b : (buffered b < b_cap b)%nat ->
  exists b2, hijack_bg bg b = Ok b2 /\ pending b2 = pending b.
Proof.
  intros Hb. unfold hijack_bg. destruct bg; [|now exists b].
  destruct (src_read 1 (b_src b)) as [[d s'] e] eqn:E.
  destruct d as [|x d]; [now exists b|].
  destruct (b_cap b <=? buffered b)%nat eqn:Cp; [apply Nat.leb_le in Cp; lia|].
  eexists. split; [reflexivity|]. unfold pending. cbn [b_buf b_src].
  rewrite <- (src_read_conserves _ _ _ _ _ E). now rewrite app_assoc.
Qed.

(* ================= io.CopyN of the buffered bytes ================= *)
Lemma set_buf_set_buf b x y : set_buf (set_buf b x) y = set_buf b y.
Proof. reflexivity. Qed.

Lemma limited_copy_loop_all m : (0 < m)%nat -> forall fuel lim b,
  lim = buffered b -> (lim < fuel)%nat ->
  limited_copy_loop fuel m lim b = Some (b_buf b, 0%N, set_buf b []).
Proof.
  intros Hm. induction fuel as [|f IH]; intros lim b Hl Hf; [lia|].
  destruct lim as [|lim'].
  - cbn [limited_copy_loop]. unfold buffered in Hl. destruct b as [cap buf src err]. cbn [b_buf] in *.
    destruct buf; [reflexivity | discriminate].
  - cbn [limited_copy_loop]. unfold buffered in Hl.
    destruct (b_buf b) as [|x buf] eqn:B; [discriminate|].
    set (k := Nat.min m (S lim')).
    assert (Hk : (0 < k)%nat) by (subst k; lia).
    unfold bread. destruct k as [|k'] eqn:K; [lia|]. rewrite B.
    cbn [N.eqb negb].
    assert (Hkl : (S k' <= length (x :: buf))%nat) by (rewrite <- Hl; lia).
    rewrite (IH (S lim' - length (firstn (S k') (x :: buf)))%nat (set_buf b (skipn (S k') (x :: buf)))).
    + cbn [set_buf b_buf]. rewrite set_buf_set_buf. now rewrite firstn_skipn.
    + unfold buffered. cbn [set_buf b_buf]. rewrite skipn_length, firstn_length. lia.
    + rewrite firstn_length. lia.
Qed.

(* whatever the reader holds - a byte or nearly the whole 4096 - is forwarded completely by
   the CopyN, nothing is read from the connection and the reader is empty afterwards *)
Theorem ws_copy_buffered_all : forall b, ws_copy_buffered b = Ok (b_buf b, 0%N, set_buf b []).
Proof.
  intros b. unfold ws_copy_buffered.
  destruct (buffered b) as [|n] eqn:Bn.
  - unfold buffered in Bn. destruct b as [cap buf src err]. cbn [b_buf] in *. destruct buf; [reflexivity | discriminate].
  - rewrite (limited_copy_loop_all (Nat.min copy_buf_size (S n))).
    + reflexivity.
    + pose proof copy_buf_pos. lia.
    + now rewrite Bn.
    + lia.
Qed.

(* ================= the upstream's stream ================= *)
Lemma ws_early_upstream_eq : forall early late bg h b1,
  http_read_head (new_reader http_buf_size early) = Ok (Some (h, b1)) ->
  exists b2, pending b2 = pending b1 /\
    ws_early_upstream early late bg = Ok (Some (h, b_buf b2, concat (b_src b2 ++ late))).
Proof.
  intros early late bg h b1 R.
  unfold ws_early_upstream. rewrite R. cbn [bind].
  destruct (http_read_head_inv _ _ _ _ R) as [_ Hb].
  destruct (hijack_bg_ok bg b1 Hb) as [b2 [-> P2]]. cbn [bind].
  rewrite ws_copy_buffered_all. cbn [bind N.eqb negb set_buf b_src].
  rewrite copy_preserves_stream. cbn [bind].
  exists b2. split; [exact P2 | reflexivity].
Qed.

Lemma ws_early_upstream_no_head : forall early late bg r,
  (forall h b1, http_read_head (new_reader http_buf_size early) <> Ok (Some (h, b1))) ->
  ws_early_upstream early late bg <> Ok (Some r).
Proof.
  intros early late bg r Hn.
  destruct (http_read_head (new_reader http_buf_size early)) as [[[h0 b1]|]|k|] eqn:R.
  - exfalso. now apply (Hn h0 b1).
  - unfold ws_early_upstream. rewrite R. cbn [bind]. discriminate.
  - unfold ws_early_upstream. rewrite R. cbn [bind]. discriminate.
  - unfold ws_early_upstream. rewrite R. cbn [bind]. discriminate.
Qed.

(* THE THEOREM of this file.  For every way the client's bytes are cut into segments, sent
   before or after the 101, whatever part of them the http server has buffered when the
   handler hijacks the connection and whether or not the background read took a byte: if the
   early segments contain a request head that fits the server's reader, the upstream receives -
   after the forwarded request - exactly what follows the head in the client's stream: every
   byte once, in order, from the very first one. *)
Theorem ws_early_upstream_stream : forall early late bg h rest,
  flat_head (concat early) = Some (h, rest) -> (length h <= http_buf_size)%nat ->
  exists fw c, ws_early_upstream early late bg = Ok (Some (h, fw, c)) /\ fw ++ c = rest ++ concat late.
Proof.
  intros early late bg h rest H Hc.
  destruct (http_read_head_total early h rest H Hc) as [b1 [R P1]].
  destruct (ws_early_upstream_eq early late bg h b1 R) as [b2 [P2 E]].
  exists (b_buf b2), (concat (b_src b2 ++ late)). split; [exact E|].
  rewrite concat_app, app_assoc. f_equal. rewrite <- P1, <- P2. reflexivity.
Qed.

(* the converse direction needs no assumption: whenever the model yields a tunnel, nothing was
   lost, duplicated or reordered *)
Theorem ws_early_upstream_sound : forall early late bg h fw c,
  ws_early_upstream early late bg = Ok (Some (h, fw, c)) ->
  flat_head (concat early) = Some (h, skipn (length h) (concat early)) /\ h ++ fw ++ c = concat (early ++ late).
Proof.
  intros early late bg h fw c H.
  destruct (http_read_head (new_reader http_buf_size early)) as [[[h0 b1]|]|k|] eqn:R.
  - destruct (ws_early_upstream_eq early late bg h0 b1 R) as [b2 [P2 E]].
    rewrite E in H. injection H as <- <- <-.
    pose proof (http_read_head_flat _ _ _ _ R) as F.
    destruct (http_read_head_inv _ _ _ _ R) as [P _].
    split.
    + rewrite F. f_equal. f_equal. rewrite <- P. rewrite skipn_app, skipn_all, Nat.sub_diag. reflexivity.
    + rewrite !concat_app, <- P, <- P2. unfold pending. now rewrite <- !app_assoc.
  - exfalso. apply (ws_early_upstream_no_head early late bg (h, fw, c)); [|exact H]. intros h1 b1. rewrite R. discriminate.
  - exfalso. apply (ws_early_upstream_no_head early late bg (h, fw, c)); [|exact H]. intros h1 b1. rewrite R. discriminate.
  - exfalso. apply (ws_early_upstream_no_head early late bg (h, fw, c)); [|exact H]. intros h1 b1. rewrite R. discriminate.
Qed.

Theorem ws_early_upstream_never_out_of_fuel : forall early late bg, ws_early_upstream early late bg <> Err 77%N.
Proof.
  intros early late bg.
  destruct (http_read_head (new_reader http_buf_size early)) as [[[h0 b1]|]|k|] eqn:R.
  - destruct (ws_early_upstream_eq early late bg h0 b1 R) as [b2 [_ E]]. rewrite E. discriminate.
  - unfold ws_early_upstream. rewrite R. cbn [bind]. discriminate.
  - unfold ws_early_upstream. rewrite R. cbn [bind]. intros E. injection E as ->.
    now apply (http_read_head_never_out_of_fuel (new_reader http_buf_size early)).
  - unfold ws_early_upstream. rewrite R. cbn [bind]. discriminate.
Qed.

(* ---------- witnesses ---------- *)
Definition wit_ws_req : str :=
  bs "GET /ws HTTP/1.1"%string ++ [13; 10]%N ++ bs "Host: front.example"%string ++ [13; 10]%N
  ++ bs "Connection: Upgrade"%string ++ [13; 10]%N ++ bs "Upgrade: websocket"%string ++ [13; 10; 13; 10]%N.

(* 3000 bytes in the request's segment: all 3000 are in the reader at Hijack time (far more than
   the 1024 bytes of the handshake buffer) and all reach the upstream, followed by the rest; a
   request cut after 7 bytes with 5000 more bytes in its second segment: the reader is filled to
   its 4096 bytes, all but the request stream bytes; everything arrives *)
Example ws_early_upstream_nonvacuous :
  flat_head (wit_ws_req ++ symseq 0 3000) = Some (wit_ws_req, symseq 0 3000) /\
  ws_buffered_at_hijack [wit_ws_req ++ symseq 0 3000; symseq 3000 10] false = Ok (Some 3000%nat) /\
  ws_buffered_at_hijack [wit_ws_req ++ symseq 0 3000; symseq 3000 10] true = Ok (Some 3001%nat) /\
  ws_early_upstream [wit_ws_req ++ symseq 0 3000; symseq 3000 10] [symseq 3010 5] false
    = Ok (Some (wit_ws_req, symseq 0 3000, symseq 3000 15)) /\
  ws_early_upstream [wit_ws_req ++ symseq 0 3000; symseq 3000 10] [symseq 3010 5] true
    = Ok (Some (wit_ws_req, symseq 0 3001, symseq 3001 14)) /\
  ws_buffered_at_hijack [firstn 7 wit_ws_req; skipn 7 wit_ws_req ++ symseq 0 5000] false
    = Ok (Some (4096 - length wit_ws_req)%nat) /\
  (exists fw c, ws_early_upstream [firstn 7 wit_ws_req; skipn 7 wit_ws_req ++ symseq 0 5000] [symseq 5000 9] true
    = Ok (Some (wit_ws_req, fw, c)) /\ fw ++ c = symseq 0 5009).
Proof. repeat split; try (vm_compute; reflexivity). eexists. eexists. split; vm_compute; reflexivity. Qed.

(* ================= the scenario with early bytes ================= *)
Lemma ws_early_segments_concat req rsplit segs nearly early late :
  ws_early_segments req rsplit segs nearly = (early, late) ->
  concat early = req ++ concat (firstn (N.to_nat nearly) segs) /\ late = skipn (N.to_nat nearly) segs.
Proof.
  unfold ws_early_segments. intros H.
  destruct ((0 <? rsplit)%N && (rsplit <? nlen' req)%N)%bool;
    destruct (firstn (N.to_nat nearly) segs) as [|s0 more]; inversion H; subst; clear H; split; try reflexivity;
    cbn [concat app]; rewrite ?app_nil_r, <- ?app_assoc, ?firstn_skipn_app3, ?firstn_skipn; reflexivity.
Qed.

(* THE LINK for the scenario with early bytes: every observation within the model's forced
   outcome satisfies the specification of the transparent tunnel on the client's WHOLE stream
   (spec_b on [concat segs]), whatever was sent with the request, before or after the 101 *)
Theorem ws_early_scenario_meets_spec : forall req rsplit segs nearly bg fin cw_in cwait ce ut reply rseg1 whead ue e o_up o_cl,
  scenario_expect_ws_early req rsplit segs nearly bg fin cw_in cwait ce ut reply rseg1 whead ue = Ok e ->
  e_conn e = true ->
  region_upstream_half_close (concat segs) cw_in ut ue = false ->
  ws_head_first KWs ut whead = true ->
  within o_up (e_up e) (e_up_lo e) (nlen' (e_up e)) = true ->
  within o_cl (e_cl e) (e_cl_lo e) (e_cl_hi e) = true ->
  spec_b KWs false [] (concat segs) cwait ce ut reply ue o_up o_cl = true.
Proof.
  intros req rsplit segs nearly bg fin cw_in cwait ce ut reply rseg1 whead ue e o_up o_cl He Hc Rr Hw Hup Hcl.
  destruct (within_parts _ _ _ _ Hcl) as [Hclp Hcll].
  unfold spec_b, tunnelled. destruct (has_prefix reply ws_101) eqn:P; cbn [negb]; [|reflexivity].
  unfold scenario_expect_ws_early in He.
  destruct (ws_early_segments req rsplit segs nearly) as [early late] eqn:Es.
  destruct (ws_early_segments_concat _ _ _ _ _ _ Es) as [Ce ->].
  set (out0 := match ut with UAtConnect => reply | _ => firstn (N.to_nat whead) reply end) in He.
  assert (P0 : has_prefix out0 ws_101 = true).
  { subst out0. cbn [ws_head_first] in Hw.
    destruct ut; [exact P | | ]; apply has_prefix_firstn; try exact P;
      apply N.leb_le in Hw; rewrite ws_101_len; lia. }
  set (useg := if ((0 <? rseg1)%N && (rseg1 <? nlen' out0)%N)%bool
               then [firstn (N.to_nat rseg1) out0; skipn (N.to_nat rseg1) out0] else [out0]) in He.
  assert (Hu : concat useg = out0).
  { subst useg. destruct ((0 <? rseg1)%N && (rseg1 <? nlen' out0)%N)%bool; cbn [concat]; rewrite app_nil_r;
      [apply firstn_skipn | reflexivity]. }
  destruct (ws_early_upstream early (skipn (N.to_nat nearly) segs) bg) as [[[[h fw] c]|]|k|] eqn:U; cbn [bind] in He; try discriminate.
  - destruct (beq h req) eqn:Bh; cbn [negb] in He; [|discriminate]. apply beq_eq in Bh. subst h.
    destruct (ws_early_upstream_sound _ _ _ _ _ _ U) as [_ S]. rewrite concat_app, Ce, <- !app_assoc in S.
    apply app_inv_head in S. rewrite <- concat_app, firstn_skipn in S.
    destruct (ws_upgrade_any_segmentation useg) as [chunk [rest [R1 [R2 _]]]]; [rewrite Hu; exact P0|].
    rewrite R1 in He. cbn [bind] in He. rewrite R2 in He.
    inversion He; subst e. clear He. cbn [e_up e_up_lo e_cl e_cl_lo e_cl_hi e_ends e_cl_eof] in *.
    cbn [spec_upstream] in *. rewrite S in *.
    apply (tunnel_expect_meets_spec _ _ cw_in (1 <? fin)%N); try assumption.
    eapply N.le_trans; [apply N.le_max_r | exact Hcll].
  - (* no request read: no connection *)
    inversion He; subst e. discriminate Hc.
Qed.

(* the request cut after 7 bytes, 3000 stream bytes in the segment of its rest, 2 more after the
   101, a half-closing client, reply at EOF: everything is expected at the upstream; the full
   observation meets the specification, and the observation "the first 1024 early bytes, then the
   late ones" (a hole of 1976 bytes) fails it *)
Example ws_early_scenario_nonvacuous :
  exists e, scenario_expect_ws_early wit_ws_req 7 [symseq 0 3000; [1; 2]%N] 1 true 0 true false CHalf UOnEOF (wit_reply ++ [7; 8]%N) 0 (nlen' wit_reply) UClose = Ok e /\
    e_conn e = true /\ e_up e = symseq 0 3000 ++ [1; 2]%N /\ e_up_lo e = 3002%N /\ e_cl_lo e = nlen' (wit_reply ++ [7; 8]%N) /\
    region_upstream_half_close (concat [symseq 0 3000; [1; 2]%N]) true UOnEOF UClose = false /\
    spec_b KWs false [] (concat [symseq 0 3000; [1; 2]%N]) false CHalf UOnEOF (wit_reply ++ [7; 8]%N) UClose
      (symseq 0 3000 ++ [1; 2]%N) (wit_reply ++ [7; 8]%N) = true /\
    spec_b KWs false [] (concat [symseq 0 3000; [1; 2]%N]) false CHalf UOnEOF (wit_reply ++ [7; 8]%N) UClose
      (symseq 0 1024 ++ [1; 2]%N) (wit_reply ++ [7; 8]%N) = false.
Proof. eexists. repeat split; vm_compute; reflexivity. Qed.
