(** Proofs for C13 (redirect routes). *)
From Coq Require Import String List NArith ZArith Bool Lia.
From Fabio Require Import Lib.Outcome Lib.Bytes Model.Redirect Model.RedirectSpec.
Import ListNotations.
Local Open Scope N_scope.

(* ------------------------------------------------------------------ *)
(** * list / string facts *)

Lemma is_nil_true {A} (l : list A) : is_nil l = true <-> l = [].
Proof. destruct l; cbn; split; intros H; try reflexivity; discriminate. Qed.
Lemma is_nil_false {A} (l : list A) : is_nil l = false <-> l <> [].
Proof. destruct l; cbn; split; intros H; try reflexivity; try discriminate; congruence. Qed.

Lemma skipn_len_app {A} (a b : list A) : skipn (length a) (a ++ b) = b.
Proof. induction a; cbn; auto. Qed.
Lemma firstn_len_app {A} (a b : list A) : firstn (length a) (a ++ b) = a.
Proof. induction a; cbn; congruence. Qed.
Lemma skipn_len_plus_app {A} (a b c : list A) : skipn (length a + length b) (a ++ b ++ c) = c.
Proof. rewrite <- app_length, app_assoc. apply skipn_len_app. Qed.

Lemma has_prefix_app s r : has_prefix (s ++ r) s = true.
Proof. apply has_prefix_spec. now exists r. Qed.
Lemma has_prefix_nil s : has_prefix s [] = true.
Proof. reflexivity. Qed.
Lemma trim_prefix_nil s : trim_prefix s [] = s.
Proof. reflexivity. Qed.

Lemma memb_false_in c l : memb c l = false -> ~ In c l.
Proof.
  unfold memb. intros H Hin. assert (existsb (N.eqb c) l = true) as E.
  { apply existsb_exists. exists c. split; [exact Hin | apply N.eqb_refl]. }
  congruence.
Qed.
Lemma no_dollar_cons c s : no_dollar (c :: s) = true -> c <> 36 /\ no_dollar s = true.
Proof.
  unfold no_dollar, memb. cbn [existsb]. intros H. apply negb_true_iff, orb_false_iff in H as [H1 H2].
  split; [|now rewrite H2]. intros ->. discriminate.
Qed.
Lemma no_dollar_app a b : no_dollar (a ++ b) = true <-> no_dollar a = true /\ no_dollar b = true.
Proof.
  unfold no_dollar, memb. rewrite existsb_app, negb_orb, andb_true_iff. reflexivity.
Qed.

(* where "$path" and "/$path" sit in  pre ++ ... when pre has no '$' *)
Lemma index_cons c s sub : index (c :: s) sub =
  if has_prefix (c :: s) sub then Some O
  else match index s sub with Some i => Some (S i) | None => None end.
Proof. reflexivity. Qed.
Lemma index_here s r : s <> [] -> index (s ++ r) s = Some O.
Proof.
  intros H. destruct s as [|c s]; [contradiction|]. cbn [app]. rewrite index_cons.
  change (c :: s ++ r) with ((c :: s) ++ r). now rewrite has_prefix_app.
Qed.
Lemma has_prefix_vpath_no c s : c <> 36 -> has_prefix (c :: s) v_path = false.
Proof.
  intros H. unfold v_path. cbn [has_prefix]. destruct (c =? 36) eqn:E; [apply N.eqb_eq in E; contradiction|reflexivity].
Qed.
Lemma has_prefix_slashpath_no c s : (match s with x :: _ => x <> 36 | [] => True end) ->
  has_prefix (c :: s) v_slash_path = false.
Proof.
  intros H. unfold v_slash_path, v_path. cbn [has_prefix]. destruct (c =? 47); [|reflexivity]. cbn [andb].
  destruct s as [|x s]; [reflexivity|]. destruct (x =? 36) eqn:E; [apply N.eqb_eq in E; contradiction|reflexivity].
Qed.
Lemma index_vpath_none s : no_dollar s = true -> index s v_path = None.
Proof.
  induction s as [|c s IH]; intros H; [reflexivity|].
  apply no_dollar_cons in H as [Hc Hs]. rewrite index_cons, (has_prefix_vpath_no c s Hc), (IH Hs). reflexivity.
Qed.
Lemma index_vpath pre r : no_dollar pre = true -> index (pre ++ v_path ++ r) v_path = Some (length pre).
Proof.
  induction pre as [|c pre IH]; intros H.
  - cbn [app length]. apply index_here. discriminate.
  - apply no_dollar_cons in H as [Hc Hs]. cbn [app length].
    rewrite index_cons, (has_prefix_vpath_no c _ Hc), (IH Hs). reflexivity.
Qed.
Lemma index_vslash_none s : no_dollar s = true -> index s v_slash_path = None.
Proof.
  induction s as [|c s IH]; intros H; [reflexivity|].
  apply no_dollar_cons in H as [Hc Hs]. rewrite index_cons.
  rewrite has_prefix_slashpath_no, (IH Hs); [reflexivity|].
  destruct s as [|x s]; [exact I|]. now apply no_dollar_cons in Hs as [Hx _].
Qed.
Lemma index_vslash pre r : no_dollar pre = true ->
  index (pre ++ v_slash_path ++ r) v_slash_path = Some (length pre).
Proof.
  induction pre as [|c pre IH]; intros H.
  - cbn [app length]. apply index_here. discriminate.
  - apply no_dollar_cons in H as [Hc Hs]. cbn [app length]. rewrite index_cons.
    rewrite has_prefix_slashpath_no, (IH Hs); [reflexivity|].
    destruct pre as [|x pre]; cbn [app]; [unfold v_slash_path; discriminate|].
    now apply no_dollar_cons in Hs as [Hx _].
Qed.
(* no "/$path" when the byte before "$path" is not a slash *)
Definition ends_slash (s : str) : bool := match rev s with c :: _ => c =? 47 | [] => false end.
Lemma ends_slash_cons c s : s <> [] -> ends_slash (c :: s) = ends_slash s.
Proof.
  intros H. unfold ends_slash. cbn [rev]. destruct (rev s) eqn:E.
  - apply (f_equal (@rev N)) in E. rewrite rev_involutive in E. contradiction.
  - reflexivity.
Qed.
Lemma index_vslash_noslash pre r : no_dollar pre = true -> no_dollar r = true -> ends_slash pre = false ->
  index (pre ++ v_path ++ r) v_slash_path = None.
Proof.
  induction pre as [|c pre IH]; intros H Hr He.
  - cbn [app]. unfold v_path at 1. cbn [app]. rewrite index_cons.
    rewrite has_prefix_slashpath_no by (intros X; discriminate X).
    rewrite index_vslash_none; [reflexivity|].
    change (112 :: 97 :: 116 :: 104 :: r) with ([112;97;116;104] ++ r).
    apply no_dollar_app. split; [reflexivity|exact Hr].
  - apply no_dollar_cons in H as [Hc Hs]. cbn [app]. rewrite index_cons.
    destruct pre as [|x pre].
    + assert (c <> 47) as Hc47 by (intros ->; discriminate He).
      assert (has_prefix (c :: [] ++ v_path ++ r) v_slash_path = false) as ->.
      { unfold v_slash_path. cbn [has_prefix]. destruct (c =? 47) eqn:E; [apply N.eqb_eq in E; contradiction|reflexivity]. }
      rewrite IH; auto.
    + rewrite has_prefix_slashpath_no by (cbn [app]; now apply no_dollar_cons in Hs as [Hx _]).
      rewrite IH; auto. rewrite <- He. symmetry. apply ends_slash_cons. discriminate.
Qed.

Lemma replace_first_at s old new i : index s old = Some i ->
  replace_first s old new = firstn i s ++ new ++ skipn (i + length old) s.
Proof. unfold replace_first. now intros ->. Qed.
Lemma replace_first_none s old new : index s old = None -> replace_first s old new = s.
Proof. unfold replace_first. now intros ->. Qed.
Lemma replace_if_contains s old new :
  (if contains s old then replace_first s old new else s) = replace_first s old new.
Proof. unfold contains, replace_first. destruct (index s old); reflexivity. Qed.

Lemma replace_vpath pre r x : no_dollar pre = true -> replace_first (pre ++ v_path ++ r) v_path x = pre ++ x ++ r.
Proof.
  intros H. rewrite (replace_first_at _ _ _ _ (index_vpath pre r H)).
  now rewrite firstn_len_app, skipn_len_plus_app.
Qed.
Lemma replace_vslash pre r x : no_dollar pre = true ->
  replace_first (pre ++ v_slash_path ++ r) v_slash_path x = pre ++ x ++ r.
Proof.
  intros H. rewrite (replace_first_at _ _ _ _ (index_vslash pre r H)).
  now rewrite firstn_len_app, skipn_len_plus_app.
Qed.

Lemma forallb_firstn {A} (f : A -> bool) n l : forallb f l = true -> forallb f (firstn n l) = true.
Proof. revert n; induction l as [|a l IH]; intros [|n] H; cbn in *; auto. apply andb_true_iff in H as [H1 H2]. rewrite H1. now apply IH. Qed.
Lemma forallb_skipn {A} (f : A -> bool) n l : forallb f l = true -> forallb f (skipn n l) = true.
Proof. revert n; induction l as [|a l IH]; intros [|n] H; cbn in *; auto. apply andb_true_iff in H as [H1 H2]. now apply IH. Qed.

(* ------------------------------------------------------------------ *)
(** * net/url on token lists *)

Lemma escape_app a b m : escape (a ++ b) m = escape a m ++ escape b m.
Proof. unfold escape. apply flat_map_app. Qed.
Lemma escape_id s m : forallb (fun c => negb (should_escape c m)) s = true -> escape s m = s.
Proof.
  induction s as [|c s IH]; intros H; [reflexivity|]. cbn [forallb] in H. apply andb_true_iff in H as [H1 H2].
  unfold escape in *. cbn [flat_map]. unfold escape_byte at 1. apply negb_true_iff in H1. rewrite H1.
  cbn [app]. now rewrite IH.
Qed.
Lemma escape_plain s : plain s = true -> escape s EncPath = s.
Proof. apply escape_id. Qed.

Lemma render_app a b : render (a ++ b) = render a ++ render b.
Proof. apply flat_map_app. Qed.
Lemma decode_app a b : decode (a ++ b) = decode a ++ decode b.
Proof. apply map_app. Qed.
Lemma render_lit s : render (map Lit s) = s.
Proof. induction s as [|c s IH]; [reflexivity|]. unfold render in *. cbn [map flat_map render_tok app]. now rewrite IH. Qed.
Lemma decode_lit s : decode (map Lit s) = s.
Proof. induction s as [|c s IH]; [reflexivity|]. unfold decode in *. cbn [map decode_tok]. now rewrite IH. Qed.
Lemma ok_lit s : plain s = true -> forallb tok_ok (map Lit s) = true.
Proof.
  unfold plain. induction s as [|c s IH]; intros H; [reflexivity|]. cbn [forallb map] in *.
  apply andb_true_iff in H as [H1 H2]. cbn [tok_ok]. unfold lit_ok. rewrite H1. now apply IH.
Qed.

Lemma plain_not_pct c : lit_ok c = true -> (c =? 37) = false.
Proof. intros H. destruct (c =? 37) eqn:E; [|reflexivity]. apply N.eqb_eq in E. subst. discriminate H. Qed.
Lemma lax_valid c : memb c lax7 = true -> memb c valid_extra = true.
Proof.
  unfold lax7, memb. cbn [existsb]. intros H.
  repeat match type of H with
         | (c =? ?k) || _ = true =>
             let E := fresh "E" in destruct (c =? k) eqn:E; [apply N.eqb_eq in E; subst c; reflexivity | cbn [orb] in H]
         end.
  discriminate H.
Qed.
Lemma plain_no_lax c : plain_byte c = true -> negb (memb c lax7) = true.
Proof.
  intros Ht. unfold plain_byte, should_escape in Ht. unfold lax7, memb. cbn [existsb].
  destruct (c =? 33) eqn:E1; [apply N.eqb_eq in E1; subst; discriminate Ht|].
  destruct (c =? 39) eqn:E2; [apply N.eqb_eq in E2; subst; discriminate Ht|].
  destruct (c =? 40) eqn:E3; [apply N.eqb_eq in E3; subst; discriminate Ht|].
  destruct (c =? 41) eqn:E4; [apply N.eqb_eq in E4; subst; discriminate Ht|].
  destruct (c =? 42) eqn:E5; [apply N.eqb_eq in E5; subst; discriminate Ht|].
  destruct (c =? 91) eqn:E6; [apply N.eqb_eq in E6; subst; discriminate Ht|].
  destruct (c =? 93) eqn:E7; [apply N.eqb_eq in E7; subst; discriminate Ht|].
  reflexivity.
Qed.
Lemma plain_no_lax_s s : plain s = true -> forallb (fun c => negb (memb c lax7)) s = true.
Proof.
  unfold plain. induction s as [|c s IH]; intros H; [reflexivity|]. cbn [forallb] in *.
  apply andb_true_iff in H as [H1 H2]. now rewrite (plain_no_lax c H1), IH.
Qed.

Lemma ishex_alnum c : ishex c = true -> is_alnum c = true.
Proof.
  unfold ishex, is_alnum. intros H.
  repeat match type of H with _ || _ = true => apply orb_true_iff in H as [H|H] end;
    apply andb_true_iff in H as [H1 H2]; apply N.leb_le in H1, H2.
  - replace ((48 <=? c) && (c <=? 57)) with true; [now rewrite !orb_true_r|].
    symmetry. apply andb_true_iff; split; apply N.leb_le; lia.
  - replace ((97 <=? c) && (c <=? 122)) with true; [reflexivity|].
    symmetry. apply andb_true_iff; split; apply N.leb_le; lia.
  - replace ((65 <=? c) && (c <=? 90)) with true; [now rewrite orb_true_r|].
    symmetry. apply andb_true_iff; split; apply N.leb_le; lia.
Qed.
Lemma alnum_valid c : is_alnum c = true -> valid_encoded_byte c = true.
Proof. intros H. unfold valid_encoded_byte, should_escape. rewrite H. now rewrite orb_true_r. Qed.

Lemma unescape_render ts s : forallb tok_ok ts = true ->
  unescape_path (render ts ++ s) = option_map (app (decode ts)) (unescape_path s).
Proof.
  induction ts as [|t ts IH]; intros H.
  - cbn. destruct (unescape_path s); reflexivity.
  - cbn [forallb] in H. apply andb_true_iff in H as [Ht Hts]. specialize (IH Hts).
    destruct t as [c|h l]; cbn [tok_ok] in Ht.
    + cbn [render flat_map render_tok app decode map decode_tok]. cbn [unescape_path].
      rewrite (plain_not_pct c Ht). fold (render ts). rewrite IH. fold (decode ts).
      destruct (unescape_path s); reflexivity.
    + apply andb_true_iff in Ht as [Hh _].
      cbn [render flat_map render_tok app decode map decode_tok]. cbn [unescape_path].
      rewrite N.eqb_refl, Hh. fold (render ts). rewrite IH. fold (decode ts).
      destruct (unescape_path s); reflexivity.
Qed.
Lemma unescape_render0 ts : forallb tok_ok ts = true -> unescape_path (render ts) = Some (decode ts).
Proof.
  intros H. rewrite <- (app_nil_r (render ts)), (unescape_render ts [] H). cbn. now rewrite app_nil_r.
Qed.

Lemma valid_render ts : forallb tok_ok ts = true -> valid_encoded_path (render ts) = true.
Proof.
  unfold valid_encoded_path. induction ts as [|t ts IH]; intros H; [reflexivity|].
  cbn [forallb] in H. apply andb_true_iff in H as [Ht Hts]. specialize (IH Hts).
  destruct t as [c|h l]; cbn [tok_ok] in Ht; cbn [render flat_map render_tok app forallb]; fold (render ts); rewrite IH.
  - unfold valid_encoded_byte. unfold lit_ok in Ht. apply orb_true_iff in Ht as [Ht|Ht].
    + unfold plain_byte in Ht. rewrite Ht. now rewrite orb_true_r.
    + now rewrite (lax_valid c Ht).
  - apply andb_true_iff in Ht as [Hh _]. apply andb_true_iff in Hh as [Hh Hl].
    rewrite (alnum_valid h (ishex_alnum h Hh)), (alnum_valid l (ishex_alnum l Hl)). reflexivity.
Qed.

(* a path that is in net/url's default encoding decodes to bytes other than ! ' ( ) * [ ] *)
Lemma canonical_no_lax ts : forallb tok_ok ts = true -> escape (decode ts) EncPath = render ts ->
  forallb (fun c => negb (memb c lax7)) (decode ts) = true.
Proof.
  induction ts as [|t ts IH]; intros H He; [reflexivity|].
  cbn [forallb] in H. apply andb_true_iff in H as [Ht Hts]. cbn [decode map forallb]. fold (decode ts).
  unfold escape, decode in He. cbn [map flat_map] in He. fold (decode ts) in He. fold (escape (decode ts) EncPath) in He.
  unfold render in He. cbn [flat_map] in He. fold (render ts) in He.
  destruct t as [c|h l]; cbn [tok_ok decode_tok render_tok] in *.
  - unfold escape_byte in He. destruct (should_escape c EncPath) eqn:Es.
    + unfold pct in He. cbn [app] in He. inversion He as [[Hc Hr]].
      assert (E := plain_not_pct c Ht). rewrite <- Hc in E. discriminate E.
    + cbn [app] in He. inversion He as [Hr]. rewrite (IH Hts Hr), andb_true_r.
      apply plain_no_lax. unfold plain_byte. now rewrite Es.
  - apply andb_true_iff in Ht as [_ Hv]. rewrite Hv. cbn [andb]. apply (IH Hts).
    unfold escape_byte in He. destruct (should_escape (unhex h * 16 + unhex l) EncPath) eqn:Es.
    + unfold pct in He. cbn [app] in He. inversion He. reflexivity.
    + cbn [app] in He. inversion He as [[Hc Hr]]. rewrite Hc in Es. discriminate Es.
Qed.

(* unescape never lengthens, and shortens as soon as there is a '%' *)
Lemma unescape_len n : forall s r, (length s <= n)%nat -> unescape_path s = Some r ->
  (length r <= length s)%nat /\ (In 37 s -> (length r < length s)%nat).
Proof.
  induction n as [|n IH]; intros s r Hn H.
  - destruct s; [|cbn in Hn; lia]. cbn in H. inversion H. cbn. split; [lia|intros []].
  - destruct s as [|c s]; [cbn in H; inversion H; cbn; split; [lia|intros []]|].
    cbn [unescape_path] in H. cbn [length] in Hn. destruct (c =? 37) eqn:E.
    + destruct s as [|h [|l s']]; try discriminate H.
      destruct (ishex h && ishex l); [|discriminate H].
      destruct (unescape_path s') as [d|] eqn:U; [|discriminate H]. inversion H; subst r.
      apply IH in U as [U1 _]; [|cbn [length] in Hn; lia]. cbn [length]. split; [lia|intros _; lia].
    + destruct (unescape_path s) as [d|] eqn:U; [|discriminate H]. inversion H; subst r.
      apply IH in U as [U1 U2]; [|lia]. cbn [length]. split; [lia|].
      intros [Hc|Hin]; [subst c; rewrite N.eqb_refl in E; discriminate E | apply U2 in Hin; lia].
Qed.
Lemma unescape_fix_no_pct s : unescape_path s = Some s -> ~ In 37 s.
Proof. intros H Hin. destruct (unescape_len (length s) s s (le_n _) H) as [_ H2]. apply H2 in Hin. lia. Qed.

(* EscapedPath when the raw track is a valid escaping of the decoded track *)
Lemma escaped_path_raw sc h T qy : forallb tok_ok T = true -> render T <> [] ->
  escaped_path (mkUrl sc h (decode T) (render T) qy) = render T.
Proof.
  intros Hok Hne. unfold escaped_path. cbn [u_rawpath u_path].
  apply is_nil_false in Hne. rewrite Hne, (valid_render T Hok), (unescape_render0 T Hok), beq_refl. reflexivity.
Qed.

(* EscapedPath when both tracks hold the same decoded text: the default encoding *)
Lemma escaped_path_same sc h X qy :
  forallb (fun c => negb (memb c lax7)) X = true ->
  escaped_path (mkUrl sc h X X qy) = escape X EncPath.
Proof.
  intros Hlax. unfold escaped_path. cbn [u_rawpath u_path].
  assert (beq X [42] = false) as Hstar.
  { apply beq_neq. intros ->. discriminate Hlax. }
  rewrite Hstar.
  destruct (negb (is_nil X) && valid_encoded_path X &&
            match unescape_path X with Some p => beq p X | None => false end) eqn:C; [|reflexivity].
  apply andb_true_iff in C as [C1 C3]. apply andb_true_iff in C1 as [_ C2].
  destruct (unescape_path X) as [p|] eqn:U; [|discriminate C3]. apply beq_eq in C3. subst p.
  apply unescape_fix_no_pct in U. symmetry. apply escape_id.
  apply forallb_forall. intros c Hc.
  unfold valid_encoded_path in C2. rewrite forallb_forall in C2, Hlax. specialize (C2 c Hc). specialize (Hlax c Hc).
  unfold valid_encoded_byte in C2. apply orb_true_iff in C2 as [C2|C2]; [|exact C2].
  assert (c <> 37) as Hp by (intros ->; contradiction).
  unfold valid_extra, memb in C2. cbn [existsb] in C2.
  repeat match type of C2 with
         | (c =? ?k) || _ = true =>
             let E := fresh "E" in
             destruct (c =? k) eqn:E;
             [apply N.eqb_eq in E; subst c; first [reflexivity | discriminate Hlax | exfalso; apply Hp; reflexivity]
             | cbn [orb] in C2]
         end.
  discriminate C2.
Qed.


(* ------------------------------------------------------------------ *)
(** * BuildRedirectURL on the documented template shapes *)

Definition sl (b : bool) : str := if b then [47] else [].
(* the text that replaces $path on the raw track *)
Definition rawsel (q : request) : str := if is_nil (q_rawpath q) then q_path q else q_rawpath q.
Definition carried_query (tq : str) (q : request) : str :=
  if is_nil tq && negb (is_nil (q_query q)) then q_query q else tq.

(* the URL BuildRedirectURL leaves for a template  HOST pre $path post *)
Definition built (sc hp pre post tq st pp : str) (q : request) : url :=
  let path := pre ++ (pp ++ trim_prefix (q_path q) st) ++ post in
  mkUrl sc (replace_first hp v_host (q_host q)) (if is_nil path then [47] else path)
        (pre ++ (pp ++ trim_prefix (rawsel q) st) ++ post) (carried_query tq q).

Lemma strip_step (st a b : str) :
  (if negb (is_nil st)
   then (if has_prefix a st then skipn (length st) a else a, if has_prefix b st then skipn (length st) b else b)
   else (a, b)) = (trim_prefix a st, trim_prefix b st).
Proof. destruct st; reflexivity. Qed.
Lemma prepend_step (pp a b : str) :
  (if negb (is_nil pp) then (pp ++ a, pp ++ b) else (a, b)) = (pp ++ a, pp ++ b).
Proof. destruct pp; reflexivity. Qed.

(* scheme://HOST/pre[/]$path post *)
Lemma build_shape id sc hp pre slash post tq st pp code q :
  has_suffix hp v_path = false ->
  no_dollar pre = true -> no_dollar post = true -> (slash = false -> ends_slash pre = false) ->
  build_redirect_url (mkTarget id sc hp (pre ++ sl slash ++ v_path ++ post) tq st pp code) q =
  built sc hp pre post tq st pp q.
Proof.
  intros Hsuf Hpre Hpost Hsl. unfold built, build_redirect_url.
  cbn [t_host t_path t_query t_strip t_prepend t_scheme]. rewrite Hsuf. cbv beta iota.
  match goal with |- context [if contains ?a v_slash_path then ?x else ?y] =>
    replace (if contains a v_slash_path then x else y) with (pre ++ v_path ++ post, pre ++ v_path ++ post) end.
  2:{ destruct slash.
    - change (pre ++ sl true ++ v_path ++ post) with (pre ++ v_slash_path ++ post).
      unfold contains. rewrite (index_vslash pre post Hpre). now rewrite (replace_vslash pre post v_path Hpre).
    - cbn [sl app]. unfold contains. now rewrite (index_vslash_noslash pre post Hpre Hpost (Hsl eq_refl)). }
  cbv beta iota.
  unfold contains at 1. rewrite (index_vpath pre post Hpre).
  fold (rawsel q). rewrite strip_step, prepend_step.
  rewrite !(replace_vpath pre post _ Hpre). rewrite replace_if_contains. reflexivity.
Qed.

(* scheme://HOST$path : after fix e4368b6 both tracks carry the placeholder *)
Lemma build_adjacent id sc hp tq st pp code q :
  build_redirect_url (mkTarget id sc (hp ++ v_path) [] tq st pp code) q = built sc hp [] [] tq st pp q.
Proof.
  unfold built, build_redirect_url. cbn [t_host t_path t_query t_strip t_prepend t_scheme].
  assert (has_suffix (hp ++ v_path) v_path = true) as -> by (apply has_suffix_spec; now exists hp).
  assert (firstn (length (hp ++ v_path) - length v_path) (hp ++ v_path) = hp) as ->.
  { rewrite app_length, Nat.add_sub. apply firstn_len_app. }
  cbv beta iota.
  change (contains v_path v_slash_path) with false. cbv beta iota.
  change (contains v_path v_path) with true. cbv beta iota.
  fold (rawsel q). rewrite strip_step, prepend_step.
  assert (forall x, replace_first v_path v_path x = x) as Hr.
  { intros x. unfold replace_first. change (index v_path v_path) with (Some O). cbn. apply app_nil_r. }
  rewrite !Hr. rewrite replace_if_contains. cbn [app]. rewrite !app_nil_r. reflexivity.
Qed.
(* before the fix the raw track stayed empty *)
Lemma build_adjacent_unrepaired id sc hp tq st pp code q :
  build_redirect_url_unrepaired (mkTarget id sc (hp ++ v_path) [] tq st pp code) q =
  let path := pp ++ trim_prefix (q_path q) st in
  mkUrl sc (replace_first hp v_host (q_host q)) (if is_nil path then [47] else path) [] (carried_query tq q).
Proof.
  unfold build_redirect_url_unrepaired. cbn [t_host t_path t_query t_strip t_prepend t_scheme].
  assert (has_suffix (hp ++ v_path) v_path = true) as -> by (apply has_suffix_spec; now exists hp).
  assert (firstn (length (hp ++ v_path) - length v_path) (hp ++ v_path) = hp) as ->.
  { rewrite app_length, Nat.add_sub. apply firstn_len_app. }
  change (contains v_path v_slash_path) with false. cbv iota.
  change (contains v_path v_path) with true. cbv iota.
  fold (rawsel q). rewrite strip_step, prepend_step.
  change (replace_first [] v_path (pp ++ trim_prefix (rawsel q) st)) with (@nil N).
  assert (forall x, replace_first v_path v_path x = x) as Hr.
  { intros x. unfold replace_first. change (index v_path v_path) with (Some O). cbn. apply app_nil_r. }
  rewrite Hr. rewrite replace_if_contains. reflexivity.
Qed.

(* a template without $path *)
Lemma build_static id sc hp path tq st pp code q :
  has_suffix hp v_path = false -> no_dollar path = true ->
  build_redirect_url (mkTarget id sc hp path tq st pp code) q =
  mkUrl sc (replace_first hp v_host (q_host q)) (if is_nil path then [47] else path) path tq.
Proof.
  intros Hsuf Hp. unfold build_redirect_url. cbn [t_host t_path t_query t_strip t_prepend t_scheme]. rewrite Hsuf.
  unfold contains. rewrite (index_vslash_none path Hp), (index_vpath_none path Hp).
  fold (contains hp v_host). rewrite replace_if_contains. reflexivity.
Qed.

(* ------------------------------------------------------------------ *)
(** * strip on the token level *)
Lemma strip_tokens st : plain st = true -> forall ts, has_prefix (render ts) st = true ->
  exists ts2, ts = map Lit st ++ ts2.
Proof.
  induction st as [|c st IH]; intros Hp ts H; [now exists ts|].
  cbn [plain forallb] in Hp. apply andb_true_iff in Hp as [Hc Hst].
  destruct ts as [|t ts]; [discriminate H|].
  destruct t as [x|h l]; cbn [render flat_map render_tok app has_prefix] in H; apply andb_true_iff in H as [H1 H2].
  - apply N.eqb_eq in H1. subst x. destruct (IH Hst ts H2) as [ts2 ->]. now exists ts2.
  - apply N.eqb_eq in H1. subst c. discriminate Hc.
Qed.

Lemma trim_tokens st ts : plain st = true -> forallb tok_ok ts = true ->
  Bool.eqb (has_prefix (decode ts) st) (has_prefix (render ts) st) = true ->
  exists ts', forallb tok_ok ts' = true
    /\ trim_prefix (render ts) st = render ts' /\ trim_prefix (decode ts) st = decode ts'
    /\ (escape (decode ts) EncPath = render ts -> escape (decode ts') EncPath = render ts').
Proof.
  intros Hp Hok Hc. apply eqb_prop in Hc. unfold trim_prefix. rewrite Hc.
  destruct (has_prefix (render ts) st) eqn:E.
  - destruct (strip_tokens st Hp ts E) as [ts2 ->]. exists ts2.
    rewrite forallb_app in Hok. apply andb_true_iff in Hok as [_ Hok2].
    rewrite render_app, decode_app, render_lit, decode_lit, !skipn_len_app.
    repeat split; auto. rewrite escape_app, (escape_plain st Hp). apply app_inv_head.
  - exists ts. auto.
Qed.

(* ------------------------------------------------------------------ *)
(** * URL.String of the built URL *)
Lemma host_plain_replace hp h : host_plain hp = true -> host_plain h = true ->
  host_plain (replace_first hp v_host h) = true.
Proof.
  intros H1 H2. unfold replace_first. destruct (index hp v_host) as [i|]; [|exact H1].
  unfold host_plain. rewrite !forallb_app. rewrite (forallb_firstn _ i hp H1), (forallb_skipn _ _ hp H1).
  unfold host_plain in H2. now rewrite H2.
Qed.
Lemma replace_nonempty hp h : hp <> [] -> h <> [] -> replace_first hp v_host h <> [].
Proof.
  intros H1 H2. unfold replace_first. destruct (index hp v_host) as [i|]; [|exact H1].
  intros E. apply app_eq_nil in E as [_ E]. apply app_eq_nil in E as [E _]. contradiction.
Qed.

Lemma url_string_shape sc H P R Q E :
  sc <> [] -> H <> [] -> host_plain H = true -> E <> [] ->
  escaped_path (mkUrl sc H P R Q) = E ->
  url_string (mkUrl sc H P R Q) = sc ++ [58;47;47] ++ H ++ norm_path E ++ qs Q.
Proof.
  intros Hsc HH Hpl HEne HE. unfold url_string. cbn [u_scheme u_host u_path u_query]. rewrite HE.
  apply is_nil_false in Hsc, HH. rewrite Hsc, HH. cbn [negb orb].
  rewrite (escape_id H EncHost Hpl). unfold qs, norm_path.
  rewrite <- !app_assoc. f_equal. cbn [app]. f_equal. f_equal. f_equal. f_equal.
  destruct E as [|c E']; [contradiction|]. destruct (c =? 47) eqn:Ec.
  - apply N.eqb_eq in Ec. subst c. reflexivity.
  - cbn [negb andb app]. destruct c as [|p]; [reflexivity|].
    destruct p as [p|p|]; try reflexivity; destruct p as [p|p|]; try reflexivity;
    destruct p as [p|p|]; try reflexivity; destruct p as [p|p|]; try reflexivity;
    destruct p as [p|p|]; try reflexivity; destruct p as [p|p|]; try reflexivity.
    discriminate Ec.
Qed.

(* ------------------------------------------------------------------ *)
(** * location_spec *)

(* what url.setPath makes of a request path on the token domain *)
Lemma set_path_tokens ts d r : forallb tok_ok ts = true -> set_path (render ts) = Some (d, r) ->
  d = decode ts /\ ((r = [] /\ escape (decode ts) EncPath = render ts) \/ (r = render ts /\ r <> [])).
Proof.
  intros Hok H. unfold set_path in H. rewrite (unescape_render0 ts Hok) in H.
  destruct (beq (render ts) (escape (decode ts) EncPath)) eqn:E; inversion H; subst; split; auto.
  - left. split; auto. apply beq_eq in E. now symmetry.
  - right. split; auto. intros E2. rewrite E2 in E.
    destruct ts as [|t ts]; [discriminate E|]. destruct t; discriminate E2.
Qed.

Lemma norm_path_nil : norm_path [] = [47].
Proof. reflexivity. Qed.

Definition expected_str (sc hp pp st tq qy h : str) (ts : list tok) (pre post : str) : str :=
  sc ++ [58;47;47] ++ replace_first hp v_host h
  ++ norm_path (pre ++ pp ++ trim_prefix (render ts) st ++ post) ++ qs (if is_nil tq then qy else tq).

Lemma carried_query_eq tq h d r qy xfp tls :
  carried_query tq (mkReq h d r qy xfp tls) = if is_nil tq then qy else tq.
Proof. unfold carried_query. cbn [q_query]. destruct tq, qy; reflexivity. Qed.

Section Location.
  Variables (id : nat) (sc hp pre post tq st pp : str) (slash : bool) (code : Z).
  Variables (ts : list tok) (h qy xfp : str) (tls : bool) (d r : str).
  Hypothesis Hsc : sc <> [].
  Hypothesis Hhp : hp <> [].
  Hypothesis Hhp_plain : host_plain hp = true.
  Hypothesis Hh : h <> [].
  Hypothesis Hh_plain : host_plain h = true.
  Hypothesis Hst : plain st = true.
  Hypothesis Hpp : plain pp = true.
  Hypothesis Hts : forallb tok_ok ts = true.
  Hypothesis Hparse : set_path (render ts) = Some (d, r).
  Hypothesis Hcons : Bool.eqb (has_prefix d st) (has_prefix (render ts) st) = true.

  Local Notation q := (mkReq h d r qy xfp tls).
  Local Notation expected := (expected_str sc hp pp st tq qy h ts).


  (* the raw request path is kept in the URL built for  HOST pre $path post *)
  Lemma location_built :
    plain pre = true -> plain post = true ->
    url_string (built sc hp pre post tq st pp q) = expected pre post.
  Proof.
    intros Hpre Hpost. unfold built. cbv zeta.
    destruct (set_path_tokens ts d r Hts Hparse) as [Hd Hr]. subst d.
    destruct (trim_tokens st ts Hst Hts Hcons) as (ts' & Hok' & Hraw & Hdec & Hesc).
    cbn [q_path q_host]. rewrite Hdec, carried_query_eq.
    set (T := map Lit pre ++ map Lit pp ++ ts' ++ map Lit post).
    assert (forallb tok_ok T = true) as HT.
    { unfold T. rewrite !forallb_app, (ok_lit pre Hpre), (ok_lit pp Hpp), (ok_lit post Hpost), Hok'. reflexivity. }
    assert (decode T = pre ++ (pp ++ decode ts') ++ post) as HdT.
    { unfold T. rewrite !decode_app, !decode_lit. now rewrite <- !app_assoc. }
    assert (render T = pre ++ pp ++ render ts' ++ post) as HrT.
    { unfold T. now rewrite !render_app, !render_lit. }
    unfold expected_str. rewrite Hraw, <- HrT, <- HdT.
    assert (Hhost := host_plain_replace hp h Hhp_plain Hh_plain).
    assert (Hne := replace_nonempty hp h Hhp Hh).
    destruct (is_nil (decode T)) eqn:En.
    - (* empty path: "/" *)
      apply is_nil_true in En. assert (T = []) as HT0 by (destruct T; [reflexivity|discriminate En]).
      rewrite HT0. cbn [render flat_map]. rewrite norm_path_nil.
      rewrite (url_string_shape sc _ [47] _ _ [47]); auto; try discriminate.
      unfold escaped_path. cbn [u_rawpath u_path].
      destruct (negb (is_nil _) && valid_encoded_path _ && _) eqn:C; [|reflexivity].
      exfalso. apply andb_true_iff in C as [C _]. apply andb_true_iff in C as [C _].
      apply negb_true_iff, is_nil_false in C. apply C.
      unfold rawsel. cbn [q_rawpath q_path].
      assert (pre = [] /\ pp = [] /\ ts' = [] /\ post = []) as (-> & -> & -> & ->).
      { unfold T in HT0. apply app_eq_nil in HT0 as [A1 HT0]. apply app_eq_nil in HT0 as [A2 HT0].
        apply app_eq_nil in HT0 as [A3 A4]. apply map_eq_nil in A1, A2, A4. auto. }
      cbn [app]. rewrite app_nil_r.
      destruct Hr as [[-> He]|[-> Hn]]; cbn [is_nil].
      + change (decode []) with (@nil N) in Hdec. exact Hdec.
      + apply is_nil_false in Hn. rewrite Hn. exact Hraw.
    - apply is_nil_false in En.
      assert (render T <> []) as HrTne.
      { intros E0. apply En. destruct T as [|t T']; [reflexivity|]. destruct t; discriminate E0. }
      rewrite (url_string_shape sc _ _ _ _ (render T)); auto.
      destruct Hr as [[-> He]|[-> Hn]].
      + (* default encoding on the wire: both tracks carry the decoded text *)
        unfold rawsel. cbn [q_rawpath q_path is_nil]. rewrite Hdec, <- HdT.
        rewrite escaped_path_same
          by (rewrite HdT, !forallb_app, (plain_no_lax_s pre Hpre), (plain_no_lax_s pp Hpp), (plain_no_lax_s post Hpost),
                      (canonical_no_lax ts' Hok' (Hesc He)); reflexivity).
        rewrite HdT, HrT, !escape_app, (escape_plain pre Hpre), (escape_plain pp Hpp), (escape_plain post Hpost).
        rewrite (Hesc He). now rewrite <- !app_assoc.
      + unfold rawsel. cbn [q_rawpath q_path]. apply is_nil_false in Hn. rewrite Hn, Hraw.
        replace (pre ++ (pp ++ render ts') ++ post) with (render T) by (rewrite HrT; now rewrite <- !app_assoc).
        apply escaped_path_raw; auto.
  Qed.

  (* a template without $path: the target as written, the request URI is not included *)
  Lemma location_static path :
    has_suffix hp v_path = false -> plain path = true -> no_dollar path = true ->
    url_string (build_redirect_url (mkTarget id sc hp path tq st pp code) q) =
    sc ++ [58;47;47] ++ replace_first hp v_host h ++ norm_path path ++ qs tq.
  Proof.
    intros Hsuf Hpl Hnd. rewrite build_static; auto. cbn [q_host].
    assert (Hhost := host_plain_replace hp h Hhp_plain Hh_plain).
    assert (Hne := replace_nonempty hp h Hhp Hh).
    destruct path as [|c path'] eqn:Ep.
    - cbn [is_nil]. rewrite norm_path_nil. rewrite (url_string_shape sc _ [47] _ _ [47]); auto; discriminate.
    - cbn [is_nil]. rewrite <- Ep in *.
      rewrite (url_string_shape sc _ _ _ _ path); auto; [subst path; discriminate|].
      assert (path = render (map Lit path)) as E1 by now rewrite render_lit.
      assert (path = decode (map Lit path)) as E2 by now rewrite decode_lit.
      rewrite E1 at 2 3. rewrite E2 at 1. rewrite escaped_path_raw; [now rewrite render_lit| now apply ok_lit |].
      rewrite render_lit. subst path. discriminate.
  Qed.
End Location.

(* ------------------------------------------------------------------ *)
(** * the finding on the host-adjacent form *)
Definition ex_host : str := bs "foo.com".
Definition t_adjacent : target :=
  mkTarget 0 (bs "https") (v_host ++ v_path) [] [] [] [] 301%Z.       (* https://$host$path *)
Definition t_slash : target :=
  mkTarget 0 (bs "https") v_host (47 :: v_path) [] [] [] 301%Z.       (* https://$host/$path *)
Definition q_enc_slash : request := mkReq ex_host (bs "/a/b") (bs "/a%2Fb") [] [] false.

(* before fix e4368b6 (route/target.go: RawPath = "$path" in the glued-to-host branch) *)
Lemma host_adjacent_path_decoded_refuted :
  exists t wire q, tmpl_dom t = true /\ req_dom t wire q = true
    /\ set_path wire = Some (q_path q, q_rawpath q)
    /\ url_string (build_redirect_url_unrepaired t q) = bs "https://foo.com/a/b"
    /\ expected_location t wire q = bs "https://foo.com/a%2Fb"
    /\ region_adjacent_raw t q = true
    /\ url_string (build_redirect_url t q) = bs "https://foo.com/a%2Fb".
Proof. exists t_adjacent, (bs "/a%2Fb"), q_enc_slash. vm_compute. repeat split; reflexivity. Qed.

(* the same request through the form with a slash keeps %2F *)
Example slash_form_keeps_encoding :
  url_string (build_redirect_url t_slash q_enc_slash) = bs "https://foo.com/a%2Fb".
Proof. vm_compute. reflexivity. Qed.

(* ------------------------------------------------------------------ *)
(** * redirect codes *)
Lemma code_range opt : redirect_code opt = 0%Z \/ (300 <= redirect_code opt <= 399)%Z.
Proof.
  unfold redirect_code. destruct (is_nil opt); [now left|].
  destruct (atoi opt) as [v ok]. destruct ok; [|now left].
  destruct ((v <? 300)%Z || (v >? 399)%Z) eqn:E; [now left|right].
  apply orb_false_iff in E as [E1 E2]. apply Z.ltb_ge in E1. rewrite Z.gtb_ltb in E2. apply Z.ltb_ge in E2. lia.
Qed.

(* a three-digit 3xx option is kept as it is *)
Lemma code_three_digits a b : is_digit a = true -> is_digit b = true ->
  redirect_code [51; a; b] = (300 + 10 * Z.of_N (a - 48) + Z.of_N (b - 48))%Z.
Proof.
  intros Ha Hb. unfold is_digit in Ha, Hb. apply andb_true_iff in Ha as [Ha1 Ha2], Hb as [Hb1 Hb2].
  apply N.leb_le in Ha1, Ha2, Hb1, Hb2.
  unfold redirect_code. cbn [is_nil]. unfold atoi.
  assert (forallb is_digit [51; a; b] = true) as Hd.
  { cbn [forallb]. unfold is_digit. apply andb_true_iff; split; [reflexivity|].
    apply andb_true_iff; split; [apply andb_true_iff; split; apply N.leb_le; lia|].
    apply andb_true_iff; split; [apply andb_true_iff; split; apply N.leb_le; lia|reflexivity]. }
  rewrite Hd. cbn [is_nil negb orb].
  set (v := digits_val 0%Z [51; a; b]).
  assert (v = (300 + 10 * Z.of_N (a - 48) + Z.of_N (b - 48))%Z) as Hv.
  { unfold v. cbn [digits_val]. change (Z.of_N (51 - 48)) with 3%Z. lia. }
  assert (0 <= Z.of_N (a - 48) <= 9)%Z by lia. assert (0 <= Z.of_N (b - 48) <= 9)%Z by lia.
  destruct (v >=? 9223372036854775808)%Z eqn:E1; [apply Z.geb_le in E1; lia|].
  destruct ((v <? 300)%Z || (v >? 399)%Z) eqn:E2; [|exact Hv].
  apply orb_true_iff in E2 as [E2|E2]; [apply Z.ltb_lt in E2; lia|]. rewrite Z.gtb_ltb in E2. apply Z.ltb_lt in E2. lia.
Qed.

(* before fix fa24a7f (route/route.go: RedirectCode reset to 0 on an Atoi error) *)
Lemma code_range_refuted :
  exists opt, redirect_code_unrepaired opt = 9223372036854775807%Z /\ code_overflows opt = true
              /\ redirect_code opt = 0%Z.
Proof. exists (bs "99999999999999999999"). vm_compute. repeat split; reflexivity. Qed.
Example code_range_nonvacuous :
  redirect_code (bs "308") = 308%Z
  /\ redirect_code (bs "400") = 0%Z /\ redirect_code (bs "299") = 0%Z /\ redirect_code (bs "3x1") = 0%Z.
Proof. vm_compute. repeat split; reflexivity. Qed.

(* ------------------------------------------------------------------ *)
(** * the host loop *)
Definition is_redirect (t : target) : bool := negb (t_code t =? 0)%Z.
(* what Lookup hands to ServeHTTP for a redirect target is the URL built from THIS request *)
Lemma lookup_loop_own_url q : forall cands t ou,
  lookup_loop q cands None = Some (t, ou) -> is_redirect t = true -> ou = Some (build_redirect_url t q).
Proof.
  induction cands as [|c cands IH]; intros t ou H Hr; [discriminate H|].
  destruct c as [t0|]; cbn [lookup_loop] in H; [|now apply IH].
  destruct (t_code t0 =? 0)%Z eqn:E0.
  - inversion H; subst. unfold is_redirect in Hr. rewrite E0 in Hr. discriminate.
  - destruct (is_self (build_redirect_url t0 q) q); [now apply IH|]. inversion H; subst. reflexivity.
Qed.

(* the redirect branch never reaches the upstream transport *)
Lemma no_upstream_on_redirect q cands t ou :
  lookup q cands = Some (t, ou) -> is_redirect t = true ->
  upstream_calls (handle q cands) = O
  /\ (code_ok (t_code t) = true ->
      handle q cands = RRedirect (t_code t) (hex_escape_non_ascii (url_string (build_redirect_url t q)))).
Proof.
  intros EL Hr. unfold handle. rewrite EL. unfold serve.
  rewrite (lookup_loop_own_url q cands t ou EL Hr). unfold is_redirect in Hr. apply negb_true_iff in Hr. rewrite Hr.
  split.
  - destruct ((t_code t <? 100)%Z || (t_code t >? 999)%Z); reflexivity.
  - intros Hc. unfold code_ok in Hc. apply andb_true_iff in Hc as [H1 H2]. apply Z.leb_le in H1, H2.
    destruct ((t_code t <? 100)%Z || (t_code t >? 999)%Z) eqn:E; [|reflexivity].
    apply orb_true_iff in E as [E|E]; [apply Z.ltb_lt in E; lia|]. rewrite Z.gtb_ltb in E. apply Z.ltb_lt in E. lia.
Qed.
Example no_upstream_nonvacuous :
  handle q_enc_slash [Some t_slash] = RRedirect 301%Z (bs "https://foo.com/a%2Fb")
  /\ handle q_enc_slash [Some t_adjacent] = RRedirect 301%Z (bs "https://foo.com/a%2Fb").
Proof. vm_compute. split; reflexivity. Qed.

(* the loop against the reference *)
Fixpoint ref_lookup_hdr (q : request) (cands : list (option target)) : option target :=
  match cands with
  | [] => None
  | None :: r => ref_lookup_hdr q r
  | Some t :: r =>
      if (t_code t =? 0)%Z then Some t
      else if is_self (build_redirect_url t q) q then ref_lookup_hdr q r else Some t
  end.
Definition chosen_target (c : chosen) : option target := option_map fst c.
Lemma lookup_loop_ref q : forall cands, chosen_target (lookup_loop q cands None) = ref_lookup_hdr q cands.
Proof.
  induction cands as [|c cands IH]; [reflexivity|].
  destruct c as [t|]; cbn [lookup_loop ref_lookup_hdr].
  - destruct (t_code t =? 0)%Z; [reflexivity|].
    destruct (is_self (build_redirect_url t q) q); [exact IH|reflexivity].
  - exact IH.
Qed.
Lemma ref_lookup_hdr_not_self q : forall cands t, ref_lookup_hdr q cands = Some t -> is_redirect t = true ->
  is_self (build_redirect_url t q) q = false.
Proof.
  induction cands as [|c cands IH]; intros t ER Hr; [discriminate|].
  destruct c as [t0|]; cbn [ref_lookup_hdr] in ER; auto.
  destruct (t_code t0 =? 0)%Z eqn:E0.
  - inversion ER; subst. unfold is_redirect in Hr. rewrite E0 in Hr. discriminate.
  - destruct (is_self (build_redirect_url t0 q) q) eqn:Es; auto. inversion ER; subst. exact Es.
Qed.

Lemma is_self_points_back u q : is_self u q = points_back u q.
Proof. reflexivity. Qed.
Lemma ref_lookup_hdr_eq q cands : ref_lookup_hdr q cands = ref_lookup q cands.
Proof.
  induction cands as [|c cands IH]; [reflexivity|]. destruct c as [t|]; cbn [ref_lookup_hdr ref_lookup]; [|exact IH].
  rewrite (is_self_points_back _ q), IH. reflexivity.
Qed.

(* Lookup answers with the first host whose route does not point back at the request's own
   scheme (reported by a proxy, else the connection's), host and path; with none when there is
   no such host *)
Lemma self_redirect_skipped q cands : chosen_target (lookup q cands) = ref_lookup q cands.
Proof. unfold lookup. rewrite lookup_loop_ref. apply ref_lookup_hdr_eq. Qed.
(* ... so it never returns a redirect that points back at the request *)
Lemma self_redirect_never_returned q cands t :
  chosen_target (lookup q cands) = Some t -> is_redirect t = true -> points_back (build_redirect_url t q) q = false.
Proof. unfold lookup. rewrite lookup_loop_ref, <- is_self_points_back. apply ref_lookup_hdr_not_self. Qed.

Definition t_back : target := mkTarget 0 (bs "http") (bs "foo.com") (47 :: v_path) [] [] [] 301%Z.  (* http://foo.com/$path *)
Definition t_upstream : target := mkTarget 1 (bs "http") (bs "10.0.0.2:80") [47] [] [] [] 0%Z.
Definition q_x (xfp : str) : request := mkReq (bs "foo.com") (bs "/x") [] [] xfp false.

(* before fix 4431a54 (route/table.go: target = nil before the continue) *)
Lemma self_redirect_last_host_refuted :
  exists q cands t, fst (lookup_unrepaired q cands) = Some t /\ ref_lookup q cands = None
    /\ points_back (build_redirect_url t q) q = true
    /\ lookup q cands = None.
Proof. exists (q_x (bs "http")), [Some t_back], t_back. vm_compute. repeat split; reflexivity. Qed.

(* before fix bcdacf0 (route/table.go: the scheme of a direct request is the connection's) *)
Lemma self_redirect_without_xfp_refuted :
  exists q cands, q_xfp q = [] /\ ref_lookup q cands = Some t_upstream
    /\ fst (lookup_hdr_only q cands) = Some t_back
    /\ points_back (build_redirect_url t_back q) q = true
    /\ chosen_target (lookup q cands) = Some t_upstream.
Proof. exists (q_x []), [Some t_back; Some t_upstream]. vm_compute. repeat split; reflexivity. Qed.
Example self_redirect_skipped_nonvacuous :
  chosen_target (lookup (q_x (bs "http")) [Some t_back; Some t_upstream]) = Some t_upstream
  /\ chosen_target (lookup (q_x []) [Some t_back; Some t_upstream]) = Some t_upstream
  /\ chosen_target (lookup (q_x (bs "https")) [Some t_back; Some t_upstream]) = Some t_back
  /\ lookup (q_x (bs "http")) [Some t_back] = None.
Proof. vm_compute. repeat split; reflexivity. Qed.

(* the answer does not depend on the header fields, except through X-Forwarded-Proto (and Host,
   which is the [host] argument): in particular Upgrade / Accept / Connection are irrelevant *)
Lemma headers_irrelevant hs hs' host path rawpath query tls cands :
  header_get hs h_xfp = header_get hs' h_xfp ->
  handle_full hs host path rawpath query tls cands = handle_full hs' host path rawpath query tls cands.
Proof. intros H. unfold handle_full, request_of, serve_hdr. now rewrite H. Qed.
(* ... and a redirect route is answered with its 3xx and Location whatever they are *)
Lemma redirect_whatever_headers hs host path rawpath query tls cands t ou :
  lookup (request_of hs host path rawpath query tls) cands = Some (t, ou) -> is_redirect t = true ->
  code_ok (t_code t) = true ->
  handle_full hs host path rawpath query tls cands
  = RRedirect (t_code t) (hex_escape_non_ascii (url_string (build_redirect_url t (request_of hs host path rawpath query tls)))).
Proof.
  intros EL Hr Hc. unfold handle_full, serve_hdr.
  destruct (no_upstream_on_redirect _ cands t ou EL Hr) as [_ H]. unfold handle in H. now apply H.
Qed.
Definition hs_ws : headers := [(bs "Upgrade", bs "websocket"); (bs "Connection", bs "Upgrade"); (bs "Accept", bs "text/event-stream")].
Example headers_irrelevant_nonvacuous :
  handle_full hs_ws (bs "foo.com") (bs "/a/b") (bs "/a%2Fb") [] false [Some t_slash]
  = RRedirect 301%Z (bs "https://foo.com/a%2Fb")
  /\ header_get hs_ws h_xfp = header_get [] h_xfp
  /\ header_get [(bs "x-forwarded-proto", bs "https")] h_xfp = bs "https".
Proof. vm_compute. repeat split; reflexivity. Qed.

(* ------------------------------------------------------------------ *)
(** * simultaneous requests *)
(* the answer of request i on its own: a function of that request (and of the table) only *)
Definition own (reqs : list (request * list (option target))) (i : nat) : response :=
  match nth_error reqs i with
  | Some (q, cands) => handle q cands
  | None => RNoRoute
  end.
Definition all_own (reqs : list (request * list (option target))) (out : list (nat * response)) : Prop :=
  Forall (fun rr => snd rr = own reqs (fst rr)) out.
Definition chosen_inv (reqs : list (request * list (option target))) (w : world) : Prop :=
  (forall r c, chosen_get (w_chosen w) r = Some c ->
     exists q cands, nth_error reqs r = Some (q, cands) /\ c = lookup q cands)
  /\ all_own reqs (w_out w).

Lemma step_inv reqs w a : chosen_inv reqs w -> chosen_inv reqs (step reqs w a).
Proof.
  intros [Hc Ho]. destruct a as [r|r]; cbn [step].
  - destruct (nth_error reqs r) as [[q cands]|] eqn:En; [|split; assumption].
    split; [|exact Ho]. cbn [w_chosen]. intros r' c H. cbn [chosen_get] in H.
    destruct (Nat.eqb r r') eqn:E.
    + apply Nat.eqb_eq in E. subst r'. inversion H; subst c. now exists q, cands.
    + now apply Hc.
  - destruct (chosen_get (w_chosen w) r) as [c|] eqn:Eg; [|split; assumption].
    split; [exact Hc|]. cbn [w_out]. constructor; [|exact Ho].
    cbn [fst snd]. destruct (Hc r c Eg) as (q & cands & En & ->). unfold own. rewrite En. reflexivity.
Qed.
Lemma run_inv reqs : forall sched w, chosen_inv reqs w -> chosen_inv reqs (run_sched reqs sched w).
Proof.
  induction sched as [|a sched IH]; intros w H; [exact H|].
  unfold run_sched. cbn [fold_left]. apply IH. now apply step_inv.
Qed.
(* EVERY interleaving of the Lookup and serve steps of ANY number of requests: each response
   is the request's own *)
Lemma every_schedule_own reqs sched : all_own reqs (w_out (run_sched reqs sched world0)).
Proof.
  apply (run_inv reqs sched world0). split; [intros r c H; discriminate H | constructor].
Qed.

Definition q_from (p : string) : request := mkReq (bs "foo.com") (bs p) [] [] [] false.
Definition two_reqs := [(q_from "/from-A", [Some t_adjacent]); (q_from "/from-B", [Some t_adjacent])].
Example every_schedule_own_nonvacuous :
  w_out (run_sched two_reqs [ALookup 0; ALookup 1; AServe 0; AServe 1] world0)
  = [(1%nat, RRedirect 301%Z (bs "https://foo.com/from-B")); (0%nat, RRedirect 301%Z (bs "https://foo.com/from-A"))].
Proof. vm_compute. reflexivity. Qed.

(* before fix ddf101c (route/table.go: Lookup builds the URL on a copy of the target) the URL
   sat in the RedirectURL field of the shared target: Lookup A, Lookup B, serve A answered A
   with B's Location *)
Lemma redirect_cross_talk_refuted :
  exists reqs sched,
    own reqs 0 = RRedirect 301%Z (bs "https://foo.com/from-A")
    /\ own reqs 1 = RRedirect 301%Z (bs "https://foo.com/from-B")
    /\ ws_out (run_sched_shared reqs sched world_shared0)
       = [(1%nat, RRedirect 301%Z (bs "https://foo.com/from-B")); (0%nat, RRedirect 301%Z (bs "https://foo.com/from-B"))].
Proof.
  exists two_reqs, [ALookup 0; ALookup 1; AServe 0; AServe 1].
  vm_compute. repeat split; reflexivity.
Qed.

(* ------------------------------------------------------------------ *)
(** * location_spec in the form the correspondence check evaluates *)
Lemma tokens_render n : forall s ts, (length s <= n)%nat -> tokens s = Some ts -> render ts = s.
Proof.
  induction n as [|n IH]; intros s ts Hn H.
  - destruct s; [|cbn in Hn; lia]. cbn in H. inversion H. reflexivity.
  - destruct s as [|c s]; [cbn in H; inversion H; reflexivity|].
    cbn [tokens] in H. cbn [length] in Hn. destruct (c =? 37) eqn:E.
    + apply N.eqb_eq in E. subst c. destruct s as [|h [|l s']]; try discriminate H.
      destruct (ishex h && ishex l); [|discriminate H].
      destruct (tokens s') as [ts'|] eqn:U; [|discriminate H]. inversion H; subst ts.
      apply IH in U; [|cbn [length] in Hn; lia]. unfold render in *. cbn [flat_map render_tok app]. now rewrite U.
    + destruct (tokens s) as [ts'|] eqn:U; [|discriminate H]. inversion H; subst ts.
      apply IH in U; [|lia]. unfold render in *. cbn [flat_map render_tok app]. now rewrite U.
Qed.

Lemma index_spec sub : forall s i, index s sub = Some i -> s = firstn i s ++ sub ++ skipn (i + length sub) s.
Proof.
  induction s as [|c s IH]; intros i H.
  - cbn [index] in H. destruct (has_prefix [] sub) eqn:E; [|discriminate H]. inversion H; subst i.
    destruct sub; [reflexivity|discriminate E].
  - rewrite index_cons in H. destruct (has_prefix (c :: s) sub) eqn:E.
    + inversion H; subst i. apply has_prefix_spec in E as [r E]. rewrite E at 1.
      cbn [firstn app Nat.add]. rewrite E. now rewrite skipn_len_app.
    + destruct (index s sub) as [i'|] eqn:Ei; [|discriminate H]. inversion H; subst i.
      cbn [firstn skipn Nat.add app]. f_equal. now apply IH.
Qed.

Lemma drop_one_slash_spec p : p = drop_one_slash p ++ sl (ends_slash p)
  /\ (ends_slash p = false -> ends_slash (drop_one_slash p) = false).
Proof.
  unfold drop_one_slash, ends_slash. destruct (rev p) as [|c r] eqn:E.
  - cbn [sl]. rewrite app_nil_r. split; [reflexivity|]. now rewrite E.
  - destruct (c =? 47) eqn:Ec.
    + apply N.eqb_eq in Ec. subst c. split; [|discriminate].
      apply (f_equal (@rev N)) in E. rewrite rev_involutive in E. rewrite E. reflexivity.
    + cbn [sl]. rewrite app_nil_r. split; [reflexivity|]. rewrite E. now rewrite Ec.
Qed.

Theorem location_spec t wire q :
  tmpl_dom t = true -> req_dom t wire q = true ->
  set_path wire = Some (q_path q, q_rawpath q) ->
  url_string (build_redirect_url t q) = expected_location t wire q.
Proof.
  destruct t as [id sc hp0 path tq st pp code], q as [h d r qy xfp tls].
  unfold tmpl_dom, req_dom, req_dom0, strip_consistent, expected_location, path_pat, host_pat, adjacent.
  cbn [t_scheme t_host t_path t_query t_strip t_prepend q_host q_path q_rawpath q_query].
  intros HT HR Hparse.
  repeat match type of HT with _ && _ = true => let H := fresh "HT" in apply andb_true_iff in HT as [HT H] end.
  repeat match type of HR with _ && _ = true => let H := fresh "HR" in apply andb_true_iff in HR as [HR H] end.
  destruct (tokens wire) as [ts|] eqn:Etok; [|discriminate].
  assert (render ts = wire) as Hw by (eapply tokens_render; [apply le_n|exact Etok]). subst wire.
  apply negb_true_iff, is_nil_false in HT, HR.
  apply negb_true_iff, is_nil_false in HT6.
  destruct (has_suffix hp0 v_path) eqn:Hsuf.
  - (* scheme://HOST$path *)
    apply has_suffix_spec in Hsuf as [hp ->].
    assert (firstn (length (hp ++ v_path) - length v_path) (hp ++ v_path) = hp) as Hf
      by (rewrite app_length, Nat.add_sub; apply firstn_len_app).
    rewrite Hf in *. apply is_nil_true in HT0. subst path.
    rewrite build_adjacent.
    apply (location_built sc hp [] [] tq st pp ts h qy xfp tls d r); auto.
  - destruct (index path v_path) as [i|] eqn:Ei.
    + assert (Hsp := index_spec v_path path i Ei).
      remember (firstn i path) as pre0 eqn:Hpre0. remember (skipn (i + length v_path) path) as post eqn:Hpost0.
      destruct (drop_one_slash_spec pre0) as [Hp0 Hends].
      repeat match type of HT0 with _ && _ = true => let H := fresh "HP" in apply andb_true_iff in HT0 as [HT0 H] end.
      rewrite Hsp. rewrite Hp0 at 1. rewrite <- app_assoc.
      rewrite build_shape; auto.
      apply (location_built sc hp0 (drop_one_slash pre0) post tq st pp ts h qy xfp tls d r); auto.
    + apply andb_true_iff in HT0 as [HP1 HP2].
      apply (location_static id sc hp0 tq st pp code h qy xfp tls d r); auto.
Qed.
Example location_spec_nonvacuous :
  tmpl_dom t_slash = true /\ req_dom t_slash (bs "/a%2Fb") q_enc_slash = true
  /\ set_path (bs "/a%2Fb") = Some (q_path q_enc_slash, q_rawpath q_enc_slash)
  /\ region_adjacent_raw t_slash q_enc_slash = false
  /\ expected_location t_slash (bs "/a%2Fb") q_enc_slash = bs "https://foo.com/a%2Fb".
Proof. vm_compute. repeat split; reflexivity. Qed.

(* ------------------------------------------------------------------ *)
(** * the Location header of the response (http.Redirect passes the URL through
      hexEscapeNonASCII) *)
Lemma hex_escape_ascii s : ascii s = true -> hex_escape_non_ascii s = s.
Proof.
  unfold ascii, hex_escape_non_ascii. induction s as [|c s IH]; intros H; [reflexivity|].
  cbn [forallb flat_map] in *. apply andb_true_iff in H as [H1 H2]. apply N.ltb_lt in H1.
  destruct (128 <=? c) eqn:E; [apply N.leb_le in E; lia|]. cbn [app]. now rewrite IH.
Qed.
Lemma should_escape_high c m : 128 <= c -> should_escape c m = true.
Proof.
  intros H. unfold should_escape, is_alnum, memb, host_allowed, unreserved_marks, reserved. cbn [existsb].
  replace (c <=? 122) with false by (symmetry; apply N.leb_gt; lia).
  replace (c <=? 90) with false by (symmetry; apply N.leb_gt; lia).
  replace (c <=? 57) with false by (symmetry; apply N.leb_gt; lia).
  rewrite !andb_false_r. cbn [orb].
  repeat match goal with
         | |- context [c =? ?k] => replace (c =? k) with false by (symmetry; apply N.eqb_neq; lia)
         end.
  destruct m; reflexivity.
Qed.
Lemma not_escaped_ascii m s : forallb (fun c => negb (should_escape c m)) s = true -> ascii s = true.
Proof.
  unfold ascii. induction s as [|c s IH]; intros H; [reflexivity|]. cbn [forallb] in *.
  apply andb_true_iff in H as [H1 H2]. rewrite (IH H2), andb_true_r. apply N.ltb_lt.
  destruct (N.lt_ge_cases c 128) as [L|G]; [exact L|]. rewrite (should_escape_high c m G) in H1. discriminate H1.
Qed.
Lemma alnum_ascii s : forallb is_alnum s = true -> ascii s = true.
Proof.
  intros H. apply (not_escaped_ascii EncPath). apply forallb_forall. intros c Hc.
  rewrite forallb_forall in H. unfold should_escape. now rewrite (H c Hc).
Qed.
Lemma ascii_app a b : ascii (a ++ b) = ascii a && ascii b.
Proof. apply forallb_app. Qed.
Lemma ishex_lt c : ishex c = true -> c <? 128 = true.
Proof.
  intros H. apply N.ltb_lt. unfold ishex in H.
  repeat match type of H with _ || _ = true => apply orb_true_iff in H as [H|H] end;
    apply andb_true_iff in H as [_ H2]; apply N.leb_le in H2; lia.
Qed.
Lemma lax_lt c : memb c lax7 = true -> c <? 128 = true.
Proof.
  unfold lax7, memb. cbn [existsb]. intros H.
  repeat match type of H with
         | (c =? ?k) || _ = true =>
             let E := fresh "E" in destruct (c =? k) eqn:E; [apply N.eqb_eq in E; subst c; reflexivity | cbn [orb] in H]
         end.
  discriminate H.
Qed.
Lemma render_ascii ts : forallb tok_ok ts = true -> ascii (render ts) = true.
Proof.
  induction ts as [|t ts IH]; intros H; [reflexivity|]. cbn [forallb] in H. apply andb_true_iff in H as [Ht Hts].
  unfold render. cbn [flat_map]. fold (render ts). rewrite ascii_app, (IH Hts), andb_true_r.
  destruct t as [c|h l]; cbn [tok_ok render_tok] in *.
  - unfold ascii. cbn [forallb]. rewrite andb_true_r. unfold lit_ok in Ht. apply orb_true_iff in Ht as [Ht|Ht]; [|now apply lax_lt].
    apply N.ltb_lt. destruct (N.lt_ge_cases c 128) as [L|G]; [exact L|].
    unfold plain_byte in Ht. rewrite (should_escape_high c EncPath G) in Ht. discriminate Ht.
  - apply andb_true_iff in Ht as [Hh _]. apply andb_true_iff in Hh as [Hh Hl].
    unfold ascii. cbn [forallb]. now rewrite (ishex_lt h Hh), (ishex_lt l Hl).
Qed.
Lemma ascii_norm_path p : ascii p = true -> ascii (norm_path p) = true.
Proof. intros H. unfold norm_path. destruct p as [|c p]; [reflexivity|]. destruct (c =? 47) eqn:E.
  - apply N.eqb_eq in E. subst c. exact H.
  - assert (ascii (47 :: c :: p) = true) as A by (unfold ascii in *; cbn [forallb] in *; exact H).
    destruct c as [|pc]; [exact A|].
    destruct pc as [pc|pc|]; try exact A; destruct pc as [pc|pc|]; try exact A;
    destruct pc as [pc|pc|]; try exact A; destruct pc as [pc|pc|]; try exact A;
    destruct pc as [pc|pc|]; try exact A; destruct pc as [pc|pc|]; try exact A.
Qed.
Lemma ascii_qs q : ascii q = true -> ascii (qs q) = true.
Proof. intros H. unfold qs. destruct q; [reflexivity|]. unfold ascii in *. cbn [is_nil forallb] in *. exact H. Qed.

Lemma expected_location_ascii t wire q :
  tmpl_dom t = true -> req_dom t wire q = true -> ascii (expected_location t wire q) = true.
Proof.
  destruct t as [id sc hp0 path tq st pp code], q as [h d r qy xfp tls].
  unfold tmpl_dom, req_dom, req_dom0, strip_consistent, expected_location, path_pat, host_pat, adjacent.
  cbn [t_scheme t_host t_path t_query t_strip t_prepend q_host q_path q_rawpath q_query].
  intros HT HR.
  repeat match type of HT with _ && _ = true => let H := fresh "HT" in apply andb_true_iff in HT as [HT H] end.
  repeat match type of HR with _ && _ = true => let H := fresh "HR" in apply andb_true_iff in HR as [HR H] end.
  destruct (tokens wire) as [ts|] eqn:Etok; [|discriminate].
  assert (render ts = wire) as Hw by (eapply tokens_render; [apply le_n|exact Etok]). subst wire.
  rewrite !ascii_app. rewrite (alnum_ascii sc HT7).
  rewrite (not_escaped_ascii EncHost _ (host_plain_replace _ h HT5 HR3)).
  change (ascii [58;47;47]) with true. cbn [andb].
  assert (ascii (trim_prefix (render ts) st) = true) as Atrim.
  { unfold trim_prefix. destruct (has_prefix (render ts) st); [apply forallb_skipn|]; apply render_ascii; exact HR1. }
  assert (ascii (if is_nil tq then qy else tq) = true) as Aq by (destruct (is_nil tq); assumption).
  assert (forall pre post, plain pre = true -> plain post = true ->
          ascii (norm_path (pre ++ pp ++ trim_prefix (render ts) st ++ post) ++ qs (if is_nil tq then qy else tq)) = true) as Hgen.
  { intros pre post Hpre Hpost. rewrite ascii_app, ascii_norm_path, (ascii_qs _ Aq); [reflexivity|].
    rewrite !ascii_app, (not_escaped_ascii EncPath pre Hpre), (not_escaped_ascii EncPath pp HT1),
            (not_escaped_ascii EncPath post Hpost), Atrim. reflexivity. }
  destruct (has_suffix hp0 v_path).
  - apply Hgen; reflexivity.
  - destruct (index path v_path) as [i|].
    + repeat match type of HT0 with _ && _ = true => let H := fresh "HP" in apply andb_true_iff in HT0 as [HT0 H] end.
      apply Hgen; assumption.
    + apply andb_true_iff in HT0 as [HP _].
      rewrite ascii_app, ascii_norm_path, (ascii_qs _ HT3); [reflexivity|]. apply (not_escaped_ascii EncPath path HP).
Qed.

(* the response of a redirect route, composed: status = the target's 3xx code, Location = the
   template filled from THIS request as written on its request line, no upstream call *)
Theorem response_location q cands t ou wire :
  lookup q cands = Some (t, ou) -> is_redirect t = true -> code_ok (t_code t) = true ->
  tmpl_dom t = true -> req_dom t wire q = true -> set_path wire = Some (q_path q, q_rawpath q) ->
  handle q cands = RRedirect (t_code t) (expected_location t wire q) /\ upstream_calls (handle q cands) = O.
Proof.
  intros EL Hr Hc HT HR Hp. destruct (no_upstream_on_redirect q cands t ou EL Hr) as [H0 H1].
  split; [|exact H0]. rewrite (H1 Hc), (location_spec t wire q HT HR Hp).
  now rewrite (hex_escape_ascii _ (expected_location_ascii t wire q HT HR)).
Qed.

(* a non-trivial member of the domain of [location_spec]: strip, prepend, query, $host inside the
   host, text after $path, an encoded reserved byte, raw sub-delims *)
Definition t_full : target :=
  mkTarget 0 (bs "https") (bs "www." ++ v_host) (bs "/bbb/" ++ v_path ++ bs "/tail") [] (bs "/foo") (bs "/pre") 307%Z.
Definition q_full : request := mkReq (bs "foo.com:8080") (bs "/foo/a/b/(x)!") (bs "/foo/a%2Fb/(x)!") (bs "k=v&x=%20") [] false.
Example location_spec_full_example :
  tmpl_dom t_full = true /\ req_dom t_full (bs "/foo/a%2Fb/(x)!") q_full = true
  /\ set_path (bs "/foo/a%2Fb/(x)!") = Some (q_path q_full, q_rawpath q_full)
  /\ expected_location t_full (bs "/foo/a%2Fb/(x)!") q_full = bs "https://www.foo.com:8080/bbb/pre/a%2Fb/(x)!/tail?k=v&x=%20"
  /\ handle q_full [None; Some t_full] = RRedirect 307%Z (bs "https://www.foo.com:8080/bbb/pre/a%2Fb/(x)!/tail?k=v&x=%20").
Proof. vm_compute. repeat split; reflexivity. Qed.

(* outside the domain, by net/url's own reading of paths: a request that percent-encodes one of
   ! ' ( ) * [ ] in upper-case hex and nothing else gets it back decoded (an equivalent path) *)
Example encoded_sub_delim_returned_decoded :
  set_path (bs "/a%21b") = Some (bs "/a!b", [])
  /\ req_dom t_slash (bs "/a%21b") (mkReq ex_host (bs "/a!b") [] [] [] false) = false
  /\ url_string (build_redirect_url t_slash (mkReq ex_host (bs "/a!b") [] [] [] false)) = bs "https://foo.com/a!b".
Proof. vm_compute. repeat split; reflexivity. Qed.

(* finding F-C13-6 (open): the strip prefix matches only after decoding; the rest of the path
   loses its encoding *)
Definition t_strip_abc : target := mkTarget 0 (bs "https") v_host (47 :: v_path) [] (bs "/abc") [] 301%Z.
Definition q_dec_strip : request := mkReq ex_host (bs "/abc/a/b") (bs "/%61bc/a%2Fb") [] [] false.
Lemma strip_decoded_only_refuted :
  exists t wire q, tmpl_dom t = true /\ req_dom0 wire q = true
    /\ set_path wire = Some (q_path q, q_rawpath q)
    /\ strip_decoded_only t wire q = true
    /\ url_string (build_redirect_url t q) = bs "https://foo.com/a/b"
    /\ expected_location_dec t wire q = bs "https://foo.com/a%2Fb".
Proof. exists t_strip_abc, (bs "/%61bc/a%2Fb"), q_dec_strip. vm_compute. repeat split; reflexivity. Qed.
(* the complement of region 6 inside [req_dom0] is [req_dom]: [location_spec] is the theorem on it *)
Lemma req_dom_split t wire q : req_dom0 wire q = true -> plain (t_strip t) = true ->
  set_path wire = Some (q_path q, q_rawpath q) ->
  req_dom t wire q = negb (strip_decoded_only t wire q).
Proof.
  intros H0 Hp Hs. unfold req_dom, strip_consistent, strip_decoded_only. rewrite H0. cbn [andb].
  unfold req_dom0 in H0. apply andb_true_iff in H0 as [_ Ht].
  destruct (tokens wire) as [ts|] eqn:Etok; [|discriminate].
  assert (render ts = wire) as Hw by (eapply tokens_render; [apply le_n|exact Etok]). subst wire.
  destruct (set_path_tokens ts _ _ Ht Hs) as [Hd _]. rewrite Hd.
  destruct (has_prefix (render ts) (t_strip t)) eqn:E.
  - destruct (strip_tokens (t_strip t) Hp ts E) as [ts2 ->].
    rewrite decode_app, decode_lit, has_prefix_app. reflexivity.
  - destruct (has_prefix (decode ts) (t_strip t)); reflexivity.
Qed.

(* the self-redirect test against an independent reading of "own host" (case-insensitive,
   default port optional): whatever Lookup skips does point back at the request *)
Lemma is_self_sound_norm u q : is_self u q = true -> points_back_norm u q = true.
Proof.
  unfold is_self, points_back_norm. intros H. apply andb_true_iff in H as [H Hp]. apply andb_true_iff in H as [Hs Hh].
  apply beq_eq in Hs, Hh. change (eff_scheme q) with (own_scheme q) in Hs.
  rewrite Hp, Hs, Hh, !beq_refl. reflexivity.
Qed.
(* the converse fails by spelling only, and costs one extra hop, not a loop: FOO.com is sent to
   the template's foo.com, and the follow-up request to foo.com is skipped *)
Definition q_host_x (h : string) : request := mkReq (bs h) (bs "/x") [] [] [] false.
Example host_spelling_one_hop :
  handle (q_host_x "FOO.com") [Some t_back; Some t_upstream] = RRedirect 301%Z (bs "http://foo.com/x")
  /\ points_back_norm (build_redirect_url t_back (q_host_x "FOO.com")) (q_host_x "FOO.com") = true
  /\ handle (q_host_x "foo.com:80") [Some t_back; Some t_upstream] = RRedirect 301%Z (bs "http://foo.com/x")
  /\ points_back_norm (build_redirect_url t_back (q_host_x "foo.com:80")) (q_host_x "foo.com:80") = true
  /\ handle (q_host_x "foo.com") [Some t_back; Some t_upstream] = RProxy 1.
Proof. vm_compute. repeat split; reflexivity. Qed.

(* from the option text to the status: a target whose code came out of the option parser and is
   a redirect target has a 3xx code *)
Lemma option_code_ok opt t : t_code t = redirect_code opt -> is_redirect t = true -> code_ok (t_code t) = true.
Proof.
  intros E Hr. unfold is_redirect in Hr. apply negb_true_iff, Z.eqb_neq in Hr.
  destruct (code_range opt) as [H0|[H1 H2]]; [congruence|].
  unfold code_ok. rewrite E. apply andb_true_iff. split; apply Z.leb_le; assumption.
Qed.
Theorem response_from_option q cands t ou wire opt :
  lookup q cands = Some (t, ou) -> is_redirect t = true -> t_code t = redirect_code opt ->
  tmpl_dom t = true -> req_dom t wire q = true -> set_path wire = Some (q_path q, q_rawpath q) ->
  handle q cands = RRedirect (redirect_code opt) (expected_location t wire q)
  /\ (300 <= redirect_code opt <= 399)%Z /\ upstream_calls (handle q cands) = O.
Proof.
  intros EL Hr Ec HT HR Hp. assert (Hc := option_code_ok opt t Ec Hr).
  destruct (response_location q cands t ou wire EL Hr Hc HT HR Hp) as [H1 H2]. rewrite <- Ec.
  repeat split; auto; unfold code_ok in Hc; apply andb_true_iff in Hc as [A B]; apply Z.leb_le in A, B; assumption.
Qed.
