(** End to end on the exact-rational instance: for every non-empty list of fixed
    weights and whatever the unstable sort does, weighTargets builds a ring (no
    panic, no endless probe) without nil slots in which a zero-weight target has
    no slot, a positive-weight target at least one, and (on the fill path) target i
    exactly [slot_count w_i] slots. *)
From Coq Require Import List ZArith NArith QArith Bool Lia Lqa Permutation.
From Fabio Require Import Lib.Outcome Model.Weigh Model.Ring Proofs.Weigh Proofs.Ring.
Import ListNotations.
Local Open Scope nat_scope.

Lemma occupancy_none_map_some l : occupancy None (map Some l) = 0.
Proof. induction l as [|x l IH]; [reflexivity|]. cbn [map]. rewrite occupancy_cons, IH. reflexivity. Qed.

Lemma occupancy_map_some_seq i n : forall a,
  occupancy (Some i) (map Some (seq a n)) = if (Nat.leb a i && Nat.ltb i (a + n))%bool then 1 else 0.
Proof.
  induction n as [|n IH]; intros a.
  - cbn [seq map]. rewrite occupancy_nil, Nat.add_0_r.
    destruct (Nat.leb a i) eqn:E1, (Nat.ltb i a) eqn:E2; cbn [andb]; try reflexivity.
    apply Nat.leb_le in E1. apply Nat.ltb_lt in E2. lia.
  - cbn [seq map]. rewrite occupancy_cons, IH. cbn [slot_eqb].
    destruct (Nat.eqb i a) eqn:Ei.
    + apply Nat.eqb_eq in Ei. subst a.
      replace (Nat.leb (S i) i) with false by (symmetry; apply Nat.leb_gt; lia).
      replace (Nat.leb i i) with true by (symmetry; apply Nat.leb_le; lia).
      replace (Nat.ltb i (i + S n)) with true by (symmetry; apply Nat.ltb_lt; lia).
      reflexivity.
    + apply Nat.eqb_neq in Ei.
      destruct (Nat.leb a i) eqn:E1.
      * apply Nat.leb_le in E1.
        replace (Nat.leb (S a) i) with true by (symmetry; apply Nat.leb_le; lia).
        replace (Nat.ltb i (a + S n)) with (Nat.ltb i (S a + n)) by (f_equal; lia). reflexivity.
      * apply Nat.leb_gt in E1.
        replace (Nat.leb (S a) i) with false by (symmetry; apply Nat.leb_gt; lia). reflexivity.
Qed.

Lemma zsum_bound counts B : Forall (fun n => n <= B)%Z counts -> (zsum counts <= B * Z.of_nat (length counts))%Z.
Proof.
  induction 1 as [|n counts Hn _ IH]; cbn [zsum fold_right length]; [lia|]. fold (zsum counts). lia.
Qed.

Lemma sumQ_all_zero l : (forall w, In w l -> (w == 0)%Q) -> (sumQ l == 0)%Q.
Proof.
  induction l as [|x l IH]; intros H; [reflexivity|]. rewrite sumQ_cons.
  rewrite (H x (or_introl eq_refl)), IH; [ring|]. intros w Hw. apply H. now right.
Qed.

Theorem route_ring_spec order (l : list Q) :
  l <> [] -> (Z.of_nat (length l) <= 3000000000)%Z -> (forall s, Permutation (order s) s) ->
  exists r, route_ring arithQ order l = Ok (weighQ l, r)
    /\ r <> [] /\ occupancy None r = 0
    /\ forall i w, nth_error (weighQ l) i = Some w ->
         ((w == 0)%Q -> occupancy (Some i) r = 0)
         /\ ((0 < w)%Q -> 1 <= occupancy (Some i) r)
         /\ (n_fix l <> 0 -> Z.of_nat (occupancy (Some i) r) = slot_countQ w).
Proof.
  intros Hne Hlen Hord. unfold route_ring. fold (weighQ l). rewrite n_fixed_is.
  assert (Hl : 0 < length l) by (destruct l; [congruence|cbn; lia]).
  destruct (Nat.eqb (n_fix l) 0) eqn:E0.
  - (* no fixed weight: the ring is the target list itself *)
    exists (map Some (seq 0 (length l))). split; [reflexivity|]. split.
    { destruct l as [|x0 l0]; [exfalso; now apply Hne|]. cbn [length seq map]. discriminate. }
    split; [apply occupancy_none_map_some|].
    intros i w Hw. destruct (weighQ_nth_inv l i w Hw) as (f & Hf & ->).
    assert (Hi : i < length l) by (apply (proj1 (nth_error_Some l i)); rewrite Hf; discriminate).
    rewrite occupancy_map_some_seq. cbn [Nat.leb andb Nat.add].
    replace (Nat.ltb i (length l)) with true by (symmetry; apply Nat.ltb_lt; lia).
    unfold weight_fn. rewrite E0. pose proof (qn_pos _ Hl) as Hq.
    assert (Hpos : (0 < 1 / qn (length l))%Q) by (apply Qlt_shift_div_l; lra).
    repeat split; [intros Hz; lra|lia|]. apply Nat.eqb_eq in E0. intros; lia.
  - apply Nat.eqb_neq in E0.
    set (counts := map (slot_count arithQ) (weighQ l)).
    assert (Hw01 : forall w, In w (weighQ l) -> (0 <= w)%Q /\ (w <= 1)%Q).
    { intros w Hin. split; [now apply (weights_nonneg l)|now apply (weights_le_one l)]. }
    assert (Hrange : Forall (fun n => 0 <= n <= 10000)%Z counts).
    { unfold counts. apply Forall_forall. intros n Hn. apply in_map_iff in Hn.
      destruct Hn as (w & <- & Hin). destruct (Hw01 w Hin). now apply slot_count_range. }
    assert (Hnn : Forall (fun n => 0 <= n)%Z counts).
    { eapply Forall_impl; [|exact Hrange]. cbn. intros; lia. }
    assert (Hb : (zsum counts <= 2 ^ 45)%Z).
    { assert (Hub : Forall (fun n => n <= 10000)%Z counts).
      { eapply Forall_impl; [|exact Hrange]. cbn. intros; lia. }
      pose proof (zsum_bound counts 10000 Hub) as Hz.
      assert (Hlc : length counts = length l).
      { unfold counts. rewrite map_length, weighQ_map, map_length. reflexivity. }
      rewrite Hlc in Hz. assert (2 ^ 45 = 35184372088832)%Z by reflexivity. lia. }
    destruct (ring_of_counts_spec counts (order (indexed counts)) Hnn Hb (Hord _))
      as (r & Hr & Hlr & HoN & HoS).
    rewrite Hr. cbn [bind]. exists r. split; [reflexivity|].
    assert (Hper : forall i w, nth_error (weighQ l) i = Some w ->
              Z.of_nat (occupancy (Some i) r) = slot_countQ w).
    { intros i w Hw. rewrite HoS. unfold counts.
      apply (nth_error_nth (map (slot_count arithQ) (weighQ l))).
      now apply map_nth_error. }
    assert (Hcl : forall i w, nth_error (weighQ l) i = Some w ->
         ((w == 0)%Q -> occupancy (Some i) r = 0)
         /\ ((0 < w)%Q -> 1 <= occupancy (Some i) r)
         /\ (n_fix l <> 0 -> Z.of_nat (occupancy (Some i) r) = slot_countQ w)).
    { intros i w Hw. pose proof (Hper i w Hw) as Ho.
      destruct (Hw01 w (nth_error_In _ _ Hw)) as [H0 H1].
      repeat split.
      - intros Hz. rewrite (slot_count_zero w Hz) in Ho. lia.
      - intros Hp. pose proof (slot_count_pos w Hp H1). lia.
      - intros _. exact Ho. }
    split; [|split; [exact HoN|exact Hcl]].
    (* some weight is positive (they sum to one), so the ring is not empty *)
    intros ->.
    assert (Hall : forall w, In w (weighQ l) -> (w == 0)%Q).
    { intros w Hin. destruct (In_nth_error _ _ Hin) as (i & Hi).
      destruct (Hcl i w Hi) as (_ & Hp & _). destruct (Hw01 w Hin) as [H0 _].
      destruct (Qlt_le_dec 0 w) as [Hlt|Hle]; [specialize (Hp Hlt); cbn in Hp; lia|lra]. }
    pose proof (sumQ_all_zero _ Hall) as Hs0. rewrite (weights_sum_one l Hne) in Hs0. lra.
Qed.

(* non-vacuity: the hypotheses are met by a concrete route and the stable order *)
Example route_ring_nonvacuous :
  exists r, route_ring arithQ stable_order [1 # 2; 0; 1 # 5]%Q = Ok (weighQ [1 # 2; 0; 1 # 5]%Q, r) /\ r <> [].
Proof.
  destruct (route_ring_spec stable_order [1 # 2; 0; 1 # 5]%Q) as (r & H1 & H2 & _).
  - discriminate.
  - cbn. lia.
  - apply stable_order_perm.
  - exists r. split; assumption.
Qed.
