(** End to end on the exact-rational instance: for every non-empty list of fixed
    weights and whatever the unstable sort does, weighTargets builds a ring (no
    panic, no endless probe) without nil slots in which a zero-weight target has
    no slot, a positive-weight target at least one, and (on the fill path) target i
    exactly [slot_count w_i] slots. *)
From Coq Require Import List ZArith NArith QArith Qminmax Bool Lia Lqa Permutation.
From Fabio Require Import Lib.Outcome Model.Weigh Model.Ring Model.Pick Proofs.Weigh Proofs.Ring Proofs.Pick.
Import ListNotations.
Local Open Scope nat_scope.

Lemma occupancy_none_map_some l : occupancy None (map Some l) = 0.
Proof. induction l as [|x l IH]; [reflexivity|]. cbn [map]. rewrite occupancy_cons, IH. reflexivity. Qed.

Lemma occupancy_map_some_seq i n : forall a,
  occupancy (Some i) (map Some (seq a n)) = if (Nat.leb a i && Nat.ltb i (a + n))%bool then 1 else 0.
Proof.
  induction n as [|n IH]; intros a.
  - cbn [seq map]. rewrite occupancy_nil, Nat.add_0_r.
    destruct (Nat.leb a i) eqn:E1, (Nat.ltb i a) eqn:E2; cbn [andb]; try reflexivity.
    apply Nat.leb_le in E1. apply Nat.ltb_lt in E2. lia.
  - cbn [seq map]. rewrite occupancy_cons, IH. cbn [slot_eqb].
    destruct (Nat.eqb i a) eqn:Ei.
    + apply Nat.eqb_eq in Ei. subst a.
      replace (Nat.leb (S i) i) with false by (symmetry; apply Nat.leb_gt; lia).
      replace (Nat.leb i i) with true by (symmetry; apply Nat.leb_le; lia).
      replace (Nat.ltb i (i + S n)) with true by (symmetry; apply Nat.ltb_lt; lia).
      reflexivity.
    + apply Nat.eqb_neq in Ei.
      destruct (Nat.leb a i) eqn:E1.
      * apply Nat.leb_le in E1.
        replace (Nat.leb (S a) i) with true by (symmetry; apply Nat.leb_le; lia).
        replace (Nat.ltb i (a + S n)) with (Nat.ltb i (S a + n)) by (f_equal; lia). reflexivity.
      * apply Nat.leb_gt in E1.
        replace (Nat.leb (S a) i) with false by (symmetry; apply Nat.leb_gt; lia). reflexivity.
Qed.

Lemma zsum_bound counts B : Forall (fun n => n <= B)%Z counts -> (zsum counts <= B * Z.of_nat (length counts))%Z.
Proof.
  induction 1 as [|n counts Hn _ IH]; cbn [zsum fold_right length]; [lia|]. fold (zsum counts). lia.
Qed.

Lemma sumQ_all_zero l : (forall w, In w l -> (w == 0)%Q) -> (sumQ l == 0)%Q.
Proof.
  induction l as [|x l IH]; intros H; [reflexivity|]. rewrite sumQ_cons.
  rewrite (H x (or_introl eq_refl)), IH; [ring|]. intros w Hw. apply H. now right.
Qed.

Theorem route_ring_spec_unrepaired order (l : list Q) :
  l <> [] -> (Z.of_nat (length l) <= 3000000000)%Z -> (forall s, Permutation (order s) s) ->
  exists r, route_ring_unrepaired arithQ order l = Ok (weighQ_unrepaired l, r)
    /\ r <> [] /\ occupancy None r = 0
    /\ forall i w, nth_error (weighQ_unrepaired l) i = Some w ->
         ((w == 0)%Q -> occupancy (Some i) r = 0)
         /\ ((0 < w)%Q -> 1 <= occupancy (Some i) r)
         /\ (n_fix l <> 0 -> Z.of_nat (occupancy (Some i) r) = slot_countQ w).
Proof.
  intros Hne Hlen Hord. unfold route_ring_unrepaired. fold (weighQ_unrepaired l). rewrite n_fixed_is.
  assert (Hl : 0 < length l) by (destruct l; [congruence|cbn; lia]).
  destruct (Nat.eqb (n_fix l) 0) eqn:E0.
  - (* no fixed weight: the ring is the target list itself *)
    exists (map Some (seq 0 (length l))). split; [reflexivity|]. split.
    { destruct l as [|x0 l0]; [exfalso; now apply Hne|]. cbn [length seq map]. discriminate. }
    split; [apply occupancy_none_map_some|].
    intros i w Hw. destruct (weighQU_nth_inv l i w Hw) as (f & Hf & ->).
    assert (Hi : i < length l) by (apply (proj1 (nth_error_Some l i)); rewrite Hf; discriminate).
    rewrite occupancy_map_some_seq. cbn [Nat.leb andb Nat.add].
    replace (Nat.ltb i (length l)) with true by (symmetry; apply Nat.ltb_lt; lia).
    unfold weight_fn. rewrite E0. pose proof (qn_pos _ Hl) as Hq.
    assert (Hpos : (0 < 1 / qn (length l))%Q) by (apply Qlt_shift_div_l; lra).
    repeat split; [intros Hz; lra|lia|]. apply Nat.eqb_eq in E0. intros; lia.
  - apply Nat.eqb_neq in E0.
    set (counts := map (slot_count arithQ) (weighQ_unrepaired l)).
    assert (Hw01 : forall w, In w (weighQ_unrepaired l) -> (0 <= w)%Q /\ (w <= 1)%Q).
    { intros w Hin. split; [now apply (weights_nonneg_unrepaired l)|now apply (weights_le_one_unrepaired l)]. }
    assert (Hrange : Forall (fun n => 0 <= n <= 10000)%Z counts).
    { unfold counts. apply Forall_forall. intros n Hn. apply in_map_iff in Hn.
      destruct Hn as (w & <- & Hin). destruct (Hw01 w Hin). now apply slot_count_range. }
    assert (Hnn : Forall (fun n => 0 <= n)%Z counts).
    { eapply Forall_impl; [|exact Hrange]. cbn. intros; lia. }
    assert (Hb : (zsum counts <= 2 ^ 45)%Z).
    { assert (Hub : Forall (fun n => n <= 10000)%Z counts).
      { eapply Forall_impl; [|exact Hrange]. cbn. intros; lia. }
      pose proof (zsum_bound counts 10000 Hub) as Hz.
      assert (Hlc : length counts = length l).
      { unfold counts. rewrite map_length, weighQU_map, map_length. reflexivity. }
      rewrite Hlc in Hz. assert (2 ^ 45 = 35184372088832)%Z by reflexivity. lia. }
    destruct (ring_of_counts_spec counts (order (indexed counts)) Hnn Hb (Hord _))
      as (r & Hr & Hlr & HoN & HoS).
    rewrite Hr. cbn [bind]. exists r. split; [reflexivity|].
    assert (Hper : forall i w, nth_error (weighQ_unrepaired l) i = Some w ->
              Z.of_nat (occupancy (Some i) r) = slot_countQ w).
    { intros i w Hw. rewrite HoS. unfold counts.
      apply (nth_error_nth (map (slot_count arithQ) (weighQ_unrepaired l))).
      now apply map_nth_error. }
    assert (Hcl : forall i w, nth_error (weighQ_unrepaired l) i = Some w ->
         ((w == 0)%Q -> occupancy (Some i) r = 0)
         /\ ((0 < w)%Q -> 1 <= occupancy (Some i) r)
         /\ (n_fix l <> 0 -> Z.of_nat (occupancy (Some i) r) = slot_countQ w)).
    { intros i w Hw. pose proof (Hper i w Hw) as Ho.
      destruct (Hw01 w (nth_error_In _ _ Hw)) as [H0 H1].
      repeat split.
      - intros Hz. rewrite (slot_count_zero w Hz) in Ho. lia.
      - intros Hp. pose proof (slot_count_pos w Hp H1). lia.
      - intros _. exact Ho. }
    split; [|split; [exact HoN|exact Hcl]].
    (* some weight is positive (they sum to one), so the ring is not empty *)
    intros ->.
    assert (Hall : forall w, In w (weighQ_unrepaired l) -> (w == 0)%Q).
    { intros w Hin. destruct (In_nth_error _ _ Hin) as (i & Hi).
      destruct (Hcl i w Hi) as (_ & Hp & _). destruct (Hw01 w Hin) as [H0 _].
      destruct (Qlt_le_dec 0 w) as [Hlt|Hle]; [specialize (Hp Hlt); cbn in Hp; lia|lra]. }
    pose proof (sumQ_all_zero _ Hall) as Hs0. rewrite (weights_sum_one_unrepaired l Hne) in Hs0. lra.
Qed.

(* ---------- the crash status shortcut is the model ---------- *)
(** for every arithmetic instance (binary64 included), every list of fixed weights and
    every behaviour of the sort: [route_status_unrepaired] is the crash status of [route_ring_unrepaired] *)
Theorem route_status_correct_unrepaired (A : arith) order (fixed : list (num A)) :
  (forall s, Permutation (order s) s) ->
  status_of (route_ring_unrepaired A order fixed) = route_status_unrepaired A fixed.
Proof.
  intros Hord. unfold route_ring_unrepaired, route_status_unrepaired.
  destruct (Nat.eqb (n_fixed A fixed) 0); [reflexivity|].
  set (counts := map (slot_count A) (weigh_unrepaired A fixed)).
  pose proof (ring_status_correct counts (order (indexed counts)) (Hord _)) as H.
  destruct (ring_of_counts (order (indexed counts)) counts); cbn [bind status_of] in *; exact H.
Qed.

(* ---------- the tie order of the unstable sort is immaterial ---------- *)
Theorem fill_counts_order_independent counts sorted1 sorted2 :
  Forall (fun n => 0 <= n)%Z counts -> (zsum counts <= 2^45)%Z ->
  Permutation sorted1 (indexed counts) -> Permutation sorted2 (indexed counts) ->
  exists r1 r2, ring_of_counts sorted1 counts = Ok r1 /\ ring_of_counts sorted2 counts = Ok r2
    /\ length r1 = length r2 /\ forall t, occupancy t r1 = occupancy t r2.
Proof.
  intros Hnn Hb H1 H2.
  destruct (ring_of_counts_spec counts sorted1 Hnn Hb H1) as (r1 & Hr1 & Hl1 & Hn1 & Hs1).
  destruct (ring_of_counts_spec counts sorted2 Hnn Hb H2) as (r2 & Hr2 & Hl2 & Hn2 & Hs2).
  exists r1, r2. repeat split; [exact Hr1|exact Hr2|lia|].
  intros [i|]; [|lia]. specialize (Hs1 i). specialize (Hs2 i). lia.
Qed.

Lemma route_counts_ok_unrepaired (l : list Q) :
  (Z.of_nat (length l) <= 3000000000)%Z ->
  let counts := map (slot_count arithQ) (weighQ_unrepaired l) in
  Forall (fun n => 0 <= n <= 10000)%Z counts /\ (zsum counts <= 2 ^ 45)%Z.
Proof.
  intros Hlen counts.
  assert (Hrange : Forall (fun n => 0 <= n <= 10000)%Z counts).
  { unfold counts. apply Forall_forall. intros n Hn. apply in_map_iff in Hn.
    destruct Hn as (w & <- & Hin). apply slot_count_range; [now apply (weights_nonneg_unrepaired l)|now apply (weights_le_one_unrepaired l)]. }
  split; [exact Hrange|].
  assert (Hub : Forall (fun n => n <= 10000)%Z counts).
  { eapply Forall_impl; [|exact Hrange]. cbn. intros; lia. }
  pose proof (zsum_bound counts 10000 Hub) as Hz.
  assert (Hlc : length counts = length l).
  { unfold counts. rewrite map_length, weighQU_map, map_length. reflexivity. }
  rewrite Hlc in Hz. assert (2 ^ 45 = 35184372088832)%Z by reflexivity. lia.
Qed.

(** whatever two executions of the unstable sort do, the two rings have the same length
    and every target (and nil) the same number of slots: all conclusions of the property
    (shares, never starved, never picked, hit counts of a full round-robin cycle, support
    of the random picker) are functions of these numbers only *)
Theorem route_split_order_independent_unrepaired order1 order2 (l : list Q) :
  l <> [] -> (Z.of_nat (length l) <= 3000000000)%Z ->
  (forall s, Permutation (order1 s) s) -> (forall s, Permutation (order2 s) s) ->
  exists r1 r2, route_ring_unrepaired arithQ order1 l = Ok (weighQ_unrepaired l, r1)
    /\ route_ring_unrepaired arithQ order2 l = Ok (weighQ_unrepaired l, r2)
    /\ length r1 = length r2 /\ forall t, occupancy t r1 = occupancy t r2.
Proof.
  intros Hne Hlen H1 H2. unfold route_ring_unrepaired. fold (weighQ_unrepaired l).
  destruct (Nat.eqb (n_fixed arithQ l) 0).
  - eexists. eexists. repeat split; reflexivity.
  - destruct (route_counts_ok_unrepaired l Hlen) as [Hrange Hb].
    set (counts := map (slot_count arithQ) (weighQ_unrepaired l)) in *.
    assert (Hnn : Forall (fun n => 0 <= n)%Z counts).
    { eapply Forall_impl; [|exact Hrange]. cbn. intros; lia. }
    destruct (fill_counts_order_independent counts _ _ Hnn Hb (H1 (indexed counts)) (H2 (indexed counts)))
      as (r1 & r2 & Hr1 & Hr2 & Hl & Ho).
    rewrite Hr1, Hr2. cbn [bind]. exists r1, r2. repeat split; assumption.
Qed.

(* ---------- the resolution of 10 000 slots ---------- *)
Local Open Scope Q_scope.
Lemma slot_bounds w : 0 <= w -> w <= 1 ->
  inject_Z 10000 * w - 1 < inject_Z (slot_countQ w) /\ inject_Z (slot_countQ w) <= inject_Z 10000 * w + 1.
Proof.
  intros H0 H1. destruct (slot_arg_range w H0 H1) as [Ha _].
  destruct (slot_count_resolution w H0 H1) as [(Hn & Hw & Hx)|(Hl & Hu)].
  - rewrite Hn. change (inject_Z 1) with 1. set (x := inject_Z 10000 * w) in *. clearbody x. split; lra.
  - set (x := inject_Z 10000 * w) in *. clearbody x. split; lra.
Qed.

Lemma inject_Z_sub a b : inject_Z (a - b) == inject_Z a - inject_Z b.
Proof. unfold Z.sub. rewrite inject_Z_plus, inject_Z_opp. reflexivity. Qed.

Lemma zsum_cons n l : zsum (n :: l) = (n + zsum l)%Z.
Proof. reflexivity. Qed.

Lemma slots_sum_bounds ws : (forall w, In w ws -> 0 <= w /\ w <= 1) ->
  inject_Z 10000 * sumQ ws - qn (length ws) <= inject_Z (zsum (map slot_countQ ws))
  /\ inject_Z (zsum (map slot_countQ ws)) <= inject_Z 10000 * sumQ ws + qn (length ws).
Proof.
  induction ws as [|w ws IH]; intros H01.
  - cbn [map length]. rewrite sumQ_nil. unfold qn, zsum. cbn [fold_right Z.of_nat].
    change (inject_Z 0) with 0. set (S := inject_Z 10000). clearbody S. split; lra.
  - cbn [map length]. rewrite zsum_cons, inject_Z_plus, sumQ_cons, qn_S.
    destruct (H01 w (or_introl eq_refl)) as [H0 H1].
    destruct (slot_bounds w H0 H1) as [Hl Hu].
    destruct IH as [IHl IHu]; [intros x Hx; apply H01; now right|].
    set (S := inject_Z 10000) in *. clearbody S. split; nra.
Qed.

(** slots_resolution (sum): the ring of a route with [len] targets has more than S - len and
    at most S + len slots, S = maxSlots = 10000 *)
Theorem slots_resolution_sum_unrepaired (l : list Q) : l <> [] ->
  (10000 - Z.of_nat (length l) < zsum (map slot_countQ (weighQ_unrepaired l)) <= 10000 + Z.of_nat (length l))%Z.
Proof.
  intros Hne.
  assert (H01 : forall w, In w (weighQ_unrepaired l) -> 0 <= w /\ w <= 1).
  { intros w Hin. split; [now apply (weights_nonneg_unrepaired l)|now apply (weights_le_one_unrepaired l)]. }
  pose proof (weights_sum_one_unrepaired l Hne) as Hsum.
  assert (Hlen : length (weighQ_unrepaired l) = length l) by (rewrite weighQU_map; apply map_length).
  destruct (weighQ_unrepaired l) as [|w ws] eqn:Ews.
  { exfalso. destruct l; [now apply Hne|]. cbn in Hlen. discriminate. }
  cbn [map] in *. rewrite zsum_cons. rewrite sumQ_cons in Hsum. cbn [length] in Hlen.
  destruct (H01 w (or_introl eq_refl)) as [H0 H1].
  destruct (slot_bounds w H0 H1) as [Hl Hu].
  destruct (slots_sum_bounds ws) as [Sl Su]; [intros x Hx; apply H01; now right|].
  assert (Hq : qn (length l) == qn (length ws) + 1) by (rewrite <- Hlen; apply qn_S).
  split.
  - rewrite Zlt_Qlt. rewrite inject_Z_sub, inject_Z_plus. fold (qn (length l)). rewrite Hq.
    assert (inject_Z 10000 == 10000) by reflexivity. nra.
  - rewrite Zle_Qle. rewrite !inject_Z_plus. fold (qn (length l)). rewrite Hq.
    assert (inject_Z 10000 == 10000) by reflexivity. nra.
Qed.

(** ... and therefore the share of slots of every target is its weight up to
    (len + 1) / (S - len), for every route with fewer than S targets *)
Theorem slots_share_bound_unrepaired (l : list Q) i w : l <> [] -> (Z.of_nat (length l) < 10000)%Z ->
  nth_error (weighQ_unrepaired l) i = Some w ->
  let U := inject_Z (zsum (map slot_countQ (weighQ_unrepaired l))) in
  let B := (qn (length l) + 1) / (inject_Z 10000 - qn (length l)) in
  0 < U /\ - B <= inject_Z (slot_countQ w) / U - w /\ inject_Z (slot_countQ w) / U - w <= B.
Proof.
  intros Hne Hlt Hw U B.
  pose proof (slots_resolution_sum_unrepaired l Hne) as [HUl HUu].
  rewrite Zlt_Qlt in HUl. rewrite Zle_Qle in HUu. rewrite inject_Z_sub in HUl. rewrite inject_Z_plus in HUu.
  fold U in HUl, HUu. fold (qn (length l)) in HUl, HUu.
  rewrite Zlt_Qlt in Hlt. fold (qn (length l)) in Hlt.
  pose proof (qn_nonneg (length l)) as Hln.
  assert (H0 : 0 <= w) by (apply (weights_nonneg_unrepaired l); eapply nth_error_In; eauto).
  assert (H1 : w <= 1) by (apply (weights_le_one_unrepaired l); eapply nth_error_In; eauto).
  destruct (slot_bounds w H0 H1) as [Hl Hu].
  set (n := inject_Z (slot_countQ w)) in *. set (L := qn (length l)) in *. set (S := inject_Z 10000) in *.
  assert (HU0 : 0 < U) by lra. split; [exact HU0|].
  assert (HD : 0 < S - L) by lra.
  set (K := (L + 1) / (S - L)).
  assert (HK : K * (S - L) == L + 1) by (unfold K; field; lra).
  assert (HK0 : 0 <= K) by (unfold K; apply Qle_shift_div_l; lra).
  assert (Hnum_u : n - w * U <= L + 1) by nra.
  assert (Hnum_l : - (L + 1) <= n - w * U) by nra.
  assert (Heq : n / U - w == (n - w * U) / U) by (field; lra).
  fold K in B. subst B. rewrite Heq. split.
  - apply Qle_shift_div_l; [exact HU0|]. nra.
  - apply Qle_shift_div_r; [exact HU0|]. nra.
Qed.
Local Close Scope Q_scope.

(* non-vacuity: the hypotheses are met by a concrete route and the stable order *)
Example route_ring_nonvacuous_unrepaired :
  exists r, route_ring_unrepaired arithQ stable_order [1 # 2; 0; 1 # 5]%Q = Ok (weighQ_unrepaired [1 # 2; 0; 1 # 5]%Q, r) /\ r <> [].
Proof.
  destruct (route_ring_spec_unrepaired stable_order [1 # 2; 0; 1 # 5]%Q) as (r & H1 & H2 & _).
  - discriminate.
  - cbn. lia.
  - apply stable_order_perm.
  - exists r. split; assumption.
Qed.

(* ====================================================================== *)
(* weighTargets since commit 290c777 (fallback to the even distribution)   *)
(* ====================================================================== *)
Lemma usable_Q w : (0 <= w)%Q -> (w <= 1)%Q -> usable arithQ w = true.
Proof.
  intros H0 H1. unfold usable. cbn [a_le a_zero a_wmax arithQ].
  apply andb_true_iff. split; apply Qle_bool_iff; [exact H0|].
  apply Qle_trans with 1%Q; [exact H1|]. unfold Qle. cbn. lia.
Qed.

Lemma zsum_zero_all counts : Forall (fun n => 0 <= n)%Z counts -> zsum counts = 0%Z ->
  forall n, In n counts -> n = 0%Z.
Proof.
  induction 1 as [|m counts Hm Hall IH]; intros Hz n Hin; [destruct Hin|].
  rewrite zsum_cons in Hz. pose proof (zsum_nonneg counts Hall).
  destruct Hin as [<-|Hin]; [lia|apply IH; [lia|exact Hin]].
Qed.

Lemma counts_sum_pos (l : list Q) : l <> [] -> (Z.of_nat (length l) <= 3000000000)%Z ->
  (0 < zsum (map (slot_count arithQ) (weighQ_unrepaired l)))%Z.
Proof.
  intros Hne Hlen. destruct (route_counts_ok_unrepaired l Hlen) as [Hrange _].
  set (counts := map (slot_count arithQ) (weighQ_unrepaired l)) in *.
  assert (Hnn : Forall (fun n => 0 <= n)%Z counts) by (eapply Forall_impl; [|exact Hrange]; cbn; intros; lia).
  pose proof (zsum_nonneg counts Hnn) as H0.
  destruct (Z.eq_dec (zsum counts) 0) as [Hz|Hz]; [|lia]. exfalso.
  assert (Hall : forall w, In w (weighQ_unrepaired l) -> (w == 0)%Q).
  { intros w Hin. pose proof (weights_nonneg_unrepaired l w Hin) as Hw0.
    pose proof (weights_le_one_unrepaired l w Hin) as Hw1.
    destruct (Qlt_le_dec 0 w) as [Hlt|Hle]; [|lra].
    pose proof (slot_count_pos w Hlt Hw1) as Hp.
    assert (Hc : slot_countQ w = 0%Z).
    { apply (zsum_zero_all counts Hnn Hz). unfold counts. apply in_map. exact Hin. }
    lia. }
  pose proof (sumQ_all_zero _ Hall) as Hs0. rewrite (weights_sum_one_unrepaired l Hne) in Hs0. lra.
Qed.

(** fallback_never_on_Q: on exact rationals the usable test always passes and usedSlots > 0
    (for a non-empty route with at most 3*10^9 targets, so that usedSlots cannot wrap), hence
    the repaired weighTargets IS the old one on Q *)
Theorem fallback_never_on_Q (l : list Q) : l <> [] -> (Z.of_nat (length l) <= 3000000000)%Z ->
  fallback arithQ l = false.
Proof.
  intros Hne Hlen. unfold fallback. cbv zeta. fold (weighQ_unrepaired l).
  apply orb_false_iff. split.
  - apply negb_false_iff. apply forallb_forall. intros w Hin.
    apply usable_Q; [now apply (weights_nonneg_unrepaired l)|now apply (weights_le_one_unrepaired l)].
  - destruct (route_counts_ok_unrepaired l Hlen) as [Hrange Hb]. cbv zeta in Hrange, Hb.
    set (counts := map (slot_count arithQ) (weighQ_unrepaired l)) in *.
    assert (Hnn : Forall (fun n => 0 <= n)%Z counts) by (eapply Forall_impl; [|exact Hrange]; cbn; intros; lia).
    change (total_slots counts) with (used_slots counts).
    assert (H45 : (2 ^ 45 = 35184372088832)%Z) by reflexivity.
    rewrite used_slots_sum by (auto; lia).
    pose proof (counts_sum_pos l Hne Hlen) as Hp. fold counts in Hp. apply Z.leb_gt. exact Hp.
Qed.

Lemma uses_fill_Q (l : list Q) : (Z.of_nat (length l) <= 3000000000)%Z ->
  uses_fill arithQ l = negb (Nat.eqb (n_fix l) 0).
Proof.
  intros Hlen. unfold uses_fill. change (n_fixed arithQ l) with (n_fix l). destruct l as [|x l]; [reflexivity|].
  rewrite fallback_never_on_Q by (try discriminate; exact Hlen). apply andb_true_r.
Qed.

Theorem weighQ_eq_unrepaired (l : list Q) : (Z.of_nat (length l) <= 3000000000)%Z ->
  weighQ l = weighQ_unrepaired l.
Proof.
  intros Hlen. unfold weighQ, weigh. rewrite (uses_fill_Q l Hlen).
  destruct (Nat.eqb (n_fix l) 0) eqn:E; cbn [negb]; [|reflexivity].
  unfold weigh_even, weighQ_unrepaired, weigh_unrepaired. cbv zeta. change (n_fixed arithQ l) with (n_fix l). rewrite E. reflexivity.
Qed.

Theorem route_ring_Q_eq order (l : list Q) : (Z.of_nat (length l) <= 3000000000)%Z ->
  route_ring arithQ order l = route_ring_unrepaired arithQ order l.
Proof.
  intros Hlen. unfold route_ring, route_ring_unrepaired.
  pose proof (weighQ_eq_unrepaired l Hlen) as E. unfold weighQ, weighQ_unrepaired in E.
  rewrite E, (uses_fill_Q l Hlen). change (n_fixed arithQ l) with (n_fix l).
  destruct (Nat.eqb (n_fix l) 0); reflexivity.
Qed.

(** the proportionality theorems for the code as it is *)
Theorem fixed_honoured (l : list Q) i f w : (Z.of_nat (length l) <= 3000000000)%Z ->
  nth_error l i = Some f -> (0 < f)%Q -> (sum_pos l <= 1)%Q -> n_fix l < length l ->
  nth_error (weighQ l) i = Some w -> (w == f)%Q.
Proof. intros Hlen. rewrite (weighQ_eq_unrepaired l Hlen). apply fixed_honoured_unrepaired. Qed.

Theorem scaled_down (l : list Q) i f w : (Z.of_nat (length l) <= 3000000000)%Z ->
  nth_error l i = Some f -> (0 < f)%Q -> (1 < sum_pos l)%Q ->
  nth_error (weighQ l) i = Some w -> (w == f / sum_pos l)%Q.
Proof. intros Hlen. rewrite (weighQ_eq_unrepaired l Hlen). apply scaled_down_unrepaired. Qed.

Theorem scaled_down_dynamic (l : list Q) i f w : (Z.of_nat (length l) <= 3000000000)%Z ->
  nth_error l i = Some f -> ~ (0 < f)%Q -> (1 < sum_pos l)%Q ->
  nth_error (weighQ l) i = Some w -> (w == 0)%Q.
Proof. intros Hlen. rewrite (weighQ_eq_unrepaired l Hlen). apply scaled_down_dynamic_unrepaired. Qed.

Theorem scaled_up (l : list Q) i f w : (Z.of_nat (length l) <= 3000000000)%Z ->
  nth_error l i = Some f -> n_fix l = length l -> (sum_pos l < 1)%Q ->
  nth_error (weighQ l) i = Some w -> (w == f / sum_pos l)%Q.
Proof. intros Hlen. rewrite (weighQ_eq_unrepaired l Hlen). apply scaled_up_unrepaired. Qed.

Theorem dynamic_equal_share (l : list Q) i f w : (Z.of_nat (length l) <= 3000000000)%Z ->
  nth_error l i = Some f -> ~ (0 < f)%Q ->
  nth_error (weighQ l) i = Some w -> (w == (1 - Qmin 1 (sum_pos l)) / qn (n_dyn l))%Q.
Proof. intros Hlen. rewrite (weighQ_eq_unrepaired l Hlen). apply dynamic_equal_share_unrepaired. Qed.

(** end to end, the code as it is *)
Theorem route_ring_spec order (l : list Q) :
  l <> [] -> (Z.of_nat (length l) <= 3000000000)%Z -> (forall s, Permutation (order s) s) ->
  exists r, route_ring arithQ order l = Ok (weighQ l, r)
    /\ r <> [] /\ occupancy None r = 0
    /\ forall i w, nth_error (weighQ l) i = Some w ->
         ((w == 0)%Q -> occupancy (Some i) r = 0)
         /\ ((0 < w)%Q -> 1 <= occupancy (Some i) r)
         /\ (n_fix l <> 0 -> Z.of_nat (occupancy (Some i) r) = slot_countQ w).
Proof.
  intros Hne Hlen Hord. rewrite (route_ring_Q_eq order l Hlen), (weighQ_eq_unrepaired l Hlen).
  now apply route_ring_spec_unrepaired.
Qed.

Theorem route_split_order_independent order1 order2 (l : list Q) :
  l <> [] -> (Z.of_nat (length l) <= 3000000000)%Z ->
  (forall s, Permutation (order1 s) s) -> (forall s, Permutation (order2 s) s) ->
  exists r1 r2, route_ring arithQ order1 l = Ok (weighQ l, r1)
    /\ route_ring arithQ order2 l = Ok (weighQ l, r2)
    /\ length r1 = length r2 /\ forall t, occupancy t r1 = occupancy t r2.
Proof.
  intros Hne Hlen H1 H2. rewrite !(route_ring_Q_eq _ l Hlen), (weighQ_eq_unrepaired l Hlen).
  now apply route_split_order_independent_unrepaired.
Qed.

(** the crash status shortcut is the model, for every arithmetic instance *)
Theorem route_status_correct (A : arith) order (fixed : list (num A)) :
  (forall s, Permutation (order s) s) ->
  status_of (route_ring A order fixed) = route_status A fixed.
Proof.
  intros Hord. unfold route_ring, route_status.
  destruct (uses_fill A fixed); [|reflexivity].
  set (counts := map (slot_count A) (weigh A fixed)).
  pose proof (ring_status_correct counts (order (indexed counts)) (Hord _)) as H.
  destruct (ring_of_counts (order (indexed counts)) counts); cbn [bind status_of] in *; exact H.
Qed.

(** the resolution of 10 000 slots, for any weights in [0,1] that sum to one *)
Local Open Scope Q_scope.
Lemma resolution_sum_generic (ws : list Q) : ws <> [] ->
  (forall w, In w ws -> 0 <= w /\ w <= 1) -> sumQ ws == 1 ->
  (10000 - Z.of_nat (length ws) < zsum (map slot_countQ ws) <= 10000 + Z.of_nat (length ws))%Z.
Proof.
  intros Hne H01 Hsum. destruct ws as [|w ws]; [congruence|].
  cbn [map]. rewrite zsum_cons. rewrite sumQ_cons in Hsum.
  destruct (H01 w (or_introl eq_refl)) as [H0 H1].
  destruct (slot_bounds w H0 H1) as [Hl Hu].
  destruct (slots_sum_bounds ws) as [Sl Su]; [intros x Hx; apply H01; now right|].
  assert (Hq : qn (length (w :: ws)) == qn (length ws) + 1) by (cbn [length]; apply qn_S).
  split.
  - rewrite Zlt_Qlt. rewrite inject_Z_sub, inject_Z_plus. fold (qn (length (w :: ws))). rewrite Hq.
    assert (inject_Z 10000 == 10000) by reflexivity. nra.
  - rewrite Zle_Qle. rewrite !inject_Z_plus. fold (qn (length (w :: ws))). rewrite Hq.
    assert (inject_Z 10000 == 10000) by reflexivity. nra.
Qed.
Local Close Scope Q_scope.

Theorem slots_resolution_sum (l : list Q) : l <> [] ->
  (10000 - Z.of_nat (length l) < zsum (map slot_countQ (weighQ l)) <= 10000 + Z.of_nat (length l))%Z.
Proof.
  intros Hne. rewrite <- (weighQ_length l). apply resolution_sum_generic.
  - intros E. apply (f_equal (@length Q)) in E. rewrite weighQ_length in E. destruct l; [congruence|discriminate].
  - intros w Hin. split; [now apply (weights_nonneg l)|now apply (weights_le_one l)].
  - now apply weights_sum_one.
Qed.

Theorem slots_share_bound (l : list Q) i w : l <> [] -> (Z.of_nat (length l) < 10000)%Z ->
  nth_error (weighQ l) i = Some w ->
  let U := inject_Z (zsum (map slot_countQ (weighQ l))) in
  let B := ((qn (length l) + 1) / (inject_Z 10000 - qn (length l)))%Q in
  (0 < U)%Q /\ (- B <= inject_Z (slot_countQ w) / U - w)%Q /\ (inject_Z (slot_countQ w) / U - w <= B)%Q.
Proof.
  intros Hne Hlt. rewrite (weighQ_eq_unrepaired l ltac:(lia)). now apply slots_share_bound_unrepaired.
Qed.

Example route_ring_nonvacuous :
  exists r, route_ring arithQ stable_order [1 # 2; 0; 1 # 5]%Q = Ok (weighQ [1 # 2; 0; 1 # 5]%Q, r) /\ r <> [].
Proof.
  destruct (route_ring_spec stable_order [1 # 2; 0; 1 # 5]%Q) as (r & H1 & H2 & _).
  - discriminate.
  - cbn. lia.
  - apply stable_order_perm.
  - exists r. split; assumption.
Qed.

(* ====================================================================== *)
(* the composed statements: weights -> ring -> round-robin shares          *)
(* ====================================================================== *)
(** every target fixed and the weights sum to exactly 100%: honoured as given (the case between
    [fixed_honoured], which needs a dynamic target, and [scaled_up], which needs a sum below one) *)
Theorem fixed_honoured_sum_one (l : list Q) i f w : (Z.of_nat (length l) <= 3000000000)%Z ->
  nth_error l i = Some f -> (0 < f)%Q -> (sum_pos l == 1)%Q ->
  nth_error (weighQ l) i = Some w -> (w == f)%Q.
Proof.
  intros Hlen Hn Hf Hsum Hw. rewrite (weighQ_eq_unrepaired l Hlen) in Hw.
  rewrite (weighQU_nth l i f Hn) in Hw. injection Hw as <-.
  assert (Hp : posb f = true) by now apply Q_gt_true.
  pose proof (posb_in_nfix l f (nth_error_In _ _ Hn) Hp) as Hnf.
  unfold weight_fn. replace (Nat.eqb (n_fix l) 0) with false by (symmetry; apply Nat.eqb_neq; lia).
  rewrite Hp, scaleQ_unfold.
  replace (Q_gt (sum_fixed arithQ l) 1) with false
    by (symmetry; apply Q_gt_false; rewrite sum_fixed_eq, Hsum; apply Qle_refl).
  replace (Q_lt (sum_fixed arithQ l) 1) with false
    by (symmetry; apply Q_lt_false; rewrite sum_fixed_eq, Hsum; apply Qle_refl).
  rewrite andb_false_r. cbn [orb]. ring.
Qed.

(** no fixed weight: the ring IS the target list, every target exactly one slot *)
Theorem route_ring_all_dynamic order (l : list Q) : n_fix l = 0 ->
  route_ring arithQ order l = Ok (weighQ l, map Some (seq 0 (length l))).
Proof.
  intros H0. unfold route_ring, uses_fill. change (n_fixed arithQ l) with (n_fix l). rewrite H0. reflexivity.
Qed.

(** some fixed weight: the ring has exactly the sum of the slot counts, target i its slot count *)
Theorem route_ring_fill_spec order (l : list Q) :
  n_fix l <> 0 -> (Z.of_nat (length l) <= 3000000000)%Z -> (forall s, Permutation (order s) s) ->
  exists r, route_ring arithQ order l = Ok (weighQ l, r)
    /\ Z.of_nat (length r) = zsum (map slot_countQ (weighQ l))
    /\ occupancy None r = 0
    /\ forall i w, nth_error (weighQ l) i = Some w -> Z.of_nat (occupancy (Some i) r) = slot_countQ w.
Proof.
  intros Hnf Hlen Hord. rewrite (route_ring_Q_eq order l Hlen), (weighQ_eq_unrepaired l Hlen).
  unfold route_ring_unrepaired. fold (weighQ_unrepaired l). change (n_fixed arithQ l) with (n_fix l).
  replace (Nat.eqb (n_fix l) 0) with false by (symmetry; apply Nat.eqb_neq; exact Hnf).
  destruct (route_counts_ok_unrepaired l Hlen) as [Hrange Hb]. cbv zeta in Hrange, Hb.
  set (counts := map (slot_count arithQ) (weighQ_unrepaired l)) in *.
  assert (Hnn : Forall (fun n => 0 <= n)%Z counts) by (eapply Forall_impl; [|exact Hrange]; cbn; intros; lia).
  destruct (ring_of_counts_spec counts (order (indexed counts)) Hnn Hb (Hord _)) as (r & Hr & Hl & Hn & Hs).
  rewrite Hr. cbn [bind]. exists r. split; [reflexivity|]. split; [exact Hl|]. split; [exact Hn|].
  intros i w Hw. rewrite Hs. unfold counts.
  apply (nth_error_nth (map (slot_count arithQ) (weighQ_unrepaired l))). now apply map_nth_error.
Qed.

(** C04_rr_share_end_to_end: for every non-empty route with fewer than 10000 targets (fixed weights or
    not), whatever the sort does and wherever the cursor stands (no uint64 wrap inside the cycle): over
    one full round-robin cycle the fraction of requests target i receives is its effective weight up
    to (len + 1) / (10000 - len); exactly its weight when no weight is fixed *)
Theorem rr_share_end_to_end order (l : list Q) total :
  l <> [] -> (Z.of_nat (length l) < 10000)%Z -> (forall s, Permutation (order s) s) -> (total < two64)%N ->
  exists r, route_ring arithQ order l = Ok (weighQ l, r) /\ r <> [] /\
    ((total + N.of_nat (length r) <= two64)%N ->
     exists picks c, rr_run (length r) r total = Ok (picks, c) /\ length picks = length r /\
       forall i w, nth_error (weighQ l) i = Some w ->
         let share := (inject_Z (Z.of_nat (occupancy (Some i) picks)) / inject_Z (Z.of_nat (length r)))%Q in
         let B := ((qn (length l) + 1) / (inject_Z 10000 - qn (length l)))%Q in
         (- B <= share - w)%Q /\ (share - w <= B)%Q).
Proof.
  intros Hne Hlt Hord Htot.
  assert (Hlen : (Z.of_nat (length l) <= 3000000000)%Z) by lia.
  assert (Hl0 : 0 < length l) by (destruct l; [congruence|cbn; lia]).
  assert (HB : (0 <= (qn (length l) + 1) / (inject_Z 10000 - qn (length l)))%Q).
  { pose proof (qn_nonneg (length l)) as Hq. rewrite Zlt_Qlt in Hlt. fold (qn (length l)) in Hlt.
    apply Qle_shift_div_l; lra. }
  destruct (Nat.eq_dec (n_fix l) 0) as [H0|Hnf].
  - (* no fixed weight *)
    exists (map Some (seq 0 (length l))). split; [now apply route_ring_all_dynamic|].
    assert (Hrne : map Some (seq 0 (length l)) <> []) by (destruct l; [congruence|cbn [length seq map]; discriminate]).
    split; [exact Hrne|]. intros Hb.
    destruct (rr_cycle_exact _ total Hrne Htot Hb) as (picks & Hrun & Hlp & Hocc).
    exists picks. eexists. split; [exact Hrun|]. split; [exact Hlp|].
    intros i w Hw. cbv zeta. rewrite Hocc, occupancy_map_some_seq. cbn [Nat.leb andb Nat.add].
    assert (Hi : i < length l).
    { rewrite <- (weighQ_length l). apply (proj1 (nth_error_Some (weighQ l) i)). rewrite Hw. discriminate. }
    replace (Nat.ltb i (length l)) with true by (symmetry; apply Nat.ltb_lt; exact Hi).
    rewrite map_length, seq_length.
    rewrite (weighQ_eq_unrepaired l Hlen) in Hw. destruct (weighQU_nth_inv l i w Hw) as (f & _ & ->).
    unfold weight_fn. rewrite H0. cbn [Nat.eqb]. fold (qn (length l)). change (inject_Z (Z.of_nat 1)) with 1%Q.
    pose proof (qn_pos _ Hl0).
    assert (He : (1 / qn (length l) - 1 / qn (length l) == 0)%Q) by ring.
    rewrite He. split; lra.
  - destruct (route_ring_fill_spec order l Hnf Hlen Hord) as (r & Hr & Hl & Hnil & Hocc).
    destruct (slots_resolution_sum l Hne) as [Hlo _].
    assert (Hrne : r <> []) by (intros ->; cbn [length] in Hl; lia).
    exists r. split; [exact Hr|]. split; [exact Hrne|]. intros Hb.
    destruct (rr_cycle_exact r total Hrne Htot Hb) as (picks & Hrun & Hlp & Hpo).
    exists picks. eexists. split; [exact Hrun|]. split; [exact Hlp|].
    intros i w Hw. cbv zeta. rewrite Hpo, (Hocc i w Hw), Hl.
    destruct (slots_share_bound l i w Hne Hlt Hw) as (_ & H1 & H2). split; assumption.
Qed.

(** `route weight` composed with weighTargets: when the fixed weights after the command fit into
    100% and some target stays dynamic, every matching target's EFFECTIVE weight is weight / n,
    i.e. the matching targets receive the configured share in total *)
Theorem set_weight_then_weigh (m : list bool) (wt : Q) (l : list Q) i w :
  length m = length l -> (Z.of_nat (length l) <= 3000000000)%Z -> (0 < wt)%Q ->
  let l' := fst (set_weight arithQ m wt l) in
  (sum_pos l' <= 1)%Q -> n_fix l' < length l' ->
  nth_error m i = Some true -> nth_error (weighQ l') i = Some w ->
  (w == wt / qn (count_true m))%Q.
Proof.
  intros Hlm Hlen Hwt l' Hsum Hdyn Hm Hw.
  assert (Hn : 0 < count_true m).
  { unfold count_true. clear -Hm. revert i Hm. induction m as [|b m IH]; intros i Hm; [destruct i; discriminate|].
    destruct i as [|i]; cbn [nth_error] in Hm.
    - injection Hm as ->. cbn [filter length]. lia.
    - specialize (IH i Hm). cbn [filter]. destruct b; cbn [length]; lia. }
  assert (Hi : i < length l).
  { rewrite <- Hlm. apply (proj1 (nth_error_Some m i)). rewrite Hm. discriminate. }
  destruct (nth_error l i) as [f|] eqn:Hf; [|apply nth_error_None in Hf; lia].
  assert (Hl'i : nth_error l' i = Some (wt / qn (count_true m))%Q).
  { unfold l', set_weight. cbn [fst]. rewrite (assign_nth m _ l i true f Hm Hf). reflexivity. }
  assert (Hlen' : length l' = length l).
  { assert (Hgen : forall (m0 : list bool) w0 (l0 : list Q), length (assign arithQ m0 w0 l0) = length l0).
    { induction m0 as [|b0 m0 IH]; intros w0 l0; [reflexivity|]. destruct l0 as [|f0 l0]; [reflexivity|].
      cbn [assign length]. now rewrite IH. }
    unfold l', set_weight. cbn [fst]. apply Hgen. }
  pose proof (qn_pos _ Hn) as Hq.
  assert (Hlen2 : (Z.of_nat (length l') <= 3000000000)%Z) by (rewrite Hlen'; exact Hlen).
  assert (Hpos : (0 < wt / qn (count_true m))%Q) by (apply Qlt_shift_div_l; lra).
  exact (fixed_honoured l' i (wt / qn (count_true m))%Q w Hlen2 Hl'i Hpos Hsum Hdyn Hw).
Qed.

(** addTarget records the weight it is given: a weight that is not negative is the target's fixed weight
    as it stands (a negative one means "no fixed weight") - the step in front of [weigh] *)
Lemma add_records_given (ws : list Q) :
  Forall (fun w => (0 <= w)%Q) ws -> map (clamp_fixed arithQ) ws = ws.
Proof.
  induction 1 as [|w ws Hw _ IH]; cbn [map]; [reflexivity|].
  rewrite IH. f_equal. unfold clamp_fixed. cbn [a_lt a_zero arithQ].
  destruct (Q_lt w 0) eqn:E; [|reflexivity].
  exfalso. unfold Q_lt in E. apply Qle_bool_iff in Hw. rewrite Hw in E. discriminate E.
Qed.

Lemma add_negative_is_dynamic (w : Q) : (w < 0)%Q -> clamp_fixed arithQ w = 0%Q.
Proof.
  intros Hw. unfold clamp_fixed. cbn [a_lt a_zero arithQ]. unfold Q_lt.
  destruct (Qle_bool 0 w) eqn:E; [|reflexivity].
  apply Qle_bool_iff in E. exfalso. apply (Qlt_irrefl w). apply (Qlt_le_trans _ 0); assumption.
Qed.
