(** Proofs for C13, round 5:
    - the specification of a redirect written in a consul tag (Model/RedirectTag.v): the
      reading returns the template, the code and the path options exactly as written, for
      every tag of the documented shape;
    - "only a redirect that points back at the request is skipped". *)
From Coq Require Import String List NArith ZArith Bool Lia.
From Fabio Require Import Lib.Outcome Lib.Bytes Model.Redirect Model.RedirectSpec Model.RedirectTag Proofs.Redirect.
Import ListNotations.
Local Open Scope N_scope.

(* ------------------------------------------------------------------ *)
(** * cutting *)
Lemma take_until_app p a c r :
  forallb (fun x => negb (p x)) a = true -> p c = true -> take_until p (a ++ c :: r) = a.
Proof.
  induction a as [|x a IH]; intros Ha Hc; cbn [app take_until].
  - now rewrite Hc.
  - cbn [forallb] in Ha. apply andb_true_iff in Ha as [Hx Ha]. apply negb_true_iff in Hx. rewrite Hx.
    now rewrite IH.
Qed.
Lemma drop_until_app p a c r :
  forallb (fun x => negb (p x)) a = true -> p c = true -> drop_until p (a ++ c :: r) = c :: r.
Proof.
  induction a as [|x a IH]; intros Ha Hc; cbn [app drop_until].
  - now rewrite Hc.
  - cbn [forallb] in Ha. apply andb_true_iff in Ha as [Hx Ha]. apply negb_true_iff in Hx. rewrite Hx.
    now apply IH.
Qed.
Lemma take_until_all p a : forallb (fun x => negb (p x)) a = true -> take_until p a = a.
Proof.
  induction a as [|x a IH]; intros Ha; cbn [take_until]; [reflexivity|].
  cbn [forallb] in Ha. apply andb_true_iff in Ha as [Hx Ha]. apply negb_true_iff in Hx. rewrite Hx.
  now rewrite IH.
Qed.
Lemma drop_until_all p a : forallb (fun x => negb (p x)) a = true -> drop_until p a = [].
Proof.
  induction a as [|x a IH]; intros Ha; cbn [drop_until]; [reflexivity|].
  cbn [forallb] in Ha. apply andb_true_iff in Ha as [Hx Ha]. apply negb_true_iff in Hx. rewrite Hx.
  now apply IH.
Qed.
Lemma forallb_impl {A} (f g : A -> bool) l :
  (forall x, f x = true -> g x = true) -> forallb f l = true -> forallb g l = true.
Proof.
  intros H. induction l as [|x l IH]; cbn [forallb]; [reflexivity|].
  intros E. apply andb_true_iff in E as [E1 E2]. rewrite (H _ E1), (IH E2). reflexivity.
Qed.
Lemma forallb_app_true {A} (f : A -> bool) a b :
  forallb f a = true -> forallb f b = true -> forallb f (a ++ b) = true.
Proof. intros Ha Hb. rewrite forallb_app, Ha, Hb. reflexivity. Qed.

(* ---- first and last byte ---- *)
Definition first_ok (s : str) : bool := match s with c :: _ => negb (is_blank c) | [] => false end.
Definition last_ok (s : str) : bool := first_ok (rev s).

Lemma first_ok_word w : w <> [] -> no_blank w = true -> first_ok w = true.
Proof.
  destruct w as [|c w]; [congruence|]. intros _ H. cbn [no_blank forallb] in H.
  apply andb_true_iff in H as [H _]. exact H.
Qed.
Lemma first_ok_app a b : first_ok a = true -> first_ok (a ++ b) = true.
Proof. destruct a; [discriminate|]. intros H; exact H. Qed.
Lemma no_blank_rev w : no_blank w = true -> no_blank (rev w) = true.
Proof.
  unfold no_blank. intros H. apply forallb_forall. intros x Hx. apply in_rev in Hx.
  exact (proj1 (forallb_forall _ _) H x Hx).
Qed.
Lemma last_ok_word w : w <> [] -> no_blank w = true -> last_ok w = true.
Proof.
  intros Hn Hb. unfold last_ok. apply first_ok_word; [|now apply no_blank_rev].
  intros E. apply Hn. apply (f_equal (@rev N)) in E. rewrite rev_involutive in E. exact E.
Qed.
Lemma last_ok_app a b : last_ok b = true -> last_ok (a ++ b) = true.
Proof. unfold last_ok. rewrite rev_app_distr. apply first_ok_app. Qed.

Lemma trim_left_ok s : first_ok s = true -> trim_left s = s.
Proof. destruct s as [|c s]; [discriminate|]. unfold trim_left. cbn [first_ok drop_until]. intros ->. reflexivity. Qed.
Lemma trim_ok s : first_ok s = true -> last_ok s = true -> trim s = s.
Proof.
  intros Hf Hl. unfold trim. rewrite (trim_left_ok s Hf), (trim_left_ok (rev s) Hl). apply rev_involutive.
Qed.

(* ---- fields ---- *)
Definition word (w : str) : Prop := w <> [] /\ no_blank w = true.

Lemma fields_unfold c r :
  fields (c :: r) =
  if is_blank c then fields r
  else match r with
       | [] => [[c]]
       | d :: _ => if is_blank d then [c] :: fields r
                   else match fields r with w :: ws => (c :: w) :: ws | [] => [[c]] end
       end.
Proof. reflexivity. Qed.
Lemma fields_blank r : fields (32 :: r) = fields r.
Proof. reflexivity. Qed.
Lemma fields_word_blank w r : word w -> fields (w ++ 32 :: r) = w :: fields r.
Proof.
  intros [Hn Hb]. induction w as [|c w IH]; [congruence|].
  cbn [no_blank forallb] in Hb. apply andb_true_iff in Hb as [Hc Hb]. apply negb_true_iff in Hc.
  destruct w as [|d w].
  - cbn [app]. rewrite (fields_unfold c (32 :: r)), Hc. reflexivity.
  - assert (Hd : is_blank d = false).
    { cbn [forallb] in Hb. apply andb_true_iff in Hb as [Hd _]. now apply negb_true_iff in Hd. }
    change ((c :: d :: w) ++ 32 :: r) with (c :: d :: (w ++ 32 :: r)).
    rewrite (fields_unfold c (d :: (w ++ 32 :: r))), Hc, Hd.
    change (d :: (w ++ 32 :: r)) with ((d :: w) ++ 32 :: r).
    rewrite IH; [reflexivity | discriminate | exact Hb].
Qed.
Lemma fields_word w : word w -> fields w = [w].
Proof.
  intros [Hn Hb]. induction w as [|c w IH]; [congruence|].
  cbn [no_blank forallb] in Hb. apply andb_true_iff in Hb as [Hc Hb]. apply negb_true_iff in Hc.
  destruct w as [|d w].
  - rewrite (fields_unfold c []), Hc. reflexivity.
  - assert (Hd : is_blank d = false).
    { cbn [forallb] in Hb. apply andb_true_iff in Hb as [Hd _]. now apply negb_true_iff in Hd. }
    rewrite (fields_unfold c (d :: w)), Hc, Hd. rewrite IH; [reflexivity | discriminate | exact Hb].
Qed.
Lemma fields_join fs : Forall word fs -> fields (join fs [32]) = fs.
Proof.
  induction fs as [|f fs IH]; intros H; [reflexivity|].
  inversion H as [|? ? Hf Hfs]; subst.
  destruct fs as [|g fs].
  - cbn [join]. now apply fields_word.
  - change (join (f :: g :: fs) [32]) with (f ++ [32] ++ join (g :: fs) [32]).
    cbn [app]. rewrite (fields_word_blank f _ Hf), (IH Hfs). reflexivity.
Qed.
Lemma last_ok_join fs : fs <> [] -> Forall word fs -> last_ok (join fs [32]) = true.
Proof.
  induction fs as [|f fs IH]; intros Hn H; [congruence|].
  inversion H as [|? ? Hf Hfs]; subst.
  destruct fs as [|g fs].
  - cbn [join]. destruct Hf. now apply last_ok_word.
  - change (join (f :: g :: fs) [32]) with (f ++ [32] ++ join (g :: fs) [32]).
    apply last_ok_app, last_ok_app, IH; [discriminate | exact Hfs].
Qed.

(* ------------------------------------------------------------------ *)
(** * the tag: prefix ++ src ++ " " ++ fields is read back as (src, fields) *)
Theorem tag_fields_read prefix src fs :
  no_blank prefix = true -> word src -> fs <> [] -> Forall word fs ->
  tag_fields prefix (prefix ++ src ++ 32 :: join fs [32]) = Some (src, fs).
Proof.
  intros Hp [Hsn Hsb] Hn Hfs. unfold tag_fields.
  assert (Hfirst : first_ok (prefix ++ src ++ 32 :: join fs [32]) = true).
  { destruct prefix as [|c p].
    - cbn [app]. apply first_ok_app, first_ok_word; assumption.
    - apply first_ok_word in Hp; [|discriminate]. exact Hp. }
  assert (Hlast : last_ok (prefix ++ src ++ 32 :: join fs [32]) = true).
  { apply last_ok_app, last_ok_app. change (32 :: join fs [32]) with ([32] ++ join fs [32]).
    apply last_ok_app, last_ok_join; assumption. }
  rewrite (trim_ok _ Hfirst Hlast), has_prefix_app, skipn_len_app.
  rewrite trim_left_ok by (apply first_ok_app, first_ok_word; assumption).
  rewrite take_until_app, drop_until_app by (try exact Hsb; reflexivity).
  rewrite fields_blank, fields_join by exact Hfs. reflexivity.
Qed.

(* ---- redirect=<code>,<url> ---- *)
Definition no_comma (s : str) : bool := forallb (fun c => negb (c =? 44)) s.
Lemma split_byte_nosep a : no_comma a = true -> split_byte a 44 = [a].
Proof.
  induction a as [|x a IH]; intros H; [reflexivity|].
  cbn [no_comma forallb] in H. apply andb_true_iff in H as [Hx H]. apply negb_true_iff in Hx.
  cbn [split_byte]. rewrite Hx, (IH H). reflexivity.
Qed.
Lemma split_byte_app a b : no_comma a = true -> split_byte (a ++ 44 :: b) 44 = a :: split_byte b 44.
Proof.
  induction a as [|x a IH]; intros H; [reflexivity|].
  cbn [no_comma forallb] in H. apply andb_true_iff in H as [Hx H]. apply negb_true_iff in Hx.
  cbn [app split_byte]. rewrite Hx, (IH H). reflexivity.
Qed.
Lemma redirect_of_written code tmpl :
  no_comma code = true -> no_comma tmpl = true ->
  redirect_of (k_redirect ++ code ++ 44 :: tmpl) = Some (code, tmpl).
Proof.
  intros Hc Ht. unfold redirect_of. rewrite has_prefix_app, skipn_len_app, (split_byte_app _ _ Hc), (split_byte_nosep _ Ht).
  reflexivity.
Qed.

Lemma first_some_redirect code tmpl more :
  no_comma code = true -> no_comma tmpl = true ->
  first_some redirect_of ((k_redirect ++ code ++ 44 :: tmpl) :: more) = Some (code, tmpl).
Proof. intros Hc Ht. cbn [first_some]. now rewrite redirect_of_written. Qed.
Lemma opt_value_skip_strip x more : opt_value k_strip ((k_redirect ++ x) :: more) = opt_value k_strip more.
Proof. reflexivity. Qed.
Lemma opt_value_skip_prepend x more : opt_value k_prepend ((k_redirect ++ x) :: more) = opt_value k_prepend more.
Proof. reflexivity. Qed.

(* THE TAG -> what is written: the template comes back byte for byte ($path and $host included),
   with whatever further option fields follow *)
Theorem tag_written_documented prefix src code tmpl more :
  no_blank prefix = true -> word src ->
  no_blank code = true -> no_comma code = true -> no_blank tmpl = true -> no_comma tmpl = true ->
  Forall word more ->
  tag_written prefix (prefix ++ src ++ 32 :: join ((k_redirect ++ code ++ 44 :: tmpl) :: more) [32])
  = Some (mkWritten src code tmpl (opt_value k_strip more) (opt_value k_prepend more)).
Proof.
  intros Hp Hs Hcb Hcc Htb Htc Hm. unfold tag_written.
  assert (Hw : word (k_redirect ++ code ++ 44 :: tmpl)).
  { split; [discriminate|]. unfold no_blank in *. apply forallb_app_true; [reflexivity|].
    apply forallb_app_true; [exact Hcb|]. cbn [forallb]. rewrite Htb. reflexivity. }
  rewrite tag_fields_read; [|exact Hp|exact Hs|discriminate|constructor; assumption].
  rewrite first_some_redirect by assumption.
  rewrite opt_value_skip_strip, opt_value_skip_prepend. reflexivity.
Qed.

(* ------------------------------------------------------------------ *)
(** * the template text *)
Lemma index_css a r :
  forallb (fun c => negb (c =? 58)) a = true -> index (a ++ 58 :: 47 :: 47 :: r) v_css = Some (length a).
Proof.
  induction a as [|x a IH]; intros H.
  - reflexivity.
  - cbn [forallb] in H. apply andb_true_iff in H as [Hx H]. apply negb_true_iff in Hx.
    cbn [app index length]. unfold v_css at 1. cbn [has_prefix]. rewrite Hx. cbn [andb].
    rewrite (IH H). reflexivity.
Qed.
Lemma skipn_len_plus3 {A} (a : list A) x y z r : skipn (length a + 3) (a ++ x :: y :: z :: r) = r.
Proof. induction a as [|h a IH]; [reflexivity|]. cbn [length app plus skipn]. exact IH. Qed.

Lemma lower_not_colon c : is_lower c = true -> negb (c =? 58) = true.
Proof.
  unfold is_lower. intros H. apply andb_true_iff in H as [H _]. apply N.leb_le in H.
  apply negb_true_iff, N.eqb_neq. lia.
Qed.
Lemma host_not_delim c :
  negb (is_delim c || (c =? 37) || (c =? 64) || (c =? 32)) = true -> negb (is_delim c) = true.
Proof. destruct (is_delim c); cbn; auto. Qed.
Lemma path_not_qf c : negb (is_qf c || (c =? 37) || (c =? 32)) = true -> negb (is_qf c) = true.
Proof. destruct (is_qf c); cbn; auto. Qed.

Theorem split_template_render sc host path qy :
  scheme_text_ok sc = true -> host <> [] -> host_text_ok host = true -> path_text_ok path = true ->
  query_text_ok qy = true ->
  split_template (sc ++ v_css ++ host ++ path ++ qs qy) = Some (sc, host, path, qy).
Proof.
  intros Hsc Hhn Hh Hp Hq.
  change (sc ++ v_css ++ host ++ path ++ qs qy) with (sc ++ 58 :: 47 :: 47 :: (host ++ path ++ qs qy)).
  unfold split_template.
  assert (Hsc' := Hsc). unfold scheme_text_ok in Hsc'. apply andb_true_iff in Hsc' as [_ Hlow].
  rewrite index_css by (eapply forallb_impl; [apply lower_not_colon | exact Hlow]).
  rewrite firstn_len_app, skipn_len_plus3.
  assert (Hhd : forallb (fun x => negb (is_delim x)) host = true)
    by (eapply forallb_impl; [apply host_not_delim | exact Hh]).
  assert (Hp' := Hp). unfold path_text_ok in Hp'. apply andb_true_iff in Hp' as [Hlead Hpb].
  assert (Hpq : forallb (fun x => negb (is_qf x)) path = true)
    by (eapply forallb_impl; [apply path_not_qf | exact Hpb]).
  assert (Hhost_nil : is_nil host = false) by now apply is_nil_false.
  destruct path as [|p0 path].
  - cbn [app]. destruct qy as [|q0 qy].
    + cbn [qs is_nil app]. rewrite app_nil_r.
      rewrite (take_until_all is_delim host Hhd), (drop_until_all is_delim host Hhd).
      cbn [take_until drop_until]. rewrite Hsc, Hhost_nil, Hh. reflexivity.
    + change (qs (q0 :: qy)) with (63 :: q0 :: qy).
      rewrite (take_until_app is_delim host 63 (q0 :: qy) Hhd eq_refl), (drop_until_app is_delim host 63 (q0 :: qy) Hhd eq_refl).
      change (take_until is_qf (63 :: q0 :: qy)) with (@nil N).
      change (drop_until is_qf (63 :: q0 :: qy)) with (63 :: q0 :: qy).
      change (63 =? 63) with true. cbn [andb is_nil negb].
      rewrite Hq, Hsc, Hhost_nil, Hh. reflexivity.
  - assert (E0 : p0 = 47).
    { cbn [is_nil orb has_prefix] in Hlead. apply andb_true_iff in Hlead as [E _]. now apply N.eqb_eq in E. }
    subst p0.
    change (host ++ (47 :: path) ++ qs qy) with (host ++ 47 :: (path ++ qs qy)).
    rewrite (take_until_app is_delim host 47 (path ++ qs qy) Hhd eq_refl), (drop_until_app is_delim host 47 (path ++ qs qy) Hhd eq_refl).
    destruct qy as [|q0 qy].
    + cbn [qs is_nil]. rewrite app_nil_r.
      rewrite (take_until_all is_qf (47 :: path) Hpq), (drop_until_all is_qf (47 :: path) Hpq).
      rewrite Hsc, Hhost_nil, Hh, Hp. reflexivity.
    + change (qs (q0 :: qy)) with (63 :: q0 :: qy).
      change (47 :: path ++ 63 :: q0 :: qy) with ((47 :: path) ++ 63 :: q0 :: qy).
      rewrite (take_until_app is_qf (47 :: path) 63 (q0 :: qy) Hpq eq_refl), (drop_until_app is_qf (47 :: path) 63 (q0 :: qy) Hpq eq_refl).
      change (63 =? 63) with true. cbn [andb is_nil negb].
      rewrite Hq, Hsc, Hhost_nil, Hh, Hp. reflexivity.
Qed.

(* ------------------------------------------------------------------ *)
(** * tag -> target, tag -> response *)
Definition tag_text (prefix src code tmpl : str) (more : list str) : str :=
  prefix ++ src ++ 32 :: join ((k_redirect ++ code ++ 44 :: tmpl) :: more) [32].

Theorem tag_target_documented id prefix src code tmpl more sc h p qy :
  no_blank prefix = true -> word src ->
  no_blank code = true -> no_comma code = true -> no_blank tmpl = true -> no_comma tmpl = true ->
  Forall word more ->
  split_template tmpl = Some (sc, h, p, qy) ->
  tag_target id prefix (tag_text prefix src code tmpl more)
  = Some (mkTarget id sc h p qy (opt_value k_strip more) (opt_value k_prepend more) (redirect_code code)).
Proof.
  intros Hp Hs Hcb Hcc Htb Htc Hm Hsplit. unfold tag_target, tag_text.
  rewrite tag_written_documented by assumption. cbn [w_tmpl w_strip w_prepend w_code]. rewrite Hsplit. reflexivity.
Qed.

Theorem consul_tag_response id prefix src code tmpl more sc h p qy q cands ou wire t :
  no_blank prefix = true -> word src ->
  no_blank code = true -> no_comma code = true -> no_blank tmpl = true -> no_comma tmpl = true ->
  Forall word more ->
  split_template tmpl = Some (sc, h, p, qy) ->
  t = mkTarget id sc h p qy (opt_value k_strip more) (opt_value k_prepend more) (redirect_code code) ->
  lookup q cands = Some (t, ou) -> is_redirect t = true ->
  tmpl_dom t = true -> req_dom t wire q = true -> set_path wire = Some (q_path q, q_rawpath q) ->
  tag_target id prefix (tag_text prefix src code tmpl more) = Some t
  /\ handle q cands = RRedirect (redirect_code code) (expected_location t wire q)
  /\ (300 <= redirect_code code <= 399)%Z /\ upstream_calls (handle q cands) = O.
Proof.
  intros Hp Hs Hcb Hcc Htb Htc Hm Hsplit Et EL Hr HT HR Hw. split.
  - rewrite Et. now apply tag_target_documented.
  - apply (response_from_option q cands t ou wire code); try assumption. rewrite Et. reflexivity.
Qed.

(* the documented example: urlprefix-/path redirect=303,https://www.foo.com$path *)
Definition ex_prefix : str := bs "urlprefix-".
Definition ex_tag : str := bs "urlprefix-/path redirect=303,https://www.foo.com$path".
Definition ex_tag_target : target := mkTarget 0 (bs "https") (bs "www.foo.com$path") [] [] [] [] 303%Z.
Definition ex_tag_req : request := mkReq (bs "example.com") (bs "/path/a/b") [] (bs "x=1") [] false.
Definition ex_tag_strip : str := bs "  urlprefix-example.com/old  proto=https redirect=308,https://$host/new/$path?v=2 strip=/old  ".
Example consul_tag_nonvacuous :
  ex_tag = tag_text ex_prefix (bs "/path") (bs "303") (bs "https://www.foo.com$path") []
  /\ split_template (bs "https://www.foo.com$path") = Some (bs "https", bs "www.foo.com$path", [], [])
  /\ tag_target 0 ex_prefix ex_tag = Some ex_tag_target
  /\ tmpl_dom ex_tag_target = true /\ req_dom ex_tag_target (bs "/path/a/b") ex_tag_req = true
  /\ handle ex_tag_req [Some ex_tag_target; Some (upstream_target 1)] = RRedirect 303%Z (bs "https://www.foo.com/path/a/b?x=1")
  /\ tag_target 0 ex_prefix ex_tag_strip
     = Some (mkTarget 0 (bs "https") (bs "$host") (bs "/new/$path") (bs "v=2") (bs "/old") [] 308%Z)
  /\ tag_target 0 ex_prefix (bs "urlprefix-/plain") = None.
Proof. vm_compute. repeat split; reflexivity. Qed.

(* ------------------------------------------------------------------ *)
(** * only a redirect that points back at the request is skipped *)
(* whatever stands before the answering candidate in the list of matching hosts is an absent
   route or a redirect whose Location - in the INDEPENDENT reading [points_back_norm]: same
   scheme, same host up to letter case and default port, the SAME path byte for byte - is the
   request's own URL *)
Definition passed_over (q : request) (c : option target) : Prop :=
  match c with
  | None => True
  | Some t => is_redirect t = true /\ points_back_norm (build_redirect_url t q) q = true
  end.
Theorem only_self_redirects_skipped q : forall cands,
  exists pre post, cands = pre ++ post /\ Forall (passed_over q) pre
    /\ match post with
       | [] => lookup q cands = None
       | Some t :: _ => exists ou, lookup q cands = Some (t, ou)
       | None :: _ => False
       end.
Proof.
  unfold lookup. induction cands as [|c cands IH].
  - exists [], []. repeat split; constructor.
  - destruct c as [t|].
    + cbn [lookup_loop]. destruct (t_code t =? 0)%Z eqn:E0.
      * exists [], (Some t :: cands). repeat split; [constructor | now exists None].
      * destruct (is_self (build_redirect_url t q) q) eqn:Es.
        -- destruct IH as (pre & post & -> & Hpre & Hpost).
           exists (Some t :: pre), post. repeat split; [|exact Hpost].
           constructor; [|exact Hpre]. split; [unfold is_redirect; now rewrite E0 | now apply is_self_sound_norm].
        -- exists [], (Some t :: cands). repeat split; [constructor | now eexists].
    + cbn [lookup_loop]. destruct IH as (pre & post & -> & Hpre & Hpost).
      exists (None :: pre), post. repeat split; [|exact Hpost]. constructor; [exact I | exact Hpre].
Qed.

(* in particular: a redirect whose Location differs from the request's URL in the path - if only
   in its letter case, the canonical-lower-case redirect /Docs -> /docs - answers *)
Theorem path_differs_not_skipped q t rest :
  is_redirect t = true -> u_path (build_redirect_url t q) <> q_path q ->
  lookup q (Some t :: rest) = Some (t, Some (build_redirect_url t q))
  /\ (code_ok (t_code t) = true ->
      handle q (Some t :: rest) = RRedirect (t_code t) (hex_escape_non_ascii (url_string (build_redirect_url t q)))
      /\ upstream_calls (handle q (Some t :: rest)) = O).
Proof.
  intros Hr Hp.
  assert (EL : lookup q (Some t :: rest) = Some (t, Some (build_redirect_url t q))).
  { unfold lookup. cbn [lookup_loop]. unfold is_redirect in Hr. apply negb_true_iff in Hr. rewrite Hr.
    unfold is_self. apply beq_neq in Hp. rewrite Hp, andb_false_r. reflexivity. }
  split; [exact EL|]. intros Hc.
  destruct (no_upstream_on_redirect q (Some t :: rest) t _ EL Hr) as [H0 H1]. split; [now apply H1 | exact H0].
Qed.
Theorem case_variant_not_skipped q t rest :
  is_redirect t = true -> case_variant (u_path (build_redirect_url t q)) (q_path q) = true ->
  lookup q (Some t :: rest) = Some (t, Some (build_redirect_url t q)).
Proof.
  intros Hr Hv. apply path_differs_not_skipped; [exact Hr|].
  unfold case_variant in Hv. apply andb_true_iff in Hv as [_ Hv]. apply negb_true_iff in Hv. now apply beq_neq.
Qed.

Definition t_docs : target := mkTarget 0 (bs "http") (bs "example.com") (bs "/docs") [] [] [] 301%Z.
Definition t_api : target := mkTarget 0 (bs "http") (bs "$host") (bs "/api/v1$path") [] (bs "/API/v1") [] 308%Z.
Definition q_ex (p : string) : request := mkReq (bs "example.com") (bs p) [] [] [] false.
Example case_variant_nonvacuous :
  case_variant (u_path (build_redirect_url t_docs (q_ex "/Docs"))) (q_path (q_ex "/Docs")) = true
  /\ handle (q_ex "/Docs") [Some t_docs; Some (upstream_target 1)] = RRedirect 301%Z (bs "http://example.com/docs")
  /\ case_variant (u_path (build_redirect_url t_api (q_ex "/API/v1/users"))) (q_path (q_ex "/API/v1/users")) = true
  /\ handle (q_ex "/API/v1/users") [Some t_api; Some (upstream_target 1)] = RRedirect 308%Z (bs "http://example.com/api/v1/users")
  /\ handle (q_ex "/docs") [Some t_docs; Some (upstream_target 1)] = RProxy 1.
Proof. vm_compute. repeat split; reflexivity. Qed.
