(** The calendar of Model/Logger.v ([civil_of_days], the days-to-civil conversion
    of the standard library) against the calendar specification of
    Model/LoggerSpec.v ([days_from_civil], from the leap-year rule): inverse of
    each other on ALL of Z (no range bound), by a sweep of one 400-year era
    ([vm_compute]) and 400-year periodicity of both sides. *)
From Coq Require Import String List NArith ZArith Znumtheory Bool Lia.
From Fabio Require Import Lib.Outcome Lib.Bytes Model.Logger Model.LoggerSpec Proofs.Logger.
Import ListNotations.
Local Open Scope Z_scope.

(* ---------------- 400-year periodicity of the specification ---------------- *)
Lemma is_leap_period y k : is_leap (y + 400 * k) = is_leap y.
Proof.
  unfold is_leap.
  replace ((y + 400 * k) mod 4) with (y mod 4) by (Z.div_mod_to_equations; lia).
  replace ((y + 400 * k) mod 100) with (y mod 100) by (Z.div_mod_to_equations; lia).
  replace ((y + 400 * k) mod 400) with (y mod 400) by (Z.div_mod_to_equations; lia).
  reflexivity.
Qed.

Lemma days_in_month_period y k m : days_in_month (y + 400 * k) m = days_in_month y m.
Proof. unfold days_in_month. now rewrite is_leap_period. Qed.

Lemma days_before_month_period y k m : days_before_month (y + 400 * k) m = days_before_month y m.
Proof.
  unfold days_before_month. f_equal. apply map_ext. intros a. apply days_in_month_period.
Qed.

Lemma valid_date_period y k m d : valid_date (y + 400 * k) m d = valid_date y m d.
Proof. unfold valid_date. now rewrite days_in_month_period. Qed.

Lemma days_before_year_period y k : days_before_year (y + 400 * k) = days_before_year y + 146097 * k.
Proof. unfold days_before_year, leaps_before. Z.div_mod_to_equations. lia. Qed.

Lemma days_from_civil_period y k m d :
  days_from_civil (y + 400 * k) m d = days_from_civil y m d + 146097 * k.
Proof.
  unfold days_from_civil. rewrite days_before_year_period, days_before_month_period. lia.
Qed.

(* ---------------- the closed formula IS the leap-year rule ----------------
   [days_from_civil] is characterised by: 1970-01-01 is day 0, and the day after a
   valid date (next day of the month, else first of the next month, else 1 January of
   the next year, February having 29 days exactly in leap years) is a valid date
   with the next day number. *)
Lemma div_pred4 y : (y - 1) / 4 = y / 4 - (if y mod 4 =? 0 then 1 else 0).
Proof. destruct (Z.eqb_spec (y mod 4) 0); Z.div_mod_to_equations; lia. Qed.
Lemma div_pred100 y : (y - 1) / 100 = y / 100 - (if y mod 100 =? 0 then 1 else 0).
Proof. destruct (Z.eqb_spec (y mod 100) 0); Z.div_mod_to_equations; lia. Qed.
Lemma div_pred400 y : (y - 1) / 400 = y / 400 - (if y mod 400 =? 0 then 1 else 0).
Proof. destruct (Z.eqb_spec (y mod 400) 0); Z.div_mod_to_equations; lia. Qed.

Lemma days_before_year_succ y :
  days_before_year (y + 1) = days_before_year y + (if is_leap y then 366 else 365).
Proof.
  unfold days_before_year, leaps_before, is_leap. replace (y + 1 - 1) with y by lia.
  rewrite div_pred4, div_pred100, div_pred400.
  assert (I1 : y mod 100 = 0 -> y mod 4 = 0).
  { intros E. rewrite (Zmod_div_mod 4 100 y), E; [reflexivity | lia | lia | exists 25; lia]. }
  assert (I2 : y mod 400 = 0 -> y mod 100 = 0).
  { intros E. rewrite (Zmod_div_mod 100 400 y), E; [reflexivity | lia | lia | exists 4; lia]. }
  destruct (Z.eqb_spec (y mod 4) 0) as [E4|E4]; destruct (Z.eqb_spec (y mod 100) 0) as [E100|E100];
    destruct (Z.eqb_spec (y mod 400) 0) as [E400|E400]; cbn [andb orb negb]; try lia; exfalso; tauto.
Qed.

Lemma dbm_succ_gen (f : Z -> Z) m : 1 <= m <= 11 ->
  fold_right Z.add 0 (map f (map Z.of_nat (seq 1 (Z.to_nat (m + 1 - 1))))) =
  fold_right Z.add 0 (map f (map Z.of_nat (seq 1 (Z.to_nat (m - 1))))) + f m.
Proof.
  intros H.
  assert (E : m = 1 \/ m = 2 \/ m = 3 \/ m = 4 \/ m = 5 \/ m = 6 \/ m = 7 \/ m = 8 \/ m = 9
              \/ m = 10 \/ m = 11) by lia.
  repeat (destruct E as [E|E]); subst m; simpl; lia.
Qed.

Lemma dbm_succ y m : 1 <= m <= 11 ->
  days_before_month y (m + 1) = days_before_month y m + days_in_month y m.
Proof. apply dbm_succ_gen. Qed.

Lemma dbm_12_gen (f : Z -> Z) :
  fold_right Z.add 0 (map f (map Z.of_nat (seq 1 (Z.to_nat (12 - 1))))) =
  f 1 + f 2 + f 3 + f 4 + f 5 + f 6 + f 7 + f 8 + f 9 + f 10 + f 11.
Proof. simpl. lia. Qed.

Lemma year_total y :
  days_before_month y 12 + days_in_month y 12 = if is_leap y then 366 else 365.
Proof.
  unfold days_before_month. rewrite dbm_12_gen. unfold days_in_month. destruct (is_leap y); lia.
Qed.

Lemma days_in_month_ge y m : 1 <= m <= 12 -> 28 <= days_in_month y m.
Proof.
  intros H.
  assert (E : m = 1 \/ m = 2 \/ m = 3 \/ m = 4 \/ m = 5 \/ m = 6 \/ m = 7 \/ m = 8 \/ m = 9
              \/ m = 10 \/ m = 11 \/ m = 12) by lia.
  repeat (destruct E as [E|E]); subst m; unfold days_in_month; try lia; destruct (is_leap y); lia.
Qed.

Theorem next_day_law y m d : valid_date y m d = true ->
  let '(y', m', d') := next_day y m d in
  valid_date y' m' d' = true /\ days_from_civil y' m' d' = days_from_civil y m d + 1.
Proof.
  intros Hv. unfold valid_date in Hv.
  apply andb_true_iff in Hv as [Hv H4]. apply andb_true_iff in Hv as [Hv H3].
  apply andb_true_iff in Hv as [H1 H2]. apply Z.leb_le in H1, H2, H3, H4.
  unfold next_day. destruct (Z.ltb_spec d (days_in_month y m)) as [Hd|Hd].
  - split.
    + unfold valid_date. rewrite !andb_true_iff, !Z.leb_le. lia.
    + unfold days_from_civil. lia.
  - destruct (Z.ltb_spec m 12) as [Hm|Hm].
    + pose proof (days_in_month_ge y (m + 1) ltac:(lia)). split.
      * unfold valid_date. rewrite !andb_true_iff, !Z.leb_le. lia.
      * unfold days_from_civil. rewrite dbm_succ by lia. lia.
    + assert (m = 12) by lia. subst m. split; [reflexivity|].
      unfold days_from_civil. rewrite days_before_year_succ.
      pose proof (year_total y). change (days_before_month (y + 1) 1) with 0.
      destruct (is_leap y); lia.
Qed.

Example next_day_examples :
  next_day 2024 2 28 = (2024, 2, 29) /\ next_day 2023 2 28 = (2023, 3, 1) /\
  next_day 1900 2 28 = (1900, 3, 1) /\ next_day 2000 2 28 = (2000, 2, 29) /\
  next_day 1999 12 31 = (2000, 1, 1).
Proof. repeat split; vm_compute; reflexivity. Qed.

(* ---------------- and of the conversion ---------------- *)
Lemma civil_of_days_period n k :
  civil_of_days (n + 146097 * k) =
  let '(y, m, d) := civil_of_days n in (y + 400 * k, m, d).
Proof.
  unfold civil_of_days.
  replace (n + 146097 * k + 719468) with (n + 719468 + k * 146097) by lia.
  rewrite Z_div_plus_full, Z_mod_plus_full by lia.
  destruct (civil_of_doe ((n + 719468) mod 146097)) as [[y m] d].
  f_equal. f_equal. lia.
Qed.

(* ---------------- one era, day by day ---------------- *)
Definition doe_roundtrip (k : N) : bool :=
  let doe := Z.of_N k in
  let '(y, m, d) := civil_of_doe doe in
  valid_date y m d && (days_from_civil y m d =? doe - 719468).
Lemma doe_roundtrip_all : forallb doe_roundtrip (nrange (N.to_nat 146097) 0) = true.
Proof. vm_cast_no_check (eq_refl true). Qed.

(* every day number is the day number of the date it is converted to, and that
   date is a valid one *)
Theorem civil_of_days_correct n :
  let '(y, m, d) := civil_of_days n in
  valid_date y m d = true /\ days_from_civil y m d = n.
Proof.
  unfold civil_of_days.
  set (z := n + 719468).
  assert (Hr : 0 <= z mod 146097 < 146097) by (apply Z.mod_pos_bound; lia).
  pose proof doe_roundtrip_all as A. rewrite forallb_forall in A.
  specialize (A (Z.to_N (z mod 146097))
                (in_nrange (N.to_nat 146097) 0%N (Z.to_N (z mod 146097)) ltac:(lia))).
  unfold doe_roundtrip in A. rewrite Z2N.id in A by lia.
  destruct (civil_of_doe (z mod 146097)) as [[y m] d].
  apply andb_true_iff in A as [Av Ad]. apply Z.eqb_eq in Ad.
  replace (y + z / 146097 * 400) with (y + 400 * (z / 146097)) by lia.
  rewrite valid_date_period, days_from_civil_period. split; [exact Av|].
  pose proof (Z.div_mod z 146097 ltac:(lia)). unfold z in *. lia.
Qed.

(* ---------------- one era, date by date ---------------- *)
Definition ymd_eqb (a b : Z * Z * Z) : bool :=
  let '(y, m, d) := a in let '(y', m', d') := b in (y =? y') && (m =? m') && (d =? d').
Lemma ymd_eqb_eq a b : ymd_eqb a b = true -> a = b.
Proof.
  destruct a as [[y m] d], b as [[y' m'] d']. cbn [ymd_eqb]. intros H.
  apply andb_true_iff in H as [H H3]. apply andb_true_iff in H as [H1 H2].
  apply Z.eqb_eq in H1, H2, H3. congruence.
Qed.

Definition civ_roundtrip (y0 : N) : bool :=
  forallb (fun m => forallb (fun d =>
    let y := Z.of_N y0 in let m := Z.of_N m in let d := Z.of_N d in
    if valid_date y m d then ymd_eqb (civil_of_days (days_from_civil y m d)) (y, m, d) else true)
    (nrange 31 1%N)) (nrange 12 1%N).
Lemma civ_roundtrip_all : forallb civ_roundtrip (nrange 400 0%N) = true.
Proof. vm_cast_no_check (eq_refl true). Qed.

Lemma days_in_month_le y m : days_in_month y m <= 31.
Proof.
  unfold days_in_month.
  destruct m as [|p|p]; [lia | | lia].
  do 4 (try (destruct p as [p|p|]; try lia)); destruct (is_leap y); lia.
Qed.

(* every valid date is what its day number converts back to *)
Theorem civil_of_days_from_civil y m d :
  valid_date y m d = true -> civil_of_days (days_from_civil y m d) = (y, m, d).
Proof.
  intros Hv.
  pose proof (Z.div_mod y 400 ltac:(lia)) as Hy.
  assert (Hr : 0 <= y mod 400 < 400) by (apply Z.mod_pos_bound; lia).
  set (y0 := y mod 400) in *. set (k := y / 400) in *.
  replace y with (y0 + 400 * k) in * by lia.
  rewrite valid_date_period in Hv. rewrite days_from_civil_period, civil_of_days_period.
  pose proof Hv as Hv'. unfold valid_date in Hv'.
  repeat (apply andb_true_iff in Hv' as [Hv' ?]).
  repeat match goal with X : (_ <=? _) = true |- _ => apply Z.leb_le in X end.
  pose proof (days_in_month_le y0 m).
  pose proof civ_roundtrip_all as A. rewrite forallb_forall in A.
  specialize (A (Z.to_N y0) (in_nrange 400 0%N (Z.to_N y0) ltac:(lia))).
  unfold civ_roundtrip in A. rewrite forallb_forall in A.
  specialize (A (Z.to_N m) (in_nrange 12 1%N (Z.to_N m) ltac:(lia))).
  rewrite forallb_forall in A.
  specialize (A (Z.to_N d) (in_nrange 31 1%N (Z.to_N d) ltac:(lia))).
  cbv zeta in A. rewrite !Z2N.id in A by lia. rewrite Hv in A.
  apply ymd_eqb_eq in A. rewrite A. reflexivity.
Qed.

(* consequently the date of a day number is unique *)
Corollary days_from_civil_injective y m d y' m' d' :
  valid_date y m d = true -> valid_date y' m' d' = true ->
  days_from_civil y m d = days_from_civil y' m' d' -> (y, m, d) = (y', m', d').
Proof.
  intros H1 H2 E. rewrite <- (civil_of_days_from_civil y m d H1), E.
  now apply civil_of_days_from_civil.
Qed.

Example calendar_examples :
  days_from_civil 1970 1 1 = 0 /\ days_from_civil 2000 2 29 = 11016 /\
  civil_of_days 11016 = (2000, 2, 29) /\ valid_date 1900 2 29 = false /\ valid_date 2024 2 29 = true /\
  civil_of_days (-1) = (1969, 12, 31) /\ days_from_civil 2026 9 21 * 86400 + 51200 = 1790000000.
Proof. repeat split; vm_compute; reflexivity. Qed.
