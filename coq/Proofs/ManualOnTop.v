(** Where the targets of a table come from, for ANY command list (add / del / weight): used by
    Proofs/RegistryTable.v for the operator's manual text applied on top of the service routes.
    Built on C05's table theorems (Proofs/TableCmd.v: add_accumulates, del_precise,
    weight_only_matching); nothing here is about Consul. *)
From Coq Require Import String List NArith ZArith Bool Lia.
From Fabio Require Import Lib.Outcome Lib.Bytes Model.WtF64 Model.TableCmd Proofs.TableCmd.
Import ListNotations.
Local Open Scope N_scope.

(* what identifies a target apart from its weight and options: (host, path, service, URL, tags) *)
Definition tcore := (str * str * str * str * list str)%type.
Definition core (x : str * str * target) : tcore :=
  (fst (fst x), snd (fst x), t_svc (snd x), t_url (snd x), t_tags (snd x)).
(* the target a 'route add' definition creates *)
Definition add_core (d : def) (url : str) : tcore :=
  (lower (fst (hostpath (d_src d))), snd (hostpath (d_src d)), d_svc d, url, d_tags d).

Lemma core_reweigh w x : core (reweigh w x) = core x.
Proof. destruct x as [[h p] tg]. destruct tg. reflexivity. Qed.

Section Origin.
  Variable canon : str -> option str.
  Variable gl : str -> bool.
  Variable P : tcore -> Prop.     (* the cores that are allowed to be in the table *)

  Definition all_allowed (t : table) : Prop := forall x, In x (flat t) -> P (core x).
  Definition adds_allowed (ds : list def) : Prop :=
    forall d url, In d ds -> d_cmd d = CmdAdd -> canon (d_dst d) = Some url -> P (add_core d url).

  Lemma apply_def_origin t d t' :
    TableCmd.inv t -> all_allowed t ->
    (forall url, d_cmd d = CmdAdd -> canon (d_dst d) = Some url -> P (add_core d url)) ->
    apply_def canon gl t d = Ok t' -> all_allowed t'.
  Proof.
    intros Hinv Hall Hadd H. unfold apply_def in H. destruct (d_cmd d) eqn:Ec.
    - destruct (add_accumulates canon gl t d t' H) as (url & Hu & Hcase). cbn zeta in Hcase.
      destruct Hcase as [(X & Y & E1 & E2)|[-> _]]; [|exact Hall].
      intros x Hx. rewrite E2 in Hx. apply in_app_or in Hx as [Hx|[<-|Hx]].
      + apply Hall. rewrite E1. apply in_or_app. now left.
      + exact (Hadd url eq_refl Hu).
      + apply Hall. rewrite E1. apply in_or_app. now right.
    - intros x Hx. rewrite (del_precise canon t d t' Hinv H) in Hx. apply filter_In in Hx as [Hx _]. now apply Hall.
    - destruct (weight_only_matching t d t' Hinv H) as (_ & E & _). intros x Hx. rewrite E in Hx.
      apply in_map_iff in Hx as (y & <- & Hy). destruct (weight_selects_ci d y); [rewrite core_reweigh|]; now apply Hall.
  Qed.

  (* del and weight never bring a target in; add brings in the target of its definition *)
  Theorem run_from_origin ds : forall t t',
    TableCmd.inv t -> all_allowed t -> adds_allowed ds ->
    run_from canon gl t ds = Ok t' -> all_allowed t'.
  Proof.
    induction ds as [|d ds IH]; intros t t' Hinv Hall Hadd H; cbn [run_from] in H.
    - inversion H; subst. exact Hall.
    - destruct (apply_def canon gl t d) as [t1| |] eqn:E1; cbn [bind] in H; try discriminate.
      apply (IH t1 t'); [eapply apply_def_inv; eauto | | | exact H].
      + apply (apply_def_origin t d t1 Hinv Hall); [|exact E1]. intros url Hc Hu. apply (Hadd d url); [now left | exact Hc | exact Hu].
      + intros d' url Hd'. apply Hadd. now right.
  Qed.

  Lemma run_from_app a : forall t b,
    run_from canon gl t (a ++ b) = (do t1 <- run_from canon gl t a; run_from canon gl t1 b)%outcome.
  Proof.
    induction a as [|d a IH]; intros t b; cbn [app run_from bind]; [reflexivity|].
    destruct (apply_def canon gl t d); cbn [bind]; [apply IH | reflexivity | reflexivity].
  Qed.
End Origin.
