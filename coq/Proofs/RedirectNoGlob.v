(** C13, round 8: proofs about Table.Lookup with glob matching disabled (Model/RedirectNoGlob.v). *)
From Coq Require Import String List NArith ZArith Bool Lia.
From Fabio Require Import Lib.Outcome Lib.Bytes Model.Redirect Model.RedirectSpec Model.RedirectNoGlob Proofs.Redirect.
Import ListNotations.
Local Open Scope N_scope.

(* ------------------------------------------------------------------ *)
(** * normalizeHost against the relation [bare_of] *)
Lemma firstn_len_app {A} (r d : list A) : firstn (List.length r) (r ++ d) = r.
Proof. induction r as [|x r IH]; cbn [List.length firstn app]; [now destruct d | now rewrite IH]. Qed.

Lemma cut_suffix (r d : str) : firstn (List.length (r ++ d) - List.length d) (r ++ d) = r.
Proof. rewrite app_length, Nat.add_sub. apply firstn_len_app. Qed.

Lemma no_suffix_plain x d : has_suffix x d = false -> forall b, x <> b ++ d.
Proof.
  intros E b H. assert (has_suffix x d = true) as T by (apply has_suffix_spec; now exists b). congruence.
Qed.
Lemma plain_no_suffix x d : (forall b, x <> b ++ d) -> has_suffix x d = false.
Proof.
  intros H. destruct (has_suffix x d) eqn:E; [|reflexivity].
  apply has_suffix_spec in E as [r E]. now elim (H r).
Qed.

Lemma norm_nolower_bare x tls : bare_of tls x (normalize_host_nolower x tls).
Proof.
  unfold normalize_host_nolower. destruct tls; cbn [negb andb].
  - destruct (has_suffix x p443) eqn:E.
    + apply has_suffix_spec in E as [r ->]. rewrite cut_suffix. exact (bare_port true r).
    + apply bare_plain. exact (no_suffix_plain _ _ E).
  - destruct (has_suffix x p80) eqn:E.
    + apply has_suffix_spec in E as [r ->]. rewrite cut_suffix. exact (bare_port false r).
    + apply bare_plain. exact (no_suffix_plain _ _ E).
Qed.

Lemma bare_fun tls x a b : bare_of tls x a -> bare_of tls x b -> a = b.
Proof.
  intros Ha Hb. destruct Ha as [a | h Hn]; inversion Hb as [b' Eb | h' Hn' Eb].
  - subst b'. now apply app_inv_tail in Eb.
  - subst. now elim (Hn' a).
  - subst. now elim (Hn b).
  - reflexivity.
Qed.

(* the port texts contain no letter: lower-casing does not touch the suffix test *)
Definition nonletter (c : N) : bool := negb (is_upper c) && negb (is_lower c).
Lemma lower_byte_eqb_fixed c x : nonletter c = true -> (lower_byte x =? c) = (x =? c).
Proof.
  unfold nonletter, lower_byte, is_upper, is_lower. intros H.
  apply andb_true_iff in H as [H1 H2]. apply negb_true_iff in H1, H2.
  destruct ((65 <=? x) && (x <=? 90)) eqn:E.
  - apply andb_true_iff in E as [E1 E2]. apply N.leb_le in E1, E2.
    destruct (N.eqb_spec (x + 32) c) as [Q|Q]; destruct (N.eqb_spec x c) as [R|R]; try reflexivity; exfalso.
    + subst c. apply andb_false_iff in H2 as [H2|H2]; apply N.leb_gt in H2; lia.
    + subst c. apply andb_false_iff in H1 as [H1|H1]; apply N.leb_gt in H1; lia.
  - reflexivity.
Qed.
Lemma has_prefix_lower p : forallb nonletter p = true -> forall s, has_prefix (lower s) p = has_prefix s p.
Proof.
  induction p as [|y p IH]; intros Hp s; [reflexivity|].
  cbn [forallb] in Hp. apply andb_true_iff in Hp as [Hy Hp].
  destruct s as [|x s]; [reflexivity|]. cbn [lower map has_prefix].
  rewrite (lower_byte_eqb_fixed y x Hy). f_equal. exact (IH Hp s).
Qed.
Lemma has_suffix_lower x d : forallb nonletter d = true -> has_suffix (lower x) d = has_suffix x d.
Proof.
  intros Hd. unfold has_suffix, lower. rewrite <- map_rev. apply (has_prefix_lower (rev d)).
  rewrite forallb_forall in *. intros c Hc. apply Hd. now apply in_rev.
Qed.

Lemma normalize_lower x tls : normalize_host x tls = normalize_host_nolower (lower x) tls.
Proof.
  unfold normalize_host, normalize_host_nolower.
  rewrite (has_suffix_lower x p80 eq_refl), (has_suffix_lower x p443 eq_refl), lower_length.
  destruct (negb tls && has_suffix x p80); [unfold lower; now rewrite firstn_map|].
  destruct (tls && has_suffix x p443); [unfold lower; now rewrite firstn_map|]. reflexivity.
Qed.

(* matchingHostNoGlob's test is the specification's "the pattern IS the request's host" *)
Lemma host_matches_iff tls pat host :
  beq (normalize_host pat tls) (normalize_host host tls) = true <-> same_host_said tls pat host.
Proof.
  rewrite !normalize_lower, beq_eq. split.
  - intros H. exists (normalize_host_nolower (lower pat) tls). split; [apply norm_nolower_bare|].
    rewrite H. apply norm_nolower_bare.
  - intros [b [Hp Hh]].
    rewrite (bare_fun _ _ _ _ (norm_nolower_bare (lower pat) tls) Hp).
    now rewrite (bare_fun _ _ _ _ (norm_nolower_bare (lower host) tls) Hh).
Qed.

(* ... and so is the three-alternative decision used by the checker *)
Lemma same_hostb_iff tls pat host : same_hostb tls pat host = true <-> same_host_said tls pat host.
Proof.
  unfold same_hostb, same_host_said.
  generalize (lower pat) (lower host). intros p h.
  rewrite !orb_true_iff, !andb_true_iff, !negb_true_iff, !beq_eq. split.
  - intros [[E | [Hn E]] | [Hn E]].
    + exists (normalize_host_nolower p tls). split; [apply norm_nolower_bare | rewrite E; apply norm_nolower_bare].
    + exists h. split; [rewrite E; apply bare_port | apply bare_plain; exact (no_suffix_plain _ _ Hn)].
    + exists p. split; [apply bare_plain; exact (no_suffix_plain _ _ Hn) | rewrite <- E; apply bare_port].
  - intros [b [Hp Hh]].
    destruct Hp as [b | p N1]; inversion Hh as [b2 E2 | h2 N2 E2]; subst.
    + left; left. reflexivity.
    + left; right. split; [exact (plain_no_suffix _ _ N2) | reflexivity].
    + right. split; [exact (plain_no_suffix _ _ N1) | reflexivity].
    + left; left. reflexivity.
Qed.

Lemma same_hostb_matches tls pat o host : same_hostb tls pat host = host_matches_noglob host tls (pat, o).
Proof.
  unfold host_matches_noglob. cbn [fst].
  destruct (same_hostb tls pat host) eqn:A; destruct (beq (normalize_host pat tls) (normalize_host host tls)) eqn:B; try reflexivity.
  - apply same_hostb_iff, host_matches_iff in A. congruence.
  - apply host_matches_iff, same_hostb_iff in B. congruence.
Qed.

(* ------------------------------------------------------------------ *)
(** * the routes visited *)
(* with glob matching disabled Lookup visits the routes of exactly those table hosts that are the
   request's host (same name up to letter case and the connection's default port), in table order *)
Lemma noglob_candidates tv host tls : cands_said tls host tv (matching_noglob tv host tls).
Proof.
  unfold matching_noglob. induction tv as [|[pat o] tv IH]; [constructor|].
  cbn [filter]. destruct (host_matches_noglob host tls (pat, o)) eqn:E.
  - cbn [map snd]. apply cs_match; [|exact IH]. now apply host_matches_iff.
  - apply cs_skip; [|exact IH]. intros H. apply host_matches_iff in H.
    unfold host_matches_noglob in E. cbn [fst] in E. congruence.
Qed.
Lemma cands_said_fun tls host tv l : cands_said tls host tv l -> l = matching_noglob tv host tls.
Proof.
  unfold matching_noglob. induction 1 as [|pat o tv l H _ IH|pat o tv l H _ IH]; [reflexivity| |].
  - apply host_matches_iff in H. cbn [filter]. unfold host_matches_noglob at 1. cbn [fst]. rewrite H.
    cbn [map snd]. now rewrite IH.
  - cbn [filter]. unfold host_matches_noglob at 1. cbn [fst].
    destruct (beq (normalize_host pat tls) (normalize_host host tls)) eqn:E; [|exact IH].
    apply host_matches_iff in E. now elim H.
Qed.
Lemma cands_saidb_eq q tv fb : cands_saidb q tv fb = cands_noglob q tv fb.
Proof.
  unfold cands_saidb, cands_noglob, matching_noglob. do 2 f_equal.
  apply filter_ext. intros [pat o]. cbn [fst]. apply same_hostb_matches.
Qed.

(* THE ANSWER with glob matching disabled: the same host loop, over the routes of the table
   hosts that are the request's host and then the host-less routes - the answering route is the
   first one that is not a redirect pointing back at the request (reference loop), whatever
   the table holds under other hosts *)
Lemma noglob_answer q tv fb l :
  cands_said (q_tls q) (q_host q) tv l ->
  handle_noglob q tv fb = handle q (l ++ [fb])
  /\ chosen_target (lookup_noglob q tv fb) = ref_lookup q (l ++ [fb]).
Proof.
  intros H. apply cands_said_fun in H. subst l. split; [reflexivity|].
  unfold lookup_noglob, cands_noglob. apply self_redirect_skipped.
Qed.

Lemma no_host_said_nil tls host tv :
  (forall pat o, In (pat, o) tv -> ~ same_host_said tls pat host) -> matching_noglob tv host tls = [].
Proof.
  intros H. unfold matching_noglob. induction tv as [|[pat o] tv IH]; [reflexivity|].
  cbn [filter]. unfold host_matches_noglob at 1. cbn [fst].
  destruct (beq (normalize_host pat tls) (normalize_host host tls)) eqn:E.
  - apply host_matches_iff in E. elim (H pat o); [now left | exact E].
  - apply IH. intros p o' Hin. apply (H p o'). now right.
Qed.

(* a request for a host the table does not know is answered by the host-less routes in either
   matching mode alike *)
Lemma hostless_either_mode q tv fb :
  (forall pat o, In (pat, o) tv -> ~ same_host_said (q_tls q) pat (q_host q)) ->
  handle_noglob q tv fb = handle q [fb].
Proof.
  intros H. unfold handle_noglob, lookup_noglob, cands_noglob. now rewrite (no_host_said_nil _ _ _ H).
Qed.

(* THE CLAUSE for a host-less redirect route with glob matching disabled: a request whose host is
   no host of the table, matching a host-less redirect route that does not point back at it,
   receives the configured 3xx and the Location of THIS request; no upstream is contacted *)
Lemma noglob_hostless_redirect q tv t wire :
  (forall pat o, In (pat, o) tv -> ~ same_host_said (q_tls q) pat (q_host q)) ->
  is_redirect t = true -> code_ok (t_code t) = true ->
  tmpl_dom t = true -> req_dom t wire q = true -> set_path wire = Some (q_path q, q_rawpath q) ->
  points_back (build_redirect_url t q) q = false ->
  handle_noglob q tv (Some t) = RRedirect (t_code t) (expected_location t wire q)
  /\ upstream_calls (handle_noglob q tv (Some t)) = O.
Proof.
  intros H Hr Hc HT HR Hp Hb. rewrite (hostless_either_mode q tv (Some t) H).
  apply (response_location q [Some t] t (Some (build_redirect_url t q)) wire); try assumption.
  unfold lookup. cbn [lookup_loop]. unfold is_redirect in Hr. apply negb_true_iff in Hr. rewrite Hr.
  now rewrite is_self_points_back, Hb.
Qed.

(* ------------------------------------------------------------------ *)
(** * examples *)
(* route add svc /docs https://www.foo.com$path opts "redirect=302"  (no host)
   route add web example.com/ http://10.0.0.2:80/ ; route add glob *.example.org/ http://10.0.0.3:80/ *)
Definition ng_docs : target := mkTarget 0 (bs "https") (bs "www.foo.com" ++ v_path) [] [] [] [] 302%Z.
Definition ng_web : target := mkTarget 1 (bs "http") (bs "10.0.0.2:80") [47] [] [] [] 0%Z.
Definition ng_glob : target := mkTarget 2 (bs "http") (bs "10.0.0.3:80") [47] [] [] [] 0%Z.
Definition ng_tv : table_view := [(bs "example.com", Some ng_web); (bs "*.example.org", Some ng_glob); ([], Some ng_docs)].
Definition ng_q (host : str) (tls : bool) : request := mkReq host (bs "/docs/setup") [] (bs "v=2") [] tls.

Example noglob_hostless_redirect_nonvacuous :
  (forall pat o, In (pat, o) ng_tv -> ~ same_host_said false pat (bs "intranet.local"))
  /\ is_redirect ng_docs = true /\ code_ok (t_code ng_docs) = true /\ tmpl_dom ng_docs = true
  /\ req_dom ng_docs (bs "/docs/setup") (ng_q (bs "intranet.local") false) = true
  /\ points_back (build_redirect_url ng_docs (ng_q (bs "intranet.local") false)) (ng_q (bs "intranet.local") false) = false
  /\ handle_noglob (ng_q (bs "intranet.local") false) ng_tv (Some ng_docs)
     = RRedirect 302%Z (bs "https://www.foo.com/docs/setup?v=2")
  (* a glob pattern is a literal key in this mode: a.example.org is no host of the table either *)
  /\ handle_noglob (ng_q (bs "a.example.org") false) ng_tv (Some ng_docs)
     = RRedirect 302%Z (bs "https://www.foo.com/docs/setup?v=2")
  (* the table's own host, in another spelling and with the default port, is answered by its route *)
  /\ handle_noglob (ng_q (bs "Example.COM:80") false) ng_tv (Some ng_docs) = RProxy 1
  /\ handle_noglob (ng_q (bs "example.com:443") true) ng_tv (Some ng_docs) = RProxy 1
  (* ... the other scheme's default port is a different host *)
  /\ handle_noglob (ng_q (bs "example.com:443") false) ng_tv (Some ng_docs)
     = RRedirect 302%Z (bs "https://www.foo.com/docs/setup?v=2").
Proof.
  split.
  - intros pat o Hin Hs. apply same_hostb_iff in Hs.
    cbn [ng_tv In] in Hin. destruct Hin as [E|[E|[E|[]]]]; inversion E; subst; vm_compute in Hs; discriminate.
  - vm_compute. repeat split; reflexivity.
Qed.

(* a host-specific redirect that points back at the request is skipped in favour of the host-less
   route, also in this mode (host written with the default port on the table side) *)
Definition ng_self80 : target := mkTarget 3 (bs "http") v_host (47 :: v_path) [] [] [] 301%Z.   (* http://$host/$path *)
Example noglob_self_redirect_skipped_nonvacuous :
  handle_noglob (ng_q (bs "example.com") false) [(bs "example.com:80", Some ng_self80); (bs "example.com", Some ng_web)] (Some ng_docs) = RProxy 1
  /\ handle_noglob (ng_q (bs "example.com") false) [(bs "example.com:80", Some ng_self80)] (Some ng_docs)
     = RRedirect 302%Z (bs "https://www.foo.com/docs/setup?v=2")
  /\ handle_noglob (ng_q (bs "example.com") true) [(bs "example.com:443", Some ng_self80)] None
     = RRedirect 301%Z (bs "http://example.com/docs/setup?v=2").
Proof. vm_compute. repeat split; reflexivity. Qed.
