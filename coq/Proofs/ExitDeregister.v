(** Proofs about the registration goroutine / DeregisterAll / the whole exit handler
    (Model/ExitDeregister.v). *)
From Coq Require Import List NArith Bool Lia.
From Fabio Require Import Model.Shutdown Proofs.Shutdown Model.ExitSignals Proofs.ExitSignals Model.ExitDeregister.
Import ListNotations.
Local Open Scope N_scope.

Lemma reg_loop_S retry a r f t id :
  reg_loop retry a r (S f) t id =
  match turn retry a r t id with
  | TAck d => Some d
  | TStuck => Some Inf
  | TNext t' id' => reg_loop retry a r f t' id'
  end.
Proof. reflexivity. Qed.

(* ---- an agent that answers every call within H, successfully or not ---- *)
Section Answering.
Variable a : agent.
Variable H : N.
Hypothesis Hh : forall c t, dleb (a_hold a c t) (Fin H) = true.

Lemma hold_fin c t : exists h, a_hold a c t = Fin h /\ h <= H.
Proof.
  specialize (Hh c t). destruct (a_hold a c t) as [h|]; [|discriminate].
  exists h. split; [reflexivity|]. apply N.leb_le. exact Hh.
Qed.

Lemma select_cases r t id :
  (exists d, in_select a r t id = TAck (Fin d) /\ r <= d /\ d <= N.max r t + H /\ r < t + ttl_refresh) \/
  (exists t', in_select a r t id = TNext t' id /\ t + ttl_refresh <= r /\ t + ttl_refresh <= t' /\ t' <= t + ttl_refresh + H).
Proof.
  unfold in_select. destruct (r <? t + ttl_refresh) eqn:E.
  - left. apply N.ltb_lt in E. destruct (hold_fin ADeregister (N.max r t)) as (h & Eh & Hle).
    rewrite Eh. cbn [dplus]. eexists; split; [reflexivity|]. lia.
  - right. apply N.ltb_ge in E. unfold after.
    destruct (hold_fin APassTTL (t + ttl_refresh)) as (h & Eh & Hle). rewrite Eh.
    eexists; split; [reflexivity|]. lia.
Qed.

(* whatever the agent answers, every turn of the code reaches the select, after at most three calls *)
Lemma turn_reaches_select r t id :
  exists ts id', turn false a r t id = in_select a r ts id' /\ t <= ts /\ ts <= t + 3 * H.
Proof.
  assert (R : forall t1, exists ts id', do_register false a r t1 = in_select a r ts id' /\ t1 <= ts /\ ts <= t1 + 2 * H).
  { intros t1. unfold do_register, after. destruct (hold_fin ARegister t1) as (h1 & E1 & L1). rewrite E1.
    destruct (hold_fin APassTTL (t1 + h1)) as (h2 & E2 & L2).
    destruct (a_ok a ARegister t1); rewrite E2; eexists; eexists; (split; [reflexivity|lia]). }
  unfold turn. destruct id.
  - unfold after. destruct (hold_fin AServices t) as (h & E & L). rewrite E.
    destruct (a_ok a AServices t).
    + eexists; eexists; split; [reflexivity|lia].
    + destruct (R (t + h)) as (ts & id' & E' & ? & ?). exists ts, id'. split; [exact E'|lia].
  - destruct (R t) as (ts & id' & E' & ? & ?). exists ts, id'. split; [exact E'|lia].
Qed.

Lemma loop_answers r : forall fuel t id,
  t <= r + H -> r < t + (N.of_nat fuel + 1) * ttl_refresh ->
  exists d, reg_loop false a r (S fuel) t id = Some (Fin d) /\ r <= d /\ d <= r + 5 * H.
Proof.
  induction fuel as [|f IH]; intros t id Ht Hr; rewrite reg_loop_S;
    destruct (turn_reaches_select r t id) as (ts & id' & E & L1 & L2); rewrite E;
    destruct (select_cases r ts id') as [(d & Ed & ? & ? & ?)|(t' & En & ? & ? & ?)].
  - rewrite Ed. exists d. split; [reflexivity|lia].
  - exfalso. unfold ttl_refresh in *. cbn [N.of_nat] in Hr. lia.
  - rewrite Ed. exists d. split; [reflexivity|lia].
  - rewrite En. apply IH.
    + lia.
    + rewrite Nat2N.inj_succ in Hr. unfold ttl_refresh in *. lia.
Qed.

(* DeregisterAll returns, and no later than five calls' time after it was called: whatever the
   agent answers - accepted, refused, failed, in any pattern over time - and whenever it is called *)
Theorem dereg_answered registering r :
  exists d, deregister_all false registering a r = Some (Fin d) /\ r <= d /\ d <= r + 5 * H.
Proof.
  unfold deregister_all. destruct registering.
  - unfold loop_fuel. apply loop_answers; [lia|].
    rewrite Nat2N.inj_succ, N2Nat.id.
    pose proof (N.mul_succ_div_gt r ttl_refresh) as D. unfold ttl_refresh in *. lia.
  - exists r. split; [reflexivity|lia].
Qed.

(* ---- the handler ---- *)
Theorem handler_starts_drain registering boot grace sigs t0 :
  first_term sigs = Some t0 ->
  exists ts, proc_phase false registering a boot grace sigs = Some (PDraining ts)
             /\ t0 + grace <= ts /\ ts <= t0 + 5 * H + grace.
Proof.
  intros F. unfold proc_phase. rewrite F.
  destruct (dereg_answered registering (boot + t0)) as (d & E & L1 & L2). rewrite E.
  cbn [handler_phase]. eexists; split; [reflexivity|lia].
Qed.
End Answering.

(* the phase [PDraining ts] is the phase of the signal model after one SIGTERM at ts *)
Lemma draining_is_one_term w work ts :
  PDraining ts = listen_phase true w work [(ts, STerm)].
Proof. reflexivity. Qed.

Lemma first_term_one ts : first_term [(ts, STerm)] = Some ts.
Proof. reflexivity. Qed.

(* the three clauses for the process once the handler has called proxy.Shutdown at ts *)
Theorem draining_ends_within_wait w work ts :
  exists T, phase_end w work (PDraining ts) = EClean (Fin T) /\ ts <= T /\ T <= ts + w.
Proof.
  destruct (process_ends_within_wait w work [(ts, STerm)] ts (first_term_one ts)) as (T & E & L).
  exists T. split; [exact E|exact L].
Qed.

Theorem draining_no_accept w work ts p :
  ts <= p -> proc_accepts w work (PDraining ts) p = false.
Proof.
  intros L. rewrite (draining_is_one_term w work ts).
  exact (process_no_accept w work [(ts, STerm)] ts p (first_term_one ts) L).
Qed.

Theorem draining_accepts_before w work ts p :
  p < ts -> proc_accepts w work (PDraining ts) p = true.
Proof.
  intros L. rewrite (draining_is_one_term w work ts).
  exact (process_accepts_before w work true [(ts, STerm)] ts p (first_term_one ts) L).
Qed.

Theorem draining_inflight_complete w work ts s l n :
  In s (work ts) -> In l (leaves s) -> In (Fin n) (litems l) -> n <= w ->
  proc_item w l ts (phase_end w work (PDraining ts)) (Fin n) = Done (ts + n).
Proof.
  intros Hs Hl Hi Hn.
  exact (process_inflight_complete w work [(ts, STerm)] ts s l n (first_term_one ts) Hs Hl Hi Hn).
Qed.

(* the whole handler, for every agent that answers within H, every signal list, every work *)
Theorem handler_process_ends a H registering boot grace w work sigs t0 :
  (forall c t, dleb (a_hold a c t) (Fin H) = true) ->
  first_term sigs = Some t0 ->
  exists ph T, proc_phase false registering a boot grace sigs = Some ph
               /\ phase_end w work ph = EClean (Fin T) /\ t0 + grace <= T /\ T <= t0 + 5 * H + grace + w.
Proof.
  intros Hh F. destruct (handler_starts_drain a H Hh registering boot grace sigs t0 F) as (ts & E & L1 & L2).
  destruct (draining_ends_within_wait w work ts) as (T & ET & L3 & L4).
  exists (PDraining ts), T. split; [exact E|]. split; [exact ET|lia].
Qed.

Theorem handler_no_accept a H registering boot grace w work sigs t0 p :
  (forall c t, dleb (a_hold a c t) (Fin H) = true) ->
  first_term sigs = Some t0 -> t0 + 5 * H + grace <= p ->
  exists ph, proc_phase false registering a boot grace sigs = Some ph /\ proc_accepts w work ph p = false.
Proof.
  intros Hh F L. destruct (handler_starts_drain a H Hh registering boot grace sigs t0 F) as (ts & E & L1 & L2).
  exists (PDraining ts). split; [exact E|]. apply draining_no_accept. lia.
Qed.

Theorem handler_inflight_complete a H registering boot grace w work sigs t0 :
  (forall c t, dleb (a_hold a c t) (Fin H) = true) ->
  first_term sigs = Some t0 ->
  exists ts, proc_phase false registering a boot grace sigs = Some (PDraining ts) /\
    forall s l n, In s (work ts) -> In l (leaves s) -> In (Fin n) (litems l) -> n <= w ->
      proc_item w l ts (phase_end w work (PDraining ts)) (Fin n) = Done (ts + n).
Proof.
  intros Hh F. destruct (handler_starts_drain a H Hh registering boot grace sigs t0 F) as (ts & E & _).
  exists ts. split; [exact E|]. intros s l n. apply draining_inflight_complete.
Qed.

(* without a terminating signal nothing happens, whatever the agent does *)
Theorem handler_needs_terminating_signal retry registering a boot grace sigs :
  first_term sigs = None -> proc_phase retry registering a boot grace sigs = Some PListening.
Proof. intros F. unfold proc_phase. rewrite F. reflexivity. Qed.

(* with nothing to deregister and no grace period the handler is the signal model of Model/ExitSignals.v *)
Theorem handler_without_registration_is_signal_model a w work sigs :
  proc_phase false false a 0 0 sigs = Some (listen_phase true w work sigs).
Proof.
  unfold proc_phase, deregister_all. rewrite kept_phase_closed_form.
  destruct (first_term sigs) as [t0|]; [|reflexivity].
  cbn [handler_phase]. f_equal. f_equal. lia.
Qed.

(* ---- the retrying variant (not the code): an agent that answers every call at once and refuses
   the registration - nobody ever receives the request ---- *)
Definition refusing_agent : agent := script_agent true None 0.

Lemma retry_never_reaches_select r : forall fuel t, reg_loop true refusing_agent r fuel t false = None.
Proof.
  induction fuel as [|f IH]; intros t; [reflexivity|].
  rewrite reg_loop_S. unfold turn, do_register, after, refusing_agent, script_agent.
  cbn [a_hold a_ok negb andb]. apply IH.
Qed.

Theorem retry_without_select_refuted :
  (forall c t, a_hold refusing_agent c t = Fin 0) /\
  (forall r, deregister_all false true refusing_agent r = Some (Fin r)) /\
  (forall r fuel, reg_loop true refusing_agent r fuel 0 false = None).
Proof.
  split; [|split].
  - intros c t. destruct c; reflexivity.
  - intros r.
    assert (Hh : forall c t, dleb (a_hold refusing_agent c t) (Fin 0) = true) by (intros c t; destruct c; reflexivity).
    destruct (dereg_answered refusing_agent 0 Hh true r) as (d & E & L1 & L2).
    rewrite E. f_equal. f_equal. lia.
  - intros r fuel. apply retry_never_reaches_select.
Qed.

(* ---- F-C18-4: the handler waits for the agent's answer to the deregister call without a limit
   of its own: an agent that holds that call keeps every listener accepting and the process
   running for as long as it likes ---- *)
Definition work_never : N -> list server := main_work [{| q_start := 0; q_end := Inf |}].

Theorem deregister_held_refuted :
  (* held for 5 s: SIGTERM at 100, wait 1 s, one never-ending request: still accepting at 5 s, ends at 6.1 s *)
  (let a := script_agent false None 5000 in
   proc_phase false true a 300 0 [(100, STerm)] = Some (PDraining 5100) /\
   proc_accepts 1000 work_never (PDraining 5100) 5000 = true /\
   phase_end 1000 work_never (PDraining 5100) = EClean (Fin 6100)) /\
  (* never answered: the process never ends and serves on *)
  (let a := {| a_ok := fun _ _ => true; a_hold := fun c _ => match c with ADeregister => Inf | _ => Fin 0 end |} in
   proc_phase false true a 300 0 [(100, STerm)] = Some PListening /\
   phase_end 1000 work_never PListening = ERunning).
Proof. vm_compute. repeat split. Qed.

(* non-vacuity: an agent that refuses the registration and goes away altogether at 2 s, holds 30 ms *)
Example handler_nonvacuous :
  let a := script_agent true (Some 2000) 30 in
  (forall c t, dleb (a_hold a c t) (Fin 30) = true) /\
  first_term [(50, SHup); (12400, SInt); (12500, STerm)] = Some 12400 /\
  proc_phase false true a 700 20 [(50, SHup); (12400, SInt); (12500, STerm)] = Some (PDraining 12450).
Proof.
  split; [|split].
  - intros c t. destruct c; reflexivity.
  - reflexivity.
  - vm_compute. reflexivity.
Qed.
