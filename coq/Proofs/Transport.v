From Coq Require Import List ZArith Bool Lia.
From Fabio Require Import Lib.Outcome Lib.Bytes Model.Transport.
Import ListNotations.
Local Open Scope Z_scope.

(* ---- specification: the configuration in force at each NewTransport of a history ---- *)
Definition uses (t : transport) (c : limits) : Prop :=
  t_rht t = l_rht c /\ t_idle t = l_idle c /\ t_maxidle t = l_maxconn c /\
  t_dial t = l_dial c /\ t_keepalive t = l_keepalive c.

(* independent of [run]: the last SetConfig among the first k operations *)
Fixpoint last_config (dflt : limits) (ops : list op) : limits :=
  match ops with
  | [] => dflt
  | SetConfig c :: r => last_config c r
  | NewTransport _ :: r => last_config dflt r
  end.

(* the n-th NewTransport of [ops] is at position k (0-based) *)
Fixpoint nth_new (ops : list op) (n : nat) : option (nat * option tlscfg) :=
  match ops with
  | [] => None
  | SetConfig _ :: r => match nth_new r n with Some (k, t) => Some (S k, t) | None => None end
  | NewTransport tls :: r =>
      match n with
      | O => Some (O, tls)
      | S n' => match nth_new r n' with Some (k, t) => Some (S k, t) | None => None end
      end
  end.

Lemma run_spec : forall ops s n k tls,
  nth_new ops n = Some (k, tls) ->
  exists t, nth_error (run set_config s ops) n = Some t /\
            uses t (last_config s (firstn k ops)) /\ t_tls t = tls.
Proof.
  induction ops as [|o ops IH]; intros s n k tls H; [discriminate|].
  destruct o as [c|tl]; cbn [nth_new run] in *.
  - destruct (nth_new ops n) as [[k' t']|] eqn:E; [|discriminate].
    inversion H; subst. destruct (IH c n k' tls E) as (t & Ht & Hu & Htls).
    exists t. cbn [firstn last_config]. auto.
  - destruct n as [|n'].
    + inversion H; subst. exists (new_transport s tls). cbn [nth_error firstn last_config].
      repeat split; reflexivity.
    + destruct (nth_new ops n') as [[k' t']|] eqn:E; [|discriminate].
      inversion H; subst. destruct (IH s n' k' tls E) as (t & Ht & Hu & Htls).
      exists t. cbn [nth_error firstn last_config]. auto.
Qed.

Lemma run_length : forall ops set s, length (run set s ops) = length (filter (fun o => match o with NewTransport _ => true | _ => false end) ops).
Proof. induction ops as [|[c|tl] ops IH]; intros; cbn; auto. Qed.

(* the plain consequence the operator relies on *)
(* nothing but the configured limits is set on any transport of any history *)
Lemma run_no_other_limits : forall ops s, Forall (fun t => t_other t = 0) (run set_config s ops).
Proof.
  induction ops as [|[c|tl] ops IH]; intros s; cbn [run]; [constructor|apply IH|].
  constructor; [reflexivity | apply IH].
Qed.

Lemma set_then_new c tls s : uses (new_transport (set_config s c) tls) c.
Proof. repeat split; reflexivity. Qed.

(* the defect that was repaired: with the shadowed assignment every history builds
   transports from the zero configuration *)
Lemma shadowed_ignores : forall ops s, Forall (fun t => uses t s) (run set_config_shadowed s ops).
Proof.
  induction ops as [|[c|tl] ops IH]; intros s; cbn [run]; [constructor|apply IH|].
  constructor; [repeat split; reflexivity | apply IH].
Qed.
Lemma shadowed_refuted :
  exists c tls, ~ uses (new_transport (set_config_shadowed init_state c) tls) c.
Proof.
  exists {| l_rht := 5; l_idle := 0; l_maxconn := 0; l_dial := 0; l_keepalive := 0 |}, None.
  intros (H & _). cbn in H. discriminate.
Qed.

(* per-route transports read the same state *)
Lemma route_transport_uses s host dh ph skip t :
  route_transport s host dh ph skip = Some t ->
  uses t s /\ t_tls t = Some {| tls_server_name := host; tls_skip_verify := skip |}.
Proof.
  unfold route_transport. destruct (_ && _ && _); [|discriminate].
  intros H. inversion H; subst. repeat split; reflexivity.
Qed.

(* ---- the time limit ---- *)
Lemma timeout_is_504 limit delay st : 0 < limit -> limit <= delay -> serve limit delay st = (504, limit).
Proof.
  intros H1 H2. unfold serve.
  replace (0 <? limit) with true by (symmetry; apply Z.ltb_lt; lia).
  replace (limit <=? delay) with true by (symmetry; apply Z.leb_le; lia). reflexivity.
Qed.
Lemma in_time_is_proxied limit delay st : delay < limit \/ limit = 0 -> 0 <= limit -> serve limit delay st = (st, delay).
Proof.
  intros H H0. unfold serve.
  destruct (0 <? limit) eqn:E1; [|reflexivity]. apply Z.ltb_lt in E1.
  replace (limit <=? delay) with false by (symmetry; apply Z.leb_gt; lia). reflexivity.
Qed.
(* the client is never held longer than the limit when one is set *)
Lemma answered_within_limit limit delay st : 0 < limit -> snd (serve limit delay st) <= limit.
Proof.
  intros H. unfold serve. replace (0 <? limit) with true by (symmetry; apply Z.ltb_lt; lia).
  destruct (limit <=? delay) eqn:E; cbn [andb snd]; [lia|]. apply Z.leb_gt in E. lia.
Qed.

(* the proxy's single attempt is [serve]; any further attempt breaks the limit *)
Lemma serve_once limit delay st :
  serve_n attempts_of_proxy limit delay st = (fst (serve limit delay st), snd (serve limit delay st), 1).
Proof.
  unfold serve_n, serve, attempts_of_proxy.
  destruct ((0 <? limit) && (limit <=? delay)); cbn [fst snd]; [|reflexivity].
  replace (Z.max 1 1) with 1 by reflexivity. rewrite Z.mul_1_l. reflexivity.
Qed.
Lemma within_limit_iff_single_attempt k limit delay st :
  0 < limit -> limit <= delay -> 1 <= k ->
  (snd (fst (serve_n k limit delay st)) <= limit <-> k = 1).
Proof.
  intros H1 H2 Hk. unfold serve_n.
  replace (0 <? limit) with true by (symmetry; apply Z.ltb_lt; lia).
  replace (limit <=? delay) with true by (symmetry; apply Z.leb_le; lia).
  cbn [andb fst snd]. rewrite Z.max_r by lia. split; intro H; [nia | subst k; lia].
Qed.
Lemma retry_exceeds_limit : exists limit delay st, 0 < limit /\ limit < snd (fst (serve_n 2 limit delay st))
  /\ snd (serve_n 2 limit delay st) = 2.
Proof. exists 400, 2000, 200. vm_compute. repeat split; reflexivity. Qed.

Lemma dial_timeout_is_504 limit connect st : 0 < limit -> limit <= connect -> dial limit connect st = 504.
Proof.
  intros H1 H2. unfold dial.
  replace (0 <? limit) with true by (symmetry; apply Z.ltb_lt; lia).
  replace (limit <=? connect) with true by (symmetry; apply Z.leb_le; lia). reflexivity.
Qed.
Lemma dial_in_time limit connect st : connect < limit \/ limit = 0 -> 0 <= limit -> dial limit connect st = st.
Proof.
  intros H H0. unfold dial. destruct (0 <? limit) eqn:E1; [|reflexivity]. apply Z.ltb_lt in E1.
  replace (limit <=? connect) with false by (symmetry; apply Z.leb_gt; lia). reflexivity.
Qed.

Lemma error_status_timeout e : error_status e = 504 <-> e = ENetTimeout.
Proof. destruct e; cbn; split; intros H; try discriminate; reflexivity. Qed.

Example history_example :
  let c1 := {| l_rht := 3; l_idle := 4; l_maxconn := 5; l_dial := 6; l_keepalive := 7 |} in
  let c2 := {| l_rht := 30; l_idle := 40; l_maxconn := 50; l_dial := 60; l_keepalive := 70 |} in
  map t_rht (run set_config init_state [NewTransport None; SetConfig c1; NewTransport None; SetConfig c2; SetConfig c1; NewTransport None; SetConfig c2; NewTransport None])
  = [0; 3; 3; 30].
Proof. reflexivity. Qed.
