From Coq Require Import String List ZArith Bool Lia.
From Fabio Require Import Lib.Outcome Lib.Bytes Model.Transport.
Import ListNotations.
Local Open Scope Z_scope.

(* ---- specification: the configuration in force at each NewTransport of a history ---- *)
Definition uses (t : transport) (c : limits) : Prop :=
  t_rht t = l_rht c /\ t_idle t = l_idle c /\ t_maxidle t = l_maxconn c /\
  t_dial t = l_dial c /\ t_keepalive t = l_keepalive c.

(* independent of [run]: the last SetConfig among the first k operations *)
Fixpoint last_config (dflt : limits) (ops : list op) : limits :=
  match ops with
  | [] => dflt
  | SetConfig c :: r => last_config c r
  | NewTransport _ :: r => last_config dflt r
  end.

(* the n-th NewTransport of [ops] is at position k (0-based) *)
Fixpoint nth_new (ops : list op) (n : nat) : option (nat * option tlscfg) :=
  match ops with
  | [] => None
  | SetConfig _ :: r => match nth_new r n with Some (k, t) => Some (S k, t) | None => None end
  | NewTransport tls :: r =>
      match n with
      | O => Some (O, tls)
      | S n' => match nth_new r n' with Some (k, t) => Some (S k, t) | None => None end
      end
  end.

Lemma run_spec : forall ops s n k tls,
  nth_new ops n = Some (k, tls) ->
  exists t, nth_error (run set_config s ops) n = Some t /\
            uses t (last_config s (firstn k ops)) /\ t_tls t = tls.
Proof.
  induction ops as [|o ops IH]; intros s n k tls H; [discriminate|].
  destruct o as [c|tl]; cbn [nth_new run] in *.
  - destruct (nth_new ops n) as [[k' t']|] eqn:E; [|discriminate].
    inversion H; subst. destruct (IH c n k' tls E) as (t & Ht & Hu & Htls).
    exists t. cbn [firstn last_config]. auto.
  - destruct n as [|n'].
    + inversion H; subst. exists (new_transport s tls). cbn [nth_error firstn last_config].
      repeat split; reflexivity.
    + destruct (nth_new ops n') as [[k' t']|] eqn:E; [|discriminate].
      inversion H; subst. destruct (IH s n' k' tls E) as (t & Ht & Hu & Htls).
      exists t. cbn [nth_error firstn last_config]. auto.
Qed.

Definition is_new (o : op) : bool := match o with NewTransport _ => true | _ => false end.
Lemma run_length : forall ops set s, length (run set s ops) = length (filter is_new ops).
Proof. induction ops as [|[c|tl] ops IH]; intros; cbn; auto. Qed.
(* the hypothesis of [run_spec] is met by every n below the number of NewTransport operations *)
Lemma nth_new_defined : forall ops n, (n < length (filter is_new ops))%nat -> exists k tls, nth_new ops n = Some (k, tls).
Proof.
  induction ops as [|[c|tl] ops IH]; intros n H; cbn [filter is_new length nth_new] in *; [lia| |].
  - destruct (IH n H) as (k & tls & E). rewrite E. eauto.
  - destruct n as [|n']; [eauto|]. destruct (IH n') as (k & tls & E); [lia|]. rewrite E. eauto.
Qed.
Example run_spec_nonvacuous :
  let c1 := {| l_rht := 3; l_idle := 4; l_maxconn := 5; l_dial := 6; l_keepalive := 7 |} in
  let c2 := {| l_rht := 30; l_idle := 40; l_maxconn := 50; l_dial := -60; l_keepalive := 70 |} in
  let ops := [NewTransport None; SetConfig c1; NewTransport None; SetConfig c2; SetConfig c1; NewTransport None; SetConfig c2; NewTransport None] in
  nth_new ops 3 = Some (7%nat, None) /\ last_config init_state (firstn 7 ops) = c2 /\
  map t_rht (run set_config init_state ops) = [0; 3; 3; 30] /\ map t_dial (run set_config init_state ops) = [0; 6; 6; -60].
Proof. repeat split; reflexivity. Qed.

(* mechanism lemma (definitional: [new_transport] writes the literal 0): its content comes from the
   reflection count of the harness, which is compared with this 0 *)
Lemma run_no_other_limits : forall ops s, Forall (fun t => t_other t = 0) (run set_config s ops).
Proof.
  induction ops as [|[c|tl] ops IH]; intros s; cbn [run]; [constructor|apply IH|].
  constructor; [reflexivity | apply IH].
Qed.

Lemma set_then_new c tls s : uses (new_transport (set_config s c) tls) c.
Proof. repeat split; reflexivity. Qed.

(* the defect that was repaired: with the shadowed assignment every history builds
   transports from the zero configuration *)
Lemma shadowed_ignores : forall ops s, Forall (fun t => uses t s) (run set_config_shadowed s ops).
Proof.
  induction ops as [|[c|tl] ops IH]; intros s; cbn [run]; [constructor|apply IH|].
  constructor; [repeat split; reflexivity | apply IH].
Qed.
Lemma shadowed_refuted :
  exists c tls, ~ uses (new_transport (set_config_shadowed init_state c) tls) c.
Proof.
  exists {| l_rht := 5; l_idle := 0; l_maxconn := 0; l_dial := 0; l_keepalive := 0 |}, None.
  intros (H & _). cbn in H. discriminate.
Qed.

(* ---- per-route transports read the same state ---- *)
Lemma route_transport_uses s host dh ph skip t :
  route_transport s host dh ph skip = Some t ->
  uses t s /\ t_tls t = Some {| tls_server_name := host; tls_skip_verify := skip |} /\ t_other t = 0.
Proof.
  unfold route_transport. destruct (wants_transport _ _ _); [|discriminate].
  intros H. inversion H; subst. repeat split; reflexivity.
Qed.

(* ... and exist exactly for a host override other than "dst" on an https destination *)
Lemma wants_transport_iff host dh ph :
  wants_transport host dh ph = true <-> host <> [] /\ host <> bs "dst"%string /\ (dh = true \/ ph = true).
Proof.
  unfold wants_transport. rewrite !andb_true_iff, !negb_true_iff, !beq_neq, orb_true_iff. tauto.
Qed.
Lemma route_transport_some_iff s host dh ph skip :
  (exists t, route_transport s host dh ph skip = Some t) <->
  host <> [] /\ host <> bs "dst"%string /\ (dh = true \/ ph = true).
Proof.
  rewrite <- wants_transport_iff. unfold route_transport.
  destruct (wants_transport host dh ph); split; intros H; try reflexivity; eauto.
  - destruct H as (t & H). discriminate.
  - discriminate.
Qed.
Lemma proto_is_https_iff proto : proto_is_https proto = true <-> proto = bs "https"%string.
Proof. apply beq_eq. Qed.

Example route_transport_nonvacuous :
  let c := {| l_rht := 300; l_idle := 15; l_maxconn := 100; l_dial := 30; l_keepalive := 7 |} in
  (exists t, route_transport c (bs "foo.com"%string) true false true = Some t /\ t_rht t = 300 /\ t_dial t = 30 /\
             t_tls t = Some {| tls_server_name := bs "foo.com"%string; tls_skip_verify := true |}) /\
  (exists t, route_transport c (bs "foo.com"%string) false (proto_is_https (bs "https"%string)) false = Some t /\ t_idle t = 15) /\
  route_transport c (bs "foo.com"%string) false (proto_is_https (bs "HTTPS"%string)) false = None /\
  route_transport c (bs "foo.com"%string) false (proto_is_https (bs "tcp"%string)) false = None /\
  route_transport c (bs "dst"%string) true false false = None /\
  route_transport c [] true true true = None.
Proof. repeat split; try reflexivity; eexists; repeat split; reflexivity. Qed.

(* ---- the time limits ---- *)

(* spec side, independent of [serve] / [dial]: what the client of an upstream that answers its header
   after [delay] must see under a configured response-header limit, resp. what connecting in
   [connect] must give under a configured dial limit *)
Definition rht_hits (limit delay : Z) : Prop := 0 < limit <= delay.
Definition rht_spec (limit delay st : Z) (r : Z * Z) : Prop :=
  (rht_hits limit delay -> r = (504, limit)) /\ (~ rht_hits limit delay -> r = (st, delay)).
Definition dial_hits (limit connect : Z) : Prop := limit < 0 \/ 0 < limit <= connect.
Definition dial_spec (limit connect st : Z) (r : Z) : Prop :=
  (dial_hits limit connect -> r = 504) /\ (~ dial_hits limit connect -> r = st).

Lemma rht_expires_iff limit delay : rht_expires limit delay = true <-> rht_hits limit delay.
Proof. unfold rht_expires, rht_hits. rewrite andb_true_iff, Z.ltb_lt, Z.leb_le. tauto. Qed.
Lemma dial_expires_iff limit connect : dial_expires limit connect = true <-> dial_hits limit connect.
Proof. unfold dial_expires, dial_hits. rewrite orb_true_iff, andb_true_iff, !Z.ltb_lt, Z.leb_le. tauto. Qed.

Lemma serve_meets_spec limit delay st : rht_spec limit delay st (serve limit delay st).
Proof.
  unfold rht_spec, serve. destruct (rht_expires limit delay) eqn:E.
  - apply rht_expires_iff in E. split; [reflexivity | tauto].
  - split; [|reflexivity]. intros H. apply rht_expires_iff in H. congruence.
Qed.
Lemma dial_meets_spec limit connect st : dial_spec limit connect st (dial limit connect st).
Proof.
  unfold dial_spec, dial. destruct (dial_expires limit connect) eqn:E.
  - apply dial_expires_iff in E. split; [reflexivity | tauto].
  - split; [|reflexivity]. intros H. apply dial_expires_iff in H. congruence.
Qed.

Lemma timeout_is_504 limit delay st : 0 < limit -> limit <= delay -> serve limit delay st = (504, limit).
Proof. intros H1 H2. apply (serve_meets_spec limit delay st). split; assumption. Qed.
Lemma in_time_is_proxied limit delay st : limit <= 0 \/ delay < limit -> serve limit delay st = (st, delay).
Proof. intros H. apply (serve_meets_spec limit delay st). unfold rht_hits. lia. Qed.
(* the client is never held longer than the limit when one is set *)
Lemma answered_within_limit limit delay st : 0 < limit -> snd (serve limit delay st) <= limit.
Proof.
  intros H. unfold serve. destruct (rht_expires limit delay) eqn:E; cbn [snd]; [lia|].
  destruct (Z_le_gt_dec limit delay) as [L|G]; [|lia].
  assert (X : rht_expires limit delay = true) by (apply rht_expires_iff; split; assumption). congruence.
Qed.

(* the proxy's single attempt is [serve]; any further attempt breaks the limit *)
Lemma serve_once limit delay st :
  serve_n attempts_of_proxy limit delay st = (fst (serve limit delay st), snd (serve limit delay st), 1).
Proof.
  unfold serve_n, serve, attempts_of_proxy.
  destruct (rht_expires limit delay); cbn [fst snd]; [|reflexivity].
  replace (Z.max 1 1) with 1 by reflexivity. rewrite Z.mul_1_l. reflexivity.
Qed.
Lemma within_limit_iff_single_attempt k limit delay st :
  0 < limit -> limit <= delay -> 1 <= k ->
  (snd (fst (serve_n k limit delay st)) <= limit <-> k = 1).
Proof.
  intros H1 H2 Hk. unfold serve_n.
  replace (rht_expires limit delay) with true by (symmetry; apply rht_expires_iff; split; assumption).
  cbn [fst snd]. rewrite Z.max_r by lia. split; intro H; [nia | subst k; lia].
Qed.
Lemma second_attempt_exceeds_limit : exists limit delay st, 0 < limit /\ limit < snd (fst (serve_n 2 limit delay st))
  /\ snd (serve_n 2 limit delay st) = 2.
Proof. exists 400, 2000, 200. vm_compute. repeat split; reflexivity. Qed.

Lemma dial_timeout_is_504 limit connect st : 0 < limit -> limit <= connect -> dial limit connect st = 504.
Proof. intros H1 H2. apply (dial_meets_spec limit connect st). right. split; assumption. Qed.
Lemma dial_negative_is_504 limit connect st : limit < 0 -> dial limit connect st = 504.
Proof. intros H. apply (dial_meets_spec limit connect st). left. assumption. Qed.
Lemma dial_in_time limit connect st : limit = 0 \/ (0 < limit /\ connect < limit) -> dial limit connect st = st.
Proof. intros H. apply (dial_meets_spec limit connect st). unfold dial_hits. lia. Qed.

Lemma error_status_timeout e : error_status e = 504 <-> e = ENetTimeout.
Proof. destruct e; cbn; split; intros H; try discriminate; reflexivity. Qed.

(* ---- which transport serves a target; main()'s order of operations ---- *)

Inductive kind := KPlain | KSkipVerify | KOverride.
Definition kind_of (tg : target) : kind :=
  if wants_transport (tg_host tg) (tg_dst_https tg) (proto_is_https (tg_proto tg)) then KOverride
  else if tg_skip tg then KSkipVerify else KPlain.
(* the TLS settings the transport of a target of each kind must carry *)
Definition kind_tls (tg : target) : option tlscfg :=
  match kind_of tg with
  | KPlain => None
  | KSkipVerify => Some insecure_tls
  | KOverride => Some (target_tls tg)
  end.

Lemma nth_error_map' {A B} (f : A -> B) : forall l i, nth_error (map f l) i = option_map f (nth_error l i).
Proof. induction l as [|a l IH]; intros [|i]; cbn [map nth_error option_map]; auto. Qed.

Lemma chosen_build s tgs dflt ins i :
  chosen {| px_targets := build_table s tgs; px_default := dflt; px_insecure := ins |} i =
  option_map (fun tg => select_transport (target_transport s tg) (tg_skip tg) dflt ins) (nth_error tgs i).
Proof.
  unfold chosen, build_table. cbn [px_targets px_default px_insecure]. rewrite nth_error_map'.
  destruct (nth_error tgs i); reflexivity.
Qed.

(* the choice among transports built from state [st] (table) and [sd] (default, skip-verify) *)
Lemma select_uses st sd tg :
  let t := select_transport (target_transport st tg) (tg_skip tg) (new_transport sd None) (new_transport sd (Some insecure_tls)) in
  uses t (match kind_of tg with KOverride => st | _ => sd end) /\ t_tls t = kind_tls tg /\ t_other t = 0.
Proof.
  unfold kind_tls, kind_of, target_transport, route_transport, select_transport.
  destruct (wants_transport _ _ _); [repeat split; reflexivity|].
  destruct (tg_skip tg); repeat split; reflexivity.
Qed.

Lemma uses_time t c delay connect st : uses t c ->
  rht_spec (l_rht c) delay st (serve (t_rht t) delay st) /\ dial_spec (l_dial c) connect st (dial (t_dial t) connect st).
Proof.
  intros (H1 & _ & _ & H4 & _). rewrite <- H1, <- H4. split; [apply serve_meets_spec | apply dial_meets_spec].
Qed.

(* the headline statement: after main()'s start-up from ANY package state, for every configuration,
   every table and every target of it, the transport the proxy hands the target's requests to
   carries the five configured limits (and the TLS settings of the target's kind, and no other
   limit), an upstream that does not answer its header within the configured response-header
   timeout is answered 504 at that time, any other is served with its own status at its own
   time; and the same for connecting under the configured dial timeout *)
Lemma end_to_end s0 cfg tgs i tg delay connect st :
  nth_error tgs i = Some tg ->
  exists t, chosen (main_start set_config s0 cfg tgs) i = Some t /\
    uses t cfg /\ t_tls t = kind_tls tg /\ t_other t = 0 /\
    rht_spec (l_rht cfg) delay st (serve (t_rht t) delay st) /\
    dial_spec (l_dial cfg) connect st (dial (t_dial t) connect st).
Proof.
  intros Hn. unfold main_start. rewrite chosen_build, Hn. cbn [option_map]. eexists. split; [reflexivity|].
  destruct (select_uses (set_config s0 cfg) (set_config s0 cfg) tg) as (Hu & Ht & Ho).
  assert (Hu' : uses (select_transport (target_transport (set_config s0 cfg) tg) (tg_skip tg)
                       (new_transport (set_config s0 cfg) None) (new_transport (set_config s0 cfg) (Some insecure_tls))) cfg)
    by (destruct (kind_of tg); exact Hu).
  destruct (uses_time _ cfg delay connect st Hu') as (Hr & Hd).
  split; [exact Hu'|]. split; [exact Ht|]. split; [exact Ho|]. split; assumption.
Qed.
(* a later table (every registry change) is built from the same package state *)
Lemma end_to_end_reload s0 cfg tgs tgs' i tg delay connect st :
  nth_error tgs' i = Some tg ->
  exists t, chosen (reload (set_config s0 cfg) (main_start set_config s0 cfg tgs) tgs') i = Some t /\
    uses t cfg /\ t_tls t = kind_tls tg /\ t_other t = 0 /\
    rht_spec (l_rht cfg) delay st (serve (t_rht t) delay st) /\
    dial_spec (l_dial cfg) connect st (dial (t_dial t) connect st).
Proof.
  intros Hn. unfold reload, main_start. cbn [px_default px_insecure]. rewrite chosen_build, Hn. cbn [option_map].
  eexists. split; [reflexivity|].
  destruct (select_uses (set_config s0 cfg) (set_config s0 cfg) tg) as (Hu & Ht & Ho).
  assert (Hu' : uses (select_transport (target_transport (set_config s0 cfg) tg) (tg_skip tg)
                       (new_transport (set_config s0 cfg) None) (new_transport (set_config s0 cfg) (Some insecure_tls))) cfg)
    by (destruct (kind_of tg); exact Hu).
  destruct (uses_time _ cfg delay connect st Hu') as (Hr & Hd).
  split; [exact Hu'|]. split; [exact Ht|]. split; [exact Ho|]. split; assumption.
Qed.

(* all three kinds of target occur, and each is served by a different transport *)
Example end_to_end_nonvacuous :
  let cfg := {| l_rht := 300; l_idle := 15; l_maxconn := 100; l_dial := 30; l_keepalive := 7 |} in
  let plain := {| tg_host := []; tg_dst_https := false; tg_proto := []; tg_skip := false |} in
  let skipv := {| tg_host := bs "dst"%string; tg_dst_https := true; tg_proto := []; tg_skip := true |} in
  let over := {| tg_host := bs "upstream.example"%string; tg_dst_https := true; tg_proto := []; tg_skip := true |} in
  let px := main_start set_config init_state cfg [plain; skipv; over] in
  map kind_of [plain; skipv; over] = [KPlain; KSkipVerify; KOverride] /\
  map (fun i => option_map t_tls (chosen px i)) [0%nat; 1%nat; 2%nat] =
    [Some None; Some (Some insecure_tls); Some (Some (target_tls over))] /\
  map (fun i => option_map (fun t => serve (t_rht t) 2000 200) (chosen px i)) [0%nat; 1%nat; 2%nat] =
    [Some (504, 300); Some (504, 300); Some (504, 300)] /\
  map (fun i => option_map (fun t => serve (t_rht t) 100 200) (chosen px i)) [0%nat; 1%nat; 2%nat] =
    [Some (200, 100); Some (200, 100); Some (200, 100)] /\
  chosen px 3 = None.
Proof. repeat split; reflexivity. Qed.

(* SetConfig at the top of startServers (after the first table): a host-override target of the
   first table is served from the package state main() started with; the client of a silent
   upstream behind it is held although a limit is configured *)
Lemma late_setconfig_refuted :
  exists cfg tgs i t delay st,
    chosen (main_start_late set_config init_state cfg tgs) i = Some t /\ ~ uses t cfg /\
    rht_hits (l_rht cfg) delay /\ serve (t_rht t) delay st = (st, delay).
Proof.
  exists {| l_rht := 300; l_idle := 0; l_maxconn := 0; l_dial := 0; l_keepalive := 0 |},
         [{| tg_host := bs "upstream.example"%string; tg_dst_https := true; tg_proto := []; tg_skip := true |}],
         0%nat. eexists. exists 2000, 200.
  split; [reflexivity|]. split; [|split; [unfold rht_hits; cbn; lia | reflexivity]].
  intros (H & _). cbn in H. discriminate.
Qed.
(* ... while exactly the other two kinds stay right under that order *)
Lemma late_setconfig_on_domain s0 cfg tgs i tg delay connect st :
  nth_error tgs i = Some tg -> kind_of tg <> KOverride ->
  exists t, chosen (main_start_late set_config s0 cfg tgs) i = Some t /\
    uses t cfg /\ t_tls t = kind_tls tg /\
    rht_spec (l_rht cfg) delay st (serve (t_rht t) delay st) /\
    dial_spec (l_dial cfg) connect st (dial (t_dial t) connect st).
Proof.
  intros Hn Hk. unfold main_start_late. rewrite chosen_build, Hn. cbn [option_map]. eexists. split; [reflexivity|].
  destruct (select_uses s0 (set_config s0 cfg) tg) as (Hu & Ht & Ho).
  assert (Hu' : uses (select_transport (target_transport s0 tg) (tg_skip tg)
                       (new_transport (set_config s0 cfg) None) (new_transport (set_config s0 cfg) (Some insecure_tls))) cfg)
    by (destruct (kind_of tg); [exact Hu | exact Hu | congruence]).
  destruct (uses_time _ cfg delay connect st Hu') as (Hr & Hd).
  split; [exact Hu'|]. split; [exact Ht|]. split; assumption.
Qed.

(* main()'s start-up is a history of the package operations of [run], in main()'s order: the
   transports the proxy holds are exactly the outputs of that history (so the history theorem and
   the harness's history class speak about the same operations) *)
Definition held (p : target * option transport) : list transport := match snd p with Some t => [t] | None => [] end.
Lemma run_table_ops set : forall tgs s r,
  run set s (table_ops tgs ++ r) = flat_map held (build_table s tgs) ++ run set s r.
Proof.
  induction tgs as [|tg tgs IH]; intros s r; [reflexivity|].
  change (table_ops (tg :: tgs)) with (target_ops tg ++ table_ops tgs).
  change (build_table s (tg :: tgs)) with ((tg, target_transport s tg) :: build_table s tgs).
  cbn [flat_map]. rewrite <- !app_assoc, <- IH.
  unfold target_ops, held, target_transport, route_transport, target_tls. cbn [snd].
  destruct (wants_transport _ _ _); reflexivity.
Qed.
Lemma main_start_is_run set s0 cfg tgs :
  proxy_transports (main_start set s0 cfg tgs) = run set s0 (main_ops cfg tgs).
Proof.
  unfold proxy_transports, main_start, main_ops. cbn [px_targets px_default px_insecure run].
  rewrite run_table_ops. reflexivity.
Qed.
Lemma main_start_late_is_run set s0 cfg tgs :
  proxy_transports (main_start_late set s0 cfg tgs) = run set s0 (main_ops_late cfg tgs).
Proof.
  unfold proxy_transports, main_start_late, main_ops_late. cbn [px_targets px_default px_insecure].
  rewrite run_table_ops. reflexivity.
Qed.
(* every transport that exists after main()'s start-up carries the configured limits *)
Lemma last_config_table_ops : forall tgs c r, last_config c (table_ops tgs ++ r) = last_config c r.
Proof.
  induction tgs as [|tg tgs IH]; intros c r; [reflexivity|].
  change (table_ops (tg :: tgs)) with (target_ops tg ++ table_ops tgs).
  rewrite <- app_assoc. unfold target_ops.
  destruct (wants_transport _ _ _); cbn [app last_config]; apply IH.
Qed.
Lemma main_ops_all_use s0 cfg tgs : Forall (fun t => uses t cfg) (run set_config s0 (main_ops cfg tgs)).
Proof.
  unfold main_ops. cbn [run]. rewrite run_table_ops. apply Forall_app. split.
  - apply Forall_forall. intros t Ht. apply in_flat_map in Ht. destruct Ht as ([tg pr] & Hin & Hh).
    unfold build_table in Hin. apply in_map_iff in Hin. destruct Hin as (tg' & E & _). inversion E; subst.
    unfold held in Hh. cbn [snd] in Hh. destruct (target_transport _ tg) as [t'|] eqn:Et; [|contradiction].
    destruct Hh as [<-|[]]. unfold target_transport in Et. apply route_transport_uses in Et. apply Et.
  - cbn [servers_ops run]. repeat constructor.
Qed.

(* ---- the whole exchange: the response-header limit covers the wait for the header only ---- *)

(* spec side, independent of [deliver] / [exchange_with]: the body the upstream sends and the time
   it needs for it, by list functions over the chunks *)
Definition body_of (x : exchange) : str := concat (map snd (x_chunks x)).
Definition body_time (x : exchange) : Z := fold_right Z.add 0 (map fst (x_chunks x)).
(* "served normally": the upstream's status when the upstream gave it, all of its body, properly
   ended, at the upstream's own time, from one request that reached the upstream whole *)
Definition served_normally (x : exchange) (a : answer) : Prop :=
  a_status a = x_status x /\ a_head_at a = x_upload x + x_delay x /\
  a_body a = body_of x /\ a_complete a = true /\ a_done_at a = x_upload x + x_delay x + body_time x /\
  a_request_whole a = true /\ a_hits a = 1.
(* "produces a 504 within that time": the limit counts from the moment the upstream has the request *)
Definition timed_out_at_limit (limit : Z) (x : exchange) (a : answer) : Prop :=
  a_status a = 504 /\ a_head_at a = x_upload x + limit /\ a_done_at a = x_upload x + limit /\
  a_complete a = true /\ a_hits a = 1.
Definition exchange_spec (limit : Z) (x : exchange) (a : answer) : Prop :=
  (rht_hits limit (x_delay x) -> timed_out_at_limit limit x a) /\
  (~ rht_hits limit (x_delay x) -> served_normally x a).

Lemma deliver_none : forall chunks now,
  deliver None now chunks = (concat (map snd chunks), true, now + fold_right Z.add 0 (map fst chunks)).
Proof.
  induction chunks as [|[gap b] r IH]; intros now; cbn [deliver past map concat fold_right fst snd].
  - rewrite Z.add_0_r. reflexivity.
  - rewrite IH. f_equal. lia.
Qed.

(* for EVERY limit (zero and negative: never), every upload time, header delay, status and every
   body however long it takes *)
Lemma exchange_meets_spec limit x : exchange_spec limit x (exchange_of_proxy limit x).
Proof.
  unfold exchange_spec, exchange_of_proxy, whole_deadline_of_proxy, exchange_with.
  destruct (rht_expires limit (x_delay x)) eqn:E.
  - apply rht_expires_iff in E. split; [|tauto]. intros _. repeat split; reflexivity.
  - split; [intros H; apply rht_expires_iff in H; congruence|]. intros _.
    rewrite deliver_none. unfold served_normally, body_of, body_time. cbn [a_status a_head_at a_body a_complete a_done_at a_request_whole a_hits].
    repeat split; reflexivity.
Qed.

(* readable corollary: once the header came in time, no body is cut short and no gap between two
   chunks is measured against the limit *)
Lemma body_is_not_limited limit x :
  ~ rht_hits limit (x_delay x) ->
  a_body (exchange_of_proxy limit x) = body_of x /\ a_complete (exchange_of_proxy limit x) = true.
Proof. intros H. destruct (exchange_meets_spec limit x) as (_ & S). destruct (S H) as (_ & _ & Hb & Hc & _). auto. Qed.

(* status and time of the header are those of [serve] when nothing is uploaded *)
Lemma exchange_head_is_serve limit x :
  x_upload x = 0 ->
  (a_status (exchange_of_proxy limit x), a_head_at (exchange_of_proxy limit x)) = serve limit (x_delay x) (x_status x).
Proof.
  intros U. unfold exchange_of_proxy, whole_deadline_of_proxy, exchange_with, serve. rewrite U.
  destruct (rht_expires limit (x_delay x)); [reflexivity|].
  rewrite deliver_none. reflexivity.
Qed.

(* a slow download and a slow upload under a short limit, and a silent upstream *)
Example exchange_nonvacuous :
  let slowbody := {| x_upload := 0; x_delay := 5; x_status := 200; x_chunks := [(0, bs "part1"%string); (3000, bs "part2"%string)] |} in
  let slowupload := {| x_upload := 2500; x_delay := 20; x_status := 201; x_chunks := [(0, bs "ok"%string)] |} in
  let silent := {| x_upload := 700; x_delay := 5000; x_status := 200; x_chunks := [(0, bs "late"%string)] |} in
  ~ rht_hits 1000 (x_delay slowbody) /\ ~ rht_hits 1000 (x_delay slowupload) /\ rht_hits 1000 (x_delay silent) /\
  exchange_of_proxy 1000 slowbody =
    {| a_status := 200; a_head_at := 5; a_body := bs "part1part2"%string; a_complete := true; a_done_at := 3005; a_request_whole := true; a_hits := 1 |} /\
  exchange_of_proxy 1000 slowupload =
    {| a_status := 201; a_head_at := 2520; a_body := bs "ok"%string; a_complete := true; a_done_at := 2520; a_request_whole := true; a_hits := 1 |} /\
  exchange_of_proxy 1000 silent =
    {| a_status := 504; a_head_at := 1700; a_body := []; a_complete := true; a_done_at := 1700; a_request_whole := true; a_hits := 1 |}.
Proof. unfold rht_hits. cbn [x_delay]. repeat split; try lia; reflexivity. Qed.

(* About a HYPOTHETICAL deadline on the exchange as a whole (what one of the seeded changes puts
   around it, with the response-header timeout as its value): the upstream answered its header in
   time and yet its client gets a cut-off body. *)
Lemma whole_deadline_refuted : exists limit x,
  ~ rht_hits limit (x_delay x) /\
  a_status (exchange_with (Some limit) limit x) = x_status x /\
  a_complete (exchange_with (Some limit) limit x) = false /\
  a_body (exchange_with (Some limit) limit x) <> body_of x.
Proof.
  exists 1000, {| x_upload := 0; x_delay := 5; x_status := 200; x_chunks := [(0, bs "part1"%string); (3000, bs "part2"%string)] |}.
  split; [unfold rht_hits; cbn [x_delay]; lia|]. vm_compute. repeat split; discriminate.
Qed.
(* ... and a slow upload to an upstream that answers at once is refused *)
Lemma whole_deadline_upload_refuted : exists limit x,
  ~ rht_hits limit (x_delay x) /\ a_status (exchange_with (Some limit) limit x) = 504 /\ x_status x <> 504 /\
  a_request_whole (exchange_with (Some limit) limit x) = false.
Proof.
  exists 1000, {| x_upload := 2500; x_delay := 20; x_status := 201; x_chunks := [(0, bs "ok"%string)] |}.
  split; [unfold rht_hits; cbn [x_delay]; lia|]. vm_compute. repeat split; discriminate.
Qed.

(* No deadline on the exchange as a whole, whatever its value, is compatible with the property:
   the spec holds for every limit and every upstream exactly when there is none. *)
Lemma spec_iff_no_whole_deadline whole :
  (forall limit x, exchange_spec limit x (exchange_with whole limit x)) <-> whole = None.
Proof.
  split.
  - intros H. destruct whole as [d|]; [exfalso|reflexivity].
    pose (x := {| x_upload := 0; x_delay := 0; x_status := 200; x_chunks := [(Z.max d 0, [1%N])] |}).
    destruct (H 0 x) as (_ & S).
    assert (N : ~ rht_hits 0 (x_delay x)) by (unfold rht_hits; lia).
    destruct (S N) as (Hs & _ & _ & Hc & _). clear S H N.
    unfold exchange_with, x in Hs, Hc. cbn [x_upload x_delay x_status x_chunks] in Hs, Hc.
    destruct (d <=? 0) eqn:D0.
    + cbn [a_status error_status] in Hs. discriminate.
    + apply Z.leb_gt in D0.
      replace (rht_expires 0 0) with false in Hc by reflexivity. cbn [andb] in Hc.
      replace (d <=? 0 + 0) with false in Hc by (symmetry; apply Z.leb_gt; lia).
      cbn [deliver past] in Hc.
      replace (d <=? 0 + 0 + Z.max d 0) with true in Hc by (symmetry; apply Z.leb_le; lia).
      cbn [a_complete] in Hc. discriminate.
  - intros ->. exact exchange_meets_spec.
Qed.

(* composed with main()'s start-up and the proxy's transport choice: for every configuration, table,
   target and exchange, the client of the chosen transport is answered as the spec of the
   CONFIGURED response-header timeout says *)
Lemma end_to_end_exchange s0 cfg tgs i tg x :
  nth_error tgs i = Some tg ->
  exists t, chosen (main_start set_config s0 cfg tgs) i = Some t /\
    exchange_spec (l_rht cfg) x (exchange_of_proxy (t_rht t) x).
Proof.
  intros Hn. destruct (end_to_end s0 cfg tgs i tg 0 0 0 Hn) as (t & Hc & (Hr & _) & _).
  exists t. split; [exact Hc|]. rewrite Hr. apply exchange_meets_spec.
Qed.

(* ---- the dial timeout in time: unreachable upstreams ---- *)

(* spec side, independent of [dial_at]: under a configured dial limit an upstream whose connect does
   not complete within the limit - it takes longer, or it never completes - is answered 504 within
   the limit (at once when the limit is negative: a deadline in the past); an upstream that connects
   in time is served with its own status at its own time *)
Definition dial_late (limit : Z) (c : reach) : Prop :=
  limit < 0 \/ (0 < limit /\ match c with Connects t => limit <= t | Unreachable => True end).
Definition dial_time_spec (limit : Z) (c : reach) (st : Z) (r : option (Z * Z)) : Prop :=
  (dial_late limit c -> exists t, r = Some (504, t) /\ 0 <= t <= Z.max 0 limit) /\
  (forall t, c = Connects t -> ~ dial_late limit c -> r = Some (st, t)).

Lemma dial_at_meets_spec limit c st : dial_time_spec limit c st (dial_at dial_attempts_of_proxy limit c st).
Proof.
  unfold dial_time_spec, dial_late, dial_at, dial_attempts_of_proxy, dial_expires. cbn [error_status].
  destruct c as [t|]; split.
  - intros H. destruct (limit <? 0) eqn:N; cbn [orb].
    + apply Z.ltb_lt in N. exists 0. split; [reflexivity | lia].
    + apply Z.ltb_ge in N. destruct H as [H | (H1 & H2)]; [lia|].
      replace (0 <? limit) with true by (symmetry; apply Z.ltb_lt; lia).
      replace (limit <=? t) with true by (symmetry; apply Z.leb_le; lia). cbn [andb].
      exists (Z.max 1 1 * limit). split; [reflexivity | lia].
  - intros t' E H. injection E as <-.
    destruct (limit <? 0) eqn:N; [apply Z.ltb_lt in N; lia|]. apply Z.ltb_ge in N. cbn [orb].
    destruct (0 <? limit) eqn:P; [|reflexivity]. apply Z.ltb_lt in P. cbn [andb].
    destruct (limit <=? t) eqn:L; [apply Z.leb_le in L; lia | reflexivity].
  - intros H. destruct (limit =? 0) eqn:Z0; [apply Z.eqb_eq in Z0; lia|]. apply Z.eqb_neq in Z0.
    destruct (limit <? 0) eqn:N.
    + apply Z.ltb_lt in N. exists 0. split; [reflexivity | lia].
    + apply Z.ltb_ge in N. exists (Z.max 1 1 * limit). split; [reflexivity | lia].
  - intros t' E. discriminate.
Qed.

(* the status is that of [dial] whenever the upstream can be reached at all *)
Lemma dial_at_status_is_dial k limit t st : option_map fst (dial_at k limit (Connects t) st) = Some (dial limit t st).
Proof. unfold dial_at, dial. destruct (dial_expires limit t); reflexivity. Qed.

(* a connect that runs into a positive limit: answered within the limit exactly when it is tried once *)
Lemma dial_within_limit_iff_single_attempt k limit c st :
  0 < limit -> dial_late limit c -> 1 <= k ->
  exists t, dial_at k limit c st = Some (504, t) /\ (t <= limit <-> k = 1).
Proof.
  intros Hp Hl Hk. exists (k * limit). unfold dial_at, dial_expires, dial_late in *. cbn [error_status].
  replace (limit <? 0) with false by (symmetry; apply Z.ltb_ge; lia). cbn [orb].
  replace (Z.max 1 k) with k by lia.
  split; [|nia].
  destruct c as [t|].
  - destruct Hl as [Hl | (_ & Hl)]; [lia|].
    replace (0 <? limit) with true by (symmetry; apply Z.ltb_lt; lia).
    replace (limit <=? t) with true by (symmetry; apply Z.leb_le; lia). reflexivity.
  - replace (limit =? 0) with false by (symmetry; apply Z.eqb_neq; lia). reflexivity.
Qed.

(* about a HYPOTHETICAL dialer that connects a second time after a failed connect: the client of an
   unreachable upstream is held for twice the configured dial timeout *)
Lemma dial_second_attempt_refuted :
  exists limit st, dial_late limit Unreachable /\ dial_at 2 limit Unreachable st = Some (504, 2 * limit) /\
    ~ dial_time_spec limit Unreachable st (dial_at 2 limit Unreachable st).
Proof.
  exists 2000, 200. split; [right; split; [lia | exact I]|]. split; [reflexivity|].
  intros (H & _). destruct H as (t & E & Ht); [right; split; [lia | exact I]|].
  cbn in E. injection E as <-. lia.
Qed.

(* ... and no number of attempts other than one would do *)
Lemma dial_spec_iff_single_attempt k : 1 <= k ->
  ((forall limit c st, dial_time_spec limit c st (dial_at k limit c st)) <-> k = 1).
Proof.
  intros Hk. split.
  - intros H. destruct (H 1 Unreachable 0) as (H1 & _).
    destruct H1 as (t & E & Ht); [right; split; [lia | exact I]|].
    unfold dial_at in E. cbn [Z.eqb Z.ltb Z.compare error_status] in E. injection E as <-. lia.
  - intros ->. exact dial_at_meets_spec.
Qed.

(* composed with main()'s start-up and the proxy's transport choice: for every configuration, table,
   target and upstream - reachable after any time, or unreachable - the client of the chosen
   transport is answered as the spec of the CONFIGURED dial timeout says *)
Lemma end_to_end_dial_at s0 cfg tgs i tg c st :
  nth_error tgs i = Some tg ->
  exists t, chosen (main_start set_config s0 cfg tgs) i = Some t /\
    dial_time_spec (l_dial cfg) c st (dial_at dial_attempts_of_proxy (t_dial t) c st).
Proof.
  intros Hn. destruct (end_to_end s0 cfg tgs i tg 0 0 0 Hn) as (t & Hc & (_ & _ & _ & Hd & _) & _).
  exists t. split; [exact Hc|]. rewrite Hd. apply dial_at_meets_spec.
Qed.

(* non-vacuity: an unreachable upstream under a limit of 2000 (504 at 2000), under a negative limit
   (504 at once), one that connects after 3 under the same limit (served), a slow connect, and the
   same unreachable upstream behind each kind of target after main()'s start-up *)
Example dial_at_nonvacuous :
  let cfg := {| l_rht := 300; l_idle := 15; l_maxconn := 100; l_dial := 2000; l_keepalive := 7 |} in
  let plain := {| tg_host := []; tg_dst_https := false; tg_proto := []; tg_skip := false |} in
  let skipv := {| tg_host := bs "dst"%string; tg_dst_https := true; tg_proto := []; tg_skip := true |} in
  let over := {| tg_host := bs "upstream.example"%string; tg_dst_https := true; tg_proto := []; tg_skip := true |} in
  let px := main_start set_config init_state cfg [plain; skipv; over] in
  dial_late 2000 Unreachable /\ dial_late (-1) Unreachable /\ ~ dial_late 2000 (Connects 3) /\ dial_late 2000 (Connects 2500) /\
  dial_at dial_attempts_of_proxy 2000 Unreachable 200 = Some (504, 2000) /\
  dial_at dial_attempts_of_proxy (-1) Unreachable 200 = Some (504, 0) /\
  dial_at dial_attempts_of_proxy 2000 (Connects 3) 200 = Some (200, 3) /\
  dial_at dial_attempts_of_proxy 2000 (Connects 2500) 200 = Some (504, 2000) /\
  dial_at dial_attempts_of_proxy 0 Unreachable 200 = None /\
  map (fun i => option_map (fun t => dial_at dial_attempts_of_proxy (t_dial t) Unreachable 200) (chosen px i)) [0%nat; 1%nat; 2%nat] =
    [Some (Some (504, 2000)); Some (Some (504, 2000)); Some (Some (504, 2000))].
Proof.
  cbv zeta. unfold dial_late. repeat split; try reflexivity; try lia.
Qed.
