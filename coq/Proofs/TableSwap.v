(** Proofs about Model/TableSwap.v (property C02).  Imported and used, never re-proved:
    C05 Proofs/TableCmd.v ([parse_lines_np], [apply_def_np], [bind_np]),
    C04 Proofs/WeighF.v ([binary64_never_panics]), Proofs/Ring.v ([ring_of_counts_spec],
    [ring_of_counts_scan_eq]), Proofs/Pick.v ([rr_pick_ok]),
    C01 Proofs/Watch.v ([watch_keeps_last_good], [watch_quiescent], [run_expected]). *)
From Coq Require Import String List NArith ZArith Bool Lia Permutation.
From Flocq Require Import IEEE754.BinarySingleNaN IEEE754.Binary IEEE754.Bits.
From Fabio Require Import Lib.Outcome Lib.Bytes Model.WtF64 Model.TableCmd Model.RouteText
     Model.Weigh Model.WeighF Model.Ring Model.Pick Model.TableSwap.
From Fabio Require Model.Lookup Model.Watch Model.ConsulSpec.
From Fabio Require Proofs.TableCmd Proofs.Ring Proofs.Pick Proofs.Watch Proofs.WeighF.
Import ListNotations.

(* ====================================================================================== *)
(** * (a) the atomic cell                                                                  *)
(* ====================================================================================== *)
Section CellProofs.
  Variable T : Type.
  Variable Q C R : Type.
  Variable look : T -> Q -> C -> R.
  Notation action := (action T Q C).
  Notation run_cell := (run_cell T Q C R look).
  Notation exec_cell := (exec_cell T Q C R look).
  Notation cell_step := (cell_step T Q C R look).
  Notation current := (current T Q C).
  Notation no_load := (no_load T Q C).
  Notation count_lookups := (count_lookups T Q C).
  Notation installed := (installed T Q C).
  Notation locals := (locals T).

  Theorem set_nil_ignored (cell : T) : set_table T cell None = cell.
  Proof. reflexivity. Qed.

  Lemma run_cell_app p : forall cell (l : locals) s,
    run_cell cell l (p ++ s)
    = run_cell cell l p ++ run_cell (fst (exec_cell cell l p)) (snd (exec_cell cell l p)) s.
  Proof.
    induction p as [|a p IH]; intros cell l s; [reflexivity|].
    cbn [app TableSwap.run_cell TableSwap.exec_cell].
    destruct (cell_step cell l a) as [[cell' l'] o]. rewrite IH. destruct o; reflexivity.
  Qed.

  Lemma exec_cell_app p : forall cell (l : locals) s,
    exec_cell cell l (p ++ s) = exec_cell (fst (exec_cell cell l p)) (snd (exec_cell cell l p)) s.
  Proof.
    induction p as [|a p IH]; intros cell l s; [reflexivity|].
    cbn [app TableSwap.exec_cell]. destruct (cell_step cell l a) as [[cell' l'] o]. apply IH.
  Qed.

  (* the cell holds the last non-nil table stored *)
  Lemma exec_cell_current p : forall cell (l : locals), fst (exec_cell cell l p) = current cell p.
  Proof.
    induction p as [|a p IH]; intros cell l; [reflexivity|].
    cbn [TableSwap.exec_cell TableSwap.current]. destruct a as [[t|]|r|r q c|r k]; cbn [TableSwap.cell_step set_table]; apply IH.
  Qed.

  Lemma exec_cell_no_load r p : forall cell (l : locals), no_load r p = true ->
    snd (exec_cell cell l p) r = l r.
  Proof.
    unfold TableSwap.no_load. induction p as [|a p IH]; intros cell l H; [reflexivity|].
    cbn [existsb] in H. apply negb_true_iff, orb_false_iff in H. destruct H as [Ha Hp].
    cbn [TableSwap.exec_cell]. destruct a as [o|r'|r' q c|r' k]; cbn [TableSwap.cell_step].
    - apply IH. now rewrite Hp.
    - rewrite IH by now rewrite Hp. unfold set_local. cbn [is_load_of] in Ha.
      rewrite Nat.eqb_sym in Ha. now rewrite Ha.
    - apply IH. now rewrite Hp.
    - apply IH. now rewrite Hp.
  Qed.

  Lemma length_run_cell p : forall cell (l : locals), length (run_cell cell l p) = count_lookups p.
  Proof.
    unfold TableSwap.count_lookups.
    induction p as [|a p IH]; intros cell l; [reflexivity|].
    cbn [TableSwap.run_cell filter]. destruct a as [o|r|r q c|r k]; cbn [TableSwap.cell_step is_lookup]; cbn [length]; now rewrite IH.
  Qed.

  (* the local table of reader r after  p1 ; Load r ; p2  (no further load of r in p2) *)
  Lemma exec_cell_snapshot t0 (l : locals) p1 p2 r : no_load r p2 = true ->
    snd (exec_cell t0 l (p1 ++ ALoad r :: p2)) r = Some (current t0 p1).
  Proof.
    intros Hn. rewrite exec_cell_app. cbn [TableSwap.exec_cell TableSwap.cell_step].
    rewrite exec_cell_no_load by exact Hn. unfold set_local. rewrite Nat.eqb_refl.
    now rewrite exec_cell_current.
  Qed.

  (** lookup_single_snapshot: take ANY schedule of any number of writers (SetTable, nil
      included) and readers, and ANY lookup in it.  Split the schedule at that lookup and at the
      last GetTable of its reader before it.  The lookup's result is [look] of exactly the table
      that was in the cell at that GetTable - one complete table, whatever was stored in
      between - and it is the [count_lookups]-th result the schedule produces. *)
  Theorem lookup_single_snapshot t0 p1 p2 r q c rest :
    no_load r p2 = true ->
    nth_error (run_cell t0 (no_locals T) (p1 ++ ALoad r :: p2 ++ ALookup r q c :: rest))
              (count_lookups (p1 ++ ALoad r :: p2))
    = Some (r, q, c, Some (look (current t0 p1) q c)).
  Proof.
    intros Hn.
    replace (p1 ++ ALoad r :: p2 ++ ALookup r q c :: rest)
      with ((p1 ++ ALoad r :: p2) ++ ALookup r q c :: rest) by (rewrite <- app_assoc; reflexivity).
    rewrite run_cell_app. rewrite nth_error_app2 by (rewrite length_run_cell; lia).
    rewrite length_run_cell, Nat.sub_diag.
    cbn [TableSwap.run_cell TableSwap.cell_step nth_error].
    now rewrite (exec_cell_snapshot t0 (no_locals T) p1 p2 r Hn).
  Qed.

  (* a lookup of a reader that never called GetTable has no table to look at *)
  Theorem lookup_without_load t0 p r q c rest :
    no_load r p = true ->
    nth_error (run_cell t0 (no_locals T) (p ++ ALookup r q c :: rest)) (count_lookups p)
    = Some (r, q, c, None).
  Proof.
    intros Hn. rewrite run_cell_app. rewrite nth_error_app2 by (rewrite length_run_cell; lia).
    rewrite length_run_cell, Nat.sub_diag. cbn [TableSwap.run_cell TableSwap.cell_step nth_error].
    now rewrite (exec_cell_no_load r p t0 (no_locals T) Hn).
  Qed.

  (* the two theorems above cover every lookup of every schedule *)
  Theorem schedule_decompose r (p : list action) :
    no_load r p = true \/ exists p1 p2, p = p1 ++ ALoad r :: p2 /\ no_load r p2 = true.
  Proof.
    induction p as [|a p IH]; [now left|].
    destruct IH as [Hn|(p1 & p2 & -> & Hn)].
    - destruct (is_load_of T Q C r a) eqn:Ea.
      + right. destruct a as [o|r'|r' q c|r' k]; try discriminate. cbn [is_load_of] in Ea.
        apply Nat.eqb_eq in Ea. subst r'. exists [], p. now split.
      + left. unfold TableSwap.no_load in *. cbn [existsb]. now rewrite Ea.
    - right. exists (a :: p1), p2. now split.
  Qed.

  (* the table a reader sees is one of the complete tables somebody installed *)
  Theorem current_installed t0 p : installed t0 p (current t0 p).
  Proof.
    unfold TableSwap.installed. revert t0. induction p as [|a p IH]; intros t0; [now left|].
    cbn [TableSwap.current]. destruct a as [[t|]|r|r q c|r k].
    - destruct (IH t) as [H|H]; right; [left; now rewrite H | now right].
    - destruct (IH t0) as [H|H]; [now left | right; now right].
    - destruct (IH t0) as [H|H]; [now left | right; now right].
    - destruct (IH t0) as [H|H]; [now left | right; now right].
    - destruct (IH t0) as [H|H]; [now left | right; now right].
  Qed.

  (* SetTable(nil) anywhere in a schedule changes no table anybody sees *)
  Theorem nil_store_invisible t0 p s : current t0 (p ++ ASet None :: s) = current t0 (p ++ s).
  Proof.
    revert t0. induction p as [|a p IH]; intros t0; [reflexivity|].
    cbn [app TableSwap.current]. destruct a as [[t|]|r|r q c|r k]; apply IH.
  Qed.

  (** readers_do_not_change_table: the other users of route.GetTable() (admin API, Table.String /
      Dump, logRoutes, the gRPC pool's scan, ...) only read.  Put any number of them anywhere in any
      schedule: every lookup result, the table in the cell and every reader's snapshot are what they
      are in the schedule without them. *)
  Theorem readers_do_not_change_table s : forall cell (l : locals),
    run_cell cell l s = run_cell cell l (without_reads T Q C s)
    /\ exec_cell cell l s = exec_cell cell l (without_reads T Q C s).
  Proof.
    unfold TableSwap.without_reads.
    induction s as [|a s IH]; intros cell l; [now split|].
    destruct a as [o|r|r q c|r k]; cbn [filter is_read negb TableSwap.run_cell TableSwap.exec_cell TableSwap.cell_step].
    - apply IH.
    - apply IH.
    - destruct (IH cell l) as [H1 H2]. now rewrite H1, H2.
    - apply IH.
  Qed.
  Theorem readers_do_not_change_current t0 s : current t0 s = current t0 (without_reads T Q C s).
  Proof.
    unfold TableSwap.without_reads. revert t0.
    induction s as [|a s IH]; intros t0; [reflexivity|].
    destruct a as [[t|]|r|r q c|r k]; cbn [filter is_read negb TableSwap.current]; apply IH.
  Qed.
  (* ---- writers as sources: which table a lookup can see ---- *)
  Lemma in_sets_of o (s : list action) : In (ASet o) s -> In o (sets_of T Q C s).
  Proof.
    unfold TableSwap.sets_of. intros H. apply in_flat_map. exists (ASet o). split; [exact H|now left].
  Qed.

  (** lookup_from_emitted: let the SetTable calls of a schedule be exactly the sequence [em] some
      writer emits (the update loop for a history, the custom backend for its polls), interleaved in
      any way with any readers.  Every lookup is answered by the start table or by ONE table of [em]. *)
  Theorem lookup_from_emitted t0 em p1 p2 r q c rest :
    sets_of T Q C (p1 ++ ALoad r :: p2 ++ ALookup r q c :: rest) = em ->
    no_load r p2 = true ->
    exists Tb, (Tb = t0 \/ In (Some Tb) em)
      /\ nth_error (run_cell t0 (no_locals T) (p1 ++ ALoad r :: p2 ++ ALookup r q c :: rest))
                   (count_lookups (p1 ++ ALoad r :: p2))
         = Some (r, q, c, Some (look Tb q c)).
  Proof.
    intros Hem Hn. exists (current t0 p1). split; [|now apply lookup_single_snapshot].
    destruct (current_installed t0 p1) as [H|H]; [now left|right].
    rewrite <- Hem. apply in_sets_of. apply in_or_app. now left.
  Qed.

  Lemma current_after_set t0 pa Tn pb : no_set_some T Q C pb = true ->
    current t0 (pa ++ ASet (Some Tn) :: pb) = Tn.
  Proof.
    intros Hpb. revert t0. induction pa as [|a pa IH]; intros t0.
    - cbn [app TableSwap.current]. clear t0. revert Hpb. generalize Tn as t.
      induction pb as [|b pb IHb]; intros t Hpb; [reflexivity|].
      unfold TableSwap.no_set_some, TableSwap.sets_of in Hpb. cbn [flat_map] in Hpb.
      destruct b as [[tb|]|r|r q c|r k]; cbn [app forallb] in Hpb; try discriminate;
        cbn [TableSwap.current]; apply IHb; exact Hpb.
    - cbn [app TableSwap.current]. destruct a as [[t|]|r|r q c|r k]; apply IH.
  Qed.

  (** previous or new, literally: take any SetTable(Tn) of any schedule and look at the lookups up
      to the next successful SetTable.  A lookup whose reader called GetTable AFTER it is answered by Tn
      (this theorem); one whose reader called GetTable BEFORE it is answered by the table of that
      earlier moment ([lookup_single_snapshot] with the prefix), which was installed before Tn. *)
  Theorem lookup_sees_new_after_set t0 pa Tn pb1 pb2 r q c rest :
    no_set_some T Q C pb1 = true -> no_load r pb2 = true ->
    nth_error (run_cell t0 (no_locals T) ((pa ++ ASet (Some Tn) :: pb1) ++ ALoad r :: pb2 ++ ALookup r q c :: rest))
              (count_lookups ((pa ++ ASet (Some Tn) :: pb1) ++ ALoad r :: pb2))
    = Some (r, q, c, Some (look Tn q c)).
  Proof.
    intros Hs Hn. rewrite (lookup_single_snapshot t0 _ pb2 r q c rest Hn).
    now rewrite (current_after_set t0 pa Tn pb1 Hs).
  Qed.
End CellProofs.

(* non-vacuity: two readers, a writer alternating two tables and storing nil in between *)
Example cell_nonvacuous :
  let look := fun (t : N) (q : N) (_ : unit) => (t * 10 + q)%N in
  run_cell N N unit N look 1%N (no_locals N)
    [ALoad 0; ASet (Some 2%N); ARead 7 0%N; ALookup 0 5%N tt; ALoad 1; ASet None; ASet (Some 3%N); ALookup 1 6%N tt;
     ARead 0 3%N; ALookup 0 7%N tt; ALoad 0; ALookup 0 8%N tt]
  = [(0, 5%N, tt, Some 15%N); (1, 6%N, tt, Some 26%N); (0, 7%N, tt, Some 17%N); (0, 8%N, tt, Some 38%N)].
Proof. vm_compute. reflexivity. Qed.

(* ====================================================================================== *)
(** * (c) the composed build never crashes outside the finding regions                       *)
(* ====================================================================================== *)
Definition perm_order (order : list (nat * Z) -> list (nat * Z)) : Prop :=
  forall s, Permutation (order s) s.

Lemma zsum_counts_is cs : zsum_counts cs = Proofs.Ring.zsum cs.
Proof. reflexivity. Qed.

(** the one size assumption: a route has at most 3*10^9 targets (C04's bound: 10^4 slots per target
    must stay below what make accepts) *)
Definition size_ok (fixed : list f64) : Prop := (Z.of_nat (length fixed) <= 3000000000)%Z.

(** weighTargets on ANY FixedWeight vector of any bit pattern (C04_binary64_never_panics): no panic,
    no endless probe loop, and a non-empty ring unless the route has no target *)
Lemma ring_faithful_ok order fixed : perm_order order -> size_ok fixed ->
  exists r, ring_faithful order fixed = Ok r /\ (fixed <> [] -> r <> []).
Proof.
  intros Hord Hsz. unfold ring_faithful. destruct fixed as [|x fixed].
  - exists []. split; [reflexivity|congruence].
  - destruct (Proofs.WeighF.binary64_never_panics (x :: fixed) order) as (r & Hr & _ & Hne & _).
    { cbn [length]. lia. } { exact Hsz. } { exact Hord. }
    rewrite Hr. exists r. split; [reflexivity|intros _; exact Hne].
Qed.

(* whatever the weights: weighTargets' model answers a ring or Panic, never an error value *)
Lemma ring_faithful_no_err order fixed k : ring_faithful order fixed <> Err k.
Proof. unfold ring_faithful. destruct (route_ring arithF order fixed) as [[? ?]| |]; discriminate. Qed.

(** the evaluation shortcut of the correspondence check builds a ring of the same length *)
Definition olen (o : outcome ring) : outcome nat :=
  match o with Ok r => Ok (length r) | Err k => Err k | Panic => Panic end.

Theorem ring_fast_length order fixed : perm_order order ->
  olen (ring_fast order fixed) = olen (ring_faithful order fixed).
Proof.
  intros Hord. unfold ring_fast, ring_faithful, route_ring.
  destruct (uses_fill arithF fixed) eqn:E0; [|reflexivity].
  assert (Hw : weigh arithF fixed = weigh_unrepaired arithF fixed) by (unfold weigh; now rewrite E0).
  rewrite Hw. set (cs := map (slot_count arithF) (weigh_unrepaired arithF fixed)).
  destruct (forallb (fun n => 0 <=? n)%Z cs && (zsum_counts cs <=? 2 ^ 45)%Z) eqn:Efast.
  - apply andb_true_iff in Efast. destruct Efast as [Hfa Hle].
    assert (Hall : Forall (fun n => 0 <= n)%Z cs).
    { apply Forall_forall. intros n Hn. rewrite forallb_forall in Hfa. specialize (Hfa n Hn). lia. }
    destruct (Proofs.Ring.ring_of_counts_spec cs (order (indexed cs)) Hall) as (r & Hr & Hlen & _).
    { rewrite <- zsum_counts_is. lia. }
    { apply Hord. }
    rewrite Hr. cbn [bind olen]. rewrite repeat_length. f_equal.
    rewrite <- zsum_counts_is in Hlen. lia.
  - rewrite Proofs.Ring.ring_of_counts_scan_eq.
    destruct (ring_of_counts (order (indexed cs)) cs); reflexivity.
Qed.

(** a pick crashes exactly on an empty ring of a route with several targets; what is IN the ring
    never matters for that *)
Lemma pick_route_panic_iff (br : broute) total :
  pick_route br total = Panic <-> (2 <= length (r_targets (fst br)) /\ snd br = []).
Proof.
  unfold pick_route, lookup_rr. destruct (length (r_targets (fst br))) as [|[|n]] eqn:En.
  - cbn [bind]. split; [discriminate|lia].
  - cbn [bind]. split; [discriminate|lia].
  - destruct (snd br) as [|x g] eqn:Eg.
    + cbn. split; [intros _; split; [lia|reflexivity] | reflexivity].
    + rewrite Proofs.Pick.rr_pick_ok by discriminate. cbn [bind]. split; [discriminate|intros [_ H]; discriminate].
Qed.

(* ---- the scanner limit ---- *)
Lemma scan_parse_short pweight text : has_long_line text = false -> scan_parse pweight text = parse pweight text.
Proof. unfold scan_parse, has_long_line. now intros ->. Qed.

Lemma scan_parse_np pweight text : scan_parse pweight text <> Panic.
Proof.
  unfold scan_parse. destruct (existsb too_long (split_byte text 10)).
  - apply Proofs.TableCmd.bind_np; [apply Proofs.TableCmd.parse_lines_np|discriminate].
  - apply Proofs.TableCmd.parse_lines_np.
Qed.

(* a text with a line the scanner cannot hold never yields definitions: an error, always *)
Lemma scan_parse_long pweight text : has_long_line text = true -> exists k, scan_parse pweight text = Err k.
Proof.
  unfold scan_parse, has_long_line. intros ->.
  pose proof (Proofs.TableCmd.parse_lines_np pweight (short_prefix (split_byte text 10))) as Hnp.
  destruct (parse_lines pweight (short_prefix (split_byte text 10))) as [ds|k|]; cbn [bind];
    [now exists e_line_too_long|now exists k|congruence].
Qed.

Section BuildProofs.
  Variable pweight : str -> outcome wt.
  Variable canon : str -> option str.
  Variable glob_ok : str -> bool.
  Variable order : list (nat * Z) -> list (nat * Z).
  Hypothesis Hord : perm_order order.
  Notation rb := (ring_faithful order).
  Notation build_step := (build_step canon glob_ok rb).
  Notation build_from := (build_from canon glob_ok rb).
  Notation build_defs := (build_defs canon glob_ok rb).
  Notation full_build := (full_build pweight canon glob_ok rb).
  Notation custom_from := (custom_from canon glob_ok rb).
  Notation custom_build := (custom_build canon glob_ok rb).
  Notation reached := (reached canon glob_ok).
  Notation weigh_all := (weigh_all rb).
  Notation ring_routes := (ring_routes rb).
  Notation ring_table := (ring_table rb).

  Definition route_ok (r : route) : Prop := size_ok (fixed_of r).

  Lemma weigh_all_ok rs : Forall route_ok rs -> weigh_all rs = Ok tt.
  Proof.
    induction 1 as [|r rs Hr _ IH]; [reflexivity|]. cbn [TableSwap.weigh_all].
    destruct (ring_faithful_ok order _ Hord Hr) as (g & -> & _). cbn [bind]. exact IH.
  Qed.

  Lemma weigh_all_no_err rs k : weigh_all rs <> Err k.
  Proof.
    induction rs as [|r rs IH]; [discriminate|]. cbn [TableSwap.weigh_all].
    destruct (ring_faithful order (fixed_of r)) eqn:E; cbn [bind]; [exact IH| |discriminate].
    exfalso. eapply ring_faithful_no_err; eauto.
  Qed.

  (* the command layer under the weigh runs is C05's, step for step *)
  Lemma build_step_ok t d t' : build_step t d = Ok t' -> apply_def canon glob_ok t d = Ok t'.
  Proof.
    unfold TableSwap.build_step. destruct (apply_def canon glob_ok t d) as [t1| |]; cbn [bind]; try discriminate.
    destruct (weigh_all _) as [[]| |]; cbn [bind]; try discriminate. congruence.
  Qed.
  Lemma build_step_err t d k : build_step t d = Err k -> apply_def canon glob_ok t d = Err k.
  Proof.
    unfold TableSwap.build_step. destruct (apply_def canon glob_ok t d) as [t1| |]; cbn [bind]; try discriminate; [|congruence].
    destruct (weigh_all (touched d t1)) as [[]| |] eqn:E; cbn [bind]; try discriminate.
    intros H; inversion H; subst. exfalso. eapply weigh_all_no_err; eauto.
  Qed.

  Lemma build_from_ok ds : forall t t', build_from t ds = Ok t' -> run_from canon glob_ok t ds = Ok t'.
  Proof.
    induction ds as [|d ds IH]; intros t t'; cbn [TableSwap.build_from run_from]; [auto|].
    destruct (build_step t d) as [t1| |] eqn:E; cbn [bind]; try discriminate.
    rewrite (build_step_ok _ _ _ E). cbn [bind]. apply IH.
  Qed.
  Lemma build_from_err ds : forall t k, build_from t ds = Err k -> run_from canon glob_ok t ds = Err k.
  Proof.
    induction ds as [|d ds IH]; intros t k; cbn [TableSwap.build_from run_from]; [discriminate|].
    destruct (build_step t d) as [t1|k1|] eqn:E; cbn [bind]; try discriminate.
    - rewrite (build_step_ok _ _ _ E). cbn [bind]. apply IH.
    - rewrite (build_step_err _ _ _ E). cbn [bind]. auto.
  Qed.

  Lemma ring_routes_forget rs l : ring_routes rs = Ok l -> map fst l = rs.
  Proof.
    revert l. induction rs as [|r rs IH]; intros l; cbn [TableSwap.ring_routes]; [intros H; now inversion H|].
    destruct (rb (fixed_of r)) as [g| |]; cbn [bind]; try discriminate.
    destruct (ring_routes rs) as [l1| |]; cbn [bind]; try discriminate.
    intros H; inversion H. cbn [map fst]. f_equal. now apply IH.
  Qed.
  Lemma ring_table_forget t : forall bt, ring_table t = Ok bt -> forget bt = t.
  Proof.
    induction t as [|[h rs] t IH]; intros bt; cbn [TableSwap.ring_table]; [intros H; now inversion H|].
    destruct (ring_routes rs) as [l| |] eqn:El; cbn [bind]; try discriminate.
    destruct (ring_table t) as [bt1| |]; cbn [bind]; try discriminate.
    intros H; inversion H. unfold forget. cbn [map fst snd]. f_equal.
    - f_equal. now apply ring_routes_forget.
    - now apply IH.
  Qed.
  Lemma ring_routes_no_err rs k : ring_routes rs <> Err k.
  Proof.
    induction rs as [|r rs IH]; cbn [TableSwap.ring_routes]; [discriminate|].
    destruct (rb (fixed_of r)) as [g|k1|] eqn:E; cbn [bind]; [|exfalso; eapply ring_faithful_no_err; eauto|discriminate].
    destruct (ring_routes rs) as [l|k1|]; cbn [bind]; try discriminate. intros H; inversion H; subst. now apply IH.
  Qed.
  Lemma ring_table_no_err t k : ring_table t <> Err k.
  Proof.
    induction t as [|[h rs] t IH]; cbn [TableSwap.ring_table]; [discriminate|].
    destruct (ring_routes rs) as [l|k1|] eqn:E; cbn [bind]; [|exfalso; eapply ring_routes_no_err; eauto|discriminate].
    destruct (ring_table t) as [bt|k1|]; cbn [bind]; try discriminate. intros H; inversion H; subst. now apply IH.
  Qed.

  (** the composition is conservative over C05's NewTable on C05's domain (every line fits the
      scanner): whenever the composed build does not crash it returns C05's table (with rings
      attached) or C05's error.  So every C05 theorem about [new_table] holds for the tables this
      build installs. *)
  Theorem full_build_refines text : has_long_line text = false ->
    match full_build text with
    | Ok bt => new_table pweight canon glob_ok text = Ok (forget bt)
    | Err k => new_table pweight canon glob_ok text = Err k
    | Panic => True
    end.
  Proof.
    intros Hs. unfold TableSwap.full_build. rewrite (scan_parse_short pweight text Hs).
    unfold new_table, TableSwap.build_defs, run.
    destruct (parse pweight text) as [ds|k|]; cbn [bind]; [|reflexivity|exact I].
    destruct (build_from [] ds) as [t|k|] eqn:E; cbn [bind]; [| |exact I].
    - rewrite (build_from_ok _ _ _ E). cbn [bind].
      destruct (ring_table (sort_table t)) as [bt|k|] eqn:Er; [| |exact I].
      + now rewrite (ring_table_forget _ _ Er).
      + exfalso. eapply ring_table_no_err; eauto.
    - now rewrite (build_from_err _ _ _ E).
  Qed.

  (** long_line_rejected: a text with a line of 65536 bytes or more is never turned into a table -
      not a shorter one either: NewTable returns an error (so the update loop keeps the last good one) *)
  Theorem long_line_rejected text : has_long_line text = true -> exists k, full_build text = Err k.
  Proof.
    intros Hl. unfold TableSwap.full_build. destruct (scan_parse_long pweight text Hl) as (k & ->).
    now exists k.
  Qed.

  (* ---- no panic while building ---- *)
  Lemma build_step_np t d : Forall route_ok (match apply_def canon glob_ok t d with Ok t' => touched d t' | _ => [] end) ->
    build_step t d <> Panic.
  Proof.
    intros H. unfold TableSwap.build_step.
    pose proof (Proofs.TableCmd.apply_def_np canon glob_ok t d) as Hnp.
    destruct (apply_def canon glob_ok t d) as [t'| |]; cbn [bind]; [|discriminate|congruence].
    rewrite (weigh_all_ok _ H). discriminate.
  Qed.

  Lemma build_from_np ds : forall t, Forall route_ok (reached t ds) -> build_from t ds <> Panic.
  Proof.
    induction ds as [|d ds IH]; intros t H; cbn [TableSwap.build_from]; [discriminate|].
    cbn [TableSwap.reached] in H.
    assert (Hs : build_step t d <> Panic).
    { apply build_step_np. destruct (apply_def canon glob_ok t d); [|constructor|constructor].
      apply Forall_app in H. tauto. }
    destruct (build_step t d) as [t'| |] eqn:E; cbn [bind]; [|discriminate|congruence].
    apply IH. rewrite (build_step_ok _ _ _ E) in H. apply Forall_app in H. tauto.
  Qed.

  Lemma build_from_reached ds : forall t t', build_from t ds = Ok t' ->
    forall r, In r (flat_map snd t') -> In r (reached t ds).
  Proof.
    induction ds as [|d ds IH]; intros t t'; cbn [TableSwap.build_from TableSwap.reached].
    - intros H; inversion H; auto.
    - destruct (build_step t d) as [t1| |] eqn:E; cbn [bind]; try discriminate.
      rewrite (build_step_ok _ _ _ E). intros H r Hr. apply in_or_app. right. eapply IH; eauto.
  Qed.

  Lemma in_insert_desc x r rs : In x (insert_desc r rs) -> x = r \/ In x rs.
  Proof.
    induction rs as [|y rs IH]; cbn [insert_desc]; [intros [H|[]]; auto|].
    destruct (str_ltb _ _); cbn [In]; intros H; [destruct H as [H|[H|H]]; auto|].
    destruct H as [H|H]; [auto|]. destruct (IH H); auto.
  Qed.
  Lemma in_sort_routes x rs : In x (sort_routes rs) -> In x rs.
  Proof.
    unfold sort_routes. induction rs as [|r rs IH]; cbn [fold_right]; [auto|].
    intros H. apply in_insert_desc in H. destruct H as [->|H]; [now left|right; auto].
  Qed.
  Lemma in_sort_table r t : In r (flat_map snd (sort_table t)) -> In r (flat_map snd t).
  Proof.
    unfold sort_table. induction t as [|[h rs] t IH]; cbn [map flat_map fst snd]; [auto|].
    intros H. apply in_app_or in H. apply in_or_app. destruct H as [H|H]; [left; now apply in_sort_routes|right; auto].
  Qed.

  (* the built table: every route outside the regions, rings non-empty *)
  Definition bt_good (bt : btable) : Prop :=
    forall h rs br, In (h, rs) bt -> In br rs -> (r_targets (fst br) <> [] -> snd br <> []).

  Lemma ring_routes_good rs : Forall route_ok rs ->
    exists l, ring_routes rs = Ok l /\ forall br, In br l -> (r_targets (fst br) <> [] -> snd br <> []).
  Proof.
    induction 1 as [|r rs Hr _ (l & Hl & Hg)]; [exists []; split; [reflexivity|intros ? []]|].
    cbn [TableSwap.ring_routes]. destruct (ring_faithful_ok order _ Hord Hr) as (g & -> & Hne).
    cbn [bind]. rewrite Hl. cbn [bind]. eexists. split; [reflexivity|].
    intros br [<-|Hin]; [|auto]. cbn [fst snd]. intros Ht. apply Hne. unfold fixed_of.
    destruct (r_targets r); [congruence|discriminate].
  Qed.
  Lemma ring_table_good t : Forall route_ok (flat_map snd t) ->
    exists bt, ring_table t = Ok bt /\ bt_good bt.
  Proof.
    induction t as [|[h rs] t IH]; intros H; [exists []; split; [reflexivity|intros ? ? ? []]|].
    cbn [flat_map snd] in H. apply Forall_app in H. destruct H as [H1 H2].
    cbn [TableSwap.ring_table]. destruct (ring_routes_good rs H1) as (l & -> & Hl).
    destruct (IH H2) as (bt & -> & Hbt). cbn [bind]. eexists. split; [reflexivity|].
    intros h' rs' br [Heq|Hin] Hbr; [inversion Heq; subst; auto|eapply Hbt; eauto].
  Qed.

  (** new_table_total_on_domain, build half: if every route state the command sequence goes through
      is outside the regions, the build returns a table or an error - for every text and whatever
      the libraries (ParseFloat, url.Parse, glob.Compile, the unstable sort) answer. *)
  Theorem build_defs_total ds : Forall route_ok (reached [] ds) ->
    build_defs ds <> Panic /\ forall bt, build_defs ds = Ok bt -> bt_good bt.
  Proof.
    intros H. unfold TableSwap.build_defs.
    pose proof (build_from_np ds [] H) as Hnp.
    destruct (build_from [] ds) as [t| |] eqn:E; cbn [bind]; [|split; [discriminate|intros ? ?; discriminate]|congruence].
    assert (Hfin : Forall route_ok (flat_map snd (sort_table t))).
    { apply Forall_forall. intros r Hr. rewrite Forall_forall in H. apply H.
      eapply build_from_reached; eauto. now apply in_sort_table. }
    destruct (ring_table_good _ Hfin) as (bt & Hbt & Hg). rewrite Hbt.
    split; [discriminate|]. intros bt' Heq. inversion Heq; subst. exact Hg.
  Qed.

  Theorem full_build_total text :
    (forall ds, scan_parse pweight text = Ok ds -> Forall route_ok (reached [] ds)) ->
    full_build text <> Panic /\ forall bt, full_build text = Ok bt -> bt_good bt.
  Proof.
    intros H. unfold TableSwap.full_build.
    pose proof (scan_parse_np pweight text) as Hp.
    destruct (scan_parse pweight text) as [ds| |]; cbn [bind]; [|split; [discriminate|intros ? ?; discriminate]|congruence].
    apply build_defs_total. now apply H.
  Qed.

  (* ---- every host key of a built table compiles as a glob (addRoute checks a new host since
          /repo c9fb527; no command creates a key otherwise) ---- *)
  Definition keys_ok (t : table) : Prop := Forall (fun k => glob_ok k = true) (map fst t).

  Lemma keys_ok_incl t t' : incl (map fst t') (map fst t) -> keys_ok t -> keys_ok t'.
  Proof. unfold keys_ok. intros Hi H. apply Forall_forall. intros k Hk. rewrite Forall_forall in H. auto. Qed.

  Lemma filter_all_fst skip t : map fst (filter_all skip t) = map fst t.
  Proof. unfold filter_all. rewrite map_map. reflexivity. Qed.

  Lemma sweep_fst_incl t : incl (map fst (sweep t)) (map fst t).
  Proof.
    unfold sweep. intros k Hk. apply in_map_iff in Hk. destruct Hk as ([k' rs] & <- & Hin).
    apply filter_In in Hin. destruct Hin as [Hin _]. apply in_map_iff in Hin.
    destruct Hin as ([k2 rs2] & Heq & Hin). inversion Heq; subst. cbn [fst].
    apply in_map_iff. exists (k', rs2). split; [reflexivity|exact Hin].
  Qed.

  Lemma add_route_keys t d t' : keys_ok t -> add_route canon glob_ok t d = Ok t' -> keys_ok t'.
  Proof.
    intros Hk. unfold add_route. destruct (hostpath (d_src d)) as [host0 path].
    destruct (d_src d); [discriminate|]. destruct (d_dst d); [discriminate|].
    destruct (canon _); [|discriminate].
    destruct (lookup (lower host0) t).
    - destruct (find path l); [|destruct (glob_ok path); [|discriminate]];
        intros H; inversion H; subst; unfold keys_ok; rewrite Proofs.TableCmd.upd_host_fst; exact Hk.
    - destruct (glob_ok (lower host0)) eqn:Eh; [|discriminate].
      destruct (glob_ok path); [|discriminate]. intros H; inversion H; subst.
      unfold keys_ok. rewrite map_app. apply Forall_app. split; [exact Hk|].
      cbn [map fst]. constructor; [exact Eh|constructor].
  Qed.

  Lemma del_route_keys t d t' : keys_ok t -> del_route canon t d = Ok t' -> keys_ok t'.
  Proof.
    intros Hk. unfold del_route.
    assert (Hall : forall skip, keys_ok (sweep (filter_all skip t))).
    { intros skip. eapply keys_ok_incl; [apply sweep_fst_incl|].
      unfold keys_ok. now rewrite filter_all_fst. }
    assert (Hone : forall h p skip, keys_ok (sweep (filter_one h p skip t))).
    { intros h p skip. eapply keys_ok_incl; [apply sweep_fst_incl|].
      unfold keys_ok, filter_one. now rewrite Proofs.TableCmd.upd_host_fst. }
    destruct (d_tags d); [|intros H; inversion H; apply Hall].
    destruct (d_src d), (d_dst d); try (intros H; inversion H; apply Hall).
    - destruct (canon _); [|discriminate]. destruct (hostpath _). cbn zeta.
      destruct (get_route _ _ _); intros H; inversion H; subst; [apply Hone|exact Hk].
    - destruct (hostpath _). cbn zeta.
      destruct (get_route _ _ _); intros H; inversion H; subst; [apply Hone|exact Hk].
    - destruct (canon _); [|discriminate]. destruct (hostpath _). cbn zeta.
      destruct (get_route _ _ _); intros H; inversion H; subst; [apply Hone|exact Hk].
  Qed.

  Lemma weigh_route_keys t d t' : keys_ok t -> weigh_route t d = Ok t' -> keys_ok t'.
  Proof.
    intros Hk. unfold weigh_route. destruct (hostpath _). cbn zeta. destruct (d_src d); [discriminate|].
    destruct (get_route _ _ _); [|discriminate]. destruct (_ =? 0)%N; [discriminate|].
    intros H; inversion H. unfold keys_ok. rewrite Proofs.TableCmd.upd_host_fst. exact Hk.
  Qed.

  Lemma apply_def_keys t d t' : keys_ok t -> apply_def canon glob_ok t d = Ok t' -> keys_ok t'.
  Proof.
    unfold apply_def. destruct (d_cmd d); eauto using add_route_keys, del_route_keys, weigh_route_keys.
  Qed.

  Lemma build_from_keys ds : forall t t', keys_ok t -> build_from t ds = Ok t' -> keys_ok t'.
  Proof.
    induction ds as [|d ds IH]; intros t t' Hk; cbn [TableSwap.build_from]; [intros H; inversion H; subst; exact Hk|].
    destruct (build_step t d) as [t1| |] eqn:E; cbn [bind]; try discriminate.
    apply IH. exact (apply_def_keys t d t1 Hk (build_step_ok t d t1 E)).
  Qed.

  Lemma sort_table_fst t : map fst (sort_table t) = map fst t.
  Proof. unfold sort_table. rewrite map_map. reflexivity. Qed.

  Lemma forget_fst bt : map fst (forget bt) = map fst bt.
  Proof. unfold forget. rewrite map_map. reflexivity. Qed.

  Definition bt_keys_ok (bt : btable) : Prop := Forall (fun k => glob_ok k = true) (map fst bt).

  (** build_keys_ok: whatever the text, every host key of the table NewTable returns is a valid glob *)
  Theorem build_keys_ok ds bt : build_defs ds = Ok bt -> bt_keys_ok bt.
  Proof.
    unfold TableSwap.build_defs. destruct (build_from [] ds) as [t| |] eqn:E; cbn [bind]; try discriminate.
    intros Hr. pose proof (ring_table_forget _ _ Hr) as Hf.
    assert (Hk : keys_ok t) by (apply (build_from_keys ds [] t); [apply Forall_nil|exact E]).
    unfold bt_keys_ok. rewrite <- forget_fst, Hf, sort_table_fst. exact Hk.
  Qed.
  Theorem full_build_keys_ok text bt : full_build text = Ok bt -> bt_keys_ok bt.
  Proof.
    unfold TableSwap.full_build. destruct (scan_parse pweight text); cbn [bind]; try discriminate. apply build_keys_ok.
  Qed.

  (* the custom backend's builder: same commands, plus the invalid-command error *)
  Fixpoint known_defs (ds : list (option def)) : list def :=
    match ds with Some d :: ds' => d :: known_defs ds' | _ => [] end.
  Lemma custom_from_np ds : forall t, Forall route_ok (reached t (known_defs ds)) -> custom_from t ds <> Panic.
  Proof.
    induction ds as [|[d|] ds IH]; intros t H; cbn [TableSwap.custom_from]; try discriminate.
    cbn [known_defs TableSwap.reached] in H.
    assert (Hs : build_step t d <> Panic).
    { apply build_step_np. destruct (apply_def canon glob_ok t d); [|constructor|constructor].
      apply Forall_app in H. tauto. }
    destruct (build_step t d) as [t'| |] eqn:E; cbn [bind]; [|discriminate|congruence].
    apply IH. rewrite (build_step_ok _ _ _ E) in H. apply Forall_app in H. tauto.
  Qed.

  Lemma custom_from_reached ds : forall t t', custom_from t ds = Ok t' ->
    forall r, In r (flat_map snd t') -> In r (reached t (known_defs ds)).
  Proof.
    induction ds as [|[d|] ds IH]; intros t t'; cbn [TableSwap.custom_from known_defs TableSwap.reached].
    - intros H; inversion H; auto.
    - destruct (build_step t d) as [t1| |] eqn:E; cbn [bind]; try discriminate.
      rewrite (build_step_ok _ _ _ E). intros H r Hr. apply in_or_app. right. eapply IH; eauto.
    - discriminate.
  Qed.

  Lemma custom_build_np ds : Forall route_ok (reached [] (known_defs ds)) -> custom_build ds <> Panic.
  Proof.
    intros H. unfold TableSwap.custom_build.
    pose proof (custom_from_np ds [] H) as Hnp.
    destruct (custom_from [] ds) as [t| |] eqn:E; cbn [bind]; [|discriminate|congruence].
    assert (Hfin : Forall route_ok (flat_map snd (sort_table t))).
    { apply Forall_forall. intros r Hr. rewrite Forall_forall in H. apply H.
      eapply custom_from_reached; eauto. now apply in_sort_table. }
    destruct (ring_table_good _ Hfin) as (bt & -> & _). discriminate.
  Qed.
End BuildProofs.

(* ====================================================================================== *)
(** * lookups on a built table                                                              *)
(* ====================================================================================== *)
Lemma bassoc_in bt h br : In br (bassoc bt h) -> exists k rs, In (k, rs) bt /\ In br rs.
Proof.
  induction bt as [|[k rs] bt IH]; cbn [bassoc]; [intros []|].
  destruct (beq k h); intros H.
  - exists k, rs. split; [now left|exact H].
  - destruct (IH H) as (k' & rs' & H1 & H2). exists k', rs'. split; [now right|exact H2].
Qed.

Section LookupProofs.
  Variable hostglob_ok : str -> bool.

  Lemma look_hosts_np bt hosts uri m total : bt_good bt -> look_hosts bt hosts uri m total <> Panic.
  Proof.
    intros Hg. induction hosts as [|h hs IH]; cbn [look_hosts]; [discriminate|].
    destruct (List.find _ (bassoc bt (lower h))) as [br|] eqn:Ef; [|exact IH].
    apply find_some in Ef. destruct Ef as [Hin _].
    destruct (bassoc_in _ _ _ Hin) as (k & rs & Hk & Hbr).
    destruct (pick_route br total) as [[i|]| |] eqn:Ep; cbn [bind]; try discriminate; [exact IH|].
    exfalso. apply pick_route_panic_iff in Ep. destruct Ep as [Hn He].
    apply (Hg k rs br Hk Hbr); [|exact He]. intros Ht. rewrite Ht in Hn. cbn in Hn. lia.
  Qed.

  (** new_table_total_on_domain, lookup half: on a table whose rings are non-empty and whose host
      keys all compile (what NewTable returns, [full_build_keys_ok]) no lookup crashes.  [Hstrip] is
      the one fact about the glob library used: removing a literal ":80" / ":443" suffix from a
      pattern that compiles leaves a pattern that compiles (matchingHosts compiles the normalised
      key, addRoute the key as written). *)
  Theorem lookup_full_total (glob_ok : str -> bool) bt host tls uri m globoff total : bt_good bt ->
    (forall k tl, glob_ok k = true -> hostglob_ok (Lookup.normalize_host k tl) = true) ->
    Forall (fun k => glob_ok k = true) (map fst bt) ->
    lookup_full hostglob_ok bt host tls uri m globoff total <> Panic.
  Proof.
    intros Hg Hstrip Hk. unfold lookup_full.
    destruct (negb globoff && negb (forallb _ (map fst bt))) eqn:E.
    - exfalso. apply andb_true_iff in E. destruct E as [_ E2]. apply negb_true_iff in E2.
      assert (forallb (fun k => hostglob_ok (Lookup.normalize_host k tls)) (map fst bt) = true); [|congruence].
      apply forallb_forall. intros k Hin. rewrite Forall_forall in Hk. auto.
    - apply look_hosts_np. exact Hg.
  Qed.

  (* and conversely: with glob matching on, a bad host key crashes EVERY lookup *)
  Theorem bad_host_glob_crashes_all bt host tls uri m total :
    F_C02_bad_host_glob hostglob_ok bt tls = true ->
    lookup_full hostglob_ok bt host tls uri m false total = Panic.
  Proof. unfold lookup_full, F_C02_bad_host_glob. intros ->. reflexivity. Qed.
End LookupProofs.

Theorem new_table_total :
  forall pweight canon glob_ok order text, perm_order order ->
  (forall ds, scan_parse pweight text = Ok ds -> Forall route_ok (reached canon glob_ok [] ds)) ->
  full_build pweight canon glob_ok (ring_faithful order) text <> Panic
  /\ forall bt, full_build pweight canon glob_ok (ring_faithful order) text = Ok bt ->
     forall hostglob_ok host tls uri m globoff total,
       (forall k tl, glob_ok k = true -> hostglob_ok (Lookup.normalize_host k tl) = true) ->
       lookup_full hostglob_ok bt host tls uri m globoff total <> Panic.
Proof.
  intros pweight canon glob_ok order text Hord H.
  destruct (full_build_total pweight canon glob_ok order Hord text H) as [Hnp Hg].
  split; [exact Hnp|]. intros bt Hbt hostglob_ok host tls uri m globoff total Hstrip.
  exact (lookup_full_total hostglob_ok glob_ok bt host tls uri m globoff total (Hg bt Hbt) Hstrip
           (full_build_keys_ok pweight canon glob_ok order text bt Hbt)).
Qed.

Theorem custom_build_total : forall canon glob_ok order ds t, perm_order order ->
  Forall route_ok (reached canon glob_ok t (known_defs ds)) ->
  custom_from canon glob_ok (ring_faithful order) t ds <> Panic.
Proof. intros canon glob_ok order ds t Hord. exact (custom_from_np canon glob_ok order Hord ds t). Qed.

(* NewTableCustom as a whole, a nil definition list (poll body null) included: never a panic *)
Theorem custom_build_ptr_total : forall canon glob_ok order (o : option (list (option def))), perm_order order ->
  (forall ds, o = Some ds -> Forall route_ok (reached canon glob_ok [] (known_defs ds))) ->
  custom_build_ptr canon glob_ok (ring_faithful order) o <> Panic.
Proof.
  intros canon glob_ok order [ds|] Hord H; cbn [custom_build_ptr]; [|discriminate].
  exact (custom_build_np canon glob_ok order Hord ds (H ds eq_refl)).
Qed.

(* ====================================================================================== *)
(** * (b) the update loops                                                                  *)
(* ====================================================================================== *)
Section LoopProofs.
  Variable build : str -> outcome btable.
  Notation bo := (build_opt build).
  Notation wstep := (wstep build).
  Notation wrun := (wrun build).

  Lemma wrun_crashed h : wrun Crashed h = Crashed.
  Proof. induction h as [|e h IH]; [reflexivity|exact IH]. Qed.

  Lemma wstep_running w e w' : wstep (Running w) e = Running w' -> w' = Watch.step btable bo w e.
  Proof.
    cbn [TableSwap.wstep]. destruct (beq _ _); [intros H; now inversion H|].
    destruct (is_panic _); [discriminate|intros H; now inversion H].
  Qed.

  (** as long as the process lives, the loop IS C01's loop over the composed builder: all of
      C01's theorems about [Watch.run] apply to it *)
  Theorem wrun_running h : forall w w', wrun (Running w) h = Running w' -> w' = Watch.run btable bo w h.
  Proof.
    induction h as [|e h IH]; intros w w'; cbn [TableSwap.wrun Watch.run fold_left].
    - intros H; now inversion H.
    - destruct (wstep (Running w) e) as [w1|] eqn:E.
      + apply wstep_running in E. subst w1. apply IH.
      + fold (wrun Crashed h). rewrite wrun_crashed. discriminate.
  Qed.

  (* the process crashes iff some candidate text the history makes the loop build panics *)
  Theorem wrun_no_crash h : forall w,
    (forall c, In c (candidates build w h) -> build c <> Panic) ->
    wrun (Running w) h = Running (Watch.run btable bo w h).
  Proof.
    induction h as [|e h IH]; intros w H; cbn [TableSwap.wrun Watch.run fold_left]; [reflexivity|].
    cbn [TableSwap.candidates] in H. cbv zeta in H.
    assert (E : wstep (Running w) e = Running (Watch.step btable bo w e)).
    { cbn [TableSwap.wstep]. cbv zeta. destruct (beq _ _) eqn:Eb; [reflexivity|].
      destruct (is_panic (build _)) eqn:Ep; [|reflexivity]. exfalso.
      eapply H; [apply in_or_app; left; now left|].
      destruct (build _); try discriminate. reflexivity. }
    rewrite E. apply IH. intros c Hc. apply H. apply in_or_app. now right.
  Qed.

  (** watch_keeps_last_good for the composed builder: an invalid candidate (the builder returns
      an error) leaves the active table, lastTable and the first-flag alone, and the next valid
      candidate is installed.  This is C01's theorem, instantiated. *)
  Theorem watch_keeps_last_good_composed w e :
    Proofs.Watch.inv btable bo w -> bo (Proofs.Watch.cur_text btable w e) = None ->
    Watch.w_active (Watch.step btable bo w e) = Watch.w_active w
    /\ Watch.w_last (Watch.step btable bo w e) = Watch.w_last w
    /\ Watch.w_first (Watch.step btable bo w e) = Watch.w_first w
    /\ forall e2 T, bo (Proofs.Watch.cur_text btable (Watch.step btable bo w e) e2) = Some T ->
         Watch.w_active (Watch.step btable bo (Watch.step btable bo w e) e2) = T.
  Proof. exact (Proofs.Watch.watch_keeps_last_good btable bo w e). Qed.

  Theorem watch_quiescent_composed w h e T : Proofs.Watch.inv btable bo w ->
    bo (Watch.next_text (ConsulSpec.last_svc (h ++ [e]) (Watch.w_svc w))
                        (ConsulSpec.last_man (h ++ [e]) (Watch.w_man w))) = Some T ->
    Watch.w_active (Watch.run btable bo w (h ++ [e])) = T
    /\ Watch.w_first (Watch.run btable bo w (h ++ [e])) = true.
  Proof. exact (Proofs.Watch.watch_quiescent btable bo w h e T). Qed.

  Theorem watch_active_is_last_accepted_composed t0 h :
    Watch.w_active (Watch.run btable bo (Watch.w_init btable t0) h) = ConsulSpec.expected_active btable bo t0 h
    /\ Watch.w_first (Watch.run btable bo (Watch.w_init btable t0) h)
       = ConsulSpec.expected_first_rev btable bo (rev h).
  Proof. exact (Proofs.Watch.run_expected btable bo t0 h). Qed.
End LoopProofs.

(* ParseAliases never panics either (the same line parser) *)
Lemma alias_lines_np pweight ls : alias_lines pweight ls <> Panic.
Proof.
  induction ls as [|l ls IH]; cbn [alias_lines]; [discriminate|].
  apply Proofs.TableCmd.bind_np; [apply Proofs.TableCmd.parse_line_np|]. intros o.
  apply Proofs.TableCmd.bind_np; [exact IH|discriminate].
Qed.
Theorem parse_aliases_np pweight text : parse_aliases pweight text <> Panic.
Proof. unfold parse_aliases. apply Proofs.TableCmd.bind_np; [apply alias_lines_np|discriminate]. Qed.
Lemma loop_body_is_build pweight build text : loop_body (parse_aliases pweight) build text = build text.
Proof.
  unfold loop_body. pose proof (parse_aliases_np pweight text). destruct (parse_aliases pweight text); congruence.
Qed.

(* what the loop installs: candidates the builder accepted, and nothing else *)
Lemma installs_are_accepted build h : forall w t,
  In t (Watch.installs btable (build_opt build) w h) ->
  In t (candidates build w h) /\ exists bt, build t = Ok bt.
Proof.
  induction h as [|e h IH]; intros w t; cbn [Watch.installs candidates]; [intros []|].
  unfold Watch.step, Watch.step_inst. cbv zeta.
  destruct (beq _ _) eqn:Eb; cbn [fst].
  - cbn [app]. intros Hin. apply IH in Hin. exact Hin.
  - destruct (build_opt build _) as [tb|] eqn:Et; cbn [fst app].
    + intros [<-|Hin].
      * split; [now left|]. unfold build_opt in Et. destruct (build _) as [bt| |]; try discriminate. now exists bt.
      * apply IH in Hin. destruct Hin as [H1 H2]. split; [now right|exact H2].
    + intros Hin. apply IH in Hin. destruct Hin as [H1 H2]. split; [now right|exact H2].
Qed.

Lemma loop_emits_accepted build w h Tb : In (Some Tb) (loop_emits build w h) ->
  exists c, In c (candidates build w h) /\ build c = Ok Tb.
Proof.
  unfold loop_emits. intros H. apply in_map_iff in H. destruct H as (c & Hc & Hin).
  destruct (installs_are_accepted build h w c Hin) as [H1 (bt & Hbt)]. exists c. split; [exact H1|].
  unfold build_opt in Hc. rewrite Hbt in Hc. inversion Hc; subst. exact Hbt.
Qed.

(** the system as a whole: the update loop is the writer, any number of readers run beside it in any
    interleaving.  Every lookup is answered by the start table or by the COMPLETE table the builder
    returned for ONE candidate text of the history - never by anything else *)
Theorem system_lookup_single_table (Q C R : Type) (look : btable -> Q -> C -> R)
        build w h t0 p1 p2 r q c rest :
  sets_of btable Q C (p1 ++ ALoad r :: p2 ++ ALookup r q c :: rest) = loop_emits build w h ->
  no_load btable Q C r p2 = true ->
  exists Tb, (Tb = t0 \/ exists cand, In cand (candidates build w h) /\ build cand = Ok Tb)
    /\ nth_error (run_cell btable Q C R look t0 (no_locals btable) (p1 ++ ALoad r :: p2 ++ ALookup r q c :: rest))
                 (count_lookups btable Q C (p1 ++ ALoad r :: p2))
       = Some (r, q, c, Some (look Tb q c)).
Proof.
  intros Hem Hn. destruct (lookup_from_emitted btable Q C R look t0 _ p1 p2 r q c rest Hem Hn) as (Tb & Hor & Hres).
  exists Tb. split; [|exact Hres]. destruct Hor as [->|Hin]; [now left|right]. now apply loop_emits_accepted.
Qed.

(* the same with the custom backend as the writer: one SetTable per poll, nil on error *)
Theorem system_lookup_single_table_custom (Q C R : Type) (look : btable -> Q -> C -> R)
        cbuild polls t0 p1 p2 r q c rest :
  sets_of btable Q C (p1 ++ ALoad r :: p2 ++ ALookup r q c :: rest) = map (poll_emit cbuild) polls ->
  no_load btable Q C r p2 = true ->
  exists Tb, (Tb = t0 \/ exists ds, In ds polls /\ cbuild ds = Ok Tb)
    /\ nth_error (run_cell btable Q C R look t0 (no_locals btable) (p1 ++ ALoad r :: p2 ++ ALookup r q c :: rest))
                 (count_lookups btable Q C (p1 ++ ALoad r :: p2))
       = Some (r, q, c, Some (look Tb q c)).
Proof.
  intros Hem Hn. destruct (lookup_from_emitted btable Q C R look t0 _ p1 p2 r q c rest Hem Hn) as (Tb & Hor & Hres).
  exists Tb. split; [|exact Hres]. destruct Hor as [->|Hin]; [now left|right].
  apply in_map_iff in Hin. destruct Hin as (ds & Hd & Hin). exists ds. split; [exact Hin|].
  unfold poll_emit in Hd. destruct (cbuild ds); congruence.
Qed.
(* custom_step is set_table of that emission *)
Lemma custom_step_emits cbuild cell ds : cbuild ds <> Panic ->
  custom_step cbuild cell ds = Some (set_table btable cell (poll_emit cbuild ds)).
Proof. unfold custom_step, poll_emit. destruct (cbuild ds); congruence. Qed.

(* a sequence of polls: the table is that of the last poll NewTableCustom accepted *)
Fixpoint polls_run (cbuild : list (option def) -> outcome btable) (cell : btable) (polls : list (list (option def)))
  : option btable :=
  match polls with
  | [] => Some cell
  | ds :: rest => match custom_step cbuild cell ds with
                  | Some cell' => polls_run cbuild cell' rest
                  | None => None
                  end
  end.
Fixpoint last_accepted (cbuild : list (option def) -> outcome btable) (cell : btable) (polls : list (list (option def))) : btable :=
  match polls with
  | [] => cell
  | ds :: rest => last_accepted cbuild (match cbuild ds with Ok bt => bt | _ => cell end) rest
  end.
Theorem polls_keep_last_good cbuild polls : forall cell,
  (forall ds, In ds polls -> cbuild ds <> Panic) ->
  polls_run cbuild cell polls = Some (last_accepted cbuild cell polls).
Proof.
  induction polls as [|ds rest IH]; intros cell H; [reflexivity|].
  cbn [polls_run last_accepted]. unfold custom_step.
  pose proof (H ds (or_introl eq_refl)) as Hnp.
  destruct (cbuild ds) as [bt|k|]; [| |congruence]; cbn [set_table]; apply IH; intros d Hd; apply H; now right.
Qed.

(** the update loop over the whole loop body (ParseAliases, then the composed NewTable) never reaches
    [Crashed], for every history whose CANDIDATE texts stay within the route-size bound: it is C01's
    loop over the composed builder *)
Theorem watch_never_crashes pweight canon glob_ok order : perm_order order ->
  forall h w,
    let fb := full_build pweight canon glob_ok (ring_faithful order) in
    (forall c, In c (candidates (loop_body (parse_aliases pweight) fb) w h) ->
       forall ds, scan_parse pweight c = Ok ds -> Forall route_ok (reached canon glob_ok [] ds)) ->
    wrun (loop_body (parse_aliases pweight) fb) (Running w) h
    = Running (Watch.run btable (build_opt (loop_body (parse_aliases pweight) fb)) w h).
Proof.
  intros Hord h w fb Hsz. apply wrun_no_crash. intros c Hc.
  rewrite loop_body_is_build. exact (proj1 (full_build_total pweight canon glob_ok order Hord c (Hsz c Hc))).
Qed.

(* the custom backend: an error keeps the table (this is where SetTable's nil guard is relied on),
   a table replaces it, a panic kills the polling goroutine and with it the process *)
Theorem custom_keeps_last_good cbuild cell ds k : cbuild ds = Err k -> custom_step cbuild cell ds = Some cell.
Proof. unfold custom_step. intros ->. reflexivity. Qed.
Theorem custom_installs cbuild cell ds bt : cbuild ds = Ok bt -> custom_step cbuild cell ds = Some bt.
Proof. unfold custom_step. intros ->. reflexivity. Qed.
Theorem custom_crash_iff cbuild cell ds : custom_step cbuild cell ds = None <-> cbuild ds = Panic.
Proof. unfold custom_step. destruct (cbuild ds); split; congruence. Qed.

(* ====================================================================================== *)
(** * kernel-checked witnesses: where the unchanged code crashes                             *)
(* ====================================================================================== *)
(* what the libraries answer on the witnesses: strconv.ParseFloat (exact values: "Inf" as 2^1024,
   which rounds to +Inf; 5e-324 = 2^-1074; 1e308 = 0x1.1ccf385ebc8a0p+1023), url.Parse and
   glob.Compile of the paths accept everything used here, glob.Compile of a host key fails on an
   unterminated '[' (host or path) *)
Definition pw_wit (s : str) : outcome wt :=
  if beq s (bs "Inf") then Ok (WP two52 972)
  else if beq s (bs "5e-324") then Ok (WP two52 (-1126))
  else if beq s (bs "1e308") then Ok (WP 5010420900022432 971)
  else pweight_dec s.
Definition canon_wit (d : str) : option str := Some d.
Definition hostglob_wit (k : str) : bool := negb (existsb (N.eqb 91) k).
Definition glob_wit (p : str) : bool := hostglob_wit p.      (* one library: glob.Compile *)
Definition fb_wit : str -> outcome btable := full_build pw_wit canon_wit glob_wit (ring_faithful stable_order).
Definition nl : str := [10%N].

Lemma stable_perm : perm_order stable_order.
Proof. intros s. apply Proofs.Ring.stable_order_perm. Qed.

(* the composed builder over weighTargets as it was before /repo 290c777 (C04's route_ring_unrepaired) *)
Definition fb_wit_weights_unrepaired : str -> outcome btable :=
  full_build pw_wit canon_wit glob_wit (ring_unrepaired stable_order).
Definition ok_lookup (o : outcome btable) (host : str) : Prop :=
  match o with
  | Ok bt => lookup_full hostglob_wit bt host false (bs "/") Lookup.MPrefix false 0%N
             = Ok (Some (host, bs "/", 0))
  | _ => False
  end.

(* F-C02-1 (fixed by 290c777).  Before: weight Inf -> NaN weight -> int(NaN) = -2^63 slots -> make
   panicked during the build.  Now: the NaN weight is unusable, the traffic is split evenly, the
   table is built and the lookup answers. *)
Definition inf_text : str := bs "route add s h.com/ http://h/ weight Inf".
Theorem weight_inf_crashes_build_unrepaired :
  fb_wit_weights_unrepaired inf_text = Panic /\ ok_lookup (fb_wit inf_text) (bs "h.com").
Proof. split; vm_compute; reflexivity. Qed.

(* F-C02-3 (fixed by 290c777).  Before: weight 5e-324 -> scale = 1/5e-324 = +Inf -> int() = -2^63 ->
   make panicked.  Now: even split. *)
Definition denormal_text : str := bs "route add s h.com/ http://h/ weight 5e-324".
Theorem weight_denormal_crashes_build_unrepaired :
  fb_wit_weights_unrepaired denormal_text = Panic /\ ok_lookup (fb_wit denormal_text) (bs "h.com").
Proof. split; vm_compute; reflexivity. Qed.

(* F-C02-2 (fixed by 290c777).  Before: 1e308 + 1e308 = +Inf, scale = 0, every weight 0, empty ring:
   the table was built and installed, then every lookup that reached the route panicked (integer
   divide by zero).  Now: no slot used -> even split, the lookup answers. *)
Definition overflow_text : str :=
  bs "route add a h.com/ http://a/ weight 1e308" ++ nl ++ bs "route add b h.com/ http://b/ weight 1e308".
Theorem weight_sum_overflow_crashes_lookup_unrepaired :
  match fb_wit_weights_unrepaired overflow_text with
  | Ok bt => lookup_full hostglob_wit bt (bs "h.com") false (bs "/") Lookup.MPrefix false 0%N = Panic
             /\ lookup_full hostglob_wit bt (bs "h.com") false (bs "/") Lookup.MPrefix true 0%N = Panic
  | _ => False
  end.
Proof. vm_compute. split; reflexivity. Qed.
Theorem weight_sum_overflow_harmless : ok_lookup (fb_wit overflow_text) (bs "h.com").
Proof. vm_compute. reflexivity. Qed.

Theorem new_table_total_refuted_unrepaired : exists text, fb_wit_weights_unrepaired text = Panic.
Proof. exists inf_text. exact (proj1 weight_inf_crashes_build_unrepaired). Qed.

(* F-C02-4, fixed by /repo c9fb527.  Before: a host pattern that is no valid glob was accepted by
   NewTable (only the path was compiled); every lookup with glob matching enabled then reached
   glob.MustCompile, whatever the request; with glob matching disabled the table worked. *)
Definition fb_wit_unrepaired : str -> outcome btable :=
  full_build_unrepaired pw_wit canon_wit glob_wit (ring_faithful stable_order).
Definition bad_host_text : str := bs "route add s [/ http://h/" ++ nl ++ bs "route add t x.com/ http://x/".
Theorem bad_host_glob_crashes_lookup_unrepaired :
  match fb_wit_unrepaired bad_host_text with
  | Ok bt => lookup_full hostglob_wit bt (bs "x.com") false (bs "/") Lookup.MPrefix false 0%N = Panic
             /\ lookup_full hostglob_wit bt (bs "x.com") false (bs "/") Lookup.MPrefix true 0%N
                = Ok (Some (bs "x.com", bs "/", 0))
  | _ => False
  end.
Proof. vm_compute. split; reflexivity. Qed.
(* now: the command is an error (route: invalid host), so the text is rejected as a whole and the
   update loop keeps the last good table *)
Theorem bad_host_glob_rejected : fb_wit bad_host_text = Err e_invalid_host.
Proof. vm_compute. reflexivity. Qed.
Theorem bad_host_glob_keeps_last_good :
  map (fun p => match p with
                | Running w => Some (map fst (Watch.w_active w))
                | Crashed => None end)
      (wtrace fb_wit (Running (Watch.w_init btable []))
         [Watch.Svc (bs "route add s h.com/ http://h/"); Watch.Man bad_host_text; Watch.Man (bs "route add t x.com/ http://x/")])
  = [Some [bs "h.com"]; Some [bs "h.com"]; Some [bs "h.com"; bs "x.com"]].
Proof. vm_compute. reflexivity. Qed.

(* the update loop before 290c777: a good table, then a text with a syntax error (kept out, table
   unchanged), then the crashing text: the process was gone, although a valid text followed.  Now:
   the same history installs every valid text. *)
Definition h_good : str := bs "route add s h.com/ http://h/".
Definition crash_history : list Watch.event :=
  [Watch.Svc h_good; Watch.Man (bs "rout add x"); Watch.Man [];
   Watch.Svc (bs "route add s g.com/ http://h/ weight Inf"); Watch.Svc h_good].
Definition show_trace (tr : list proc) : list (option (list str)) :=
  map (fun p => match p with
                | Running w => Some (map fst (Watch.w_active w))
                | Crashed => None end) tr.
Theorem watch_crash_refuted_unrepaired :
  show_trace (wtrace fb_wit_weights_unrepaired (Running (Watch.w_init btable [])) crash_history)
  = [Some [bs "h.com"]; Some [bs "h.com"]; Some [bs "h.com"]; None; None]
  /\ show_trace (wtrace fb_wit (Running (Watch.w_init btable [])) crash_history)
     = [Some [bs "h.com"]; Some [bs "h.com"]; Some [bs "h.com"]; Some [bs "g.com"]; Some [bs "h.com"]].
Proof. split; vm_compute; reflexivity. Qed.

(* NewTableCustom: an unknown command and an empty source are errors, not crashes *)
Theorem custom_errors :
  custom_build canon_wit glob_wit (ring_faithful stable_order) [None] = Err e_invalid_cmd
  /\ custom_build canon_wit glob_wit (ring_faithful stable_order)
       [Some (mk CmdAdd (bs "s") [] (bs "http://h/") WZ [] [])] = Err e_invalid_prefix
  /\ custom_step (custom_build canon_wit glob_wit (ring_faithful stable_order)) []
       [Some (mk CmdAdd (bs "s") (bs "h.com/") [] WZ [] [])] = Some [].
Proof. vm_compute. repeat split; reflexivity. Qed.

(* ---- non-vacuity of the domain theorems: a text with fixed and dynamic weights, a weight
        command and a deletion lies outside every region ---- *)
Lemma route_ok_forallb l : forallb (fun r => Nat.leb (length (r_targets r)) 1000) l = true -> Forall route_ok l.
Proof.
  intros H. apply Forall_forall. intros r Hr. rewrite forallb_forall in H. specialize (H r Hr).
  apply Nat.leb_le in H. unfold route_ok, size_ok, fixed_of. rewrite map_length. lia.
Qed.

Definition domain_text : str :=
  bs "route add a h.com/ http://a/ weight 0.3" ++ nl ++ bs "route add b h.com/ http://b/" ++ nl
  ++ bs "route add c h.com/ http://c/ weight 0.2 tags ""x""" ++ nl
  ++ bs "route weight h.com/ weight 0.5 tags ""x""" ++ nl ++ bs "route del a" ++ nl
  ++ bs "route add d *.h.com/p http://d/".
Example total_nonvacuous :
  (forall ds, scan_parse pw_wit domain_text = Ok ds -> Forall route_ok (reached canon_wit glob_wit [] ds))
  /\ fb_wit domain_text <> Panic.
Proof.
  assert (H : forall ds, scan_parse pw_wit domain_text = Ok ds -> Forall route_ok (reached canon_wit glob_wit [] ds)).
  { intros ds Hds. apply route_ok_forallb.
    assert (E : match scan_parse pw_wit domain_text with
                | Ok ds => forallb (fun r => Nat.leb (length (r_targets r)) 1000) (reached canon_wit glob_wit [] ds)
                | _ => false end = true) by (vm_compute; reflexivity).
    rewrite Hds in E. exact E. }
  split; [exact H|].
  apply (full_build_total pw_wit canon_wit glob_wit stable_order stable_perm domain_text H).
Qed.

(* ====================================================================================== *)
(** * the custom backend's decoder (fresh per poll since /repo 9bd16b3)                       *)
(* ====================================================================================== *)
Definition cb_wit : list (option def) -> outcome btable :=
  custom_build canon_wit glob_wit (ring_faithful stable_order).
Definition jadd (svc : str) (src : option str) (dst : str) : jdef :=
  {| j_cmd := Some (Some CmdAdd); j_svc := Some svc; j_src := src; j_dst := Some dst;
     j_w := None; j_tags := None; j_opts := None |}.

(* a poll is decoded on its own: what was polled before cannot matter (there is no such argument),
   and a first definition that is an add without "src" is rejected - the table stays *)
Theorem custom_poll_missing_src_rejected canon glob_ok rb cell (j : jdef) js :
  j_cmd j = Some (Some CmdAdd) -> j_src j = None ->
  custom_poll (custom_build canon glob_ok rb) cell (j :: js) = Some cell.
Proof.
  intros Hc Hs. destruct j as [c sv sr ds w tg op]. cbn [j_cmd j_src] in Hc, Hs. subst c sr.
  unfold custom_poll. apply custom_keeps_last_good with (k := e_invalid_prefix).
  unfold custom_build, decode_fresh. cbn [map]. unfold to_def at 1, merge at 1.
  cbn [j_cmd j_svc j_src j_dst j_w j_tags j_opts oget raw_zero w_cmd w_svc w_src w_dst w_w w_tags w_opts].
  cbn [custom_from]. unfold build_step, apply_def. cbn [d_cmd].
  unfold add_route. cbn [d_src]. destruct (hostpath []). reflexivity.
Qed.

(* F-C02-5, fixed by 9bd16b3.  Before: the poll was decoded into the previous poll's definitions; a
   definition without "src" inherited the previous src and was installed under it, reported OK *)
Theorem custom_carry_over_refuted :
  let poll1 := [jadd (bs "svc-a") (Some (bs "a.test/")) (bs "http://10.0.0.1:80/")] in
  let poll2 := [jadd (bs "svc-s") None (bs "http://10.0.0.2:80/")] in
  (* unrepaired: a.test/ now routes to svc-s *)
  (match custom_poll_unrepaired cb_wit ([], []) poll1 with
   | Some st => match custom_poll_unrepaired cb_wit st poll2 with
                | Some (bt, _) => map (fun hr => (fst hr, map (fun br : broute => map t_svc (r_targets (fst br))) (snd hr))) bt
                                  = [(bs "a.test", [[bs "svc-s"]])]
                | None => False
                end
   | None => False
   end)
  (* repaired: the second poll is rejected and the first poll's table stays *)
  /\ (match custom_poll cb_wit [] poll1 with
      | Some bt1 => custom_poll cb_wit bt1 poll2 = Some bt1
                    /\ cb_wit (map to_def (decode_fresh poll2)) = Err e_invalid_prefix
      | None => False
      end).
Proof. vm_compute. repeat split; reflexivity. Qed.

(* F-C02-10 (fixed by /repo 618785e).  Before: a poll whose body is the JSON value null crashed the
   polling goroutine (NewTableCustom(nil)), whatever the table.  Now: an error, the table stays. *)
Theorem custom_null_body_crashes_unrepaired cbuild cell : custom_poll_body_unrepaired cbuild cell None = None.
Proof. reflexivity. Qed.
Theorem custom_null_body_rejected cbuild cell : custom_poll_body cbuild cell None = Some cell.
Proof. reflexivity. Qed.

(* F-C02-9 (fixed by /repo 5dd66bf).  Before: route.Parse never looked at scanner.Err(); a line of
   65536 bytes ended the scan and NewTable returned the table of the lines before it without an error -
   the update loop installed that partial table.  Now: an error, at exactly that length (65535 bytes
   still fit). *)
Definition xs (n : N) : str := repeat 120%N (N.to_nat n).
Definition long_text : str :=
  bs "route add a a.test/ http://h/" ++ nl ++ xs 65536 ++ nl ++ bs "route add c c.test/ http://h/".
Theorem long_line_truncates_unrepaired :
  match full_build_scan_unrepaired pw_wit canon_wit glob_wit (ring_faithful stable_order) long_text with
  | Ok bt => map fst bt = [bs "a.test"]
  | _ => False
  end
  /\ fb_wit long_text = Err e_line_too_long
  /\ has_long_line (xs 65535 ++ nl ++ bs "x") = false
  /\ has_long_line (bs "x" ++ nl ++ xs 65536) = true.
Proof. vm_compute. repeat split; reflexivity. Qed.

(* ====================================================================================== *)
(** * what is left of "the newly received configuration is invalid"                         *)
(* ====================================================================================== *)
(* the error kinds NewTable can return: syntax (1-4), weight literal (5), empty prefix / target (6, 7;
   the text grammar never yields them), url.Parse (8), `route weight` without match (9), path glob
   (10), host glob (11), line beyond the scanner (13).  Nothing else keeps the last good table. *)
Definition rejection_kinds : list N := [1; 2; 3; 4; 5; 6; 7; 8; 9; 10; 11; 13]%N.
Definition is_rejection (k : N) : bool := existsb (N.eqb k) rejection_kinds.

Section Reasons.
  Variable pweight : str -> outcome wt.
  Variable canon : str -> option str.
  Variable glob_ok : str -> bool.

  Lemma bind_err_kind {A B} (r : outcome A) (f : A -> outcome B) k :
    bind r f = Err k -> r = Err k \/ exists a, r = Ok a /\ f a = Err k.
  Proof. destruct r; cbn [bind]; intros H; [right; eauto|left; congruence|discriminate]. Qed.

  Lemma parse_line_err l k : parse_line pweight l = Err k -> is_rejection k = true.
  Proof.
    unfold parse_line. destruct (_ || _); [discriminate|].
    destruct (route_kw k_add _).
    { intros H. apply bind_err_kind in H. destruct H as [H|(a & _ & H)]; [|discriminate].
      unfold parse_route_add in H. destruct (match_add _) as [[[[[[? ?] ?] ?] ?] ?]|].
      - destruct (parse_weight pweight _); inversion H; reflexivity.
      - inversion H; reflexivity. }
    destruct (route_kw k_del _).
    { intros H. apply bind_err_kind in H. destruct H as [H|(a & _ & H)]; [|discriminate].
      unfold parse_route_del in H. destruct (match_del_svc_tags _) as [[? ?]|]; [discriminate|].
      destruct (match_del_tags _); [discriminate|]. destruct (match_del _) as [[[? ?] ?]|]; inversion H; reflexivity. }
    destruct (route_kw k_weight _).
    { intros H. apply bind_err_kind in H. destruct H as [H|(a & _ & H)]; [|discriminate].
      unfold parse_route_weight in H. destruct (match_weight_svc _) as [[[[? ?] ?] ?]|].
      - destruct (parse_weight pweight _); inversion H; reflexivity.
      - destruct (match_weight_src _) as [[[? ?] ?]|].
        + destruct (parse_weight pweight _); inversion H; reflexivity.
        + inversion H; reflexivity. }
    intros H; inversion H; reflexivity.
  Qed.

  Lemma parse_lines_err ls : forall k, parse_lines pweight ls = Err k -> is_rejection k = true.
  Proof.
    induction ls as [|l ls IH]; intros k; cbn [parse_lines]; [discriminate|].
    intros H. apply bind_err_kind in H. destruct H as [H|(o & _ & H)]; [eapply parse_line_err; eauto|].
    apply bind_err_kind in H. destruct H as [H|(ds & _ & H)]; [eauto|discriminate].
  Qed.

  Lemma apply_def_err t d k : apply_def canon glob_ok t d = Err k -> is_rejection k = true.
  Proof.
    unfold apply_def. destruct (d_cmd d).
    - unfold add_route. destruct (hostpath _). destruct (d_src d); [intros H; inversion H; reflexivity|].
      destruct (d_dst d); [intros H; inversion H; reflexivity|]. destruct (canon _); [|intros H; inversion H; reflexivity].
      destruct (lookup _ _); [destruct (find _ _)|]; repeat (try destruct (glob_ok _)); intros H; inversion H; reflexivity.
    - unfold del_route. destruct (d_tags d); [|discriminate].
      destruct (d_src d), (d_dst d); try discriminate;
        try (destruct (canon _); [|intros H; inversion H; reflexivity]); destruct (hostpath _); cbn zeta;
        destruct (get_route _ _ _); discriminate.
    - unfold weigh_route. destruct (hostpath _). cbn zeta. destruct (d_src d); [intros H; inversion H; reflexivity|].
      destruct (get_route _ _ _); [|intros H; inversion H; reflexivity].
      destruct (_ =? 0)%N; intros H; inversion H; reflexivity.
  Qed.

  Lemma run_from_err ds : forall t k, run_from canon glob_ok t ds = Err k -> is_rejection k = true.
  Proof.
    induction ds as [|d ds IH]; intros t k; cbn [run_from]; [discriminate|].
    intros H. apply bind_err_kind in H. destruct H as [H|(t' & _ & H)]; [eapply apply_def_err; eauto|eauto].
  Qed.

  (** rejection_reasons: whenever the composed NewTable returns an error - the only situation in which
      the update loop keeps the last good table - the error is one of the kinds listed *)
  Theorem rejection_reasons order text k :
    full_build pweight canon glob_ok (ring_faithful order) text = Err k -> is_rejection k = true.
  Proof.
    unfold full_build. intros H. apply bind_err_kind in H. destruct H as [H|(ds & _ & H)].
    - unfold scan_parse in H. destruct (existsb too_long _).
      + apply bind_err_kind in H. destruct H as [H|(x & _ & H)]; [eapply parse_lines_err; eauto|inversion H; reflexivity].
      + eapply parse_lines_err; exact H.
    - unfold build_defs in H. apply bind_err_kind in H. destruct H as [H|(t & _ & H)].
      + eapply run_from_err. eapply build_from_err; eauto.
      + exfalso. eapply ring_table_no_err; eauto.
  Qed.
End Reasons.

(** the update loop skips a candidate (keeps the last good table) exactly when NewTable returns one of
    those errors; since d16ce3d the service-derived half of a candidate contains only commands that were
    validated one by one (C14/C01), so what remains in practice are the manual overrides, `route weight`
    without a match, and commands whose validity depends on the other half of the text *)
Theorem keeps_last_good_only_on_rejection pweight canon glob_ok order text : perm_order order ->
  (forall ds, scan_parse pweight text = Ok ds -> Forall route_ok (reached canon glob_ok [] ds)) ->
  build_opt (full_build pweight canon glob_ok (ring_faithful order)) text = None ->
  exists k, full_build pweight canon glob_ok (ring_faithful order) text = Err k /\ is_rejection k = true.
Proof.
  intros Hord Hsz Hb. unfold build_opt in Hb.
  pose proof (proj1 (full_build_total pweight canon glob_ok order Hord text Hsz)) as Hnp.
  destruct (full_build pweight canon glob_ok (ring_faithful order) text) as [bt|k|] eqn:E; [discriminate| |congruence].
  exists k. split; [reflexivity|]. exact (rejection_reasons pweight canon glob_ok order text k E).
Qed.

(* ---- Table.LookupHost on a built table never panics ---- *)
Theorem lookup_host_total bt host total : bt_good bt -> lookup_host bt host total <> Panic.
Proof. intros Hg. unfold lookup_host. now apply look_hosts_np. Qed.

(* ---- non-vacuity of [watch_never_crashes]: its hypothesis holds for a concrete history (the one that
        killed the process before 290c777) and concrete library answers, and so does its conclusion ---- *)
Definition fb_body : str -> outcome btable := loop_body (parse_aliases pw_wit) fb_wit.
Example watch_never_crashes_nonvacuous :
  (forall c, In c (candidates fb_body (Watch.w_init btable []) crash_history) ->
     forall ds, scan_parse pw_wit c = Ok ds -> Forall route_ok (reached canon_wit glob_wit [] ds))
  /\ wrun fb_body (Running (Watch.w_init btable [])) crash_history
     = Running (Watch.run btable (build_opt fb_body) (Watch.w_init btable []) crash_history).
Proof.
  assert (H : forall c, In c (candidates fb_body (Watch.w_init btable []) crash_history) ->
     forall ds, scan_parse pw_wit c = Ok ds -> Forall route_ok (reached canon_wit glob_wit [] ds)).
  { assert (E : forallb (fun c => match scan_parse pw_wit c with
                                  | Ok ds => forallb (fun r => Nat.leb (length (r_targets r)) 1000) (reached canon_wit glob_wit [] ds)
                                  | _ => true end)
                        (candidates fb_body (Watch.w_init btable []) crash_history) = true)
      by (vm_compute; reflexivity).
    intros c Hc ds Hds. rewrite forallb_forall in E. specialize (E c Hc). rewrite Hds in E.
    now apply route_ok_forallb. }
  split; [exact H|].
  exact (watch_never_crashes pw_wit canon_wit glob_wit stable_order stable_perm crash_history (Watch.w_init btable []) H).
Qed.

Theorem lookup_host_total_built pweight canon glob_ok order text bt host total : perm_order order ->
  (forall ds, scan_parse pweight text = Ok ds -> Forall route_ok (reached canon glob_ok [] ds)) ->
  full_build pweight canon glob_ok (ring_faithful order) text = Ok bt ->
  lookup_host bt host total <> Panic.
Proof.
  intros Hord H Hb. apply lookup_host_total.
  exact (proj2 (full_build_total pweight canon glob_ok order Hord text H) bt Hb).
Qed.

Theorem watch_inv_reachable (build : str -> outcome btable) t0 h :
  Proofs.Watch.inv btable (build_opt build) (Watch.run btable (build_opt build) (Watch.w_init btable t0) h).
Proof. exact (Proofs.Watch.run_init_inv btable (build_opt build) t0 h). Qed.
