(** Proofs about the weight computation (Model/Weigh.v) on its exact-rational
    instance: effective weights are non-negative and sum to one for every non-empty
    target list and every mix of fixed / dynamic targets; fixed weights are honoured,
    scaled down or scaled up proportionally; dynamic targets share the remainder
    equally; a zero weight gets no slot and a positive weight at least one. *)
From Coq Require Import List ZArith QArith Qround Qminmax Bool Lia Lqa.
From Fabio Require Import Lib.Outcome Model.Weigh.
Import ListNotations.
Local Open Scope Q_scope.

(* ---------- Go's comparisons on Q ---------- *)
Lemma Q_gt_true x y : Q_gt x y = true <-> y < x.
Proof.
  unfold Q_gt. rewrite negb_true_iff. split; intros H.
  - apply Qnot_le_lt. intros Hle. apply Qle_bool_iff in Hle. congruence.
  - destruct (Qle_bool x y) eqn:E; [|reflexivity]. apply Qle_bool_iff in E.
    apply Qlt_not_le in H. contradiction.
Qed.
Lemma Q_gt_false x y : Q_gt x y = false <-> x <= y.
Proof.
  unfold Q_gt. rewrite negb_false_iff. apply Qle_bool_iff.
Qed.
Lemma Q_lt_true x y : Q_lt x y = true <-> x < y.
Proof. exact (Q_gt_true y x). Qed.
Lemma Q_lt_false x y : Q_lt x y = false <-> y <= x.
Proof. exact (Q_gt_false y x). Qed.

(* ---------- vocabulary of the specification ---------- *)
(** a target has a fixed weight iff its FixedWeight is positive *)
Definition posb (f : Q) : bool := Q_gt f 0.
(** sum of the fixed weights / number of fixed / of dynamic targets *)
Definition sum_pos (l : list Q) : Q := sumQ (filter posb l).
Definition n_fix (l : list Q) : nat := length (filter posb l).
Definition n_dyn (l : list Q) : nat := length (filter (fun f => negb (posb f)) l).
Definition qn (n : nat) : Q := inject_Z (Z.of_nat n).

Lemma qn_S n : qn (S n) == qn n + 1.
Proof. unfold qn. rewrite Nat2Z.inj_succ. unfold Z.succ. rewrite inject_Z_plus. reflexivity. Qed.
Lemma qn_pos n : (0 < n)%nat -> 0 < qn n.
Proof. intros H. unfold qn. change 0 with (inject_Z 0). rewrite <- Zlt_Qlt. lia. Qed.
Lemma qn_nonneg n : 0 <= qn n.
Proof. unfold qn. change 0 with (inject_Z 0). rewrite <- Zle_Qle. lia. Qed.
Lemma qn_zero n : qn n == 0 <-> n = 0%nat.
Proof.
  split; [|intros ->; reflexivity]. intros H. destruct n; [reflexivity|].
  pose proof (qn_pos (S n) ltac:(lia)) as Hp. rewrite H in Hp. exfalso. apply (Qlt_irrefl 0 Hp).
Qed.

Lemma n_fixed_is l : n_fixed arithQ l = n_fix l.
Proof. reflexivity. Qed.

Lemma length_split l : length l = (n_fix l + n_dyn l)%nat.
Proof.
  unfold n_fix, n_dyn. induction l as [|x l IH]; [reflexivity|].
  cbn [filter length]. destruct (posb x); cbn [negb length]; lia.
Qed.

Lemma sumQ_cons x l : sumQ (x :: l) = x + sumQ l.
Proof. reflexivity. Qed.
Lemma sumQ_nil : sumQ [] = 0.
Proof. reflexivity. Qed.

Lemma sum_fixed_fold l : forall a,
  fold_left (fun s f => if posb f then s + f else s) l a == a + sum_pos l.
Proof.
  unfold sum_pos. induction l as [|x l IH]; intros a; cbn [fold_left filter].
  - rewrite sumQ_nil. ring.
  - destruct (posb x); rewrite IH; rewrite ?sumQ_cons; ring.
Qed.

Lemma sum_fixed_eq l : sum_fixed arithQ l == sum_pos l.
Proof.
  unfold sum_fixed. change (fold_left (fun s f => if posb f then s + f else s) l 0 == sum_pos l).
  rewrite sum_fixed_fold. ring.
Qed.

Lemma sum_pos_nonneg l : 0 <= sum_pos l.
Proof.
  unfold sum_pos. induction l as [|x l IH]; cbn [filter]; [cbn; lra|].
  destruct (posb x) eqn:E; [|exact IH]. apply Q_gt_true in E. rewrite sumQ_cons. lra.
Qed.

Lemma sum_pos_pos l : (0 < n_fix l)%nat -> 0 < sum_pos l.
Proof.
  unfold sum_pos, n_fix. induction l as [|x l IH]; cbn [filter]; [cbn; lia|].
  destruct (posb x) eqn:E; [|exact IH]. intros _. apply Q_gt_true in E. rewrite sumQ_cons.
  pose proof (sum_pos_nonneg l) as Hn. unfold sum_pos in Hn. lra.
Qed.

Lemma sum_pos_none l : n_fix l = 0%nat -> sum_pos l = 0.
Proof.
  unfold n_fix, sum_pos. intros H. apply length_zero_iff_nil in H. now rewrite H.
Qed.

Lemma sumQ_map_const {X} (l : list X) w : sumQ (map (fun _ => w) l) == qn (length l) * w.
Proof.
  induction l as [|x l IH]; cbn [map length]; [rewrite sumQ_nil; unfold qn; cbn; ring|].
  rewrite sumQ_cons, IH, qn_S. ring.
Qed.

Lemma sumQ_map_split l s d :
  sumQ (map (fun f => if posb f then f * s else d) l) == s * sum_pos l + qn (n_dyn l) * d.
Proof.
  unfold sum_pos, n_dyn. induction l as [|x l IH]; cbn [map filter length].
  - rewrite !sumQ_nil. unfold qn; cbn; ring.
  - rewrite sumQ_cons, IH. destruct (posb x); cbn [negb length].
    + rewrite sumQ_cons. ring.
    + rewrite qn_S. ring.
Qed.

(* ---------- the algebraic core (no lists) ---------- *)
Lemma core_sum sf kq (allf : bool) :
  0 < sf -> 0 <= kq -> (allf = true <-> kq == 0) ->
  (if Q_gt sf 1 || (allf && Q_lt sf 1) then 1 / sf else 1) * sf
  + kq * (if Q_lt ((1 - sf) / kq) 0 then 0 else (1 - sf) / kq) == 1.
Proof.
  intros Hsf Hkq Hall.
  set (dyn := if Q_lt ((1 - sf) / kq) 0 then 0 else (1 - sf) / kq).
  assert (Hnz : ~ sf == 0) by lra.
  destruct (Q_gt sf 1) eqn:E1; cbn [orb].
  - apply Q_gt_true in E1. destruct (Qeq_dec kq 0) as [Hk|Hk].
    + clearbody dyn. rewrite Hk. field. exact Hnz.
    + assert (Hd : Q_lt ((1 - sf) / kq) 0 = true).
      { apply Q_lt_true. apply Qlt_shift_div_r; lra. }
      unfold dyn. rewrite Hd. field. exact Hnz.
  - apply Q_gt_false in E1. destruct allf; cbn [andb].
    + assert (Hk : kq == 0) by (now apply Hall). clearbody dyn.
      destruct (Q_lt sf 1) eqn:E2.
      * rewrite Hk. field. exact Hnz.
      * apply Q_lt_false in E2. assert (Hone : sf == 1) by lra. rewrite Hk, Hone. ring.
    + assert (Hk : ~ kq == 0) by (intros Hk; apply Hall in Hk; discriminate).
      assert (Hd : Q_lt ((1 - sf) / kq) 0 = false).
      { apply Q_lt_false. apply Qle_shift_div_l; lra. }
      unfold dyn. rewrite Hd. field. exact Hk.
Qed.

(* ---------- the weights, target by target ---------- *)
Definition scaleQ (l : list Q) : Q := scale_from arithQ (n_fix l) (length l) (sum_fixed arithQ l).
Definition dynQ (l : list Q) : Q := dynamic_from arithQ (n_fix l) (length l) (sum_fixed arithQ l).
Definition weight_fn (l : list Q) (f : Q) : Q :=
  if Nat.eqb (n_fix l) 0 then 1 / qn (length l)
  else if posb f then f * scaleQ l else dynQ l.

Lemma weighQU_map l : weighQ_unrepaired l = map (weight_fn l) l.
Proof.
  unfold weighQ_unrepaired, weigh_unrepaired, weight_fn. cbv zeta. rewrite n_fixed_is.
  destruct (Nat.eqb (n_fix l) 0); reflexivity.
Qed.

Lemma weighQU_nth l i f : nth_error l i = Some f -> nth_error (weighQ_unrepaired l) i = Some (weight_fn l f).
Proof. intros H. rewrite weighQU_map. now apply map_nth_error. Qed.

Lemma weighQU_nth_inv l i w : nth_error (weighQ_unrepaired l) i = Some w ->
  exists f, nth_error l i = Some f /\ w = weight_fn l f.
Proof.
  rewrite weighQU_map, nth_error_map. destruct (nth_error l i) as [f|]; cbn; [|discriminate].
  intros H. injection H as <-. eauto.
Qed.

Lemma n_dyn_sub l : (length l - n_fix l)%nat = n_dyn l.
Proof. pose proof (length_split l). lia. Qed.

Lemma all_fixed_iff l : Nat.eqb (n_fix l) (length l) = true <-> qn (n_dyn l) == 0.
Proof.
  rewrite qn_zero, Nat.eqb_eq. pose proof (length_split l). lia.
Qed.

Lemma posb_in_nfix l f : In f l -> posb f = true -> (0 < n_fix l)%nat.
Proof.
  intros Hin Hp. unfold n_fix. assert (Hf : In f (filter posb l)) by (apply filter_In; auto).
  destruct (filter posb l); [destruct Hf|cbn; lia].
Qed.

Lemma negb_in_ndyn l f : In f l -> posb f = false -> (0 < n_dyn l)%nat.
Proof.
  intros Hin Hp. unfold n_dyn.
  assert (Hf : In f (filter (fun f => negb (posb f)) l)) by (apply filter_In; rewrite Hp; auto).
  destruct (filter (fun f => negb (posb f)) l); [destruct Hf|cbn; lia].
Qed.

Lemma scaleQ_unfold l :
  scaleQ l = if Q_gt (sum_fixed arithQ l) 1 || (Nat.eqb (n_fix l) (length l) && Q_lt (sum_fixed arithQ l) 1)
             then 1 / sum_fixed arithQ l else 1.
Proof. reflexivity. Qed.

Lemma dynQ_unfold l :
  dynQ l = if Q_lt ((1 - sum_fixed arithQ l) / qn (n_dyn l)) 0 then 0
           else (1 - sum_fixed arithQ l) / qn (n_dyn l).
Proof. unfold dynQ, dynamic_from. cbv zeta. rewrite n_dyn_sub. reflexivity. Qed.

(** weights_sum_one_unrepaired *)
Theorem weights_sum_one_unrepaired l : l <> [] -> sumQ (weighQ_unrepaired l) == 1.
Proof.
  intros Hne. rewrite weighQU_map. unfold weight_fn.
  assert (Hlen : (0 < length l)%nat) by (destruct l; [congruence|cbn; lia]).
  destruct (Nat.eqb (n_fix l) 0) eqn:E0.
  - rewrite sumQ_map_const. field. pose proof (qn_pos _ Hlen). lra.
  - apply Nat.eqb_neq in E0.
    transitivity (scaleQ l * sum_pos l + qn (n_dyn l) * dynQ l); [exact (sumQ_map_split l _ _)|].
    rewrite <- (sum_fixed_eq l). rewrite scaleQ_unfold, dynQ_unfold.
    apply core_sum.
    + rewrite sum_fixed_eq. apply sum_pos_pos. lia.
    + apply qn_nonneg.
    + apply all_fixed_iff.
Qed.

Lemma scaleQ_pos l : (0 < n_fix l)%nat -> 0 < scaleQ l.
Proof.
  intros H. rewrite scaleQ_unfold.
  assert (Hs : 0 < sum_fixed arithQ l) by (rewrite sum_fixed_eq; now apply sum_pos_pos).
  destruct (_ || _); [|lra]. apply Qlt_shift_div_l; lra.
Qed.

Lemma dynQ_nonneg l : 0 <= dynQ l.
Proof.
  rewrite dynQ_unfold. destruct (Q_lt _ 0) eqn:E; [lra|]. now apply Q_lt_false in E.
Qed.

(** weights_nonneg_unrepaired *)
Theorem weights_nonneg_unrepaired l w : In w (weighQ_unrepaired l) -> 0 <= w.
Proof.
  rewrite weighQU_map. intros H. apply in_map_iff in H. destruct H as (f & <- & Hin).
  unfold weight_fn. destruct (Nat.eqb (n_fix l) 0) eqn:E0.
  - assert (Hlen : (0 < length l)%nat) by (destruct l; [destruct Hin|cbn; lia]).
    pose proof (qn_pos _ Hlen). apply Qle_shift_div_l; lra.
  - apply Nat.eqb_neq in E0. destruct (posb f) eqn:Ep.
    + apply Q_gt_true in Ep. pose proof (scaleQ_pos l ltac:(lia)).
      apply Qmult_le_0_compat; lra.
    + apply dynQ_nonneg.
Qed.

(** fixed_honoured_unrepaired: while the fixed weights do not exceed 100% and some target is
    dynamic, every fixed weight is the effective weight *)
Theorem fixed_honoured_unrepaired l i f w :
  nth_error l i = Some f -> 0 < f -> sum_pos l <= 1 -> (n_fix l < length l)%nat ->
  nth_error (weighQ_unrepaired l) i = Some w -> w == f.
Proof.
  intros Hn Hf Hsum Hdyn Hw. rewrite (weighQU_nth l i f Hn) in Hw. injection Hw as <-.
  assert (Hp : posb f = true) by now apply Q_gt_true.
  pose proof (posb_in_nfix l f (nth_error_In _ _ Hn) Hp) as Hnf.
  unfold weight_fn. replace (Nat.eqb (n_fix l) 0) with false by (symmetry; apply Nat.eqb_neq; lia).
  rewrite Hp, scaleQ_unfold.
  replace (Q_gt (sum_fixed arithQ l) 1) with false
    by (symmetry; apply Q_gt_false; now rewrite sum_fixed_eq).
  replace (Nat.eqb (n_fix l) (length l)) with false by (symmetry; apply Nat.eqb_neq; lia).
  cbn [orb andb]. ring.
Qed.

(** scaled_down_unrepaired: fixed weights exceeding 100% are normalised proportionally ... *)
Theorem scaled_down_unrepaired l i f w :
  nth_error l i = Some f -> 0 < f -> 1 < sum_pos l ->
  nth_error (weighQ_unrepaired l) i = Some w -> w == f / sum_pos l.
Proof.
  intros Hn Hf Hsum Hw. rewrite (weighQU_nth l i f Hn) in Hw. injection Hw as <-.
  assert (Hp : posb f = true) by now apply Q_gt_true.
  pose proof (posb_in_nfix l f (nth_error_In _ _ Hn) Hp) as Hnf.
  unfold weight_fn. replace (Nat.eqb (n_fix l) 0) with false by (symmetry; apply Nat.eqb_neq; lia).
  rewrite Hp, scaleQ_unfold.
  replace (Q_gt (sum_fixed arithQ l) 1) with true
    by (symmetry; apply Q_gt_true; now rewrite sum_fixed_eq).
  cbn [orb]. rewrite sum_fixed_eq. field. lra.
Qed.

(** ... and the dynamic targets get nothing *)
Theorem scaled_down_dynamic_unrepaired l i f w :
  nth_error l i = Some f -> ~ 0 < f -> 1 < sum_pos l ->
  nth_error (weighQ_unrepaired l) i = Some w -> w == 0.
Proof.
  intros Hn Hf Hsum Hw. rewrite (weighQU_nth l i f Hn) in Hw. injection Hw as <-.
  assert (Hp : posb f = false).
  { destruct (posb f) eqn:E; [apply Q_gt_true in E; contradiction|reflexivity]. }
  pose proof (negb_in_ndyn l f (nth_error_In _ _ Hn) Hp) as Hk.
  assert (Hnf : (0 < n_fix l)%nat).
  { destruct (n_fix l) eqn:E; [|lia]. rewrite (sum_pos_none l E) in Hsum. lra. }
  unfold weight_fn. replace (Nat.eqb (n_fix l) 0) with false by (symmetry; apply Nat.eqb_neq; lia).
  rewrite Hp, dynQ_unfold. pose proof (qn_pos _ Hk) as Hq.
  replace (Q_lt ((1 - sum_fixed arithQ l) / qn (n_dyn l)) 0) with true; [reflexivity|].
  symmetry. apply Q_lt_true. apply Qlt_shift_div_r; [exact Hq|]. rewrite sum_fixed_eq. lra.
Qed.

(** scaled_up_unrepaired: when every target is fixed and they sum to less than 100% *)
Theorem scaled_up_unrepaired l i f w :
  nth_error l i = Some f -> n_fix l = length l -> sum_pos l < 1 ->
  nth_error (weighQ_unrepaired l) i = Some w -> w == f / sum_pos l.
Proof.
  intros Hn Hall Hsum Hw. rewrite (weighQU_nth l i f Hn) in Hw. injection Hw as <-.
  assert (Hp : posb f = true).
  { destruct (posb f) eqn:E; [reflexivity|].
    pose proof (negb_in_ndyn l f (nth_error_In _ _ Hn) E). pose proof (length_split l). lia. }
  pose proof (posb_in_nfix l f (nth_error_In _ _ Hn) Hp) as Hnf.
  unfold weight_fn. replace (Nat.eqb (n_fix l) 0) with false by (symmetry; apply Nat.eqb_neq; lia).
  rewrite Hp, scaleQ_unfold.
  replace (Nat.eqb (n_fix l) (length l)) with true by (symmetry; apply Nat.eqb_eq; exact Hall).
  replace (Q_lt (sum_fixed arithQ l) 1) with true by (symmetry; apply Q_lt_true; now rewrite sum_fixed_eq).
  cbn [andb]. rewrite orb_true_r. rewrite sum_fixed_eq.
  pose proof (sum_pos_pos l Hnf). field. lra.
Qed.

(** dynamic_equal_share_unrepaired: every dynamic target gets the same share, the remainder
    (1 - min(1, sum of the fixed weights)) divided by the number of dynamic targets *)
Theorem dynamic_equal_share_unrepaired l i f w :
  nth_error l i = Some f -> ~ 0 < f ->
  nth_error (weighQ_unrepaired l) i = Some w -> w == (1 - Qmin 1 (sum_pos l)) / qn (n_dyn l).
Proof.
  intros Hn Hf Hw. rewrite (weighQU_nth l i f Hn) in Hw. injection Hw as <-.
  assert (Hp : posb f = false).
  { destruct (posb f) eqn:E; [apply Q_gt_true in E; contradiction|reflexivity]. }
  pose proof (negb_in_ndyn l f (nth_error_In _ _ Hn) Hp) as Hk. pose proof (qn_pos _ Hk) as Hq.
  unfold weight_fn. destruct (Nat.eqb (n_fix l) 0) eqn:E0.
  - apply Nat.eqb_eq in E0. rewrite (sum_pos_none l E0).
    replace (length l) with (n_dyn l) by (pose proof (length_split l); lia).
    rewrite Q.min_r by lra. field. lra.
  - apply Nat.eqb_neq in E0. rewrite Hp, dynQ_unfold.
    pose proof (sum_fixed_eq l) as Heq. set (sf := sum_fixed arithQ l) in *.
    destruct (Q_lt ((1 - sf) / qn (n_dyn l)) 0) eqn:Ed.
    + apply Q_lt_true in Ed.
      assert (Hgt : 1 < sum_pos l).
      { rewrite <- Heq. destruct (Qlt_le_dec 1 sf) as [H|H]; [exact H|].
        exfalso. assert (0 <= (1 - sf) / qn (n_dyn l)) by (apply Qle_shift_div_l; lra). lra. }
      rewrite Q.min_l by lra. field. lra.
    + apply Q_lt_false in Ed.
      assert (Hle : sum_pos l <= 1).
      { rewrite <- Heq. destruct (Qlt_le_dec 1 sf) as [H|H]; [|exact H].
        exfalso. assert ((1 - sf) / qn (n_dyn l) < 0) by (apply Qlt_shift_div_r; lra). lra. }
      rewrite Q.min_r by lra. rewrite Heq. reflexivity.
Qed.

(* ---------- every weight is at most one ---------- *)
Lemma in_le_sumQ l w : (forall x, In x l -> 0 <= x) -> In w l -> w <= sumQ l.
Proof.
  induction l as [|x l IH]; intros Hnn Hin; [destruct Hin|].
  rewrite sumQ_cons.
  assert (Hs : 0 <= sumQ l).
  { clear -Hnn. induction l as [|y l IH]; [rewrite sumQ_nil; lra|]. rewrite sumQ_cons.
    assert (0 <= y) by (apply Hnn; right; now left).
    assert (0 <= sumQ l) by (apply IH; intros z Hz; apply Hnn; destruct Hz; [now left|right; now right]).
    lra. }
  destruct Hin as [->|Hin].
  - lra.
  - assert (0 <= x) by (apply Hnn; now left).
    assert (w <= sumQ l) by (apply IH; [intros z Hz; apply Hnn; now right|exact Hin]). lra.
Qed.

Theorem weights_le_one_unrepaired l w : In w (weighQ_unrepaired l) -> w <= 1.
Proof.
  intros Hin. assert (Hne : l <> []).
  { intros ->. rewrite weighQU_map in Hin. destruct Hin. }
  rewrite <- (weights_sum_one_unrepaired l Hne). apply in_le_sumQ; [|exact Hin].
  intros x Hx. now apply (weights_nonneg_unrepaired l).
Qed.

(* ---------- slot counts ---------- *)
Lemma Q_trunc_floor x : 0 <= x -> x <= inject_Z 10000 -> Q_trunc x = Qfloor x.
Proof.
  intros H0 H1. unfold Q_trunc.
  assert (Hq : Z.quot (Qnum x) (Zpos (Qden x)) = Qfloor x).
  { destruct x as [n d]. cbn [Qnum Qden Qfloor]. apply Z.quot_div_nonneg; [|lia].
    unfold Qle in H0. cbn in H0. lia. }
  rewrite Hq.
  assert (Hlo : (0 <= Qfloor x)%Z).
  { change 0%Z with (Qfloor 0). now apply Qfloor_resp_le. }
  assert (Hhi : (Qfloor x <= 10000)%Z).
  { rewrite <- (Qfloor_Z 10000). now apply Qfloor_resp_le. }
  unfold min_int64. replace ((- 2 ^ 63 <=? Qfloor x) && (Qfloor x <? 2 ^ 63))%Z with true; [reflexivity|].
  symmetry. apply andb_true_iff. split; lia.
Qed.

Lemma slot_arg_range w : 0 <= w -> w <= 1 -> 0 <= inject_Z 10000 * w /\ inject_Z 10000 * w <= inject_Z 10000.
Proof. intros. assert (inject_Z 10000 == 10000) by reflexivity. split; nra. Qed.

Theorem slot_count_range w : 0 <= w -> w <= 1 -> (0 <= slot_countQ w <= 10000)%Z.
Proof.
  intros H0 H1. destruct (slot_arg_range w H0 H1) as [Ha Hb].
  unfold slot_countQ, slot_count. cbv zeta. cbn [a_trunc a_mul a_max_slots a_gt a_zero arithQ].
  rewrite (Q_trunc_floor _ Ha Hb).
  assert (Hlo : (0 <= Qfloor (inject_Z 10000 * w))%Z) by (change 0%Z with (Qfloor 0); now apply Qfloor_resp_le).
  assert (Hhi : (Qfloor (inject_Z 10000 * w) <= 10000)%Z) by (rewrite <- (Qfloor_Z 10000); now apply Qfloor_resp_le).
  destruct ((Qfloor (inject_Z 10000 * w) =? 0)%Z && Q_gt w 0); lia.
Qed.

(** a zero weight gets no slot *)
Theorem slot_count_zero w : w == 0 -> slot_countQ w = 0%Z.
Proof.
  intros Hw. assert (H0 : 0 <= w) by lra. assert (H1 : w <= 1) by lra.
  destruct (slot_arg_range w H0 H1) as [Ha Hb].
  unfold slot_countQ, slot_count. cbv zeta. cbn [a_trunc a_mul a_max_slots a_gt a_zero arithQ].
  rewrite (Q_trunc_floor _ Ha Hb).
  assert (Hf : Qfloor (inject_Z 10000 * w) = 0%Z).
  { assert (He : inject_Z 10000 * w == 0) by (rewrite Hw; ring). rewrite He. reflexivity. }
  rewrite Hf. replace (Q_gt w 0) with false by (symmetry; apply Q_gt_false; lra). reflexivity.
Qed.

(** a positive weight gets at least one slot (the [n == 0 && t.Weight > 0] guard) *)
Theorem slot_count_pos w : 0 < w -> w <= 1 -> (1 <= slot_countQ w <= 10000)%Z.
Proof.
  intros H0 H1. pose proof (slot_count_range w ltac:(lra) H1) as Hr. split; [|lia].
  destruct (slot_arg_range w ltac:(lra) H1) as [Ha Hb].
  unfold slot_countQ, slot_count in *. cbv zeta in *.
  cbn [a_trunc a_mul a_max_slots a_gt a_zero arithQ] in *.
  rewrite (Q_trunc_floor _ Ha Hb) in *.
  replace (Q_gt w 0) with true in * by (symmetry; now apply Q_gt_true).
  destruct (Qfloor (inject_Z 10000 * w) =? 0)%Z eqn:E; cbn [andb] in *; [lia|].
  apply Z.eqb_neq in E. lia.
Qed.

(** slots_resolution (per target): the slot count is the weight in units of 1/10000,
    rounded down, except that a positive weight below one unit still gets one slot *)
Theorem slot_count_resolution w : 0 <= w -> w <= 1 ->
  (slot_countQ w = 1%Z /\ 0 < w /\ inject_Z 10000 * w < 1)
  \/ (inject_Z (slot_countQ w) <= inject_Z 10000 * w /\ inject_Z 10000 * w < inject_Z (slot_countQ w) + 1).
Proof.
  intros H0 H1. destruct (slot_arg_range w H0 H1) as [Ha Hb].
  unfold slot_countQ, slot_count. cbv zeta. cbn [a_trunc a_mul a_max_slots a_gt a_zero arithQ].
  rewrite (Q_trunc_floor _ Ha Hb).
  pose proof (Qfloor_le (inject_Z 10000 * w)) as Hfl.
  pose proof (Qlt_floor (inject_Z 10000 * w)) as Hfu. rewrite inject_Z_plus in Hfu.
  destruct (Qfloor (inject_Z 10000 * w) =? 0)%Z eqn:E; cbn [andb].
  - apply Z.eqb_eq in E. destruct (Q_gt w 0) eqn:Eg.
    + left. apply Q_gt_true in Eg. rewrite E in Hfu. split; [reflexivity|]. split; [exact Eg|].
      change (inject_Z 0 + inject_Z 1) with (0 + 1) in Hfu. lra.
    + right. rewrite E in *. split; [exact Hfl|]. exact Hfu.
  - right. split; [exact Hfl|exact Hfu].
Qed.

(* ---------- setWeight ---------- *)
(** set_weight_total: the matching targets receive [weight] in total (each weight / n),
    the others keep their fixed weight *)
Lemma assign_nth m w l i b f : nth_error m i = Some b -> nth_error l i = Some f ->
  nth_error (assign arithQ m w l) i = Some (if b then w else f).
Proof.
  revert l i; induction m as [|b' m IH]; intros l i Hm Hl; [destruct i; discriminate|].
  destruct l as [|f' l]; [destruct i; discriminate|].
  destruct i as [|i]; cbn [nth_error assign] in *.
  - now injection Hm as ->; injection Hl as ->.
  - now apply IH.
Qed.

Lemma assign_sum m w l : length m = length l ->
  sumQ (map (fun p : bool * Q => if fst p then snd p else 0) (combine m (assign arithQ m w l)))
  == qn (count_true m) * w.
Proof.
  revert l; induction m as [|b m IH]; intros l Hlen; destruct l as [|f l]; try discriminate.
  - cbn [assign combine map]. rewrite sumQ_nil. unfold qn; cbn; ring.
  - cbn [assign combine map fst snd]. injection Hlen as Hlen.
    specialize (IH l Hlen). rewrite sumQ_cons, IH.
    unfold count_true. cbn [filter]. destruct b; cbn [length].
    + rewrite qn_S. ring.
    + ring.
Qed.

Theorem set_weight_total m weight l : length m = length l -> (0 < count_true m)%nat ->
  let l' := fst (set_weight arithQ m weight l) in
  snd (set_weight arithQ m weight l) = count_true m
  /\ sumQ (map (fun p : bool * Q => if fst p then snd p else 0) (combine m l')) == weight
  /\ (forall i f, nth_error m i = Some false -> nth_error l i = Some f -> nth_error l' i = Some f).
Proof.
  intros Hlen Hn. unfold set_weight. cbn [fst snd]. split; [reflexivity|]. split.
  - rewrite assign_sum by exact Hlen. cbn [a_div a_of_nat arithQ]. fold (qn (count_true m)).
    pose proof (qn_pos _ Hn). field. lra.
  - intros i f Hm Hl. now rewrite (assign_nth m _ l i false f Hm Hl).
Qed.

(* non-vacuity: concrete lists meet the hypotheses of the theorems above *)
Example weigh_example_some_fixed :
  weighQ_unrepaired [3 # 10; 0; 57 # 100; 0] = [(3 # 10) * 1; (1 - (0 + (3 # 10) + (57 # 100))) / inject_Z 2;
                                     (57 # 100) * 1; (1 - (0 + (3 # 10) + (57 # 100))) / inject_Z 2].
Proof. vm_compute. reflexivity. Qed.

Definition ex_some : list Q := [3 # 10; 0; 57 # 100; 0].
Definition ex_over : list Q := [6 # 10; 0; 57 # 100].
Definition ex_under : list Q := [1 # 10; 2 # 10].
Example weigh_example_hyps :
  sum_pos ex_some <= 1 /\ (n_fix ex_some < length ex_some)%nat
  /\ 1 < sum_pos ex_over /\ sum_pos ex_under < 1 /\ n_fix ex_under = length ex_under.
Proof. vm_compute. repeat split; try discriminate; try lia. Qed.

(* ====================================================================== *)
(* weighTargets since commit 290c777: the computed weights, or the even    *)
(* distribution when one of them is unusable or no slot is used            *)
(* ====================================================================== *)
Lemma weighQ_cases l : weighQ l = weighQ_unrepaired l \/ weighQ l = weigh_even arithQ l.
Proof. unfold weighQ, weigh. destruct (uses_fill arithQ l); [left|right]; reflexivity. Qed.

Lemma weigh_even_map l : weigh_even arithQ l = map (fun _ => 1 / qn (length l)) l.
Proof. reflexivity. Qed.

Lemma weigh_even_sum_one l : l <> [] -> sumQ (weigh_even arithQ l) == 1.
Proof.
  intros Hne. assert (Hlen : (0 < length l)%nat) by (destruct l; [congruence|cbn; lia]).
  rewrite weigh_even_map, sumQ_map_const. field. pose proof (qn_pos _ Hlen). lra.
Qed.

Lemma weigh_even_range l w : In w (weigh_even arithQ l) -> 0 <= w /\ w <= 1.
Proof.
  rewrite weigh_even_map. intros Hin. apply in_map_iff in Hin. destruct Hin as (f & <- & Hf).
  assert (Hlen : (0 < length l)%nat) by (destruct l; [destruct Hf|cbn; lia]).
  assert (Hq : 1 <= qn (length l)).
  { unfold qn. change 1 with (inject_Z 1). rewrite <- Zle_Qle. lia. }
  split; [apply Qle_shift_div_l; lra|apply Qle_shift_div_r; lra].
Qed.

(** weights_sum_one / weights_nonneg / weights_le_one hold for the code as it is, for every
    non-empty target list, whether or not the fallback is taken *)
Theorem weights_sum_one l : l <> [] -> sumQ (weighQ l) == 1.
Proof.
  intros Hne. destruct (weighQ_cases l) as [-> | ->];
    [now apply weights_sum_one_unrepaired|now apply weigh_even_sum_one].
Qed.

Theorem weights_nonneg l w : In w (weighQ l) -> 0 <= w.
Proof.
  destruct (weighQ_cases l) as [-> | ->]; intros Hin;
    [now apply (weights_nonneg_unrepaired l)|now apply (weigh_even_range l)].
Qed.

Theorem weights_le_one l w : In w (weighQ l) -> w <= 1.
Proof.
  destruct (weighQ_cases l) as [-> | ->]; intros Hin;
    [now apply (weights_le_one_unrepaired l)|now apply (weigh_even_range l)].
Qed.

Lemma weighQ_length l : length (weighQ l) = length l.
Proof.
  destruct (weighQ_cases l) as [-> | ->]; [rewrite weighQU_map|rewrite weigh_even_map]; apply map_length.
Qed.
