(** The rendered fields against the specification of Model/LoggerSpec.v:
    time fields = the layouts Go documents, applied to the UTC broken-down time
    that the calendar SPEC assigns to the instant; numeric fields = the
    canonical decimal of the documented number; string fields = the event's
    strings; the line = the concatenation of the pattern's pieces. *)
From Coq Require Import String List NArith ZArith Bool Lia.
From Fabio Require Import Lib.Outcome Lib.Bytes Model.Logger Model.LoggerSpec Proofs.Logger Proofs.LoggerCal.
Import ListNotations.
Local Open Scope N_scope.
Local Open Scope outcome_scope.

(* ---------------- positional decimal ---------------- *)
Lemma pad_dec_S w n : pad_dec (S w) n = pad_dec w (n / 10) ++ [48 + Z.to_N (n mod 10)%Z].
Proof.
  unfold pad_dec. cbn [seq rev]. rewrite map_app. cbn [map].
  change (10 ^ 0)%Z with 1%Z. rewrite Z.div_1_r. f_equal.
  rewrite <- seq_shift, <- map_rev, map_map. apply map_ext. intros k.
  rewrite Nat2Z.inj_succ, Z.pow_succ_r by lia.
  rewrite Z.div_div by (try lia; apply Z.pow_pos_nonneg; lia). reflexivity.
Qed.

Lemma pad_dec_props w : forall n, (0 <= n)%Z ->
  forallb is_digit (pad_dec w n) = true /\ length (pad_dec w n) = w /\
  dec_value (pad_dec w n) = Z.to_N (n mod 10 ^ Z.of_nat w).
Proof.
  induction w as [|w IH]; intros n Hn.
  - repeat split. cbn. now rewrite Z.mod_1_r.
  - rewrite pad_dec_S.
    assert (H10 : (0 <= n / 10)%Z) by (apply Z.div_pos; lia).
    destruct (IH (n / 10)%Z H10) as (Hd & Hl & Hv).
    assert (Hm : (0 <= n mod 10 < 10)%Z) by (apply Z.mod_pos_bound; lia).
    split; [|split].
    + rewrite forallb_app, Hd. cbn [forallb]. rewrite andb_true_r. apply is_digit_iff. lia.
    + rewrite app_length, Hl. cbn [length]. lia.
    + rewrite dec_value_snoc, Hv, Nat2Z.inj_succ, Z.pow_succ_r by lia.
      assert (Hp : (0 < 10 ^ Z.of_nat w)%Z) by (apply Z.pow_pos_nonneg; lia).
      rewrite (Z.rem_mul_r n 10 (10 ^ Z.of_nat w)) by lia.
      assert (0 <= (n / 10) mod 10 ^ Z.of_nat w)%Z by (apply Z.mod_pos_bound; lia).
      lia.
Qed.

Lemma pad_dec_is_dec w n : (1 <= w)%nat -> (0 <= n < 10 ^ Z.of_nat w)%Z -> is_dec w n (pad_dec w n) = true.
Proof.
  intros Hw Hn. destruct (pad_dec_props w n ltac:(lia)) as (Hd & Hl & Hv).
  unfold is_dec. replace (n <? 0)%Z with false by (symmetry; apply Z.ltb_ge; lia).
  unfold canon_digits. rewrite Hd, Hv, Hl, Z.mod_small, N.eqb_refl by lia. cbn [andb].
  replace (Nat.max 1 w) with w by lia. rewrite Nat.leb_refl, Nat.ltb_irrefl. reflexivity.
Qed.

(* atoi with padding w prints exactly the w positional digits *)
Lemma atoi_pad w n : (1 <= w <= 18)%nat -> (0 <= n < 10 ^ Z.of_nat w)%Z ->
  atoi n (Z.of_nat w) = Ok (pad_dec w n).
Proof.
  intros Hw Hn.
  assert (Hb : (10 ^ Z.of_nat w <= 10 ^ 18)%Z) by (apply Z.pow_le_mono_r; lia).
  change (10 ^ 18)%Z with 1000000000000000000%Z in Hb.
  destruct (atoi_spec n (Z.of_nat w) ltac:(apply int64_small; lia) ltac:(lia)) as (s & Hs & Hd).
  rewrite Nat2Z.id in Hd. rewrite Hs. f_equal.
  apply (is_dec_unique w n); [exact Hd | now apply pad_dec_is_dec].
Qed.

Lemma atoi_padZ pad n : (1 <= pad <= 18)%Z -> (0 <= n < 10 ^ pad)%Z ->
  atoi n pad = Ok (pad_dec (Z.to_nat pad) n).
Proof.
  intros Hp Hn. rewrite <- (Z2Nat.id pad) at 1 by lia. apply atoi_pad; [lia|].
  rewrite Z2Nat.id by lia. exact Hn.
Qed.

Lemma month_name_abbr m : (1 <= m <= 12)%Z -> month_name m = Ok (month_abbr m).
Proof.
  intros H.
  assert (E : (m = 1 \/ m = 2 \/ m = 3 \/ m = 4 \/ m = 5 \/ m = 6 \/ m = 7 \/ m = 8 \/ m = 9
               \/ m = 10 \/ m = 11 \/ m = 12)%Z) by lia.
  repeat (destruct E as [->|E]; [reflexivity|]). subst. reflexivity.
Qed.

(* ---------------- the time fields ---------------- *)
Definition tm_of (e : event) : tm :=
  let c := civil_of (e_unix e) in
  {| t_year := c_year c; t_month := c_month c; t_day := c_day c; t_hour := c_hour c;
     t_min := c_min c; t_sec := c_sec c; t_nsec := e_nsec e |}.

(* the model's broken-down time IS the UTC time of the instant by the calendar spec
   (no range condition) *)
Theorem tm_of_is_utc e : is_utc_time (e_unix e) (e_nsec e) (tm_of e).
Proof.
  unfold is_utc_time, tm_of, civil_of. cbn [t_year t_month t_day t_hour t_min t_sec t_nsec].
  pose proof (civil_of_days_correct (e_unix e / 86400)) as C.
  destruct (civil_of_days (e_unix e / 86400)) as [[y m] d]. destruct C as [Cv Cd].
  cbn [c_year c_month c_day c_hour c_min c_sec].
  split; [exact Cv|]. split; [exact Cd|].
  assert (0 <= e_unix e mod 86400 < 86400)%Z by (apply Z.mod_pos_bound; lia).
  generalize dependent (e_unix e mod 86400)%Z. intros r Hr.
  repeat split; try (Z.div_mod_to_equations; lia).
Qed.

(* ... and the only one *)
Theorem utc_time_unique unix nsec t1 t2 : is_utc_time unix nsec t1 -> is_utc_time unix nsec t2 -> t1 = t2.
Proof.
  destruct t1 as [y1 mo1 d1 h1 mi1 s1 n1], t2 as [y2 mo2 d2 h2 mi2 s2 n2].
  unfold is_utc_time. cbn [t_year t_month t_day t_hour t_min t_sec t_nsec].
  intros (V1 & D1 & Hh1 & Hm1 & Hs1 & R1 & N1) (V2 & D2 & Hh2 & Hm2 & Hs2 & R2 & N2).
  pose proof (days_from_civil_injective _ _ _ _ _ _ V1 V2 ltac:(congruence)) as E.
  inversion E; subst.
  assert (h1 = h2) by lia. assert (mi1 = mi2) by lia. f_equal; lia.
Qed.

Lemma event_ok_unpack e : event_ok e = true ->
  int64_ok (e_dur e) = true /\ (-9000000000 <= e_unix e <= 9000000000)%Z /\
  (0 <= e_nsec e < 1000000000)%Z /\
  exists st cl, e_resp e = Some (st, cl) /\ int64_ok st = true /\ int64_ok cl = true.
Proof.
  unfold event_ok. intros H.
  apply andb_true_iff in H as [H Hr]. apply andb_true_iff in H as [H H5].
  apply andb_true_iff in H as [H H4]. apply andb_true_iff in H as [H H3].
  apply andb_true_iff in H as [H1 H2].
  apply Z.leb_le in H2, H3, H4. apply Z.ltb_lt in H5.
  destruct (e_resp e) as [[st cl]|]; [|discriminate]. apply andb_true_iff in Hr as [? ?].
  repeat split; try assumption. now exists st, cl.
Qed.

Lemma head_eq e l : event_ok e = true ->
  cat (rfc3339_prefix (e_civil e) ++ l) = do b <- cat l; Ok (layout_rfc3339_head (tm_of e) ++ b).
Proof.
  intros H. apply event_ok_unpack in H as (_ & Hu & _ & _).
  pose proof (civil_of_sane (e_unix e) Hu) as (Hy & Hm & Hd & Hh & Hmi & Hs).
  unfold rfc3339_prefix, e_civil, layout_rfc3339_head, tm_of, lit.
  cbn [t_year t_month t_day t_hour t_min t_sec app cat].
  rewrite (atoi_padZ 4 (c_year (civil_of (e_unix e)))) by (try lia; change (10 ^ 4)%Z with 10000%Z; lia).
  rewrite !(atoi_padZ 2) by (try lia; change (10 ^ 2)%Z with 100%Z; lia).
  cbn [bind]. destruct (cat l) as [b| |]; cbn [bind]; reflexivity.
Qed.

(* each time field renders exactly its layout on the UTC time of the event's instant,
   whatever the zone of End *)
Theorem time_fields_eq_layout e : event_ok e = true ->
  exists t, is_utc_time (e_unix e) (e_nsec e) t /\
    render_field FTimeRfc e = Ok (layout_rfc3339 t) /\
    render_field FTimeRfcMs e = Ok (layout_rfc3339_ms t) /\
    render_field FTimeRfcUs e = Ok (layout_rfc3339_us t) /\
    render_field FTimeRfcNs e = Ok (layout_rfc3339_ns t) /\
    render_field FTimeCommon e = Ok (layout_common t).
Proof.
  intros H. exists (tm_of e). split; [apply tm_of_is_utc|].
  pose proof (event_ok_unpack e H) as (_ & Hu & Hn & _).
  unfold render_field, render_field_with, lit.
  repeat split.
  - rewrite head_eq by exact H. reflexivity.
  - rewrite head_eq by exact H. cbn [cat]. rewrite Z.quot_div_nonneg by lia.
    rewrite (atoi_padZ 3) by (try lia; change (10 ^ 3)%Z with 1000%Z; Z.div_mod_to_equations; lia).
    reflexivity.
  - rewrite head_eq by exact H. cbn [cat]. rewrite Z.quot_div_nonneg by lia.
    rewrite (atoi_padZ 6) by (try lia; change (10 ^ 6)%Z with 1000000%Z; Z.div_mod_to_equations; lia).
    reflexivity.
  - rewrite head_eq by exact H. cbn [cat].
    rewrite (atoi_padZ 9) by (try lia; change (10 ^ 9)%Z with 1000000000%Z; lia).
    reflexivity.
  - pose proof (civil_of_sane (e_unix e) Hu) as (Hy & Hm & Hd & Hh & Hmi & Hs).
    unfold e_civil, layout_common, tm_of. cbn [t_year t_month t_day t_hour t_min t_sec cat].
    rewrite (atoi_padZ 4 (c_year (civil_of (e_unix e)))) by (try lia; change (10 ^ 4)%Z with 10000%Z; lia).
    rewrite !(atoi_padZ 2) by (try lia; change (10 ^ 2)%Z with 100%Z; lia).
    rewrite month_name_abbr by lia. cbn [bind]. reflexivity.
Qed.

(* ---------------- the numeric fields ---------------- *)
(* field f of e is THE canonical decimal of z: it satisfies the declarative predicate,
   and so does no other string (whatever strconv / fmt print for z is this string) *)
Definition renders_dec (f : fld) (e : event) (z : Z) : Prop :=
  exists s, render_field f e = Ok s /\ is_dec 0 z s = true /\
            forall s', is_dec 0 z s' = true -> s' = s.

Lemma atoi_canonical z : int64_ok z = true ->
  exists s, atoi z 0 = Ok s /\ is_dec 0 z s = true /\ forall s', is_dec 0 z s' = true -> s' = s.
Proof.
  intros H. destruct (atoi_spec z 0 H ltac:(lia)) as (s & Hs & Hd). change (Z.to_nat 0) with 0%nat in Hd.
  exists s. repeat split; try assumption. intros s' H'. now apply (is_dec_unique 0 z).
Qed.

Lemma resp_time_eq e unit pad :
  int64_ok (e_dur e) = true -> (0 <= e_dur e)%Z -> (1 <= pad <= 9)%Z -> (unit * 10 ^ pad = 1000000000)%Z ->
  (0 < unit)%Z ->
  exists S, is_dec 0 (e_dur e / 1000000000) S = true /\
            (forall s', is_dec 0 (e_dur e / 1000000000) s' = true -> s' = S) /\
            resp_time e unit pad =
              Ok (S ++ [46] ++ pad_dec (Z.to_nat pad) (e_dur e mod 1000000000 / unit)).
Proof.
  intros H64 Hd Hp Hu Hu0. unfold resp_time, lit.
  rewrite Z.quot_div_nonneg, Z.rem_mod_nonneg by lia.
  assert (Hm : (0 <= e_dur e mod 1000000000 < 1000000000)%Z) by (apply Z.mod_pos_bound; lia).
  rewrite Z.quot_div_nonneg by lia.
  assert (Hq : int64_ok (e_dur e / 1000000000) = true).
  { apply int64_ok_iff in H64. apply int64_ok_iff. Z.div_mod_to_equations. lia. }
  destruct (atoi_canonical _ Hq) as (S & HS & HdS & HuS).
  exists S. split; [exact HdS|]. split; [exact HuS|].
  cbn [cat]. rewrite HS. cbn [bind].
  rewrite atoi_padZ; [cbn [bind app]; now rewrite app_nil_r | lia |].
  split; [apply Z.div_pos; lia|]. apply Z.div_lt_upper_bound; lia.
Qed.

Theorem numeric_fields_eq_stdlib e st cl :
  event_ok e = true -> e_resp e = Some (st, cl) ->
  renders_dec FRespStatus e st /\ renders_dec FRespBodySize e cl /\
  ((0 <= e_unix e)%Z ->
     let ns := (e_unix e * 1000000000 + e_nsec e)%Z in
     renders_dec FTimeUnixNs e ns /\ renders_dec FTimeUnixUs e (ns / 1000) /\
     renders_dec FTimeUnixMs e (ns / 1000000)) /\
  ((0 <= e_dur e)%Z ->
     let d := e_dur e in
     exists S, is_dec 0 (d / 1000000000) S = true /\
       (forall s', is_dec 0 (d / 1000000000) s' = true -> s' = S) /\
       render_field FRespTimeMs e = Ok (S ++ [46] ++ pad_dec 3 (d mod 1000000000 / 1000000)) /\
       render_field FRespTimeUs e = Ok (S ++ [46] ++ pad_dec 6 (d mod 1000000000 / 1000)) /\
       render_field FRespTimeNs e = Ok (S ++ [46] ++ pad_dec 9 (d mod 1000000000))).
Proof.
  intros H Er. pose proof (event_ok_unpack e H) as (Hd & Hu & Hn & st' & cl' & Er' & Hst & Hcl).
  rewrite Er in Er'. inversion Er'; subst st' cl'; clear Er'.
  assert (Hnano : e_unixnano e = (e_unix e * 1000000000 + e_nsec e)%Z).
  { unfold e_unixnano. apply wrap64_id. rewrite two63. lia. }
  unfold renders_dec, render_field, render_field_with, with_resp. rewrite Er. cbn [fst snd].
  split; [now apply atoi_canonical|]. split; [now apply atoi_canonical|]. split.
  - intros Hpos. cbv zeta. rewrite Hnano.
    assert (0 <= e_unix e * 1000000000 + e_nsec e <= 9000000001000000000)%Z by lia.
    rewrite !Z.quot_div_nonneg by lia.
    repeat split; apply atoi_canonical; apply int64_ok_iff; rewrite two63;
      try (Z.div_mod_to_equations; lia); lia.
  - intros Hpos. cbv zeta.
    destruct (resp_time_eq e 1000000 3 Hd Hpos ltac:(lia) ltac:(reflexivity) ltac:(lia)) as (S & A1 & A2 & A3).
    destruct (resp_time_eq e 1000 6 Hd Hpos ltac:(lia) ltac:(reflexivity) ltac:(lia)) as (S6 & B1 & B2 & B3).
    destruct (resp_time_eq e 1 9 Hd Hpos ltac:(lia) ltac:(reflexivity) ltac:(lia)) as (S9 & C1 & C2 & C3).
    assert (S6 = S) by (now apply A2). assert (S9 = S) by (now apply A2). subst S6 S9.
    rewrite Z.div_1_r in C3.
    exists S. repeat split; assumption.
Qed.

(* ---------------- the string fields are the event's strings ---------------- *)
Theorem string_fields_identity e :
  render_field FUpAddr e = Ok (e_upaddr e) /\ render_field FUpService e = Ok (e_upsvc e) /\
  (exists h p, hostport_spec (e_upaddr e) h p /\
               render_field FUpHost e = Ok h /\ render_field FUpPort e = Ok p) /\
  (forall r, e_req e = Some r ->
     render_field FRemoteAddr e = Ok (rq_remote r) /\
     render_field FRequest e = Ok (rq_method r ++ [32] ++ rq_uri r ++ [32] ++ rq_proto r) /\
     (e_requrl e = None -> render_field FRequestHost e = Ok (rq_host r)) /\
     render_field FRequestMethod e = Ok (rq_method r) /\
     render_field FRequestURI e = Ok (rq_uri r) /\ render_field FRequestProto e = Ok (rq_proto r) /\
     exists h p, hostport_spec (rq_remote r) h p /\
                 render_field FRemoteHost e = Ok h /\ render_field FRemotePort e = Ok p) /\
  (e_req e = None ->
     Forall (fun f => render_field f e = Ok [])
            [FRemoteAddr; FRemoteHost; FRemotePort; FRequest; FRequestMethod;
             FRequestURI; FRequestProto]) /\
  (forall u, e_requrl e = Some u ->
     render_field FRequestArgs e = Ok (u_rawquery u) /\ render_field FRequestScheme e = Ok (u_scheme u) /\
     render_field FRequestHost e = Ok (u_host u) /\
     render_field FRequestURL e = Ok (u_string u)) /\
  (forall u, e_upurl e = Some u ->
     render_field FUpReqScheme e = Ok (u_scheme u) /\ render_field FUpReqURI e = Ok (u_requri u) /\
     render_field FUpReqURL e = Ok (u_string u)) /\
  (e_requrl e = None -> Forall (fun f => render_field f e = Ok []) [FRequestArgs; FRequestScheme; FRequestURL]) /\
  (e_requrl e = None -> e_req e = None -> render_field FRequestHost e = Ok []) /\
  (e_upurl e = None -> Forall (fun f => render_field f e = Ok []) [FUpReqScheme; FUpReqURI; FUpReqURL]).
Proof.
  unfold render_field, render_field_with, request_host, with_req, with_url.
  split; [reflexivity|]. split; [reflexivity|]. split.
  { destruct (hostport_total (e_upaddr e)) as (h & p & Hp & Sp). exists h, p. rewrite Hp. now repeat split. }
  split.
  { intros r Hr. rewrite Hr. split; [reflexivity|]. split; [reflexivity|].
    split; [intros Hu; now rewrite Hu|]. repeat (split; [reflexivity|]).
    destruct (hostport_total (rq_remote r)) as (h & p & Hp & Sp). exists h, p. rewrite Hp. now repeat split. }
  split. { intros Hr. rewrite Hr. repeat constructor. }
  split. { intros u Hu. rewrite Hu. now repeat split. }
  split. { intros u Hu. rewrite Hu. now repeat split. }
  split. { intros Hu; rewrite Hu; repeat constructor. }
  split. { intros Hu Hr. now rewrite Hu, Hr. }
  intros Hu; rewrite Hu; repeat constructor.
Qed.

(* ---------------- the line is the concatenation of the pattern's pieces ---------------- *)
Theorem log_line_is_concat_of_fields format e p :
  new_logger format = Ok p -> event_ok e = true ->
  exists pieces, Forall2 (fun it s => render_item it e = Ok s) p pieces /\
    log_line format e = Ok (match concat pieces with [] => [] | b => b ++ [10] end).
Proof.
  intros Hp He. unfold log_line, log_line_with. rewrite Hp. cbn [bind]. unfold pattern_write_with.
  assert (E : exists pieces, Forall2 (fun it s => render_item it e = Ok s) p pieces /\
                             write_items_with render_field p e = Ok (concat pieces)).
  { clear Hp. induction p as [|it p (pieces & F & W)]; [exists []; split; [constructor | reflexivity]|].
    assert (exists a, render_item it e = Ok a) as [a Ha].
    { destruct it as [s|name|f]; unfold render_item; cbn [render_item_with].
      - now eexists.
      - destruct (e_req e) as [r|]; [destruct (rq_header r)|]; now eexists.
      - apply render_field_ok, He. }
    exists (a :: pieces). split; [now constructor|].
    cbn [write_items_with concat]. unfold render_item in Ha. rewrite Ha, W. reflexivity. }
  destruct E as (pieces & F & W). exists pieces. split; [exact F|]. rewrite W. cbn [bind].
  destruct (concat pieces); reflexivity.
Qed.

(* ---------------- the parsed pattern spells the format string ---------------- *)
Lemma assoc_in {A} k (l : list (str * A)) v : assoc k l = Some v -> In (k, v) l.
Proof.
  induction l as [|[k' v'] l IH]; [discriminate|]. cbn [assoc].
  destruct (beq k k') eqn:E.
  - apply beq_eq in E. intros H. inversion H; subst. now left.
  - intros H. right. now apply IH.
Qed.

Lemma field_names_inverse : forallb (fun kv => beq (field_name (snd kv)) (fst kv)) field_names = true.
Proof. vm_compute. reflexivity. Qed.

Lemma field_of_name val f : field_of val = Some f -> field_name f = val.
Proof.
  intros H. apply assoc_in in H. pose proof field_names_inverse as A.
  rewrite forallb_forall in A. specialize (A _ H). now apply beq_eq in A.
Qed.

Lemma skipn_cons_step (s : str) i r rest : skipn i s = r :: rest ->
  firstn (S i) s = firstn i s ++ [r] /\ skipn (S i) s = rest /\ (i < length s)%nat.
Proof.
  revert i. induction s as [|x s IH]; intros i H.
  - destruct i; discriminate.
  - destruct i as [|i].
    + cbn in H. inversion H; subst. repeat split. cbn. lia.
    + cbn [skipn] in H. destruct (IH i H) as (A & B & C).
      cbn [firstn skipn length app]. rewrite <- A. repeat split; try assumption. lia.
Qed.

Definition header_prefix : str := s_header ++ [46].

Lemma lex_loop_header s : forall rest st i,
  skipn i s = rest ->
  (st = SDot \/ st = SHeader -> firstn 8 s = header_prefix) ->
  fst (lex_loop s st i rest) = THeader -> firstn 8 s = header_prefix.
Proof.
  induction rest as [|r rest IH]; intros st i Hs Hst.
  - destruct st; cbn [lex_loop fst]; try discriminate. intros _. apply Hst. now right.
  - destruct (skipn_cons_step s i r rest Hs) as (Hf & Hs' & Hi).
    destruct st; cbn [lex_loop].
    + destruct (r =? 36); apply IH; try assumption; intros [?|?]; discriminate.
    + destruct (r =? 36); [discriminate|]. apply IH; try assumption; intros [?|?]; discriminate.
    + destruct (is_id_char r); apply IH; try assumption; intros [?|?]; discriminate.
    + destruct (r =? 46) eqn:Er.
      * destruct (beq (firstn i s) s_header) eqn:Eb; [|discriminate].
        apply IH; [assumption|]. intros _.
        apply N.eqb_eq in Er. subst r. apply beq_eq in Eb.
        assert (i = 7)%nat.
        { apply (f_equal (@length N)) in Eb. rewrite firstn_length in Eb. cbn in Eb. lia. }
        subst i. rewrite Hf, Eb. reflexivity.
      * destruct (is_id_char r); [|discriminate].
        apply IH; try assumption; intros [?|?]; discriminate.
    + destruct (is_id_char r); [|discriminate]. apply IH; [assumption|]. intros _. apply Hst. now left.
    + destruct (is_id_char r); [|cbn [fst]; intros _; apply Hst; now right].
      apply IH; [assumption|]. intros _. apply Hst. now right.
Qed.

Lemma lex_header s : fst (lex s) = THeader -> firstn 8 s = header_prefix.
Proof. unfold lex. apply lex_loop_header; [reflexivity|]. intros [?|?]; discriminate. Qed.

Lemma header_prefix_encoded : utf8_encode header_prefix = header_prefix.
Proof. reflexivity. Qed.

Lemma parse_loop_sound fuel : forall s acc p,
  parse_loop fuel s acc = Ok p ->
  concat (map item_src p) = concat (map item_src (rev acc)) ++ utf8_encode s.
Proof.
  induction fuel as [|f IH]; intros s acc p H.
  - destruct s; [|discriminate]. cbn in H. inversion H. now rewrite app_nil_r.
  - destruct s as [|c s0]; [cbn in H; inversion H; now rewrite app_nil_r|].
    cbn [parse_loop] in H. remember (c :: s0) as s eqn:Es.
    assert (Hne : s <> []) by (subst; discriminate). clear Es c s0.
    destruct (lex_progress s Hne) as [Hb Hh]. pose proof (lex_header s) as Hp.
    destruct (lex s) as [typ n]. cbn [fst snd] in Hb, Hh, Hp.
    unfold lg_upto, lg_from in H.
    replace (Nat.leb n (length s)) with true in H by (symmetry; apply Nat.leb_le; lia).
    cbn [bind] in H.
    assert (Hcat : forall it, item_src it = utf8_encode (firstn n s) ->
              concat (map item_src (rev (it :: acc))) ++ utf8_encode (skipn n s)
              = concat (map item_src (rev acc)) ++ utf8_encode s).
    { intros it Hit. cbn [rev]. rewrite map_app, concat_app. cbn [map concat]. rewrite Hit, app_nil_r.
      rewrite <- app_assoc, <- encode_app, firstn_skipn. reflexivity. }
    destruct typ.
    + apply IH in H. rewrite H. now apply Hcat.
    + destruct (field_of (utf8_encode (firstn n s))) as [fl|] eqn:Ef; [|discriminate].
      apply IH in H. rewrite H. apply Hcat. cbn [item_src]. now apply field_of_name.
    + specialize (Hh eq_refl). specialize (Hp eq_refl).
      (* the item starts with the eight ASCII characters "$header." *)
      assert (Hv : utf8_encode (firstn n s) = header_prefix ++ utf8_encode (skipn 8 (firstn n s))).
      { rewrite <- (firstn_skipn 8 (firstn n s)) at 1. rewrite encode_app. f_equal.
        rewrite firstn_firstn. replace (Init.Nat.min 8 n) with 8%nat by lia.
        rewrite Hp. apply header_prefix_encoded. }
      rewrite Hv in H.
      replace (Nat.leb 8 (length (header_prefix ++ utf8_encode (skipn 8 (firstn n s))))) with true in H
        by (symmetry; apply Nat.leb_le; rewrite app_length; cbn; lia).
      cbn [bind] in H. apply IH in H. rewrite H. apply Hcat. cbn [item_src].
      rewrite Hv. reflexivity.
Qed.

(* what string([]rune(format)) is: the format itself when it is ASCII or, more generally,
   well-formed UTF-8 (see utf8_roundtrip below); an ill-formed byte becomes U+FFFD *)
Definition go_string_of_runes (format : str) : str := utf8_encode (utf8_decode format).

(* a format that logger.New accepts is spelled by its pattern: the source texts of the
   items (literal text, "$header." ++ name, the field's name) concatenate to the format
   as Go sees it after []rune and back - for every byte string *)
Theorem new_logger_sound format p :
  new_logger format = Ok p -> concat (map item_src p) = go_string_of_runes format.
Proof.
  unfold new_logger, parse. cbv zeta.
  destruct (parse_loop (length (utf8_decode format)) (utf8_decode format) []) as [q| |] eqn:E; cbn [bind]; try discriminate.
  intros H. assert (q = p) by (destruct q; [discriminate | now inversion H]). subst q.
  now apply parse_loop_sound in E.
Qed.

(* ---------------- []rune(string(runes)) = runes: well-formed UTF-8 survives ---------------- *)
(* Unicode scalar values: what a Go string can hold as a valid rune *)
Definition scalar (r : N) : Prop := r < 55296 \/ (57343 < r /\ r <= 1114111).

Lemma decode_fuel_enough f1 : forall f2 s, (length s <= f1)%nat -> (length s <= f2)%nat ->
  utf8_decode_fuel f1 s = utf8_decode_fuel f2 s.
Proof.
  induction f1 as [|f1 IH]; intros f2 s H1 H2.
  - destruct s; [|cbn in H1; lia]. destruct f2; reflexivity.
  - destruct s as [|b0 t]; [destruct f2; reflexivity|].
    destruct f2 as [|f2]; [cbn in H2; lia|]. cbn [utf8_decode_fuel length] in *.
    destruct (decode1 b0 t) as [r w]. f_equal.
    pose proof (skipn_length (w - 1) t). apply IH; lia.
Qed.

Lemma div64_facts r :
  r = 64 * (r / 64) + r mod 64 /\ r mod 64 < 64 /\
  r / 64 = 64 * (r / 4096) + (r / 64) mod 64 /\ (r / 64) mod 64 < 64 /\
  r / 4096 = 64 * (r / 262144) + (r / 4096) mod 64 /\ (r / 4096) mod 64 < 64.
Proof.
  repeat split; try (apply N.mod_lt; lia); try (apply N.div_mod; lia).
  - replace (r / 4096) with (r / 64 / 64) by (rewrite N.div_div by lia; reflexivity). apply N.div_mod; lia.
  - replace (r / 262144) with (r / 4096 / 64) by (rewrite N.div_div by lia; reflexivity). apply N.div_mod; lia.
Qed.

(* lia does not see through N.div / N.modulo: name the quotients and remainders *)
Ltac absdiv :=
  repeat match goal with
  | |- context [N.modulo ?a ?b] => let x := fresh "m" in set (x := N.modulo a b) in *; clearbody x
  | H : context [N.modulo ?a ?b] |- _ => let x := fresh "m" in set (x := N.modulo a b) in *; clearbody x
  | |- context [N.div ?a ?b] => let x := fresh "q" in set (x := N.div a b) in *; clearbody x
  | H : context [N.div ?a ?b] |- _ => let x := fresh "q" in set (x := N.div a b) in *; clearbody x
  end.
Ltac dstep :=
  match goal with
  | |- context [N.eqb ?a ?b] => destruct (N.eqb_spec a b); try (exfalso; absdiv; lia)
  | |- context [N.ltb ?a ?b] => destruct (N.ltb_spec a b); try (exfalso; absdiv; lia)
  | |- context [N.leb ?a ?b] => destruct (N.leb_spec a b); try (exfalso; absdiv; lia)
  end; cbn [andb orb negb].

Lemma decode1_encode r rest : scalar r ->
  exists b0 tl, encode_rune r = b0 :: tl /\ decode1 b0 (tl ++ rest) = (r, S (length tl)).
Proof.
  intros Hs. unfold scalar in Hs. unfold encode_rune.
  destruct (div64_facts r) as (F1 & F2 & F3 & F4 & F5 & F6).
  destruct (N.ltb_spec r 128).
  { eexists _, _. split; [reflexivity|]. unfold decode1. cbn [app length].
    destruct (N.ltb_spec r 128); [reflexivity | lia]. }
  destruct (N.ltb_spec r 2048).
  { eexists _, _. split; [reflexivity|]. unfold decode1, is_cont. cbn [app length].
    repeat dstep. f_equal. absdiv. lia. }
  destruct (N.leb_spec 55296 r); destruct (N.leb_spec r 57343); destruct (N.ltb_spec 1114111 r);
    cbn [andb orb]; try (exfalso; lia);
    (destruct (N.ltb_spec r 65536);
     [ eexists _, _; split; [reflexivity|]; unfold decode1, is_cont; cbn [app length]; cbv zeta;
       repeat dstep; f_equal; absdiv; lia
     | eexists _, _; split; [reflexivity|]; unfold decode1, is_cont; cbn [app length]; cbv zeta;
       repeat dstep; f_equal; absdiv; lia ]).
Qed.

Theorem utf8_roundtrip rs : Forall scalar rs -> utf8_decode (utf8_encode rs) = rs.
Proof.
  induction 1 as [|r rs Hr _ IH]; [reflexivity|].
  unfold utf8_decode, utf8_encode in *. cbn [flat_map].
  destruct (decode1_encode r (flat_map encode_rune rs) Hr) as (b0 & tl & He & Hd).
  rewrite He. cbn [app length utf8_decode_fuel]. rewrite Hd. f_equal.
  replace (S (length tl) - 1)%nat with (length tl) by lia.
  rewrite skipn_app, skipn_all, Nat.sub_diag. cbn [skipn app].
  etransitivity; [|exact IH]. apply decode_fuel_enough; rewrite ?app_length; lia.
Qed.

(* so a format that is well-formed UTF-8 (the encoding of some sequence of scalar values:
   letters, digits, CJK, combining marks, emoji ...) is unchanged by []rune and back, and the
   parsed pattern spells exactly the format string *)
Corollary new_logger_sound_utf8 rs p :
  Forall scalar rs -> new_logger (utf8_encode rs) = Ok p ->
  concat (map item_src p) = utf8_encode rs.
Proof.
  intros Hs H. rewrite (new_logger_sound _ _ H). unfold go_string_of_runes. now rewrite utf8_roundtrip.
Qed.

Example utf8_examples :
  utf8_decode (utf8_encode [36; 29366; 24577; 58; 128512; 769; 1635]) = [36; 29366; 24577; 58; 128512; 769; 1635] /\
  utf8_decode [255; 237; 160; 128; 192; 175] = [65533; 65533; 65533; 65533; 65533; 65533] /\
  utf8_encode [65533] = [239; 191; 189].
Proof. repeat split; vm_compute; reflexivity. Qed.

(* ---------------- proxy.responseWriter: what reaches the event ---------------- *)
Lemma rw_run_app a b : rw_run (a ++ b) = fold_left rw_step b (rw_run a).
Proof. unfold rw_run. apply fold_left_app. Qed.

Lemma rw_writes st ws : (forall c, In c ws -> exists n, c = RwWrite n) ->
  fst (fold_left rw_step ws st) = fst st.
Proof.
  revert st. induction ws as [|c ws IH]; intros st H; [reflexivity|].
  cbn [fold_left]. rewrite IH by (intros c' I; apply H; now right).
  destruct (H c (or_introl eq_refl)) as [n ->]. reflexivity.
Qed.

Definition sum_writes (a : Z) (c : rwcall) : Z := match c with RwWrite n => (a + n)%Z | RwHeader _ => a end.
Lemma rw_size cs : forall st, snd (fold_left rw_step cs st) = fold_left sum_writes cs (snd st).
Proof.
  induction cs as [|c cs IH]; intros st; [reflexivity|].
  cbn [fold_left]. rewrite IH. destruct c; reflexivity.
Qed.

(* informational responses, then the final status, then the body: the logged status is the
   final one (not the first WriteHeader), the logged size the sum of the body writes *)
Theorem rw_code_is_final infos final ws :
  (forall c, In c ws -> exists n, c = RwWrite n) ->
  rw_run (map RwHeader infos ++ RwHeader final :: ws) = (final, fold_left sum_writes ws 0%Z).
Proof.
  intros Hw. rewrite rw_run_app. cbn [fold_left].
  rewrite (surjective_pairing (fold_left rw_step ws _)). f_equal.
  - rewrite rw_writes by exact Hw. reflexivity.
  - rewrite rw_size. cbn [rw_step snd]. unfold rw_run. rewrite rw_size. cbn [snd].
    f_equal. induction infos as [|k l IH]; [reflexivity | exact IH].
Qed.

Example rw_example :
  rw_run [RwHeader 103; RwHeader 102; RwHeader 201; RwWrite 100; RwWrite 51] = (201, 151)%Z.
Proof. reflexivity. Qed.
