(** Proofs about Model/GrpcKeepalive.v: quiet calls on a pooled backend connection (C16). *)
From Coq Require Import String List NArith Bool Lia.
From Fabio Require Import Lib.Outcome Lib.Bytes Model.GrpcPool Model.GrpcKeepalive Proofs.GrpcPool.
Import ListNotations.
Local Open Scope N_scope.

Ltac kproj := cbn [k_now k_since k_dormant k_streams k_strikes k_reset k_last k_pings k_dead
                   advance read_frame set_streams set_dormant] in *.

(* ---- handlePing ---- *)
Lemma handle_ping_fields pol c :
  let c' := handle_ping pol c in
  k_now c' = k_now c /\ k_since c' = k_since c /\ k_dormant c' = k_dormant c /\ k_streams c' = k_streams c /\
  k_pings c' = k_pings c /\ k_reset c' = false /\ k_last c' = Some (k_now c) /\
  k_strikes c' <= k_strikes c + 1 /\
  (k_dead c' = true -> k_dead c = true \/ 3 <= k_strikes c') /\
  (k_reset c = true -> k_strikes c' = 0 /\ k_dead c' = k_dead c).
Proof.
  unfold handle_ping. destruct (k_reset c) eqn:R; kproj.
  - repeat split; try reflexivity; try lia. intros H; now left.
  - set (gap := if (k_streams c =? 0) && negb (pol_permit pol) then idle_gap else pol_min pol).
    set (strike := match k_last c with Some l => k_now c <? l + gap | None => false end).
    repeat split; try reflexivity; try (destruct strike; lia); try discriminate.
    intros H. apply orb_true_iff in H. destruct H as [H|H]; [now left | right].
    unfold max_strikes in H. apply N.ltb_lt in H. lia.
Qed.

(* a ping the backend's policy has nothing against *)
Lemma handle_ping_welcome pol c :
  k_strikes c = 0 -> k_dead c = false ->
  (k_reset c = true \/
   ((k_streams c =? 0) && negb (pol_permit pol) = false /\
    match k_last c with Some l => l + pol_min pol <= k_now c | None => True end)) ->
  k_strikes (handle_ping pol c) = 0 /\ k_dead (handle_ping pol c) = false.
Proof.
  intros S D H. unfold handle_ping. destruct (k_reset c) eqn:R; kproj; [now split|].
  destruct H as [H|[G L]]; [discriminate|]. rewrite G.
  assert (E : match k_last c with Some l => k_now c <? l + pol_min pol | None => false end = false).
  { destruct (k_last c) as [l|]; [apply N.ltb_ge; exact L | reflexivity]. }
  rewrite E, S, D. now split.
Qed.

(* ---- a connection without keepalive ---- *)
Lemma kstep_none pol c e : k_dead c = false ->
  k_dead (kstep None pol c e) = false /\ k_pings (kstep None pol c e) = k_pings c.
Proof.
  intros D. unfold kstep. rewrite D. destruct e; try destruct (k_streams c =? 0); kproj; try (now split).
Qed.

Theorem no_keepalive_no_pings pol evs : forall c, k_dead c = false ->
  k_dead (krun None pol c evs) = false /\ k_pings (krun None pol c evs) = k_pings c.
Proof.
  unfold krun. induction evs as [|e r IH]; intros c D; cbn [fold_left]; [now split|].
  destruct (kstep_none pol c e D) as [D1 P1]. destruct (IH _ D1) as [D2 P2]. split; [exact D2 | congruence].
Qed.

(* ---- calls on a connection that stays up ----
   [K]: a set of connection states that the machine does not leave and in which the connection
   is open.  Whenever there is one (for the client's parameters and the backend's policy at
   hand), every call of every history is delivered whole, on one connection. *)
Section StaysUp.
Variables (v : qvia) (pol : policy) (K : kconn -> Prop).
Hypothesis K_fresh : K k_fresh.
Hypothesis K_renew : forall c, K c -> K (k_renew c).
Hypothesis K_step : forall c e, K c -> K (kstep (via_keepalive v) pol c e).
Hypothesis K_open : forall c, K c -> k_dead c = false.

Lemma qphases_up ph : forall c acc, K c ->
  K (fst (qphases (via_keepalive v) pol c ph acc)) /\
  snd (qphases (via_keepalive v) pol c ph acc) = acc ++ ph_msgs ph.
Proof.
  induction ph as [|p r IH]; intros c acc Kc; cbn [qphases ph_msgs fst snd].
  - split; [exact Kc | now rewrite app_nil_r].
  - pose proof (K_step c (ph_ev p) Kc) as K1. rewrite (K_open _ K1).
    destruct (IH (kstep (via_keepalive v) pol c (ph_ev p)) (match p with PMsg m => acc ++ [m] | _ => acc end) K1) as [K2 E].
    split; [exact K2|]. rewrite E. destruct p; cbn [ph_msgs]; try reflexivity. now rewrite <- app_assoc.
Qed.

Definition qgood (s : qstate) : Prop :=
  K (q_conn s) /\ q_ended s = 0 /\ q_begun s = (if q_up s then 1 else 0).

Definition via_bview (b : bview) : option bview := match v with QProxy => Some b | QDirect _ => None end.
(* what an item looks like when nothing gets in its way *)
Definition undisturbed_out (it : qitem) (o : qout) : Prop :=
  qo_alive o = true /\ qo_ended o = 0 /\
  match it with
  | QCall q => qo_begun o = 1 /\ qo_bv o = via_bview (fst (relay (qc_callin q))) /\ qo_cv o = snd (relay (qc_callin q))
  | QGap _ => qo_begun o <= 1 /\ qo_bv o = None
  end.

Lemma qstep_up s it : qgood s ->
  qgood (fst (qstep v pol s it)) /\ undisturbed_out it (snd (qstep v pol s it)) /\
  K (q_conn (fst (qstep v pol s it))) /\ qo_pings (snd (qstep v pol s it)) = k_pings (q_conn (fst (qstep v pol s it))).
Proof.
  intros (Kc & E0 & B). destruct it as [q|d]; cbn [qstep].
  - set (c0 := if q_up s then q_conn s else k_renew (q_conn s)).
    assert (K0 : K c0) by (unfold c0; destruct (q_up s); [exact Kc | now apply K_renew]).
    assert (Bg : (if q_up s then q_begun s else q_begun s + 1) = 1) by (destruct (q_up s); lia).
    destruct (relay (qc_callin q)) as [b cv] eqn:R.
    pose proof (K_step c0 KOpen K0) as K1.
    destruct (qphases_up (qc_phases q) _ [] K1) as [K2 Es].
    destruct (qphases (via_keepalive v) pol (kstep (via_keepalive v) pol c0 KOpen) (qc_phases q) []) as [c2 sent] eqn:Q.
    cbn [fst snd] in K2, Es. rewrite (K_open _ K2). cbn [fst snd].
    pose proof (K_step c2 KClose K2) as K3.
    unfold qgood, undisturbed_out, via_bview. cbn [q_conn q_ended q_begun q_up qo_alive qo_ended qo_begun qo_bv qo_cv qo_pings fst snd].
    rewrite Bg, E0, R. cbn [fst snd]. repeat split; try assumption; try reflexivity.
  - destruct (q_up s) eqn:U.
    + pose proof (K_step (q_conn s) (KWait d) Kc) as K1. rewrite (K_open _ K1). cbn [fst snd].
      unfold qgood, undisturbed_out. cbn [q_conn q_ended q_begun q_up qo_alive qo_ended qo_begun qo_bv qo_pings].
      repeat split; try assumption; try reflexivity; lia.
    + cbn [fst snd]. unfold qgood, undisturbed_out. cbn [qo_alive qo_ended qo_begun qo_bv qo_pings].
      try rewrite U. repeat split; try assumption; try reflexivity; lia.
Qed.

Lemma qrun_up items : forall s, qgood s -> Forall2 undisturbed_out items (qrun v pol s items).
Proof.
  induction items as [|it r IH]; intros s G; cbn [qrun]; [constructor|].
  destruct (qstep_up s it G) as (G1 & U & _). destruct (qstep v pol s it) as [s1 o]. cbn [fst snd] in *.
  constructor; [exact U | now apply IH].
Qed.

Lemma q_init_good : qgood q_init.
Proof. unfold qgood, q_init. cbn [q_conn q_ended q_begun q_up]. repeat split; [exact K_fresh | reflexivity..]. Qed.

Theorem stays_up_delivered items : Forall2 undisturbed_out items (qrun v pol q_init items).
Proof. apply qrun_up, q_init_good. Qed.
End StaysUp.

(* the property's words for an undisturbed call through the proxy *)
Definition delivered (it : qitem) (o : qout) : Prop :=
  qo_alive o = true /\ qo_ended o = 0 /\
  match it with
  | QCall q => qo_begun o = 1 /\ cv_msgs (qo_cv o) = ph_msgs (qc_phases q) /\
               exists b, qo_bv o = Some b /\ transparent (qc_callin q) b (qo_cv o)
  | QGap _ => qo_begun o <= 1
  end.

Lemma undisturbed_delivered it o : undisturbed_out QProxy it o -> delivered it o.
Proof.
  intros (A & E & H). unfold delivered. repeat split; try assumption. destruct it as [q|d].
  - destruct H as (B & Hb & Hc). split; [exact B|]. split.
    + rewrite Hc. unfold relay. cbn [snd cv_msgs]. apply ev_msgs_fwd.
    + exists (fst (relay (qc_callin q))). split; [exact Hb|]. rewrite Hc. apply relay_transparent.
  - tauto.
Qed.

(* THE CODE AS IT IS: no keepalive on backend connections.  Whatever the backend's policy, however
   long the calls of a history and the pauses between them are silent: no ping reaches the
   backend, every call is delivered whole (the backend has the caller's messages and metadata,
   the caller the backend's messages, headers, trailers and status), all on the one connection. *)
Definition k_untouched (c : kconn) : Prop := k_dead c = false /\ k_pings c = 0.

Lemma untouched_step pol c e : k_untouched c -> k_untouched (kstep (via_keepalive QProxy) pol c e).
Proof.
  intros [D P]. change (via_keepalive QProxy) with (@None kparams).
  destruct (kstep_none pol c e D) as [D1 P1]. split; [exact D1 | congruence].
Qed.

Theorem quiet_calls_delivered pol items :
  Forall2 delivered items (qrun QProxy pol q_init items) /\
  Forall (fun o => qo_pings o = 0) (qrun QProxy pol q_init items).
Proof.
  split.
  - pose proof (stays_up_delivered QProxy pol k_untouched (conj eq_refl eq_refl)
                  (fun c H => conj eq_refl (proj2 H)) (untouched_step pol) (fun c H => proj1 H) items) as F.
    induction F as [|it o ri ro H F IH]; constructor; [now apply undisturbed_delivered | exact IH].
  - assert (G : forall s, qgood k_untouched s -> Forall (fun o => qo_pings o = 0) (qrun QProxy pol s items)).
    { induction items as [|it r IH]; intros s Gs; cbn [qrun]; [constructor|].
      destruct (qstep_up QProxy pol k_untouched (fun c H => conj eq_refl (proj2 H)) (untouched_step pol) (fun c H => proj1 H) s it Gs)
        as (G1 & _ & K1 & P). destruct (qstep QProxy pol s it) as [s1 o]. cbn [fst snd] in *.
      constructor; [rewrite P; exact (proj2 K1) | now apply IH]. }
    apply G, q_init_good. now split.
Qed.

(* ---- what it takes to be struck out ----
   Whatever the client's parameters and the backend's policy: a keepalive ping needs 10 s of
   silence before it, and a connection is closed only by its third strike.  So a connection that
   the backend closed with too_many_pings has been up for 30 s at least and has sent 3 keepalive
   pings at least: no call shorter than that is ever affected (why such a thing passes every
   test that does not wait). *)
Record kinv (c : kconn) : Prop := {
  ki_strikes : k_strikes c <= k_pings c;
  ki_dead : k_dead c = true -> 3 <= k_strikes c;
  ki_time : 10 * k_pings c + k_since c <= k_now c;
  ki_dormant : k_dormant c = true -> 10 * k_pings c + 10 <= k_now c }.

Lemma kinv_advance d c : kinv c -> kinv (advance d c).
Proof. intros [A B C E]. constructor; kproj; try assumption; [lia | intros H; specialize (E H); lia]. Qed.
Lemma kinv_read c : kinv c -> kinv (read_frame c).
Proof. intros [A B C E]. constructor; kproj; try assumption. lia. Qed.
Lemma kinv_streams n c : kinv c -> kinv (set_streams n c).
Proof. intros [A B C E]. constructor; kproj; assumption. Qed.

(* a ping after [T >= 10] seconds of silence (or on waking up) *)
Lemma kinv_ping pol c : kinv c -> k_dead c = false -> k_dormant c = false ->
  10 * (k_pings c + 1) <= k_now c -> kinv (ka_ping pol c).
Proof.
  intros [A B C E] D Dm Tm. pose proof (handle_ping_fields pol c) as F. cbv zeta in F.
  destruct F as (F1 & F2 & F3 & F4 & F5 & F6 & F7 & F8 & F9 & _).
  unfold ka_ping. constructor; kproj.
  - lia.
  - intros H. destruct (F9 H) as [H1|H1]; [congruence | exact H1].
  - rewrite F5, F1. lia.
  - rewrite F3, Dm. discriminate.
Qed.

Lemma kinv_pings pol T n : 10 <= T -> forall c, kinv c -> k_dormant c = false ->
  kinv (ka_pings pol T n c) /\ k_dormant (ka_pings pol T n c) = false.
Proof.
  intros HT. induction n as [|n IH]; intros c I Dm; cbn [ka_pings]; [now split|].
  destruct (k_dead c) eqn:D; [now split|].
  assert (I1 : kinv (ka_ping pol (advance (T - k_since c) c))).
  { apply kinv_ping; kproj; try assumption; [now apply kinv_advance|].
    destruct I as [_ _ C _]. lia. }
  apply IH; [exact I1|]. unfold ka_ping. kproj.
  pose proof (handle_ping_fields pol (advance (T - k_since c) c)) as F. cbv zeta in F.
  destruct F as (_ & _ & F3 & _). rewrite F3. kproj. exact Dm.
Qed.

Lemma kinv_wait ka pol d c : kinv c -> kinv (kwait ka pol d c).
Proof.
  intros I. unfold kwait. destruct ka as [k|]; [|now apply kinv_advance].
  assert (HT : 10 <= eff_time k) by (unfold eff_time, ka_floor; lia).
  destruct (k_dormant c) eqn:Dm; [now apply kinv_advance|].
  destruct ((0 <? k_streams c) || ka_permit k).
  - destruct ((k_since c + d) / eff_time k =? 0); [now apply kinv_advance|].
    destruct (kinv_pings pol (eff_time k) (N.to_nat ((k_since c + d) / eff_time k)) HT c I Dm) as [I1 _].
    destruct (k_dead _); [exact I1 | now apply kinv_advance].
  - destruct (eff_time k <=? k_since c + d) eqn:E; [|now apply kinv_advance].
    apply N.leb_le in E. destruct I as [A B C _]. constructor; kproj; try assumption; lia.
Qed.

Lemma kinv_step ka pol c e : kinv c -> kinv (kstep ka pol c e).
Proof.
  intros I. unfold kstep. destruct (k_dead c) eqn:D; [exact I|]. destruct e.
  - (* KOpen *) destruct ka as [k|]; [|now apply kinv_streams].
    destruct (k_dormant c) eqn:Dm; [|now apply kinv_streams].
    apply kinv_ping; kproj; try assumption; try reflexivity.
    + destruct I as [A B C E]. constructor; kproj; try assumption. discriminate.
    + destruct I as [_ _ _ E]. specialize (E Dm). lia.
  - (* KHeader *) destruct (k_streams c =? 0); [exact I | now apply kinv_read].
  - (* KData *) destruct (k_streams c =? 0); [exact I|]. pose proof (kinv_read c I) as [A B C E].
    pose proof (handle_ping_fields pol (read_frame c)) as F. cbv zeta in F.
    destruct F as (F1 & F2 & F3 & F4 & F5 & F6 & F7 & F8 & F9 & R). specialize (R eq_refl). destruct R as [R1 R2].
    constructor.
    + rewrite R1. lia.
    + rewrite R2. kproj. congruence.
    + rewrite F5, F1, F2. exact C.
    + rewrite F3, F5, F1. exact E.
  - (* KClose *) destruct (k_streams c =? 0); [exact I | now apply kinv_streams, kinv_read].
  - (* KWait *) now apply kinv_wait.
Qed.

Lemma kinv_fresh : kinv k_fresh.
Proof. constructor; cbn; [lia | discriminate | lia | discriminate]. Qed.

Theorem struck_out_needs_three_pings_thirty_seconds ka pol evs :
  let c := krun ka pol k_fresh evs in
  k_dead c = true -> 3 <= k_pings c /\ 30 <= k_now c.
Proof.
  assert (G : forall c, kinv c -> kinv (krun ka pol c evs)).
  { unfold krun. induction evs as [|e r IH]; intros c I; cbn [fold_left]; [exact I | apply IH, kinv_step, I]. }
  intros c D. destruct (G _ kinv_fresh) as [A B C _]. fold c in A, B, C. specialize (B D).
  split; lia.
Qed.

(* ---- which keepalive parameters are safe ----
   A client whose effective ping interval is not below the backend's MinTime, and that pings
   without a call in flight only if the backend permits it, is never struck out: no strike at
   all, in any history. *)
Record ksafe (T : N) (c : kconn) : Prop := {
  ks_strikes : k_strikes c = 0;
  ks_dead : k_dead c = false;
  ks_dormant : k_dormant c = true -> k_streams c = 0;
  ks_last : forall l, k_last c = Some l ->
            l + k_since c <= k_now c /\ (k_dormant c = true -> l + T <= k_now c) }.

Section Safe.
Variables (k : kparams) (pol : policy).
Hypothesis min_respected : pol_min pol <= eff_time k.
Hypothesis idle_respected : ka_permit k = false \/ pol_permit pol = true.
Let T := eff_time k.

Lemma ksafe_advance d c : ksafe T c -> ksafe T (advance d c).
Proof.
  intros [A B Z C]. constructor; kproj; try assumption. intros l L. destruct (C l L) as [C1 C2].
  split; [lia | intros H; specialize (C2 H); lia].
Qed.
Lemma ksafe_read c : ksafe T c -> ksafe T (read_frame c).
Proof.
  intros [A B Z C]. constructor; kproj; try assumption. intros l L. destruct (C l L) as [C1 C2].
  split; [lia | exact C2].
Qed.
Lemma ksafe_streams n c : ksafe T c -> k_dormant c = false -> ksafe T (set_streams n c).
Proof. intros [A B Z C] Dm. constructor; kproj; try assumption. congruence. Qed.

(* a keepalive ping that comes when the client has read nothing for T seconds (or wakes up after
   as long), with a call in flight or with the backend's leave to ping without one *)
Lemma ksafe_ping c : ksafe T c -> k_dormant c = false ->
  (0 <? k_streams c) || ka_permit k = true ->
  (forall l, k_last c = Some l -> l + T <= k_now c) ->
  ksafe T (ka_ping pol c).
Proof.
  intros [A B Z C] Dm Act L.
  assert (W : k_strikes (handle_ping pol c) = 0 /\ k_dead (handle_ping pol c) = false).
  { apply handle_ping_welcome; try assumption. destruct (k_reset c); [now left | right]. split.
    - apply orb_true_iff in Act. destruct Act as [S|P].
      + apply N.ltb_lt in S. assert (E : (k_streams c =? 0) = false) by (apply N.eqb_neq; lia). now rewrite E.
      + destruct idle_respected as [H|H]; [congruence | rewrite H; apply andb_false_r].
    - destruct (k_last c) as [l|] eqn:El; [|exact I]. specialize (L l eq_refl). fold T in min_respected. lia. }
  destruct W as [W1 W2]. pose proof (handle_ping_fields pol c) as F. cbv zeta in F.
  destruct F as (F1 & F2 & F3 & F4 & F5 & F6 & F7 & _).
  unfold ka_ping. constructor; kproj; try assumption; [rewrite F3, Dm; discriminate|].
  intros l El. rewrite F7 in El. injection El as <-.
  rewrite F3, Dm, F1. split; [lia | discriminate].
Qed.

Lemma ksafe_pings n : forall c, ksafe T c -> k_dormant c = false -> (0 <? k_streams c) || ka_permit k = true ->
  ksafe T (ka_pings pol T n c) /\ k_dormant (ka_pings pol T n c) = false.
Proof.
  induction n as [|n IH]; intros c S Dm Act; cbn [ka_pings]; [now split|].
  destruct (k_dead c) eqn:D; [now split|].
  pose proof (handle_ping_fields pol (advance (T - k_since c) c)) as F. cbv zeta in F.
  destruct F as (_ & _ & F3 & F4 & _).
  apply IH.
  - apply ksafe_ping; kproj; try assumption; [now apply ksafe_advance|].
    intros l El. destruct S as [_ _ _ C]. destruct (C l El) as [C1 _]. lia.
  - unfold ka_ping. kproj. rewrite F3. kproj. exact Dm.
  - unfold ka_ping. kproj. rewrite F4. kproj. exact Act.
Qed.

Lemma ksafe_wait d c : ksafe T c -> ksafe T (kwait (Some k) pol d c).
Proof.
  intros S. unfold kwait. fold T.
  destruct (k_dormant c) eqn:Dm; [now apply ksafe_advance|].
  destruct ((0 <? k_streams c) || ka_permit k) eqn:Act.
  - destruct ((k_since c + d) / T =? 0); [now apply ksafe_advance|].
    destruct (ksafe_pings (N.to_nat ((k_since c + d) / T)) c S Dm Act) as [S1 _].
    destruct (k_dead _); [exact S1 | now apply ksafe_advance].
  - destruct (T <=? k_since c + d) eqn:E; [|now apply ksafe_advance].
    apply N.leb_le in E. destruct S as [A B Z C]. apply orb_false_iff in Act. destruct Act as [Act _].
    apply N.ltb_ge in Act. constructor; kproj; try assumption; [intros _; lia|].
    intros l El. destruct (C l El) as [C1 _]. split; [lia | intros _; lia].
Qed.

Lemma ksafe_step c e : ksafe T c -> ksafe T (kstep (Some k) pol c e).
Proof.
  intros S. unfold kstep. rewrite (ks_dead _ _ S).
  assert (Act : (k_streams c =? 0) = false -> k_dormant c = false).
  { intros H. apply N.eqb_neq in H. destruct (k_dormant c) eqn:Dm; [|reflexivity]. destruct S as [_ _ Z _]. now specialize (Z Dm). }
  destruct e.
  - (* KOpen *) destruct (k_dormant c) eqn:Dm; [|now apply ksafe_streams].
    apply ksafe_ping; kproj; try reflexivity.
    + destruct S as [A B Z C]. constructor; kproj; try assumption; [discriminate|]. intros l El. destruct (C l El) as [C1 _].
      split; [exact C1 | discriminate].
    + apply orb_true_iff. left. apply N.ltb_lt. lia.
    + intros l El. destruct S as [_ _ _ C]. destruct (C l El) as [_ C2]. exact (C2 Dm).
  - (* KHeader *) destruct (k_streams c =? 0); [exact S | now apply ksafe_read].
  - (* KData *) destruct (k_streams c =? 0) eqn:E0; [exact S|]. specialize (Act eq_refl).
    pose proof (ksafe_read c S) as [A B Z C].
    destruct (handle_ping_welcome pol (read_frame c) A B (or_introl eq_refl)) as [W1 W2].
    pose proof (handle_ping_fields pol (read_frame c)) as F. cbv zeta in F.
    destruct F as (F1 & F2 & F3 & F4 & F5 & F6 & F7 & _).
    constructor; try assumption. intros l El. rewrite F7 in El. injection El as <-.
    rewrite F3, F1, F2. kproj. split; [lia | congruence].
  - (* KClose *) destruct (k_streams c =? 0) eqn:E0; [exact S|]. specialize (Act eq_refl).
    apply ksafe_streams; [now apply ksafe_read | kproj; exact Act].
  - (* KWait *) now apply ksafe_wait.
Qed.

Lemma ksafe_fresh : ksafe T k_fresh.
Proof. constructor; cbn; [reflexivity | reflexivity | discriminate | discriminate]. Qed.
Lemma ksafe_renew c : ksafe T c -> ksafe T (k_renew c).
Proof. intros _. constructor; cbn; [reflexivity | reflexivity | discriminate | discriminate]. Qed.

Theorem respectful_keepalive_never_struck_out evs :
  let c := krun (Some k) pol k_fresh evs in k_dead c = false /\ k_strikes c = 0.
Proof.
  assert (G : forall c, ksafe T c -> ksafe T (krun (Some k) pol c evs)).
  { unfold krun. induction evs as [|e r IH]; intros c S; cbn [fold_left]; [exact S | apply IH, ksafe_step, S]. }
  intros c. destruct (G _ ksafe_fresh) as [A B _ _]. now split.
Qed.

(* ... and then every call of every history is delivered whole on one connection, whoever the client is *)
Theorem respectful_keepalive_delivered items :
  Forall2 (undisturbed_out (QDirect (Some k))) items (qrun (QDirect (Some k)) pol q_init items).
Proof.
  apply (stays_up_delivered (QDirect (Some k)) pol (ksafe T)).
  - exact ksafe_fresh.
  - exact ksafe_renew.
  - intros c e. cbn [via_keepalive]. apply ksafe_step.
  - intros c S. exact (ks_dead _ _ S).
Qed.
End Safe.

(* ---- non-vacuity, and the variant that is not safe ---- *)
Definition ex_watch (quiet : N) : qcall :=
  mkqcall [(bs "x-a", [bs "1"])] (bs "/demo.Events/Watch") [bs "watch"] [(bs "h", [bs "v"])]
          [PHdr; PMsg (bs "first"); PQuiet quiet; PMsg (bs "second")] [(bs "x-events", [bs "2"])] 0 [].

(* the code as it is: 42 s (or a day) of silence between two events, stock backend: both events,
   the trailer and OK arrive, no ping, one connection *)
(* alive, messages / trailers / status code at the caller, keepalive pings at the backend so far,
   connections begun / ended at the backend so far *)
Definition qsum (o : qout) :=
  (qo_alive o, cv_msgs (qo_cv o), cv_trl (qo_cv o), cv_code (qo_cv o), qo_pings o, qo_begun o, qo_ended o).

Example quiet_call_nonvacuous :
  map qsum
      (qrun QProxy stock_policy q_init [QCall (ex_watch 42); QGap 86400; QCall (ex_watch 86400)])
  = [(true, [bs "first"; bs "second"], [(bs "x-events", [bs "2"])], 0, 0, 1, 0);
     (true, [], [], 0, 0, 1, 0);
     (true, [bs "first"; bs "second"], [(bs "x-events", [bs "2"])], 0, 0, 1, 0)].
Proof. vm_compute. reflexivity. Qed.

(* NOT the code: the same call on a connection dialled with keepalive Time 10 s / Timeout 5 s
   (PermitWithoutStream false) to a stock backend.  Pings after 10, 20 and 30 s of silence, the
   third strike closes the connection: the caller has "first" and Unavailable, "second", the
   trailer and the status are lost; the next call needs a second connection.  With 25 s of
   silence, or with a backend whose MinTime is 10 s, nothing is lost. *)
Definition ka_10_5 : kparams := mkka 10 5 false.
Theorem keepalive_variant_strikes_out :
  map qsum
      (qrun (QDirect (Some ka_10_5)) stock_policy q_init [QCall (ex_watch 42); QCall (ex_watch 25)])
  = [(false, [bs "first"], [], code_unavailable, 3, 1, 1);
     (true, [bs "first"; bs "second"], [(bs "x-events", [bs "2"])], 0, 5, 2, 1)]
  /\ ~ Forall2 delivered [QCall (ex_watch 42)] (qrun (QDirect (Some ka_10_5)) stock_policy q_init [QCall (ex_watch 42)])
  /\ map qsum (qrun (QDirect (Some ka_10_5)) (mkpol 10 false) q_init [QCall (ex_watch 42)])
     = [(true, [bs "first"; bs "second"], [(bs "x-events", [bs "2"])], 0, 4, 1, 0)].
Proof.
  split; [vm_compute; reflexivity|]. split; [|vm_compute; reflexivity].
  intros H. inversion H as [|it o ri ro D _]; subst. destruct D as [A _].
  revert A. vm_compute. discriminate.
Qed.
