(** Several Log calls through one logger (Model/LoggerSink.v): with the mutex the writer
    receives whole lines, one per call, whatever the schedule and however the writer cuts
    the lines; with a read lock it does not. *)
From Coq Require Import String List NArith Bool Lia Permutation PeanoNat.
From Fabio Require Import Lib.Outcome Lib.Bytes Model.Logger Model.LoggerSink.
Import ListNotations.
Local Open Scope N_scope.

(* ---------- upd ---------- *)
Lemma nth_error_upd_eq {A} (l : list A) t x y :
  nth_error l t = Some y -> nth_error (upd t x l) t = Some x.
Proof.
  revert t. induction l as [|a l IH]; intros [|t] H; cbn in *; try discriminate; auto.
Qed.

Lemma nth_error_upd_neq {A} (l : list A) t i x :
  i <> t -> nth_error (upd t x l) i = nth_error l i.
Proof.
  revert t i. induction l as [|a l IH]; intros [|t] [|i] H; cbn; auto; try congruence.
Qed.

Lemma map_upd_same {A B} (f : A -> B) (l : list A) t x y :
  nth_error l t = Some y -> f x = f y -> map f (upd t x l) = map f l.
Proof.
  revert t. induction l as [|a l IH]; intros [|t] H E; cbn in *; try discriminate; auto.
  - injection H as ->. now rewrite E.
  - f_equal. eauto.
Qed.

Lemma filter_upd_keep {A} (P : A -> bool) (l : list A) t x y :
  nth_error l t = Some y -> P y = false -> P x = false -> filter P (upd t x l) = filter P l.
Proof.
  revert t. induction l as [|a l IH]; intros [|t] H Hy Hx; cbn in *; try discriminate; auto.
  - injection H as ->. now rewrite Hx, Hy.
  - destruct (P a); [f_equal|]; eauto.
Qed.

Lemma filter_upd_add {A} (P : A -> bool) (l : list A) t x y :
  nth_error l t = Some y -> P y = false -> P x = true ->
  Permutation (filter P (upd t x l)) (x :: filter P l).
Proof.
  revert t. induction l as [|a l IH]; intros [|t] H Hy Hx; cbn in *; try discriminate.
  - injection H as ->. now rewrite Hx, Hy.
  - destruct (P a).
    + etransitivity; [apply perm_skip; eapply IH; eauto|apply perm_swap].
    + eauto.
Qed.

Lemma forallb_filter_id {A} (P : A -> bool) l : forallb P l = true -> filter P l = l.
Proof.
  induction l as [|a l IH]; cbn; auto. intros H. apply andb_true_iff in H as [Ha Hl].
  rewrite Ha. f_equal; auto.
Qed.

Lemma forallb_false_nth {A} (P : A -> bool) l :
  forallb P l = false -> exists i x, nth_error l i = Some x /\ P x = false.
Proof.
  induction l as [|a l IH]; cbn; [discriminate|]. destruct (P a) eqn:Ha; cbn.
  - intros H. destruct (IH H) as (i & x & Hi & Hx). now exists (S i), x.
  - intros _. now exists O, a.
Qed.

Lemma filter_split_perm {A} (P : A -> bool) l :
  Permutation (filter P l ++ filter (fun x => negb (P x)) l) l.
Proof.
  induction l as [|a l IH]; cbn; auto. destruct (P a); cbn.
  - now apply perm_skip.
  - symmetry. apply Permutation_cons_app. now symmetry.
Qed.

(* ---------- a call's line never changes ---------- *)
Lemma sink_step_lines m st t :
  map tline (sk_threads (fst (sink_step m st t))) = map tline (sk_threads st).
Proof.
  unfold sink_step. destruct (nth_error (sk_threads st) t) as [ts|] eqn:Hn; [|reflexivity].
  destruct ts as [ps|pre [|p rest]|l]; cbn [fst sk_threads]; try reflexivity.
  - destruct m; [destruct (lock_taken st)|]; cbn [fst sk_threads]; try reflexivity;
      eapply map_upd_same; eauto.
  - eapply map_upd_same; eauto. cbn [tline concat]. now rewrite app_nil_r.
  - eapply map_upd_same; eauto. cbn [tline concat]. now rewrite app_assoc.
Qed.

Lemma sink_run_lines m sched : forall st,
  map tline (sk_threads (fst (sink_run m st sched))) = map tline (sk_threads st).
Proof.
  induction sched as [|t r IH]; intros st; cbn [sink_run]; [reflexivity|].
  pose proof (sink_step_lines m st t) as Hs.
  destruct (sink_step m st t) as [st1 b]. specialize (IH st1).
  destruct (sink_run m st1 r) as [st2 bs]. cbn [fst] in *. now rewrite IH.
Qed.

Lemma init_lines pieces : map tline (sk_threads (sink_init pieces)) = map (@concat N) pieces.
Proof. cbn [sink_init sk_threads]. rewrite map_map. reflexivity. Qed.

(* ---------- the invariant of the code as it is (sync.Mutex) ---------- *)
(* what the call that is inside Write has appended of its line so far *)
Definition cur (st : sstate) : str :=
  match sk_lock st with
  | Some t => match nth_error (sk_threads st) t with Some ts => wpre ts | None => [] end
  | None => []
  end.

Record inv (st : sstate) : Prop := {
  inv_holder : forall i ts, nth_error (sk_threads st) i = Some ts -> is_writing ts = true ->
                            sk_lock st = Some i;
  inv_held : forall t, sk_lock st = Some t ->
                       exists pre rest, nth_error (sk_threads st) t = Some (TWriting pre rest);
  inv_sink : sk_sink st = concat (sk_done st) ++ cur st;
  inv_done : Permutation (sk_done st) (map tline (filter is_done (sk_threads st))) }.

Lemma inv_init pieces : inv (sink_init pieces).
Proof.
  split; cbn [sink_init sk_threads sk_lock sk_sink sk_done].
  - intros i ts Hi Hw. apply nth_error_In in Hi. apply in_map_iff in Hi as (ps & <- & _). discriminate.
  - discriminate.
  - reflexivity.
  - induction pieces; cbn; auto.
Qed.

Lemma inv_step st t : inv st -> inv (fst (sink_step Exclusive st t)).
Proof.
  intros [Ha Hd Hs Hc]. unfold sink_step.
  destruct (nth_error (sk_threads st) t) as [ts|] eqn:Hn; [|now split].
  destruct ts as [ps|pre [|p rest]|l].
  - (* mu.Lock() *)
    unfold lock_taken. destruct (sk_lock st) as [h|] eqn:Hl; cbn [fst]; [split; auto; now rewrite Hl|].
    split; cbn [sk_threads sk_lock sk_sink sk_done].
    + intros i ts Hi Hw. destruct (Nat.eq_dec i t) as [->|Hne]; [reflexivity|].
      rewrite nth_error_upd_neq in Hi by assumption. specialize (Ha _ _ Hi Hw). discriminate.
    + intros t0 E. injection E as <-. exists [], ps. eapply nth_error_upd_eq; eauto.
    + unfold cur in *. cbn [sk_lock sk_threads]. rewrite (nth_error_upd_eq _ _ _ _ Hn). cbn [wpre].
      rewrite Hs, Hl. reflexivity.
    + erewrite filter_upd_keep; eauto.
  - (* Write returns, mu.Unlock() *)
    cbn [fst]. pose proof (Ha _ _ Hn eq_refl) as Hl.
    split; cbn [sk_threads sk_lock sk_sink sk_done].
    + intros i ts Hi Hw. destruct (Nat.eq_dec i t) as [->|Hne].
      * rewrite (nth_error_upd_eq _ _ _ _ Hn) in Hi. injection Hi as <-. discriminate.
      * rewrite nth_error_upd_neq in Hi by assumption. specialize (Ha _ _ Hi Hw). congruence.
    + discriminate.
    + unfold cur in *. cbn [sk_lock]. rewrite Hs, Hl, Hn. cbn [wpre].
      rewrite concat_app. cbn [concat]. now rewrite !app_nil_r.
    + symmetry. etransitivity. { apply Permutation_map. eapply filter_upd_add; eauto. }
      cbn [map tline]. etransitivity. { apply perm_skip. symmetry. exact Hc. }
      apply Permutation_cons_append.
  - (* the writer takes the next piece *)
    cbn [fst]. pose proof (Ha _ _ Hn eq_refl) as Hl.
    split; cbn [sk_threads sk_lock sk_sink sk_done].
    + intros i ts Hi Hw. destruct (Nat.eq_dec i t) as [->|Hne]; [assumption|].
      rewrite nth_error_upd_neq in Hi by assumption. eauto.
    + intros t0 E. rewrite Hl in E. injection E as <-. exists (pre ++ p), rest.
      eapply nth_error_upd_eq; eauto.
    + unfold cur in *. cbn [sk_lock sk_threads]. rewrite Hl in *.
      rewrite (nth_error_upd_eq _ _ _ _ Hn). rewrite Hn in Hs. cbn [wpre] in *.
      rewrite Hs. now rewrite !app_assoc.
    + erewrite filter_upd_keep; eauto.
  - now split.
Qed.

Lemma inv_run sched : forall st, inv st -> inv (fst (sink_run Exclusive st sched)).
Proof.
  induction sched as [|t r IH]; intros st H; cbn [sink_run]; [assumption|].
  pose proof (inv_step st t H) as H1.
  destruct (sink_step Exclusive st t) as [st1 b]. specialize (IH st1 H1).
  destruct (sink_run Exclusive st1 r) as [st2 bs]. exact IH.
Qed.

(* at most one call is inside Write, whatever the schedule *)
Theorem sink_exclusive_one_writer pieces sched i j tsi tsj :
  let st := fst (sink_run Exclusive (sink_init pieces) sched) in
  nth_error (sk_threads st) i = Some tsi -> is_writing tsi = true ->
  nth_error (sk_threads st) j = Some tsj -> is_writing tsj = true -> i = j.
Proof.
  intros st Hi Wi Hj Wj. pose proof (inv_run sched _ (inv_init pieces)) as H.
  pose proof (inv_holder _ H _ _ Hi Wi) as E1. pose proof (inv_holder _ H _ _ Hj Wj) as E2.
  fold st in E1, E2. congruence.
Qed.

(* at every moment, under every schedule and every way of cutting the lines: what the
   writer has received is whole lines of distinct calls followed by the beginning of the
   line of ONE further call (or by nothing) *)
Theorem sink_exclusive_any_moment pieces sched :
  let st := fst (sink_run Exclusive (sink_init pieces) sched) in
  exists whole part others,
    sk_sink st = concat whole ++ part /\
    Permutation (whole ++ others) (map (@concat N) pieces) /\
    (part = [] \/ exists l r, In l others /\ l = part ++ r).
Proof.
  intros st. pose proof (inv_run sched _ (inv_init pieces)) as H. fold st in H.
  destruct H as [Ha Hd Hs Hc].
  exists (sk_done st), (cur st), (map tline (filter (fun x => negb (is_done x)) (sk_threads st))).
  split; [exact Hs|]. split.
  - assert (Hlines : map tline (sk_threads st) = map (@concat N) pieces)
      by (unfold st; rewrite sink_run_lines; apply init_lines).
    rewrite <- Hlines. etransitivity; [apply Permutation_app_tail; exact Hc|].
    rewrite <- map_app. apply Permutation_map. apply filter_split_perm.
  - unfold cur. destruct (sk_lock st) as [t|] eqn:Hl; [|now left].
    destruct (Hd t eq_refl) as (pre & rest & Hn). rewrite Hn. cbn [wpre]. right.
    exists (tline (TWriting pre rest)), (concat rest). split; [|reflexivity].
    apply in_map. apply filter_In. split; [eapply nth_error_In; eauto|reflexivity].
Qed.

(* once every call has returned: the log is the concatenation of the calls' lines in some
   order, i.e. every line is there, whole, exactly once *)
Theorem sink_exclusive_whole_lines pieces sched :
  let st := fst (sink_run Exclusive (sink_init pieces) sched) in
  all_done st = true ->
  exists perm, Permutation perm (map (@concat N) pieces) /\ sk_sink st = concat perm.
Proof.
  intros st Hall. pose proof (inv_run sched _ (inv_init pieces)) as H. fold st in H.
  destruct H as [Ha Hd Hs Hc]. unfold all_done in Hall.
  assert (Hl : sk_lock st = None).
  { destruct (sk_lock st) as [t|] eqn:Hl; [|reflexivity].
    destruct (Hd t eq_refl) as (pre & rest & Hn). apply nth_error_In in Hn.
    rewrite forallb_forall in Hall. specialize (Hall _ Hn). discriminate. }
  exists (sk_done st). split.
  - assert (Hlines : map tline (sk_threads st) = map (@concat N) pieces)
      by (unfold st; rewrite sink_run_lines; apply init_lines).
    rewrite <- Hlines. rewrite (forallb_filter_id _ _ Hall) in Hc. exact Hc.
  - rewrite Hs. unfold cur. rewrite Hl. now rewrite app_nil_r.
Qed.

(* the lines are those of the events (Model/Logger.v) *)
Theorem sink_exclusive_logs_each_event_once format es pieces sched :
  map (log_line format) es = map (fun ps => Ok (concat ps)) pieces ->
  let st := fst (sink_run Exclusive (sink_init pieces) sched) in
  all_done st = true ->
  exists perm, Permutation (map (@Ok str) perm) (map (log_line format) es) /\ sk_sink st = concat perm.
Proof.
  intros E st Hall. destruct (sink_exclusive_whole_lines pieces sched Hall) as (perm & Hp & Hs).
  exists perm. split; [|exact Hs]. rewrite E. rewrite <- (map_map (@concat N) (@Ok str)).
  now apply Permutation_map.
Qed.

(* no deadlock: while a call has not returned, some call can take a step *)
Theorem sink_exclusive_progress pieces sched :
  let st := fst (sink_run Exclusive (sink_init pieces) sched) in
  all_done st = false -> exists t, snd (sink_step Exclusive st t) = true.
Proof.
  intros st Hall. pose proof (inv_run sched _ (inv_init pieces)) as H. fold st in H.
  destruct H as [Ha Hd Hs Hc]. unfold all_done in Hall.
  destruct (sk_lock st) as [t|] eqn:Hl.
  - destruct (Hd t eq_refl) as (pre & rest & Hn). exists t. unfold sink_step. rewrite Hn.
    now destruct rest.
  - destruct (forallb_false_nth _ _ Hall) as (i & ts & Hi & Hnd). exists i.
    unfold sink_step. rewrite Hi. destruct ts as [ps|pre rest|l]; try discriminate.
    + unfold lock_taken. now rewrite Hl.
    + specialize (Ha _ _ Hi eq_refl). congruence.
Qed.

(* ---------- the sequential schedule finishes, for every list of calls ---------- *)
Lemma run_app m s1 : forall st s2,
  fst (sink_run m st (s1 ++ s2)) = fst (sink_run m (fst (sink_run m st s1)) s2).
Proof.
  induction s1 as [|t r IH]; intros st s2; cbn [app sink_run fst]; [reflexivity|].
  destruct (sink_step m st t) as [st1 b]. specialize (IH st1 s2).
  destruct (sink_run m st1 (r ++ s2)) as [sa ba]. destruct (sink_run m st1 r) as [sb bb].
  cbn [fst] in *. exact IH.
Qed.

Lemma run_cons m st t r :
  fst (sink_run m st (t :: r)) = fst (sink_run m (fst (sink_step m st t)) r).
Proof.
  cbn [sink_run]. destruct (sink_step m st t) as [st1 b]. cbn [fst].
  destruct (sink_run m st1 r) as [s2 b2]. reflexivity.
Qed.

Lemma upd_middle {A} (a : list A) x y b : upd (List.length a) x (a ++ y :: b) = a ++ x :: b.
Proof. induction a as [|c a IH]; cbn; [reflexivity|now rewrite IH]. Qed.

Lemma nth_error_middle {A} (a : list A) y b : nth_error (a ++ y :: b) (List.length a) = Some y.
Proof. induction a as [|c a IH]; cbn; auto. Qed.

(* one call alone inside Write runs to its end *)
Lemma run_writer a b rest : forall pre sink dn,
  fst (sink_run Exclusive
         {| sk_threads := a ++ TWriting pre rest :: b; sk_lock := Some (List.length a);
            sk_sink := sink; sk_done := dn |}
         (repeat (List.length a) (S (List.length rest))))
  = {| sk_threads := a ++ TDone (pre ++ concat rest) :: b; sk_lock := None;
       sk_sink := sink ++ concat rest; sk_done := dn ++ [pre ++ concat rest] |}.
Proof.
  induction rest as [|p rest IH]; intros pre sink dn.
  - cbn [List.length repeat]. rewrite run_cons. cbn [sink_run fst]. unfold sink_step. cbn [sk_threads].
    rewrite nth_error_middle. cbn [sk_threads sk_sink sk_done fst]. rewrite upd_middle.
    cbn [concat]. now rewrite !app_nil_r.
  - change (repeat (List.length a) (S (List.length (p :: rest))))
      with (List.length a :: repeat (List.length a) (S (List.length rest))).
    rewrite run_cons. unfold sink_step. cbn [sk_threads].
    rewrite nth_error_middle. cbn [sk_threads sk_sink sk_done sk_lock fst]. rewrite upd_middle.
    rewrite IH. cbn [concat]. now rewrite !app_assoc.
Qed.

Lemma run_seq pieces : forall dn sink,
  fst (sink_run Exclusive
         {| sk_threads := map TDone dn ++ map TReady pieces; sk_lock := None;
            sk_sink := sink; sk_done := dn |}
         (seq_sched (List.length dn) pieces))
  = {| sk_threads := map TDone (dn ++ map (@concat N) pieces); sk_lock := None;
       sk_sink := sink ++ concat (map (@concat N) pieces);
       sk_done := dn ++ map (@concat N) pieces |}.
Proof.
  induction pieces as [|ps r IH]; intros dn sink.
  - cbn. now rewrite !app_nil_r.
  - cbn [seq_sched map]. rewrite run_app.
    change (repeat (List.length dn) (S (S (List.length ps))))
      with (List.length dn :: repeat (List.length dn) (S (List.length ps))).
    rewrite run_cons. unfold sink_step. cbn [sk_threads].
    rewrite <- (map_length TDone dn).
    rewrite nth_error_middle. unfold lock_taken. cbn [sk_lock sk_threads sk_sink sk_done fst].
    rewrite upd_middle. rewrite run_writer. cbn [app].
    specialize (IH (dn ++ [concat ps]) (sink ++ concat ps)).
    rewrite map_app in IH. cbn [map] in IH. rewrite <- app_assoc in IH. cbn [app] in IH.
    rewrite app_length in IH. cbn [List.length] in IH.
    rewrite map_length. replace (S (List.length dn)) with (List.length dn + 1)%nat by lia.
    rewrite IH. cbn [map concat]. now rewrite <- !app_assoc.
Qed.

(* every list of calls, however their lines are cut, can be logged to the end, and the
   sequential schedule logs the lines in the order of the calls *)
Theorem sink_exclusive_sequential pieces :
  let st := fst (sink_run Exclusive (sink_init pieces) (seq_sched 0 pieces)) in
  all_done st = true /\ sk_sink st = concat (map (@concat N) pieces).
Proof.
  pose proof (run_seq pieces [] []) as H. cbn [map app List.length] in H.
  unfold sink_init. cbn zeta. rewrite H. cbn [sk_threads sk_sink all_done]. split; [|reflexivity].
  apply forallb_forall. intros x Hx. apply in_map_iff in Hx as (l & <- & _). reflexivity.
Qed.

(* ---------- the writer's cutting loses nothing ---------- *)
Lemma carve_concat sizes : forall s, concat (carve sizes s) = s.
Proof.
  induction sizes as [|k r IH]; intros s; cbn [carve concat]; [apply app_nil_r|].
  rewrite IH. apply firstn_skipn.
Qed.

Lemma carve_all_lines lines : forall cuts, map (@concat N) (carve_all cuts lines) = lines.
Proof.
  induction lines as [|l ls IH]; intros cuts; cbn [carve_all map]; [reflexivity|].
  destruct cuts as [|c cs]; cbn [map concat]; rewrite IH; f_equal;
    [apply app_nil_r|apply carve_concat].
Qed.

(* ---------- the test [whole_lines] is the specification ---------- *)
Lemma picks_perm {A} (l : list A) x r : In (x, r) (picks l) -> Permutation (x :: r) l.
Proof.
  revert x r. induction l as [|a l IH]; intros x r H; cbn in H; [contradiction|].
  destruct H as [E|H]; [now injection E as <- <-|].
  apply in_map_iff in H as ([y r'] & E & Hin). cbn in E. injection E as <- <-.
  etransitivity; [apply perm_swap|]. apply perm_skip. now apply IH.
Qed.

Lemma picks_in {A} (l : list A) x : In x l -> exists r, In (x, r) (picks l).
Proof.
  induction l as [|a l IH]; intros H; [contradiction|]. destruct H as [<-|H].
  - exists l. now left.
  - destruct (IH H) as (r & Hr). exists (a :: r). right.
    apply in_map_iff. exists (x, r). now split.
Qed.

Lemma picks_length {A} (l : list A) x r : In (x, r) (picks l) -> List.length l = S (List.length r).
Proof. intros H. apply picks_perm in H. apply Permutation_length in H. now rewrite <- H. Qed.

Lemma tiles_sound n : forall sink lines,
  tiles n sink lines = true -> exists perm, Permutation perm lines /\ sink = concat perm.
Proof.
  induction n as [|n IH]; intros sink lines H.
  - destruct lines; cbn in H; [|discriminate]. destruct sink; [|discriminate]. now exists [].
  - destruct lines as [|l0 ls] eqn:El.
    + cbn in H. destruct sink; [|discriminate]. now exists [].
    + rewrite <- El in *. assert (H' : existsb (fun xr => has_prefix sink (fst xr)
                   && tiles n (skipn (List.length (fst xr)) sink) (snd xr)) (picks lines) = true).
      { rewrite El in *. exact H. }
      apply existsb_exists in H' as ([x r] & Hin & Hx). cbn [fst snd] in Hx.
      apply andb_true_iff in Hx as [Hp Ht]. apply has_prefix_spec in Hp as (rest & ->).
      rewrite skipn_app, skipn_all, Nat.sub_diag in Ht. cbn [skipn app] in Ht.
      destruct (IH _ _ Ht) as (perm & Hperm & ->). exists (x :: perm). split; [|reflexivity].
      etransitivity; [apply perm_skip; exact Hperm|]. now apply picks_perm.
Qed.

Lemma tiles_complete perm : forall n lines,
  Permutation perm lines -> (List.length lines <= n)%nat -> tiles n (concat perm) lines = true.
Proof.
  induction perm as [|x perm IH]; intros n lines Hp Hn.
  - apply Permutation_nil in Hp as ->. now destruct n.
  - destruct lines as [|l0 ls] eqn:El; [now apply Permutation_sym, Permutation_nil in Hp|].
    rewrite <- El in *. destruct n as [|n]; [rewrite El in Hn; cbn in Hn; lia|].
    assert (Hx : In x lines) by (eapply Permutation_in; [exact Hp|now left]).
    destruct (picks_in _ _ Hx) as (r & Hr).
    assert (G : existsb (fun xr => has_prefix (concat (x :: perm)) (fst xr)
                  && tiles n (skipn (List.length (fst xr)) (concat (x :: perm))) (snd xr)) (picks lines) = true).
    { apply existsb_exists. exists (x, r). split; [exact Hr|]. cbn [fst snd concat].
      apply andb_true_iff. split; [apply has_prefix_spec; now exists (concat perm)|].
      rewrite skipn_app, skipn_all, Nat.sub_diag. cbn [skipn app].
      apply IH.
      - apply Permutation_cons_inv with (a := x). etransitivity; [exact Hp|].
        symmetry. now apply picks_perm.
      - apply picks_length in Hr. lia. }
    rewrite El in *. exact G.
Qed.

Theorem whole_lines_iff sink lines :
  whole_lines sink lines = true <-> exists perm, Permutation perm lines /\ sink = concat perm.
Proof.
  unfold whole_lines. split; [apply tiles_sound|].
  intros (perm & Hp & ->). now apply tiles_complete.
Qed.

(* with the mutex the test holds on every complete log *)
Theorem sink_exclusive_whole_lines_b pieces sched :
  let st := fst (sink_run Exclusive (sink_init pieces) sched) in
  all_done st = true -> whole_lines (sk_sink st) (map (@concat N) pieces) = true.
Proof. intros st H. apply whole_lines_iff. now apply sink_exclusive_whole_lines. Qed.

(* ---------- the read-lock variant (seeded change C20-N) ---------- *)
Theorem sink_shared_refuted :
  exists pieces sched,
    let st := fst (sink_run Shared (sink_init pieces) sched) in
    all_done st = true /\
    ~ exists perm, Permutation perm (map (@concat N) pieces) /\ sk_sink st = concat perm.
Proof.
  exists ex_pieces, ex_sched. split; [vm_compute; reflexivity|].
  intros H. apply whole_lines_iff in H. vm_compute in H. discriminate.
Qed.

(* the same calls and the same schedule with the mutex: the second call waits (its first
   three steps do nothing, it is parked in mu.Lock()) and the lines come out whole *)
Example sink_exclusive_example :
  let '(st, flags) := sink_run Exclusive (sink_init ex_pieces) ex_sched in
  all_done st = true /\
  flags = [true; false; true; false; true; false; true; true; true; true; true] /\
  sk_sink st = bs "GET /alpha 200" ++ [10] ++ bs "GET /beta 404" ++ [10].
Proof. vm_compute. repeat split. Qed.

Example sink_shared_example :
  sk_sink (fst (sink_run Shared (sink_init ex_pieces) ex_sched))
  = bs "GET /alpha GET /beta 200" ++ [10] ++ bs "404" ++ [10].
Proof. vm_compute. reflexivity. Qed.

(* a call whose step does nothing although it has not entered Write yet is waiting for
   another call that is inside Write (it is parked in mu.Lock(), nothing else stops it) *)
Theorem sink_exclusive_waits_only_for_a_writer pieces sched t ps :
  let st := fst (sink_run Exclusive (sink_init pieces) sched) in
  nth_error (sk_threads st) t = Some (TReady ps) ->
  snd (sink_step Exclusive st t) = false ->
  exists j pre rest, j <> t /\ nth_error (sk_threads st) j = Some (TWriting pre rest).
Proof.
  intros st Hn Hb. pose proof (inv_run sched _ (inv_init pieces)) as H. fold st in H.
  destruct H as [Ha Hd Hs Hc]. unfold sink_step in Hb. rewrite Hn in Hb. unfold lock_taken in Hb.
  destruct (sk_lock st) as [j|] eqn:Hl; [|discriminate].
  destruct (Hd j eq_refl) as (pre & rest & Hj). exists j, pre, rest. split; [|exact Hj].
  intros ->. congruence.
Qed.
