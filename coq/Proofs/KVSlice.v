(** Proofs about Model/KVSlice.v: the lexer reports between 1 and len(s) runes for
    every non-empty input, hence [s = s[n:]] never panics, the parser loop ends
    within len(s) iterations (the fuel is never exhausted), and parseKVSlice
    returns maps or an error for every input. *)
From Coq Require Import String List NArith Bool Lia Arith.
From Fabio Require Import Lib.Outcome Lib.Bytes Model.FlagSet Model.KVSlice.
Import ListNotations.

Definition tok_n (t : item * str * nat) : nat := snd t.

Lemma lex_loop_bounds : forall rest s st q i,
  length s = (i + length rest)%nat ->
  (st = LStart -> i = O) -> (st <> LStart -> (1 <= i)%nat) -> s <> [] ->
  (1 <= tok_n (lex_loop s st q i rest) <= length s)%nat.
Proof.
  induction rest as [|r rest IH]; intros s st q i Hl H0 H1 Hne.
  - assert (1 <= length s)%nat by (destruct s; [contradiction | cbn; lia]).
    cbn [lex_loop]. destruct st; try destruct (unquote s); unfold tok_n; cbn [snd]; lia.
  - cbn [length] in Hl. cbn [lex_loop].
    assert (Hnext : forall st' q', st' <> LStart ->
              (1 <= tok_n (lex_loop s st' q' (S i) rest) <= length s)%nat).
    { intros st' q' Hs. apply IH; try lia; try assumption. intros; contradiction. }
    destruct st.
    + destruct (is_comma r); [unfold tok_n; cbn [snd]; lia|].
      destruct (is_semicolon r); [unfold tok_n; cbn [snd]; lia|].
      destruct (is_equal r); [unfold tok_n; cbn [snd]; lia|].
      destruct (is_quote r); apply Hnext; discriminate.
    + assert (1 <= i)%nat by (apply H1; discriminate).
      destruct (is_comma r || is_semicolon r || is_equal r);
        [unfold tok_n; cbn [snd]; lia | apply Hnext; discriminate].
    + destruct (r =? q)%N; [apply Hnext; discriminate|].
      destruct (is_escape r); apply Hnext; discriminate.
    + assert (1 <= i)%nat by (apply H1; discriminate).
      destruct (unquote (firstn i s)); unfold tok_n; cbn [snd]; lia.
    + apply Hnext; discriminate.
Qed.

(* every token consumes at least one rune and never more than there are *)
Theorem lex_consumes s : s <> [] -> (1 <= tok_n (lex s) <= length s)%nat.
Proof.
  intros Hne. unfold lex. apply lex_loop_bounds; auto; try lia. intros H. contradiction.
Qed.

Lemma pfinish_ok p : exists maps, pfinish p = KOk maps.
Proof. unfold pfinish. eauto. Qed.

Definition good (r : kvresult) : Prop :=
  match r with KOk _ | KErr _ => True | KPanic | KFuel => False end.

Lemma parse_loop_good : forall fuel s p, (length s <= fuel)%nat -> good (parse_loop fuel s p).
Proof.
  induction fuel as [|f IH]; intros s p Hl.
  - destruct s; [|cbn in Hl; lia]. cbn [parse_loop]. destruct (pfinish_ok p) as [m ->]. exact I.
  - destruct s as [|c s']; [cbn [parse_loop]; destruct (pfinish_ok p) as [m ->]; exact I|].
    cbn [parse_loop].
    pose proof (lex_consumes (c :: s') ltac:(discriminate)) as Hb.
    destruct (lex (c :: s')) as [[t v] n]. unfold tok_n in Hb. cbn [snd] in Hb.
    destruct (Nat.ltb (length (c :: s')) n) eqn:E; [apply Nat.ltb_lt in E; lia|].
    destruct (pstep p t v) as [p'|msg]; [|exact I].
    apply IH. rewrite skipn_length. lia.
Qed.

(* parseKVSlice: for every rune slice, maps or an error; never a panic, and the loop
   terminates (the model's fuel, len(s), is never exhausted) *)
Theorem parse_kvslice_total s : good (parse_kvslice s).
Proof. unfold parse_kvslice. apply parse_loop_good. lia. Qed.

Corollary parse_kvslice_never_panics s : parse_kvslice s <> KPanic /\ parse_kvslice s <> KFuel.
Proof. pose proof (parse_kvslice_total s) as H. destruct (parse_kvslice s); cbn in H; split; congruence. Qed.

(* more fuel changes nothing: the result is the loop's, not the fuel's *)
Lemma parse_loop_fuel_irrelevant : forall fuel fuel' s p,
  (length s <= fuel)%nat -> (length s <= fuel')%nat -> parse_loop fuel s p = parse_loop fuel' s p.
Proof.
  induction fuel as [|f IH]; intros fuel' s p H1 H2.
  - destruct s; [|cbn in H1; lia]. destruct fuel'; reflexivity.
  - destruct s as [|c s']; [destruct fuel'; reflexivity|].
    destruct fuel' as [|f']; [cbn in H2; lia|]. cbn [parse_loop].
    pose proof (lex_consumes (c :: s') ltac:(discriminate)) as Hb.
    destruct (lex (c :: s')) as [[t v] n]. unfold tok_n in Hb. cbn [snd] in Hb.
    destruct (Nat.ltb (length (c :: s')) n); [reflexivity|].
    destruct (pstep p t v); [|reflexivity]. apply IH; rewrite skipn_length; lia.
Qed.

(* ---- round trip: the documented forms ---- *)
Local Open Scope string_scope.
Definition rs (s : string) : list N := bs s.

Example kvslice_roundtrip_examples :
  parse_kvslice (rs "a=b;c=d,e=f") = KOk [[(bs "a", bs "b"); (bs "c", bs "d")]; [(bs "e", bs "f")]] /\
  parse_kvslice (rs ":9999;proto=https;cs=x") = KOk [[([], bs ":9999"); (bs "proto", bs "https"); (bs "cs", bs "x")]] /\
  parse_kvslice (rs "cs=v;hdr=""A: b,c;d""") = KOk [[(bs "cs", bs "v"); (bs "hdr", bs "A: b,c;d")]] /\
  parse_kvslice (rs " k = v ") = KOk [[(bs "k", bs " v ")]] /\
  parse_kvslice (rs "a=""x\""y\\""") = KOk [[(bs "a", bs "x""y\")]] /\
  parse_kvslice (rs "a=""b") = KErr (bs "unbalanced quotes") /\
  parse_kvslice (rs "a=""\q""") = KErr (bs "invalid escape sequence") /\
  parse_kvslice (rs "=x") = KErr (bs "=") /\
  parse_kvslice (rs "") = KOk [].
Proof. vm_compute. repeat split. Qed.

(* ---- degenerate inputs ---- *)
(* an input made of separators only holds no listener: parseKVSlice returns nil, nil *)
Lemma parse_loop_separators : forall s fuel,
  Forall (fun c => c = 44%N \/ c = 59%N) s -> (length s <= fuel)%nat ->
  parse_loop fuel s pst0 = KOk [].
Proof.
  induction s as [|c s IH]; intros fuel Hall Hl.
  - destruct fuel; reflexivity.
  - destruct fuel as [|f]; [cbn in Hl; lia|].
    inversion Hall as [|? ? Hc Hs]; subst. cbn [length] in Hl.
    destruct Hc as [-> | ->]; cbn [parse_loop]; unfold lex; cbn [lex_loop is_comma is_semicolon N.eqb Pos.eqb];
      cbn [length Nat.ltb Nat.leb pstep pst0 p_state skipn]; apply IH; auto; lia.
Qed.

Theorem parse_kvslice_separators_only s :
  Forall (fun c => c = 44%N \/ c = 59%N) s -> parse_kvslice s = KOk [].
Proof. intros H. unfold parse_kvslice. apply parse_loop_separators; auto. Qed.

Example parse_kvslice_degenerate_examples :
  parse_kvslice (rs ";") = KOk [] /\ parse_kvslice (rs ",") = KOk [] /\
  parse_kvslice (rs ";;,") = KOk [] /\ parse_kvslice (rs " ; ") = KOk [] /\
  parse_kvslice (rs """""") = KOk [] /\ parse_kvslice (rs " ") = KOk [] /\
  parse_kvslice (rs "''") = KOk [].
Proof. vm_compute. repeat split. Qed.

(* the ui.addr block of load(): an error or a call of parseListen, never a panic;
   a non-empty value without a listener is the "only one listener" error *)
Theorem ui_addr_step_never_panics v : ui_addr_step v <> Lib.Outcome.Panic.
Proof.
  unfold ui_addr_step. destruct v as [|c v]; [discriminate|].
  pose proof (parse_kvslice_total (c :: v)) as Hg.
  destruct (parse_kvslice (c :: v)) as [kvs|msg| |]; cbn in Hg; try contradiction; try discriminate.
  destruct kvs as [|m [|m2 r]]; cbn; discriminate.
Qed.

Theorem ui_addr_step_no_listener v :
  v <> [] -> parse_kvslice v = KOk [] -> ui_addr_step v = Lib.Outcome.Err 2%N.
Proof. intros Hne H. unfold ui_addr_step. destruct v; [contradiction|]. rewrite H. reflexivity. Qed.
