(** C03: the "default port removed" clause of host normalisation, for every host text -
    IPv6 literals in brackets included - and ReverseHostPort on bracketed literals. *)
From Coq Require Import List NArith Bool Lia PeanoNat.
From Fabio Require Import Lib.Bytes Model.Glob Model.Lookup.
Import ListNotations.
Local Open Scope N_scope.

Lemma has_suffix_app_r (h p : str) : has_suffix (h ++ p) p = true.
Proof. apply has_suffix_spec. now exists h. Qed.

Lemma drop_last_app (h p : str) : drop_last (length p) (h ++ p) = h.
Proof.
  unfold drop_last. rewrite app_length.
  replace (length h + length p - length p)%nat with (length h) by lia.
  rewrite firstn_app, Nat.sub_diag, firstn_all. cbn [firstn]. apply app_nil_r.
Qed.

(* exactly the default port of the connection is removed, whatever precedes it *)
Lemma normalize_default_port_plain (h : str) : normalize_host (h ++ s_80) false = lower h.
Proof.
  unfold normalize_host, strip_port. cbn [negb andb]. rewrite has_suffix_app_r.
  change 3%nat with (length s_80). now rewrite drop_last_app.
Qed.

Lemma normalize_default_port_tls (h : str) : normalize_host (h ++ s_443) true = lower h.
Proof.
  unfold normalize_host, strip_port. cbn [negb andb]. rewrite has_suffix_app_r.
  change 4%nat with (length s_443). now rewrite drop_last_app.
Qed.

(* ... and nothing else: a host that does not end in the default port of ITS connection
   is only lower-cased (":443" on a plain connection and ":80" on a TLS one stay) *)
Lemma normalize_other_plain (h : str) : has_suffix h s_80 = false -> normalize_host h false = lower h.
Proof. intros H. unfold normalize_host, strip_port. cbn [negb andb]. now rewrite H. Qed.

Lemma normalize_other_tls (h : str) : has_suffix h s_443 = false -> normalize_host h true = lower h.
Proof. intros H. unfold normalize_host, strip_port. cbn [negb andb]. now rewrite H. Qed.

(* a text ending in ']' does not end in a port *)
Lemma has_suffix_last_ne (a p : str) (x y : N) : x <> y -> has_suffix (a ++ [x]) (p ++ [y]) = false.
Proof.
  intros N. destruct (has_suffix (a ++ [x]) (p ++ [y])) eqn:E; [|reflexivity].
  apply has_suffix_spec in E as [r E].
  rewrite app_assoc in E. apply app_inj_tail in E as [_ E]. contradiction.
Qed.

Lemma bracket_no_port_suffix (a : str) :
  has_suffix (91 :: a ++ [93]) s_80 = false /\ has_suffix (91 :: a ++ [93]) s_443 = false.
Proof.
  split.
  - change (91 :: a ++ [93]) with ((91 :: a) ++ [93]). change s_80 with ([58; 56] ++ [48]).
    apply has_suffix_last_ne. discriminate.
  - change (91 :: a ++ [93]) with ((91 :: a) ++ [93]). change s_443 with ([58; 52; 52] ++ [51]).
    apply has_suffix_last_ne. discriminate.
Qed.

(* THE CLAUSE on IPv6 literals: with literal host keys (glob matching disabled) the route
   "[a]/" is a candidate of a request for "[a]:80" on a plain connection and for "[a]:443"
   on a TLS one, in any letter case of the address - the brackets stay *)
Lemma v6_literal_default_port (a : str) (tls : bool) :
  spec_host_match true tls (91 :: a ++ [93]) ((91 :: a ++ [93]) ++ (if tls then s_443 else s_80)) = true.
Proof.
  unfold spec_host_match. destruct (bracket_no_port_suffix a) as [H80 H443].
  destruct tls.
  - rewrite normalize_default_port_tls, (normalize_other_tls _ H443). apply beq_refl.
  - rewrite normalize_default_port_plain, (normalize_other_plain _ H80). apply beq_refl.
Qed.

(* the other way round: the default port of the OTHER kind of connection is kept, so "[a]:443"
   on a plain connection is a different host *)
Lemma v6_literal_other_port_kept (a : str) :
  normalize_host ((91 :: a ++ [93]) ++ s_443) false = lower ((91 :: a ++ [93]) ++ s_443)
  /\ normalize_host ((91 :: a ++ [93]) ++ s_80) true = lower ((91 :: a ++ [93]) ++ s_80).
Proof.
  split.
  - apply normalize_other_plain.
    change s_443 with ([58; 52; 52] ++ [51]). rewrite app_assoc.
    change s_80 with ([58; 56] ++ [48]). apply has_suffix_last_ne. discriminate.
  - apply normalize_other_tls.
    change s_80 with ([58; 56] ++ [48]). rewrite app_assoc.
    change s_443 with ([58; 52; 52] ++ [51]). apply has_suffix_last_ne. discriminate.
Qed.

(* ---------- ReverseHostPort on "[a]:p" ---------- *)
Lemma index_byte_app_notin (a : str) c r : ~ In c a -> index_byte (a ++ c :: r) c = Some (length a).
Proof.
  induction a as [|x a IH]; intros N; cbn [app index_byte length].
  - now rewrite N.eqb_refl.
  - destruct (x =? c) eqn:E.
    + apply N.eqb_eq in E. exfalso. apply N. now left.
    + rewrite IH; [reflexivity|]. intros I. apply N. now right.
Qed.

Lemma index_byte_notin (s : str) c : ~ In c s -> index_byte s c = None.
Proof.
  induction s as [|x s IH]; intros N; cbn [index_byte]; [reflexivity|].
  destruct (x =? c) eqn:E.
  - apply N.eqb_eq in E. exfalso. apply N. now left.
  - rewrite IH; [reflexivity|]. intros I. apply N. now right.
Qed.

Lemma last_index_byte_app_notin (a : str) c p : ~ In c p -> last_index_byte (a ++ c :: p) c = Some (length a).
Proof.
  intros N. unfold last_index_byte. rewrite rev_app_distr. cbn [rev]. rewrite <- app_assoc. cbn [app].
  rewrite index_byte_app_notin by (rewrite <- in_rev; exact N).
  f_equal. rewrite rev_length, app_length. cbn [length]. lia.
Qed.

Lemma existsb_eqb_false (s : str) c : ~ In c s -> existsb (fun x => x =? c) s = false.
Proof.
  intros N. destruct (existsb (fun x => x =? c) s) eqn:E; [|reflexivity].
  apply existsb_exists in E as [x [I E]]. apply N.eqb_eq in E. now subst.
Qed.

Lemma split_host_port_v6 (a p : str) :
  ~ In 91 a -> ~ In 93 a -> ~ In 58 p -> ~ In 91 p -> ~ In 93 p ->
  split_host_port (91 :: a ++ 93 :: 58 :: p) = (a, p).
Proof.
  intros A1 A2 P0 P1 P2.
  set (s := 91 :: a ++ 93 :: 58 :: p).
  assert (R1 : s = (91 :: a ++ [93]) ++ 58 :: p) by (unfold s; cbn [app]; rewrite <- app_assoc; reflexivity).
  assert (R2 : s = (91 :: a ++ [93; 58]) ++ p) by (unfold s; cbn [app]; rewrite <- app_assoc; reflexivity).
  assert (L : last_index_byte s ch_colon = Some (S (S (length a)))).
  { rewrite R1. unfold ch_colon. rewrite last_index_byte_app_notin by exact P0.
    f_equal. cbn [length]. rewrite app_length. cbn [length]. lia. }
  assert (I : index_byte s 93 = Some (S (length a))).
  { unfold s. change (91 :: a ++ 93 :: 58 :: p) with ((91 :: a) ++ 93 :: 58 :: p).
    rewrite index_byte_app_notin by (intros [E|J]; [discriminate|auto]). reflexivity. }
  assert (S1 : skipn 1 s = a ++ 93 :: 58 :: p) by reflexivity.
  assert (S2 : skipn (S (S (length a))) s = 58 :: p).
  { rewrite R1. replace (S (S (length a))) with (length (91 :: a ++ [93]))
      by (cbn [length]; rewrite app_length; cbn [length]; lia).
    rewrite skipn_app, Nat.sub_diag, skipn_all. reflexivity. }
  assert (S3 : skipn (S (S (S (length a)))) s = p).
  { rewrite R2. replace (S (S (S (length a)))) with (length (91 :: a ++ [93; 58]))
      by (cbn [length]; rewrite app_length; cbn [length]; lia).
    rewrite skipn_app, Nat.sub_diag, skipn_all. reflexivity. }
  assert (F1 : firstn (S (length a) - 1) (a ++ 93 :: 58 :: p) = a).
  { replace (S (length a) - 1)%nat with (length a) by lia.
    rewrite firstn_app, Nat.sub_diag, firstn_all. cbn [firstn]. apply app_nil_r. }
  assert (H1 : existsb (fun c => c =? 91) (a ++ 93 :: 58 :: p) = false).
  { apply existsb_eqb_false. intros J. apply in_app_or in J as [J|[J|[J|J]]]; auto; discriminate. }
  assert (H2 : existsb (fun c => c =? 93) (58 :: p) = false).
  { apply existsb_eqb_false. intros [J|J]; [discriminate|auto]. }
  unfold split_host_port. rewrite L.
  replace (starts_bracket s) with true by reflexivity.
  rewrite I, Nat.eqb_refl, S1, S2, S3, F1, H1, H2. reflexivity.
Qed.

(* the sort key of a bracketed literal with a port: the address reversed, re-bracketed when it
   has a colon (net.JoinHostPort), the port kept *)
Lemma reverse_host_port_v6 (a p : str) :
  a <> [] -> p <> [] ->
  ~ In 91 a -> ~ In 93 a -> ~ In 58 p -> ~ In 91 p -> ~ In 93 p ->
  reverse_host_port (91 :: a ++ 93 :: 58 :: p) = join_host_port (rev a) p.
Proof.
  intros NA NP A1 A2 P0 P1 P2. unfold reverse_host_port.
  rewrite split_host_port_v6 by assumption.
  destruct a as [|x a]; [contradiction|]. destruct p as [|y p]; [contradiction|]. reflexivity.
Qed.

(* a bracketed literal WITHOUT a port is no host:port at all ("missing port in address" or
   "too many colons"): the whole text is reversed, brackets included *)
Lemma split_host_port_v6_noport (a : str) :
  ~ In 93 a -> split_host_port (91 :: a ++ [93]) = ([], []).
Proof.
  intros A2. unfold split_host_port.
  destruct (last_index_byte (91 :: a ++ [93]) ch_colon) as [i|] eqn:L; [|reflexivity].
  replace (starts_bracket (91 :: a ++ [93])) with true by reflexivity.
  change (91 :: a ++ [93]) with ((91 :: a) ++ 93 :: []) at 1.
  rewrite index_byte_app_notin by (intros [E|J]; [discriminate|auto]).
  destruct (Nat.eqb (S (length (91 :: a))) i) eqn:E; [|reflexivity].
  apply Nat.eqb_eq in E. exfalso.
  (* the last colon would sit at or beyond the end of the text *)
  assert (B : Nat.lt i (length (91 :: a ++ [93]))).
  { unfold last_index_byte in L. destruct (index_byte (rev (91 :: a ++ [93])) ch_colon) as [j|] eqn:J; [|discriminate].
    inversion L; subst i.
    assert (Nat.lt j (length (rev (91 :: a ++ [93])))).
    { clear - J. revert j J. generalize (rev (91 :: a ++ [93])) as l. induction l as [|x l IH]; intros j J; cbn [index_byte] in J; [discriminate|].
      destruct (x =? ch_colon); [inversion J; cbn [length]; lia|].
      destruct (index_byte l ch_colon) as [k|]; [|discriminate]. inversion J. specialize (IH k eq_refl). cbn [length]. lia. }
    rewrite rev_length in *. cbn [length] in *. unfold Nat.lt in *. lia. }
  cbn [length] in B, E. rewrite app_length in B. cbn [length] in B. lia.
Qed.

Lemma reverse_host_port_v6_noport (a : str) :
  ~ In 93 a -> reverse_host_port (91 :: a ++ [93]) = rev (91 :: a ++ [93]).
Proof. intros A2. unfold reverse_host_port. now rewrite split_host_port_v6_noport. Qed.
