(** Proofs about Model/GateRequest.v: the two gates of ServeHTTP on WHOLE requests - any method,
    any header map.  The statements are about all requests, all routes, all scheme tables and all
    answers of net.ParseIP / net.SplitHostPort / net/http's parseBasicAuth. *)
From Coq Require Import String List NArith Bool Lia.
From Fabio Require Import Lib.Outcome Lib.Bytes Model.Access Proofs.Access Model.BasicReload Proofs.BasicReload
     Model.BasicSchemes Proofs.BasicSchemes Model.GateRequest.
Import ListNotations.
Local Open Scope N_scope.

(* ================= the header map ================= *)
(* Header.Add(key, v) for a canonical key *)
Fixpoint h_add (h : hheaders) (key v : str) : hheaders :=
  match h with
  | [] => [(key, [v])]
  | (k, vs) :: r => if beq k key then (k, vs ++ [v]) :: r else (k, vs) :: h_add r key v
  end.

Lemma h_values_add_same h key v : h_values (h_add h key v) key = h_values h key ++ [v].
Proof.
  induction h as [|[k vs] r IH]; cbn [h_add h_values].
  - now rewrite beq_refl.
  - destruct (beq k key) eqn:E; cbn [h_values]; rewrite E; [reflexivity | exact IH].
Qed.

Lemma h_values_add_other h key v key' : beq key key' = false -> h_values (h_add h key v) key' = h_values h key'.
Proof.
  intros Hne. induction h as [|[k vs] r IH]; cbn [h_add h_values].
  - now rewrite Hne.
  - destruct (beq k key) eqn:E; cbn [h_values].
    + apply beq_eq in E; subst k. now rewrite Hne.
    + destruct (beq k key'); [reflexivity | exact IH].
Qed.

Lemma h_values_foreign (extra h : hheaders) key :
  forallb (fun k => negb (beq k key)) (map fst extra) = true -> h_values (extra ++ h) key = h_values h key.
Proof.
  induction extra as [|[k vs] r IH]; cbn [map forallb app h_values]; [reflexivity|]. change (fst (k, vs)) with k.
  intros H. apply andb_true_iff in H as [Hk Hr]. apply negb_true_iff in Hk. rewrite Hk. now apply IH.
Qed.

Lemma foreign_keys_split (extra : hheaders) :
  forallb foreign_key (map fst extra) = true ->
  forallb (fun k => negb (beq k k_xff)) (map fst extra) = true /\
  forallb (fun k => negb (beq k k_authorization)) (map fst extra) = true.
Proof.
  induction extra as [|[k vs] r IH]; cbn [map forallb]; [now split|]. change (fst (k, vs)) with k.
  intros H. apply andb_true_iff in H as [Hk Hr]. unfold foreign_key in Hk. apply andb_true_iff in Hk as [H1 H2].
  destruct (IH Hr) as [I1 I2]. rewrite H1, H2, I1, I2. now split.
Qed.

Lemma xff_is_not_authorization : beq k_xff k_authorization = false.
Proof. reflexivity. Qed.
Lemma authorization_is_not_xff : beq k_authorization k_xff = false.
Proof. reflexivity. Qed.

(* ================= denial = some address of the request is rejected ================= *)
Section Denied.
  Variable parse_ip : str -> option ipaddr.
  Variable split_host : str -> option str.

  Lemma xff_walk_true_inv pip r host elems :
    xff_walk pip r host elems = true ->
    exists x ip, In x elems /\ pip (trim_space x) = Some ip /\ deny_by_ip r (Some ip) = true.
  Proof.
    induction elems as [|e rest IH]; cbn [xff_walk]; [discriminate|]. intros W.
    destruct (beq (trim_space e) host).
    - destruct (IH W) as (x & ip & Hin & Hp & Hd). exists x, ip. split; [now right | now split].
    - destruct (pip (trim_space e)) as [ipe|] eqn:Ep.
      + destruct (deny_by_ip r (Some ipe)) eqn:Ed.
        * exists e, ipe. split; [now left | now split].
        * destruct (IH W) as (x & ip & Hin & Hp & Hd). exists x, ip. split; [now right | now split].
      + destruct (IH W) as (x & ip & Hin & Hp & Hd). exists x, ip. split; [now right | now split].
  Qed.

  Lemma join_nil_nil : join [] [44] = [].
  Proof. reflexivity. Qed.

  (* AccessDeniedHTTP answers true only because of an address the request carries: the peer or
     an element of an X-Forwarded-For field value that the rules reject *)
  Theorem denied_has_rejected_address r remote xff :
    access_denied_http parse_ip split_host r remote xff = true ->
    exists host s ip, split_host remote = Some host /\ In s (request_strings host xff) /\
                      parse_ip (strip_zone s) = Some ip /\ deny_by_ip r (Some ip) = true.
  Proof.
    unfold access_denied_http. destruct (rules_empty r); [discriminate|].
    destruct (split_host remote) as [host|]; [|discriminate].
    destruct (deny_by_ip r (parse_ip_zone parse_ip host)) eqn:Eh.
    - intros _. unfold parse_ip_zone in Eh. destruct (parse_ip (strip_zone host)) as [ip|] eqn:Ep.
      + exists host, host, ip. split; [reflexivity|]. split; [now left | now split].
      + now rewrite deny_by_ip_nil in Eh.
    - cbn zeta. destruct (join xff [44]) as [|c j] eqn:Ej; cbn [is_nil]; [discriminate|].
      intros W. apply xff_walk_true_inv in W as (x & ip & Hin & Hp & Hd).
      assert (Hne : xff <> []) by (intros ->; discriminate).
      rewrite <- Ej in Hin. apply in_split_join_inv in Hin as (v & Hv & Hx); [|exact Hne].
      exists host, (trim_space x), ip. split; [reflexivity|]. split; [|now split].
      right. apply in_flat_map. exists v. split; [exact Hv|]. now apply in_map.
  Qed.

  (* exactly: with the completeness theorem of Proofs/Access.v *)
  Theorem denied_iff_rejected_address r remote host xff :
    split_host remote = Some host -> parse_ip [] = None ->
    (access_denied_http parse_ip split_host r remote xff = true <->
     exists s ip, In s (request_strings host xff) /\ parse_ip (strip_zone s) = Some ip /\
                  deny_by_ip r (Some ip) = true).
  Proof.
    intros Hs Hnil. split.
    - intros H. apply denied_has_rejected_address in H as (h & s & ip & Hh & Hin & Hp & Hd).
      rewrite Hs in Hh. inversion Hh; subst h. now exists s, ip.
    - intros (s & ip & Hin & Hp & Hd). eapply rejected_address_denies; eauto.
  Qed.

  Lemma request_strings_more host xff more s :
    In s (request_strings host xff) -> In s (request_strings host (xff ++ more)).
  Proof.
    unfold request_strings. intros [H|H]; [now left | right].
    rewrite flat_map_app. apply in_or_app. now left.
  Qed.

  (* further X-Forwarded-For field values never turn a denial into an admission *)
  Theorem more_xff_never_admits r remote xff more :
    parse_ip [] = None ->
    access_denied_http parse_ip split_host r remote xff = true ->
    access_denied_http parse_ip split_host r remote (xff ++ more) = true.
  Proof.
    intros Hnil H. apply denied_has_rejected_address in H as (host & s & ip & Hs & Hin & Hp & Hd).
    eapply rejected_address_denies; eauto. now apply request_strings_more.
  Qed.
End Denied.

(* ================= the gates on whole requests ================= *)
Section Gate.
  Variable parse_ip : str -> option ipaddr.
  Variable split_host : str -> option str.
  Variable parse_basic_auth : str -> bcreds.

  Notation serve := (serve_http_request parse_ip split_host parse_basic_auth).
  Notation creds_of := (request_creds parse_basic_auth).

  (* THE PROPERTY for whole requests: whatever the method and whatever the header map, an upstream
     action or a redirect answer happens only if the route exists, the access rules do not deny
     the peer / the X-Forwarded-For list the request carries, and the route's scheme accepts the
     credentials read from its Authorization field *)
  Theorem gate_request_passes_only_if t (schemes : scheme_table bcreds) q :
    passes_gate (serve t schemes q) ->
    exists tg, t = Some tg
      /\ access_denied_http parse_ip split_host (t_rules tg) (q_remote q) (request_xff q) = false
      /\ authorized (t_auth tg) schemes (creds_of q) = true.
  Proof.
    unfold serve_http_request. intros [H|[code H]].
    - apply gate_before_upstream_http in H as (tg & Ht & Hd & Ha & _). now exists tg.
    - apply gate_before_redirect_http in H as (tg & Ht & _ & _ & Hd & Ha). now exists tg.
  Qed.

  Theorem gate_request_denied_403 tg (schemes : scheme_table bcreds) q :
    access_denied_http parse_ip split_host (t_rules tg) (q_remote q) (request_xff q) = true ->
    rejected_with 403 (serve (Some tg) schemes q).
  Proof. intros H. now apply denied_gets_403. Qed.

  Theorem gate_request_unauthorized_401 tg (schemes : scheme_table bcreds) q :
    access_denied_http parse_ip split_host (t_rules tg) (q_remote q) (request_xff q) = false ->
    authorized (t_auth tg) schemes (creds_of q) = false ->
    rejected_with 401 (serve (Some tg) schemes q).
  Proof. intros H A. now apply unauthorized_gets_401. Qed.

  (* a request is either rejected (403 / 401 / no route / unusable RemoteAddr) or passes: nothing
     else is ever answered, so "not passes" means a 4xx/5xx without any upstream action *)
  Theorem gate_request_outcomes t (schemes : scheme_table bcreds) q :
    passes_gate (serve t schemes q) \/
    exists s, rejected_with s (serve t schemes q) /\ (s = 403 \/ s = 401 \/ s = 404 \/ s = 500).
  Proof.
    unfold serve_http_request, rejected_with, passes_gate. destruct t as [tg|]; [|right; exists 404; cbn; auto].
    rewrite serve_http_eq.
    destruct (access_denied_http _ _ _ _ _); [right; exists 403; auto|].
    destruct (authorized _ _ _); cbn [negb]; [|right; exists 401; auto].
    destruct (t_redirect tg =? 0); cbn [negb].
    - destruct (split_host (q_remote q)); [left; left; now left | right; exists 500; auto 6].
    - left. right. exists (t_redirect tg). now left.
  Qed.

  (* NON-INTERFERENCE: the verdict is a function of the peer, the X-Forwarded-For values and the
     first Authorization value.  Two requests that agree on these - whatever their methods and
     whatever else their header maps hold - get the same answer. *)
  Theorem gate_request_frame t (schemes : scheme_table bcreds) q q' :
    gate_view q = gate_view q' -> serve t schemes q = serve t schemes q'.
  Proof.
    unfold gate_view. intros H. injection H as Hr Hx Ha.
    unfold serve_http_request, request_xff, request_creds. now rewrite Hr, Hx, Ha.
  Qed.

  Theorem gate_ignores_method t (schemes : scheme_table bcreds) m m' remote h :
    serve t schemes {| q_method := m; q_remote := remote; q_headers := h |} =
    serve t schemes {| q_method := m'; q_remote := remote; q_headers := h |}.
  Proof. reflexivity. Qed.

  Lemma gate_view_foreign m m' remote (extra h : hheaders) :
    forallb foreign_key (map fst extra) = true ->
    gate_view {| q_method := m'; q_remote := remote; q_headers := extra ++ h |} =
    gate_view {| q_method := m; q_remote := remote; q_headers := h |}.
  Proof.
    intros H. apply foreign_keys_split in H as [Hx Ha]. unfold gate_view, h_get. cbn [q_remote q_headers].
    now rewrite (h_values_foreign extra h k_xff Hx), (h_values_foreign extra h k_authorization Ha).
  Qed.

  (* "a header never opens the gate": take any request and give it any other method and any
     number of further header fields under names other than X-Forwarded-For and Authorization
     (Origin, Access-Control-Request-Method, Upgrade, X-Real-Ip, Proxy-Authorization ...): the
     answer is the same.  In particular what was rejected stays rejected with the same status. *)
  Theorem foreign_headers_and_method_change_nothing t (schemes : scheme_table bcreds) q m' (extra : hheaders) :
    forallb foreign_key (map fst extra) = true ->
    serve t schemes {| q_method := m'; q_remote := q_remote q; q_headers := extra ++ q_headers q |} =
    serve t schemes q.
  Proof.
    intros H. apply gate_request_frame. destruct q as [m remote h]. cbn [q_remote q_headers].
    now apply gate_view_foreign.
  Qed.

  Theorem no_header_opens_gate t (schemes : scheme_table bcreds) q s m' (extra : hheaders) :
    rejected_with s (serve t schemes q) ->
    forallb foreign_key (map fst extra) = true ->
    rejected_with s (serve t schemes {| q_method := m'; q_remote := q_remote q; q_headers := extra ++ q_headers q |}).
  Proof. intros R H. unfold rejected_with. now rewrite foreign_headers_and_method_change_nothing. Qed.

  (* the two names the gates do read: a further X-Forwarded-For field value never turns a 403 into
     anything else ... *)
  Theorem more_xff_keeps_403 tg (schemes : scheme_table bcreds) q v :
    parse_ip [] = None ->
    rejected_with 403 (serve (Some tg) schemes q) ->
    rejected_with 403 (serve (Some tg) schemes
       {| q_method := q_method q; q_remote := q_remote q; q_headers := h_add (q_headers q) k_xff v |}).
  Proof.
    intros Hnil R. apply gate_request_denied_403. unfold request_xff. cbn [q_remote q_headers].
    rewrite h_values_add_same. apply more_xff_never_admits; [exact Hnil|].
    unfold rejected_with, serve_http_request in R. rewrite serve_http_eq in R. unfold request_xff in R.
    destruct (access_denied_http parse_ip split_host (t_rules tg) (q_remote q) (h_values (q_headers q) k_xff));
      [reflexivity|].
    destruct (authorized _ _ _); cbn [negb] in R; [|discriminate].
    destruct (t_redirect tg =? 0); cbn [negb] in R; [destruct (split_host (q_remote q))|]; discriminate.
  Qed.

  (* ... and a further Authorization field value is not read at all when there is one already
     (Header.Get returns the first) *)
  Theorem second_authorization_not_read t (schemes : scheme_table bcreds) q a rest v :
    h_values (q_headers q) k_authorization = a :: rest ->
    serve t schemes {| q_method := q_method q; q_remote := q_remote q;
                       q_headers := h_add (q_headers q) k_authorization v |} = serve t schemes q.
  Proof.
    intros H. apply gate_request_frame. unfold gate_view, h_get. cbn [q_remote q_headers].
    rewrite h_values_add_same, (h_values_add_other _ _ _ _ authorization_is_not_xff), H. reflexivity.
  Qed.

  (* "an unknown scheme rejects everything": every request, whatever it is made of *)
  Theorem unknown_scheme_rejects_any_request tg (schemes : scheme_table bcreds) q :
    t_auth tg <> [] -> schemes (t_auth tg) = None -> ~ passes_gate (serve (Some tg) schemes q).
  Proof.
    intros Hne Hs H. apply gate_request_passes_only_if in H as (tg' & [= <-] & _ & A).
    now rewrite (unknown_scheme_rejects bcreds _ schemes _ Hne Hs) in A.
  Qed.

  (* basic schemes (any set, in any state): a request without an Authorization field passes no
     route that has an auth option - no method and no other header stands in for credentials *)
  Lemma no_authorization_no_creds q : h_values (q_headers q) k_authorization = [] -> creds_of q = no_bcreds.
  Proof. intros H. unfold request_creds, h_get. now rewrite H. Qed.

  Theorem anonymous_request_never_passes tg (ss : scheme_set) q :
    t_auth tg <> [] -> h_values (q_headers q) k_authorization = [] ->
    ~ passes_gate (serve (Some tg) (set_table ss) q).
  Proof.
    intros Hne Hno H. apply gate_request_passes_only_if in H as (tg' & [= <-] & _ & A).
    rewrite (no_authorization_no_creds q Hno) in A.
    destruct (sget ss (t_auth tg)) as [s|] eqn:Es.
    - rewrite (authorized_known ss _ s _ Hne Es) in A. discriminate.
    - rewrite (authorized_unknown ss _ _ Hne Es) in A. discriminate.
  Qed.

  (* and with credentials: forwarded or redirected through a route with auth=n only if n is
     configured and n's htpasswd file has a line for the pair the Authorization field decodes to *)
  Theorem gate_request_passes_only_if_file_accepts cfg tg q :
    t_auth tg <> [] ->
    passes_gate (serve (Some tg) (set_table (sboot cfg)) q) ->
    exists k, sget cfg (t_auth tg) = Some k /\ file_accepts (bc_file k) (creds_of q) /\
              h_values (q_headers q) k_authorization <> [].
  Proof.
    intros Hne H.
    destruct (schemes_forwarded_only_if_own_file_accepts parse_ip split_host cfg [] tg
                (q_remote q) (request_xff q) (creds_of q) Hne H)
      as (k & Hk & Hf).
    exists k. split; [exact Hk|]. cbn in Hf. split; [exact Hf|].
    intros Hno. rewrite (no_authorization_no_creds q Hno) in Hf. destruct Hf as [Hok _]. discriminate.
  Qed.
End Gate.

(* ================= non-vacuity ================= *)
(* a route with auth=staff (alice:wonderland) behind a deny rule for 6.6.6.6; the client sends what a
   browser sends as a CORS preflight: OPTIONS with Origin and Access-Control-Request-Method *)
Definition ex_staff_cfg : schemes_cfg :=
  [(bs "staff", {| bc_realm := bs "Restricted"; bc_file := ex_file1; bc_mtime := 1 |})].
Definition ex_staff_route : target := {| t_rules := ex_deny_6666; t_auth := bs "staff"; t_redirect := 0 |}.
Definition ex_parse_basic (a : str) : bcreds :=
  if beq a (bs "Basic YWxpY2U6d29uZGVybGFuZA==") then ex_alice else
  if beq a (bs "Basic YWxpY2U6eA==") then {| c_ok := true; c_user := bs "alice"; c_pw := bs "x" |} else no_bcreds.
Definition ex_preflight_headers : hheaders :=
  [(bs "Origin", [bs "https://app.example"]); (bs "Access-Control-Request-Method", [bs "DELETE"]);
   (bs "Access-Control-Request-Headers", [bs "authorization"])].
Definition ex_request (m : string) (h : hheaders) : hrequest :=
  {| q_method := bs m; q_remote := bs "1.1.1.1:1"; q_headers := h |}.

Theorem gate_request_nonvacuous :
  let serve := serve_http_request ex_parse_ip ex_split_host ex_parse_basic in
  let staff := set_table (sboot ex_staff_cfg) in
  (* anonymous: 401 as GET and as a preflight *)
  serve (Some ex_staff_route) staff (ex_request "GET" []) = [ERespond 401] /\
  serve (Some ex_staff_route) staff (ex_request "OPTIONS" ex_preflight_headers) = [ERespond 401] /\
  (* wrong password, credentials under another name: 401 *)
  serve (Some ex_staff_route) staff
        (ex_request "OPTIONS" ((bs "Authorization", [bs "Basic YWxpY2U6eA=="]) :: ex_preflight_headers)) = [ERespond 401] /\
  serve (Some ex_staff_route) staff
        (ex_request "OPTIONS" ((bs "Proxy-Authorization", [bs "Basic YWxpY2U6d29uZGVybGFuZA=="]) :: ex_preflight_headers))
    = [ERespond 401] /\
  (* the right pair: forwarded, with any method; only the FIRST Authorization value counts *)
  serve (Some ex_staff_route) staff
        (ex_request "OPTIONS" (ex_preflight_headers ++ [(bs "Authorization", [bs "Basic YWxpY2U6d29uZGVybGFuZA=="])])) = [EUpstream] /\
  serve (Some ex_staff_route) staff
        (ex_request "DELETE" [(bs "Authorization", [bs "Basic YWxpY2U6eA=="; bs "Basic YWxpY2U6d29uZGVybGFuZA=="])]) = [ERespond 401] /\
  (* the access gate on the same requests: a listed 6.6.6.6 is a 403 whatever else is sent *)
  serve (Some ex_staff_route) staff
        (ex_request "OPTIONS" (ex_preflight_headers ++ [(bs "X-Forwarded-For", [bs "8.8.8.8"; bs "6.6.6.6"]);
                                                       (bs "Authorization", [bs "Basic YWxpY2U6d29uZGVybGFuZA=="])])) = [ERespond 403] /\
  (* an unknown scheme: 401 also for the right pair *)
  serve (Some {| t_rules := no_rules; t_auth := bs "nosuch"; t_redirect := 302 |}) staff
        (ex_request "OPTIONS" ((bs "Authorization", [bs "Basic YWxpY2U6d29uZGVybGFuZA=="]) :: ex_preflight_headers)) = [ERespond 401] /\
  forallb foreign_key (map fst ex_preflight_headers) = true /\
  file_accepts ex_file1 ex_alice.
Proof.
  cbv zeta. repeat split; try (vm_compute; reflexivity).
  exists [], []. split; [reflexivity|]. intros p [].
Qed.
