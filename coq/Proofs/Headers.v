(** Proofs about Model.Headers (C08). *)
From Coq Require Import String List NArith ZArith Bool Lia.
From Fabio Require Import Lib.Outcome Lib.Bytes Model.Headers Model.HeadersSpec.
Import ListNotations.
Local Open Scope N_scope.

(* ------------------------------------------------------------------ *)
(** * http.Header: Get / Set / Del laws *)

Lemma beq_sym a b : beq a b = beq b a.
Proof.
  destruct (beq a b) eqn:E1, (beq b a) eqn:E2; auto.
  - apply beq_eq in E1. subst. rewrite beq_refl in E2. discriminate.
  - apply beq_eq in E2. subst. rewrite beq_refl in E1. discriminate.
Qed.

Lemma beq_false_of_neq a b : a <> b -> beq a b = false.
Proof. intros. now apply beq_neq. Qed.

Lemma hfind_hdel_same h k : hfind (hdel h k) k = None.
Proof.
  induction h as [|[k0 vs] h IH]; cbn [hdel hfind]; auto.
  destruct (beq k k0) eqn:E; auto. cbn [hfind]. now rewrite E.
Qed.

Lemma hfind_hdel_other h k k' : k <> k' -> hfind (hdel h k) k' = hfind h k'.
Proof.
  intros N. induction h as [|[k0 vs] h IH]; cbn [hdel hfind]; auto.
  destruct (beq k k0) eqn:E.
  - apply beq_eq in E. subst k0. rewrite (beq_false_of_neq k' k) by congruence. exact IH.
  - cbn [hfind]. now rewrite IH.
Qed.

(* Set replaces ALL values: afterwards the key has exactly the one value *)
Lemma hfind_hset_same h k v : hfind (hset h k v) k = Some [v].
Proof. unfold hset. cbn [hfind]. now rewrite beq_refl. Qed.

Lemma hfind_hset_other h k k' v : k <> k' -> hfind (hset h k v) k' = hfind h k'.
Proof.
  intros N. unfold hset. cbn [hfind].
  rewrite (beq_false_of_neq k' k) by congruence. now apply hfind_hdel_other.
Qed.

Lemma hfind_cset_other b h k k' v : k <> k' -> hfind (cset b h k v) k' = hfind h k'.
Proof. intros N. destruct b; cbn [cset]; auto. now apply hfind_hset_other. Qed.

Lemma hget_cset_other b h k k' v : k <> k' -> hget (cset b h k v) k' = hget h k'.
Proof. intros N. unfold hget. now rewrite hfind_cset_other. Qed.

Lemma hget_hset_other h k k' v : k <> k' -> hget (hset h k v) k' = hget h k'.
Proof. intros N. unfold hget. now rewrite hfind_hset_other. Qed.

(* Add appends: the difference between Set and Add that the client-IP clause rests on *)
Lemma hfind_hadd_same h k v vs : hfind h k = Some vs -> hfind (hadd h k v) k = Some (vs ++ [v]).
Proof. intros H. unfold hadd. rewrite H. cbn [hfind]. now rewrite beq_refl. Qed.

(* well-formed (client-producible) maps stay well-formed *)
Lemma wf_hdel h k : wf_hdr h = true -> wf_hdr (hdel h k) = true.
Proof.
  induction h as [|[k0 vs] h IH]; cbn [hdel wf_hdr forallb]; auto.
  intros H. apply andb_true_iff in H as [H1 H2].
  destruct (beq k k0); [now apply IH|]. cbn [wf_hdr forallb]. apply andb_true_iff. split; auto.
Qed.

Lemma wf_hset h k v : wf_hdr h = true -> wf_hdr (hset h k v) = true.
Proof. intros H. unfold hset. cbn [wf_hdr forallb snd]. now apply wf_hdel. Qed.

Lemma wf_cset b h k v : wf_hdr h = true -> wf_hdr (cset b h k v) = true.
Proof. destruct b; cbn [cset]; auto. apply wf_hset. Qed.

Lemma wf_hfind h k : wf_hdr h = true -> hfind h k <> Some [].
Proof.
  induction h as [|[k0 vs] h IH]; cbn [hfind wf_hdr forallb snd]; [discriminate|].
  intros H. apply andb_true_iff in H as [H1 H2].
  destruct (beq k k0); [|now apply IH]. destruct vs; [discriminate|]. discriminate.
Qed.

(* ------------------------------------------------------------------ *)
(** * keys *)
Ltac kne := apply beq_neq; vm_compute; reflexivity.

Lemma canon_literals :
  map canon_key [K_XFF; K_XRI; K_XFP; K_XFPORT; K_XFH; K_XFPREFIX; K_FWD; K_UPGRADE; K_CONN; K_STS]
  = [K_XFF; K_XRI; K_XFP; K_XFPORT; K_XFH; K_XFPREFIX; K_FWD; K_UPGRADE; K_CONN; K_STS].
Proof. vm_compute. reflexivity. Qed.

Lemma canon_hop : map canon_key hop_headers = hop_headers.
Proof. vm_compute. reflexivity. Qed.

Lemma mem_false_neq k l x : mem k l = false -> In x l -> k <> x.
Proof.
  unfold mem. intros H I E. subst x.
  assert (existsb (beq k) l = true).
  { apply existsb_exists. exists k. split; auto. apply beq_refl. }
  congruence.
Qed.

(* ------------------------------------------------------------------ *)
(** * X-Forwarded-For append (same code in addHeaders and in ReverseProxy) *)

Lemma xff_append_other peer h k : k <> K_XFF -> hfind (xff_append peer h) k = hfind h k.
Proof.
  intros N. unfold xff_append.
  destruct (hfind h K_XFF) as [[|p ps]|]; auto; apply hfind_hset_other; congruence.
Qed.

Lemma last_elem_is_app a peer : last_elem_is (a ++ bs ", " ++ peer) peer = true.
Proof.
  unfold last_elem_is. apply orb_true_iff. right.
  apply has_suffix_spec. exists a. reflexivity.
Qed.

Lemma xff_append_last peer h :
  hfind h K_XFF <> Some [] ->
  exists v, hfind (xff_append peer h) K_XFF = Some [v] /\ last_elem_is v peer = true.
Proof.
  intros W. unfold xff_append.
  destruct (hfind h K_XFF) as [[|p ps]|] eqn:E.
  - congruence.
  - eexists. split; [apply hfind_hset_same|]. apply last_elem_is_app.
  - exists peer. split; [apply hfind_hset_same|].
    unfold last_elem_is. now rewrite beq_refl.
Qed.

Lemma wf_xff_append peer h : wf_hdr h = true -> wf_hdr (xff_append peer h) = true.
Proof.
  intros W. unfold xff_append.
  destruct (hfind h K_XFF) as [[|p ps]|]; auto; now apply wf_hset.
Qed.

(* ------------------------------------------------------------------ *)
(** * addHeaders as a composition of its statements *)
Definition st1 (cfg : config) (peer : str) (h : hmap) : hmap :=
  cset (negb (sempty (c_clientip cfg)) && negb (beq (c_clientip cfg) K_XFF))
       h (canon_key (c_clientip cfg)) peer.
Definition st2 (peer : str) (h : hmap) : hmap := cset (sempty (hget h K_XRI)) h K_XRI peer.
Definition st3 (peer : str) (h : hmap) : hmap := if is_ws h then xff_append peer h else h.
Definition st4 (tls : bool) (h : hmap) : hmap :=
  cset (sempty (hget h K_XFP)) h K_XFP (xfp_of_scheme (scheme h tls)).
Definition st5 (host : str) (tls : bool) (h : hmap) : hmap :=
  cset (sempty (hget h K_XFPORT)) h K_XFPORT (local_port host tls).
Definition st6 (host : str) (h : hmap) : hmap :=
  cset (sempty (hget h K_XFH) && negb (sempty host)) h K_XFH host.
Definition st7 (strip : str) (h : hmap) : hmap := cset (negb (sempty strip)) h K_XFPREFIX strip.
Definition st8 (cfg : config) (r : request) (peer proto : str) (h : hmap) : hmap :=
  hset h K_FWD (forwarded_value cfg r peer proto h).
Definition st9 (cfg : config) (tls : bool) (h : hmap) : hmap :=
  if sempty (c_tlsheader cfg) then h
  else if tls then hset h (canon_key (c_tlsheader cfg)) (c_tlsvalue cfg)
  else hdel h (canon_key (c_tlsheader cfg)).

Definition upto3 cfg peer h := st3 peer (st2 peer (st1 cfg peer h)).
Definition upto7 cfg strip r peer h :=
  st7 strip (st6 (r_host r) (st5 (r_host r) (is_tls r) (st4 (is_tls r) (upto3 cfg peer h)))).
Definition upto9 cfg strip r peer h :=
  st9 cfg (is_tls r) (st8 cfg r peer (scheme (upto3 cfg peer h) (is_tls r)) (upto7 cfg strip r peer h)).

(* the last statement (since 216337c): unlistManagedHeaders *)
Definition upto10 cfg strip r peer h := unlist_managed cfg (upto9 cfg strip r peer h).

Lemma add_headers_stages cfg strip r :
  add_headers cfg strip r =
  match r_peer r with None => Err 0 | Some peer => Ok (upto10 cfg strip r peer (r_hdr r)) end.
Proof. reflexivity. Qed.

(* unlistManagedHeaders touches the Connection header only *)
Lemma unlist_other cfg h k : K_CONN <> k -> hfind (unlist_managed cfg h) k = hfind h k.
Proof.
  intros N. unfold unlist_managed. destruct (hfind h K_CONN) as [vs|]; auto.
  destruct (existsb _ vs); auto.
  destruct (flat_map _ vs) as [|v vals].
  - now apply hfind_hdel_other.
  - cbn [hfind]. rewrite (beq_false_of_neq k K_CONN) by congruence. now apply hfind_hdel_other.
Qed.

Lemma wf_unlist cfg h : wf_hdr h = true -> wf_hdr (unlist_managed cfg h) = true.
Proof.
  intros W. unfold unlist_managed. destruct (hfind h K_CONN) as [vs|]; auto.
  destruct (existsb _ vs); auto.
  destruct (flat_map _ vs) as [|v vals].
  - now apply wf_hdel.
  - cbn [wf_hdr forallb snd]. now apply wf_hdel.
Qed.

(* frame lemmas: each statement touches one key *)
Lemma st1_other cfg peer h k : k <> canon_key (c_clientip cfg) \/ c_clientip cfg = [] ->
  hfind (st1 cfg peer h) k = hfind h k.
Proof.
  intros [N|E]; unfold st1.
  - apply hfind_cset_other. congruence.
  - rewrite E. reflexivity.
Qed.
Lemma st2_other peer h k : k <> K_XRI -> hfind (st2 peer h) k = hfind h k.
Proof. intros N. unfold st2. apply hfind_cset_other. congruence. Qed.
Lemma st3_other peer h k : k <> K_XFF -> hfind (st3 peer h) k = hfind h k.
Proof. intros N. unfold st3. destruct (is_ws h); auto. now apply xff_append_other. Qed.
Lemma st4_other tls h k : k <> K_XFP -> hfind (st4 tls h) k = hfind h k.
Proof. intros N. unfold st4. apply hfind_cset_other. congruence. Qed.
Lemma st5_other host tls h k : k <> K_XFPORT -> hfind (st5 host tls h) k = hfind h k.
Proof. intros N. unfold st5. apply hfind_cset_other. congruence. Qed.
Lemma st6_other host h k : k <> K_XFH -> hfind (st6 host h) k = hfind h k.
Proof. intros N. unfold st6. apply hfind_cset_other. congruence. Qed.
Lemma st7_other strip h k : k <> K_XFPREFIX -> hfind (st7 strip h) k = hfind h k.
Proof. intros N. unfold st7. apply hfind_cset_other. congruence. Qed.
Lemma st8_other cfg r peer proto h k : k <> K_FWD -> hfind (st8 cfg r peer proto h) k = hfind h k.
Proof. intros N. unfold st8. apply hfind_hset_other. congruence. Qed.
Lemma st9_other cfg tls h k : k <> canon_key (c_tlsheader cfg) \/ c_tlsheader cfg = [] ->
  hfind (st9 cfg tls h) k = hfind h k.
Proof.
  intros [N|E]; unfold st9.
  - destruct (sempty (c_tlsheader cfg)); auto. destruct tls.
    + apply hfind_hset_other. congruence.
    + apply hfind_hdel_other. congruence.
  - rewrite E. reflexivity.
Qed.

(* statements 4..8 leave every key outside the five literals alone *)
Lemma st4to8_other cfg strip r peer proto h3 k :
  k <> K_XFP -> k <> K_XFPORT -> k <> K_XFH -> k <> K_XFPREFIX -> k <> K_FWD ->
  hfind (st8 cfg r peer proto (st7 strip (st6 (r_host r) (st5 (r_host r) (is_tls r) (st4 (is_tls r) h3))))) k
  = hfind h3 k.
Proof.
  intros. rewrite st8_other, st7_other, st6_other, st5_other, st4_other; auto.
Qed.

Lemma wf_st1 cfg peer h : wf_hdr h = true -> wf_hdr (st1 cfg peer h) = true.
Proof. apply wf_cset. Qed.
Lemma wf_st2 peer h : wf_hdr h = true -> wf_hdr (st2 peer h) = true.
Proof. apply wf_cset. Qed.
Lemma wf_st3 peer h : wf_hdr h = true -> wf_hdr (st3 peer h) = true.
Proof. intros W. unfold st3. destruct (is_ws h); auto. now apply wf_xff_append. Qed.
Lemma wf_st4 tls h : wf_hdr h = true -> wf_hdr (st4 tls h) = true.
Proof. apply wf_cset. Qed.
Lemma wf_st5 host tls h : wf_hdr h = true -> wf_hdr (st5 host tls h) = true.
Proof. apply wf_cset. Qed.
Lemma wf_st6 host h : wf_hdr h = true -> wf_hdr (st6 host h) = true.
Proof. apply wf_cset. Qed.
Lemma wf_st7 strip h : wf_hdr h = true -> wf_hdr (st7 strip h) = true.
Proof. apply wf_cset. Qed.
Lemma wf_st8 cfg r peer proto h : wf_hdr h = true -> wf_hdr (st8 cfg r peer proto h) = true.
Proof. apply wf_hset. Qed.
Lemma wf_st9 cfg tls h : wf_hdr h = true -> wf_hdr (st9 cfg tls h) = true.
Proof.
  intros W. unfold st9. destruct (sempty _); auto. destruct tls; [now apply wf_hset|now apply wf_hdel].
Qed.

Lemma wf_upto3 cfg peer h : wf_hdr h = true -> wf_hdr (upto3 cfg peer h) = true.
Proof. intros W. unfold upto3. now apply wf_st3, wf_st2, wf_st1. Qed.

Lemma wf_upto9 cfg strip r peer h : wf_hdr h = true -> wf_hdr (upto9 cfg strip r peer h) = true.
Proof.
  intros W. unfold upto9, upto7.
  now apply wf_st9, wf_st8, wf_st7, wf_st6, wf_st5, wf_st4, wf_upto3.
Qed.

(* ------------------------------------------------------------------ *)
(** * Clauses at the level of addHeaders (all inputs, all configurations) *)

Lemma wf_upto10 cfg strip r peer h : wf_hdr h = true -> wf_hdr (upto10 cfg strip r peer h) = true.
Proof. intros W. unfold upto10. now apply wf_unlist, wf_upto9. Qed.

Lemma add_headers_ok cfg strip r h' :
  add_headers cfg strip r = Ok h' ->
  exists peer, r_peer r = Some peer /\ h' = upto10 cfg strip r peer (r_hdr r).
Proof.
  rewrite add_headers_stages. destruct (r_peer r) as [peer|]; [|discriminate].
  intros H. inversion H. eauto.
Qed.

(* the TLS header is the last statement: nothing the client sent survives it *)
Theorem tls_header_iff_tls cfg strip r h' :
  add_headers cfg strip r = Ok h' -> c_tlsheader cfg <> [] ->
  canon_key (c_tlsheader cfg) <> K_CONN ->
  hfind h' (canon_key (c_tlsheader cfg)) = if is_tls r then Some [c_tlsvalue cfg] else None.
Proof.
  intros H N NC. apply add_headers_ok in H as (peer & _ & ->).
  unfold upto10. rewrite unlist_other by congruence. unfold upto9, st9.
  destruct (c_tlsheader cfg) eqn:E; [congruence|]. cbn [sempty].
  destruct (is_tls r); [apply hfind_hset_same | apply hfind_hdel_same].
Qed.

Lemma neq_XRI_XFF : K_XRI <> K_XFF. Proof. kne. Qed.
Lemma neq_XRI_XFP : K_XRI <> K_XFP. Proof. kne. Qed.
Lemma neq_XRI_XFPORT : K_XRI <> K_XFPORT. Proof. kne. Qed.
Lemma neq_XRI_XFH : K_XRI <> K_XFH. Proof. kne. Qed.
Lemma neq_XRI_XFPREFIX : K_XRI <> K_XFPREFIX. Proof. kne. Qed.
Lemma neq_XRI_FWD : K_XRI <> K_FWD. Proof. kne. Qed.
Lemma neq_XFF_XFP : K_XFF <> K_XFP. Proof. kne. Qed.
Lemma neq_XFF_XFPORT : K_XFF <> K_XFPORT. Proof. kne. Qed.
Lemma neq_XFF_XFH : K_XFF <> K_XFH. Proof. kne. Qed.
Lemma neq_XFF_XFPREFIX : K_XFF <> K_XFPREFIX. Proof. kne. Qed.
Lemma neq_XFF_FWD : K_XFF <> K_FWD. Proof. kne. Qed.
Lemma neq_XFP_XFPORT : K_XFP <> K_XFPORT. Proof. kne. Qed.
Lemma neq_XFP_XFH : K_XFP <> K_XFH. Proof. kne. Qed.
Lemma neq_XFP_XFPREFIX : K_XFP <> K_XFPREFIX. Proof. kne. Qed.
Lemma neq_XFP_FWD : K_XFP <> K_FWD. Proof. kne. Qed.
Lemma neq_XFPORT_XFH : K_XFPORT <> K_XFH. Proof. kne. Qed.
Lemma neq_XFPORT_XFPREFIX : K_XFPORT <> K_XFPREFIX. Proof. kne. Qed.
Lemma neq_XFPORT_FWD : K_XFPORT <> K_FWD. Proof. kne. Qed.
Lemma neq_XFH_XFPREFIX : K_XFH <> K_XFPREFIX. Proof. kne. Qed.
Lemma neq_XFH_FWD : K_XFH <> K_FWD. Proof. kne. Qed.
Lemma neq_XFPREFIX_FWD : K_XFPREFIX <> K_FWD. Proof. kne. Qed.
#[local] Hint Resolve neq_XRI_XFF neq_XRI_XFP neq_XRI_XFPORT neq_XRI_XFH neq_XRI_XFPREFIX neq_XRI_FWD
  neq_XFF_XFP neq_XFF_XFPORT neq_XFF_XFH neq_XFF_XFPREFIX neq_XFF_FWD neq_XFP_XFPORT neq_XFP_XFH
  neq_XFP_XFPREFIX neq_XFP_FWD neq_XFPORT_XFH neq_XFPORT_XFPREFIX neq_XFPORT_FWD neq_XFH_XFPREFIX
  neq_XFH_FWD neq_XFPREFIX_FWD : keys.
Lemma neq_UP_XFF : K_UPGRADE <> K_XFF. Proof. kne. Qed.
Lemma neq_UP_XRI : K_UPGRADE <> K_XRI. Proof. kne. Qed.
Lemma neq_UP_XFP : K_UPGRADE <> K_XFP. Proof. kne. Qed.
Lemma neq_UP_XFPORT : K_UPGRADE <> K_XFPORT. Proof. kne. Qed.
Lemma neq_UP_XFH : K_UPGRADE <> K_XFH. Proof. kne. Qed.
Lemma neq_UP_XFPREFIX : K_UPGRADE <> K_XFPREFIX. Proof. kne. Qed.
Lemma neq_UP_FWD : K_UPGRADE <> K_FWD. Proof. kne. Qed.
Lemma neq_CONN_XFF : K_CONN <> K_XFF. Proof. kne. Qed.
Lemma neq_CONN_XRI : K_CONN <> K_XRI. Proof. kne. Qed.
Lemma neq_CONN_XFP : K_CONN <> K_XFP. Proof. kne. Qed.
Lemma neq_CONN_XFPORT : K_CONN <> K_XFPORT. Proof. kne. Qed.
Lemma neq_CONN_XFH : K_CONN <> K_XFH. Proof. kne. Qed.
Lemma neq_CONN_XFPREFIX : K_CONN <> K_XFPREFIX. Proof. kne. Qed.
Lemma neq_CONN_FWD : K_CONN <> K_FWD. Proof. kne. Qed.
#[local] Hint Resolve neq_UP_XFF neq_UP_XRI neq_UP_XFP neq_UP_XFPORT neq_UP_XFH neq_UP_XFPREFIX neq_UP_FWD
  neq_CONN_XFF neq_CONN_XRI neq_CONN_XFP neq_CONN_XFPORT neq_CONN_XFH neq_CONN_XFPREFIX neq_CONN_FWD : keys.
Lemma neq_CONN_UP : K_CONN <> K_UPGRADE. Proof. kne. Qed.
#[local] Hint Resolve neq_CONN_UP : keys.
#[local] Hint Extern 1 (?a <> ?b) => (apply not_eq_sym; auto with keys; fail) : keys.

(* "k differs from the configured name, or no name is configured" *)

Lemma st1_off cfg peer h k : off k (c_clientip cfg) -> hfind (st1 cfg peer h) k = hfind h k.
Proof. intros [E|N]; apply st1_other; [now right|left; congruence]. Qed.
Lemma st9_off cfg tls h k : off k (c_tlsheader cfg) -> hfind (st9 cfg tls h) k = hfind h k.
Proof. intros [E|N]; apply st9_other; [now right|left; congruence]. Qed.

Lemma st1_cond_true cfg :
  c_clientip cfg <> [] -> c_clientip cfg <> K_XFF ->
  negb (sempty (c_clientip cfg)) && negb (beq (c_clientip cfg) K_XFF) = true.
Proof.
  intros A B. rewrite (beq_false_of_neq _ _ B).
  destruct (c_clientip cfg); [congruence|reflexivity].
Qed.

(* The configured client-IP header is overwritten (Set, not Add) with the peer, whatever
   the client sent under that name, in whatever spelling the name is configured --
   "X-Real-Ip" included since the repair 35aa11b. *)
Theorem clientip_overwritten cfg strip r peer h' :
  add_headers cfg strip r = Ok h' -> r_peer r = Some peer ->
  c_clientip cfg <> [] -> c_clientip cfg <> K_XFF ->
  mem (canon_key (c_clientip cfg)) [K_XFF; K_XFP; K_XFPORT; K_XFH; K_XFPREFIX; K_FWD] = false ->
  canon_key (c_clientip cfg) <> K_CONN ->
  off (canon_key (c_clientip cfg)) (c_tlsheader cfg) ->
  hfind h' (canon_key (c_clientip cfg)) = Some [peer].
Proof.
  intros H P A B M NC T. apply add_headers_ok in H as (peer' & P' & ->).
  unfold upto10. rewrite unlist_other by congruence.
  assert (peer' = peer) by congruence. subst peer'.
  set (k := canon_key (c_clientip cfg)) in *.
  assert (N1 : k <> K_XFF) by (apply (mem_false_neq _ _ _ M); cbn; auto).
  assert (N2 : k <> K_XFP) by (apply (mem_false_neq _ _ _ M); cbn; auto).
  assert (N3 : k <> K_XFPORT) by (apply (mem_false_neq _ _ _ M); cbn; auto).
  assert (N4 : k <> K_XFH) by (apply (mem_false_neq _ _ _ M); cbn; auto).
  assert (N5 : k <> K_XFPREFIX) by (apply (mem_false_neq _ _ _ M); cbn; auto 10).
  assert (N6 : k <> K_FWD) by (apply (mem_false_neq _ _ _ M); cbn; auto 10).
  unfold upto9, upto7, upto3.
  rewrite st9_off by exact T. rewrite st4to8_other by assumption. rewrite st3_other by assumption.
  assert (S1 : hfind (st1 cfg peer (r_hdr r)) k = Some [peer]).
  { unfold st1. rewrite st1_cond_true by assumption. apply hfind_hset_same. }
  destruct (beq k K_XRI) eqn:E.
  - apply beq_eq in E. unfold st2. rewrite <- E.
    destruct (sempty _); cbn [cset]; [apply hfind_hset_same|exact S1].
  - apply beq_neq in E. rewrite st2_other by assumption. exact S1.
Qed.

(* X-Real-Ip carries the peer unless the client already sent one *)
Theorem xrealip_rule cfg strip r peer h' :
  add_headers cfg strip r = Ok h' -> r_peer r = Some peer ->
  off K_XRI (c_tlsheader cfg) ->
  hfind h' K_XRI = Some [peer] \/
  (hget (r_hdr r) K_XRI <> [] /\ hfind h' K_XRI = hfind (r_hdr r) K_XRI).
Proof.
  intros H P T. apply add_headers_ok in H as (peer' & P' & ->). unfold upto10; rewrite ?unlist_other by auto with keys.
  assert (peer' = peer) by congruence. subst peer'.
  unfold upto9, upto7, upto3.
  rewrite st9_off by exact T. rewrite st4to8_other by auto with keys.
  rewrite st3_other by auto with keys.
  unfold st2. destruct (sempty (hget (st1 cfg peer (r_hdr r)) K_XRI)) eqn:E; cbn [cset].
  - left. apply hfind_hset_same.
  - unfold st1 in *.
    destruct (negb (sempty (c_clientip cfg)) && negb (beq (c_clientip cfg) K_XFF));
      cbn [cset] in *.
    + destruct (beq (canon_key (c_clientip cfg)) K_XRI) eqn:EK.
      * apply beq_eq in EK. rewrite EK. left. apply hfind_hset_same.
      * apply beq_neq in EK. right. rewrite hget_hset_other in E by exact EK.
        rewrite hfind_hset_other by exact EK. split; auto.
        intros Z. rewrite Z in E. discriminate.
    + right. split; auto. intros Z. rewrite Z in E. discriminate.
Qed.

(* frames for whole prefixes of addHeaders *)
Lemma upto3_other cfg peer h k :
  off k (c_clientip cfg) -> k <> K_XRI -> k <> K_XFF -> hfind (upto3 cfg peer h) k = hfind h k.
Proof. intros. unfold upto3. rewrite st3_other, st2_other, st1_off; auto. Qed.

Lemma upto7_other cfg strip r peer h k :
  off k (c_clientip cfg) -> k <> K_XRI -> k <> K_XFF -> k <> K_XFP -> k <> K_XFPORT -> k <> K_XFH ->
  k <> K_XFPREFIX -> hfind (upto7 cfg strip r peer h) k = hfind h k.
Proof.
  intros. unfold upto7. rewrite st7_other, st6_other, st5_other, st4_other, upto3_other; auto.
Qed.

Lemma hget_eq h1 h2 k : hfind h1 k = hfind h2 k -> hget h1 k = hget h2 k.
Proof. unfold hget. now intros ->. Qed.

(* Forwarded: the value built by addHeaders = base ++ appended items *)

Lemma forwarded_value_eq cfg r peer proto h :
  forwarded_value cfg r peer proto h =
  (if sempty (hget h K_FWD) then bs "for=" ++ peer ++ bs "; proto=" ++ proto else hget h K_FWD)
  ++ fwd_items cfg r.
Proof.
  unfold forwarded_value, fwd_items.
  set (base := if sempty (hget h K_FWD) then _ else _).
  destruct (sempty (c_localip cfg)), (sempty (r_proto r)), (r_tls r) as [[v cs]|];
    try destruct (0 <? v); try destruct (negb (cs =? 0));
    cbn [app]; rewrite ?app_nil_r, <- ?app_assoc; reflexivity.
Qed.

(* every appended item starts with ';' *)
Lemma fwd_items_shape cfg r : fwd_items cfg r = [] \/ exists rest, fwd_items cfg r = 59 :: rest.
Proof.
  unfold fwd_items.
  destruct (sempty (c_localip cfg)); [|right; eexists; reflexivity].
  destruct (sempty (r_proto r)); [|right; eexists; reflexivity].
  destruct (r_tls r) as [[v cs]|]; [|left; reflexivity].
  destruct (0 <? v); [right; eexists; reflexivity|].
  destruct (negb (cs =? 0)); [right; eexists; reflexivity|left; reflexivity].
Qed.

Lemma final_fwd cfg strip r peer :
  off K_FWD (c_tlsheader cfg) ->
  hfind (upto9 cfg strip r peer (r_hdr r)) K_FWD =
  Some [forwarded_value cfg r peer (scheme (upto3 cfg peer (r_hdr r)) (is_tls r)) (upto7 cfg strip r peer (r_hdr r))].
Proof. intros T. unfold upto9. rewrite st9_off by exact T. unfold st8. apply hfind_hset_same. Qed.

(* A Forwarded header the client sent is only appended to *)
Theorem forwarded_appends_only cfg strip r h' :
  add_headers cfg strip r = Ok h' ->
  off K_FWD (c_tlsheader cfg) -> off K_FWD (c_clientip cfg) ->
  hget (r_hdr r) K_FWD <> [] ->
  hfind h' K_FWD = Some [hget (r_hdr r) K_FWD ++ fwd_items cfg r].
Proof.
  intros H T C NE. apply add_headers_ok in H as (peer & P & ->). unfold upto10; rewrite ?unlist_other by auto with keys.
  rewrite final_fwd by exact T. rewrite forwarded_value_eq.
  rewrite (hget_eq _ (r_hdr r) K_FWD).
  2:{ apply upto7_other; auto with keys. }
  destruct (hget (r_hdr r) K_FWD); [congruence|]. reflexivity.
Qed.

(* ---- proto / port / host for requests that carry neither X-Forwarded-Proto nor Forwarded ---- *)
Lemma xfp_of_conn_scheme h tls : xfp_of_scheme (conn_scheme h tls) = true_scheme tls.
Proof. unfold conn_scheme. destruct (is_ws h), tls; vm_compute; reflexivity. Qed.

Lemma scheme_fresh h tls : hget h K_XFP = [] -> hget h K_FWD = [] -> scheme h tls = conn_scheme h tls.
Proof. intros A B. unfold scheme. rewrite A, B. reflexivity. Qed.

Lemma scheme_untrusted h tls :
  hget h K_XFP = [] -> contains (hget h K_FWD) (bs "proto=") = false -> scheme h tls = conn_scheme h tls.
Proof.
  intros A B. unfold scheme. rewrite A. cbn [sempty negb andb].
  destruct (hget h K_FWD) as [|c f] eqn:F; [reflexivity|]. cbn [sempty negb andb].
  unfold contains in B. destruct (index (c :: f) (bs "proto=")); [discriminate|reflexivity].
Qed.

Lemma fresh_inv hdr : fresh hdr = true -> hget hdr K_XFP = [] /\ hget hdr K_FWD = [].
Proof.
  unfold fresh. intros H. apply andb_true_iff in H as [A B].
  destruct (hget hdr K_XFP); [|discriminate]. destruct (hget hdr K_FWD); [|discriminate]. auto.
Qed.

Lemma upto3_fresh cfg peer hdr :
  fresh hdr = true -> off K_XFP (c_clientip cfg) -> off K_FWD (c_clientip cfg) ->
  hget (upto3 cfg peer hdr) K_XFP = [] /\ hget (upto3 cfg peer hdr) K_FWD = [].
Proof.
  intros F C1 C2. apply fresh_inv in F as [A B]. split.
  - rewrite (hget_eq _ hdr); auto. apply upto3_other; auto with keys.
  - rewrite (hget_eq _ hdr); auto. apply upto3_other; auto with keys.
Qed.

(* X-Forwarded-Proto absent => the supplied one describes the connection, unless the client
   sent a Forwarded header with a proto= item (finding region 5) *)
Theorem proto_supplied cfg strip r h' :
  add_headers cfg strip r = Ok h' ->
  hget (r_hdr r) K_XFP = [] -> F_fwd_proto_trusted (r_hdr r) = false ->
  off K_XFP (c_clientip cfg) -> off K_FWD (c_clientip cfg) -> off K_XFP (c_tlsheader cfg) ->
  hfind h' K_XFP = Some [true_scheme (is_tls r)].
Proof.
  intros H X F C1 C2 T. apply add_headers_ok in H as (peer & P & ->). unfold upto10; rewrite ?unlist_other by auto with keys.
  assert (A : hget (upto3 cfg peer (r_hdr r)) K_XFP = []).
  { rewrite (hget_eq _ (r_hdr r)); auto. apply upto3_other; auto with keys. }
  assert (B : hget (upto3 cfg peer (r_hdr r)) K_FWD = hget (r_hdr r) K_FWD).
  { apply hget_eq. apply upto3_other; auto with keys. }
  unfold F_fwd_proto_trusted in F. rewrite X in F. cbn [sempty andb] in F.
  unfold upto9, upto7. rewrite st9_off by exact T.
  rewrite st8_other, st7_other, st6_other, st5_other by auto with keys.
  unfold st4. rewrite A. cbn [sempty cset]. rewrite hfind_hset_same.
  rewrite scheme_untrusted; [now rewrite xfp_of_conn_scheme|exact A|now rewrite B].
Qed.

Theorem proto_truthful cfg strip r h' :
  add_headers cfg strip r = Ok h' -> fresh (r_hdr r) = true ->
  off K_XFP (c_clientip cfg) -> off K_FWD (c_clientip cfg) -> off K_XFP (c_tlsheader cfg) ->
  hfind h' K_XFP = Some [true_scheme (is_tls r)].
Proof.
  intros H F C1 C2 T. apply add_headers_ok in H as (peer & P & ->). unfold upto10; rewrite ?unlist_other by auto with keys.
  destruct (upto3_fresh cfg peer _ F C1 C2) as [A B].
  unfold upto9, upto7. rewrite st9_off by exact T.
  rewrite st8_other, st7_other, st6_other, st5_other by auto with keys.
  unfold st4. rewrite A. cbn [sempty cset]. rewrite hfind_hset_same.
  rewrite scheme_fresh by assumption. now rewrite xfp_of_conn_scheme.
Qed.

Theorem port_truthful cfg strip r h' :
  add_headers cfg strip r = Ok h' -> hget (r_hdr r) K_XFPORT = [] ->
  off K_XFPORT (c_clientip cfg) -> off K_XFPORT (c_tlsheader cfg) ->
  hfind h' K_XFPORT = Some [local_port (r_host r) (is_tls r)].
Proof.
  intros H F C T. apply add_headers_ok in H as (peer & P & ->). unfold upto10; rewrite ?unlist_other by auto with keys.
  unfold upto9, upto7. rewrite st9_off by exact T.
  rewrite st8_other, st7_other, st6_other by auto with keys.
  unfold st5. rewrite (hget_eq _ (r_hdr r)).
  2:{ rewrite st4_other by auto with keys. apply upto3_other; auto with keys. }
  rewrite F. cbn [sempty cset]. apply hfind_hset_same.
Qed.

Theorem host_truthful cfg strip r h' :
  add_headers cfg strip r = Ok h' -> hget (r_hdr r) K_XFH = [] -> r_host r <> [] ->
  off K_XFH (c_clientip cfg) -> off K_XFH (c_tlsheader cfg) ->
  hfind h' K_XFH = Some [r_host r].
Proof.
  intros H F NE C T. apply add_headers_ok in H as (peer & P & ->). unfold upto10; rewrite ?unlist_other by auto with keys.
  unfold upto9, upto7. rewrite st9_off by exact T.
  rewrite st8_other, st7_other by auto with keys.
  unfold st6. rewrite (hget_eq _ (r_hdr r)).
  2:{ rewrite st5_other, st4_other by auto with keys. apply upto3_other; auto with keys. }
  rewrite F. destruct (r_host r) eqn:E; [congruence|]. cbn [sempty negb andb cset]. apply hfind_hset_same.
Qed.

Theorem forwarded_fresh cfg strip r peer h' :
  add_headers cfg strip r = Ok h' -> r_peer r = Some peer -> fresh (r_hdr r) = true ->
  off K_XFP (c_clientip cfg) -> off K_FWD (c_clientip cfg) -> off K_FWD (c_tlsheader cfg) ->
  exists p, In p (if is_tls r then [bs "https"; bs "wss"] else [bs "http"; bs "ws"]) /\
            hfind h' K_FWD = Some [(bs "for=" ++ peer ++ bs "; proto=" ++ p) ++ fwd_items cfg r].
Proof.
  intros H P F C1 C2 T. apply add_headers_ok in H as (peer' & P' & ->). unfold upto10; rewrite ?unlist_other by auto with keys.
  assert (peer' = peer) by congruence. subst peer'.
  destruct (upto3_fresh cfg peer _ F C1 C2) as [A B].
  rewrite final_fwd by exact T. rewrite forwarded_value_eq.
  rewrite (hget_eq (upto7 cfg strip r peer (r_hdr r)) (r_hdr r) K_FWD).
  2:{ apply upto7_other; auto with keys. }
  destruct (fresh_inv _ F) as [_ B']. rewrite B'. cbn [sempty].
  rewrite scheme_fresh by assumption.
  exists (conn_scheme (upto3 cfg peer (r_hdr r)) (is_tls r)). split; [|reflexivity].
  unfold conn_scheme. destruct (is_ws _), (is_tls r); cbn [In]; auto.
Qed.

(* localPort, declaratively: "host:port" gives the port, a host without colon the default *)
Lemma index_byte_app a c p : ~ In c a -> index_byte (a ++ c :: p) c = Some (length a).
Proof.
  induction a as [|x a IH]; cbn [app index_byte length]; intros N.
  - now rewrite N.eqb_refl.
  - destruct (x =? c) eqn:E; [apply N.eqb_eq in E; subst; exfalso; apply N; now left|].
    rewrite IH; auto. intros I. apply N. now right.
Qed.

Lemma index_byte_none s c : ~ In c s -> index_byte s c = None.
Proof.
  induction s as [|x s IH]; cbn [index_byte]; auto. intros N.
  destruct (x =? c) eqn:E; [apply N.eqb_eq in E; subst; exfalso; apply N; now left|].
  rewrite IH; auto. intros I. apply N. now right.
Qed.

Lemma has_byte_false s c : has_byte s c = false <-> ~ In c s.
Proof.
  unfold has_byte. split.
  - intros H I. assert (existsb (N.eqb c) s = true) by (apply existsb_exists; exists c; split; [exact I|apply N.eqb_refl]).
    congruence.
  - intros N. destruct (existsb (N.eqb c) s) eqn:E; auto.
    apply existsb_exists in E as (x & I & E). apply N.eqb_eq in E. subst. contradiction.
Qed.

Lemma has_byte_true s c : In c s -> has_byte s c = true.
Proof. intros I. destruct (has_byte s c) eqn:E; auto. apply has_byte_false in E. contradiction. Qed.

Lemma last_index_byte_app a c p : ~ In c p -> last_index_byte (a ++ c :: p) c = Some (length a).
Proof.
  intros N. unfold last_index_byte. rewrite rev_app_distr. cbn [rev]. rewrite <- app_assoc. cbn [app].
  rewrite index_byte_app by (rewrite <- in_rev; exact N).
  f_equal. rewrite rev_length, app_length. cbn [length]. lia.
Qed.

Lemma last_index_byte_none s c : ~ In c s -> last_index_byte s c = None.
Proof. intros N. unfold last_index_byte. rewrite index_byte_none; auto. now rewrite <- in_rev. Qed.

Lemma index_byte_lt s c : forall i, index_byte s c = Some i -> (i < length s)%nat.
Proof.
  induction s as [|x s IH]; cbn [index_byte length]; intros i H; [discriminate|].
  destruct (x =? c); [inversion H; lia|].
  destruct (index_byte s c) as [j|]; [|discriminate]. inversion H. specialize (IH j eq_refl). lia.
Qed.

Lemma last_index_byte_lt s c i : last_index_byte s c = Some i -> (i < length s)%nat.
Proof.
  unfold last_index_byte. destruct (index_byte (rev s) c) as [j|] eqn:E; [|discriminate].
  intros H. inversion H. apply index_byte_lt in E. rewrite rev_length in E. lia.
Qed.

Lemma firstn_app_exact {A} (a b : list A) : firstn (length a) (a ++ b) = a.
Proof. rewrite firstn_app, Nat.sub_diag, firstn_all. cbn [firstn]. apply app_nil_r. Qed.

Lemma skipn_app_exact {A} (a b : list A) : skipn (length a) (a ++ b) = b.
Proof. rewrite skipn_app, Nat.sub_diag, skipn_all. reflexivity. Qed.

Lemma not_in_app3 c (a : str) x (p : str) : ~ In c a -> x <> c -> ~ In c p -> ~ In c (a ++ x :: p).
Proof. intros A X P I. apply in_app_or in I as [I|[I|I]]; auto. Qed.

Lemma starts_bracket_app a x p : ~ In 91 a -> x <> 91 -> starts_bracket (a ++ x :: p) = false.
Proof.
  intros A X. destruct a as [|c a]; cbn [app starts_bracket].
  - now apply N.eqb_neq.
  - apply N.eqb_neq. intros E. apply A. now left.
Qed.

(* ---- net.SplitHostPort (model) on each syntactic shape of a Host value ---- *)
Lemma shp_plain a p :
  ~ In 58 a -> ~ In 91 a -> ~ In 93 a -> ~ In 58 p -> ~ In 91 p -> ~ In 93 p ->
  split_host_port (a ++ 58 :: p) = Some (a, p).
Proof.
  intros A1 A2 A3 P1 P2 P3. unfold split_host_port.
  rewrite last_index_byte_app by exact P1.
  rewrite starts_bracket_app by (auto; discriminate).
  cbv zeta. rewrite firstn_app_exact. rewrite (proj2 (has_byte_false a 58) A1).
  rewrite (proj2 (has_byte_false _ 91) (not_in_app3 91 a 58 p A2 ltac:(discriminate) P2)).
  rewrite (proj2 (has_byte_false _ 93) (not_in_app3 93 a 58 p A3 ltac:(discriminate) P3)). cbn [orb].
  replace (a ++ 58 :: p) with ((a ++ [58]) ++ p) by (rewrite <- app_assoc; reflexivity).
  replace (length a + 1)%nat with (length (a ++ [58])) by (rewrite app_length; reflexivity).
  now rewrite skipn_app_exact.
Qed.

Lemma shp_bracket a p :
  ~ In 91 a -> ~ In 93 a -> ~ In 58 p -> ~ In 91 p -> ~ In 93 p ->
  split_host_port (91 :: a ++ 93 :: 58 :: p) = Some (a, p).
Proof.
  intros A2 A3 P1 P2 P3.
  set (hp := 91 :: a ++ 93 :: 58 :: p).
  assert (R1 : hp = (91 :: a ++ [93]) ++ 58 :: p) by (unfold hp; cbn [app]; rewrite <- app_assoc; reflexivity).
  assert (R2 : hp = (91 :: a ++ [93; 58]) ++ p) by (unfold hp; cbn [app]; rewrite <- app_assoc; reflexivity).
  assert (L : last_index_byte hp 58 = Some (length a + 2)%nat).
  { rewrite R1. rewrite last_index_byte_app by exact P1. f_equal. cbn [length]. rewrite app_length. cbn [length]. lia. }
  assert (I : index_byte hp 93 = Some (length a + 1)%nat).
  { unfold hp. change (91 :: a ++ 93 :: 58 :: p) with ((91 :: a) ++ 93 :: 58 :: p).
    rewrite index_byte_app by (intros [E|J]; [discriminate|auto]). f_equal. cbn [length]. lia. }
  assert (S1 : skipn 1 hp = a ++ 93 :: 58 :: p) by reflexivity.
  assert (S2 : skipn (length a + 1 + 1) hp = 58 :: p).
  { rewrite R1. replace (length a + 1 + 1)%nat with (length (91 :: a ++ [93]))
      by (cbn [length]; rewrite app_length; cbn [length]; lia). apply skipn_app_exact. }
  assert (S3 : skipn (length a + 2 + 1) hp = p).
  { rewrite R2. replace (length a + 2 + 1)%nat with (length (91 :: a ++ [93; 58]))
      by (cbn [length]; rewrite app_length; cbn [length]; lia). apply skipn_app_exact. }
  assert (F1 : firstn (length a + 1 - 1) (a ++ 93 :: 58 :: p) = a).
  { replace (length a + 1 - 1)%nat with (length a) by lia. apply firstn_app_exact. }
  assert (H1 : has_byte (a ++ 93 :: 58 :: p) 91 = false).
  { apply has_byte_false. apply not_in_app3; [exact A2|discriminate|]. intros [E|J]; [discriminate|auto]. }
  assert (H2 : has_byte (58 :: p) 93 = false).
  { apply has_byte_false. intros [E|J]; [discriminate|auto]. }
  unfold split_host_port. rewrite L.
  replace (starts_bracket hp) with true by reflexivity.
  rewrite I. replace (Nat.eqb (length a + 1 + 1) (length a + 2)) with true by (symmetry; apply Nat.eqb_eq; lia).
  rewrite S1, S2, S3, F1, H1, H2. reflexivity.
Qed.

Lemma shp_no_colon hp : ~ In 58 hp -> split_host_port hp = None.
Proof. intros N. unfold split_host_port. now rewrite last_index_byte_none. Qed.

Lemma shp_many_colons a b p :
  ~ In 58 p -> starts_bracket (a ++ 58 :: b ++ 58 :: p) = false ->
  split_host_port (a ++ 58 :: b ++ 58 :: p) = None.
Proof.
  intros P SB. unfold split_host_port. rewrite SB.
  replace (a ++ 58 :: b ++ 58 :: p) with ((a ++ 58 :: b) ++ 58 :: p) by (rewrite <- app_assoc; reflexivity).
  rewrite last_index_byte_app by exact P. cbv zeta. rewrite firstn_app_exact.
  rewrite has_byte_true; [reflexivity|]. apply in_or_app. right. now left.
Qed.

Lemma shp_bracket_only a : ~ In 93 a -> split_host_port (91 :: a ++ [93]) = None.
Proof.
  intros A. unfold split_host_port.
  destruct (last_index_byte (91 :: a ++ [93]) 58) as [i|] eqn:L; [|reflexivity].
  cbn [starts_bracket]. rewrite N.eqb_refl.
  change (91 :: a ++ [93]) with ((91 :: a) ++ 93 :: []).
  rewrite index_byte_app by (intros [E|I]; [discriminate|auto]).
  apply last_index_byte_lt in L. cbn [length] in *. rewrite app_length in L. cbn [length] in L.
  replace (Nat.eqb (S (length a) + 1) i) with false; [reflexivity|].
  symmetry. apply Nat.eqb_neq. lia.
Qed.

(* ---- localPort on each syntactic shape of the Host header (all inputs of that shape) ---- *)
(* host:port *)
Theorem local_port_host_port a p tls :
  a <> [] -> p <> [] -> ~ In 58 a -> ~ In 91 a -> ~ In 93 a -> ~ In 58 p -> ~ In 91 p -> ~ In 93 p ->
  local_port (a ++ 58 :: p) tls = p.
Proof.
  intros A P. intros. unfold local_port. rewrite shp_plain by assumption.
  destruct a; [congruence|]. destruct p; [congruence|]. reflexivity.
Qed.

(* [IPv6 literal, zone included]:port *)
Theorem local_port_bracketed a p tls :
  a <> [] -> p <> [] -> ~ In 91 a -> ~ In 93 a -> ~ In 58 p -> ~ In 91 p -> ~ In 93 p ->
  local_port (91 :: a ++ 93 :: 58 :: p) tls = p.
Proof.
  intros A P. intros. unfold local_port. rewrite shp_bracket by assumption.
  destruct a; [congruence|]. destruct p; [congruence|]. reflexivity.
Qed.

(* [IPv6 literal] without port *)
Theorem local_port_bracket_only a tls : ~ In 93 a -> local_port (91 :: a ++ [93]) tls = default_port tls.
Proof. intros A. unfold local_port. now rewrite shp_bracket_only. Qed.

Theorem local_port_no_colon host tls : ~ In 58 host -> local_port host tls = default_port tls.
Proof. intros N. unfold local_port. now rewrite shp_no_colon. Qed.

(* several colons without brackets (a:b:c, ::1): no port can be told apart *)
Theorem local_port_many_colons a b p tls :
  ~ In 58 p -> starts_bracket (a ++ 58 :: b ++ 58 :: p) = false ->
  local_port (a ++ 58 :: b ++ 58 :: p) tls = default_port tls.
Proof. intros P SB. unfold local_port. now rewrite shp_many_colons. Qed.

(* empty host ":80" and trailing colon "host:" *)
Theorem local_port_empty_host p tls :
  ~ In 58 p -> ~ In 91 p -> ~ In 93 p -> local_port (58 :: p) tls = default_port tls.
Proof.
  intros. unfold local_port. change (58 :: p) with ([] ++ 58 :: p).
  rewrite shp_plain by (auto; intros []). reflexivity.
Qed.

Theorem local_port_trailing_colon a tls :
  ~ In 58 a -> ~ In 91 a -> ~ In 93 a -> local_port (a ++ [58]) tls = default_port tls.
Proof.
  intros. unfold local_port. rewrite shp_plain by (auto; intros []).
  destruct a; reflexivity.
Qed.

(* Strict-Transport-Security only on TLS connections *)
Theorem hsts_only_tls cfg tls v : add_response_headers cfg tls = Some v -> tls = true.
Proof. unfold add_response_headers. destruct tls; [auto|discriminate]. Qed.

Theorem hsts_when_tls cfg : (0 < c_sts_maxage cfg)%Z -> add_response_headers cfg true = Some (sts_value cfg).
Proof. intros H. unfold add_response_headers. apply Z.ltb_lt in H. now rewrite H. Qed.

(* ------------------------------------------------------------------ *)
(** * HTTPProxy.ServeHTTP: what reaches the upstream *)

Lemma serve_inv cfg t uuid r up sts :
  serve cfg t uuid r = Ok (up, sts) ->
  exists peer h, r_peer r = Some peer /\
    add_headers cfg (t_strip t) (req_with_reqid cfg uuid r) = Ok h /\
    up = (if takes_ws_path h then wire h else rp_out peer h) /\
    sts = add_response_headers cfg (is_tls r).
Proof.
  unfold serve.
  destruct (add_headers cfg (t_strip t) (req_with_reqid cfg uuid r)) as [h| |]; cbn [bind]; try discriminate.
  destruct (r_peer r) as [peer|]; [|discriminate].
  intros H. inversion H. exists peer, h. auto.
Qed.

Lemma wire_id h : wf_hdr h = true -> wire h = h.
Proof.
  induction h as [|[k vs] h IH]; cbn [wire filter wf_hdr forallb snd]; auto.
  intros H. apply andb_true_iff in H as [A B]. destruct vs; [discriminate|].
  f_equal. now apply IH.
Qed.

Lemma hdel_all_other ks : forall h k,
  (forall x, In x ks -> canon_key x <> k) -> hfind (hdel_all h ks) k = hfind h k.
Proof.
  unfold hdel_all. induction ks as [|x ks IH]; intros h k H; cbn [fold_left]; auto.
  rewrite IH by (intros y I; apply H; now right).
  apply hfind_hdel_other. apply H. now left.
Qed.

Lemma wf_hdel_all ks : forall h, wf_hdr h = true -> wf_hdr (hdel_all h ks) = true.
Proof.
  unfold hdel_all. induction ks as [|x ks IH]; intros h W; cbn [fold_left]; auto.
  apply IH. now apply wf_hdel.
Qed.

Lemma rp_out_xff peer h : wf_hdr h = true ->
  exists v, hfind (rp_out peer h) K_XFF = Some [v] /\ last_elem_is v peer = true.
Proof.
  intros W. unfold rp_out. apply xff_append_last. apply wf_hfind. unfold rp_strip. now apply wf_hdel_all.
Qed.

(* a key that is neither X-Forwarded-For, nor named by Connection, nor hop-by-hop passes
   the (modelled) ReverseProxy unchanged *)
Lemma rp_out_other peer h k :
  k <> K_XFF -> (forall x, In x (conn_tokens h) -> canon_key x <> k) -> mem k hop_headers = false ->
  hfind (rp_out peer h) k = hfind h k.
Proof.
  intros N C Hp. unfold rp_out. rewrite xff_append_other by exact N.
  unfold rp_strip. apply hdel_all_other. intros x I. apply in_app_or in I as [I|I]; [now apply C|].
  assert (E : canon_key x = x).
  { pose proof canon_hop as CH. unfold hop_headers in *. cbn [In] in I.
    repeat (destruct I as [<-|I]; [vm_compute; reflexivity|]). contradiction. }
  rewrite E. apply not_eq_sym. apply (mem_false_neq _ _ _ Hp). exact I.
Qed.


(* a key no statement of ServeHTTP/addHeaders writes is the client's own at every stage *)
Lemma upto2_other cfg peer h k :
  off k (c_clientip cfg) -> k <> K_XRI -> hfind (st2 peer (st1 cfg peer h)) k = hfind h k.
Proof. intros. rewrite st2_other, st1_off; auto. Qed.

Lemma upto9_other cfg strip r peer h k :
  off k (c_clientip cfg) -> off k (c_tlsheader cfg) ->
  k <> K_XRI -> k <> K_XFF -> k <> K_XFP -> k <> K_XFPORT -> k <> K_XFH -> k <> K_XFPREFIX -> k <> K_FWD ->
  hfind (upto9 cfg strip r peer h) k = hfind h k.
Proof.
  intros. unfold upto9. rewrite st9_off, st8_other, upto7_other; auto.
Qed.

Lemma reqid_off cfg uuid hdr k :
  off k (c_reqid cfg) ->
  hfind (cset (negb (sempty (c_reqid cfg))) hdr (canon_key (c_reqid cfg)) uuid) k = hfind hdr k.
Proof.
  intros [E|N]; [rewrite E; reflexivity|]. apply hfind_cset_other. exact N.
Qed.

(* The peer is the last element of X-Forwarded-For at the upstream: through the (modelled)
   ReverseProxy for plain requests, through addHeaders for Upgrade: websocket; for every
   client header map a client can produce ("Upgrade: Websocket" included since the repair
   afbb806: addHeaders recognises the two spellings ServeHTTP sends to the websocket handler). *)
Theorem xff_last_is_peer cfg t uuid r peer up sts :
  serve cfg t uuid r = Ok (up, sts) -> r_peer r = Some peer ->
  wf_hdr (r_hdr r) = true ->
  off K_XFF (c_tlsheader cfg) ->
  off K_UPGRADE (c_clientip cfg) -> off K_UPGRADE (c_tlsheader cfg) -> off K_UPGRADE (c_reqid cfg) ->
  cl_xff up peer = true.
Proof.
  intros S P W T1 C2 T2 R2.
  apply serve_inv in S as (peer' & h & P' & A & -> & _).
  assert (peer' = peer) by congruence. subst peer'.
  apply add_headers_ok in A as (peer' & P'' & ->). cbn [req_with_reqid r_peer] in P''.
  assert (peer' = peer) by congruence. subst peer'.
  set (r' := req_with_reqid cfg uuid r) in *.
  set (h0 := r_hdr r').
  assert (W0 : wf_hdr h0 = true) by (apply wf_cset; exact W).
  assert (Wh : wf_hdr (upto10 cfg (t_strip t) r' peer h0) = true) by (now apply wf_upto10).
  unfold cl_xff.
  destruct (takes_ws_path (upto10 cfg (t_strip t) r' peer h0)) eqn:WS.
  2:{ destruct (rp_out_xff peer _ Wh) as (v & E & L). rewrite E. exact L. }
  rewrite wire_id by exact Wh.
  (* the Upgrade header is the client's at every stage *)
  assert (U9 : hget (upto10 cfg (t_strip t) r' peer h0) K_UPGRADE = hget (r_hdr r) K_UPGRADE).
  { apply hget_eq. unfold upto10. rewrite unlist_other by kne.
    rewrite upto9_other by auto with keys. apply reqid_off. exact R2. }
  assert (U2 : hget (st2 peer (st1 cfg peer h0)) K_UPGRADE = hget (r_hdr r) K_UPGRADE).
  { apply hget_eq. rewrite upto2_other by auto with keys. apply reqid_off. exact R2. }
  unfold takes_ws_path in WS. rewrite U9 in WS.
  assert (I : is_ws (st2 peer (st1 cfg peer h0)) = true) by (unfold is_ws; rewrite U2; exact WS).
  unfold upto10. rewrite unlist_other by auto with keys.
  unfold upto9, upto7, upto3. rewrite st9_off by exact T1.
  rewrite st4to8_other by auto with keys.
  unfold st3. rewrite I.
  assert (W2 : wf_hdr (st2 peer (st1 cfg peer h0)) = true) by (now apply wf_st2, wf_st1).
  destruct (xff_append_last peer _ (wf_hfind _ K_XFF W2)) as (v & E & L). rewrite E. exact L.
Qed.

(* ---- strings.Split / strings.Join ---- *)
Lemma split_byte_no_sep s c : forall x, In x (split_byte s c) -> ~ In c x.
Proof.
  induction s as [|y s IH]; cbn [split_byte]; intros x I.
  - destruct I as [<-|[]]. intros [].
  - destruct (y =? c) eqn:E.
    + destruct I as [<-|I]; [intros []|now apply IH].
    + destruct (split_byte s c) as [|w ws] eqn:S.
      * destruct I as [<-|[]]. intros [Z|[]]. subst. rewrite N.eqb_refl in E. discriminate.
      * destruct I as [<-|I].
        -- intros [Z|Z]; [subst; rewrite N.eqb_refl in E; discriminate|].
           apply (IH w); [now left|exact Z].
        -- apply IH. now right.
Qed.

Lemma split_byte_single a c : ~ In c a -> split_byte a c = [a].
Proof.
  induction a as [|x a IH]; cbn [split_byte]; intros N; auto.
  destruct (x =? c) eqn:E; [apply N.eqb_eq in E; subst; exfalso; apply N; now left|].
  rewrite IH; auto. intros I. apply N. now right.
Qed.

Lemma split_byte_app a c rest : ~ In c a -> split_byte (a ++ c :: rest) c = a :: split_byte rest c.
Proof.
  induction a as [|x a IH]; cbn [app split_byte]; intros N.
  - now rewrite N.eqb_refl.
  - destruct (x =? c) eqn:E; [apply N.eqb_eq in E; subst; exfalso; apply N; now left|].
    rewrite IH; auto. intros I. apply N. now right.
Qed.

(* Split(Join(toks, ","), ",") = toks when no token contains the separator *)
Lemma split_join c : forall toks, toks <> [] -> (forall x, In x toks -> ~ In c x) ->
  split_byte (join toks [c]) c = toks.
Proof.
  induction toks as [|x toks IH]; intros NE H; [congruence|].
  destruct toks as [|y toks].
  - cbn [join]. apply split_byte_single. apply H. now left.
  - change (join (x :: y :: toks) [c]) with (x ++ c :: join (y :: toks) [c]).
    rewrite split_byte_app by (apply H; now left).
    f_equal. apply IH; [discriminate|]. intros z I. apply H. now right.
Qed.

Lemma existsb_false_forall {A} (f : A -> bool) l : existsb f l = false -> forall x, In x l -> f x = false.
Proof.
  intros H x I. destruct (f x) eqn:E; auto.
  assert (existsb f l = true) by (apply existsb_exists; eauto). congruence.
Qed.

(* ---- unlistManagedHeaders: afterwards NO Connection token names a managed header ---- *)
Lemma tokens_unmanaged cfg vs :
  (forall v s, In v vs -> In s (split_byte v 44) -> managed_token cfg s = false) ->
  forall x, In x (flat_map (fun f => filter (fun s => negb (sempty s)) (map trim (split_byte f 44))) vs) ->
  managed_key cfg (canon_key x) = false.
Proof.
  intros H x I. apply in_flat_map in I as (v & Iv & I). apply filter_In in I as [I _].
  apply in_map_iff in I as (s & <- & Is). exact (H v s Iv Is).
Qed.

Theorem unlist_tokens_unmanaged cfg h x :
  In x (conn_tokens (unlist_managed cfg h)) -> managed_key cfg (canon_key x) = false.
Proof.
  unfold unlist_managed. destruct (hfind h K_CONN) as [vs|] eqn:E.
  2:{ unfold conn_tokens. rewrite E. intros []. }
  destruct (existsb (fun v => existsb (managed_token cfg) (split_byte v 44)) vs) eqn:L.
  - remember (flat_map (fun v => match kept_tokens cfg v with [] => [] | _ :: _ => [join (kept_tokens cfg v) [44]] end) vs) as vals eqn:V.
    assert (HV : forall v s, In v vals -> In s (split_byte v 44) -> managed_token cfg s = false).
    { intros v s Iv Is. rewrite V in Iv. apply in_flat_map in Iv as (v0 & I0 & Iv).
      destruct (kept_tokens cfg v0) as [|t0 ts] eqn:K; [destruct Iv|].
      destruct Iv as [<-|[]]. rewrite split_join in Is.
      - rewrite <- K in Is. unfold kept_tokens in Is. apply filter_In in Is as [_ Is].
        now apply negb_true_iff in Is.
      - discriminate.
      - intros y Iy. rewrite <- K in Iy. apply filter_In in Iy as [Iy _].
        now apply (split_byte_no_sep v0 44). }
    assert (EQ : flat_map (fun v => match kept_tokens cfg v with [] => [] | toks => [join toks [44]] end) vs = vals).
    { rewrite V. apply flat_map_ext. intros v. destruct (kept_tokens cfg v); reflexivity. }
    rewrite EQ. destruct vals as [|v1 vals'].
    + unfold conn_tokens. rewrite hfind_hdel_same. intros [].
    + unfold conn_tokens. cbn [hfind]. rewrite beq_refl. apply tokens_unmanaged. exact HV.
  - unfold conn_tokens. rewrite E. apply tokens_unmanaged. intros v s Iv Is.
    exact (existsb_false_forall _ _ (existsb_false_forall _ _ L v Iv) s Is).
Qed.

(* After the reverse proxy's hop-by-hop deletion every managed header survives, for ANY
   Connection header the client sent (any case, spacing, repetition, several values): the
   header map handed to ReverseProxy is [unlist_managed cfg h]. *)
Theorem rp_keeps_managed cfg peer h k :
  managed_key cfg k = true -> k <> K_XFF -> mem k hop_headers = false ->
  hfind (rp_out peer (unlist_managed cfg h)) k = hfind h k.
Proof.
  intros M N Hp. rewrite rp_out_other; auto.
  - apply unlist_other. apply not_eq_sym. apply (mem_false_neq _ _ _ Hp). vm_compute. auto.
  - intros x I E. apply unlist_tokens_unmanaged in I. rewrite E in I. congruence.
Qed.

(* whatever addHeaders decided for a managed header reaches the upstream unchanged, on the
   websocket path and through the (modelled) ReverseProxy, whatever Connection says *)
Theorem serve_preserves cfg t uuid r up sts k :
  serve cfg t uuid r = Ok (up, sts) -> wf_hdr (r_hdr r) = true ->
  managed_key cfg k = true -> k <> K_XFF -> mem k hop_headers = false ->
  exists peer h, r_peer r = Some peer /\
    add_headers cfg (t_strip t) (req_with_reqid cfg uuid r) = Ok h /\
    hfind up k = hfind h k.
Proof.
  intros S W M N Hp. apply serve_inv in S as (peer & h & P & A & -> & _).
  exists peer, h. split; [exact P|]. split; [exact A|].
  apply add_headers_ok in A as (peer' & _ & ->).
  set (r' := req_with_reqid cfg uuid r) in *.
  assert (Wh : wf_hdr (upto10 cfg (t_strip t) r' peer' (r_hdr r')) = true).
  { apply wf_upto10. apply wf_cset. exact W. }
  destruct (takes_ws_path _) eqn:WS.
  - now rewrite wire_id.
  - unfold upto10. rewrite rp_keeps_managed by assumption.
    symmetry. apply unlist_other. apply not_eq_sym. apply (mem_false_neq _ _ _ Hp). vm_compute. auto.
Qed.

Lemma canon_nonempty s : s <> [] -> canon_key s <> [].
Proof.
  destruct s as [|c s]; [congruence|]. intros _. unfold canon_key.
  destruct (forallb is_token_byte (c :: s)); cbn [canon_go]; discriminate.
Qed.

Lemma managed_configured cfg name :
  name <> [] -> (name = c_clientip cfg \/ name = c_tlsheader cfg) ->
  managed_key cfg (canon_key name) = true.
Proof.
  intros NE D.
  assert (NZ : sempty (canon_key name) = false).
  { destruct (canon_key name) eqn:E; [now apply canon_nonempty in E|reflexivity]. }
  unfold managed_key. rewrite NZ. cbn [negb andb].
  destruct D as [<-|<-]; rewrite beq_refl; rewrite ?orb_true_r; reflexivity.
Qed.

(* HSTS at the client only on TLS connections, end to end *)
Theorem serve_hsts_only_tls cfg t uuid r up v :
  serve cfg t uuid r = Ok (up, Some v) -> is_tls r = true.
Proof.
  intros S. apply serve_inv in S as (peer & h & _ & _ & _ & E).
  symmetry in E. now apply hsts_only_tls in E.
Qed.

(* ------------------------------------------------------------------ *)
(** * Refutations: concrete witnesses inside the four former finding regions, each on the
    definitions as they were before its repair (7dd13e1, afbb806, 35aa11b, 216337c), each paired
    with the same witness on the current model, where the clause holds *)

(* the faithful [add_headers] is the (current guard, unlist_managed) instance of the
   parametrised definition the unrepaired variants are instances of *)
Lemma add_headers_is_instance cfg strip r :
  add_headers cfg strip r = add_headers_with guard_current unlist_managed cfg strip r.
Proof. reflexivity. Qed.
Lemma serve_is_instance cfg t uuid r :
  serve cfg t uuid r = serve_with add_headers cfg t uuid r.
Proof. reflexivity. Qed.
Ltac witness := repeat (split; [vm_compute; reflexivity|]); vm_compute; reflexivity.

(* F-C08-1 (REPAIRED in /repo by 7dd13e1): host= option; the client asked for example.com on
   port 80; on the code as it was before the repair ([serve_host_first_unrepaired]) *)
Theorem xfh_after_host_rewrite_refuted :
  exists cfg t uuid r up sts,
    cfg_sane cfg = true /\ wf_hdr (r_hdr r) = true /\
    serve_host_first_unrepaired cfg t uuid r = Ok (up, sts) /\
    hget (r_hdr r) K_XFH = [] /\ hget (r_hdr r) K_XFPORT = [] /\
    F_host_rewrite t (r_host r) = true /\
    hfind up K_XFH = Some [bs "backend.internal:8500"] /\ hfind up K_XFPORT = Some [bs "8500"] /\
    cl_host (r_host r) up = false /\ cl_port (spec_port (r_host r) (is_tls r)) up = false.
Proof.
  exists ex_cfg, (ex_tgt (bs "backend.internal:8500")), [], (ex_req None [(bs "Accept", [bs "*/*"])]).
  eexists. eexists. witness.
Qed.

(* ... and the same request on the current code: the forwarding headers describe the client's
   Host, the upstream still receives the option's value as Host *)
Example xfh_after_host_rewrite_repaired :
  let t := ex_tgt (bs "backend.internal:8500") in
  let r := ex_req None [(bs "Accept", [bs "*/*"])] in
  exists up sts,
    serve ex_cfg t [] r = Ok (up, sts) /\ F_host_rewrite t (r_host r) = true /\
    hfind up K_XFH = Some [bs "example.com"] /\ hfind up K_XFPORT = Some [bs "80"] /\
    cl_host (r_host r) up = true /\ cl_port (spec_port (r_host r) (is_tls r)) up = true /\
    upstream_host ex_cfg t [] r = Ok (bs "backend.internal:8500").
Proof. cbv zeta. eexists. eexists. witness. Qed.

(* F-C08-2 (REPAIRED in /repo by afbb806): Upgrade: Websocket with a forged X-Forwarded-For,
   on the code as it was before the repair ([serve_unrepaired]) *)
Theorem xff_capital_websocket_refuted :
  exists cfg t uuid r up sts,
    cfg_sane cfg = true /\ wf_hdr (r_hdr r) = true /\
    serve_unrepaired cfg t uuid r = Ok (up, sts) /\
    F_capital_websocket (r_hdr r) = true /\
    hfind up K_XFF = Some [bs "6.6.6.6"] /\ cl_xff up ex_peer = false.
Proof.
  exists ex_cfg, (ex_tgt []), [],
    (ex_req None [(K_UPGRADE, [bs "Websocket"]); (K_CONN, [bs "Upgrade"]); (K_XFF, [bs "6.6.6.6"])]).
  eexists. eexists. witness.
Qed.

(* ... and the same request on the current code: the peer is appended *)
Example xff_capital_websocket_repaired :
  exists up sts,
    serve ex_cfg (ex_tgt []) []
      (ex_req None [(K_UPGRADE, [bs "Websocket"]); (K_CONN, [bs "Upgrade"]); (K_XFF, [bs "6.6.6.6"])]) = Ok (up, sts) /\
    hfind up K_XFF = Some [bs "6.6.6.6, 1.2.3.4"] /\ cl_xff up ex_peer = true.
Proof. eexists. eexists. witness. Qed.

(* F-C08-3 (REPAIRED in /repo by 35aa11b): ClientIPHeader = "X-Real-Ip" and a forged X-Real-Ip,
   on the code as it was before the repair ([serve_xri_guard_unrepaired]) *)
Theorem clientip_xrealip_refuted :
  exists cfg t uuid r up sts,
    cfg_sane cfg = true /\ wf_hdr (r_hdr r) = true /\
    serve_xri_guard_unrepaired cfg t uuid r = Ok (up, sts) /\
    F_cih_xrealip_forged cfg (r_hdr r) = true /\
    hfind up (canon_key (c_clientip cfg)) = Some [bs "6.6.6.6"] /\ cl_clientip cfg up ex_peer = false.
Proof.
  exists ex_cfg_xri, (ex_tgt []), [], (ex_req None [(K_XRI, [bs "6.6.6.6"])]).
  eexists. eexists. witness.
Qed.

(* ... the same request on the current code: overwritten with the peer, as every other
   spelling of the name always was *)
Example clientip_xrealip_repaired :
  exists up sts,
    serve ex_cfg_xri (ex_tgt []) [] (ex_req None [(K_XRI, [bs "6.6.6.6"])]) = Ok (up, sts) /\
    F_cih_xrealip_forged ex_cfg_xri [(K_XRI, [bs "6.6.6.6"])] = true /\
    hfind up K_XRI = Some [ex_peer] /\ cl_clientip ex_cfg_xri up ex_peer = true.
Proof. eexists. eexists. witness. Qed.

Example clientip_xrealip_lowercase_overwritten :
  let cfg := {| c_clientip := bs "x-real-ip"; c_tlsheader := []; c_tlsvalue := []; c_localip := [];
                c_reqid := []; c_sts_maxage := 0%Z; c_sts_sub := false; c_sts_preload := false |} in
  exists up sts, serve cfg (ex_tgt []) [] (ex_req None [(K_XRI, [bs "6.6.6.6"])]) = Ok (up, sts) /\
                 hfind up K_XRI = Some [ex_peer].
Proof. cbv zeta. eexists. eexists. witness. Qed.

(* F-C08-4 (REPAIRED in /repo by 216337c): Connection names the configured client-IP header,
   X-Real-Ip and (TLS request) the TLS header, on the code as it was before the repair
   ([serve_conn_unrepaired]) *)

Theorem connection_strips_managed_refuted :
  exists cfg t uuid r up sts,
    cfg_sane cfg = true /\ wf_hdr (r_hdr r) = true /\
    serve_conn_unrepaired cfg t uuid r = Ok (up, sts) /\
    F_conn_lists (r_hdr r) (canon_key (c_clientip cfg)) = true /\
    hfind up (canon_key (c_clientip cfg)) = None /\ hfind up K_XRI = None /\
    hfind up (canon_key (c_tlsheader cfg)) = None /\ is_tls r = true /\
    cl_clientip cfg up ex_peer = false /\ cl_xri (r_hdr r) up ex_peer = false /\
    cl_tls cfg (is_tls r) up = false.
Proof.
  exists ex_cfg, (ex_tgt []), [], (ex_req (Some (771, 4865)) ex_conn_hdr).
  eexists. eexists. witness.
Qed.

(* ... the same request on the current code: all three reach the upstream *)
Example connection_strips_managed_repaired :
  let r := ex_req (Some (771, 4865)) ex_conn_hdr in
  exists up sts,
    serve ex_cfg (ex_tgt []) [] r = Ok (up, sts) /\
    F_conn_lists (r_hdr r) (canon_key (c_clientip ex_cfg)) = true /\
    hfind up (bs "X-Client-Ip") = Some [ex_peer] /\ hfind up K_XRI = Some [ex_peer] /\
    hfind up (bs "X-Tls") = Some [bs "true"] /\
    all_hold (clauses ex_cfg (r_hdr r) ex_peer (r_host r) (spec_port (r_host r) true) true true up) = true.
Proof. cbv zeta. eexists. eexists. witness. Qed.

(* unlistManagedHeaders on a Connection header with odd case, spacing, empty tokens and several
   values: unmanaged tokens are kept verbatim, a value left without tokens is dropped *)
Example unlist_example :
  hfind (unlist_managed ex_cfg
           [(K_CONN, [bs "keep-alive , x-CLIENT-ip,X-Forwarded-For,, X-Real-Ip "; bs " X-TLS"; bs "close"])]) K_CONN
  = Some [bs "keep-alive ,X-Forwarded-For,"; bs "close"].
Proof. vm_compute. reflexivity. Qed.

Example unlist_untouched :
  let h := [(K_CONN, [bs "keep-alive , X-Forwarded-For"; bs ""])] in unlist_managed ex_cfg h = h.
Proof. vm_compute. reflexivity. Qed.

Example unlist_deletes :
  hfind (unlist_managed ex_cfg [(K_CONN, [bs "X-Real-Ip"; bs " forwarded"])]) K_CONN = None.
Proof. vm_compute. reflexivity. Qed.

(* non-vacuity: a request full of forged managed headers whose Connection header names managed
   headers in odd case and spacing, X-Forwarded-For included; every clause holds *)
Example clauses_nonvacuous :
  let hdr := [(K_XFF, [bs "6.6.6.6"; bs "7.7.7.7"]); (bs "X-Client-Ip", [bs "6.6.6.6"; bs "8.8.8.8"]);
              (bs "X-Tls", [bs "true"]); (K_XRI, [[]; bs "6.6.6.6"]);
              (K_CONN, [bs "keep-alive, X-Forwarded-For ,x-client-ip"; bs " X-TLS,X-REAL-IP"])] in
  let r := ex_req None hdr in
  exists up sts,
    cfg_sane ex_cfg = true /\ wf_hdr hdr = true /\
    serve ex_cfg (ex_tgt []) [] r = Ok (up, sts) /\
    all_hold (clauses ex_cfg hdr ex_peer (r_host r) (spec_port (r_host r) false) false true up) = true /\
    hfind up K_XFF = Some [bs "1.2.3.4"] /\ hfind up (bs "X-Client-Ip") = Some [ex_peer] /\
    hfind up (bs "X-Tls") = None /\ hfind up K_XRI = Some [ex_peer].
Proof. cbv zeta. eexists. eexists. witness. Qed.

(* ------------------------------------------------------------------ *)
(** * Every clause holds at the upstream (no finding region is left) *)

Lemma mem_app k a b : mem k (a ++ b) = mem k a || mem k b.
Proof. unfold mem. apply existsb_app. Qed.

Lemma off_of_mem name k l :
  name = [] \/ mem (canon_key name) l = false -> In k l -> off k name.
Proof.
  intros [E|M] I; [now left|]. right. apply (mem_false_neq _ _ _ M). exact I.
Qed.

Record sane_facts (cfg : config) : Prop := {
  sf_c : forall k, In k [K_XFP; K_XFPORT; K_XFH; K_XFPREFIX; K_FWD; K_UPGRADE; K_CONN] -> off k (c_clientip cfg);
  sf_t : forall k, In k (builtin_keys ++ [K_UPGRADE; K_CONN]) -> off k (c_tlsheader cfg);
  sf_r : forall k, In k (builtin_keys ++ [K_UPGRADE; K_CONN]) -> off k (c_reqid cfg);
  sf_ct : c_clientip cfg = [] \/ off (canon_key (c_clientip cfg)) (c_tlsheader cfg);
  sf_chop : c_clientip cfg = [] \/ mem (canon_key (c_clientip cfg)) hop_headers = false;
  sf_thop : c_tlsheader cfg = [] \/ mem (canon_key (c_tlsheader cfg)) hop_headers = false }.

Lemma sempty_inv s : sempty s = true -> s = [].
Proof. destruct s; [auto|discriminate]. Qed.

Lemma name_ok_hop n : name_ok n = true -> mem (canon_key n) hop_headers = false.
Proof.
  unfold name_ok, reserved_keys. intros H. apply andb_true_iff in H as [_ H].
  apply negb_true_iff in H. rewrite mem_app in H. now apply orb_false_iff in H as [H _].
Qed.

Lemma hop_has_UP_CONN k : In k [K_UPGRADE; K_CONN] -> In k hop_headers.
Proof. cbn [In]. intros [<-|[<-|[]]]; vm_compute; auto 12. Qed.

Lemma mem_neq_all name (l1 l2 : list str) :
  mem (canon_key name) l1 = false -> mem (canon_key name) hop_headers = false ->
  (forall k, In k l2 -> In k l1 \/ In k hop_headers) ->
  forall k, In k l2 -> off k name.
Proof.
  intros M1 M2 Sub k I. right. destruct (Sub k I) as [J|J].
  - now apply (mem_false_neq _ _ _ M1).
  - now apply (mem_false_neq _ _ _ M2).
Qed.

Lemma cfg_sane_facts cfg : cfg_sane cfg = true -> sane_facts cfg.
Proof.
  unfold cfg_sane. intros H.
  apply andb_true_iff in H as [H HR]. apply andb_true_iff in H as [HC HT].
  assert (Sub1 : forall k, In k [K_XFP; K_XFPORT; K_XFH; K_XFPREFIX; K_FWD; K_UPGRADE; K_CONN] ->
                 In k [K_XFP; K_XFPORT; K_XFH; K_XFPREFIX; K_FWD] \/ In k hop_headers).
  { intros k I. cbn [In] in I.
    destruct I as [<-|[<-|[<-|[<-|[<-|I]]]]]; [left; cbn; auto 10..|right; now apply hop_has_UP_CONN]. }
  assert (Sub2 : forall k, In k (builtin_keys ++ [K_UPGRADE; K_CONN]) -> In k builtin_keys \/ In k hop_headers).
  { intros k I. apply in_app_or in I as [I|I]; [now left|right; now apply hop_has_UP_CONN]. }
  constructor.
  - destruct (sempty (c_clientip cfg)) eqn:E; [intros; left; now apply sempty_inv|].
    cbn [orb] in HC. apply andb_true_iff in HC as [A B]. apply negb_true_iff in B.
    apply (mem_neq_all _ _ _ B (name_ok_hop _ A) Sub1).
  - destruct (sempty (c_tlsheader cfg)) eqn:E; [intros; left; now apply sempty_inv|].
    cbn [orb] in HT. apply andb_true_iff in HT as [A _]. apply andb_true_iff in A as [A B].
    apply negb_true_iff in B. apply (mem_neq_all _ _ _ B (name_ok_hop _ A) Sub2).
  - destruct (sempty (c_reqid cfg)) eqn:E; [intros; left; now apply sempty_inv|].
    cbn [orb] in HR. apply andb_true_iff in HR as [A _]. apply andb_true_iff in A as [A _].
    apply andb_true_iff in A as [A B].
    apply negb_true_iff in B. apply (mem_neq_all _ _ _ B (name_ok_hop _ A) Sub2).
  - destruct (sempty (c_clientip cfg)) eqn:E; [left; now apply sempty_inv|]. right.
    destruct (sempty (c_tlsheader cfg)) eqn:E2; [left; now apply sempty_inv|]. right.
    cbn [orb] in HT. apply andb_true_iff in HT as [_ B]. apply negb_true_iff in B. now apply beq_neq.
  - destruct (sempty (c_clientip cfg)) eqn:E; [left; now apply sempty_inv|]. right.
    cbn [orb] in HC. apply andb_true_iff in HC as [A _]. now apply name_ok_hop.
  - destruct (sempty (c_tlsheader cfg)) eqn:E; [left; now apply sempty_inv|]. right.
    cbn [orb] in HT. apply andb_true_iff in HT as [A _]. apply andb_true_iff in A as [A _]. now apply name_ok_hop.
Qed.

Lemma forwarded_general cfg strip r peer h' :
  add_headers cfg strip r = Ok h' -> r_peer r = Some peer ->
  off K_FWD (c_tlsheader cfg) -> off K_FWD (c_clientip cfg) -> hget (r_hdr r) K_FWD = [] ->
  exists p, hfind h' K_FWD = Some [(bs "for=" ++ peer ++ bs "; proto=" ++ p) ++ fwd_items cfg r].
Proof.
  intros H P T C F. apply add_headers_ok in H as (peer' & P' & ->). unfold upto10; rewrite ?unlist_other by auto with keys.
  assert (peer' = peer) by congruence. subst peer'.
  rewrite final_fwd by exact T. rewrite forwarded_value_eq.
  rewrite (hget_eq (upto7 cfg strip r peer (r_hdr r)) (r_hdr r) K_FWD).
  2:{ apply upto7_other; auto with keys. }
  rewrite F. cbn [sempty]. eexists. reflexivity.
Qed.

Lemma veq_eq a b : veq a b = true <-> a = b.
Proof. unfold veq. apply opt_eqb_eq. intros x y. apply list_eqb_eq. apply beq_eq. Qed.


Section OnDomain.
  Variables (cfg : config) (t : target) (uuid : str) (r : request) (peer : str) (up : hmap) (sts : option str).
  Hypothesis SANE : cfg_sane cfg = true.
  Hypothesis WF : wf_hdr (r_hdr r) = true.
  Hypothesis NR : no_region (r_hdr r) = true.
  Hypothesis SV : serve cfg t uuid r = Ok (up, sts).
  Hypothesis PE : r_peer r = Some peer.

  Let hdr := r_hdr r.
  Let r' := req_with_reqid cfg uuid r.
  Let SF := cfg_sane_facts cfg SANE.

  Lemma od_hdr0 k : off k (c_reqid cfg) -> hfind (r_hdr r') k = hfind hdr k.
  Proof. intros O. unfold r'. cbn [req_with_reqid r_hdr]. now apply reqid_off. Qed.

  Lemma od_ctx :
    exists h, add_headers cfg (t_strip t) r' = Ok h /\
      up = (if takes_ws_path h then wire h else rp_out peer h) /\ wf_hdr h = true.
  Proof.
    destruct (serve_inv _ _ _ _ _ _ SV) as (peer' & h & P & A & U & _).
    assert (peer' = peer) by congruence. subst peer'.
    exists h. split; [exact A|]. split; [exact U|].
    apply add_headers_ok in A as (peer' & _ & ->). fold r'.
    apply wf_upto10. unfold r'. cbn [req_with_reqid r_hdr]. apply wf_cset. exact WF.
  Qed.

  (* transport of a managed key to the upstream: whatever the client's Connection header says *)
  Lemma od_transport h k :
    add_headers cfg (t_strip t) r' = Ok h ->
    managed_key cfg k = true -> k <> K_XFF -> mem k hop_headers = false ->
    hfind up k = hfind h k.
  Proof.
    intros A M N Hp.
    destruct (serve_preserves cfg t uuid r up sts k SV WF M N Hp) as (p & h2 & _ & A2 & E).
    fold r' in A2. rewrite A in A2. inversion A2. subst h2. exact E.
  Qed.

  Lemma od_hop_literals :
    mem K_XRI hop_headers = false /\ mem K_XFP hop_headers = false /\ mem K_XFPORT hop_headers = false /\
    mem K_XFH hop_headers = false /\ mem K_FWD hop_headers = false.
  Proof. vm_compute. auto. Qed.

  Lemma od_xff : cl_xff up peer = true.
  Proof.
    destruct SF as [C T R _ _ _].
    apply (xff_last_is_peer cfg t uuid r peer up sts SV PE WF).
    - apply T. apply in_or_app. left. cbn; auto.
    - apply C. cbn; auto 10.
    - apply T. apply in_or_app. right. cbn; auto.
    - apply R. apply in_or_app. right. cbn; auto.
  Qed.

  Lemma od_xri : cl_xri hdr up peer = true.
  Proof.
    destruct od_ctx as (h & A & U & Wh).
    destruct SF as [C T R _ _ _].
    destruct od_hop_literals as (H1 & _).
    assert (E : hfind up K_XRI = hfind h K_XRI).
    { apply (od_transport h K_XRI A); auto with keys; reflexivity. }
    assert (O : off K_XRI (c_reqid cfg)) by (apply R; apply in_or_app; left; cbn; auto).
    assert (OT : off K_XRI (c_tlsheader cfg)) by (apply T; apply in_or_app; left; cbn; auto).
    destruct (xrealip_rule cfg (t_strip t) r' peer h A PE OT) as [L|[NE L]]; unfold cl_xri; rewrite E.
    - rewrite L. rewrite (proj2 (veq_eq _ _) eq_refl). reflexivity.
    - rewrite L. rewrite od_hdr0 by exact O. rewrite (proj2 (veq_eq (hfind hdr K_XRI) _) eq_refl).
      rewrite (hget_eq _ hdr K_XRI (od_hdr0 K_XRI O)) in NE.
      destruct (hget hdr K_XRI); [congruence|]. cbn [sempty negb andb]. apply orb_true_r.
  Qed.

  Lemma od_tls : sempty (c_tlsheader cfg) || cl_tls cfg (is_tls r) up = true.
  Proof.
    destruct (sempty (c_tlsheader cfg)) eqn:ETH; [reflexivity|]. cbn [orb].
    destruct od_ctx as (h & A & U & Wh).
    destruct SF as [C T R CT _ TH].
    assert (NE : c_tlsheader cfg <> []) by (intros Z; rewrite Z in ETH; discriminate).
    assert (N1 : canon_key (c_tlsheader cfg) <> K_XFF).
    { destruct (T K_XFF) as [Z|Z]; [apply in_or_app; left; cbn; auto|congruence|exact Z]. }
    assert (E : hfind up (canon_key (c_tlsheader cfg)) = hfind h (canon_key (c_tlsheader cfg))).
    { apply (od_transport h _ A); auto.
      - apply managed_configured; auto.
      - destruct TH; [congruence|auto]. }
    assert (NC : canon_key (c_tlsheader cfg) <> K_CONN).
    { destruct (T K_CONN) as [Z|Z]; [apply in_or_app; right; cbn; auto|congruence|exact Z]. }
    unfold cl_tls. rewrite E. rewrite (tls_header_iff_tls cfg _ r' h A NE NC).
    change (is_tls r') with (is_tls r). destruct (is_tls r); apply veq_eq; reflexivity.
  Qed.

  Lemma od_fresh : fresh hdr = true -> fresh (r_hdr r') = true.
  Proof.
    destruct SF as [_ _ R _ _ _]. unfold fresh. intros F.
    rewrite (hget_eq (r_hdr r') hdr K_XFP), (hget_eq (r_hdr r') hdr K_FWD); auto;
      apply od_hdr0; apply R; apply in_or_app; left; cbn; auto 10.
  Qed.

  Lemma od_regions : F_fwd_proto_trusted hdr = false /\ F_xfp_trusted hdr = false.
  Proof.
    unfold no_region in NR. fold hdr in NR. apply andb_true_iff in NR as [A B].
    now apply negb_true_iff in A, B.
  Qed.

  Lemma od_proto : negb (sempty (hget hdr K_XFP)) || cl_proto (is_tls r) up = true.
  Proof.
    destruct (hget hdr K_XFP) eqn:F; [|reflexivity]. cbn [sempty negb orb].
    destruct od_ctx as (h & A & U & Wh).
    destruct SF as [C T R _ _ _]. destruct od_regions as (F5 & _).
    destruct od_hop_literals as (_ & H2 & _).
    assert (E : hfind up K_XFP = hfind h K_XFP).
    { apply (od_transport h K_XFP A); auto with keys; reflexivity. }
    assert (OX : off K_XFP (c_reqid cfg)) by (apply R; apply in_or_app; left; cbn; auto 10).
    assert (OF : off K_FWD (c_reqid cfg)) by (apply R; apply in_or_app; left; cbn; auto 10).
    unfold cl_proto. rewrite E.
    rewrite (proto_supplied cfg _ r' h A).
    - apply veq_eq. reflexivity.
    - rewrite (hget_eq (r_hdr r') hdr K_XFP); auto. now apply od_hdr0.
    - unfold F_fwd_proto_trusted in *.
      rewrite (hget_eq (r_hdr r') hdr K_XFP), (hget_eq (r_hdr r') hdr K_FWD); auto; now apply od_hdr0.
    - apply C. cbn; auto.
    - apply C. cbn; auto 10.
    - apply T. apply in_or_app. left. cbn; auto.
  Qed.

  Lemma od_port : negb (sempty (hget hdr K_XFPORT)) || cl_port (local_port (r_host r) (is_tls r)) up = true.
  Proof.
    destruct (hget hdr K_XFPORT) eqn:F; [|reflexivity]. cbn [sempty negb orb].
    destruct od_ctx as (h & A & U & Wh).
    destruct SF as [C T R _ _ _].
    destruct od_hop_literals as (_ & _ & H3 & _).
    assert (E : hfind up K_XFPORT = hfind h K_XFPORT).
    { apply (od_transport h K_XFPORT A); auto with keys; reflexivity. }
    unfold cl_port. rewrite E.
    rewrite (port_truthful cfg _ r' h A).
    - change (r_host r') with (r_host r).
      change (is_tls r') with (is_tls r). apply veq_eq. reflexivity.
    - rewrite (hget_eq (r_hdr r') hdr K_XFPORT); auto. apply od_hdr0. apply R. apply in_or_app. left. cbn; auto 10.
    - apply C. cbn; auto.
    - apply T. apply in_or_app. left. cbn; auto 10.
  Qed.

  Lemma od_host : negb (sempty (hget hdr K_XFH)) || sempty (r_host r) || cl_host (r_host r) up = true.
  Proof.
    destruct (hget hdr K_XFH) eqn:F; [|reflexivity]. cbn [sempty negb orb].
    destruct (sempty (r_host r)) eqn:EH; [reflexivity|]. cbn [orb].
    destruct od_ctx as (h & A & U & Wh).
    destruct SF as [C T R _ _ _].
    destruct od_hop_literals as (_ & _ & _ & H4 & _).
    assert (E : hfind up K_XFH = hfind h K_XFH).
    { apply (od_transport h K_XFH A); auto with keys; reflexivity. }
    unfold cl_host. rewrite E.
    rewrite (host_truthful cfg _ r' h A).
    - change (r_host r') with (r_host r). apply veq_eq. reflexivity.
    - rewrite (hget_eq (r_hdr r') hdr K_XFH); auto. apply od_hdr0. apply R. apply in_or_app. left. cbn; auto 10.
    - change (r_host r') with (r_host r). intros Z; rewrite Z in EH; discriminate.
    - apply C. cbn; auto.
    - apply T. apply in_or_app. left. cbn; auto 10.
  Qed.

  Lemma od_cih :
    sempty (c_clientip cfg) ||
    (if beq (canon_key (c_clientip cfg)) K_XFF then negb true || negb (wf_hdr hdr) || cl_xff up peer
     else cl_clientip cfg up peer) = true.
  Proof.
    destruct (sempty (c_clientip cfg)) eqn:EC; [reflexivity|]. cbn [orb].
    assert (NE : c_clientip cfg <> []) by (intros Z; rewrite Z in EC; discriminate).
    destruct (beq (canon_key (c_clientip cfg)) K_XFF) eqn:B; [rewrite od_xff; apply orb_true_r|].
    apply beq_neq in B.
    destruct od_ctx as (h & A & U & Wh).
    destruct SF as [C T R CT CH _].
    assert (E : hfind up (canon_key (c_clientip cfg)) = hfind h (canon_key (c_clientip cfg))).
    { apply (od_transport h _ A); auto.
      - apply managed_configured; auto.
      - destruct CH; [congruence|auto]. }
    unfold cl_clientip. rewrite E. apply veq_eq.
    apply (clientip_overwritten cfg (t_strip t) r' peer h A PE NE); auto.
    + intros Z. apply B. rewrite Z. reflexivity.
    + assert (O : forall k, In k [K_XFP; K_XFPORT; K_XFH; K_XFPREFIX; K_FWD] -> canon_key (c_clientip cfg) <> k).
      { intros k I. destruct (C k) as [Z|Z]; [cbn [In] in *; intuition|congruence|exact Z]. }
      unfold mem. cbn [existsb].
      rewrite (beq_false_of_neq _ _ B).
      rewrite !beq_false_of_neq; [reflexivity|apply O; cbn; auto 10..].
    + destruct (C K_CONN) as [Z|Z]; [cbn; auto 10|congruence|exact Z].
    + destruct CT; [congruence|auto].
  Qed.

  Lemma od_fwd : cl_fwd hdr peer (is_tls r) up = true.
  Proof.
    destruct od_ctx as (h & A & U & Wh).
    destruct SF as [C T R _ _ _].
    destruct od_hop_literals as (_ & _ & _ & _ & H5).
    assert (E : hfind up K_FWD = hfind h K_FWD).
    { apply (od_transport h K_FWD A); auto with keys; reflexivity. }
    assert (OC : off K_FWD (c_clientip cfg)) by (apply C; cbn; auto 10).
    assert (OC2 : off K_XFP (c_clientip cfg)) by (apply C; cbn; auto 10).
    assert (OT : off K_FWD (c_tlsheader cfg)) by (apply T; apply in_or_app; left; cbn; auto 10).
    assert (OR : off K_FWD (c_reqid cfg)) by (apply R; apply in_or_app; left; cbn; auto 10).
    assert (G : hget (r_hdr r') K_FWD = hget hdr K_FWD) by (apply hget_eq, od_hdr0, OR).
    unfold cl_fwd. rewrite E.
    destruct (hget hdr K_FWD) eqn:EF.
    - cbn [sempty negb].
      assert (FR : fresh hdr = true).
      { destruct od_regions as (_ & F6). unfold F_xfp_trusted in F6. rewrite EF in F6. cbn [sempty andb] in F6.
        apply negb_false_iff in F6. unfold fresh. now rewrite F6, EF. }
      destruct (forwarded_fresh cfg _ r' peer h A PE (od_fresh FR) OC2 OC OT) as (p & I & L).
      rewrite L. change (is_tls r') with (is_tls r) in I.
      apply existsb_exists. exists p. split; [exact I|].
      unfold starts_item. destruct (fwd_items_shape cfg r') as [Z|[rest Z]]; rewrite Z.
      + rewrite app_nil_r, beq_refl. reflexivity.
      + apply orb_true_iff. right. apply has_prefix_spec. exists rest.
        apply (app_assoc _ [59] rest).
    - cbn [sempty negb].
      rewrite (forwarded_appends_only cfg _ r' h A OT OC) by (rewrite G; discriminate).
      rewrite G. apply has_prefix_spec. eexists. reflexivity.
  Qed.

  (* every clause of the property holds at the upstream, for every client header map and
     every sane configuration outside the four finding regions *)
  Theorem serve_clauses_on_domain :
    all_hold (clauses cfg hdr peer (r_host r) (local_port (r_host r) (is_tls r)) (is_tls r) true up) = true.
  Proof.
    unfold all_hold, clauses. cbn [forallb fst].
    repeat (apply andb_true_iff; split);
      first [ exact od_cih | exact od_xri | exact od_tls | exact od_proto | exact od_port
            | exact od_host | exact od_fwd | (rewrite od_xff; apply orb_true_r) | reflexivity ].
  Qed.
End OnDomain.

Theorem serve_sts_clause cfg t uuid r up sts :
  serve cfg t uuid r = Ok (up, sts) ->
  cl_sts cfg (is_tls r) (match sts with Some v => [v] | None => [] end) = true.
Proof.
  intros S. apply serve_inv in S as (peer & h & _ & _ & _ & ->).
  unfold add_response_headers, cl_sts.
  destruct (is_tls r && (0 <? c_sts_maxage cfg)%Z) eqn:E.
  - apply andb_true_iff in E as [-> _]. cbn [andb]. apply has_prefix_spec. eexists. unfold sts_value. reflexivity.
  - reflexivity.
Qed.

(* X-Forwarded-Host / -Port at the upstream describe the host the client asked for, WHATEVER
   the route's host= option says (the rewrite runs after addHeaders since 7dd13e1) *)
Theorem serve_host_port_truthful cfg t uuid r peer up sts :
  cfg_sane cfg = true -> wf_hdr (r_hdr r) = true ->
  serve cfg t uuid r = Ok (up, sts) -> r_peer r = Some peer ->
  (hget (r_hdr r) K_XFH = [] -> r_host r <> [] -> hfind up K_XFH = Some [r_host r]) /\
  (hget (r_hdr r) K_XFPORT = [] -> hfind up K_XFPORT = Some [local_port (r_host r) (is_tls r)]).
Proof.
  intros SA W S P. split.
  - intros E N. pose proof (od_host cfg t uuid r peer up sts SA W S P) as H.
    rewrite E in H. cbn [sempty negb orb] in H.
    destruct (r_host r) eqn:EH; [congruence|]. cbn [sempty orb] in H. now apply veq_eq in H.
  - intros E. pose proof (od_port cfg t uuid r peer up sts SA W S P) as H.
    rewrite E in H. cbn [sempty negb orb] in H. now apply veq_eq in H.
Qed.

(* The headers fabio sets reach the upstream whatever the client's Connection header names
   (any case / spacing / repetition / number of values), stated on the clauses themselves:
   client-IP header, X-Real-Ip and TLS header.  (These are three of the clauses of
   [serve_clauses_on_domain]; [rp_keeps_managed] is the statement about the header map.) *)
Theorem serve_managed_survive_connection cfg t uuid r peer up sts :
  cfg_sane cfg = true -> wf_hdr (r_hdr r) = true ->
  serve cfg t uuid r = Ok (up, sts) -> r_peer r = Some peer ->
  (c_clientip cfg <> [] -> canon_key (c_clientip cfg) <> K_XFF -> hfind up (canon_key (c_clientip cfg)) = Some [peer]) /\
  (c_tlsheader cfg <> [] ->
   hfind up (canon_key (c_tlsheader cfg)) = if is_tls r then Some [c_tlsvalue cfg] else None) /\
  cl_xri (r_hdr r) up peer = true.
Proof.
  intros SA W S P. split; [|split].
  - intros NE NX. pose proof (od_cih cfg t uuid r peer up sts SA W S P) as H.
    destruct (c_clientip cfg) eqn:E; [congruence|]. rewrite <- E in *. 
    replace (sempty (c_clientip cfg)) with false in H by (rewrite E; reflexivity).
    rewrite (beq_false_of_neq _ _ NX) in H. cbn [orb] in H. now apply veq_eq in H.
  - intros NE. pose proof (od_tls cfg t uuid r peer up sts SA W S P) as H.
    replace (sempty (c_tlsheader cfg)) with false in H by (destruct (c_tlsheader cfg); [congruence|reflexivity]).
    cbn [orb] in H. unfold cl_tls in H. destruct (is_tls r); now apply veq_eq in H.
  - exact (od_xri cfg t uuid r peer up sts SA W S P).
Qed.

(* ------------------------------------------------------------------ *)
(** * localPort and IPv6 literals (F-C08-5, repaired by 25597b0) *)
Theorem port_ipv6_refuted :
  let host := bs "[::1]:8443" in
  local_port_unrepaired host false = bs ":1]:8443" /\ spec_port host false = bs "8443" /\
  local_port_unrepaired (bs "[2001:db8::2]") true = bs "db8::2]" /\ spec_port (bs "[2001:db8::2]") true = bs "443".
Proof. cbv zeta. witness. Qed.

Example port_ipv6_repaired :
  map (fun h => local_port (bs h) false)
      ["[::1]:8443"; "[2001:db8::2]"; "[fe80::1%eth0]:8080"; "a:b:c"; "host:"; ":80"; "example.com:8080"; "::1"; "[::1]:"; "x]:1"; ""]%string
  = map bs ["8443"; "80"; "8080"; "80"; "80"; "80"; "8080"; "80"; "80"; "80"; "80"]%string /\
  map (fun h => spec_port (bs h) false)
      ["[::1]:8443"; "[2001:db8::2]"; "[fe80::1%eth0]:8080"; "a:b:c"; "host:"; ":80"; "example.com:8080"; "::1"; "[::1]:"; "x]:1"; ""]%string
  = map bs ["8443"; "80"; "8080"; "80"; "80"; "80"; "8080"; "80"; "80"; "80"; "80"]%string.
Proof. split; vm_compute; reflexivity. Qed.

(* end to end on the current model: Host [::1]:8443 over TLS *)
Example port_ipv6_serve :
  let r := {| r_peer := Some ex_peer; r_host := bs "[::1]:8443"; r_tls := Some (771, 4865);
              r_proto := bs "HTTP/1.1"; r_hdr := [] |} in
  exists up sts, serve ex_cfg (ex_tgt []) [] r = Ok (up, sts) /\
                 hfind up K_XFPORT = Some [bs "8443"] /\ hfind up K_XFH = Some [bs "[::1]:8443"].
Proof. cbv zeta. eexists. eexists. witness. Qed.

(* ------------------------------------------------------------------ *)
(** * OPEN findings: fabio believes a Forwarded / X-Forwarded-Proto header the client sent *)

(* F-C08-6 (region 5): plain connection, the client sends only Forwarded: for=9.9.9.9; proto=https;
   the upstream is told X-Forwarded-Proto: https *)
Theorem proto_from_forged_forwarded_refuted :
  exists cfg t uuid r up sts,
    cfg_sane cfg = true /\ wf_hdr (r_hdr r) = true /\ is_tls r = false /\
    serve cfg t uuid r = Ok (up, sts) /\
    hget (r_hdr r) K_XFP = [] /\ F_fwd_proto_trusted (r_hdr r) = true /\
    hfind up K_XFP = Some [bs "https"] /\ cl_proto (is_tls r) up = false.
Proof.
  exists ex_cfg, (ex_tgt []), [], (ex_req None [(K_FWD, [bs "for=9.9.9.9; proto=https"])]).
  eexists. eexists. witness.
Qed.

(* F-C08-7 (region 6): plain connection, the client sends only X-Forwarded-Proto: https; the
   Forwarded header fabio generates says proto=https *)
Theorem forwarded_from_forged_xfp_refuted :
  exists cfg t uuid r up sts,
    cfg_sane cfg = true /\ wf_hdr (r_hdr r) = true /\ is_tls r = false /\
    serve cfg t uuid r = Ok (up, sts) /\
    hget (r_hdr r) K_FWD = [] /\ F_xfp_trusted (r_hdr r) = true /\
    hfind up K_FWD = Some [bs "for=1.2.3.4; proto=https; httpproto=http/1.1"] /\
    cl_fwd (r_hdr r) ex_peer (is_tls r) up = false.
Proof.
  exists ex_cfg, (ex_tgt []), [], (ex_req None [(K_XFP, [bs "https"])]).
  eexists. eexists. witness.
Qed.

(* a Forwarded header without a proto= item is not in region 5, and there the clause holds
   (non-vacuity of the region's complement beyond the "fresh" requests) *)
Example proto_supplied_nonvacuous :
  let hdr := [(K_FWD, [bs "for=9.9.9.9;by=1.1.1.1"])] in
  exists up sts,
    no_region hdr = true /\ fresh hdr = false /\
    serve ex_cfg (ex_tgt []) [] (ex_req None hdr) = Ok (up, sts) /\
    hfind up K_XFP = Some [bs "http"] /\
    all_hold (clauses ex_cfg hdr ex_peer (bs "example.com") (spec_port (bs "example.com") false) false true up) = true.
Proof. cbv zeta. eexists. eexists. witness. Qed.

(* ------------------------------------------------------------------ *)
(** * Mechanism lemmas for the two anchored headers the property text does not mention *)
(* the request-id header is overwritten with the generated id before addHeaders runs *)
Theorem reqid_overwritten cfg uuid r :
  c_reqid cfg <> [] -> hfind (r_hdr (req_with_reqid cfg uuid r)) (canon_key (c_reqid cfg)) = Some [uuid].
Proof.
  intros N. cbn [req_with_reqid r_hdr]. destruct (c_reqid cfg) eqn:E; [congruence|].
  cbn [sempty negb cset]. apply hfind_hset_same.
Qed.

(* X-Forwarded-Prefix is overwritten with the route's strip= value when there is one (and
   passes through unchanged when there is none) *)
Theorem prefix_rule cfg strip r h' :
  add_headers cfg strip r = Ok h' -> off K_XFPREFIX (c_tlsheader cfg) -> off K_XFPREFIX (c_clientip cfg) ->
  hfind h' K_XFPREFIX = if sempty strip then hfind (r_hdr r) K_XFPREFIX else Some [strip].
Proof.
  intros H T C. apply add_headers_ok in H as (peer & P & ->). unfold upto10; rewrite ?unlist_other by auto with keys.
  unfold upto9, upto7. rewrite st9_off by exact T. rewrite st8_other by auto with keys.
  unfold st7. destruct (sempty strip); cbn [negb cset].
  - rewrite st6_other, st5_other, st4_other by auto with keys. apply upto3_other; auto with keys.
  - apply hfind_hset_same.
Qed.
