(** Proofs about Model/Shutdown.v (C18). *)
From Coq Require Import List NArith Bool Lia.
From Fabio Require Import Model.Shutdown.
Import ListNotations.
Local Open Scope N_scope.

(* ---- the order on durations ---- *)
Definition dle (a b : dur) : Prop := dleb a b = true.

Lemma dle_refl a : dle a a.
Proof. destruct a; unfold dle; cbn [dleb]; auto. apply N.leb_refl. Qed.

Lemma dle_trans a b c : dle a b -> dle b c -> dle a c.
Proof.
  unfold dle; destruct a, b, c; cbn [dleb]; intros H1 H2; auto; try discriminate.
  apply N.leb_le in H1. apply N.leb_le in H2. apply N.leb_le. lia.
Qed.

Lemma dle_fin x y : dle (Fin x) (Fin y) <-> x <= y.
Proof. unfold dle; cbn [dleb]. apply N.leb_le. Qed.

Lemma dle_inf a : dle a Inf.
Proof. destruct a; reflexivity. Qed.

Lemma dle_zero a : dle (Fin 0) a.
Proof. destruct a; unfold dle; cbn [dleb]; auto. apply N.leb_le. lia. Qed.

Lemma dltb_spec a b : dltb a b = true <-> ~ dle b a.
Proof.
  unfold dltb, dle. destruct (dleb b a); cbn [negb]; split; intro H.
  - discriminate.
  - exfalso; apply H; reflexivity.
  - intro; discriminate.
  - reflexivity.
Qed.

Lemma dmax_l a b : dle a (dmax a b).
Proof. destruct a, b; unfold dle; cbn [dmax dleb]; auto. apply N.leb_le. lia. Qed.
Lemma dmax_r a b : dle b (dmax a b).
Proof. destruct a, b; unfold dle; cbn [dmax dleb]; auto. apply N.leb_le. lia. Qed.
Lemma dmax_lub a b c : dle a c -> dle b c -> dle (dmax a b) c.
Proof.
  destruct a, b, c; unfold dle; cbn [dmax dleb]; auto; try discriminate.
  intros H1 H2. apply N.leb_le in H1. apply N.leb_le in H2. apply N.leb_le. lia.
Qed.
Lemma dmax_zero_l a : dmax (Fin 0) a = a.
Proof. destruct a; cbn [dmax]; auto. f_equal. lia. Qed.

Lemma dmin_le_r a b : dle (dmin a b) b.
Proof.
  destruct a, b; unfold dle; cbn [dmin dleb]; auto; try apply N.leb_le; try lia.
Qed.
Lemma dmin_glb a b c : dle c a -> dle c b -> dle c (dmin a b).
Proof.
  destruct a, b, c; unfold dle; cbn [dmin dleb]; auto; try discriminate.
  intros H1 H2. apply N.leb_le in H1. apply N.leb_le in H2. apply N.leb_le. lia.
Qed.

Lemma dmin_cases a b : (dmin a b = a /\ dle a b) \/ (dmin a b = b /\ dle b a).
Proof.
  destruct a as [x|], b as [y|]; unfold dle; cbn [dmin dleb].
  - destruct (N.leb_spec x y) as [H|H].
    + left. split; [f_equal; lia|reflexivity].
    + right. split; [f_equal; lia|apply N.leb_le; lia].
  - left. split; reflexivity.
  - right. split; reflexivity.
  - left. split; reflexivity.
Qed.

Lemma dmax_list_ge l x : In x l -> dle x (dmax_list l).
Proof.
  induction l as [|y l IH]; cbn [In dmax_list fold_right]; intros H; [contradiction|].
  destruct H as [->|H].
  - apply dmax_l.
  - eapply dle_trans; [apply IH; exact H|apply dmax_r].
Qed.

Lemma dmax_list_lub l b : (forall x, In x l -> dle x b) -> dle (dmax_list l) b.
Proof.
  induction l as [|y l IH]; cbn [dmax_list fold_right]; intros H.
  - apply dle_zero.
  - apply dmax_lub; [apply H; left; reflexivity|].
    apply IH. intros x Hx. apply H. right. exact Hx.
Qed.

Lemma dle_inf_eq a : dle Inf a -> a = Inf.
Proof. destruct a; unfold dle; cbn [dleb]; auto; discriminate. Qed.

(* ---- what one leaf's Shutdown computes, in closed form ---- *)
(* [grpc_prog] is the code as it is; [grpc_prog_unrepaired] the code before fix 72215e8 *)
Definition good_gp (gp : list step) : Prop := gp = grpc_prog \/ gp = grpc_prog_unrepaired.

Definition leaf_state (gp : list step) (wait : N) (l : leaf) : lstate :=
  exec wait (litems l) (lstuck l) (prog_of gp (lkind l)).
Definition fate_of (gp : list step) (wait : N) (l : leaf) (d : dur) : fate :=
  item_fate (leaf_state gp wait l) d.

Lemma run_leaf_fates gp wait l :
  r_fates (run_leaf gp wait l) = map (fate_of gp wait l) (litems l).
Proof. reflexivity. Qed.
Lemma run_leaf_ret gp wait l : r_ret (run_leaf gp wait l) = now (leaf_state gp wait l).
Proof. reflexivity. Qed.
Lemma run_leaf_closed gp wait l : r_closed (run_leaf gp wait l) = closed_at (leaf_state gp wait l).
Proof. reflexivity. Qed.

Definition idle_or (wait : N) (l : leaf) : dur := dmin (dmax_list (litems l)) (Fin wait).

Lemma state_http gp wait l : lkind l = KHttp ->
  leaf_state gp wait l = {| now := idle_or wait l; closed_at := Some (Fin 0); cut_at := None |}.
Proof.
  intros H. unfold leaf_state, exec, prog_of, http_prog. rewrite H.
  cbn [fold_left exec_step lstate0 now closed_at cut_at]. rewrite dmax_zero_l. reflexivity.
Qed.

Lemma state_tcp gp wait l : lkind l = KTcp ->
  leaf_state gp wait l = {| now := Fin wait; closed_at := Some (Fin 0); cut_at := Some (Fin wait) |}.
Proof.
  intros H. unfold leaf_state, exec, prog_of, tcp_prog. rewrite H.
  cbn [fold_left exec_step lstate0 now closed_at cut_at]. rewrite dmax_zero_l. reflexivity.
Qed.

Lemma state_grpc wait l : lkind l = KGrpc ->
  leaf_state grpc_prog wait l =
  {| now := idle_or wait l; closed_at := Some (Fin 0); cut_at := Some (idle_or wait l) |}.
Proof.
  intros H. unfold leaf_state, exec, prog_of, grpc_prog. rewrite H.
  cbn [fold_left exec_step lstate0 now closed_at cut_at]. rewrite dmax_zero_l. reflexivity.
Qed.

Lemma state_grpc_unrepaired wait l : lkind l = KGrpc ->
  leaf_state grpc_prog_unrepaired wait l =
  {| now := dmax_list (litems l); closed_at := Some (Fin 0); cut_at := None |}.
Proof.
  intros H. unfold leaf_state, exec, prog_of, grpc_prog_unrepaired. rewrite H.
  cbn [fold_left exec_step lstate0 now closed_at cut_at]. rewrite dmax_zero_l. reflexivity.
Qed.

(* ---- clause 1: the listener is closed first, at time 0, whatever work is open ---- *)
Lemma leaf_closed_at_zero gp wait l : good_gp gp -> closed_at (leaf_state gp wait l) = Some (Fin 0).
Proof.
  intros Hg. destruct (lkind l) eqn:K.
  - rewrite (state_http gp wait l K). reflexivity.
  - rewrite (state_tcp gp wait l K). reflexivity.
  - destruct Hg as [-> | ->].
    + rewrite (state_grpc wait l K). reflexivity.
    + rewrite (state_grpc_unrepaired wait l K). reflexivity.
Qed.

Lemma prog_closes_first gp k : good_gp gp -> exists rest, prog_of gp k = CloseListener :: rest.
Proof.
  intros [-> | ->]; destruct k; cbn [prog_of]; unfold http_prog, tcp_prog, grpc_prog, grpc_prog_unrepaired; eauto.
Qed.

Lemma dltb_fin_zero t : dltb (Fin t) (Fin 0) = false.
Proof. unfold dltb; cbn [dleb]. replace (0 <=? t) with true; auto. symmetry. apply N.leb_le. lia. Qed.

Lemma server_never_accepts gp wait s t : good_gp gp -> server_accepts (run_server gp wait s) t = false.
Proof.
  intros Hg. destruct s as [l | cs]; cbn [run_server server_accepts s_outer_closed s_leaves].
  - cbn [existsb]. unfold leaf_accepts. rewrite run_leaf_closed, (leaf_closed_at_zero gp wait l Hg).
    rewrite dltb_fin_zero. reflexivity.
  - apply dltb_fin_zero.
Qed.

Theorem listeners_closed_first_gen gp wait srvs r t : good_gp gp ->
  In r (g_servers (shutdown_with gp wait srvs)) -> server_accepts r t = false.
Proof.
  intros Hg H. cbn [shutdown_with g_servers] in H. apply in_map_iff in H.
  destruct H as [s [<- _]]. apply server_never_accepts. exact Hg.
Qed.

Theorem listeners_closed_first wait srvs r t :
  In r (g_servers (shutdown wait srvs)) -> server_accepts r t = false.
Proof. apply listeners_closed_first_gen. left; reflexivity. Qed.

(* and the close precedes every wait: it is the first step of each Shutdown method, and each
   leaf's listener is recorded as closed at time 0 *)
Theorem every_listener_closed_at_zero wait srvs s l :
  In s srvs -> In l (leaves s) ->
  exists sr lr, In sr (g_servers (shutdown wait srvs)) /\ In lr (s_leaves sr) /\
                r_closed lr = Some (Fin 0) /\ lr = run_leaf grpc_prog wait l.
Proof.
  intros Hs Hl. exists (run_server grpc_prog wait s), (run_leaf grpc_prog wait l).
  split; [cbn [shutdown shutdown_with g_servers]; apply in_map; exact Hs|].
  split.
  - destruct s as [l0 | cs]; cbn [leaves In] in Hl; cbn [run_server s_leaves].
    + destruct Hl as [->|[]]. left; reflexivity.
    + apply in_map. exact Hl.
  - split; [|reflexivity]. rewrite run_leaf_closed. apply leaf_closed_at_zero. left; reflexivity.
Qed.

(* ---- return times ---- *)
Lemma leaf_ret_le_server gp wait s l :
  In l (leaves s) -> dle (r_ret (run_leaf gp wait l)) (s_ret (run_server gp wait s)).
Proof.
  destruct s as [l0 | cs]; cbn [leaves In run_server s_ret]; intros H.
  - destruct H as [->|[]]. apply dle_refl.
  - apply dmax_list_ge. rewrite map_map. apply in_map_iff. exists l. split; auto.
Qed.

Lemma server_ret_le_global gp wait srvs s :
  In s srvs -> dle (s_ret (run_server gp wait s)) (g_ret (shutdown_with gp wait srvs)).
Proof.
  intros H. cbn [shutdown_with g_ret]. apply dmax_list_ge. rewrite map_map.
  apply in_map_iff. exists s. split; auto.
Qed.

Lemma leaf_ret_le_global gp wait srvs s l :
  In s srvs -> In l (leaves s) ->
  dle (r_ret (run_leaf gp wait l)) (g_ret (shutdown_with gp wait srvs)).
Proof.
  intros Hs Hl. eapply dle_trans; [apply leaf_ret_le_server; exact Hl|apply server_ret_le_global; exact Hs].
Qed.

Lemma global_ret_lub gp wait srvs b :
  (forall s l, In s srvs -> In l (leaves s) -> dle (r_ret (run_leaf gp wait l)) b) ->
  dle (g_ret (shutdown_with gp wait srvs)) b.
Proof.
  intros H. cbn [shutdown_with g_ret]. apply dmax_list_lub. intros x Hx.
  apply in_map_iff in Hx. destruct Hx as [sr [<- Hsr]]. apply in_map_iff in Hsr.
  destruct Hsr as [s [<- Hs]]. destruct s as [l | cs]; cbn [run_server s_ret].
  - apply (H (Single l) l Hs). left; reflexivity.
  - apply dmax_list_lub. intros y Hy. apply in_map_iff in Hy. destruct Hy as [lr [<- Hlr]].
    apply in_map_iff in Hlr. destruct Hlr as [l [<- Hl]]. apply (H (Composite cs) l Hs Hl).
Qed.

Lemma idle_or_le_wait wait l : dle (idle_or wait l) (Fin wait).
Proof. apply dmin_le_r. Qed.

(* ---- clause 2: work that ends within the wait completes, and before Shutdown returns ---- *)
Lemma leaf_drains gp wait l n : good_gp gp ->
  In (Fin n) (litems l) -> n <= wait ->
  fate_of gp wait l (Fin n) = Done n /\ dle (Fin n) (r_ret (run_leaf gp wait l)).
Proof.
  intros Hg Hin Hn. rewrite run_leaf_ret. unfold fate_of.
  assert (Hmax : dle (Fin n) (dmax_list (litems l))) by (apply dmax_list_ge; exact Hin).
  assert (Hidle : dle (Fin n) (idle_or wait l)).
  { apply dmin_glb; [exact Hmax|apply dle_fin; exact Hn]. }
  destruct (lkind l) eqn:K.
  - rewrite (state_http gp wait l K). cbn [item_fate cut_at now]. split; [reflexivity|exact Hidle].
  - rewrite (state_tcp gp wait l K). cbn [item_fate cut_at now].
    assert (E : dleb (Fin n) (Fin wait) = true) by (apply dle_fin; exact Hn).
    rewrite E. split; [reflexivity|exact E].
  - destruct Hg as [-> | ->].
    + rewrite (state_grpc wait l K). cbn [item_fate cut_at now].
      pose proof Hidle as Hi2. unfold dle in Hi2. rewrite Hi2. split; [reflexivity|exact Hidle].
    + rewrite (state_grpc_unrepaired wait l K). cbn [item_fate cut_at now]. split; [reflexivity|exact Hmax].
Qed.

Theorem inflight_within_wait_complete_gen gp wait srvs s l n : good_gp gp ->
  In s srvs -> In l (leaves s) -> In (Fin n) (litems l) -> n <= wait ->
  fate_of gp wait l (Fin n) = Done n /\
  survives (shutdown_with gp wait srvs) (Done n) = true.
Proof.
  intros Hg Hs Hl Hin Hn. destruct (leaf_drains gp wait l n Hg Hin Hn) as [F R].
  split; [exact F|]. cbn [survives].
  exact (dle_trans _ _ _ R (leaf_ret_le_global gp wait srvs s l Hs Hl)).
Qed.

Theorem inflight_within_wait_complete wait srvs s l n :
  In s srvs -> In l (leaves s) -> In (Fin n) (litems l) -> n <= wait ->
  fate_of grpc_prog wait l (Fin n) = Done n /\
  survives (shutdown wait srvs) (Done n) = true.
Proof. apply inflight_within_wait_complete_gen. left; reflexivity. Qed.

(* nothing is ever cut before the deadline; only TCP tunnels and gRPC streams that outlive it
   are cut, at the deadline; HTTP requests are never cut *)
Theorem cut_only_at_deadline wait l d c :
  In d (litems l) -> fate_of grpc_prog wait l d = Cut c ->
  c = Fin wait /\ (lkind l = KTcp \/ lkind l = KGrpc) /\ dltb (Fin wait) d = true.
Proof.
  intros Hin. unfold fate_of. destruct (lkind l) eqn:K.
  - rewrite (state_http grpc_prog wait l K). cbn [item_fate cut_at]. destruct d; discriminate.
  - rewrite (state_tcp grpc_prog wait l K). cbn [item_fate cut_at].
    destruct (dleb d (Fin wait)) eqn:E.
    + destruct d; discriminate.
    + intros H. inversion H. unfold dltb. rewrite E. auto.
  - rewrite (state_grpc wait l K). cbn [item_fate cut_at].
    destruct (dleb d (idle_or wait l)) eqn:E.
    + destruct d; discriminate.
    + intros H. inversion H. subst c.
      assert (Hmax : dle d (dmax_list (litems l))) by (apply dmax_list_ge; exact Hin).
      unfold idle_or in *. destruct (dmin_cases (dmax_list (litems l)) (Fin wait)) as [[Em _]|[Em _]].
      * rewrite Em in E. unfold dle in Hmax. congruence.
      * rewrite Em in *. split; [reflexivity|]. split; [right; reflexivity|].
        unfold dltb. rewrite E. reflexivity.
Qed.

(* ---- clause 3: boundedness, for EVERY mix of servers and open work ---- *)
Lemma leaf_ret_bounded wait l : dle (r_ret (run_leaf grpc_prog wait l)) (Fin wait).
Proof.
  rewrite run_leaf_ret. destruct (lkind l) eqn:K.
  - rewrite (state_http grpc_prog wait l K). cbn [now]. apply idle_or_le_wait.
  - rewrite (state_tcp grpc_prog wait l K). cbn [now]. apply dle_refl.
  - rewrite (state_grpc wait l K). cbn [now]. apply idle_or_le_wait.
Qed.

Theorem bounded wait srvs : dle (g_ret (shutdown wait srvs)) (Fin wait).
Proof. apply global_ret_lub. intros s l _ _. apply leaf_ret_bounded. Qed.

Theorem bounded_http_tcp wait srvs :
  (forall s l, In s srvs -> In l (leaves s) -> lkind l <> KGrpc) ->
  dle (g_ret (shutdown wait srvs)) (Fin wait).
Proof. intros _. apply bounded. Qed.

(* ---- the code before fix 72215e8 (F-C18-1, repaired): GracefulStop without the deadline ---- *)
Definition leaf_over (wait : N) (l : leaf) : bool :=
  kind_eqb (lkind l) KGrpc && existsb (fun d => dltb (Fin wait) d) (litems l).
Definition over_wait (wait : N) (srvs : list server) : bool :=
  existsb (fun s => existsb (leaf_over wait) (leaves s)) srvs.

Lemma kind_eqb_eq a b : kind_eqb a b = true <-> a = b.
Proof. destruct a, b; cbn [kind_eqb]; split; intros H; auto; discriminate. Qed.

Lemma unrepaired_leaf_ret_bounded wait l : leaf_over wait l = false ->
  dle (r_ret (run_leaf grpc_prog_unrepaired wait l)) (Fin wait).
Proof.
  intros H. rewrite run_leaf_ret. destruct (lkind l) eqn:K.
  - rewrite (state_http grpc_prog_unrepaired wait l K). cbn [now]. apply idle_or_le_wait.
  - rewrite (state_tcp grpc_prog_unrepaired wait l K). cbn [now]. apply dle_refl.
  - rewrite (state_grpc_unrepaired wait l K). cbn [now]. unfold leaf_over in H. rewrite K in H.
    cbn [kind_eqb andb] in H. apply dmax_list_lub. intros x Hx.
    destruct (dleb x (Fin wait)) eqn:E; [exact E|].
    exfalso. assert (existsb (fun d => dltb (Fin wait) d) (litems l) = true).
    { apply existsb_exists. exists x. split; auto. unfold dltb. rewrite E. reflexivity. }
    congruence.
Qed.

Theorem unrepaired_bounded_on_domain wait srvs :
  over_wait wait srvs = false -> dle (g_ret (shutdown_unrepaired wait srvs)) (Fin wait).
Proof.
  intros H. apply global_ret_lub. intros s l Hs Hl. apply unrepaired_leaf_ret_bounded.
  destruct (leaf_over wait l) eqn:E; auto.
  exfalso. assert (over_wait wait srvs = true).
  { apply existsb_exists. exists s. split; auto. apply existsb_exists. exists l. split; auto. }
  congruence.
Qed.

(* a gRPC stream that outlived the wait made Shutdown overrun it *)
Theorem unrepaired_grpc_overrun wait srvs :
  over_wait wait srvs = true -> dltb (Fin wait) (g_ret (shutdown_unrepaired wait srvs)) = true.
Proof.
  intros E. apply existsb_exists in E. destruct E as [s [Hs E]]. apply existsb_exists in E.
  destruct E as [l [Hl E]]. unfold leaf_over in E. apply andb_true_iff in E. destruct E as [K E].
  apply kind_eqb_eq in K. apply existsb_exists in E. destruct E as [d [Hd E]].
  apply dltb_spec. intros Hle. apply dltb_spec in E. apply E.
  eapply dle_trans; [|exact Hle].
  eapply dle_trans; [|apply (leaf_ret_le_global grpc_prog_unrepaired wait srvs s l Hs Hl)].
  rewrite run_leaf_ret, (state_grpc_unrepaired wait l K). cbn [now]. apply dmax_list_ge. exact Hd.
Qed.

Theorem unrepaired_bounded_iff wait srvs :
  dle (g_ret (shutdown_unrepaired wait srvs)) (Fin wait) <-> over_wait wait srvs = false.
Proof.
  split.
  - intros H. destruct (over_wait wait srvs) eqn:E; auto.
    apply unrepaired_grpc_overrun in E. apply dltb_spec in E. contradiction.
  - apply unrepaired_bounded_on_domain.
Qed.

(* a never-ending gRPC stream: the unrepaired Shutdown never returned *)
Theorem grpc_never_ending_hangs wait srvs s l :
  In s srvs -> In l (leaves s) -> lkind l = KGrpc -> In Inf (litems l) ->
  g_ret (shutdown_unrepaired wait srvs) = Inf.
Proof.
  intros Hs Hl K Hd. apply dle_inf_eq.
  eapply dle_trans; [|apply (leaf_ret_le_global grpc_prog_unrepaired wait srvs s l Hs Hl)].
  rewrite run_leaf_ret, (state_grpc_unrepaired wait l K). cbn [now]. apply dmax_list_ge. exact Hd.
Qed.

Theorem grpc_unbounded_refuted :
  exists wait srvs, g_ret (shutdown_unrepaired wait srvs) = Inf /\
                    ~ dle (g_ret (shutdown_unrepaired wait srvs)) (Fin wait).
Proof.
  exists 300, [Single (mkleaf KGrpc [Fin 90; Inf])]. split.
  - vm_compute. reflexivity.
  - vm_compute. discriminate.
Qed.

(* the same input on the code as it is: back at the wait, the never-ending stream cut there *)
Example grpc_never_ending_now_cut :
  g_ret (shutdown 300 [Single (mkleaf KGrpc [Fin 90; Inf])]) = Fin 300 /\
  map (fun s => map r_fates (s_leaves s)) (g_servers (shutdown 300 [Single (mkleaf KGrpc [Fin 90; Inf])]))
  = [[[Done 90; Cut (Fin 300)]]].
Proof. split; vm_compute; reflexivity. Qed.

(* ---- further facts about the code as it is ---- *)
(* tcp.Server.Shutdown always sits out the whole wait, even with nothing open *)
Theorem tcp_takes_full_wait wait srvs s l :
  In s srvs -> In l (leaves s) -> lkind l = KTcp -> dle (Fin wait) (g_ret (shutdown wait srvs)).
Proof.
  intros Hs Hl K. eapply dle_trans; [|apply (leaf_ret_le_global grpc_prog wait srvs s l Hs Hl)].
  rewrite run_leaf_ret, (state_tcp grpc_prog wait l K). cbn [now]. apply dle_refl.
Qed.

(* the per-server waits are not added up: two TCP listeners still take one wait; doing them in
   turn would take two *)
Theorem parallel_not_sequential :
  g_ret (shutdown 300 [Single (mkleaf KTcp []); Single (mkleaf KTcp [Inf])]) = Fin 300 /\
  shutdown_sequential_ret 300 [Single (mkleaf KTcp []); Single (mkleaf KTcp [Inf])] = Fin 600.
Proof. split; vm_compute; reflexivity. Qed.

(* stuck handlers: tcp.Server.Shutdown does not wait for its handler goroutines, so (all the
   theorems above quantify over [lstuck] too) they never delay the return; their clients see
   the connection closed at the deadline at the latest *)
Lemma leaf_ret_closed_form wait l :
  r_ret (run_leaf grpc_prog wait l) =
  match lkind l with
  | KHttp => dmin (dmax_list (litems l)) (Fin wait)
  | KTcp => Fin wait
  | KGrpc => dmin (dmax_list (litems l)) (Fin wait)
  end.
Proof.
  rewrite run_leaf_ret. destruct (lkind l) eqn:K.
  - rewrite (state_http grpc_prog wait l K). reflexivity.
  - rewrite (state_tcp grpc_prog wait l K). reflexivity.
  - rewrite (state_grpc wait l K). reflexivity.
Qed.

Theorem stuck_handlers_do_not_delay wait l stuck' hij' :
  r_ret (run_leaf grpc_prog wait l) =
  r_ret (run_leaf grpc_prog wait {| lkind := lkind l; litems := litems l; lstuck := stuck'; lhijacked := hij' |}).
Proof. rewrite !leaf_ret_closed_form. reflexivity. Qed.

Theorem stuck_client_closed_by_deadline wait l f :
  lkind l = KTcp -> In f (r_stuck (run_leaf grpc_prog wait l)) ->
  exists c, f = Cut c /\ dle c (Fin wait).
Proof.
  intros K H. cbn [run_leaf r_stuck] in H. apply in_map_iff in H. destruct H as [b' [<- _]].
  fold (leaf_state grpc_prog wait l). rewrite (state_tcp grpc_prog wait l K).
  unfold stuck_fate. cbn [cut_at]. eexists. split; [reflexivity|apply dmin_le_r].
Qed.

(* a Shutdown that also waited for the handler goroutines (NOT the code) would overrun the
   wait by as long as a handler is stuck *)
Definition tcp_waiting_ret (wait : N) (l : leaf) : dur :=
  now (exec wait (litems l) (lstuck l) tcp_prog_waiting_for_handlers).

Theorem tcp_waiting_ret_spec wait l :
  tcp_waiting_ret wait l = dmax (Fin wait) (dmax_list (lstuck l)).
Proof.
  unfold tcp_waiting_ret, exec, tcp_prog_waiting_for_handlers, tcp_prog.
  cbn [app fold_left exec_step lstate0 now closed_at cut_at]. rewrite dmax_zero_l. reflexivity.
Qed.

Theorem waiting_for_handlers_refuted :
  exists wait l, lkind l = KTcp /\ r_ret (run_leaf grpc_prog wait l) = Fin wait /\
                 ~ dle (tcp_waiting_ret wait l) (Fin wait).
Proof.
  exists 300, {| lkind := KTcp; litems := []; lstuck := [Fin 5000]; lhijacked := [] |}.
  split; [reflexivity|]. split; [vm_compute; reflexivity|]. vm_compute. discriminate.
Qed.

(* ---- the registry: with pairwise distinct configured addresses every started server is
        reached by Shutdown, so clause 1 holds for ALL servers that were started ---- *)
Lemma addr_eqb_eq a b : addr_eqb a b = true <-> a = b.
Proof.
  destruct a as [a1 a2], b as [b1 b2]. unfold addr_eqb. cbn [fst snd]. rewrite andb_true_iff, !N.eqb_eq.
  split; [intros [-> ->]; reflexivity|intros H; inversion H; auto].
Qed.

Lemma not_overwritten a later :
  ~ In a (map fst later) -> overwritten key_configured a later = false.
Proof.
  intros H. unfold overwritten. destruct (existsb _ later) eqn:E; auto. exfalso.
  apply existsb_exists in E. destruct E as [q [Hq E]]. unfold key_configured in E.
  apply addr_eqb_eq in E. apply H. rewrite <- E. apply in_map. exact Hq.
Qed.

Theorem all_started_are_reached gp wait started :
  NoDup (map fst started) ->
  run_started gp key_configured wait started = map (fun p => Some (run_server gp wait (snd p))) started.
Proof.
  induction started as [|[a s] later IH]; cbn [run_started map fst snd]; intros H; [reflexivity|].
  inversion H as [|x xs Hn Hd]; subst. rewrite (not_overwritten a later Hn), (IH Hd). reflexivity.
Qed.

Theorem listeners_closed_first_all_started wait started r t :
  NoDup (map fst started) ->
  In r (run_started grpc_prog key_configured wait started) -> started_accepts r t = false.
Proof.
  intros Hd H. rewrite (all_started_are_reached grpc_prog wait started Hd) in H.
  apply in_map_iff in H. destruct H as [p [<- _]]. cbn [started_accepts].
  apply server_never_accepts. left; reflexivity.
Qed.

Theorem started_ret_is_shutdown_ret wait started :
  NoDup (map fst started) ->
  started_ret (run_started grpc_prog key_configured wait started) = g_ret (shutdown wait (map snd started)).
Proof.
  intros Hd. rewrite (all_started_are_reached grpc_prog wait started Hd).
  unfold started_ret, shutdown, shutdown_with. cbn [g_ret]. rewrite !map_map. reflexivity.
Qed.

(* a registry keyed by the port alone (NOT the code) loses a server of a multi-homed
   configuration: same port on two local addresses; its listener accepts for ever *)
Theorem port_only_key_refuted :
  exists started, NoDup (map fst started) /\
    exists r, In r (run_started grpc_prog key_port_only 300 started) /\ forall t, started_accepts r t = true.
Proof.
  exists [((2130706433, 9000), Single (mkleaf KTcp [Fin 90])); ((2130706434, 9000), Single (mkleaf KTcp [Fin 90]))].
  split.
  - constructor; [cbn; intros [H|[]]; discriminate|]. constructor; [intros []|constructor].
  - exists None. split; [vm_compute; left; reflexivity|]. reflexivity.
Qed.

(* ---- histories of starts and CloseProxy calls ---- *)
Lemma server_ret_bounded wait s : dle (s_ret (run_server grpc_prog wait s)) (Fin wait).
Proof.
  destruct s as [l | cs]; cbn [run_server s_ret].
  - apply leaf_ret_bounded.
  - apply dmax_list_lub. intros x Hx. apply in_map_iff in Hx. destruct Hx as [lr [<- Hlr]].
    apply in_map_iff in Hlr. destruct Hlr as [l [<- _]]. apply leaf_ret_bounded.
Qed.

(* whatever was started, overwritten or closed before, under whatever key function *)
Theorem history_bounded kf wait h : dle (history_ret (run_history grpc_prog kf wait h)) (Fin wait).
Proof.
  unfold history_ret. apply dmax_list_lub. intros x Hx. apply in_map_iff in Hx.
  destruct Hx as [f [<- Hf]]. destruct f; try apply dle_zero.
  induction h as [|o h IH]; cbn [run_history] in Hf; [contradiction|].
  destruct o as [a s | a | a | a s]; try (apply IH; exact Hf).
  - destruct Hf as [Hf | Hf]; [|apply IH; exact Hf].
    destruct (first_touch kf a h) as [[|]|]; try discriminate.
    inversion Hf. apply server_ret_bounded.
  - destruct Hf as [Hf | Hf]; [discriminate|apply IH; exact Hf].
Qed.

(* well-formed histories: an entry is never overwritten while it is registered *)
Lemma wf_first_touch reg h a :
  well_formed_from reg h -> In a reg -> first_touch key_configured a h <> Some false.
Proof.
  revert reg. induction h as [|o h IH]; cbn [first_touch well_formed_from]; intros reg Hw Hin; [discriminate|].
  destruct o as [a' s | a' | a' | a' s].
  - destruct Hw as [Hn Hw]. destruct (addr_eqb (key_configured a') (key_configured a)) eqn:E.
    + exfalso. apply addr_eqb_eq in E. unfold key_configured in E. subst a'. contradiction.
    + apply (IH (a' :: reg) Hw). right. exact Hin.
  - destruct (addr_eqb (key_configured a') (key_configured a)) eqn:E; [discriminate|].
    apply (IH _ Hw). apply filter_In. split; [exact Hin|].
    unfold key_configured in E. destruct (addr_eqb a a') eqn:E2; [|reflexivity].
    apply addr_eqb_eq in E2. subst a'. assert (addr_eqb a a = true) by (apply addr_eqb_eq; reflexivity). congruence.
  - apply (IH reg Hw Hin).
  - contradiction.
Qed.

Lemma history_no_accept_from reg wait h f t :
  well_formed_from reg h ->
  In f (run_history grpc_prog key_configured wait h) -> sfate_accepts f t = false.
Proof.
  revert reg. induction h as [|o h IH]; cbn [run_history well_formed_from]; intros reg Hw Hf; [contradiction|].
  destruct o as [a s | a | a | a s].
  - destruct Hw as [Hn Hw]. destruct Hf as [Hf | Hf]; [|apply (IH _ Hw Hf)].
    pose proof (wf_first_touch (a :: reg) h a Hw (or_introl eq_refl)) as Ht.
    destruct (first_touch key_configured a h) as [[|]|]; subst f; cbn [sfate_accepts].
    + reflexivity.
    + exfalso. apply Ht. reflexivity.
    + apply server_never_accepts. left; reflexivity.
  - apply (IH _ Hw Hf).
  - apply (IH _ Hw Hf).
  - contradiction.
Qed.

(* clause 1 for every well-formed history: restarts on a closed address included *)
Theorem history_no_accept wait h f t :
  well_formed h ->
  In f (run_history grpc_prog key_configured wait h) -> sfate_accepts f t = false.
Proof. apply history_no_accept_from. Qed.

Lemma wf_starts reg started :
  NoDup (map fst started) -> (forall a, In a reg -> ~ In a (map fst started)) ->
  well_formed_from reg (map (fun p => HStart (fst p) (snd p)) started).
Proof.
  revert reg. induction started as [|[a s] l IH]; cbn [map well_formed_from fst snd]; intros reg Hd Hr; [exact I|].
  inversion Hd as [|x xs Hn Hd']; subst. split.
  - intros Hin. apply (Hr a Hin). left. reflexivity.
  - apply IH; [exact Hd'|]. intros b [<-|Hb] Hin; [contradiction|]. apply (Hr b Hb). right. exact Hin.
Qed.

(* pairwise distinct start addresses are a special case *)
Theorem distinct_starts_well_formed started :
  NoDup (map fst started) -> well_formed (map (fun p => HStart (fst p) (snd p)) started).
Proof. intros Hd. apply wf_starts; [exact Hd|]. intros a []. Qed.

(* the tcp-dynamic restart: start a, CloseProxy a, start a again *)
Example restart_history_well_formed :
  well_formed [HStart (1, 9000) (Single (mkleaf KTcp [Fin 90; Inf])); HClose (1, 9000);
               HStart (1, 9000) (Single (mkleaf KTcp [Fin 90])); HStart (1, 80) (Single (mkleaf KHttp []))] /\
  run_history grpc_prog key_configured 300
    [HStart (1, 9000) (Single (mkleaf KTcp [Fin 90; Inf])); HClose (1, 9000);
     HStart (1, 9000) (Single (mkleaf KTcp [Fin 90])); HStart (1, 80) (Single (mkleaf KHttp []))]
  = [SClosed; SReached (run_server grpc_prog 300 (Single (mkleaf KTcp [Fin 90])));
     SReached (run_server grpc_prog 300 (Single (mkleaf KHttp [])))].
Proof.
  split; [|vm_compute; reflexivity].
  unfold well_formed. cbn [well_formed_from filter addr_eqb fst snd negb N.eqb andb Pos.eqb].
  repeat split; try exact I; intros H; cbn [In] in H; repeat destruct H as [H|H]; try discriminate; try contradiction.
Qed.

(* without CloseProxy calls a history is the list of started servers *)
Theorem history_without_close wait started :
  NoDup (map fst started) ->
  run_history grpc_prog key_configured wait (map (fun p => HStart (fst p) (snd p)) started)
  = map (fun p => SReached (run_server grpc_prog wait (snd p))) started.
Proof.
  induction started as [|[a s] later IH]; cbn [map run_history fst snd]; intros H; [reflexivity|].
  inversion H as [|x xs Hn Hd]; subst. rewrite (IH Hd).
  assert (Hw : well_formed_from [a] (map (fun p => HStart (fst p) (snd p)) later)).
  { apply wf_starts; [exact Hd|]. intros b [<-|[]]. exact Hn. }
  pose proof (wf_first_touch [a] _ a Hw (or_introl eq_refl)) as Ht.
  assert (Hc : first_touch key_configured a (map (fun p => HStart (fst p) (snd p)) later) <> Some true).
  { clear. induction later as [|[a' s'] l IH]; cbn [map first_touch fst snd]; [discriminate|].
    destruct (addr_eqb (key_configured a') (key_configured a)); [discriminate|exact IH]. }
  destruct (first_touch key_configured a _) as [[|]|]; try reflexivity; exfalso; auto.
Qed.

(* F-C18-3 (open): a listener started after Shutdown took its snapshot (the tcp-dynamic watcher
   of main.go is never stopped) is never shut down: it accepts until the process exits *)
Theorem late_start_accepts gp kf wait h a s :
  In (HStartDuring a s) h -> In SLate (run_history gp kf wait h).
Proof.
  induction h as [|o h IH]; cbn [In run_history]; intros H; [contradiction|].
  destruct H as [-> | H]; [left; reflexivity|].
  destruct o; try (right; apply IH; exact H); apply IH; exact H.
Qed.

Theorem late_start_refuted :
  exists h, has_late_start h = true /\
    exists f, In f (run_history grpc_prog key_configured 300 h) /\ forall t, sfate_accepts f t = true.
Proof.
  exists [HStart (1, 80) (Single (mkleaf KHttp [Fin 90])); HStartDuring (1, 9000) (Single (mkleaf KTcp []))].
  split; [reflexivity|]. exists SLate. split; [vm_compute; auto|reflexivity].
Qed.

(* well-formed histories contain no late start: the two theorems are complementary *)
Lemma well_formed_no_late_start reg h : well_formed_from reg h -> has_late_start h = false.
Proof.
  revert reg. induction h as [|o h IH]; cbn [well_formed_from has_late_start existsb]; intros reg Hw; [reflexivity|].
  destruct o as [a s | a | a | a s]; cbn [orb].
  - destruct Hw as [_ Hw]. apply (IH _ Hw).
  - apply (IH _ Hw).
  - apply (IH _ Hw).
  - contradiction.
Qed.

(* F-C18-2 (open): http.Server.Shutdown does not track hijacked connections (websocket sessions
   through HTTPProxy): it returns without waiting for them, and the process exit cuts a session
   that would have ended within the wait *)
Theorem hijacked_refuted :
  exists wait l n, lkind l = KHttp /\ In (Fin n) (lhijacked l) /\ n <= wait /\
    r_hijacked (run_leaf grpc_prog wait l) = [Done n] /\
    survives (shutdown wait [Single l]) (Done n) = false.
Proof.
  exists 800, {| lkind := KHttp; litems := []; lstuck := []; lhijacked := [Fin 300] |}, 300.
  split; [reflexivity|]. split; [left; reflexivity|]. split; [lia|]. split; vm_compute; reflexivity.
Qed.

(* it survives exactly when something else keeps Shutdown busy that long, e.g. any TCP listener *)
Theorem hijacked_survives_with_tcp wait srvs s l n :
  In s srvs -> In l (leaves s) -> lkind l = KTcp -> n <= wait ->
  survives (shutdown wait srvs) (Done n) = true.
Proof.
  intros Hs Hl K Hn. cbn [survives]. eapply dle_trans; [apply dle_fin; exact Hn|].
  apply (tcp_takes_full_wait wait srvs s l Hs Hl K).
Qed.

(* a CloseProxy that held the registry lock while draining (NOT the code) would let every other
   listener accept after shutdown began and push the return beyond the wait *)
Theorem lock_held_during_close_refuted :
  exists delay wait s, 0 < delay /\
    lock_held_accepts delay (run_server grpc_prog wait s) 0 = true /\
    ~ dle (lock_held_ret delay (run_server grpc_prog wait s)) (Fin wait).
Proof.
  exists 200, 300, (Single (mkleaf KTcp [Fin 90])). split; [lia|]. split; [vm_compute; reflexivity|].
  vm_compute. discriminate.
Qed.

Example history_nonvacuous_wf :
  well_formed [HStart (1, 80) (Single (mkleaf KHttp [Fin 90])); HStart (1, 9000) (Single (mkleaf KTcp [Fin 90; Inf]));
     HClose (1, 9000); HStart (1, 9000) (Single (mkleaf KTcp [])); HCloseDuring (1, 80)].
Proof.
  unfold well_formed. cbn [well_formed_from filter addr_eqb fst snd negb N.eqb andb Pos.eqb].
  repeat split; try exact I; intros H; cbn [In] in H; repeat destruct H as [H|H]; try discriminate; try contradiction.
Qed.

Example history_nonvacuous :
  run_history grpc_prog key_configured 300
    [HStart (1, 80) (Single (mkleaf KHttp [Fin 90])); HStart (1, 9000) (Single (mkleaf KTcp [Fin 90; Inf]));
     HClose (1, 9000); HStart (1, 9000) (Single (mkleaf KTcp [])); HCloseDuring (1, 80)]
  = [SReached (run_server grpc_prog 300 (Single (mkleaf KHttp [Fin 90]))); SClosed;
     SReached (run_server grpc_prog 300 (Single (mkleaf KTcp [])))].
Proof. vm_compute. reflexivity. Qed.

(* ---- non-vacuity ---- *)
Definition example_mix : list server :=
  [Single (mkleaf KHttp [Fin 90; Fin 600; Inf]);
   Single (mkleaf KTcp [Fin 150; Inf]);
   Single (mkleaf KGrpc [Fin 90; Fin 150; Fin 900; Inf]);
   Composite [mkleaf KTcp [Fin 150; Inf]; mkleaf KHttp [Fin 90; Fin 600]]].

Example bounded_nonvacuous : g_ret (shutdown 300 example_mix) = Fin 300.
Proof. vm_compute; reflexivity. Qed.

Example inflight_nonvacuous :
  map (fun s => map r_fates (s_leaves s)) (g_servers (shutdown 300 example_mix)) =
  [[[Done 90; Done 600; Never]]; [[Done 150; Cut (Fin 300)]];
   [[Done 90; Done 150; Cut (Fin 300); Cut (Fin 300)]];
   [[Done 150; Cut (Fin 300)]; [Done 90; Done 600]]].
Proof. vm_compute. reflexivity. Qed.

Example unrepaired_overrun_nonvacuous :
  over_wait 300 [Single (mkleaf KGrpc [Fin 900])] = true /\
  g_ret (shutdown_unrepaired 300 [Single (mkleaf KGrpc [Fin 900])]) = Fin 900 /\
  over_wait 300 example_mix = true /\ g_ret (shutdown_unrepaired 300 example_mix) = Inf.
Proof. repeat split; vm_compute; reflexivity. Qed.
