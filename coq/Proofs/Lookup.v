(** Proofs about Model.Lookup / Model.Glob (property C03). *)
From Coq Require Import String List NArith Bool Lia PeanoNat Sorting.Sorted Sorting.Permutation.
From Fabio Require Import Lib.Bytes Model.Glob Model.Lookup Proofs.LookupGlob.
Import ListNotations.
Local Open Scope N_scope.

(* ------------------------------------------------------------------ *)
(** * Small list facts *)

Lemma first_some_some {A B} (f : A -> option B) l b :
  first_some f l = Some b -> exists x, In x l /\ f x = Some b.
Proof.
  induction l as [|a l IH]; cbn [first_some]; [discriminate|].
  destruct (f a) eqn:E.
  - intros [= <-]. exists a. split; [now left | exact E].
  - intros H. destruct (IH H) as [x [Hin Hx]]. exists x. split; [now right | exact Hx].
Qed.

Lemma first_some_complete {A B} (f : A -> option B) l x :
  In x l -> f x <> None -> first_some f l <> None.
Proof.
  induction l as [|a l IH]; cbn [first_some In]; [tauto|].
  intros [-> | Hin] Hx.
  - destruct (f x); [discriminate | congruence].
  - destruct (f a); [discriminate | now apply IH].
Qed.

(* the first host that has a matching route answers *)
Lemma first_some_split {A B} (f : A -> option B) l b :
  first_some f l = Some b ->
  exists l1 x l2, l = l1 ++ x :: l2 /\ f x = Some b /\ forall y, In y l1 -> f y = None.
Proof.
  induction l as [|a l IH]; cbn [first_some]; [discriminate|].
  destruct (f a) eqn:E.
  - intros [= <-]. exists [], a, l. split; [reflexivity|]. split; [exact E|]. intros y [].
  - intros H. destruct (IH H) as (l1 & x & l2 & -> & Hx & Hl1).
    exists (a :: l1), x, l2. split; [reflexivity|]. split; [exact Hx|].
    intros y [<- | Hy]; [exact E | now apply Hl1].
Qed.

(* ------------------------------------------------------------------ *)
(** * Byte order *)

Lemma str_cmp_refl a : str_cmp a a = Eq.
Proof. now apply str_cmp_eq. Qed.

Lemma str_ltb_irrefl a : str_ltb a a = false.
Proof. unfold str_ltb. now rewrite str_cmp_refl. Qed.

Lemma str_cmp_ge_trans x : forall y z,
  str_cmp x y <> Lt -> str_cmp y z <> Lt -> str_cmp x z <> Lt.
Proof.
  induction x as [|a x IH]; intros [|b y] [|c z]; cbn [str_cmp]; try congruence.
  destruct (a ?= b) eqn:E1; destruct (b ?= c) eqn:E2; try congruence.
  - apply N.compare_eq in E1. apply N.compare_eq in E2. subst.
    rewrite N.compare_refl. apply IH.
  - apply N.compare_eq in E1. subst. rewrite E2. congruence.
  - apply N.compare_eq in E2. subst. rewrite E1. congruence.
  - intros _ _. apply N.compare_gt_iff in E1. apply N.compare_gt_iff in E2.
    assert (E : (a ?= c) = Gt) by (apply N.compare_gt_iff; lia). rewrite E. congruence.
Qed.

Lemma str_ltb_false_iff a b : str_ltb a b = false <-> str_cmp a b <> Lt.
Proof. unfold str_ltb. destruct (str_cmp a b); split; congruence. Qed.

Lemma str_ge_trans x y z :
  str_ltb x y = false -> str_ltb y z = false -> str_ltb x z = false.
Proof. rewrite !str_ltb_false_iff. apply str_cmp_ge_trans. Qed.

Lemma str_ltb_asym a b : str_ltb a b = true -> str_ltb b a = false.
Proof.
  unfold str_ltb. rewrite (str_cmp_antisym a b). destruct (str_cmp a b); cbn; congruence.
Qed.

(* a shorter prefix of the same string sorts strictly before a longer one *)
Lemma prefix_shorter_lt p : forall u p',
  has_prefix u p = true -> has_prefix u p' = true ->
  (length p < length p')%nat -> str_ltb p p' = true.
Proof.
  induction p as [|a p IH]; intros u p' H1 H2 Hlen.
  - destruct p' as [|b p']; [cbn in Hlen; lia | reflexivity].
  - destruct p' as [|b p']; [cbn in Hlen; lia|].
    destruct u as [|x u]; [cbn in H1; discriminate|].
    cbn [has_prefix] in H1, H2.
    apply andb_true_iff in H1 as [E1 H1]. apply andb_true_iff in H2 as [E2 H2].
    apply N.eqb_eq in E1. apply N.eqb_eq in E2. subst.
    unfold str_ltb. cbn [str_cmp]. rewrite N.compare_refl.
    cbn [length] in Hlen. apply (IH u p' H1 H2). lia.
Qed.

(* ------------------------------------------------------------------ *)
(** * The insertion sort *)
Section SortFacts.
  Context {A : Type} (ltb : A -> A -> bool).
  Hypothesis ltb_irrefl : forall a, ltb a a = false.
  Hypothesis ltb_asym : forall a b, ltb a b = true -> ltb b a = false.
  Hypothesis ltb_ge_trans : forall a b c, ltb a b = false -> ltb b c = false -> ltb a c = false.
  Definition kge (a b : A) : Prop := ltb a b = false.

  Lemma insert_desc_in x y l : In y (insert_desc ltb x l) <-> y = x \/ In y l.
  Proof.
    induction l as [|z l IH]; cbn [insert_desc In].
    - split; [intros [<- | []]; now left | intros [-> | []]; now left].
    - destruct (ltb x z); cbn [In]; [rewrite IH|]; intuition congruence.
  Qed.

  Lemma sort_desc_in y l : In y (sort_desc ltb l) <-> In y l.
  Proof.
    induction l as [|z l IH]; cbn [sort_desc fold_right In]; [tauto|].
    fold (sort_desc ltb l). rewrite insert_desc_in, IH. intuition congruence.
  Qed.

  Lemma insert_desc_sorted x l :
    StronglySorted kge l -> StronglySorted kge (insert_desc ltb x l).
  Proof.
    induction l as [|z l IH]; intros Hs; cbn [insert_desc].
    - constructor; constructor.
    - inversion Hs as [|? ? Hs' Hall]; subst.
      destruct (ltb x z) eqn:E.
      + constructor; [now apply IH|].
        apply Forall_forall. intros y Hy. apply insert_desc_in in Hy as [-> | Hy].
        * unfold kge. now apply ltb_asym.
        * rewrite Forall_forall in Hall. now apply Hall.
      + constructor; [exact Hs|]. constructor; [exact E|].
        rewrite Forall_forall in Hall |- *. intros y Hy.
        unfold kge in *. eapply ltb_ge_trans; [exact E | now apply Hall].
  Qed.

  Lemma sort_desc_sorted l : StronglySorted kge (sort_desc ltb l).
  Proof.
    induction l as [|z l IH]; cbn [sort_desc fold_right]; [constructor|].
    now apply insert_desc_sorted.
  Qed.

  (* [find] on a descending list returns an element that is >= every other hit *)
  Lemma find_sorted_max (f : A -> bool) l r r' :
    StronglySorted kge l -> find f l = Some r -> In r' l -> f r' = true -> kge r r'.
  Proof.
    induction l as [|a l IH]; cbn [find In]; [discriminate|].
    intros Hs Hf Hin Hr'. inversion Hs as [|? ? Hs' Hall]; subst.
    destruct (f a) eqn:E.
    - injection Hf as <-. destruct Hin as [<- | Hin].
      + unfold kge. apply ltb_irrefl.
      + rewrite Forall_forall in Hall. now apply Hall.
    - destruct Hin as [<- | Hin]; [congruence|]. now apply IH.
  Qed.
End SortFacts.

Lemma sorted_filter {A} (R : A -> A -> Prop) (f : A -> bool) l :
  StronglySorted R l -> StronglySorted R (filter f l).
Proof.
  induction 1 as [|a l Hs IH Hall]; cbn [filter]; [constructor|].
  destruct (f a); [|exact IH]. constructor; [exact IH|].
  rewrite Forall_forall in Hall |- *. intros y Hy. apply filter_In in Hy as [Hy _]. now apply Hall.
Qed.

(* the two orders used: plain byte order (hosts) and Routes.Less (paths) *)
Lemma str_ge_antisym a b : str_ltb a b = false -> str_ltb b a = false -> a = b.
Proof.
  rewrite !str_ltb_false_iff. rewrite (str_cmp_antisym a b).
  destruct (str_cmp a b) eqn:E; cbn; try congruence. intros _ _. now apply str_cmp_eq.
Qed.

Lemma route_ltb_irrefl a : route_ltb a a = false.
Proof. unfold route_ltb. rewrite beq_refl. apply str_ltb_irrefl. Qed.

Lemma beq_sym a b : beq a b = beq b a.
Proof.
  destruct (beq a b) eqn:E.
  - apply beq_eq in E. subst. symmetry. apply beq_refl.
  - symmetry. apply beq_neq. apply beq_neq in E. congruence.
Qed.

Lemma route_ltb_asym a b : route_ltb a b = true -> route_ltb b a = false.
Proof.
  unfold route_ltb. rewrite (beq_sym (lower (fst b))).
  destruct (beq (lower (fst a)) (lower (fst b))); apply str_ltb_asym.
Qed.

Lemma route_ltb_ge_trans a b c :
  route_ltb a b = false -> route_ltb b c = false -> route_ltb a c = false.
Proof.
  unfold route_ltb.
  set (la := lower (fst a)). set (lb := lower (fst b)). set (lc := lower (fst c)).
  destruct (beq la lb) eqn:Eab; destruct (beq lb lc) eqn:Ebc; intros H1 H2.
  - apply beq_eq in Eab. apply beq_eq in Ebc. rewrite Eab, Ebc, beq_refl.
    eapply str_ge_trans; eassumption.
  - apply beq_eq in Eab. rewrite Eab, Ebc. exact H2.
  - apply beq_eq in Ebc. rewrite <- Ebc, Eab. exact H1.
  - pose proof (str_ge_trans _ _ _ H1 H2) as H3.
    destruct (beq la lc) eqn:Eac; [|exact H3].
    exfalso. apply beq_eq in Eac. rewrite <- Eac in H2.
    apply beq_neq in Eab. apply Eab. now apply str_ge_antisym.
Qed.


(* the host order of sortHostsReverseHostPort (since cf1c479) *)
Lemma host_ltb_irrefl a : host_ltb a a = false.
Proof. unfold host_ltb. rewrite beq_refl. apply str_ltb_irrefl. Qed.

Lemma host_ltb_asym a b : host_ltb a b = true -> host_ltb b a = false.
Proof.
  unfold host_ltb. rewrite (beq_sym (reverse_host_port b)).
  destruct (beq (reverse_host_port a) (reverse_host_port b)); apply str_ltb_asym.
Qed.

Lemma host_ltb_ge_trans a b c :
  host_ltb a b = false -> host_ltb b c = false -> host_ltb a c = false.
Proof.
  unfold host_ltb.
  set (la := reverse_host_port a). set (lb := reverse_host_port b). set (lc := reverse_host_port c).
  destruct (beq la lb) eqn:Eab; destruct (beq lb lc) eqn:Ebc; intros H1 H2.
  - apply beq_eq in Eab. apply beq_eq in Ebc. rewrite Eab, Ebc, beq_refl.
    eapply str_ge_trans; eassumption.
  - apply beq_eq in Eab. rewrite Eab, Ebc. exact H2.
  - apply beq_eq in Ebc. rewrite <- Ebc, Eab. exact H1.
  - pose proof (str_ge_trans _ _ _ H1 H2) as H3.
    destruct (beq la lc) eqn:Eac; [|exact H3].
    exfalso. apply beq_eq in Eac. rewrite <- Eac in H2.
    apply beq_neq in Eab. apply Eab. now apply str_ge_antisym.
Qed.

(* sorting and the exact-first pass only permute *)
Lemma insert_desc_perm {A} (ltb : A -> A -> bool) x l : Permutation (insert_desc ltb x l) (x :: l).
Proof.
  induction l as [|y l IH]; cbn [insert_desc]; [apply Permutation_refl|].
  destruct (ltb x y); [|apply Permutation_refl].
  eapply Permutation_trans; [apply perm_skip; exact IH | apply perm_swap].
Qed.

Lemma sort_desc_perm {A} (ltb : A -> A -> bool) l : Permutation (sort_desc ltb l) l.
Proof.
  induction l as [|y l IH]; cbn [sort_desc fold_right]; [apply Permutation_refl|].
  fold (sort_desc ltb l). eapply Permutation_trans; [apply insert_desc_perm | now apply perm_skip].
Qed.

Lemma partition_perm {A} (f : A -> bool) l :
  Permutation (filter f l ++ filter (fun x => negb (f x)) l) l.
Proof.
  induction l as [|a l IH]; cbn [filter]; [apply Permutation_refl|].
  destruct (f a); cbn [negb app].
  - now apply perm_skip.
  - eapply Permutation_trans; [apply Permutation_sym, Permutation_middle | now apply perm_skip].
Qed.

(* since /repo cf1c479, for ALL lists of hosts: what sortHostsReverseHostPort returns is a
   permutation of what it was given (before, the elements were the twice-reversed strings) *)
Theorem sort_hosts_rhp_perm l : Permutation (sort_hosts_rhp l) l.
Proof.
  destruct l as [|a [|b l]]; [apply Permutation_refl | apply Permutation_refl |].
  set (L := a :: b :: l).
  change (sort_hosts_rhp L) with (partition_exact (sort_desc host_ltb L)).
  eapply Permutation_trans; [apply partition_perm | apply sort_desc_perm].
Qed.

(* ------------------------------------------------------------------ *)
(** * Table facts *)

Lemma assoc_in_all t k p id : In (p, id) (assoc t k) -> In (k, p, id) (all_routes t).
Proof.
  induction t as [|[k' rs] t IH]; cbn [assoc all_routes flat_map]; [tauto|].
  intros H. apply in_or_app. destruct (beq k' k) eqn:E.
  - apply beq_eq in E. subst. left. cbn [fst snd].
    apply in_map_iff. exists (p, id). split; [reflexivity | exact H].
  - right. now apply IH.
Qed.

Lemma all_routes_in t k p id :
  In (k, p, id) (all_routes t) <-> exists rs, In (k, rs) t /\ In (p, id) rs.
Proof.
  unfold all_routes. rewrite in_flat_map. split.
  - intros [[k' rs] [Hin H]]. cbn [fst snd] in H. apply in_map_iff in H as [[p' id'] [E H]].
    cbn [fst snd] in E. injection E as -> -> ->. now exists rs.
  - intros [rs [Hin H]]. exists (k, rs). split; [exact Hin|]. cbn [fst snd].
    apply in_map_iff. now exists (p, id).
Qed.

Lemma assoc_nodup t k rs : NoDup (keys t) -> In (k, rs) t -> assoc t k = rs.
Proof.
  unfold keys. induction t as [|[k' rs'] t IH]; cbn [map fst assoc In]; [tauto|].
  intros Hnd [E | Hin].
  - injection E as -> ->. now rewrite beq_refl.
  - inversion Hnd as [|? ? Hnot Hnd']; subst.
    destruct (beq k' k) eqn:E.
    + apply beq_eq in E. subst. exfalso. apply Hnot.
      apply in_map_iff. exists (k, rs). split; [reflexivity | exact Hin].
    + now apply IH.
Qed.

Definition sorted_routes (rs : list route) : Prop :=
  StronglySorted (kge route_ltb) rs.
Definition table_sorted (t : table) : Prop := Forall (fun e => sorted_routes (snd e)) t.

Lemma assoc_sorted t k : table_sorted t -> sorted_routes (assoc t k).
Proof.
  induction t as [|[k' rs] t IH]; cbn [assoc]; intros H.
  - constructor.
  - inversion H; subst. destruct (beq k' k); [assumption | now apply IH].
Qed.

Lemma new_table_sorted defs : table_sorted (new_table defs).
Proof.
  unfold new_table, table_sorted. apply Forall_forall. intros e He.
  apply in_map_iff in He as [e' [<- _]]. cbn [snd].
  apply sort_desc_sorted; [apply route_ltb_asym | apply route_ltb_ge_trans].
Qed.

(* ------------------------------------------------------------------ *)
(** * Well-formed host keys *)

Definition rhp_stable (k : str) : Prop := reverse_host_port (reverse_host_port k) = k.
Definition wf_keys (t : table) : Prop :=
  Forall (fun k => lower k = k) (keys t).

Lemma partition_exact_in l h : In h (partition_exact l) <-> In h l.
Proof.
  unfold partition_exact. rewrite in_app_iff, !filter_In.
  destruct (is_exact_host h); cbn [negb]; intuition congruence.
Qed.

Lemma sort_hosts_rhp_in l h : In h (sort_hosts_rhp l) <-> In h l.
Proof.
  split; apply Permutation_in; [apply sort_hosts_rhp_perm | apply Permutation_sym, sort_hosts_rhp_perm].
Qed.

(* keys without a colon are never altered by ReverseHostPort twice *)
Lemma last_index_byte_none s c : existsb (fun x => x =? c) s = false -> last_index_byte s c = None.
Proof.
  intros H. unfold last_index_byte.
  assert (E : index_byte (rev s) c = None).
  { assert (Hr : existsb (fun x => x =? c) (rev s) = false).
    { destruct (existsb (fun x => x =? c) (rev s)) eqn:E; [|reflexivity].
      apply existsb_exists in E as [x [Hx Hc]]. apply in_rev in Hx.
      rewrite (existsb_false _ _ _ H Hx) in Hc. discriminate. }
    clear H. induction (rev s) as [|x r IH]; [reflexivity|].
    cbn [existsb] in Hr. apply orb_false_iff in Hr as [Hx Hr].
    cbn [index_byte]. rewrite Hx. now rewrite (IH Hr). }
  now rewrite E.
Qed.

Lemma rhp_nocolon s : has_colon s = false -> reverse_host_port s = rev s.
Proof.
  intros H. unfold reverse_host_port, split_host_port.
  unfold has_colon in H. now rewrite (last_index_byte_none _ _ H).
Qed.

Lemma has_colon_rev s : has_colon (rev s) = has_colon s.
Proof.
  unfold has_colon. destruct (existsb (fun c => c =? ch_colon) s) eqn:E.
  - apply existsb_exists in E as [x [Hx Hc]]. apply existsb_exists. exists x.
    split; [now apply in_rev in Hx | exact Hc].
  - destruct (existsb (fun c => c =? ch_colon) (rev s)) eqn:E'; [|reflexivity].
    apply existsb_exists in E' as [x [Hx Hc]]. apply in_rev in Hx.
    rewrite (existsb_false _ _ _ E Hx) in Hc. discriminate.
Qed.

Lemma rhp_stable_nocolon k : has_colon k = false -> rhp_stable k.
Proof.
  intros H. unfold rhp_stable. rewrite (rhp_nocolon k H).
  rewrite rhp_nocolon by (now rewrite has_colon_rev). apply rev_involutive.
Qed.

(* ------------------------------------------------------------------ *)
(** * lower / has_upper *)
Lemma lower_no_upper s : has_upper s = false -> lower s = s.
Proof.
  unfold has_upper, lower. induction s as [|c s IH]; cbn [existsb map]; [reflexivity|].
  intros H. apply orb_false_iff in H as [Hc Hs].
  unfold lower_byte at 1. rewrite Hc. now rewrite IH.
Qed.

Lemma in_firstn {A} (x : A) n : forall s, In x (firstn n s) -> In x s.
Proof.
  induction n as [|n IH]; intros [|a s]; cbn [firstn In]; try tauto.
  intros [-> | H]; [now left | right; now apply IH].
Qed.

Lemma has_upper_firstn n s : has_upper s = false -> has_upper (firstn n s) = false.
Proof.
  unfold has_upper. intros H. destruct (existsb is_upper (firstn n s)) eqn:E; [|reflexivity].
  apply existsb_exists in E as [x [Hx Hc]]. apply in_firstn in Hx.
  rewrite (existsb_false _ _ _ H Hx) in Hc. discriminate.
Qed.

Lemma has_upper_strip host tls : has_upper host = false -> has_upper (strip_port host tls) = false.
Proof.
  intros H. unfold strip_port, drop_last.
  destruct (negb tls && has_suffix host s_80); [now apply has_upper_firstn|].
  destruct (tls && has_suffix host s_443); [now apply has_upper_firstn | exact H].
Qed.

Lemma normalize_host_lower k tls : lower (normalize_host k tls) = normalize_host k tls.
Proof. unfold normalize_host. apply lower_idem. Qed.

(* ------------------------------------------------------------------ *)
(** * lookup1 *)
Lemma lookup1_some t h uri m k p id :
  lookup1 t h uri m = Some (k, p, id) ->
  k = lower h /\ find (fun r : route => path_match m uri (fst r)) (assoc t k) = Some (p, id).
Proof.
  unfold lookup1.
  destruct (find (fun r : route => path_match m uri (fst r)) (assoc t (lower h))) as [[p' id']|] eqn:E;
    [|discriminate].
  intros [= <- <- <-]. split; [reflexivity | exact E].
Qed.

Lemma lookup1_complete t k uri m p id :
  lower k = k -> In (p, id) (assoc t k) -> path_match m uri p = true ->
  lookup1 t k uri m <> None.
Proof.
  intros Hl Hin Hm. unfold lookup1. rewrite Hl.
  destruct (find (fun r : route => path_match m uri (fst r)) (assoc t k)) as [[p' id']|] eqn:E;
    [discriminate|].
  pose proof (find_none _ _ E _ Hin) as H. cbn [fst] in H. congruence.
Qed.

(* ------------------------------------------------------------------ *)
(** * gobwas/glob and glob semantics *)
(* the library accepts whatever glob semantics accepts ... *)
Lemma spec_path_implies m uri p : spec_path_match m uri p = true -> path_match m uri p = true.
Proof. destruct m; cbn [spec_path_match path_match]; auto. apply glob_implies_gobwas. Qed.

(* ... and outside region 6 the two agree on the selected route *)
Lemma no_dev_selected globoff tls m t host uri k p id :
  F_C03_gobwas_overlap globoff tls m t host uri = false ->
  lookup t host tls uri m globoff = Some (k, p, id) ->
  (globoff = false -> k <> [] ->
   gobwas_match (normalize_host k tls) (normalize_host host tls)
   = glob_match (normalize_host k tls) (normalize_host host tls))
  /\ spec_path_match m uri p = path_match m uri p.
Proof.
  unfold F_C03_gobwas_overlap. intros H Hl. rewrite Hl in H.
  apply orb_false_iff in H as [H1 H2]. split.
  - intros -> Hk. destruct k as [|c k]; [congruence|]. cbn [negb is_nil andb] in H1.
    unfold gobwas_deviates in H1. apply negb_false_iff in H1. now apply eqb_prop in H1.
  - destruct m; try reflexivity. cbn [spec_path_match path_match].
    unfold gobwas_deviates in H2. apply negb_false_iff in H2. apply eqb_prop in H2. now symmetry.
Qed.

(* ------------------------------------------------------------------ *)
(** * The host list *)
Definition host_list (t : table) (host : str) (tls globoff : bool) : list str :=
  if globoff then matching_host_noglob t host tls else matching_hosts t host tls.

Lemma wf_keys_in t k : wf_keys t -> In k (keys t) -> lower k = k.
Proof. unfold wf_keys. rewrite Forall_forall. auto. Qed.

Lemma matching_hosts_in t host tls h :
  wf_keys t ->
  (In h (matching_hosts t host tls) <->
   In h (keys t) /\ gobwas_match (normalize_host h tls) (normalize_host host tls) = true).
Proof.
  intros _. unfold matching_hosts. fold (keys t). rewrite sort_hosts_rhp_in, filter_In. reflexivity.
Qed.

Lemma matching_host_noglob_in t host tls h :
  wf_keys t ->
  (In h (matching_host_noglob t host tls) <->
   In h (keys t) /\ beq (normalize_host h tls) (normalize_host host tls) = true).
Proof.
  intros Hwf. unfold matching_host_noglob. fold (keys t). rewrite sort_hosts_rhp_in.
  rewrite in_map_iff. split.
  - intros [k [<- Hk]]. apply filter_In in Hk as [Hk Hm].
    rewrite (wf_keys_in t k Hwf Hk). now split.
  - intros [Hk Hm]. exists h. split; [exact (wf_keys_in t h Hwf Hk)|]. apply filter_In. now split.
Qed.

(* every host handed to the per-host lookup is a key of the table that matched: the host
   list is a permutation of the matching keys (all tables, all requests; false before cf1c479,
   see [colon_key_refuted]) *)
Theorem matching_hosts_perm t host tls :
  Permutation (matching_hosts t host tls)
    (filter (fun k => gobwas_match (normalize_host k tls) (normalize_host host tls)) (keys t)).
Proof. unfold matching_hosts. apply sort_hosts_rhp_perm. Qed.

Theorem matching_host_noglob_perm t host tls :
  Permutation (matching_host_noglob t host tls)
    (map lower (filter (fun k => beq (normalize_host k tls) (normalize_host host tls)) (keys t))).
Proof. unfold matching_host_noglob. apply sort_hosts_rhp_perm. Qed.

(* ------------------------------------------------------------------ *)
(** * lookup_sound *)
Theorem lookup_sound t host tls uri m globoff c :
  wf_keys t ->
  F_C03_gobwas_overlap globoff tls m t host uri = false ->
  lookup t host tls uri m globoff = Some c ->
  In c (all_routes t) /\ is_candidate globoff tls m host uri c = true.
Proof.
  intros Hwf Hdev Hl. pose proof Hl as Hsel.
  unfold lookup in Hl. fold (host_list t host tls globoff) in Hl.
  apply first_some_some in Hl as [h [Hh H1]].
  destruct c as [[k p] id]. destruct (no_dev_selected _ _ _ _ _ _ _ _ _ Hdev Hsel) as [Dh Dp].
  apply lookup1_some in H1 as [Hk Hfind].
  apply find_some in Hfind as [Hin Hm]. cbn [fst] in Hm.
  pose proof (assoc_in_all _ _ _ _ Hin) as Hall.
  split; [exact Hall|].
  unfold is_candidate. rewrite Dp, Hm, andb_true_r.
  apply in_app_or in Hh as [Hh | [<- | []]].
  - unfold host_list in Hh. destruct globoff.
    + apply (matching_host_noglob_in t host tls h Hwf) in Hh as [Hkey Hb].
      pose proof (wf_keys_in t h Hwf Hkey) as Hlow. rewrite Hlow in Hk. subst k.
      apply orb_true_iff. right. unfold spec_host_match. exact Hb.
    + apply (matching_hosts_in t host tls h Hwf) in Hh as [Hkey Hb].
      pose proof (wf_keys_in t h Hwf Hkey) as Hlow. rewrite Hlow in Hk. subst k.
      destruct h as [|ch h0]; [reflexivity|].
      apply orb_true_iff. right. unfold spec_host_match.
      rewrite <- (Dh eq_refl); [exact Hb | discriminate].
  - cbn in Hk. subst k. reflexivity.
Qed.

(* ------------------------------------------------------------------ *)
(** * lookup_complete (no region excluded: the library's deviations only add matches) *)
Theorem lookup_complete t host tls uri m globoff c :
  wf_keys t -> NoDup (keys t) ->
  In c (all_routes t) -> is_candidate globoff tls m host uri c = true ->
  lookup t host tls uri m globoff <> None.
Proof.
  intros Hwf Hnd Hall Hc. destruct c as [[k p] id].
  pose proof Hall as Hall'. apply all_routes_in in Hall' as [rs [Hin Hp]].
  rewrite <- (assoc_nodup t k rs Hnd Hin) in Hp.
  assert (Hkey : In k (keys t)).
  { unfold keys. apply in_map_iff. now exists (k, rs). }
  pose proof (wf_keys_in t k Hwf Hkey) as Hlow.
  unfold is_candidate in Hc. apply andb_true_iff in Hc as [Hh Hm].
  apply spec_path_implies in Hm.
  unfold lookup. fold (host_list t host tls globoff).
  apply (first_some_complete _ _ k); [|now apply (lookup1_complete t k uri m p id)].
  apply in_or_app. apply orb_true_iff in Hh as [Hnil | Hh].
  - right. destruct k; [now left | discriminate].
  - left. unfold host_list. unfold spec_host_match in Hh. destruct globoff.
    + apply (matching_host_noglob_in t host tls k Hwf). split; [exact Hkey | exact Hh].
    + apply (matching_hosts_in t host tls k Hwf). split; [exact Hkey|].
      now apply glob_implies_gobwas.
Qed.

(* ------------------------------------------------------------------ *)
(** * prefix_longest_wins / iprefix_longest_wins *)
Lemma has_prefix_lower u p : has_prefix u p = true -> has_prefix (lower u) (lower p) = true.
Proof.
  intros H. apply has_prefix_spec in H as [r ->]. apply has_prefix_spec.
  exists (lower r). apply lower_app.
Qed.

(* of two case-insensitive prefixes of the same string the shorter sorts after the longer *)
Lemma longer_prefix_route_ltb u p p' id id' :
  has_prefix (lower u) (lower p) = true -> has_prefix (lower u) (lower p') = true ->
  (length p < length p')%nat -> route_ltb (p, id) (p', id') = true.
Proof.
  intros H1 H2 Hlen. unfold route_ltb. cbn [fst].
  assert (Hl : (length (lower p) < length (lower p'))%nat) by (rewrite !lower_length; exact Hlen).
  destruct (beq (lower p) (lower p')) eqn:E.
  - apply beq_eq in E. rewrite E in Hl. lia.
  - exact (prefix_shorter_lt _ _ _ H1 H2 Hl).
Qed.

Lemma lookup1_longest t h uri m k p id :
  table_sorted t -> is_prefix_matcher m = true ->
  lookup1 t h uri m = Some (k, p, id) ->
  forall p' id', In (p', id') (assoc t k) -> path_match m uri p' = true ->
                 (length p' <= length p)%nat.
Proof.
  intros Hs Hpm H1 p' id' Hin Hm. apply lookup1_some in H1 as [_ Hfind].
  pose proof (find_sorted_max route_ltb route_ltb_irrefl _ _ _ (p', id')
                (assoc_sorted t k Hs) Hfind Hin Hm) as Hge.
  unfold kge in Hge.
  apply find_some in Hfind as [_ Hp]. cbn [fst] in Hp.
  destruct (Nat.leb (length p') (length p)) eqn:E; [now apply Nat.leb_le in E|].
  apply Nat.leb_gt in E. destruct m; [| |discriminate]; cbn [path_match] in Hp, Hm.
  - rewrite (longer_prefix_route_ltb uri p p' id id' (has_prefix_lower _ _ Hp)
               (has_prefix_lower _ _ Hm) E) in Hge. discriminate.
  - rewrite (longer_prefix_route_ltb uri p p' id id' Hp Hm E) in Hge. discriminate.
Qed.

Theorem prefix_longest_wins t host tls uri globoff k p id :
  table_sorted t ->
  lookup t host tls uri MPrefix globoff = Some (k, p, id) ->
  forall p' id', In (p', id') (assoc t k) -> has_prefix uri p' = true ->
                 (length p' <= length p)%nat.
Proof.
  intros Hs Hl p' id' Hin Hm. unfold lookup in Hl.
  apply first_some_some in Hl as [h [_ H1]].
  exact (lookup1_longest t h uri MPrefix k p id Hs eq_refl H1 p' id' Hin Hm).
Qed.

(* since /repo c1f03c0 the same holds for iprefix, for all tables (no condition on the
   letter case of route paths) *)
Theorem iprefix_longest_wins t host tls uri globoff k p id :
  table_sorted t ->
  lookup t host tls uri MIPrefix globoff = Some (k, p, id) ->
  forall p' id', In (p', id') (assoc t k) -> has_prefix (lower uri) (lower p') = true ->
                 (length p' <= length p)%nat.
Proof.
  intros Hs Hl p' id' Hin Hm. unfold lookup in Hl.
  apply first_some_some in Hl as [h [_ H1]].
  exact (lookup1_longest t h uri MIPrefix k p id Hs eq_refl H1 p' id' Hin Hm).
Qed.

(* What the code implements for EVERY matcher, the glob matcher included: within the host
   that answers, the first matching route in Routes.Less order is selected -- no matching
   route of that host sorts strictly before it.  (For the two prefix matchers this order
   implies "longest matching path"; for glob patterns the length of the pattern is not a
   measure of specificity and the property's "longest path" has no independent reading.) *)
Theorem first_in_route_order t host tls uri m globoff k p id :
  table_sorted t ->
  lookup t host tls uri m globoff = Some (k, p, id) ->
  forall p' id', In (p', id') (assoc t k) -> path_match m uri p' = true ->
                 route_ltb (p, id) (p', id') = false.
Proof.
  intros Hs Hl p' id' Hin Hm. unfold lookup in Hl.
  apply first_some_some in Hl as [h [_ H1]]. apply lookup1_some in H1 as [_ Hfind].
  exact (find_sorted_max route_ltb route_ltb_irrefl _ _ _ (p', id')
           (assoc_sorted t k Hs) Hfind Hin Hm).
Qed.

(* Table.LookupHost (TCP/SNI): the routes of the key lower(host) itself, path "/" under the
   prefix matcher *)
Theorem lookup_host_exact t host k p id :
  lookup1 t host [47] MPrefix = Some (k, p, id) ->
  k = lower host /\ In (p, id) (assoc t k) /\ has_prefix [47] p = true.
Proof.
  intros H. apply lookup1_some in H as [-> Hf]. apply find_some in Hf as [Hin Hp].
  now repeat split.
Qed.

(* ------------------------------------------------------------------ *)
(** * Refutations: kernel-checked witnesses of the defects of the unchanged code.
      Each shows the region predicate and that the property's brute-force
      specification rejects what [lookup] selects. *)
Local Open Scope string_scope.

Definition ex_refuted (defs : list def) (host : str) (tls : bool) (uri : str) (m : matcher)
           (globoff : bool) (sel : option cand) : Prop :=
  let t := new_table defs in
  lookup t host tls uri m globoff = sel /\ spec_b t globoff tls m host uri sel = false.

(* F-C03-1 (REPAIRED in /repo by 3f5e3c8; this is about the code before the repair,
   [lookup_noglob_unrepaired]): an upper-case Host with glob matching disabled found
   nothing although route foo.com/ matches the request.  The current [lookup] finds it. *)
Theorem noglob_upper_host_refuted :
  let t := new_table [(bs "foo.com", bs "/", 0)] in
  lookup_noglob_unrepaired t (bs "FOO.com") false (bs "/") MPrefix = None
  /\ spec_b t true false MPrefix (bs "FOO.com") (bs "/") None = false
  /\ F_C03_upper_host_noglob true (bs "FOO.com") = true
  /\ candidates t true false MPrefix (bs "FOO.com") (bs "/") = [(bs "foo.com", bs "/", 0)]
  /\ lookup t (bs "FOO.com") false (bs "/") MPrefix true = Some (bs "foo.com", bs "/", 0).
Proof. vm_compute. repeat split; reflexivity. Qed.

(* F-C03-2 (REPAIRED in /repo by c1f03c0; about the route order before the repair,
   [new_table_unrepaired] = raw byte order): iprefix: /fo was selected although the longer
   /Foo matches too.  With the current order [new_table] the longer /Foo is selected. *)
Theorem iprefix_longest_refuted :
  let defs := [([], bs "/fo", 0); ([], bs "/Foo", 1)] in
  let told := new_table_unrepaired defs in
  let t := new_table defs in
  lookup told (bs "foo.com") false (bs "/foo/bar") MIPrefix false = Some ([], bs "/fo", 0)
  /\ spec_b told false false MIPrefix (bs "foo.com") (bs "/foo/bar") (Some ([], bs "/fo", 0)) = false
  /\ F_C03_iprefix_case MIPrefix told = true
  /\ lookup t (bs "foo.com") false (bs "/foo/bar") MIPrefix false = Some ([], bs "/Foo", 1)
  /\ spec_b t false false MIPrefix (bs "foo.com") (bs "/foo/bar") (Some ([], bs "/Foo", 1)) = true.
Proof. vm_compute. repeat split; reflexivity. Qed.

(* F-C03-3, the part REPAIRED in /repo by bc98e3c (about the host order before the repair,
   [lookup_glob_unrepaired]): the pattern ?.foo.com was tried before the exact host
   1.foo.com.  The current [lookup] selects the exact host. *)
Theorem metachar_order_refuted :
  let defs := [(bs "?.foo.com", bs "/", 0); (bs "1.foo.com", bs "/", 1)] in
  let t := new_table defs in
  lookup_glob_unrepaired t (bs "1.foo.com") false (bs "/") MPrefix = Some (bs "?.foo.com", bs "/", 0)
  /\ spec_b t false false MPrefix (bs "1.foo.com") (bs "/") (Some (bs "?.foo.com", bs "/", 0)) = false
  /\ F_C03_metachar_order_unrepaired false t = true
  /\ lookup t (bs "1.foo.com") false (bs "/") MPrefix false = Some (bs "1.foo.com", bs "/", 1)
  /\ spec_b t false false MPrefix (bs "1.foo.com") (bs "/") (Some (bs "1.foo.com", bs "/", 1)) = true.
Proof. vm_compute. repeat split; reflexivity. Qed.

(* F-C03-3, what is LEFT after bc98e3c (current code): among patterns, ?.foo.com (literal
   host suffix ".foo.com") is tried before *1.foo.com (longer suffix "1.foo.com")
   because '?' sorts above '1' *)
Theorem metachar_among_patterns_refuted :
  let defs := [(bs "?.foo.com", bs "/", 0); (bs "*1.foo.com", bs "/", 1)] in
  ex_refuted defs (bs "1.foo.com") false (bs "/") MPrefix false (Some (bs "?.foo.com", bs "/", 0))
  /\ F_C03_metachar_order false false (new_table defs) (bs "1.foo.com") = true
  /\ region (new_table defs) false false MPrefix (bs "1.foo.com") (bs "/") = Some 3.
Proof. vm_compute. repeat split; reflexivity. Qed.

(* F-C03-3, same mechanism with '*' (current code): the host a!.x matches *.x and *!.x; '*'
   (42) sorts above '!' (33) in the reversed-name sort, so *.x (literal host suffix ".x") is
   tried before *!.x (longer suffix "!.x") *)
Theorem low_byte_host_refuted :
  let defs := [(bs "*.x", bs "/", 0); (bs "*!.x", bs "/", 1)] in
  ex_refuted defs (bs "a!.x") false (bs "/") MPrefix false (Some (bs "*.x", bs "/", 0))
  /\ beats false false MPrefix (bs "*!.x", bs "/", 1) (bs "*.x", bs "/", 0) = true
  /\ region (new_table defs) false false MPrefix (bs "a!.x") (bs "/") = Some 3.
Proof. vm_compute. repeat split; reflexivity. Qed.

(* F-C03-4 (REPAIRED in /repo by bc98e3c; about the host order before the repair): *foo.com
   was tried before the exact host foo.com for request foo.com.  The current [lookup]
   selects the exact host. *)
Theorem empty_star_beats_exact_refuted :
  let defs := [(bs "*foo.com", bs "/", 0); (bs "foo.com", bs "/", 1)] in
  let t := new_table defs in
  lookup_glob_unrepaired t (bs "foo.com") false (bs "/") MPrefix = Some (bs "*foo.com", bs "/", 0)
  /\ spec_b t false false MPrefix (bs "foo.com") (bs "/") (Some (bs "*foo.com", bs "/", 0)) = false
  /\ F_C03_empty_star false false t (bs "foo.com") = true
  /\ lookup t (bs "foo.com") false (bs "/") MPrefix false = Some (bs "foo.com", bs "/", 1)
  /\ spec_b t false false MPrefix (bs "foo.com") (bs "/") (Some (bs "foo.com", bs "/", 1)) = true.
Proof. vm_compute. repeat split; reflexivity. Qed.

(* F-C03-7 (introduced by /repo bc98e3c, REPAIRED by its follow-up 1814501; about the
   intermediate host order [lookup_glob_bc98e3c]): with an empty normalised host the key ""
   of the host-less routes matched, counted as exact and was moved in front of the pattern
   "*": the host-less route was used although a host-specific route matches.  The current
   [lookup] (the empty key is not an exact host) selects the route of "*". *)
Theorem empty_host_hostless_first_refuted :
  let defs := [([], bs "/", 0); (bs "*", bs "/", 1)] in
  let t := new_table defs in
  lookup_glob_bc98e3c t [] false (bs "/") MPrefix = Some ([], bs "/", 0)
  /\ spec_b t false false MPrefix [] (bs "/") (Some ([], bs "/", 0)) = false
  /\ F_C03_empty_host false t [] = true
  /\ beats false false MPrefix (bs "*", bs "/", 1) ([], bs "/", 0) = true
  /\ lookup t [] false (bs "/") MPrefix false = Some (bs "*", bs "/", 1)
  /\ spec_b t false false MPrefix [] (bs "/") (Some (bs "*", bs "/", 1)) = true.
Proof. vm_compute. repeat split; reflexivity. Qed.

(* F-C03-5 (REPAIRED in /repo by cf1c479; about the host sort before the repair,
   [lookup_glob_double_unrepaired]): the key "foo.com:" matches host "foo.com:" but was
   rewritten to "foo.com" by the two applications of ReverseHostPort: a string that is not
   among the matching keys was handed to the per-host lookup and the route of a key whose
   pattern does NOT match the host was selected.  The current [lookup] keeps the keys as
   they are and selects the route of "foo.com:". *)
Theorem colon_key_refuted :
  let defs := [(bs "foo.com:", bs "/", 0); (bs "foo.com", bs "/", 1); (bs "*", bs "/", 2)] in
  let t := new_table defs in
  lookup_glob_double_unrepaired t (bs "foo.com:") false (bs "/") MPrefix = Some (bs "foo.com", bs "/", 1)
  /\ spec_b t false false MPrefix (bs "foo.com:") (bs "/") (Some (bs "foo.com", bs "/", 1)) = false
  /\ F_C03_colon_key t = true
  /\ is_candidate false false MPrefix (bs "foo.com:") (bs "/") (bs "foo.com", bs "/", 1) = false
  /\ matching_hosts_double_unrepaired t (bs "foo.com:") false = [bs "foo.com"; bs "*"]
  /\ matching_hosts t (bs "foo.com:") false = [bs "foo.com:"; bs "*"]
  /\ lookup t (bs "foo.com:") false (bs "/") MPrefix false = Some (bs "foo.com:", bs "/", 0)
  /\ spec_b t false false MPrefix (bs "foo.com:") (bs "/") (Some (bs "foo.com:", bs "/", 0)) = true.
Proof. vm_compute. repeat split; reflexivity. Qed.

(* F-C03-6: gobwas/glob matches b.*.com on b.com (prefix "b." and suffix ".com" overlap) *)
Theorem gobwas_overlap_refuted :
  let defs := [(bs "b.*.com", bs "/", 0)] in
  ex_refuted defs (bs "b.com") false (bs "/") MPrefix false (Some (bs "b.*.com", bs "/", 0))
  /\ F_C03_gobwas_overlap false false MPrefix (new_table defs) (bs "b.com") (bs "/") = true
  /\ glob_match (bs "b.*.com") (bs "b.com") = false.
Proof. vm_compute. repeat split; reflexivity. Qed.

(* non-vacuity of the hypotheses of the positive theorems: the table of the directed
   class "longer-suffix-3" is well formed, sorted, outside every region, has three
   candidates, and the selection is the most specific one *)
Definition ex_defs : list def :=
  [(bs "*.com", bs "/", 0); (bs "*.a.foo.com", bs "/", 1); (bs "*.a.foo.com", bs "/x", 4);
   (bs "*.foo.com", bs "/", 2); (bs "*", bs "/", 3)].

Lemma ex_wf_keys : wf_keys (new_table ex_defs).
Proof.
  unfold wf_keys. vm_compute keys. repeat constructor.
Qed.

Theorem lookup_nonvacuous :
  let t := new_table ex_defs in
  wf_keys t /\ NoDup (keys t) /\ table_sorted t
  /\ region t false false MPrefix (bs "B.A.FOO.COM") (bs "/x/y") = None
  /\ length (candidates t false false MPrefix (bs "B.A.FOO.COM") (bs "/x/y")) = 5%nat
  /\ lookup t (bs "B.A.FOO.COM") false (bs "/x/y") MPrefix false = Some (bs "*.a.foo.com", bs "/x", 4).
Proof.
  split; [exact ex_wf_keys|]. split.
  { vm_compute keys. repeat constructor; cbn [In]; intros H;
      repeat (destruct H as [H|H]; [discriminate H|]); exact H. }
  split; [apply new_table_sorted|]. vm_compute. repeat split; reflexivity.
Qed.
