(** Proofs about Model/BasicSchemes.v (a set of basic schemes in one process).  Statements are
    re-exported by Properties/C12.v. *)
From Coq Require Import String List NArith Bool Lia.
From Fabio Require Import Lib.Outcome Lib.Bytes Model.Access Proofs.Access Model.BasicReload Proofs.BasicReload
     Model.BasicSchemes.
Import ListNotations.
Local Open Scope N_scope.

(* ================= the association list ================= *)
Lemma sget_sput_same {A} (l : list (str * A)) n a a0 :
  sget l n = Some a0 -> sget (sput l n a) n = Some a.
Proof.
  induction l as [|[n' a'] r IH]; cbn [sget sput]; [discriminate|].
  destruct (beq n' n) eqn:E; cbn [sget]; rewrite E; [reflexivity | exact IH].
Qed.

Lemma sget_sput_other {A} (l : list (str * A)) n m a :
  beq n m = false -> sget (sput l n a) m = sget l m.
Proof.
  intros Hnm. induction l as [|[n' a'] r IH]; cbn [sget sput]; [reflexivity|].
  destruct (beq n' n) eqn:E; cbn [sget].
  - apply beq_eq in E. subst n'. now rewrite Hnm.
  - destruct (beq n' m); [reflexivity | exact IH].
Qed.

Lemma sget_sboot cfg n :
  sget (sboot cfg) n = match sget cfg n with Some k => Some (new_basic k) | None => None end.
Proof.
  induction cfg as [|[n' k] r IH]; [reflexivity|]. cbn [sboot map sget fst snd].
  destruct (beq n' n); [reflexivity | exact IH].
Qed.

(* ================= the parts of a schedule / a trace ================= *)
Lemma events_of_app n a b : events_of n (a ++ b) = events_of n a ++ events_of n b.
Proof. unfold events_of. apply flat_map_app. Qed.

Lemma events_of_map_same n ev : events_of n (map (SEv n) ev) = ev.
Proof.
  induction ev as [|e r IH]; [reflexivity|]. cbn [map events_of flat_map].
  rewrite beq_refl. cbn [app]. f_equal. exact IH.
Qed.

Lemma events_of_map_other n m ev : beq m n = false -> events_of n (map (SEv m) ev) = [].
Proof.
  intros H. induction ev as [|e r IH]; [reflexivity|]. cbn [map events_of flat_map].
  rewrite H. cbn [app]. exact IH.
Qed.

Lemma rrun_cons_fst st a r :
  fst (rrun st (a :: r)) = fst (rstep st a) ++ fst (rrun (snd (rstep st a)) r).
Proof.
  cbn [rrun]. destruct (rstep st a) as [ev st1]. cbn [fst snd]. destruct (rrun st1 r) as [e s]. reflexivity.
Qed.

Lemma srun_cons_fst ss a r :
  fst (srun ss (a :: r)) = fst (sstep ss a) ++ fst (srun (snd (sstep ss a)) r).
Proof.
  cbn [srun]. destruct (sstep ss a) as [ev s1]. cbn [fst snd]. destruct (srun s1 r) as [e s]. reflexivity.
Qed.

Lemma srun_cons_snd ss a r : snd (srun ss (a :: r)) = snd (srun (snd (sstep ss a)) r).
Proof.
  cbn [srun]. destruct (sstep ss a) as [ev s1]. cbn [snd]. destruct (srun s1 r) as [e s]. reflexivity.
Qed.

Lemma authorized_known ss n s c :
  n <> [] -> sget ss n = Some s -> authorized n (set_table ss) c = basic_authorized (sc_st s) c.
Proof.
  intros Hn Hs. unfold authorized, set_table. destruct n as [|x n]; [contradiction|].
  cbn [is_nil]. now rewrite Hs.
Qed.

Lemma authorized_unknown ss n c :
  n <> [] -> sget ss n = None -> authorized n (set_table ss) c = false.
Proof.
  intros Hn Hs. unfold authorized, set_table. destruct n as [|x n]; [contradiction|].
  cbn [is_nil]. now rewrite Hs.
Qed.

(* ================= one step, seen from the scheme named n ================= *)
Lemma sstep_project ss m a n s :
  n <> [] -> sget ss n = Some s ->
  if beq m n
  then events_of n (fst (sstep ss (SOn m a))) = fst (rstep (sc_st s) a) /\
       sget (snd (sstep ss (SOn m a))) n = Some {| sc_realm := sc_realm s; sc_st := snd (rstep (sc_st s) a) |}
  else events_of n (fst (sstep ss (SOn m a))) = [] /\ sget (snd (sstep ss (SOn m a))) n = Some s.
Proof.
  intros Hn Hs. destruct (beq m n) eqn:E.
  - apply beq_eq in E. subst m.
    destruct a as [f mt| | |c]; cbn [sstep].
    + rewrite Hs. cbn [rstep map fst snd]. split; [reflexivity|]. eapply sget_sput_same; exact Hs.
    + rewrite Hs. cbn [rstep map fst snd]. split; [reflexivity|]. eapply sget_sput_same; exact Hs.
    + rewrite Hs. destruct (rstep (sc_st s) ARefresher) as [ev st'] eqn:Er. cbn [fst snd].
      split; [apply events_of_map_same|]. eapply sget_sput_same; exact Hs.
    + cbn [fst snd rstep]. rewrite (authorized_known ss n s c Hn Hs).
      split.
      * cbn [events_of flat_map]. rewrite beq_refl. reflexivity.
      * rewrite Hs. destruct s; reflexivity.
  - assert (Hother : forall a0, match a0 with ARequest _ => False | _ => True end ->
              events_of n (fst (sstep ss (SOn m a0))) = [] /\ sget (snd (sstep ss (SOn m a0))) n = Some s).
    { intros a0 Ha0. destruct a0 as [f mt| | |c]; try contradiction; cbn [sstep];
        (destruct (sget ss m) as [sm|] eqn:Em; [|cbn [fst snd]; split; [reflexivity | exact Hs]]).
      - cbn [rstep map fst snd]. split; [reflexivity|]. rewrite sget_sput_other by exact E. exact Hs.
      - cbn [rstep map fst snd]. split; [reflexivity|]. rewrite sget_sput_other by exact E. exact Hs.
      - destruct (rstep (sc_st sm) ARefresher) as [ev st'] eqn:Er. cbn [fst snd].
        split; [now apply events_of_map_other|]. rewrite sget_sput_other by exact E. exact Hs. }
    destruct a as [f mt| | |c]; try (apply Hother; exact I).
    cbn [sstep fst snd]. split; [|exact Hs].
    cbn [events_of flat_map]. rewrite E. reflexivity.
Qed.

(* ================= ISOLATION: a scheme inside a set behaves as if it were alone ================= *)
(* whatever the other schemes are, whatever their realms, whatever happens to them and whatever is
   requested on their routes: the events of scheme n are exactly those of the single machine of
   Model/BasicReload.v run on n's own actions, and so is its state; its realm never changes *)
Lemma srun_project sched : forall ss n s,
  n <> [] -> sget ss n = Some s ->
  events_of n (fst (srun ss sched)) = fst (rrun (sc_st s) (actions_of n sched)) /\
  sget (snd (srun ss sched)) n
  = Some {| sc_realm := sc_realm s; sc_st := snd (rrun (sc_st s) (actions_of n sched)) |}.
Proof.
  induction sched as [|[m a] rest IH]; intros ss n s Hn Hs.
  - cbn [srun actions_of flat_map rrun fst snd events_of]. split; [reflexivity|]. rewrite Hs. destruct s; reflexivity.
  - rewrite srun_cons_fst, srun_cons_snd, events_of_app.
    pose proof (sstep_project ss m a n s Hn Hs) as P.
    cbn [actions_of flat_map]. fold (actions_of n rest).
    destruct (beq m n) eqn:E.
    + destruct P as [P1 P2]. cbn [app].
      destruct (IH _ n _ Hn P2) as [I1 I2]. cbn [sc_st sc_realm] in I1, I2.
      rewrite rrun_cons_fst, rrun_cons_snd, P1, I1. split; [reflexivity | exact I2].
    + destruct P as [P1 P2]. cbn [app].
      destruct (IH _ n _ Hn P2) as [I1 I2].
      rewrite P1. cbn [app]. split; [exact I1 | exact I2].
Qed.

Theorem schemes_isolated cfg sched n k :
  n <> [] -> sget cfg n = Some k ->
  events_of n (fst (srun (sboot cfg) sched))
  = fst (rrun (rboot (bc_file k) (bc_mtime k)) (actions_of n sched)) /\
  sget (snd (srun (sboot cfg) sched)) n
  = Some {| sc_realm := bc_realm k;
            sc_st := snd (rrun (rboot (bc_file k) (bc_mtime k)) (actions_of n sched)) |}.
Proof.
  intros Hn Hk.
  assert (Hs : sget (sboot cfg) n = Some (new_basic k)) by (rewrite sget_sboot, Hk; reflexivity).
  exact (srun_project sched (sboot cfg) n (new_basic k) Hn Hs).
Qed.

(* a name that is not configured stays unknown, and every request on a route naming it is rejected *)
Lemma srun_unknown sched : forall ss n,
  n <> [] -> sget ss n = None ->
  sget (snd (srun ss sched)) n = None /\
  forall c b, In (SEv n (EvVerdict c b)) (fst (srun ss sched)) -> b = false.
Proof.
  induction sched as [|[m a] rest IH]; intros ss n Hn Hs.
  - cbn [srun fst snd]. split; [exact Hs | intros c b []].
  - rewrite srun_cons_fst, srun_cons_snd.
    assert (Hstep : sget (snd (sstep ss (SOn m a))) n = None /\
                    forall c b, In (SEv n (EvVerdict c b)) (fst (sstep ss (SOn m a))) -> b = false).
    { destruct a as [f mt| | |c0]; cbn [sstep].
      1-3: destruct (sget ss m) as [sm|] eqn:Em; [|cbn [fst snd]; split; [exact Hs | intros c b []]].
      1-3: assert (Enm : beq m n = false)
             by (apply beq_neq; intros ->; rewrite Hs in Em; discriminate).
      - cbn [rstep map fst snd]. split; [now rewrite sget_sput_other | intros c b []].
      - cbn [rstep map fst snd]. split; [now rewrite sget_sput_other | intros c b []].
      - destruct (rstep (sc_st sm) ARefresher) as [ev st'] eqn:Er. cbn [fst snd].
        split; [now rewrite sget_sput_other|].
        intros c b Hin. apply in_map_iff in Hin as (e & He & _). inversion He; subst m.
        rewrite beq_refl in Enm. discriminate.
      - cbn [fst snd]. split; [exact Hs|].
        intros c b [He|[]]. inversion He; subst m c0 b. now apply authorized_unknown. }
    destruct Hstep as [S1 S2]. destruct (IH _ n Hn S1) as [I1 I2].
    split; [exact I1|]. intros c b Hin. apply in_app_or in Hin as [Hin|Hin]; eauto.
Qed.

(* ================= THE THEOREMS ================= *)
(* for every configuration (any number of schemes, any realms, any files) and every schedule over
   all schemes: a request on a route with auth=n is judged by the file scheme n has most recently
   read completely - nothing else enters: not the other schemes' files, not the realms, not what
   was requested (and accepted) before on any route *)
Theorem schemes_verdicts_follow_own_file cfg sched pre n c b post k :
  n <> [] -> sget cfg n = Some k ->
  fst (srun (sboot cfg) sched) = pre ++ SEv n (EvVerdict c b) :: post ->
  (b = true <-> file_accepts (last_loaded (bc_file k) (events_of n pre)) c).
Proof.
  intros Hn Hk H.
  destruct (schemes_isolated cfg sched n k Hn Hk) as [P _].
  rewrite H, events_of_app in P. cbn [events_of flat_map] in P. rewrite beq_refl in P.
  cbn [app] in P. fold (events_of n post) in P.
  eapply reload_verdicts_follow_loaded_file. symmetry. exact P.
Qed.

Theorem schemes_unknown_scheme_rejects cfg sched n c b :
  n <> [] -> sget cfg n = None ->
  In (SEv n (EvVerdict c b)) (fst (srun (sboot cfg) sched)) -> b = false.
Proof.
  intros Hn Hk Hin.
  assert (Hs : sget (sboot cfg) n = None) by (rewrite sget_sboot, Hk; reflexivity).
  destruct (srun_unknown sched (sboot cfg) n Hn Hs) as [_ U]. eapply U; exact Hin.
Qed.

(* the state side: what Target.Authorized answers after any schedule *)
Theorem schemes_authorized_iff cfg sched n c :
  n <> [] ->
  (authorized n (set_table (snd (srun (sboot cfg) sched))) c = true <->
   exists k, sget cfg n = Some k /\
             file_accepts (last_loaded (bc_file k) (events_of n (fst (srun (sboot cfg) sched)))) c).
Proof.
  intros Hn. destruct (sget cfg n) as [k|] eqn:Hk.
  - destruct (schemes_isolated cfg sched n k Hn Hk) as [P1 P2].
    rewrite (authorized_known _ n _ c Hn P2). cbn [sc_st]. rewrite P1.
    rewrite (basic_authorized_iff (last_loaded (bc_file k) (fst (rrun (rboot (bc_file k) (bc_mtime k)) (actions_of n sched)))))
      by apply reload_in_force_is_loaded_file.
    split.
    + intros H. exists k. split; [reflexivity | exact H].
    + intros (k' & [= <-] & H). exact H.
  - assert (Hs : sget (sboot cfg) n = None) by (rewrite sget_sboot, Hk; reflexivity).
    destruct (srun_unknown sched (sboot cfg) n Hn Hs) as [U _].
    rewrite (authorized_unknown _ n c Hn U). split; [discriminate | intros (k & E & _); discriminate].
Qed.

(* composed with the gate of ServeHTTP: forwarded (or redirected) through a route with auth=n only
   if n is configured and the file n has most recently read accepts the credentials *)
Theorem schemes_forwarded_only_if_own_file_accepts parse_ip split_host cfg sched tg remote xff c :
  t_auth tg <> [] ->
  (In EUpstream (serve_http parse_ip split_host bcreds (Some tg)
                   (set_table (snd (srun (sboot cfg) sched))) remote xff c)
   \/ exists code, In (ERedirect code) (serve_http parse_ip split_host bcreds (Some tg)
                   (set_table (snd (srun (sboot cfg) sched))) remote xff c)) ->
  exists k, sget cfg (t_auth tg) = Some k /\
            file_accepts (last_loaded (bc_file k) (events_of (t_auth tg) (fst (srun (sboot cfg) sched)))) c.
Proof.
  intros Hne H. apply schemes_authorized_iff; [exact Hne|].
  destruct H as [H|[code H]].
  - apply gate_before_upstream_http in H as (tg' & [= <-] & _ & A & _). exact A.
  - apply gate_before_redirect_http in H as (tg' & [= <-] & _ & _ & _ & A). exact A.
Qed.

(* otherwise 401 - in particular for credentials that ANOTHER scheme of the set accepts, and has
   accepted earlier in the schedule, whatever realm the two schemes announce *)
Theorem schemes_rejected_gets_401 parse_ip split_host cfg sched tg remote xff c :
  t_auth tg <> [] ->
  access_denied_http parse_ip split_host (t_rules tg) remote xff = false ->
  (forall k, sget cfg (t_auth tg) = Some k ->
             ~ file_accepts (last_loaded (bc_file k) (events_of (t_auth tg) (fst (srun (sboot cfg) sched)))) c) ->
  serve_http parse_ip split_host bcreds (Some tg)
             (set_table (snd (srun (sboot cfg) sched))) remote xff c = [ERespond 401].
Proof.
  intros Hne Hd Hn. apply unauthorized_gets_401; [exact Hd|].
  destruct (authorized _ _ c) eqn:A; [|reflexivity]. exfalso.
  apply schemes_authorized_iff in A as (k & Hk & Hf); [|exact Hne]. exact (Hn k Hk Hf).
Qed.

(* the challenge a request without Basic credentials gets names the realm of the route's own scheme *)
Theorem schemes_challenge_is_own_realm cfg sched auth c r :
  route_challenge auth (snd (srun (sboot cfg) sched)) c = Some r ->
  exists k, sget cfg auth = Some k /\ r = bc_realm k /\ c_ok c = false.
Proof.
  unfold route_challenge. destruct auth as [|x n]; cbn [is_nil]; [discriminate|].
  assert (Hn : x :: n <> []) by discriminate.
  destruct (sget cfg (x :: n)) as [k|] eqn:Hk.
  - destruct (schemes_isolated cfg sched (x :: n) k Hn Hk) as [_ P2]. rewrite P2.
    unfold basic_challenge. cbn [sc_realm]. destruct (c_ok c); cbn [negb]; [discriminate|].
    intros [= <-]. exists k. repeat split.
  - assert (Hs : sget (sboot cfg) (x :: n) = None) by (rewrite sget_sboot, Hk; reflexivity).
    destruct (srun_unknown sched (sboot cfg) (x :: n) Hn Hs) as [U _]. rewrite U. discriminate.
Qed.

(* ================= non-vacuity: two schemes, two files, ONE realm ================= *)
Definition ex_root : bcreds := {| c_ok := true; c_user := bs "root"; c_pw := bs "s3cr3t" |}.
Definition ex_alice_vault_pw : bcreds := {| c_ok := true; c_user := bs "alice"; c_pw := bs "s3cr3t" |}.
Definition ex_nocreds : bcreds := {| c_ok := false; c_user := []; c_pw := [] |}.
Definition ex_vault_file : hfile := [HUser (bs "root") (bs "s3cr3t")].
Definition ex_two_schemes : schemes_cfg :=
  [(bs "staff", {| bc_realm := bs "Restricted"; bc_file := ex_file1; bc_mtime := 1 |});
   (bs "vault", {| bc_realm := bs "Restricted"; bc_file := ex_vault_file; bc_mtime := 1 |})].
(* alice (a staff user only) on the vault route, on the staff route, root on the vault route, alice
   on the vault route again, alice with the vault password on the staff route, a route naming an
   unknown scheme *)
Definition ex_cross_sched : list saction :=
  [SOn (bs "vault") (ARequest ex_alice); SOn (bs "staff") (ARequest ex_alice);
   SOn (bs "vault") (ARequest ex_root); SOn (bs "vault") (ARequest ex_alice);
   SOn (bs "staff") (ARequest ex_alice_vault_pw); SOn (bs "nosuch") (ARequest ex_alice)].

Theorem schemes_nonvacuous :
  fst (srun (sboot ex_two_schemes) ex_cross_sched) =
    [SEv (bs "vault") (EvVerdict ex_alice false); SEv (bs "staff") (EvVerdict ex_alice true);
     SEv (bs "vault") (EvVerdict ex_root true); SEv (bs "vault") (EvVerdict ex_alice false);
     SEv (bs "staff") (EvVerdict ex_alice_vault_pw false); SEv (bs "nosuch") (EvVerdict ex_alice false)] /\
  file_accepts ex_file1 ex_alice /\ ~ file_accepts ex_vault_file ex_alice /\
  route_challenge (bs "vault") (snd (srun (sboot ex_two_schemes) ex_cross_sched)) ex_nocreds = Some (bs "Restricted") /\
  serve_http (fun _ => None) (fun _ => Some (bs "192.0.2.7")) bcreds
             (Some {| t_rules := no_rules; t_auth := bs "vault"; t_redirect := 0 |})
             (set_table (snd (srun (sboot ex_two_schemes) ex_cross_sched))) (bs "192.0.2.7:4711") [] ex_alice
  = [ERespond 401] /\
  serve_http (fun _ => None) (fun _ => Some (bs "192.0.2.7")) bcreds
             (Some {| t_rules := no_rules; t_auth := bs "staff"; t_redirect := 0 |})
             (set_table (snd (srun (sboot ex_two_schemes) ex_cross_sched))) (bs "192.0.2.7:4711") [] ex_alice
  = [EUpstream].
Proof.
  split; [vm_compute; reflexivity|].
  assert (N1 : str_nodup (users_of ex_file1) = true) by (vm_compute; reflexivity).
  assert (N2 : str_nodup (users_of ex_vault_file) = true) by (vm_compute; reflexivity).
  split; [apply (file_accepts_b_spec _ _ N1); vm_compute; reflexivity|].
  split; [intros H; apply (file_accepts_b_spec _ _ N2) in H; vm_compute in H; discriminate|].
  split; [vm_compute; reflexivity|].
  split; vm_compute; reflexivity.
Qed.
