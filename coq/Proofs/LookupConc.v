(** C06 - the composed concurrent lookup (Model/LookupConc.v): for EVERY schedule of any number of requests and
    table replacements, the answer a request gets is the pure lookup on the table it loaded. *)
From Coq Require Import String List NArith Bool Arith Lia.
From Fabio Require Import Lib.Outcome Lib.Bytes Model.Interleave Model.GlobCacheC06 Model.LookupConc
  Proofs.Interleave Proofs.GlobCacheC06.
Import ListNotations.

Section Match.
Variable hmatch : str -> str -> bool.
Variable size : nat.

(* ---- small facts ---- *)
Lemma eq_rid_true : forall a b, eq_rid a b = true <-> a = b.
Proof.
  intros [a1 a2] [b1 b2]. unfold eq_rid. cbn [fst snd]. rewrite andb_true_iff, !Nat.eqb_eq. split.
  - intros [-> ->]. reflexivity.
  - intros H. inversion H. auto.
Qed.
Definition agrees (f : rid -> N) (d : list (rid * N)) : Prop := Forall (fun x => f (fst x) = snd x) d.
Lemma drawn_fn_agrees : forall d, NoDup (map fst d) -> agrees (drawn_fn d) d.
Proof.
  induction d as [|x d IH]; intros H; [constructor|]. inversion H as [|? ? H1 H2]; subst. constructor.
  - unfold drawn_fn. cbn [find]. rewrite (proj2 (eq_rid_true (fst x) (fst x)) eq_refl). reflexivity.
  - specialize (IH H2). unfold agrees in *. rewrite Forall_forall in *. intros y Hy.
    unfold drawn_fn. cbn [find]. destruct (eq_rid (fst x) (fst y)) eqn:E.
    + apply eq_rid_true in E. exfalso. apply H1. rewrite E. now apply in_map.
    + apply (IH y Hy).
Qed.
Lemma number_nth : forall {A} (l : list A) i k x, nth_error l k = Some x -> nth_error (number i l) k = Some (i + k, x).
Proof.
  intros A l. induction l as [|a l IH]; intros i [|k] x H; cbn in *; try discriminate.
  - inversion H. now rewrite Nat.add_0_r.
  - rewrite (IH (S i) k x H). f_equal. f_equal. lia.
Qed.
Lemma number_length : forall {A} (l : list A) i, length (number i l) = length l.
Proof. intros A l. induction l; intros i; cbn; auto. Qed.
Lemma number_skipn : forall {A} (l : list A) i k, skipn k (number i l) = number (i + k) (skipn k l).
Proof.
  intros A l. induction l as [|a l IH]; intros i [|k]; cbn; try reflexivity; try (now rewrite Nat.add_0_r).
  rewrite IH. f_equal. lia.
Qed.

Lemma skipn_S_tl : forall {A} (l : list A) i x y, skipn i l = x :: y -> skipn (S i) l = y.
Proof.
  intros A l. induction l as [|a l IH]; intros [|i] x y H; cbn in *; try discriminate.
  - now inversion H.
  - eapply IH. exact H.
Qed.

(* the patterns among the first k that match *)
Definition matching_upto (tb : ctable) (host : str) (k : nat) : list nat :=
  map fst (filter (fun kp => hmatch (fst (snd kp)) host) (firstn k (number O (ct_hosts tb)))).
Lemma matching_upto_S : forall tb host k p rs, nth_error (ct_hosts tb) k = Some (p, rs) ->
  matching_upto tb host (S k) = matching_upto tb host k ++ (if hmatch p host then [k] else []).
Proof.
  intros tb host k p rs H. unfold matching_upto.
  assert (N : nth_error (number 0 (ct_hosts tb)) k = Some (k, (p, rs))) by (rewrite (number_nth _ 0 k _ H); reflexivity).
  assert (Fg : forall {A} (l : list A) k x, nth_error l k = Some x -> firstn (S k) l = firstn k l ++ [x]).
  { intros A l. induction l as [|a l IH]; intros [|k'] x Hx; cbn in *; try discriminate.
    - now inversion Hx.
    - f_equal. now apply IH. }
  pose proof (Fg _ _ _ _ N) as F.
  rewrite F, filter_app, map_app. cbn [filter fst snd]. destruct (hmatch p host); reflexivity.
Qed.
Lemma matching_upto_all : forall tb host k, nth_error (ct_hosts tb) k = None -> matching_upto tb host k = matching hmatch tb host.
Proof.
  intros tb host k H. unfold matching_upto, matching. rewrite firstn_all2; [reflexivity|].
  rewrite number_length. now apply nth_error_None.
Qed.

Lemma g_step_keeps : forall c (l : qlocal),
  q_pat (snd (g_step c l)) = q_pat l /\ q_ok (snd (g_step c l)) = q_ok l.
Proof.
  intros c l. unfold g_step. destruct (q_at l).
  - destruct (m_load (c_m c) (q_pat l)); [split; reflexivity|]. destruct (q_ok l) eqn:E; cbn; rewrite ?E; split; reflexivity.
  - destruct (gc_get c (q_pat l) true). split; reflexivity.
  - split; reflexivity.
Qed.

(* ---- the invariant ---- *)
Definition g_inv (s : cm_shared) : Prop := cm_cur s < length (cm_tables s) /\ gc_inv size (cm_cache s).

Definition reqhosts (tb : ctable) (q : creq) : list (list route) := cand_routes tb (matching hmatch tb (cq_host q)).

Definition pick_inv (tb : ctable) (l : clocal) : Prop :=
  exists i, c_rest l = number i (skipn i (reqhosts tb (c_req l)))
    /\ Forall (fun x => fst (fst x) < i) (c_drawn l) /\ NoDup (map fst (c_drawn l))
    /\ forall f, agrees f (c_drawn l) ->
         lookup_pure_from (cq_path (c_req l)) (cq_host (c_req l)) (cq_proto (c_req l)) (reqhosts tb (c_req l)) 0 f
         = lookup_pure_from (cq_path (c_req l)) (cq_host (c_req l)) (cq_proto (c_req l)) (skipn i (reqhosts tb (c_req l))) i f.

Definition t_inv (s : cm_shared) (l : clocal) : Prop :=
  match c_at l with
  | CLoad => c_ans l = None
  | CSet _ => c_ans l = None
  | CGlob k => c_ans l = None /\ exists tb p rs, nth_error (cm_tables s) (c_gen l) = Some tb
                 /\ nth_error (ct_hosts tb) k = Some (p, rs) /\ q_pat (c_get l) = p /\ q_ok (c_get l) = true
                 /\ q_thread_ok (c_get l) /\ c_cands l = matching_upto tb (cq_host (c_req l)) k /\ c_drawn l = []
  | CPick _ => c_ans l = None /\ exists tb, nth_error (cm_tables s) (c_gen l) = Some tb /\ pick_inv tb l
  | CStop => forall a, c_ans l = Some a ->
               exists tb, nth_error (cm_tables s) (c_gen l) = Some tb /\ a = c_alone hmatch tb (c_req l) (c_drawn l)
  end.

Lemma t_inv_ext : forall s s' l more, cm_tables s' = cm_tables s ++ more -> t_inv s l -> t_inv s' l.
Proof.
  intros s s' l more E H. unfold t_inv in *.
  assert (X : forall g tb, nth_error (cm_tables s) g = Some tb -> nth_error (cm_tables s') g = Some tb).
  { intros g tb Hg. rewrite E. rewrite nth_error_app1; [assumption|]. apply nth_error_Some. congruence. }
  destruct (c_at l); try assumption.
  - destruct H as (A & tb & p & rs & H1 & H2). split; [assumption|]. exists tb, p, rs. split; [now apply X | assumption].
  - destruct H as (A & tb & H1 & H2). split; [assumption|]. exists tb. split; [now apply X | assumption].
  - intros a Ha. destruct (H a Ha) as (tb & H1 & H2). exists tb. split; [now apply X | assumption].
Qed.

(* entering the glob phase / the visits *)
Lemma next_glob_inv : forall s tb l k cands, nth_error (cm_tables s) (c_gen l) = Some tb -> c_drawn l = [] ->
  cands = matching_upto tb (cq_host (c_req l)) k -> t_inv s (next_glob tb l k cands).
Proof.
  intros s tb l k cands Ht Hd Hc. unfold next_glob. destruct (nth_error (ct_hosts tb) k) as [[p rs]|] eqn:E.
  - unfold t_inv. cbn. split; [reflexivity|]. exists tb, p, rs. repeat split; try assumption; try reflexivity; try discriminate.
  - unfold t_inv. cbn. split; [reflexivity|]. exists tb. split; [assumption|].
    unfold pick_inv. cbn. exists 0. rewrite Hd. rewrite Hc, (matching_upto_all tb _ k E).
    cbn [skipn]. unfold reqhosts. cbn. repeat split; try constructor; try (intros; reflexivity).
Qed.

Lemma c_step_inv : forall s l, 0 < size -> g_inv s -> t_inv s l ->
  g_inv (fst (c_step hmatch s l)) /\ t_inv (fst (c_step hmatch s l)) (snd (c_step hmatch s l))
  /\ exists more, cm_tables (fst (c_step hmatch s l)) = cm_tables s ++ more.
Proof.
  intros s l Hsz [G1 G2] T. unfold c_step. unfold t_inv in T. destruct (c_at l) as [|k|i0| |tbw] eqn:At.
  - (* GetTable *)
    destruct (nth_error (cm_tables s) (cm_cur s)) as [tb|] eqn:E; [|apply nth_error_None in E; lia].
    cbn [fst snd]. split; [split; assumption|]. split; [|exists []; now rewrite app_nil_r].
    apply next_glob_inv; cbn; try assumption; reflexivity.
  - (* Get in progress / returned *)
    destruct T as (A & tb & p & rs & H1 & H2 & H3 & H4 & H5 & H6 & H7).
    destruct (q_at (c_get l)) eqn:Q.
    + pose proof (g_step_inv size (cm_cache s) (c_get l) G2 H5) as [S1 S2].
      pose proof (g_step_keeps (cm_cache s) (c_get l)) as Pq.
      destruct (g_step (cm_cache s) (c_get l)) as [c' q']. cbn [fst snd] in *. destruct Pq as [P1 P2].
      split; [split; assumption|]. split; [|exists []; now rewrite app_nil_r].
      unfold t_inv. cbn. split; [reflexivity|]. exists tb, p, rs.
      split; [assumption|]. split; [assumption|]. split; [congruence|]. split; [congruence|]. split; [assumption|]. split; assumption.
    + pose proof (g_step_inv size (cm_cache s) (c_get l) G2 H5) as [S1 S2].
      pose proof (g_step_keeps (cm_cache s) (c_get l)) as Pq.
      destruct (g_step (cm_cache s) (c_get l)) as [c' q']. cbn [fst snd] in *. destruct Pq as [P1 P2].
      split; [split; assumption|]. split; [|exists []; now rewrite app_nil_r].
      unfold t_inv. cbn. split; [reflexivity|]. exists tb, p, rs.
      split; [assumption|]. split; [assumption|]. split; [congruence|]. split; [congruence|]. split; [assumption|]. split; assumption.
    + (* returned: the glob is the one of pattern k *)
      rewrite H1. destruct H5 as [_ H5]. destruct (q_res (c_get l)) as [[v| |]|] eqn:R; try contradiction; try congruence.
      cbn [fst snd]. split; [split; assumption|]. split; [|exists []; now rewrite app_nil_r].
      apply next_glob_inv; try assumption. rewrite (matching_upto_S tb _ k p rs H2). rewrite H6. subst v. rewrite H3.
      destruct (hmatch p (cq_host (c_req l))); [reflexivity | now rewrite app_nil_r].
  - (* one visit *)
    destruct T as (A & tb & H1 & i & P1 & P2 & P3 & P4).
    set (path := cq_path (c_req l)) in *. set (host := cq_host (c_req l)) in *. set (proto := cq_proto (c_req l)) in *.
    set (H := reqhosts tb (c_req l)) in *.
    destruct (c_rest l) as [|[i' rs] rest] eqn:R.
    + (* no candidate left *)
      cbn [fst snd]. split; [split; assumption|]. split; [|exists []; now rewrite app_nil_r].
      unfold t_inv, finish. cbn. intros a Ha. inversion Ha; subst a. exists tb. split; [assumption|].
      unfold c_alone, lookup_pure. fold path host proto. change (cand_routes tb (matching hmatch tb host)) with H. rewrite (P4 _ (drawn_fn_agrees _ P3)).
      destruct (skipn i H) as [|x y] eqn:Sk; [reflexivity | cbn in P1; discriminate].
    + destruct (skipn i H) as [|x y] eqn:Sk; [cbn in P1; discriminate|]. cbn [number] in P1. inversion P1; subst i' x rest. clear P1.
      assert (S' : skipn (S i) H = y).
      { eapply skipn_S_tl. exact Sk. }
      assert (Skip : forall d', (forall f, agrees f d' -> agrees f (c_drawn l)) ->
                 Forall (fun x => fst (fst x) < S i) d' -> NoDup (map fst d') ->
                 (forall f, agrees f d' -> lookup_pure_from path host proto (rs :: y) i f = lookup_pure_from path host proto y (S i) f) ->
                 pick_inv tb {| c_at := CPick (S i); c_req := c_req l; c_gen := c_gen l; c_get := c_get l; c_cands := c_cands l;
                                c_rest := number (S i) y; c_drawn := d'; c_ans := None |}).
      { intros d' Ag Lt Nd Eq. unfold pick_inv. cbn. exists (S i). fold H. rewrite S'. repeat split; try assumption.
        intros f Hf. fold path host proto. rewrite (P4 f (Ag f Hf)). now apply Eq. }
      assert (Lt' : Forall (fun x => fst (fst x) < S i) (c_drawn l)) by (eapply Forall_impl; [|exact P2]; cbn; intros; lia).
      destruct (find_route path rs 0) as [[j r]|] eqn:F.
      2:{ cbn [fst snd]. split; [split; assumption|]. split; [|exists []; now rewrite app_nil_r].
          unfold t_inv. cbn. split; [reflexivity|]. exists tb. split; [assumption|].
          apply Skip; auto. intros f _. cbn [lookup_pure_from]. rewrite F. reflexivity. }
      destruct (Nat.eqb (r_ntargets r) 0) eqn:Z.
      { cbn [fst snd]. split; [split; assumption|]. split; [|exists []; now rewrite app_nil_r].
        unfold t_inv. cbn. split; [reflexivity|]. exists tb. split; [assumption|].
        apply Skip; auto. intros f _. cbn [lookup_pure_from]. rewrite F, Z. reflexivity. }
      set (c := cm_cursor s (c_gen l) (i, j)).
      set (d' := c_drawn l ++ [((i, j), c)]).
      assert (Ag : forall f, agrees f d' -> agrees f (c_drawn l) /\ f (i, j) = c).
      { intros f Hf. unfold agrees, d' in Hf. apply Forall_app in Hf. destruct Hf as [Hf1 Hf2]. split; [assumption|]. now inversion Hf2. }
      assert (Lt2 : Forall (fun x => fst (fst x) < S i) d').
      { unfold d'. apply Forall_app. split; [assumption|]. constructor; [cbn; lia|constructor]. }
      assert (Nd2 : NoDup (map fst d')).
      { unfold d'. rewrite map_app. cbn [map fst]. apply nodup_snoc; [|assumption].
        intros X. apply in_map_iff in X. destruct X as [x [X1 X2]].
        pose proof (proj1 (Forall_forall _ _) P2 x X2) as B. assert (B' : fst (fst x) < i) by exact B. rewrite X1 in B'. cbn in B'. lia. }
      (* the shared effect: only a cursor *)
      set (s' := if Nat.eqb (r_ntargets r) 1 then s else
                 {| cm_cur := cm_cur s; cm_tables := cm_tables s; cm_cache := cm_cache s;
                    cm_cursor := fun g id => if Nat.eqb g (c_gen l) && eq_rid id (i, j) then N.modulo (c + 1) two64 else cm_cursor s g id |}).
      assert (Gs : g_inv s' /\ cm_tables s' = cm_tables s).
      { unfold s'. destruct (Nat.eqb (r_ntargets r) 1); cbn; (split; [split; assumption | reflexivity]). }
      destruct Gs as [Gs Ts].
      assert (H1' : nth_error (cm_tables s') (c_gen l) = Some tb) by (rewrite Ts; assumption).
      destruct (pick_target r c) as [t| |] eqn:Pk.
      * destruct (self_redirect r path host proto) eqn:SR; cbn [fst snd].
        -- split; [assumption|]. split; [|exists []; rewrite Ts; now rewrite app_nil_r].
           unfold t_inv. cbn. split; [reflexivity|]. exists tb. split; [assumption|].
           apply Skip; auto; [intros f Hf; now apply Ag|].
           intros f Hf. destruct (Ag f Hf) as [_ E]. cbn [lookup_pure_from]. rewrite F, Z, E, Pk, SR. reflexivity.
        -- split; [assumption|]. split; [|exists []; rewrite Ts; now rewrite app_nil_r].
           unfold t_inv. cbn. intros a Ha. inversion Ha; subst a. exists tb. split; [assumption|].
           unfold c_alone, lookup_pure. fold path host proto. change (cand_routes tb (matching hmatch tb host)) with H. fold d'.
           pose proof (drawn_fn_agrees d' Nd2) as Hf. destruct (Ag _ Hf) as [Hf1 E].
           rewrite (P4 _ Hf1). cbn [lookup_pure_from]. rewrite F, Z, E, Pk, SR. reflexivity.
      * cbn [fst snd]. split; [assumption|]. split; [|exists []; rewrite Ts; now rewrite app_nil_r].
        unfold t_inv. cbn. intros a Ha. inversion Ha; subst a. exists tb. split; [assumption|].
        unfold c_alone, lookup_pure. fold path host proto. change (cand_routes tb (matching hmatch tb host)) with H. fold d'.
        pose proof (drawn_fn_agrees d' Nd2) as Hf. destruct (Ag _ Hf) as [Hf1 E].
        rewrite (P4 _ Hf1). cbn [lookup_pure_from]. rewrite F, Z, E, Pk. reflexivity.
      * cbn [fst snd]. split; [assumption|]. split; [|exists []; rewrite Ts; now rewrite app_nil_r].
        unfold t_inv. cbn. intros a Ha. inversion Ha; subst a. exists tb. split; [assumption|].
        unfold c_alone, lookup_pure. fold path host proto. change (cand_routes tb (matching hmatch tb host)) with H. fold d'.
        pose proof (drawn_fn_agrees d' Nd2) as Hf. destruct (Ag _ Hf) as [Hf1 E].
        rewrite (P4 _ Hf1). cbn [lookup_pure_from]. rewrite F, Z, E, Pk. reflexivity.
  - (* answered *)
    cbn [fst snd]. split; [split; assumption|]. split; [|exists []; now rewrite app_nil_r].
    unfold t_inv. rewrite At. assumption.
  - (* SetTable *)
    cbn [fst snd]. unfold g_inv. cbn [cm_cur cm_tables cm_cache]. split; [split; [rewrite app_length; cbn; lia | assumption]|].
    split; [|exists [tbw]; reflexivity]. unfold t_inv, set_at. cbn. intros a Ha. congruence.
Qed.

Definition c_inv (s : cm_shared) (ts : list clocal) : Prop := g_inv s /\ Forall (t_inv s) ts.

Theorem lookup_conc_inv_l : forall sched s ts, 0 < size -> c_inv s ts ->
  c_inv (fst (run (c_step hmatch) sched s ts)) (snd (run (c_step hmatch) sched s ts)).
Proof.
  intros sched. induction sched as [|i sched IH]; intros s ts Hs [G T]; cbn [run]; [split; assumption|].
  unfold step1. destruct (nth_error ts i) as [l|] eqn:E; [|apply IH; [assumption | split; assumption]].
  assert (Tl : t_inv s l) by (eapply (proj1 (Forall_forall _ _) T); eapply nth_error_In; eassumption).
  destruct (c_step_inv s l Hs G Tl) as (S1 & S2 & more & S3). destruct (c_step hmatch s l) as [s' l']. cbn [fst snd] in *.
  apply IH; [assumption|]. split; [assumption|]. apply Forall_upd; [|assumption].
  eapply Forall_impl; [|exact T]. intros x Hx. eapply t_inv_ext; eassumption.
Qed.

(* lookup_conc_every_schedule: any number of requests and of table replacements, a shared glob cache of any
   size > 0, EVERY schedule: a request that has been answered got exactly [c_alone]: the pure lookup over those
   hosts of THE TABLE IT LOADED whose pattern matches its host (whatever the cache contained and whoever else
   used it meanwhile), with the cursor values it drew - a function of the request, that table and those cursor
   values, and of nothing else *)
Theorem lookup_conc_every_schedule_l : forall sched tb0 reqs tbs, 0 < size ->
  let s0 := {| cm_cur := 0; cm_tables := [tb0]; cm_cursor := fun _ _ => 0%N; cm_cache := gc_new size |} in
  let r := run (c_step hmatch) sched s0 (map c_init reqs ++ map c_writer tbs) in
  Forall (fun l => forall a, c_ans l = Some a ->
            exists tb, nth_error (cm_tables (fst r)) (c_gen l) = Some tb /\ a = c_alone hmatch tb (c_req l) (c_drawn l)) (snd r).
Proof.
  intros sched tb0 reqs tbs Hs s0 r.
  assert (I0 : c_inv s0 (map c_init reqs ++ map c_writer tbs)).
  { split; [split; [cbn; lia | now apply gc_new_inv]|]. apply Forall_app. split; apply Forall_forall; intros x Hx;
      apply in_map_iff in Hx; destruct Hx as [q [<- _]]; reflexivity. }
  destruct (lookup_conc_inv_l sched s0 _ Hs I0) as [_ T]. fold r in T.
  eapply Forall_impl; [|exact T]. intros l Hl a Ha. unfold t_inv in Hl.
  destruct (c_at l); try congruence.
  - destruct Hl as [Hl _]. congruence.
  - destruct Hl as [Hl _]. congruence.
  - now apply Hl.
Qed.
End Match.

(* two requests and a table replacement interleaved: the first loads the old table and is answered from it
   (its host pattern matches: target 1 of the ring at the cursor value it drew), the second loads the new one *)
Example lookup_conc_nonvacuous :
  let hm := fun p h : str => beq p h in
  let ro := {| r_path := bs "/"; r_ntargets := 2; r_ring := [0; 1]; r_redirect := None |} in
  let fb := {| r_path := bs "/"; r_ntargets := 1; r_ring := [0]; r_redirect := None |} in
  let t0 := {| ct_hosts := [(bs "a.example", [ro])]; ct_fallback := [fb] |} in
  let t1 := {| ct_hosts := []; ct_fallback := [fb] |} in
  let q := {| cq_host := bs "a.example"; cq_path := bs "/x"; cq_proto := bs "http" |} in
  let s0 := {| cm_cur := 0; cm_tables := [t0]; cm_cursor := fun _ _ => 1%N; cm_cache := gc_new 1 |} in
  let r := run (c_step hm) [0; 2; 1; 0; 0; 0; 1; 0; 1] s0 [c_init q; c_init q; c_writer t1] in
  map c_ans (snd r) = [Some (Ok (Some {| lk_route := (0, 0); lk_target := 1; lk_location := None |}));
                       Some (Ok (Some {| lk_route := (0, 0); lk_target := 0; lk_location := None |})); None]
  /\ map c_gen (snd r) = [0; 1; 0].
Proof. vm_compute. split; reflexivity. Qed.
