(** Tables reachable by route command sequences have no target-less route (C05's invariant
    [Proofs.TableCmd.run_inv], transported through the projection), hence on them
    [lookup_cmd] (Table.Lookup with the "no targets -> nil" branch) is [lookup]. *)
From Coq Require Import String List NArith Bool Lia Sorting.Sorted.
From Fabio Require Import Lib.Outcome Lib.Bytes Model.Glob Model.Lookup Model.LookupCmd Proofs.Lookup.
From Fabio Require Model.TableCmd Proofs.TableCmd.
Import ListNotations.
Local Open Scope N_scope.

Lemma first_some_ext {A B} (f g : A -> option B) l :
  (forall x, f x = g x) -> first_some f l = first_some g l.
Proof.
  intros H. induction l as [|a l IH]; cbn [first_some]; [reflexivity|]. now rewrite H, IH.
Qed.

Definition no_targetless (t : table) : Prop :=
  forall k p n, In (k, p, n) (all_routes t) -> n <> 0.

(* without target-less routes the extra branch of Table.lookup is dead *)
Theorem lookup_cmd_eq t host tls uri m globoff :
  no_targetless t -> lookup_cmd t host tls uri m globoff = lookup t host tls uri m globoff.
Proof.
  intros Hn. unfold lookup_cmd, lookup. apply first_some_ext. intros h.
  unfold lookup1c, lookup1.
  destruct (find (fun r : route => path_match m uri (fst r)) (assoc t (lower h))) as [[p n]|] eqn:E;
    [|reflexivity].
  apply find_some in E as [Hin _]. apply assoc_in_all in Hin.
  destruct (n =? 0) eqn:E0; [|reflexivity]. apply N.eqb_eq in E0. subst n.
  exfalso. exact (Hn _ _ _ Hin eq_refl).
Qed.

Lemma proj_no_targetless t0 : Proofs.TableCmd.inv t0 -> no_targetless (proj t0).
Proof.
  intros [_ Hall] k p n Hin. apply all_routes_in in Hin as [rs [Hk Hp]].
  unfold proj in Hk. apply in_map_iff in Hk as [[k0 rs0] [E Hk0]]. cbn [fst snd] in E.
  injection E as -> <-. apply sort_desc_in in Hp. unfold proj_routes in Hp.
  apply in_map_iff in Hp as [r [E Hr]]. injection E as _ <-.
  rewrite Forall_forall in Hall. destruct (Hall _ Hk0) as (_ & _ & Ht). cbn [snd] in Ht.
  rewrite Forall_forall in Ht. specialize (Ht r Hr).
  destruct (TableCmd.r_targets r); [congruence | cbn [length]; lia].
Qed.

(* every table reachable by a command sequence, of any length: no route without targets
   (the invariant that a partial sweep in delRoute would break), hosts pairwise distinct,
   routes sorted *)
Theorem cmd_table_reachable cs t :
  cmd_table cs = Ok t -> no_targetless t /\ NoDup (keys t) /\ table_sorted t.
Proof.
  unfold cmd_table. destruct (TableCmd.run idcanon anyglob (map to_def cs)) as [t0| |] eqn:E;
    try discriminate. intros [= <-].
  pose proof (Proofs.TableCmd.run_inv _ _ _ _ E) as Hinv. split; [now apply proj_no_targetless|].
  split.
  - destruct Hinv as [Hnd _]. unfold keys, proj. rewrite map_map. cbn [fst]. exact Hnd.
  - unfold table_sorted, proj. apply Forall_forall. intros e He.
    apply in_map_iff in He as [e' [<- _]]. cbn [snd].
    apply sort_desc_sorted; [apply route_ltb_asym | apply route_ltb_ge_trans].
Qed.

Corollary cmd_lookup_is_lookup cs t host tls uri m globoff :
  cmd_table cs = Ok t -> lookup_cmd t host tls uri m globoff = lookup t host tls uri m globoff.
Proof. intros H. apply lookup_cmd_eq. now destruct (cmd_table_reachable cs t H). Qed.

(* the branch is not dead in general: in a table with a target-less route (not reachable by
   commands; the state seeded change C03-G produces) that route shadows the shorter route
   shop.example.com/ : the request falls to the host-less route, or gets nil without one *)
Local Open Scope string_scope.
Theorem targetless_route_shadows :
  let t1 : table := [(bs "shop.example.com", [(bs "/api", 0); (bs "/", 1)])] in
  let t2 : table := (t1 ++ [([], [(bs "/", 1)])])%list in
  lookup_cmd t1 (bs "shop.example.com") false (bs "/api/v1") MPrefix false = None
  /\ lookup_cmd t2 (bs "shop.example.com") false (bs "/api/v1") MPrefix false = Some ([], bs "/", 1)
  /\ beats false false MPrefix (bs "shop.example.com", bs "/", 1) ([], bs "/", 1) = true.
Proof. vm_compute. repeat split; reflexivity. Qed.
